package csim

import (
	"sync"

	dbm "github.com/dappledger/AnnChain/gemmill/modules/go-db"
	sm "github.com/dappledger/AnnChain/gemmill/state"

	"github.com/dappledger/AnnChain/gemmill/go-wire"
	"github.com/dappledger/AnnChain/gemmill/modules/go-clist"
	"github.com/dappledger/AnnChain/gemmill/types"
)

// stubPool is an empty transaction pool (blocks differ by proposer/time, not by transactions).
type stubPool struct{ mtx sync.Mutex }

func (p *stubPool) Lock()                                       { p.mtx.Lock() }
func (p *stubPool) Unlock()                                     { p.mtx.Unlock() }
func (p *stubPool) Reap(count int) []types.Tx                   { return nil }
func (p *stubPool) ReceiveTx(tx types.Tx) error                 { return nil }
func (p *stubPool) Update(height int64, txs []types.Tx)         {}
func (p *stubPool) Size() int                                   { return 0 }
func (p *stubPool) TxsFrontWait() *clist.CElement               { return nil }
func (p *stubPool) Flush()                                      {}
func (p *stubPool) RegisterFilter(filter types.IFilter)         {}
func (p *stubPool) GetPendingMaxNonce([]byte) (uint64, error)   { return 0, nil }

func readBlock(ps *types.PartSet, n *int, err *error) *types.Block {
	b := wire.ReadBinary(&types.Block{}, ps.GetReader(), types.MaxBlockSize, n, err)
	if *err != nil || b == nil {
		return nil
	}
	return b.(*types.Block)
}

// ReloadValSet round-trips a validator set through go-wire exactly as State.Save / LoadState do.
func ReloadValSet(vs *types.ValidatorSet) *types.ValidatorSet {
	b := wire.BinaryBytes(vs)
	var out *types.ValidatorSet
	var err error
	wire.ReadBinaryBytes(b, &out)
	_ = err
	return out
}

// ReloadThroughState stores a State holding the given validator set with the real State.Save and reads it back
// with the real LoadState: the set a restarted node works with.
func ReloadThroughState(gen *types.GenesisDoc, vs *types.ValidatorSet, lastHeight int64) *types.ValidatorSet {
	db := dbm.NewMemDB()
	st := sm.MakeGenesisState(db, gen)
	st.Validators = vs.Copy()
	st.LastBlockHeight = lastHeight
	st.Save()
	return sm.LoadState(db).Validators
}
