// Package csim is a deterministic N-node simulator around the REAL pbft.ConsensusState.
// Every node has its own state DB, block store, WAL and signer file on disk; the three goroutines
// around ConsensusState (receiveRoutine, timeoutRoutine, reactor gossip) are replaced by a
// scheduler that plays exactly one select-case of receiveRoutine at a time through the verif shim.
// Action names and message shapes are those of specs/tendermint/Tendermint.tla.
package csim

import (
	"bytes"
	"encoding/hex"
	"encoding/json"
	"fmt"
	"io/ioutil"
	"os"
	"path/filepath"
	"sort"
	"time"

	"github.com/spf13/viper"
	"go.uber.org/zap"

	"github.com/dappledger/AnnChain/gemmill/blockchain"
	"github.com/dappledger/AnnChain/gemmill/consensus/pbft"
	crypto "github.com/dappledger/AnnChain/gemmill/go-crypto"
	dbm "github.com/dappledger/AnnChain/gemmill/modules/go-db"
	glog "github.com/dappledger/AnnChain/gemmill/modules/go-log"
	"github.com/dappledger/AnnChain/gemmill/modules/go-events"
	sm "github.com/dappledger/AnnChain/gemmill/state"
	"github.com/dappledger/AnnChain/gemmill/types"
)

const ChainID = "verif-csim"

// Msg is the abstract message of the specification.
//   t="P": proposal  h r v pol by       t="B": block part  h r v       t="V": vote  h r ty by v
// v is a value symbol: ["H",h,r,p] | ["X",h,k] | ["I",h,0] | ["nil"]
type Msg struct {
	T   string        `json:"t"`
	H   int64         `json:"h"`
	R   int64         `json:"r"`
	V   []interface{} `json:"v,omitempty"`
	Pol int64         `json:"pol"`
	By  int           `json:"by,omitempty"`
	Ty  string        `json:"ty,omitempty"`
}

func SymKey(v []interface{}) string {
	b, _ := json.Marshal(v)
	return string(b)
}

func (m Msg) Key() string {
	switch m.T {
	case "P":
		return fmt.Sprintf("P/%d/%d/%s/%d/%d", m.H, m.R, SymKey(m.V), m.Pol, m.By)
	case "B":
		return fmt.Sprintf("B/%d/%d/%s", m.H, m.R, SymKey(m.V))
	}
	return fmt.Sprintf("V/%d/%d/%s/%d/%s", m.H, m.R, m.Ty, m.By, SymKey(m.V))
}

var (
	NilSym  = []interface{}{"nil"}
	NoneSym = []interface{}{"none"}
)

// Value is a concrete block known to the simulator.
type Value struct {
	Sym   []interface{}
	Block *types.Block
	Parts *types.PartSet
}

// simExec stands in for Angine as the state's block executable: EndBlock applies the scripted validator-set change of the
// height the way plugin.AdminOp.updateValidators does (Update of the power, Add, Remove on the next validator set).
type simExec struct{ s *Sim }

func (simExec) BeginBlock(*types.Block, events.Fireable, *types.PartSetHeader) error { return nil }
func (simExec) ExecBlock(*types.Block, events.Fireable, *types.ExecuteResult) error   { return nil }
func (e simExec) EndBlock(b *types.Block, _ events.Fireable, _ *types.PartSetHeader, _ []*types.ValidatorAttr, next *types.ValidatorSet) error {
	e.s.ApplyChange(next, b.Height+1)
	return nil
}

// PowersAt returns the voting powers in force at height h.
func (s *Sim) PowersAt(h int64) []int64 {
	cur := s.Powers
	var best int64
	for k, v := range s.NextPower {
		if k <= h && k > best {
			best, cur = k, v
		}
	}
	return cur
}

// ApplyChange turns the validator set of height h-1 into the one of height h (before IncrementAccum).
func (s *Sim) ApplyChange(next *types.ValidatorSet, h int64) {
	to, ok := s.NextPower[h]
	if !ok {
		return
	}
	from := s.PowersAt(h - 1)
	for i := range to {
		if from[i] == to[i] {
			continue
		}
		pub := s.Privs[i].PubKey()
		addr := s.Addrs[i]
		switch {
		case to[i] == 0:
			next.Remove(addr)
		case from[i] == 0:
			next.Add(types.NewValidator(pub, to[i], true))
		default:
			_, val := next.GetByAddress(addr)
			val.VotingPower = to[i]
			next.Update(val)
		}
	}
}

// Node is one honest validator process.
type Node struct {
	Idx     int // 1-based validator index (address order)
	Dir     string
	Up      bool
	CS      *pbft.ConsensusState
	Ticker  *pbft.VerifTicker
	Tocks   []pbft.VerifTimeout // fired timeouts in flight
	IQ      []pbft.ConsensusMessage
	PrivVal *types.PrivValidator
	State   *sm.State
	Store   *blockchain.BlockStore
	stateDB dbm.DB
	blockDB dbm.DB
	evsw    types.EventSwitch
	conf    *viper.Viper
	Inc     int // number of restarts of this process
	Commits int // number of OnCommit hook calls (application commits) seen by this process
	Applied []int64
	callsSeen int // number of Ticker.Calls already checked by CheckTimeoutDurations
}

// Sim is the whole system.
type Sim struct {
	N        int
	Powers   []int64
	Byz      map[int]bool
	Dir      string
	Privs    []crypto.PrivKeyEd25519 // address order, index i-1
	Addrs    [][]byte
	Genesis  *types.GenesisDoc
	Nodes    map[int]*Node
	MaxRound int64

	byHash   map[string]*Value // hex block hash -> value
	byParts  map[string]*Value // hex parts-header hash -> value
	bySym    map[string]*Value
	Ledger   map[string]pbft.ConsensusMessage // abstract message key -> real message made visible by an honest node
	PartSize int
	Log      []string
	Notes    []string
	probeSeq int
	NextPower map[int64][]int64 // validator powers in force from height h on (validator-set changes applied by EndBlock of h-1)
	Live     bool // real tickers and receiveRoutines (trace-recording mode)
	PeerIdx  map[string]int // live stack mode: p2p peer key -> validator index
	bootRealTicker bool
	ProbeTicks int          // RealStartProbe: number of ScheduleTimeout calls of the stepped restart
	LiveCutSeq uint64       // live stack mode with a restart: events after this sequence number are not validated
	ByzActive bool // live mode: Byzantine validators send equivocating messages
	LiveScale int // timeout scale in ms (propose = 6x, prevote/precommit = 3x, commit = 2x)
}

// New builds an N-validator system with the given powers; byz lists Byzantine validator indices (1-based).
func New(dir string, powers []int64, byz []int, maxRound int64) (*Sim, error) {
	return newSim(dir, powers, byz, maxRound, false)
}

func newSim(dir string, powers []int64, byz []int, maxRound int64, live bool) (*Sim, error) {
	return newSimScale(dir, powers, byz, maxRound, live, 0)
}

func newSimScale(dir string, powers []int64, byz []int, maxRound int64, live bool, scale int) (*Sim, error) {
	crypto.NodeInit(crypto.CryptoTypeZhongAn)
	glog.SetLog(zap.NewNop())
	s := &Sim{Live: live, LiveScale: scale, N: len(powers), Powers: powers, Byz: map[int]bool{}, Dir: dir, Nodes: map[int]*Node{}, MaxRound: maxRound,
		byHash: map[string]*Value{}, byParts: map[string]*Value{}, bySym: map[string]*Value{},
		Ledger: map[string]pbft.ConsensusMessage{}, PartSize: 1 << 20}
	for _, b := range byz {
		s.Byz[b] = true
	}
	type kv struct {
		priv crypto.PrivKeyEd25519
		addr []byte
	}
	var ks []kv
	for i := 0; i < s.N; i++ {
		pk := crypto.GenPrivKeyEd25519FromSecret([]byte(fmt.Sprintf("csim-val-%d", i)))
		ks = append(ks, kv{pk, pk.PubKey().Address()})
	}
	sort.Slice(ks, func(a, b int) bool { return bytes.Compare(ks[a].addr, ks[b].addr) < 0 })
	gen := &types.GenesisDoc{GenesisTime: time.Unix(1500000000, 0), ChainID: ChainID, AppHash: []byte{}}
	for i, k := range ks {
		s.Privs = append(s.Privs, k.priv)
		s.Addrs = append(s.Addrs, k.addr)
		if powers[i] > 0 {
			gen.Validators = append(gen.Validators, types.GenesisValidator{PubKey: k.priv.PubKey(), Amount: powers[i], Name: fmt.Sprintf("v%d", i+1), IsCA: true})
		}
	}
	s.Genesis = gen
	for i := 1; i <= s.N; i++ {
		if s.Byz[i] {
			continue
		}
		n := &Node{Idx: i, Dir: filepath.Join(dir, fmt.Sprintf("node%d", i))}
		if err := os.MkdirAll(n.Dir, 0700); err != nil {
			return nil, err
		}
		pv, err := types.GenPrivValidator(crypto.CryptoTypeZhongAn, s.Privs[i-1])
		if err != nil {
			return nil, err
		}
		pv.SetFile(filepath.Join(n.Dir, "priv_validator.json"))
		if err := pv.Save(); err != nil {
			return nil, err
		}
		s.Nodes[i] = n
		if err := s.boot(n, true); err != nil {
			return nil, err
		}
	}
	return s, nil
}

func (s *Sim) logf(f string, a ...interface{}) {
	if len(s.Log) < 20000 {
		s.Log = append(s.Log, fmt.Sprintf(f, a...))
	}
}

// boot (re)creates the process state of a node from its directory. first: create genesis state in-process.
func (s *Sim) boot(n *Node, first bool) error {
	conf := viper.New()
	conf.Set("chain_id", ChainID)
	conf.Set("cs_wal_dir", filepath.Join(n.Dir, "cs.wal"))
	conf.Set("cs_wal_light", false)
	conf.Set("timeout_propose", 3000)
	conf.Set("timeout_propose_delta", 500)
	conf.Set("timeout_prevote", 1000)
	conf.Set("timeout_prevote_delta", 500)
	conf.Set("timeout_precommit", 1000)
	conf.Set("timeout_precommit_delta", 500)
	conf.Set("timeout_commit", 1000)
	conf.Set("skip_timeout_commit", false)
	if s.Live {
		k := s.LiveScale
		if k <= 0 {
			k = 20
		}
		conf.Set("timeout_propose", 6*k)
		conf.Set("timeout_propose_delta", 2*k)
		conf.Set("timeout_prevote", 3*k)
		conf.Set("timeout_prevote_delta", k)
		conf.Set("timeout_precommit", 3*k)
		conf.Set("timeout_precommit_delta", k)
		conf.Set("timeout_commit", 2*k)
	}
	conf.Set("block_size", 100)
	conf.Set("block_part_size", s.PartSize)
	conf.Set("db_backend", "leveldb")
	conf.Set("db_dir", filepath.Join(n.Dir, "data"))
	n.conf = conf
	if err := os.MkdirAll(filepath.Join(n.Dir, "data"), 0700); err != nil {
		return err
	}
	n.stateDB = dbm.NewDB("state", "leveldb", filepath.Join(n.Dir, "data"))
	n.blockDB = dbm.NewDB("blockstore", "leveldb", filepath.Join(n.Dir, "data"))
	var st *sm.State
	if first {
		st = sm.MakeGenesisState(n.stateDB, s.Genesis)
		st.Save()
	} else {
		st = sm.LoadState(n.stateDB)
		if st == nil {
			return fmt.Errorf("node %d: no state on disk", n.Idx)
		}
		pv, err := types.LoadPrivValidator(filepath.Join(n.Dir, "priv_validator.json"))
		if err != nil {
			return fmt.Errorf("node %d: load priv validator: %v", n.Idx, err)
		}
		n.PrivVal = pv
	}
	if first {
		pv, err := types.LoadPrivValidator(filepath.Join(n.Dir, "priv_validator.json"))
		if err != nil {
			return err
		}
		n.PrivVal = pv
	}
	if len(n.PrivVal.Address) == 0 {
		n.PrivVal.Address = n.PrivVal.PubKey.Address()
	}
	n.State = st
	n.Store = blockchain.NewBlockStore(n.blockDB, nil)
	evsw := types.NewEventSwitch()
	evsw.Start()
	n.evsw = evsw
	types.AddListenerForEvent(evsw, "csim", types.EventStringHookNewRound(), func(ed types.TMEventData) {
		ed.(types.EventDataHookNewRound).ResCh <- types.NewRoundResult{}
	})
	types.AddListenerForEvent(evsw, "csim", types.EventStringHookExecute(), func(ed types.TMEventData) {
		d := ed.(types.EventDataHookExecute)
		n.Applied = append(n.Applied, d.Block.Height)
		d.ResCh <- types.ExecuteResult{ValidTxs: d.Block.Data.Txs}
	})
	types.AddListenerForEvent(evsw, "csim", types.EventStringHookCommit(), func(ed types.TMEventData) {
		d := ed.(types.EventDataHookCommit)
		n.Commits++
		// toy application: app hash = hash chain over block hashes, a function of the chain alone
		d.ResCh <- types.CommitResult{AppHash: appHashFor(d.Block), ReceiptsHash: nil}
	})
	pool := &stubPool{}
	n.Ticker = pbft.NewVerifTicker()
	n.callsSeen = 0
	cs := pbft.NewConsensusState(conf, st, n.Store, pool)
	if cs == nil {
		return fmt.Errorf("node %d: NewConsensusState returned nil", n.Idx)
	}
	cs.SetPrivValidator(n.PrivVal)
	cs.SetEventSwitch(evsw)
	if !s.Live && !s.bootRealTicker {
		cs.SetTimeoutTicker(n.Ticker)
	}
	st.SetBlockExecutable(simExec{s})
	st.SetBlockVerifier(cs)
	n.CS = cs
	n.Tocks = nil
	n.IQ = nil
	n.Up = true
	return nil
}

func appHashFor(b *types.Block) []byte {
	h := append([]byte("app:"), b.Hash()...)
	return crypto.Ripemd160(h)
}

// Start performs OnStart (without receiveRoutine) on every node.
func (s *Sim) Start() error {
	for _, i := range s.HonestIdx() {
		if err := s.Nodes[i].CS.VerifStartSync(); err != nil {
			s.logf("node %d: start: %v", i, err)
		}
		s.drain(s.Nodes[i])
	}
	return nil
}

func (s *Sim) HonestIdx() []int {
	var out []int
	for i := 1; i <= s.N; i++ {
		if !s.Byz[i] {
			out = append(out, i)
		}
	}
	return out
}

func (s *Sim) drain(n *Node) {
	for {
		m, ok := n.CS.VerifPopInternal()
		if !ok {
			return
		}
		n.IQ = append(n.IQ, m)
	}
}

// Close releases all resources (files, DBs).
func (s *Sim) Close() {
	for _, n := range s.Nodes {
		s.shutdown(n)
	}
}

func (s *Sim) shutdown(n *Node) {
	if n.CS != nil {
		n.CS.VerifCloseWAL()
	}
	if n.evsw != nil {
		n.evsw.Stop()
	}
	if n.stateDB != nil {
		n.stateDB.Close()
	}
	if n.blockDB != nil {
		n.blockDB.Close()
	}
	n.CS, n.evsw, n.stateDB, n.blockDB = nil, nil, nil, nil
}

// ---------------------------------------------------------------------------------------------
// values

func hexs(b []byte) string { return hex.EncodeToString(b) }

func (s *Sim) register(sym []interface{}, b *types.Block, ps *types.PartSet) *Value {
	v := &Value{Sym: sym, Block: b, Parts: ps}
	s.byHash[hexs(b.Hash())] = v
	s.byParts[hexs(ps.Header().Hash)] = v
	s.bySym[SymKey(sym)] = v
	return v
}

// SymOfHash maps a block hash (hex) to its symbol; "" = nil vote.
func (s *Sim) SymOfHash(h string) []interface{} {
	if h == "-" {
		return NoneSym
	}
	if h == "" {
		return NilSym
	}
	if v, ok := s.byHash[h]; ok {
		return v.Sym
	}
	if v, ok := s.byParts[h]; ok {
		return v.Sym
	}
	return []interface{}{"?", h}
}

func (s *Sim) blockIDOf(sym []interface{}) (types.BlockID, error) {
	if len(sym) == 1 && sym[0] == "nil" {
		return types.BlockID{}, nil
	}
	v, ok := s.bySym[SymKey(sym)]
	if !ok {
		return types.BlockID{}, fmt.Errorf("unknown value %v", sym)
	}
	return types.BlockID{Hash: v.Block.Hash(), PartsHeader: v.Parts.Header()}, nil
}

// byzValue creates (once) the adversary's block ["X",h,k] or the invalid block ["I",h,0] for height h,
// built on the chain state of an honest node that is at height h.
func (s *Sim) byzValue(sym []interface{}, ref *Node, byzIdx int) (*Value, error) {
	if v, ok := s.bySym[SymKey(sym)]; ok {
		return v, nil
	}
	st := ref.CS.GetState()
	h := st.LastBlockHeight + 1
	var commit *types.Commit
	if h == 1 {
		commit = &types.Commit{}
	} else {
		commit = ref.Store.LoadSeenCommit(h - 1)
	}
	tag := fmt.Sprintf("%v", sym)
	appHash := st.AppHash
	if sym[0] == "I" {
		appHash = []byte("not-the-app-hash")
	}
	b, ps := types.MakeBlock(h, ChainID, []types.Tx{types.Tx("byz-" + tag)}, nil, commit, s.Addrs[byzIdx-1],
		st.LastBlockID, st.Validators.Hash(), appHash, st.ReceiptsHash, s.PartSize)
	return s.register(sym, b, ps), nil
}

// ---------------------------------------------------------------------------------------------
// abstract <-> real messages

func jnum(v interface{}) int64 {
	switch x := v.(type) {
	case json.Number:
		i, _ := x.Int64()
		return i
	case float64:
		return int64(x)
	case int64:
		return x
	case int:
		return int64(x)
	}
	return 0
}

// Abstract turns a real message emitted by honest node `from` into the spec's message, naming new blocks.
func (s *Sim) Abstract(from int, m pbft.ConsensusMessage) (Msg, error) {
	switch x := m.(type) {
	case *pbft.ProposalMessage:
		p := x.Proposal
		v, ok := s.byParts[hexs(p.BlockPartsHeader.Hash)]
		if !ok {
			return Msg{}, fmt.Errorf("proposal for unknown parts header")
		}
		return Msg{T: "P", H: p.Height, R: p.Round, V: v.Sym, Pol: p.POLRound, By: from}, nil
	case *pbft.BlockPartMessage:
		// find value by proof root: the part belongs to exactly one known part set
		for _, v := range s.byParts {
			if x.Part.Index < v.Parts.Total() && bytes.Equal(v.Parts.GetPart(x.Part.Index).Hash(), x.Part.Hash()) {
				return Msg{T: "B", H: x.Height, R: x.Round, V: v.Sym}, nil
			}
		}
		return Msg{}, fmt.Errorf("part of unknown block")
	case *pbft.VoteMessage:
		vt := x.Vote
		ty := "pv"
		if vt.Type == types.VoteTypePrecommit {
			ty = "pc"
		}
		sym := s.SymOfHash(hexs(vt.BlockID.Hash))
		return Msg{T: "V", H: vt.Height, R: vt.Round, Ty: ty, By: s.idxOfAddr(hexs(vt.ValidatorAddress)), V: sym}, nil
	}
	return Msg{}, fmt.Errorf("unknown message type %T", m)
}

// nameNewBlocks inspects the internal queue of node n and registers blocks it just created.
func (s *Sim) nameNewBlocks(n *Node) {
	var pend *types.Proposal
	for _, m := range n.IQ {
		switch x := m.(type) {
		case *pbft.ProposalMessage:
			if _, ok := s.byParts[hexs(x.Proposal.BlockPartsHeader.Hash)]; !ok {
				pend = x.Proposal
			}
		case *pbft.BlockPartMessage:
			if pend != nil && x.Part.Index == 0 && pend.BlockPartsHeader.Total == 1 {
				ps := types.NewPartSetFromHeader(pend.BlockPartsHeader)
				if ok, err := ps.AddPart(x.Part, true); ok && err == nil && ps.IsComplete() {
					var nn int
					var err2 error
					blk := readBlock(ps, &nn, &err2)
					if blk != nil {
						full := blk.MakePartSet(s.PartSize)
						s.register([]interface{}{"H", pend.Height, pend.Round, int64(n.Idx), int64(n.Inc)}, blk, full)
					}
				}
				pend = nil
			}
		}
	}
}

// Concrete builds (or looks up) the real message for an abstract one. Honest messages must be in the ledger;
// messages by Byzantine validators are signed here with their real keys.
func (s *Sim) Concrete(m Msg, ref *Node) (pbft.ConsensusMessage, error) {
	if m.T == "B" {
		v, ok := s.bySym[SymKey(m.V)]
		if !ok {
			if m.V[0] == "X" || m.V[0] == "I" {
				var err error
				v, err = s.byzValue(m.V, ref, s.anyByz())
				if err != nil {
					return nil, err
				}
			} else {
				return nil, fmt.Errorf("part of unknown value %v", m.V)
			}
		}
		return &pbft.BlockPartMessage{Height: m.H, Round: m.R, Part: v.Parts.GetPart(0)}, nil
	}
	if !s.Byz[m.By] {
		r, ok := s.Ledger[m.Key()]
		if !ok {
			return nil, fmt.Errorf("honest message not in ledger: %s", m.Key())
		}
		return r, nil
	}
	switch m.T {
	case "P":
		v, ok := s.bySym[SymKey(m.V)]
		if !ok {
			var err error
			v, err = s.byzValue(m.V, ref, m.By)
			if err != nil {
				return nil, err
			}
		}
		polID := types.BlockID{}
		p := types.NewProposal(m.H, m.R, v.Parts.Header(), m.Pol, polID)
		p.Signature = s.Privs[m.By-1].Sign(types.SignBytes(ChainID, p))
		return &pbft.ProposalMessage{Proposal: p}, nil
	case "V":
		if _, ok := s.bySym[SymKey(m.V)]; !ok && (m.V[0] == "X" || m.V[0] == "I") {
			if _, err := s.byzValue(m.V, ref, m.By); err != nil {
				return nil, err
			}
		}
		id, err := s.blockIDOf(m.V)
		if err != nil {
			return nil, err
		}
		ty := types.VoteTypePrevote
		if m.Ty == "pc" {
			ty = types.VoteTypePrecommit
		}
		vt := &types.Vote{ValidatorAddress: s.Addrs[m.By-1], ValidatorIndex: s.indexAt(m.H, m.By), Height: m.H, Round: m.R, Type: ty, BlockID: id}
		vt.Signature = s.Privs[m.By-1].Sign(types.SignBytes(ChainID, vt))
		return &pbft.VoteMessage{Vote: vt}, nil
	}
	return nil, fmt.Errorf("bad message %+v", m)
}

func (s *Sim) anyByz() int {
	for i := 1; i <= s.N; i++ {
		if s.Byz[i] {
			return i
		}
	}
	return 1
}

// ---------------------------------------------------------------------------------------------
// actions (names as in Tendermint.tla)

func (s *Sim) after(n *Node) {
	s.drain(n)
	s.nameNewBlocks(n)
}

// Internal: the node handles the head of its internal queue; the message becomes visible to peers.
func (s *Sim) Internal(i int) (Msg, error) {
	n := s.Nodes[i]
	if len(n.IQ) == 0 {
		return Msg{}, fmt.Errorf("node %d: internal queue empty", i)
	}
	m := n.IQ[0]
	n.IQ = n.IQ[1:]
	am, err := s.Abstract(i, m)
	if err != nil {
		return am, err
	}
	n.CS.VerifHandleInternal(m)
	s.Ledger[am.Key()] = m
	s.after(n)
	return am, nil
}

// Deliver: a message (from the ledger, or crafted by the adversary) is handled by node i as a peer message.
func (s *Sim) Deliver(i int, m Msg) error {
	n := s.Nodes[i]
	r, err := s.Concrete(m, n)
	if err != nil {
		return err
	}
	peer := fmt.Sprintf("peer%d", m.By)
	_, known := s.Ledger[m.Key()]
	before := ""
	if !known {
		before = s.digest(i)
	}
	n.CS.VerifHandlePeer(r, peer)
	s.after(n)
	// an honest node gossips what it accepted: the adversary's message is visible to everybody from now on
	if !known && s.digest(i) != before {
		s.Ledger[m.Key()] = r
	}
	return nil
}

func (s *Sim) Fire(i int) (pbft.VerifTimeout, error) {
	n := s.Nodes[i]
	ti, ok := n.Ticker.Fire()
	if !ok {
		return ti, fmt.Errorf("node %d: no timer running", i)
	}
	n.Tocks = append(n.Tocks, ti)
	return ti, nil
}

func (s *Sim) Timeout(i int, h, r int64, step int) error {
	n := s.Nodes[i]
	for k, t := range n.Tocks {
		if t.Height == h && t.Round == r && t.Step == step {
			n.Tocks = append(n.Tocks[:k:k], n.Tocks[k+1:]...)
			n.CS.VerifHandleTimeout(t)
			s.after(n)
			return nil
		}
	}
	return fmt.Errorf("node %d: no tock %d/%d/%d in flight", i, h, r, step)
}

// Crash kills the process: only what is on disk survives.
func (s *Sim) Crash(i int) {
	n := s.Nodes[i]
	s.shutdown(n)
	n.Up = false
	n.Tocks = nil
	n.IQ = nil
}

// Restart builds a new process on the node's directory and runs OnStart (catchupReplay).
func (s *Sim) Restart(i int) error {
	n := s.Nodes[i]
	n.Inc++
	if err := s.boot(n, false); err != nil {
		return err
	}
	err := n.CS.VerifStartSync()
	s.after(n)
	return err
}

// CopyDir clones a node directory (used for WAL truncation experiments).
func CopyDir(src, dst string) error {
	return filepath.Walk(src, func(p string, info os.FileInfo, err error) error {
		if err != nil {
			return err
		}
		rel, _ := filepath.Rel(src, p)
		t := filepath.Join(dst, rel)
		if info.IsDir() {
			return os.MkdirAll(t, 0700)
		}
		b, err := ioutil.ReadFile(p)
		if err != nil {
			return err
		}
		return ioutil.WriteFile(t, b, info.Mode())
	})
}

// walHead is the path of the node's current WAL file.
func (n *Node) walHead() string { return filepath.Join(n.Dir, "cs.wal", "wal") }

// CrashTorn kills the process while it was writing its last WAL record: the last line of the WAL is cut
// somewhere inside (cut = number of bytes of that line that made it to disk, clamped to the line length - 1).
// If the last line is complete it is cut so that at least its final newline is missing.
func (s *Sim) CrashTorn(i int, cut int) error {
	n := s.Nodes[i]
	s.Crash(i)
	target := n.walHead()
	b, err := ioutil.ReadFile(target)
	if err != nil && !os.IsNotExist(err) {
		return err
	}
	if len(b) == 0 {
		// the head was rotated away after the node's last write: a record can only be torn in the file that was being
		// written when the process died, so this rotation is taken back (the schedule in which the size check had not
		// fired yet) before the last record is cut
		rot, _ := filepath.Glob(n.walHead() + ".[0-9][0-9][0-9]*")
		sort.Strings(rot)
		if len(rot) == 0 {
			return nil
		}
		if err := os.Rename(rot[len(rot)-1], n.walHead()); err != nil {
			return err
		}
		if b, err = ioutil.ReadFile(target); err != nil || len(b) == 0 {
			return err
		}
	}
	end := len(b)
	if b[end-1] == '\n' {
		end--
	}
	start := bytes.LastIndexByte(b[:end], '\n') + 1
	lineLen := end - start
	if cut < 0 {
		cut = 0
	}
	if cut > lineLen-1 {
		cut = lineLen - 1
	}
	if cut < 0 {
		cut = 0
	}
	return ioutil.WriteFile(target, b[:start+cut], 0600)
}

// Pending lists the ledger messages whose delivery would still change node i (used by the fair drain scheduler).
func (s *Sim) digest(i int) string {
	b, _ := json.Marshal(s.SpecState(i))
	return string(b)
}

// Drain runs a fair, synchronous schedule on the real nodes: own queues first, then every visible message to
// every node, and timers fire only when nothing else changes anything.  It returns the number of scheduler
// rounds used, or an error if the honest nodes do not all reach `height` committed blocks within maxRounds.
func (s *Sim) Drain(height int64, maxRounds int) (int, error) {
	for _, i := range s.HonestIdx() {
		if !s.Nodes[i].Up {
			if err := s.Restart(i); err != nil {
				s.Notes = append(s.Notes, fmt.Sprintf("restart %d: %v", i, err))
			}
		}
	}
	done := func() bool {
		for _, i := range s.HonestIdx() {
			if s.Nodes[i].Store.Height() < height {
				return false
			}
		}
		return true
	}
	for round := 0; round < maxRounds; round++ {
		if done() {
			return round, nil
		}
		progress := false
		for _, i := range s.HonestIdx() {
			for len(s.Nodes[i].IQ) > 0 {
				if _, err := s.Internal(i); err != nil {
					return round, err
				}
				progress = true
			}
		}
		// deliver everything visible (sorted for determinism)
		keys := make([]string, 0, len(s.Ledger))
		for k := range s.Ledger {
			keys = append(keys, k)
		}
		sort.Strings(keys)
		for _, i := range s.HonestIdx() {
			n := s.Nodes[i]
			for _, k := range keys {
				before := s.digest(i)
				m := s.Ledger[k]
				am, err := s.Abstract(0, m)
				if err != nil {
					continue
				}
				if am.T == "V" && am.By == i {
					continue
				}
				n.CS.VerifHandlePeer(m, fmt.Sprintf("peer%d", am.By))
				s.after(n)
				if s.digest(i) != before {
					progress = true
				}
			}
		}
		for _, i := range s.HonestIdx() {
			n := s.Nodes[i]
			for len(n.Tocks) > 0 {
				t := n.Tocks[0]
				n.Tocks = n.Tocks[1:]
				before := s.digest(i)
				n.CS.VerifHandleTimeout(t)
				s.after(n)
				if s.digest(i) != before {
					progress = true
				}
			}
		}
		if progress {
			continue
		}
		fired := false
		for _, i := range s.HonestIdx() {
			if _, err := s.Fire(i); err == nil {
				fired = true
			}
		}
		if !fired {
			return round, fmt.Errorf("wedged: no message changes any node, no timer is running, and not every honest node has committed height %d", height)
		}
	}
	if done() {
		return maxRounds, nil
	}
	return maxRounds, fmt.Errorf("no decision at height %d within %d fair scheduler rounds", height, maxRounds)
}

// RealStartProbe clones node i's directory as it is on disk, starts a REAL ConsensusState on the clone with the real
// OnStart (receiveRoutine running), waits until it is quiescent, and returns its projection together with the
// projection of a second clone restarted through the synchronous shim path and drained.  Both must agree.
func (s *Sim) RealStartProbe(i int, realTicker bool) (real, sync map[string]interface{}, err error) {
	src := s.Nodes[i].Dir
	mk := func(tag string) (*Node, error) {
		dst := filepath.Join(s.Dir, fmt.Sprintf("probe-%s-%d", tag, i))
		os.RemoveAll(dst)
		if err := CopyDir(src, dst); err != nil {
			return nil, err
		}
		s.probeSeq++
		n := &Node{Idx: i, Dir: dst, Inc: 1000 + s.probeSeq}
		return n, s.boot(n, false)
	}
	saved := s.Nodes[i]
	defer func() { s.Nodes[i] = saved }()
	// sync path
	n1, err := mk("sync")
	if err != nil {
		return nil, nil, err
	}
	s.Nodes[i] = n1
	n1.CS.VerifStartSync()
	s.after(n1)
	for len(n1.IQ) > 0 {
		m := n1.IQ[0]
		n1.IQ = n1.IQ[1:]
		n1.CS.VerifHandleInternal(m)
		s.after(n1)
	}
	sync = normNew(s.SpecState(i)).(map[string]interface{})
	s.ProbeTicks = len(n1.Ticker.Calls) // timeouts scheduled while the WAL of the height was replayed
	s.shutdown(n1)
	os.RemoveAll(n1.Dir)
	// real path
	s.bootRealTicker = realTicker // the real timeoutTicker (own goroutine, bounded tick queue) instead of the stepping ticker
	n2, err := mk("real")
	s.bootRealTicker = false
	if err != nil {
		return nil, sync, err
	}
	s.Nodes[i] = n2
	started := make(chan error, 1)
	go func() { _, err := n2.CS.Start(); started <- err }()
	select {
	case err := <-started:
		if err != nil {
			s.shutdown(n2)
			os.RemoveAll(n2.Dir)
			return nil, sync, err
		}
	case <-time.After(20 * time.Second):
		// OnStart (WAL catch-up before the receive routine exists) never returned: the node is stuck on itself.
		// The stuck goroutine cannot be reclaimed; its directory is left to the final cleanup of the simulation directory.
		return nil, sync, fmt.Errorf("Start() blocked: OnStart did not return within 20s")
	}
	// quiescence: the internal queue stays empty and the round state stops changing
	last := ""
	stable := 0
	for k := 0; k < 400 && stable < 5; k++ {
		time.Sleep(5 * time.Millisecond)
		cur := fmt.Sprintf("%d/%v", n2.CS.VerifInternalLen(), n2.CS.GetRoundState().StringShort())
		if cur == last && n2.CS.VerifInternalLen() == 0 {
			stable++
		} else {
			stable = 0
		}
		last = cur
	}
	real = normNew(s.SpecState(i)).(map[string]interface{})
	n2.CS.Stop()
	select {
	case <-waitCh(n2.CS):
	case <-time.After(2 * time.Second):
	}
	n2.CS = nil // WAL already stopped by receiveRoutine
	s.shutdown(n2)
	os.RemoveAll(n2.Dir)
	return real, sync, nil
}

func waitCh(cs *pbft.ConsensusState) chan struct{} {
	c := make(chan struct{})
	go func() { cs.Wait(); close(c) }()
	return c
}

// normNew replaces the name of a block created inside a probe (fresh time stamp, so a fresh hash in every run)
// by the placeholder ["NEW"].
func normNew(v interface{}) interface{} {
	switch x := v.(type) {
	case []interface{}:
		if len(x) > 0 {
			if t, ok := x[0].(string); ok {
				if t == "?" {
					return []interface{}{"NEW"}
				}
				if t == "H" && len(x) == 5 {
					if inc, ok := x[4].(int64); ok && inc >= 1000 {
						return []interface{}{"NEW"}
					}
				}
			}
		}
		o := make([]interface{}, len(x))
		for i, e := range x {
			o[i] = normNew(e)
		}
		return o
	case map[string]interface{}:
		o := map[string]interface{}{}
		for k, e := range x {
			o[k] = normNew(e)
		}
		return o
	}
	return v
}

// indexAt is the position (0-based) of validator `id` (1-based identity) in the validator set of height h.
func (s *Sim) indexAt(h int64, id int) int {
	pw := s.PowersAt(h)
	idx := 0
	for i := 0; i < id-1; i++ {
		if pw[i] > 0 {
			idx++
		}
	}
	return idx
}

// CheckTimeoutDurations is the oracle for TimeoutMs of specs/tendermint/Tendermint.tla: every timeout a node has scheduled
// since the last call must have the configured duration for its step and round (propose / prevote-wait / precommit-wait
// grow linearly with the round; the new-height wait is at most timeout_commit). Stepping mode only.
func (s *Sim) CheckTimeoutDurations() string {
	if s.Live {
		return ""
	}
	for _, i := range s.HonestIdx() {
		n := s.Nodes[i]
		if n.Ticker == nil {
			continue
		}
		calls := n.Ticker.Calls
		if n.callsSeen > len(calls) {
			n.callsSeen = 0
		}
		for _, c := range calls[n.callsSeen:] {
			ms := int64(c.Duration / time.Millisecond)
			want := int64(-1)
			switch c.Step {
			case 3:
				want = 3000 + 500*c.Round
			case 5, 7:
				want = 1000 + 500*c.Round
			case 2:
				want = 0
			case 1:
				if ms > 1000 {
					return fmt.Sprintf("node %d scheduled the new-height wait of height %d with %d ms (timeout_commit is 1000 ms)", i, c.Height, ms)
				}
				continue
			default:
				return fmt.Sprintf("node %d scheduled a timeout for step %d, which has no timer", i, c.Step)
			}
			if ms != want {
				return fmt.Sprintf("node %d scheduled the step-%d timeout of height %d round %d with %d ms, TimeoutMs says %d ms", i, c.Step, c.Height, c.Round, ms, want)
			}
		}
		n.callsSeen = len(calls)
	}
	return ""
}
