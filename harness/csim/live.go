package csim

import (
	"encoding/json"
	"fmt"
	"math/rand"
	"sort"
	"sync"
	"time"

	"github.com/spf13/viper"

	"github.com/dappledger/AnnChain/gemmill/consensus/pbft"
	"github.com/dappledger/AnnChain/gemmill/p2p"
	"github.com/dappledger/AnnChain/gemmill/types"
)

// LiveEvent is one input handled by a node's REAL receiveRoutine, recorded by the trace hook.
type LiveEvent struct {
	Node int
	Ev   pbft.VerifEvent
}

// RunLive starts the honest nodes with their real OnStart / receiveRoutine / timeoutTicker (short timeouts),
// relays every message a node handles from its own queue to all other nodes with seeded random delay,
// duplication and reordering (standing in for the reactor's gossip), and records every handled input with
// the round state after it. It returns when every honest node has committed `heights` blocks or after `limit`.
func RunLive(dir string, powers []int64, byz []int, maxRound int64, heights int64, seed int64, limit time.Duration, scale int, byzActive bool) (*Sim, []LiveEvent, error) {
	pbft.VerifTraceMaxRound = maxRound
	var (
		mtx    sync.Mutex
		events []LiveEvent
		byCS   = map[*pbft.ConsensusState]int{}
		relay  = make(chan LiveEvent, 100000)
	)
	pbft.VerifTraceFn.Store(func(cs *pbft.ConsensusState, ev pbft.VerifEvent) {
		mtx.Lock()
		i := byCS[cs]
		if i != 0 {
			le := LiveEvent{Node: i, Ev: ev}
			events = append(events, le)
			if ev.Kind == "msg" && ev.PeerKey == "" {
				select {
				case relay <- le:
				default:
				}
			}
		}
		mtx.Unlock()
	})
	defer pbft.VerifTraceFn.Store((func(cs *pbft.ConsensusState, ev pbft.VerifEvent))(nil))

	s, err := newSimScale(dir, powers, byz, maxRound, true, scale)
	if err != nil {
		return nil, nil, err
	}
	s.ByzActive = byzActive
	mtx.Lock()
	for _, i := range s.HonestIdx() {
		byCS[s.Nodes[i].CS] = i
	}
	mtx.Unlock()
	rng := rand.New(rand.NewSource(seed))
	var rmtx sync.Mutex
	stop := make(chan struct{})
	var wg sync.WaitGroup
	deliver := func(to int, from int, m pbft.ConsensusMessage, delay time.Duration) {
		defer wg.Done()
		select {
		case <-time.After(delay):
		case <-stop:
			return
		}
		n := s.Nodes[to]
		peer := fmt.Sprintf("peer%d", from)
		switch x := m.(type) {
		case *pbft.VoteMessage:
			n.CS.AddVote(x.Vote, peer)
		case *pbft.ProposalMessage:
			n.CS.SetProposal(x.Proposal, peer)
		case *pbft.BlockPartMessage:
			n.CS.AddProposalBlockPart(x.Height, x.Round, x.Part, peer)
		}
	}
	// what the relay has seen, for the catch-up below
	var lmtx sync.Mutex
	var relayed []LiveEvent
	go func() {
		for {
			select {
			case le := <-relay:
				lmtx.Lock()
				relayed = append(relayed, le)
				lmtx.Unlock()
				for _, j := range s.HonestIdx() {
					if j == le.Node {
						continue
					}
					rmtx.Lock()
					copies := 1
					if rng.Intn(5) == 0 {
						copies = 2
					}
					delays := make([]time.Duration, copies)
					for k := range delays {
						delays[k] = time.Duration(rng.Intn(12)) * time.Millisecond
					}
					rmtx.Unlock()
					from := le.Node
					if v, ok := le.Ev.Msg.(*pbft.VoteMessage); ok {
						from = v.Vote.ValidatorIndex + 1
					}
					for _, d := range delays {
						wg.Add(1)
						go deliver(j, from, le.Ev.Msg, d)
					}
				}
			case <-stop:
				return
			}
		}
	}()
	for _, i := range s.HonestIdx() {
		if _, err := s.Nodes[i].CS.Start(); err != nil {
			close(stop)
			return s, nil, err
		}
	}
	// Catch-up, standing in for the reactor's gossip routines (gossipDataRoutine / gossipVotesRoutine re-send what
	// PeerState says the peer lacks; the relay above delivers every message once, and a node that was a height or more
	// than a few rounds behind at that moment drops it for good). A node whose store height has not moved for a
	// second is sent again (a) the seen commit and the block parts of its height from the store of a node that has
	// committed it, or (b) the relayed messages of its height from its current round on. Duplicates and late
	// messages are behaviours of the relay anyway.
	wg.Add(1)
	go func() {
		defer wg.Done()
		type prog struct {
			h     int64
			since time.Time
		}
		at := map[int]*prog{}
		stopped := func() bool {
			select {
			case <-stop:
				return true
			default:
				return false
			}
		}
		for {
			select {
			case <-stop:
				return
			case <-time.After(100 * time.Millisecond):
			}
			now := time.Now()
			for _, j := range s.HonestIdx() {
				n := s.Nodes[j]
				h := n.Store.Height() + 1
				if h > heights {
					continue
				}
				if p := at[j]; p == nil || p.h != h {
					at[j] = &prog{h: h, since: now}
					continue
				} else if now.Sub(p.since) < time.Second {
					continue
				}
				at[j].since = now
				src := 0
				for _, k := range s.HonestIdx() {
					if k != j && s.Nodes[k].Store.Height() >= h {
						src = k
						break
					}
				}
				if src != 0 {
					st := s.Nodes[src].Store
					commit, meta := st.LoadSeenCommit(h), st.LoadBlockMeta(h)
					if commit == nil || meta == nil {
						continue
					}
					for _, v := range commit.Precommits {
						if v != nil && !stopped() {
							n.CS.AddVote(v, fmt.Sprintf("peer%d", v.ValidatorIndex+1))
						}
					}
					for i := 0; i < meta.PartsHeader.Total && !stopped(); i++ {
						if part := st.LoadBlockPart(h, i); part != nil {
							n.CS.AddProposalBlockPart(h, commit.Round(), part, fmt.Sprintf("peer%d", src))
						}
					}
					continue
				}
				r := n.CS.GetRoundState().Round
				lmtx.Lock()
				again := append([]LiveEvent(nil), relayed...)
				lmtx.Unlock()
				for _, le := range again {
					if le.Node == j || stopped() {
						continue
					}
					peer := fmt.Sprintf("peer%d", le.Node)
					switch x := le.Ev.Msg.(type) {
					case *pbft.VoteMessage:
						if x.Vote.Height == h && x.Vote.Round >= r {
							n.CS.AddVote(x.Vote, fmt.Sprintf("peer%d", x.Vote.ValidatorIndex+1))
						}
					case *pbft.ProposalMessage:
						if x.Proposal.Height == h && x.Proposal.Round >= r {
							n.CS.SetProposal(x.Proposal, peer)
						}
					case *pbft.BlockPartMessage:
						if x.Height == h && x.Round >= r {
							n.CS.AddProposalBlockPart(x.Height, x.Round, x.Part, peer)
						}
					}
				}
			}
		}
	}()
	// the adversary: every Byzantine validator equivocates - conflicting prevotes/precommits for blocks it has seen, for
	// nil and for its own blocks, different ones to different nodes, and two different proposals when it is the proposer
	if len(byz) > 0 && s.ByzActive {
		wg.Add(1) // (it reads the value registry: LiveTrace must not start before it has ended)
		go func() {
			defer wg.Done()
			brng := rand.New(rand.NewSource(seed ^ 0x5eed))
			var bmtx sync.Mutex
			for {
				select {
				case <-stop:
					return
				case <-time.After(time.Duration(3+brng.Intn(10)) * time.Millisecond):
				}
				honest := s.HonestIdx()
				to := honest[brng.Intn(len(honest))]
				n := s.Nodes[to]
				rs := n.CS.GetRoundState()
				by := byz[brng.Intn(len(byz))]
				bmtx.Lock()
				// (the value registry is only touched by this goroutine while the run lasts)
				var known [][]interface{}
				for _, v := range s.bySym {
					if jnum(v.Sym[1]) == rs.Height {
						known = append(known, v.Sym)
					}
				}
				var m Msg
				switch brng.Intn(5) {
				case 0, 1, 2:
					ty := "pv"
					if brng.Intn(2) == 0 {
						ty = "pc"
					}
					v := NilSym
					if len(known) > 0 && brng.Intn(3) > 0 {
						v = known[brng.Intn(len(known))]
					}
					r := rs.Round
					if brng.Intn(4) == 0 {
						r++
					}
					m = Msg{T: "V", H: rs.Height, R: r, Ty: ty, By: by, V: v}
				case 3:
					m = Msg{T: "P", H: rs.Height, R: rs.Round, V: []interface{}{"X", rs.Height, int64(1 + brng.Intn(2))}, Pol: -1, By: by}
				default:
					m = Msg{T: "B", H: rs.Height, R: rs.Round, V: []interface{}{"X", rs.Height, int64(1 + brng.Intn(2))}}
				}
				real, err := s.Concrete(m, n)
				bmtx.Unlock()
				if err != nil {
					continue
				}
				wg.Add(1)
				go deliver(to, by, real, 0)
			}
		}()
	}
	deadline := time.Now().Add(limit)
	var rerr error
	for {
		done := true
		for _, i := range s.HonestIdx() {
			if s.Nodes[i].Store.Height() < heights {
				done = false
			}
		}
		if done {
			break
		}
		if time.Now().After(deadline) {
			rerr = fmt.Errorf("not every honest node committed %d blocks within %v", heights, limit)
			break
		}
		time.Sleep(5 * time.Millisecond)
	}
	close(stop)
	for _, i := range s.HonestIdx() {
		n := s.Nodes[i]
		n.CS.Stop()
		select {
		case <-waitCh(n.CS):
		case <-time.After(2 * time.Second):
		}
	}
	wg.Wait()
	mtx.Lock()
	out := append([]LiveEvent(nil), events...)
	mtx.Unlock()
	return s, out, rerr
}

// LiveTrace converts recorded events into the ndjson records validated by specs/tendermint/Trace_Tendermint.tla.
func (s *Sim) LiveTrace(events []LiveEvent, heights int64) []map[string]interface{} {
	// events are ordered by the sequence number taken when the handler started (see verif_trace_on.go)
	events = append([]LiveEvent(nil), events...)
	sort.SliceStable(events, func(i, j int) bool { return events[i].Ev.Seq < events[j].Ev.Seq })
	if s.LiveCutSeq > 0 {
		for i, e := range events {
			if e.Ev.Seq > s.LiveCutSeq {
				events = events[:i]
				break
			}
		}
	}
	// pass 1: name the blocks: an own proposal followed by its own part
	pend := map[int]*types.Proposal{}
	pendSeq := map[int]uint64{}
	propBy := map[string]int{}
	pkey := func(p *types.Proposal) string {
		return fmt.Sprintf("%d/%d/%x/%x", p.Height, p.Round, p.BlockPartsHeader.Hash, p.Signature.Bytes())
	}
	for _, le := range events {
		if le.Ev.Kind != "msg" || le.Ev.PeerKey != "" {
			continue
		}
		switch x := le.Ev.Msg.(type) {
		case *pbft.ProposalMessage:
			propBy[pkey(x.Proposal)] = le.Node
			if _, ok := s.byParts[hexs(x.Proposal.BlockPartsHeader.Hash)]; !ok {
				pend[le.Node] = x.Proposal
				pendSeq[le.Node] = le.Ev.Seq
			}
		case *pbft.BlockPartMessage:
			p := pend[le.Node]
			if p != nil && x.Part.Index == 0 && p.BlockPartsHeader.Total == 1 {
				ps := types.NewPartSetFromHeader(p.BlockPartsHeader)
				if ok, err := ps.AddPart(x.Part, true); ok && err == nil && ps.IsComplete() {
					var nn int
					var e2 error
					if blk := readBlock(ps, &nn, &e2); blk != nil {
						s.register([]interface{}{"H", p.Height, p.Round, int64(le.Node), int64(0)}, blk, blk.MakePartSet(s.PartSize))
					}
				}
				delete(pend, le.Node)
			}
		}
	}
	// A node that was stopped (or whose recording ends) between its own proposal and its own block part has announced a
	// block the trace cannot name: the recorded execution ends before that proposal.
	for node, p := range pend {
		if p.Height > heights {
			continue
		}
		for i, e := range events {
			if e.Ev.Seq >= pendSeq[node] {
				events = events[:i]
				break
			}
		}
	}
	var out []map[string]interface{}
	// messages made visible by a recorded own-queue record of their author (a block part: by height and block, its round
	// carries no information, see Trace_Tendermint.tla)
	authored := map[string]bool{}
	akey := func(m Msg) string {
		if m.T == "B" {
			return fmt.Sprintf("B/%d/%s", m.H, SymKey(m.V))
		}
		b, _ := json.Marshal(m.AsSpec())
		return string(b)
	}
	cur := map[int]int64{} // height of each node before the event
	for _, le := range events {
		// what a node does after it has committed the target height is not part of the recorded execution (the run is
		// stopped at an arbitrary moment there: e.g. a proposal whose block part was never handled)
		if h, ok := cur[le.Node]; ok && h > heights {
			continue
		}
		cur[le.Node] = le.Ev.Post.Height
		rec := map[string]interface{}{"n": int64(le.Node), "seq": int64(le.Ev.Seq)}
		if le.Ev.Kind == "timeout" {
			rec["a"] = "Timeout"
			rec["pk"] = int64(0)
			rec["ti"] = map[string]interface{}{"h": le.Ev.Timeout.Height, "r": le.Ev.Timeout.Round, "st": int64(le.Ev.Timeout.Step)}
			rec["m"] = map[string]interface{}{"t": "-"}
		} else {
			am, err := s.Abstract(le.Node, le.Ev.Msg)
			if err != nil && rawHeight(le.Ev.Msg) > heights {
				continue // (as below: from a node that has gone on beyond the target height, possibly a block never named)
			}
			if err != nil {
				rec["a"] = "Unknown"
				rec["pk"] = int64(0)
				rec["err"] = err.Error()
				rec["m"] = map[string]interface{}{"t": "-"}
			} else {
				if am.H > heights {
					// sent by a node that has committed the target height and gone on: its own records of that height are
					// not part of the recorded execution (see above), so the message has no author in the trace. The
					// receiver is at a lower height and ignores it.
					continue
				}
				if le.Ev.PeerKey == "" {
					rec["a"] = "Internal"
				} else if s.Byz[am.By] || (am.T == "B" && len(am.V) > 0 && (am.V[0] == "X" || am.V[0] == "I")) {
					rec["a"] = "Byz"
				} else {
					rec["a"] = "Peer"
				}
				if pm, ok := le.Ev.Msg.(*pbft.ProposalMessage); ok {
					if by, ok := propBy[pkey(pm.Proposal)]; ok {
						am.By = by
					} else {
						// not an honest node's own proposal: find the validator whose key signed it
						for k := range s.Privs {
							if s.Privs[k].PubKey().VerifyBytes(types.SignBytes(ChainID, pm.Proposal), pm.Proposal.Signature) {
								am.By = k + 1
							}
						}
					}
					if s.Byz[am.By] && le.Ev.PeerKey != "" {
						rec["a"] = "Byz"
					}
				}
				if rec["a"] == "Internal" {
					authored[akey(am)] = true
				} else if rec["a"] == "Peer" && !authored[akey(am)] {
					// The author handled this message from its own queue only after it had committed the target height
					// (e.g. its own precommit, overtaken by the precommits of the others), and that record is not part of
					// the recorded execution (see above): the execution that can be explained ends here.
					break
				}
				rec["m"] = am.AsSpec()
				rec["pk"] = int64(s.peerIndex(le.Ev.PeerKey))
			}
			rec["ti"] = map[string]interface{}{"h": int64(0), "r": int64(0), "st": int64(0)}
		}
		p := le.Ev.Post
		post := map[string]interface{}{"h": p.Height, "r": p.Round, "st": int64(p.Step), "lr": p.LockedRound,
			"lb": s.SymOfHash(p.LockedBlock), "cr": p.CommitRound, "pb": s.SymOfHash(p.ProposalBlock), "ndec": p.StoreHeight}
		if p.Proposal {
			post["prop"] = map[string]interface{}{"v": s.SymOfHash(p.ProposalParts), "pol": p.ProposalPOLRound}
		} else {
			post["prop"] = map[string]interface{}{"v": NoneSym, "pol": int64(-1)}
		}
		if p.PartsHeader == "-" {
			post["pp"] = map[string]interface{}{"v": NoneSym, "done": false}
		} else {
			post["pp"] = map[string]interface{}{"v": s.SymOfHash(p.PartsHeader), "done": p.PartsComplete}
		}
		rec["post"] = post
		out = append(out, rec)
	}
	return out
}

// peerIndex maps the peer key under which a message was delivered to the validator index of that peer (0 = unknown / own).
func (s *Sim) peerIndex(key string) int {
	if key == "" {
		return 0
	}
	if i, ok := s.PeerIdx[key]; ok {
		return i
	}
	var k int
	if _, err := fmt.Sscanf(key, "peer%d", &k); err == nil {
		return k
	}
	return 0
}

// RunLiveStack is RunLive with the REAL reactor stack instead of the relay: every honest node gets a real ConsensusReactor on a
// real p2p.Switch, the switches are connected pairwise (p2p.MakeConnectedSwitches over net.Pipe, real MConnections), and all
// gossip is done by the reactors' own routines. Byzantine validators are simply absent.
func RunLiveStack(dir string, powers []int64, byz []int, maxRound int64, heights int64, limit time.Duration, scale int, laggard int, lagUntil int64, stopNode int, restartNode int) (*Sim, []LiveEvent, error) {
	pbft.VerifTraceMaxRound = maxRound
	var (
		mtx    sync.Mutex
		events []LiveEvent
		byCS   = map[*pbft.ConsensusState]int{}
	)
	pbft.VerifTraceFn.Store(func(cs *pbft.ConsensusState, ev pbft.VerifEvent) {
		mtx.Lock()
		if i := byCS[cs]; i != 0 {
			events = append(events, LiveEvent{Node: i, Ev: ev})
		}
		mtx.Unlock()
	})
	defer pbft.VerifTraceFn.Store((func(cs *pbft.ConsensusState, ev pbft.VerifEvent))(nil))
	s, err := newSimScale(dir, powers, byz, maxRound, true, scale)
	if err != nil {
		return nil, nil, err
	}
	honest := s.HonestIdx()
	reactors := make([]*pbft.ConsensusReactor, len(honest))
	mtx.Lock()
	for k, i := range honest {
		n := s.Nodes[i]
		byCS[n.CS] = i
		conR := pbft.NewConsensusReactor(n.CS, false)
		n.CS.BindReactor(conR)
		conR.SetEventSwitch(n.evsw)
		reactors[k] = conR
	}
	mtx.Unlock()
	cfg := viper.New()
	var deferred [][2]int // connections of the laggard: made once the others have committed lagUntil blocks
	switches := p2p.MakeConnectedSwitches(cfg, len(honest), func(k int, sw *p2p.Switch) *p2p.Switch {
		sw.AddReactor("CONSENSUS", reactors[k])
		return sw
	}, func(sw []*p2p.Switch, a, b int) {
		if a == b {
			return
		}
		if laggard != 0 && (honest[a] == laggard || honest[b] == laggard) {
			deferred = append(deferred, [2]int{a, b})
			return
		}
		p2p.Connect2Switches(sw, a, b)
	})
	s.PeerIdx = map[string]int{}
	for k, sw := range switches {
		s.PeerIdx[sw.NodeInfo().PubKey.KeyString()] = honest[k]
	}
	deadline := time.Now().Add(limit)
	var rerr error
	stopped := 0
	restarted := false
	for {
		done := true
		for _, i := range honest {
			if i != stopped && s.Nodes[i].Store.Height() < heights {
				done = false
			}
		}
		if done {
			break
		}
		if len(deferred) > 0 {
			ahead := true
			for _, i := range honest {
				if i != laggard && i != stopped && s.Nodes[i].Store.Height() < lagUntil {
					ahead = false
				}
			}
			if ahead {
				// optionally one validator goes silent for good at this moment: the others now NEED the laggard
				if stopNode != 0 {
					for k, i := range honest {
						if i == stopNode {
							stopped = i
							done := make(chan struct{})
							go func() { switches[k].Stop(); close(done) }()
							select {
							case <-done:
							case <-time.After(5 * time.Second):
							}
						}
					}
				}
				for _, pr := range deferred {
					if honest[pr[0]] == stopped || honest[pr[1]] == stopped {
						continue
					}
					p2p.Connect2Switches(switches, pr[0], pr[1])
				}
				deferred = nil
			}
		}
		if restartNode != 0 && !restarted {
			ahead := true
			for _, i := range honest {
				if s.Nodes[i].Store.Height() < lagUntil {
					ahead = false
				}
			}
			if ahead {
				restarted = true
				// the recorded trace is validated up to this moment (the restarted process is not traced)
				mtx.Lock()
				for _, e := range events {
					if e.Ev.Seq > s.LiveCutSeq {
						s.LiveCutSeq = e.Ev.Seq
					}
				}
				mtx.Unlock()
				for k, i := range honest {
					if i != restartNode {
						continue
					}
					n := s.Nodes[i]
					stopc := make(chan struct{})
					go func() { switches[k].Stop(); close(stopc) }() // stops the reactor and with it the consensus state
					select {
					case <-stopc:
					case <-time.After(5 * time.Second):
					}
					select {
					case <-waitCh(n.CS):
					case <-time.After(2 * time.Second):
					}
					// the stopped reactor's per-peer routines notice the stop only at the top of their loops (queryMaj23Routine
					// sleeps up to 4 x 2 s in one pass) and read the block store until then; in a real crash they die with the
					// process, here the stores are closed under them only after they are gone
					time.Sleep(9 * time.Second)
					s.shutdown(n)
					n.Inc++
					if err := s.boot(n, false); err != nil {
						return s, nil, fmt.Errorf("restart of node %d: %v", i, err)
					}
					conR := pbft.NewConsensusReactor(n.CS, false)
					n.CS.BindReactor(conR)
					conR.SetEventSwitch(n.evsw)
					nsw := p2p.MakeConnectedSwitches(cfg, 1, func(_ int, sw *p2p.Switch) *p2p.Switch {
						sw.AddReactor("CONSENSUS", conR)
						return sw
					}, func([]*p2p.Switch, int, int) {})[0]
					s.PeerIdx[nsw.NodeInfo().PubKey.KeyString()] = i
					switches[k] = nsw
					for k2 := range honest {
						if k2 != k {
							p2p.Connect2Switches(switches, k, k2)
						}
					}
				}
			}
		}
		if time.Now().After(deadline) {
			rerr = fmt.Errorf("not every honest node committed %d blocks within %v (heights %v)", heights, limit, s.storeHeights())
			break
		}
		time.Sleep(5 * time.Millisecond)
	}
	if rerr == nil {
		// orderly stop (bounded: a wedged routine must not hang the harness; the process exits right after the trace is written)
		fin := make(chan struct{})
		go func() {
			for _, sw := range switches {
				sw.Stop()
			}
			close(fin)
		}()
		select {
		case <-fin:
		case <-time.After(10 * time.Second):
		}
	}
	mtx.Lock()
	out := append([]LiveEvent(nil), events...)
	mtx.Unlock()
	return s, out, rerr
}

func (s *Sim) storeHeights() map[int]int64 {
	out := map[int]int64{}
	for _, i := range s.HonestIdx() {
		out[i] = s.Nodes[i].Store.Height()
	}
	return out
}

func rawHeight(m pbft.ConsensusMessage) int64 {
	switch x := m.(type) {
	case *pbft.VoteMessage:
		return x.Vote.Height
	case *pbft.ProposalMessage:
		return x.Proposal.Height
	case *pbft.BlockPartMessage:
		return x.Height
	}
	return 0
}
