package csim

import (
	"fmt"

	"github.com/dappledger/AnnChain/gemmill/consensus/pbft"
)

// SpecState projects node i onto the node record of Tendermint.tla (the compared subset).
func (s *Sim) SpecState(i int) map[string]interface{} {
	n := s.Nodes[i]
	out := map[string]interface{}{"up": n.Up}
	if !n.Up {
		return out
	}
	p := n.CS.VerifProject(s.MaxRound)
	out["h"] = p.Height
	out["r"] = p.Round
	out["st"] = int64(p.Step)
	if p.Proposal {
		out["prop"] = map[string]interface{}{"v": s.SymOfHash(p.ProposalParts), "pol": p.ProposalPOLRound}
	} else {
		out["prop"] = map[string]interface{}{"v": NoneSym, "pol": int64(-1)}
	}
	out["pb"] = s.SymOfHash(p.ProposalBlock)
	if p.PartsHeader == "-" {
		out["pp"] = map[string]interface{}{"v": NoneSym, "done": false}
	} else {
		out["pp"] = map[string]interface{}{"v": s.SymOfHash(p.PartsHeader), "done": p.PartsComplete}
	}
	out["lr"] = p.LockedRound
	out["lb"] = s.SymOfHash(p.LockedBlock)
	out["cr"] = p.CommitRound
	// vote sets are indexed by position in the validator set of their height; the spec indexes by validator identity
	vsAt := func(v pbft.VerifVoteSet, h int64) []interface{} {
		o := make([]interface{}, s.N)
		pw := s.PowersAt(h)
		for id := 1; id <= s.N; id++ {
			o[id-1] = NoneSym
			if !v.Exists || pw[id-1] == 0 {
				continue
			}
			if k := s.indexAt(h, id); k < len(v.Votes) {
				o[id-1] = s.SymOfHash(v.Votes[k])
			}
		}
		return o
	}
	vs := func(v pbft.VerifVoteSet) []interface{} { return vsAt(v, p.Height) }
	pv := map[string]interface{}{}
	pc := map[string]interface{}{}
	for r := int64(0); r <= s.MaxRound; r++ {
		pv[fmt.Sprint(r)] = vs(p.Prevotes[r])
		pc[fmt.Sprint(r)] = vs(p.Precommits[r])
	}
	out["pvc"] = pv
	out["pcc"] = pc
	rs := []interface{}{}
	for r := int64(0); r <= s.MaxRound; r++ {
		if p.Prevotes[r].Exists {
			rs = append(rs, r)
		}
	}
	out["rs"] = rs
	if p.LastCommitRound >= 0 {
		out["lc"] = map[string]interface{}{"r": p.LastCommitRound, "c": vsAt(p.LastCommit, p.Height-1)}
	} else {
		out["lc"] = map[string]interface{}{"r": int64(-1), "c": vs(pbft.VerifVoteSet{})}
	}
	// internal queue, abstracted
	var iq []interface{}
	for _, m := range n.IQ {
		am, err := s.Abstract(i, m)
		if err != nil {
			iq = append(iq, map[string]interface{}{"t": "?", "err": err.Error()})
			continue
		}
		iq = append(iq, am.AsSpec())
	}
	if iq == nil {
		iq = []interface{}{}
	}
	out["iq"] = iq
	ti, armed := n.Ticker.Current()
	out["timer"] = map[string]interface{}{"h": ti.Height, "r": ti.Round, "st": int64(ti.Step)}
	out["armed"] = armed
	var tocks []interface{}
	for _, t := range n.Tocks {
		tocks = append(tocks, map[string]interface{}{"h": t.Height, "r": t.Round, "st": int64(t.Step)})
	}
	if tocks == nil {
		tocks = []interface{}{}
	}
	out["tocks"] = tocks
	// committed chain as stored
	var dec []interface{}
	for h := int64(1); h <= n.Store.Height(); h++ {
		meta := n.Store.LoadBlockMeta(h)
		if meta == nil {
			dec = append(dec, []interface{}{"?", "missing"})
			continue
		}
		dec = append(dec, s.SymOfHash(hexs(meta.Hash)))
	}
	if dec == nil {
		dec = []interface{}{}
	}
	out["dec"] = dec
	out["sig"] = map[string]interface{}{"h": n.PrivVal.LastHeight, "r": n.PrivVal.LastRound, "s": int64(n.PrivVal.LastStep)}
	// proposer index as this node computes it
	out["proposer"] = int64(s.idxOfAddr(p.Proposer))
	return out
}

func (s *Sim) idxOfAddr(hexaddr string) int {
	for k, a := range s.Addrs {
		if hexs(a) == hexaddr {
			return k + 1
		}
	}
	return 0
}

// AsSpec renders the message as the record of Tendermint.tla.
func (m Msg) AsSpec() map[string]interface{} {
	switch m.T {
	case "P":
		return map[string]interface{}{"t": "P", "h": m.H, "r": m.R, "v": m.V, "pol": m.Pol, "by": int64(m.By)}
	case "B":
		return map[string]interface{}{"t": "B", "h": m.H, "r": m.R, "v": m.V}
	}
	return map[string]interface{}{"t": "V", "h": m.H, "r": m.R, "ty": m.Ty, "by": int64(m.By), "v": m.V}
}

// MsgFromSpec parses a message record of the spec (decoded JSON).
func MsgFromSpec(v interface{}) (Msg, error) {
	d, ok := v.(map[string]interface{})
	if !ok {
		return Msg{}, fmt.Errorf("not a message: %#v", v)
	}
	m := Msg{T: d["t"].(string), H: jnum(d["h"]), R: jnum(d["r"])}
	if x, ok := d["v"].([]interface{}); ok {
		m.V = normSym(x)
	}
	if x, ok := d["pol"]; ok {
		m.Pol = jnum(x)
	}
	if x, ok := d["by"]; ok {
		m.By = int(jnum(x))
	}
	if x, ok := d["ty"].(string); ok {
		m.Ty = x
	}
	return m, nil
}

func normSym(x []interface{}) []interface{} {
	o := make([]interface{}, len(x))
	for i, e := range x {
		switch t := e.(type) {
		case string:
			o[i] = t
		default:
			o[i] = jnum(e)
		}
	}
	return o
}

// IdxOfAddr maps a validator address to its 1-based index.
func (s *Sim) IdxOfAddr(addr []byte) int { return s.idxOfAddr(hexs(addr)) }

// CheckAgreement compares the block stores of all live nodes: same height => same block, and each block
// names its predecessor. Returns "" when fine.
func (s *Sim) CheckAgreement() string {
	ref := map[int64]string{}
	for _, i := range s.HonestIdx() {
		n := s.Nodes[i]
		if !n.Up {
			continue
		}
		var prev []byte
		for h := int64(1); h <= n.Store.Height(); h++ {
			meta := n.Store.LoadBlockMeta(h)
			if meta == nil {
				return fmt.Sprintf("node %d: block %d missing below store height %d", i, h, n.Store.Height())
			}
			hs := hexs(meta.Hash)
			if o, ok := ref[h]; ok && o != hs {
				return fmt.Sprintf("two honest nodes committed different blocks at height %d: %s vs %s", h, o, hs)
			}
			ref[h] = hs
			if h > 1 && hexs(meta.Header.LastBlockID.Hash) != hexs(prev) {
				return fmt.Sprintf("node %d: block %d does not name block %d as predecessor", i, h, h-1)
			}
			prev = meta.Hash
		}
	}
	return ""
}
