// Package evmutil is shared by the C05/C09/C19 replay drivers: it assembles the REAL chain/app/evm
// EVMApp on real LevelDBs in a temporary directory the way chain/core.NewNode does (viper config with
// db_dir and block_size, vm.DefaultAdminContract callback set), builds deterministic blocks and real
// signed transactions, and drives the application through the same entry points gemmill uses
// (Hooks.OnExecute / Hooks.OnCommit callbacks, TxPool.Update before OnCommit as in
// state.CommitStateUpdateMempool).
package evmutil

import (
	"crypto/ecdsa"
	"fmt"
	"io/ioutil"
	"math/big"
	"os"
	"runtime"
	"strings"
	"sync"
	"time"

	"github.com/spf13/viper"
	"go.uber.org/zap"

	"github.com/dappledger/AnnChain/chain/app/evm"
	rtypes "github.com/dappledger/AnnChain/chain/types"
	"github.com/dappledger/AnnChain/eth/common"
	etypes "github.com/dappledger/AnnChain/eth/core/types"
	"github.com/dappledger/AnnChain/eth/core/vm"
	ecrypto "github.com/dappledger/AnnChain/eth/crypto"
	"github.com/dappledger/AnnChain/eth/rlp"
	glog "github.com/dappledger/AnnChain/gemmill/modules/go-log"
	sm "github.com/dappledger/AnnChain/gemmill/state"
	gtypes "github.com/dappledger/AnnChain/gemmill/types"

	"verifharness/mbt"
)

var Signer = etypes.HomesteadSigner{}

// Key returns the deterministic secp256k1 key of account i.
func Key(i int) *ecdsa.PrivateKey {
	k, err := ecrypto.ToECDSA(ecrypto.Keccak256([]byte(fmt.Sprintf("verif-account-%d", i))))
	if err != nil {
		panic(err)
	}
	return k
}

func Addr(k *ecdsa.PrivateKey) common.Address { return ecrypto.PubkeyToAddress(k.PublicKey) }

// SignedTx returns the RLP bytes of a signed transaction (to == nil: contract creation).
func SignedTx(k *ecdsa.PrivateKey, nonce uint64, to *common.Address, value int64, gas uint64, gasPrice int64, data []byte) []byte {
	var tx *etypes.Transaction
	if to == nil {
		tx = etypes.NewContractCreation(nonce, big.NewInt(value), gas, big.NewInt(gasPrice), data)
	} else {
		tx = etypes.NewTransaction(nonce, *to, big.NewInt(value), gas, big.NewInt(gasPrice), data)
	}
	stx, err := etypes.SignTx(tx, Signer, k)
	if err != nil {
		panic(err)
	}
	b, err := rlp.EncodeToBytes(stx)
	if err != nil {
		panic(err)
	}
	return b
}

// KVPayload is the data field of a key-value transaction.
func KVPayload(key, value []byte) []byte {
	b, err := rlp.EncodeToBytes(&rtypes.KV{Key: key, Value: value})
	if err != nil {
		panic(err)
	}
	return append(append([]byte{}, rtypes.KVTxType...), b...)
}

// rawTx mirrors the unexported RLP layout of etypes.Transaction so that fields can be tampered with.
type rawTx struct {
	AccountNonce uint64
	Price        *big.Int
	GasLimit     uint64
	Recipient    *common.Address `rlp:"nil"`
	Amount       *big.Int
	Payload      []byte
	V, R, S      *big.Int
}

// BadSig returns raw with its signature replaced by one that Sender() rejects: kind 0: r = s = 0,
// kind 1: v = 99, kind 2: s above secp256k1n/2 (homestead rule), kind 3: r = s = 1 with v = 29.
func BadSig(raw []byte, kind int) []byte {
	var d rawTx
	if err := rlp.DecodeBytes(raw, &d); err != nil {
		panic(err)
	}
	switch kind % 4 {
	case 0:
		d.R, d.S = big.NewInt(0), big.NewInt(0)
	case 1:
		d.V = big.NewInt(99)
	case 2:
		n, _ := new(big.Int).SetString("fffffffffffffffffffffffffffffffebaaedce6af48a03bbfd25e8cd0364141", 16)
		d.S = new(big.Int).Sub(n, d.S)
		if d.S.Cmp(new(big.Int).Rsh(n, 1)) <= 0 { // was already high (cannot happen for SignTx output)
			d.S = new(big.Int).Sub(n, big.NewInt(1))
		}
	case 3:
		d.V, d.R, d.S = big.NewInt(29), big.NewInt(1), big.NewInt(1)
	}
	b, err := rlp.EncodeToBytes(&d)
	if err != nil {
		panic(err)
	}
	return b
}

// Sender recovers the sender of raw (ok=false when it does not decode or has no valid signature).
func Sender(raw []byte) (common.Address, *etypes.Transaction, bool) {
	tx := new(etypes.Transaction)
	if len(raw) == 0 || rlp.DecodeBytes(raw, tx) != nil {
		return common.Address{}, nil, false
	}
	a, err := etypes.Sender(Signer, tx)
	return a, tx, err == nil
}

// AdminCalls records what the 0xfe precompile handed to the callback (the node installs Angine.ExecAdminTx).
type AdminCall struct {
	From []byte
	Data []byte
}

var AdminLog []AdminCall

// AdminOK is the payload the stub callback accepts; anything else is refused like a malformed admin op.
var AdminOK = []byte("verif-admin-ok")

func init() {
	glog.SetLog(zap.NewNop())
	vm.DefaultAdminContract.SetCallback(func(app *vm.AdminDBApp, data []byte) error {
		AdminLog = append(AdminLog, AdminCall{append([]byte{}, app.From()...), append([]byte{}, data...)})
		if string(data) == string(AdminOK) {
			return nil
		}
		return fmt.Errorf("verif: admin op refused")
	})
}

// Node is one replica: the real EVMApp over a directory.
type Node struct {
	Dir         string
	BlockSize   int
	App         *evm.EVMApp
	Starts      int
	History     []*gtypes.Block // committed blocks (a stuck call is retried on a fresh replica with the same chain)
	Abandoned   []string        // directories of abandoned (stuck) application objects
	evsw        gtypes.EventSwitch
	commitRes   *gtypes.CommitResult
	commitErr   error
	commitPanic interface{}
	commitStack string
	owner       *Node
	Started     time.Time // when the application (and its pool's eviction ticker) was last started
	// headers of the committed blocks: the Node is the application's gtypes.Core (block store) like Angine is
	Metas map[int64]*gtypes.BlockMeta
}

// Query implements gtypes.Core (transaction lookups are not used by the checks).
func (n *Node) QueryCore(byte, []byte) (interface{}, error) {
	return nil, fmt.Errorf("verif: no tx index")
}

type coreStub struct{ n *Node }

func (c coreStub) Query(t byte, b []byte) (interface{}, error) { return c.n.QueryCore(t, b) }
func (c coreStub) GetBlockMeta(height int64) (*gtypes.BlockMeta, error) {
	if m, ok := c.n.Metas[height]; ok {
		return m, nil
	}
	return nil, fmt.Errorf("verif: no block meta for height %d", height)
}

func conf(dir string, blockSize int) *viper.Viper {
	c := viper.New()
	c.Set("db_dir", dir)
	c.Set("block_size", blockSize)
	return c
}

var (
	allDirs   []string
	allDirsMu sync.Mutex
)

// RemoveAllDirs deletes every data directory this process created (used before an os.Exit with stuck goroutines).
func RemoveAllDirs() {
	allDirsMu.Lock()
	defer allDirsMu.Unlock()
	for _, d := range allDirs {
		os.RemoveAll(d)
	}
}

// NewNode creates a fresh data directory and starts the application on it.
func NewNode(blockSize int) (*Node, error) {
	dir, err := ioutil.TempDir("", "verif-evm-")
	if err != nil {
		return nil, err
	}
	allDirsMu.Lock()
	allDirs = append(allDirs, dir)
	allDirsMu.Unlock()
	n := &Node{Dir: dir, BlockSize: blockSize, Metas: map[int64]*gtypes.BlockMeta{}}
	if err := n.open(); err != nil {
		os.RemoveAll(dir)
		return nil, err
	}
	return n, nil
}

func (n *Node) open() error {
	app, err := evm.NewEVMApp(conf(n.Dir, n.BlockSize))
	if err != nil {
		return err
	}
	if err := app.Start(); err != nil {
		return err
	}
	app.SetCore(coreStub{n})
	if n.evsw == nil {
		// the commit-hook listener Angine installs: run the application's OnCommit and hand back its result
		n.evsw = gtypes.NewEventSwitch()
		if _, err := n.evsw.Start(); err != nil {
			return err
		}
		self := n
		gtypes.AddListenerForEvent(n.evsw, "verif", gtypes.EventStringHookCommit(), func(ed gtypes.TMEventData) {
			data := ed.(gtypes.EventDataHookCommit)
			t := self
			if t.owner != nil {
				t = t.owner
			}
			var r interface{}
			var err error
			// (a panic must not unwind through the event switch, which holds its read lock around the listeners)
			t.commitPanic, t.commitStack = mbt.Catch(func() { r, err = t.App.OnCommit(data.Height, data.Round, data.Block) })
			t.commitErr = err
			if cs, ok := r.(gtypes.CommitResult); ok {
				t.commitRes = &cs
				data.ResCh <- cs
			} else {
				data.ResCh <- gtypes.CommitResult{}
			}
		})
	}
	n.App = app
	n.Started = time.Now()
	n.Starts++
	return nil
}

// Restart is a process restart as far as the application is concerned: Stop, NewEVMApp, Start on the same dirs.
func (n *Node) Restart() error {
	n.App.Stop()
	n.App = nil
	return n.open()
}

// Close stops the application and removes its directory.
func (n *Node) Close() {
	if n.App != nil {
		n.App.Stop()
		n.App = nil
	}
	os.RemoveAll(n.Dir)
	for _, d := range n.Abandoned {
		os.RemoveAll(d)
	}
}

// MakeBlock builds block `height` deterministically (same bytes on every replica).
func MakeBlock(height int64, txs [][]byte) *gtypes.Block {
	t := make([]gtypes.Tx, len(txs))
	for i := range txs {
		t[i] = gtypes.Tx(txs[i])
	}
	b := &gtypes.Block{
		Header: &gtypes.Header{
			ChainID: "verif-chain",
			Height:  height,
			Time:    time.Unix(1500000000+height*3, 0).UTC(),
			NumTxs:  int64(len(txs)),
			LastBlockID: gtypes.BlockID{Hash: ecrypto.Keccak256([]byte(fmt.Sprintf("verif-block-%d", height-1)))[:20],
				PartsHeader: gtypes.PartSetHeader{Total: 1, Hash: ecrypto.Keccak256([]byte(fmt.Sprintf("verif-parts-%d", height-1)))[:20]}},
		},
		Data:       &gtypes.Data{Txs: t},
		LastCommit: &gtypes.Commit{},
	}
	return b
}

// Hang is returned (in place of a panic value) when OnExecute / OnCommit did not return within the deadline on this
// replica AND, retried with twice the deadline, on a fresh replica that had committed the same chain.
type Hang struct {
	Call     string
	Deadline time.Duration
	Dump     string
}

func (h Hang) String() string {
	return fmt.Sprintf("%s did not return within %v, nor within %v on a fresh application with the same chain", h.Call, h.Deadline, 2*h.Deadline)
}

// Deadline is the watchdog for one OnExecute / OnCommit call (blocks of the checks hold a handful of transactions).
var Deadline = 60 * time.Second

func goroutineDump() string {
	buf := make([]byte, 1<<20)
	buf = buf[:runtime.Stack(buf, true)]
	var keep []string
	for _, g := range strings.Split(string(buf), "\n\n") {
		if strings.Contains(g, "chain/app/evm") {
			if len(g) > 1500 {
				g = g[:1500]
			}
			keep = append(keep, g)
		}
		if len(keep) >= 8 {
			break
		}
	}
	return strings.Join(keep, "\n\n")
}

type execOut struct {
	res   gtypes.ExecuteResult
	err   error
	pnc   interface{}
	stack string
}

func (n *Node) rawExecute(b *gtypes.Block, d time.Duration) (execOut, bool) {
	ch := make(chan execOut, 1)
	app := n.App
	go func() {
		var o execOut
		o.pnc, o.stack = mbt.Catch(func() {
			var r interface{}
			r, o.err = app.OnExecute(b.Height, 0, b)
			if rr, ok := r.(gtypes.ExecuteResult); ok {
				o.res = rr
			}
		})
		ch <- o
	}()
	select {
	case o := <-ch:
		return o, true
	case <-time.After(d):
		return execOut{}, false
	}
}

type commitOut struct {
	res   gtypes.CommitResult
	err   error
	pnc   interface{}
	stack string
}

func (n *Node) rawCommit(b *gtypes.Block, d time.Duration) (commitOut, bool) {
	ch := make(chan commitOut, 1)
	go func() {
		var o commitOut
		o.pnc, o.stack = mbt.Catch(func() {
			// the real caller: state.CommitStateUpdateMempool(evsw, block, pool, round) tells the pool the block's Txs and
			// ExTxs and fires the commit hook, which the listener installed by open() answers with the application's OnCommit
			n.commitErr, n.commitRes, n.commitPanic = nil, nil, nil
			if e := (&sm.State{}).CommitStateUpdateMempool(n.evsw, b, n.App.GetTxPool(), 0); e != nil {
				o.err = e
			}
			if n.commitErr != nil {
				o.err = n.commitErr
			}
			if n.commitPanic != nil {
				p, st := n.commitPanic, n.commitStack
				n.commitPanic = nil
				o.stack = st
				panic(p)
			}
			if n.commitRes != nil {
				o.res = *n.commitRes
			}
		})
		ch <- o
	}()
	select {
	case o := <-ch:
		return o, true
	case <-time.After(d):
		return commitOut{}, false
	}
}

// fresh builds a new replica that has committed the same blocks (no watchdog retry inside).
func (n *Node) fresh(d time.Duration) (*Node, bool) {
	f, err := NewNode(n.BlockSize)
	if err != nil {
		return nil, false
	}
	for _, b := range n.History {
		if o, ok := f.rawExecute(b, d); !ok || o.err != nil || o.pnc != nil {
			return nil, false
		}
		if o, ok := f.rawCommit(b, d); !ok || o.err != nil || o.pnc != nil {
			return nil, false
		}
		f.History = append(f.History, b)
		f.Metas[b.Height] = &gtypes.BlockMeta{Hash: b.Hash(), Header: b.Header}
	}
	return f, true
}

// adopt makes n continue on the replica f (the stuck application object is abandoned; it cannot be reclaimed).
func (n *Node) adopt(f *Node) {
	n.Abandoned = append(n.Abandoned, n.Dir)
	n.Dir, n.App, n.evsw, n.Started = f.Dir, f.App, f.evsw, f.Started
	f.owner = n
}

// Execute calls the application's execute hook callback the way angine does (Hooks.OnExecute wraps
// app.OnExecute); a panic is returned, not propagated.  A call that does not return within Deadline is retried once
// on a fresh replica with the same chain and twice the deadline (machine load); two expiries are reported as Hang.
func (n *Node) Execute(b *gtypes.Block) (res gtypes.ExecuteResult, err error, pnc interface{}, stack string) {
	o, ok := n.rawExecute(b, Deadline)
	if !ok {
		dump := goroutineDump()
		f, fok := n.fresh(2 * Deadline)
		if fok {
			o, ok = f.rawExecute(b, 2*Deadline)
			if ok {
				n.adopt(f)
			}
		}
		if !ok {
			return res, nil, Hang{Call: "OnExecute", Deadline: Deadline, Dump: dump}, dump
		}
	}
	return o.res, o.err, o.pnc, o.stack
}

// Commit is state.CommitStateUpdateMempool: TxPool.Update(height, txs + extxs) then the commit hook.
func (n *Node) Commit(b *gtypes.Block) (res gtypes.CommitResult, err error, pnc interface{}, stack string) {
	o, ok := n.rawCommit(b, Deadline)
	if !ok {
		dump := goroutineDump()
		return res, nil, Hang{Call: "OnCommit", Deadline: Deadline, Dump: dump}, dump
	}
	if o.pnc == nil && o.err == nil {
		n.Metas[b.Height] = &gtypes.BlockMeta{Hash: b.Hash(), Header: b.Header}
		n.History = append(n.History, b)
	}
	return o.res, o.err, o.pnc, o.stack
}

// Query helpers -----------------------------------------------------------------------------------

func (n *Node) Query(kind byte, load []byte) (res gtypes.Result, pnc interface{}, stack string) {
	pnc, stack = mbt.Catch(func() { res = n.App.Query(append([]byte{kind}, load...)) })
	return
}

// Nonce returns the committed nonce of addr through Query.
func (n *Node) Nonce(addr common.Address) (uint64, error) {
	res, p, _ := n.Query(rtypes.QueryType_Nonce, addr.Bytes())
	if p != nil {
		return 0, fmt.Errorf("panic: %v", p)
	}
	if res.Code != gtypes.CodeType_OK {
		return 0, fmt.Errorf("query nonce: %v %s", res.Code, res.Log)
	}
	var v uint64
	if err := rlp.DecodeBytes(res.Data, &v); err != nil {
		return 0, err
	}
	return v, nil
}

// TxHash is the application's transaction hash (keccak of the RLP bytes).
func TxHash(raw []byte) []byte { return gtypes.Tx(raw).Hash() }

// Classify assigns "valid"/"invalid" to every position of the block from the two lists of an
// ExecuteResult (each list is in block order).  When the same bytes head both lists the preferred
// class (prefer[i], may be "") is tried first.  ok=false: the lists are not a partition of the block.
func Classify(block [][]byte, res gtypes.ExecuteResult, prefer []string) (out []string, ok bool) {
	out = make([]string, len(block))
	var rec func(i, v, n int) bool
	rec = func(i, v, n int) bool {
		if i == len(block) {
			return v == len(res.ValidTxs) && n == len(res.InvalidTxs)
		}
		mv := v < len(res.ValidTxs) && string(res.ValidTxs[v]) == string(block[i])
		mn := n < len(res.InvalidTxs) && string(res.InvalidTxs[n].Bytes) == string(block[i])
		order := []string{"valid", "invalid"}
		if i < len(prefer) && prefer[i] == "invalid" {
			order = []string{"invalid", "valid"}
		}
		for _, c := range order {
			if c == "valid" && mv {
				out[i] = c
				if rec(i+1, v+1, n) {
					return true
				}
			}
			if c == "invalid" && mn {
				out[i] = c
				if rec(i+1, v, n+1) {
					return true
				}
			}
		}
		return false
	}
	ok = rec(0, 0, 0)
	return
}

// ReceiptStatus queries the stored receipt of a transaction: found=false when the application has none.
func (n *Node) ReceiptStatus(raw []byte) (found bool, status uint64, data []byte, err error) {
	res, p, _ := n.Query(rtypes.QueryType_Receipt, TxHash(raw))
	if p != nil {
		return false, 0, nil, fmt.Errorf("panic: %v", p)
	}
	if res.Code != gtypes.CodeType_OK {
		return false, 0, nil, nil
	}
	var r etypes.ReceiptForStorage
	if e := rlp.DecodeBytes(res.Data, &r); e != nil {
		return true, 0, res.Data, e
	}
	return true, r.Status, res.Data, nil
}

// KVGet queries a key-value record (found=false when absent).
func (n *Node) KVGet(key []byte) (found bool, val []byte, err error) {
	res, p, _ := n.Query(rtypes.QueryType_Key, key)
	if p != nil {
		return false, nil, fmt.Errorf("panic: %v", p)
	}
	if res.Code != gtypes.CodeType_OK {
		return false, nil, nil
	}
	return true, res.Data, nil
}

// Counter reads slot 0 of the target contract through a contract-call query (empty when no contract).
func (n *Node) Counter() (ret []byte, err error) {
	tgt := Target()
	q := SignedTx(Key(1), 0, &tgt, 0, 1000000, 0, []byte{3})
	res, p, st := n.Query(rtypes.QueryType_Contract, q)
	if p != nil {
		return nil, fmt.Errorf("panic: %v\n%s", p, st)
	}
	if res.Code != gtypes.CodeType_OK {
		return nil, fmt.Errorf("query contract: %v %s", res.Code, res.Log)
	}
	return res.Data, nil
}

// Env asks the counter contract for (NUMBER, TIMESTAMP) of the header a contract-call query runs under.
func (n *Node) Env() (ret []byte, err error) {
	tgt := Target()
	q := SignedTx(Key(1), 0, &tgt, 0, 1000000, 0, []byte{6})
	res, p, st := n.Query(rtypes.QueryType_Contract, q)
	if p != nil {
		return nil, fmt.Errorf("panic: %v\n%s", p, st)
	}
	if res.Code != gtypes.CodeType_OK {
		return nil, fmt.Errorf("query contract: %v %s", res.Code, res.Log)
	}
	return res.Data, nil
}

// HasCounterCode tells whether the counter contract's runtime code is deployed at addr.
func (n *Node) HasCounterCode(addr common.Address) (bool, error) {
	runtime := CounterInit[11:]
	q := SignedTx(Key(1), 0, &addr, 0, 0, 0, ecrypto.Keccak256(runtime))
	res, p, _ := n.Query(rtypes.QueryType_Existence, q)
	if p != nil {
		return false, fmt.Errorf("panic: %v", p)
	}
	if res.Code != gtypes.CodeType_OK {
		return false, fmt.Errorf("query existence: %v %s", res.Code, res.Log)
	}
	return len(res.Data) == 1 && res.Data[0] == 1, nil
}
