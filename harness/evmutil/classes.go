package evmutil

import (
	"encoding/binary"
	"encoding/hex"
	"fmt"
	"strings"

	"github.com/dappledger/AnnChain/eth/common"
	ecrypto "github.com/dappledger/AnnChain/eth/crypto"

	"verifharness/mbt"
)

// ATx is an abstract transaction of specs/txexec/TxSem.tla.
type ATx struct {
	C string
	A int
	N uint64
	K string
	V string
}

func (t ATx) String() string { return fmt.Sprintf("%s(a%d,n%d,%s,%s)", t.C, t.A, t.N, t.K, t.V) }

// ParseATx reads the JSON form of a TLA+ record [c, a, n, k, v].
func ParseATx(v interface{}) ATx {
	m := v.(map[string]interface{})
	return ATx{C: mbt.Str(m["c"]), A: mbt.Int(m["a"]), N: uint64(mbt.Int(m["n"])), K: mbt.Str(m["k"]), V: mbt.Str(m["v"])}
}

// counter contract: see DESIGN of the driver; selector = first calldata byte
//
//	none/0: cnt++ and LOG1; 1: REVERT; 2: memory expansion beyond the gas budget; 3: return cnt;
//	4: infinite loop; 5: CALL 0xfe with calldata[1:]
var CounterInit, _ = hex.DecodeString("60b080600b6000396000f360003560001a80600114604c578060021460525780600314605c578060041460685780600514606c5780600614608557806007146093576000546001018060005560005260aa60206000a1005b60006000fd5b6001633fffffff52005b60005460005260206000f35b6068565b36600060003760006000600136036001600060fe5af150005b436000524260205260406000f35b60785b6000600060006000600160046000f150600190038060965700")

var (
	PlainTo   = common.HexToAddress("0x00000000000000000000000000000000000d00d5")
	AdminAddr = common.BytesToAddress([]byte{0xfe})
	// AdminContract is the genesis contract (eth/core.AdminTo) whose changenode(bytes) forwards to 0xfe.
	AdminContract = common.HexToAddress("0x02000000")
)

// Target is the contract created by (account 1, nonce 0).
func Target() common.Address { return ecrypto.CreateAddress(Addr(Key(1)), 0) }

const BigPad = "#"

// AdminInput builds the input of the 0xfe precompile: 32-byte length word | from (20) | data.
func AdminInput(dlen uint64, from common.Address, data []byte, hiWord byte) []byte {
	w := make([]byte, 32)
	binary.BigEndian.PutUint64(w[24:], dlen)
	w[0] = hiWord
	return append(append(w, from.Bytes()...), data...)
}

// NumVariants tells how many concrete forms a class has.
func NumVariants(c string) int {
	switch c {
	case "junk":
		return 9
	case "badsig":
		return 4
	case "pre":
		return 16
	case "admshort":
		return 11
	case "createfail":
		return 5
	case "createcalls":
		return 4
	case "admok":
		return 3
	case "admcall":
		return 4
	case "oog":
		return 1
	}
	return 1
}

// Concretize turns an abstract transaction into real (signed) transaction bytes.  All variants of a
// class are mapped by the specification to the same result.
func Concretize(t ATx, variant int) []byte {
	var k = Key(1)
	if t.A > 0 {
		k = Key(t.A)
	}
	from := Addr(k)
	tgt := Target()
	const gas = 3000000
	nv := NumVariants(t.C)
	variant = ((variant % nv) + nv) % nv
	switch t.C {
	case "xfer":
		return SignedTx(k, t.N, &PlainTo, 0, 21000, 0, nil)
	case "create":
		return SignedTx(k, t.N, nil, 0, gas, 0, CounterInit)
	case "createfail":
		// contract creation whose init code fails
		inits := [][]byte{
			{0xfe},                         // INVALID opcode
			{0x60, 0x00, 0x60, 0x00, 0xfd}, // PUSH1 0 PUSH1 0 REVERT
			{0x60, 0x01, 0x63, 0x3f, 0xff, 0xff, 0xff, 0x52, 0x00}, // MSTORE far beyond the gas budget
			{0x01},             // ADD on an empty stack
			{0x60, 0x07, 0x56}, // JUMP to a non-JUMPDEST
		}
		return SignedTx(k, t.N, nil, 0, gas, 0, inits[variant])
	case "createcalls":
		// contract creation whose init code makes many value-bearing calls (the creating contract has no balance:
		// every call fails with its 2300 gas stipend handed back), then STOPs: an ordinary valid creation
		return SignedTx(k, t.N, nil, 0, 1000000, 0, ValueCallsInit(variant))
	case "valuecalls":
		return SignedTx(k, t.N, &tgt, 0, gas, 0, []byte{7})
	case "call":
		return SignedTx(k, t.N, &tgt, 0, gas, 0, nil)
	case "revert":
		return SignedTx(k, t.N, &tgt, 0, gas, 0, []byte{1})
	case "oog":
		return SignedTx(k, t.N, &tgt, 0, gas, 0, []byte{2})
	case "loop":
		return SignedTx(k, t.N, &tgt, 0, gas, 0, []byte{4})
	case "admcall": // the counter contract CALLs 0xfe with calldata[1:] (short / well-formed / overlong)
		var payload []byte
		switch variant % 4 {
		case 0:
			payload = nil
		case 1:
			payload = make([]byte, 31)
		case 2:
			payload = AdminInput(uint64(20+len(AdminOK)), from, AdminOK, 0)
		case 3:
			payload = AdminInput(^uint64(0), from, AdminOK, 0xff)
		}
		return SignedTx(k, t.N, &tgt, 0, gas, 0, append([]byte{5}, payload...))
	case "pre":
		addr := common.BytesToAddress([]byte{byte(1 + variant%8)})
		var in []byte
		switch variant / 8 {
		case 0:
			in = nil
		case 1:
			in = ecrypto.Keccak256([]byte("pre"), []byte{byte(variant)})
			in = append(in, in...)
			in = append(in, in...)
			in = append(in, 0x1b, 0x00, 0x07)
		}
		return SignedTx(k, t.N, &addr, 0, gas, 0, in)
	case "admok":
		// through the genesis Admin contract (core.AdminTo): changenode(bytes) packs msg.sender|txdata and calls 0xfe
		data := AdminOK
		in := append([]byte{0xba, 0x9c, 0x71, 0x6e}, common.LeftPadBytes([]byte{0x20}, 32)...)
		in = append(in, common.LeftPadBytes([]byte{byte(len(data))}, 32)...)
		in = append(in, common.RightPadBytes(data, 32)...)
		if variant == 2 { // extra calldata after the ABI-encoded argument is ignored by the contract
			in = append(in, make([]byte, 32)...)
		}
		return SignedTx(k, t.N, &AdminContract, 0, gas, 0, in)
	case "admshort":
		var in []byte
		full := AdminInput(uint64(20+len(AdminOK)), from, AdminOK, 0)
		switch variant {
		case 0:
			in = nil
		case 1:
			in = []byte{0}
		case 2:
			in = full[:31]
		case 3:
			in = full[:32]
		case 4:
			in = full[:51]
		case 5: // length word 0: offset 32 < 52
			in = AdminInput(0, from, AdminOK, 0)
		case 6: // length word 2^64-1: offset wraps around
			in = AdminInput(^uint64(0), from, AdminOK, 0)
		case 7: // length word 2^63: int(offset) negative
			in = AdminInput(1<<63, from, AdminOK, 0)
		case 8: // length word 19: offset 51 < 52
			in = AdminInput(19, from, AdminOK, 0)
		case 9: // well-formed input, but not sent by the Admin contract
			in = full
		case 10:
			in = append(append([]byte{}, full...), []byte("trailing-garbage")...)
		}
		return SignedTx(k, t.N, &AdminAddr, 0, gas, 0, in)
	case "value":
		return SignedTx(k, t.N, &PlainTo, 1, 21000, 0, nil)
	case "price":
		return SignedTx(k, t.N, &PlainTo, 0, 21000, 1, nil)
	case "lowgas":
		return SignedTx(k, t.N, &PlainTo, 0, 20999, 0, nil)
	case "kv":
		return SignedTx(k, t.N, &PlainTo, 0, gas, 0, KVPayload([]byte(t.K), []byte(t.V)))
	case "kvbig":
		return SignedTx(k, t.N, &PlainTo, 0, gas, 0, KVPayload([]byte(t.K), []byte(t.V+strings.Repeat(BigPad, 5000))))
	case "kvbad":
		return SignedTx(k, t.N, &PlainTo, 0, gas, 0, append([]byte("kvTx-"), 0xc1, 0x80))
	case "badsig":
		return BadSig(SignedTx(k, t.N, &PlainTo, 0, 21000, 0, nil), variant)
	case "empty":
		return []byte{}
	case "junk":
		good := SignedTx(k, t.N, &PlainTo, 0, 21000, 0, nil)
		switch variant {
		case 0:
			return append(ecrypto.Keccak256([]byte("junk")), ecrypto.Keccak256([]byte("junk2"))[:9]...)
		case 1:
			return good[:len(good)-1]
		case 2:
			return good[:len(good)/2]
		case 3:
			return []byte{0xc3, 0x01, 0x02, 0x03}
		case 4:
			return []byte{0x80}
		case 5:
			return []byte{0xc0}
		case 6:
			return append(append([]byte{}, good...), 0x00)
		case 7:
			return []byte{0xf8, 0xff, 0x01}
		case 8:
			return []byte{0xbf, 0xff, 0xff, 0xff, 0xff, 0xff, 0xff, 0xff, 0xff}
		}
	}
	panic("unknown tx class " + t.C)
}

// ValueCallsInit is init code that performs many value-bearing calls and deploys nothing:
//
//	0: 60 x CALL(gas 0, to 0x04, value 1) unrolled;  1: the same with CALLCODE;  2: 40 x CALL to a plain address with gas 5000;
//	3: a loop of 200 CALLs
func ValueCallsInit(variant int) []byte {
	one := func(op byte, to byte, g byte) []byte {
		return []byte{0x60, 0x00, 0x60, 0x00, 0x60, 0x00, 0x60, 0x00, 0x60, 0x01, 0x60, to, 0x61, g, 0x00, op, 0x50}
	}
	var code []byte
	switch variant % 4 {
	case 0:
		for i := 0; i < 60; i++ {
			code = append(code, one(0xf1, 0x04, 0)...)
		}
	case 1:
		for i := 0; i < 60; i++ {
			code = append(code, one(0xf2, 0x04, 0)...)
		}
	case 2:
		for i := 0; i < 40; i++ {
			code = append(code, one(0xf1, 0xd5, 0x13)...)
		}
	case 3:
		// PUSH1 200 ; JUMPDEST ; CALL... POP ; PUSH1 1 SWAP1 SUB DUP1 PUSH1 2 JUMPI
		code = []byte{0x60, 200, 0x5b}
		code = append(code, one(0xf1, 0x04, 0)...)
		code = append(code, 0x60, 0x01, 0x90, 0x03, 0x80, 0x60, 0x02, 0x57)
	}
	return append(code, 0x00)
}

// ExpectStatus is the receipt status the specification prescribes (nil: not determined by the model);
// targetLive tells whether the counter contract exists when the transaction runs.
func ExpectStatus(c string, targetLive bool) *bool {
	t, f := true, false
	switch c {
	case "xfer", "create", "call", "admok", "createcalls", "valuecalls":
		return &t
	case "revert", "oog", "loop":
		if targetLive {
			return &f
		}
		return &t
	case "admshort", "createfail":
		return &f
	}
	return nil
}
