// Package p2putil holds what the C20 driver (cmd/p2p) needs around the real gemmill/p2p code:
// an in-memory byte pipe whose far end is owned by a man in the middle, a deterministic byte stream,
// and an INDEPENDENT implementation of the SecretConnection handshake wire format (ephemeral key
// exchange, nonce derivation, sealed frames, auth message) so that the man in the middle can take
// part in handshakes the way an attacker with its own key could.
package p2putil

import (
	"bytes"
	"crypto/sha256"
	"encoding/binary"
	"errors"
	"io"
	"net"
	"sync"
	"time"

	"golang.org/x/crypto/nacl/box"
	"golang.org/x/crypto/nacl/secretbox"
	"golang.org/x/crypto/ripemd160"

	crypto "github.com/dappledger/AnnChain/gemmill/go-crypto"
	wire "github.com/dappledger/AnnChain/gemmill/go-wire"
)

// Wire format constants of secret_connection.go (restated, not imported: they are unexported there).
const (
	DataMax     = 1024
	LenSize     = 2
	FrameSize   = DataMax + LenSize
	SealedSize  = FrameSize + secretbox.Overhead
	EphKeySize  = 32
	HsTimeout   = 20 * time.Second
	authFrames  = 2 // length frame + body frame
	AuthBlobLen = authFrames * SealedSize
)

// ErrWouldBlock is returned by a Queue in non-blocking mode when the real code asks for bytes that
// the scenario has not put on the wire: with a sequential driver that is a modelling error, never a hang.
var ErrWouldBlock = errors.New("p2putil: read would block")

// ErrTimeout is returned by a blocking read that waited longer than the (generous) handshake timeout.
var ErrTimeout = errors.New("p2putil: read timed out")

// Queue is one direction of an in-memory connection.
type Queue struct {
	mu       sync.Mutex
	cond     *sync.Cond
	buf      []byte
	closed   bool
	Blocking bool
	Total    int // bytes ever written
}

func NewQueue() *Queue {
	q := &Queue{Blocking: true}
	q.cond = sync.NewCond(&q.mu)
	return q
}

func (q *Queue) Write(p []byte) (int, error) {
	q.mu.Lock()
	defer q.mu.Unlock()
	if q.closed {
		return 0, io.ErrClosedPipe
	}
	q.buf = append(q.buf, p...)
	q.Total += len(p)
	q.cond.Broadcast()
	return len(p), nil
}

func (q *Queue) Read(p []byte) (int, error) {
	q.mu.Lock()
	defer q.mu.Unlock()
	deadline := time.Now().Add(HsTimeout)
	for len(q.buf) == 0 {
		if q.closed {
			return 0, io.EOF
		}
		if !q.Blocking {
			return 0, ErrWouldBlock
		}
		if time.Now().After(deadline) {
			return 0, ErrTimeout
		}
		t := time.AfterFunc(200*time.Millisecond, func() { q.mu.Lock(); q.cond.Broadcast(); q.mu.Unlock() })
		q.cond.Wait()
		t.Stop()
	}
	n := copy(p, q.buf)
	q.buf = q.buf[n:]
	return n, nil
}

// Take removes and returns everything buffered.
func (q *Queue) Take() []byte {
	q.mu.Lock()
	defer q.mu.Unlock()
	b := q.buf
	q.buf = nil
	return b
}

func (q *Queue) Len() int {
	q.mu.Lock()
	defer q.mu.Unlock()
	return len(q.buf)
}

func (q *Queue) Close() {
	q.mu.Lock()
	q.closed = true
	q.cond.Broadcast()
	q.mu.Unlock()
}

// End is the connection an honest endpoint sees: it reads from In and writes to Out.  Reader, when set,
// replaces In (the man in the middle serving frames on demand in the stream phase).
// Seg > 0 makes the carrier fragment: one Read returns at most Seg bytes (a TCP connection may return any
// non-empty prefix of what is pending; io.Pipe-like transports that hand over every Write whole hide that).
type End struct {
	In     *Queue
	Out    *Queue
	Reader io.Reader
	Seg    int
	Reads  int // underlying Reads served
}

func NewEnd() *End { return &End{In: NewQueue(), Out: NewQueue()} }

func (e *End) Read(p []byte) (int, error) {
	e.Reads++
	if e.Seg > 0 && len(p) > e.Seg {
		p = p[:e.Seg]
	}
	if e.Reader != nil {
		return e.Reader.Read(p)
	}
	return e.In.Read(p)
}
func (e *End) Write(p []byte) (int, error) { return e.Out.Write(p) }
func (e *End) Close() error                { e.In.Close(); e.Out.Close(); return nil }

type addr struct{}

func (addr) Network() string { return "mem" }
func (addr) String() string  { return "mem" }

func (e *End) LocalAddr() net.Addr                { return addr{} }
func (e *End) RemoteAddr() net.Addr               { return addr{} }
func (e *End) SetDeadline(t time.Time) error      { return nil }
func (e *End) SetReadDeadline(t time.Time) error  { return nil }
func (e *End) SetWriteDeadline(t time.Time) error { return nil }

// Stream is the deterministic byte stream a writer sends: byte i depends only on (seed, i).
type Stream struct{ seed uint64 }

func NewStream(seed uint64) *Stream { return &Stream{seed*0x9E3779B97F4A7C15 + 0x1234567} }

func (s *Stream) At(i int) byte {
	x := s.seed + uint64(i)*0xBF58476D1CE4E5B9
	x ^= x >> 31
	x *= 0x94D049BB133111EB
	x ^= x >> 29
	return byte(x)
}

func (s *Stream) Range(off, n int) []byte {
	b := make([]byte, n)
	for i := range b {
		b[i] = s.At(off + i)
	}
	return b
}

// ---------------------------------------------------------------------------------------------
// the handshake, re-implemented from the protocol description (docs: STS with nacl box/secretbox)

// EphKey is an ephemeral curve25519 key pair.
type EphKey struct{ Pub, Priv *[32]byte }

func NewEphKey(r io.Reader) EphKey {
	pub, priv, err := box.GenerateKey(r)
	if err != nil {
		panic(err)
	}
	return EphKey{pub, priv}
}

// Leg is one party's view of a handshake with a remote ephemeral key: shared secret, challenge, nonces.
type Leg struct {
	Secret    [32]byte
	Challenge [32]byte
	SendNonce [24]byte
	RecvNonce [24]byte
}

func NewLeg(loc EphKey, rem *[32]byte) *Leg {
	l := &Leg{}
	box.Precompute(&l.Secret, rem, loc.Priv)
	lo, hi := loc.Pub, rem
	locIsLo := true
	if bytes.Compare(loc.Pub[:], rem[:]) >= 0 {
		lo, hi = rem, loc.Pub
		locIsLo = false
	}
	both := append(append([]byte{}, lo[:]...), hi[:]...)
	l.Challenge = sha256.Sum256(both)
	h := ripemd160.New()
	h.Write(both)
	var n1, n2 [24]byte
	copy(n1[:], h.Sum(nil))
	n2 = n1
	n2[23] ^= 0x01
	if locIsLo {
		l.RecvNonce, l.SendNonce = n1, n2
	} else {
		l.RecvNonce, l.SendNonce = n2, n1
	}
	return l
}

func incr2(n *[24]byte) {
	for k := 0; k < 2; k++ {
		for i := 23; i >= 0; i-- {
			n[i]++
			if n[i] != 0 {
				break
			}
		}
	}
}

// Seal produces the sealed frame for one chunk (<= DataMax bytes) and advances the send nonce.
func (l *Leg) Seal(chunk []byte) []byte {
	frame := make([]byte, FrameSize)
	binary.BigEndian.PutUint16(frame, uint16(len(chunk)))
	copy(frame[LenSize:], chunk)
	out := secretbox.Seal(nil, frame, &l.SendNonce, &l.Secret)
	incr2(&l.SendNonce)
	return out
}

// Open opens one sealed frame under the receive nonce (advanced only on success).
func (l *Leg) Open(sealed []byte) ([]byte, bool) {
	frame, ok := secretbox.Open(nil, sealed, &l.RecvNonce, &l.Secret)
	if !ok {
		return nil, false
	}
	incr2(&l.RecvNonce)
	n := int(binary.BigEndian.Uint16(frame))
	if n > DataMax {
		return nil, false
	}
	return frame[LenSize : LenSize+n], true
}

// AuthMsg has the shape of the unexported authSigMessage (go-wire encodes by structure).
type AuthMsg struct {
	Key crypto.PubKey
	Sig crypto.Signature
}

// SealAuth encodes the auth message as shareAuthSignature sends it: a frame with the 4-byte length, a frame with the body.
func (l *Leg) SealAuth(m AuthMsg) []byte {
	body := wire.BinaryBytes(m)
	lb := make([]byte, 4)
	binary.LittleEndian.PutUint32(lb, uint32(len(body)))
	return append(l.Seal(lb), l.Seal(body)...)
}

// OpenAuth opens the two frames of an auth message and decodes it.
func (l *Leg) OpenAuth(blob []byte) (AuthMsg, bool) {
	var m AuthMsg
	if len(blob) != AuthBlobLen {
		return m, false
	}
	lb, ok := l.Open(blob[:SealedSize])
	if !ok || len(lb) != 4 {
		return m, false
	}
	body, ok := l.Open(blob[SealedSize:])
	if !ok || len(body) != int(binary.LittleEndian.Uint32(lb)) {
		return m, false
	}
	if err := wire.ReadBinaryBytes(body, &m); err != nil {
		return m, false
	}
	return m, true
}

// ReadN reads exactly n bytes.
func ReadN(r io.Reader, n int) ([]byte, error) {
	b := make([]byte, n)
	_, err := io.ReadFull(r, b)
	return b, err
}
