// Package chainutil holds what the chain-level replay drivers (cmd/adminop C14, cmd/fastsync C13) share:
// deterministic node keys, an in-memory assembly of a real gemmill.Angine (through the verif hook
// gemmill.VerifAsmNew, i.e. the production buildState/assembleStateMachine/InitPlugins wiring),
// and production of REAL blocks with REAL commits (types.VoteSet.MakeCommit over votes signed with the
// validators' keys) that are executed through state.State.ApplyBlock.
package chainutil

import (
	"bytes"
	"fmt"
	"os"
	"path/filepath"
	"sort"
	"time"

	"github.com/spf13/viper"
	"go.uber.org/zap"

	"github.com/dappledger/AnnChain/gemmill"
	"github.com/dappledger/AnnChain/gemmill/archive"
	"github.com/dappledger/AnnChain/gemmill/config"
	crypto "github.com/dappledger/AnnChain/gemmill/go-crypto"
	dbm "github.com/dappledger/AnnChain/gemmill/modules/go-db"
	glog "github.com/dappledger/AnnChain/gemmill/modules/go-log"
	"github.com/dappledger/AnnChain/gemmill/p2p"
	"github.com/dappledger/AnnChain/gemmill/refuse_list"
	"github.com/dappledger/AnnChain/gemmill/state"
	"github.com/dappledger/AnnChain/gemmill/types"
)

const ChainID = "verif-chain"

// GenesisTime is fixed so that runs are reproducible.
var GenesisTime = time.Date(2020, 1, 1, 0, 0, 0, 0, time.UTC)

// Init selects the node crypto and silences (or redirects) the repository's loggers.
func Init() {
	crypto.NodeInit(crypto.CryptoTypeZhongAn)
	if p := os.Getenv("VERIF_DEBUG_LOG"); p != "" {
		c := zap.NewDevelopmentConfig()
		c.OutputPaths = []string{p}
		if l, err := c.Build(); err == nil {
			glog.SetLog(l)
			glog.SetAuditLog(zap.NewNop())
			return
		}
	}
	glog.SetLog(zap.NewNop())
	glog.SetAuditLog(zap.NewNop())
}

// Key is one node identity (ed25519), derived deterministically from its name.
type Key struct {
	Name string
	Priv crypto.PrivKeyEd25519
	Pub  crypto.PubKeyEd25519
	Addr []byte
}

func NewKey(name string) *Key {
	priv := crypto.GenPrivKeyEd25519FromSecret([]byte("verif-node-" + name))
	pub := priv.PubKey().(crypto.PubKeyEd25519)
	return &Key{Name: name, Priv: priv, Pub: pub, Addr: pub.Address()}
}

func (k *Key) PubBytes() []byte { return append([]byte(nil), k.Pub[:]...) }

// Sign returns the 64 signature bytes of msg.
func (k *Key) Sign(msg []byte) []byte {
	s := k.Priv.Sign(msg).(crypto.SignatureEd25519)
	return append([]byte(nil), s[:]...)
}

func (k *Key) PrivValidator() *types.PrivValidator {
	pv, err := types.GenPrivValidator(crypto.CryptoTypeZhongAn, k.Priv)
	if err != nil {
		panic(err)
	}
	return pv
}

// KeyRing finds keys by validator address.
type KeyRing map[string]*Key

func Ring(keys ...*Key) KeyRing {
	r := KeyRing{}
	for _, k := range keys {
		r[string(k.Addr)] = k
	}
	return r
}

// Genesis builds a genesis document; validators with power < 0 are left out.
func Genesis(keys []*Key, powers []int64, plugins string) *types.GenesisDoc {
	g := &types.GenesisDoc{GenesisTime: GenesisTime, ChainID: ChainID, Plugins: plugins}
	for i, k := range keys {
		if powers[i] < 0 {
			continue
		}
		g.Validators = append(g.Validators, types.GenesisValidator{PubKey: k.Pub, Amount: powers[i], Name: k.Name, IsCA: powers[i] > 0})
	}
	return g
}

// Conf returns a complete node configuration rooted at dir using in-memory databases.
func Conf(dir string, fastSync bool) *viper.Viper {
	conf := config.DefaultConfig()
	config.SetDefaults(dir, conf)
	conf.Set("db_backend", "memdb")
	conf.Set("fast_sync", fastSync)
	conf.Set("pex_reactor", false)
	conf.Set("auth_by_ca", false)
	conf.Set("p2p_laddr", "")
	conf.Set("rpc_laddr", "")
	conf.Set("threshold_blocks", 0)
	conf.Set("environment", "development")
	conf.Set("log_path", filepath.Join(dir, "log"))
	return conf
}

// Kit is one assembled node.
type Kit struct {
	DBs    map[string]dbm.DB
	Ang    *gemmill.Angine
	Conf   *viper.Viper
	Switch *p2p.Switch
	Self   *Key
	Dir    string
}

// Assemble builds a real Angine (state machine, block store, blockchain/mempool/consensus reactors,
// plugins) for the given application without files or listeners.
func Assemble(app types.Application, gen *types.GenesisDoc, self *Key, conf *viper.Viper) (*Kit, error) {
	dir := conf.GetString("runtime")
	if err := os.MkdirAll(filepath.Join(dir, "data"), 0700); err != nil {
		return nil, err
	}
	dbDir := conf.GetString("db_dir")
	dbs := map[string]dbm.DB{
		"state":       dbm.NewDB("state", "memdb", dbDir),
		"blockstore":  dbm.NewDB("blockstore", "memdb", dbDir),
		"archive":     dbm.NewDB("blockstore", "memdb", conf.GetString("db_archive_dir")),
		"votechannel": dbm.NewDB("votechannel", "memdb", dbDir),
	}
	sw := p2p.NewSwitch(conf)
	sw.SetNodeInfo(&p2p.NodeInfo{PubKey: self.Pub, Moniker: self.Name, Network: ChainID, Version: "0.9.0", ListenAddr: "127.0.0.1:0"})
	sw.SetNodePrivKey(self.Priv)
	sw.SetExchangeData(&p2p.ExchangeData{GenesisJSON: gen.JSONBytes()})
	parts := &gemmill.VerifAsmParts{
		Conf:          conf,
		Genesis:       gen,
		PrivValidator: self.PrivValidator(),
		Switch:        sw,
		DBs:           dbs,
		RefuseList:    refuse_list.NewRefuseList("memdb", dbDir),
		Archive:       archive.NewArchive("memdb", dbDir, 0),
	}
	ang, err := gemmill.VerifAsmNew(app, parts)
	if err != nil {
		return nil, err
	}
	if ang.VerifAsmState() == nil {
		return nil, fmt.Errorf("state machine not assembled")
	}
	return &Kit{DBs: dbs, Ang: ang, Conf: conf, Switch: sw, Self: self, Dir: dir}, nil
}

func (k *Kit) State() *state.State { return k.Ang.VerifAsmState() }

// SavedHeight is the height of the state last written by State.Save() (0 if none): the last thing the
// fast-sync executer and a live node's finalizeCommit do for a block.
func (k *Kit) SavedHeight() int64 {
	if s := state.LoadState(k.DBs["state"]); s != nil {
		return s.LastBlockHeight
	}
	return 0
}

// Apply executes and commits one block on the node exactly as a live node's finalizeCommit does for the
// state part (ApplyBlock on the assembled state with the real verifier/executable, then Save) after
// storing it in the block store.
func (k *Kit) Apply(b *types.Block, parts *types.PartSet, seen *types.Commit, round int64) error {
	st := k.State()
	if err := st.ValidateBlock(b); err != nil {
		return fmt.Errorf("ValidateBlock: %v", err)
	}
	if store := k.Ang.VerifAsmStore(); store.Height() < b.Height {
		store.SaveBlock(b, parts, seen)
	}
	if err := st.ApplyBlock(k.Ang.VerifAsmEvents(), b, parts.Header(), gemmill.MockMempool{}, round); err != nil {
		return err
	}
	st.Save()
	return nil
}

// ---------------------------------------------------------------------------------------------
// block production

// Proposal builds the block a correct proposer would propose on top of st (cf. pbft createProposalBlock /
// types.MakeBlock) with a fixed timestamp.
func Proposal(st *state.State, txs, extxs []types.Tx, lastCommit *types.Commit, proposer []byte, partSize int) (*types.Block, *types.PartSet) {
	if lastCommit == nil {
		lastCommit = &types.Commit{}
	}
	h := st.LastBlockHeight + 1
	if proposer == nil {
		proposer = st.Validators.Proposer().Address
	}
	b := &types.Block{
		Header: &types.Header{
			ChainID:         st.ChainID,
			Height:          h,
			Time:            GenesisTime.Add(time.Duration(h) * time.Second),
			NumTxs:          int64(len(txs) + len(extxs)),
			LastBlockID:     st.LastBlockID,
			ValidatorsHash:  st.Validators.Hash(),
			AppHash:         st.AppHash,
			ReceiptsHash:    st.ReceiptsHash,
			ProposerAddress: proposer,
		},
		LastCommit: lastCommit,
		Data:       &types.Data{Txs: txs, ExTxs: extxs},
	}
	b.FillHeader()
	return b, b.MakePartSet(partSize)
}

// SignedVote returns validator idx's precommit for bid, signed with its key.
func SignedVote(chainID string, vs *types.ValidatorSet, idx int, k *Key, height, round int64, bid types.BlockID) *types.Vote {
	addr, _ := vs.GetByIndex(idx)
	v := &types.Vote{ValidatorAddress: addr, ValidatorIndex: idx, Height: height, Round: round, Type: types.VoteTypePrecommit, BlockID: bid}
	v.Signature = k.Priv.Sign(types.SignBytes(chainID, v))
	return v
}

// Commit collects precommits of the validators selected by include (nil = all) in a real VoteSet and
// returns VoteSet.MakeCommit(); it fails if they do not reach +2/3.
func Commit(chainID string, vs *types.ValidatorSet, ring KeyRing, height, round int64, bid types.BlockID, include func(idx int, v *types.Validator) bool) (*types.Commit, error) {
	set := types.NewVoteSet(chainID, height, round, types.VoteTypePrecommit, vs)
	for i, val := range vs.Validators {
		if include != nil && !include(i, val) {
			continue
		}
		k := ring[string(val.Address)]
		if k == nil {
			return nil, fmt.Errorf("no key for validator %X", val.Address)
		}
		if _, err := set.AddVote(SignedVote(chainID, vs, i, k, height, round, bid)); err != nil {
			return nil, err
		}
	}
	if _, ok := set.TwoThirdsMajority(); !ok {
		return nil, fmt.Errorf("votes do not reach +2/3 at height %d", height)
	}
	return set.MakeCommit(), nil
}

// ValSetView is the membership/power projection of a validator set (sorted by address).
type ValSetView struct {
	Addr  []string `json:"addr"`
	Power []int64  `json:"power"`
	Hash  string   `json:"hash"`
}

func View(vs *types.ValidatorSet) ValSetView {
	v := ValSetView{Hash: fmt.Sprintf("%X", vs.Hash())}
	for _, val := range vs.Validators {
		v.Addr = append(v.Addr, fmt.Sprintf("%X", val.Address))
		v.Power = append(v.Power, val.VotingPower)
	}
	return v
}

// SortKeysByAddr orders keys as a ValidatorSet does.
func SortKeysByAddr(keys []*Key) []*Key {
	out := append([]*Key(nil), keys...)
	sort.Slice(out, func(i, j int) bool { return bytes.Compare(out[i].Addr, out[j].Addr) < 0 })
	return out
}
