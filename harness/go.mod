module verifharness

go 1.12

require (
	github.com/dappledger/AnnChain v0.0.0
	github.com/hashicorp/raft v1.1.1
	github.com/spf13/viper v0.0.0-20171207042631-1a0c4a370c3e
	go.uber.org/zap v0.0.0-20170802171341-e68420e36ce8
	golang.org/x/crypto v0.0.0-20190426145343-a29dc8fdc734
)

replace github.com/dappledger/AnnChain => /repo
