package main

import (
	"fmt"
	"os"

	"github.com/dappledger/AnnChain/eth/common"
	crypto "github.com/dappledger/AnnChain/gemmill/go-crypto"

	"verifharness/evmutil"
)

func main() {
	crypto.NodeInit(crypto.CryptoTypeZhongAn)
	n, err := evmutil.NewNode(10)
	if err != nil {
		panic(err)
	}
	defer n.Close()
	k := evmutil.Key(0)
	to := common.HexToAddress("0x1234")
	for h := int64(1); h <= 3; h++ {
		tx := evmutil.SignedTx(k, uint64(h-1), &to, 0, 100000, 0, nil)
		kv := evmutil.SignedTx(evmutil.Key(1), uint64(h-1), &to, 0, 100000, 0, evmutil.KVPayload([]byte(fmt.Sprintf("k%d", h)), []byte("v")))
		txs := [][]byte{tx}
		if h == 1 {
			txs = append(txs, kv)
		}
		b := evmutil.MakeBlock(h, txs)
		res, err, p, st := n.Execute(b)
		fmt.Println("exec", len(res.ValidTxs), len(res.InvalidTxs), err, p, st)
		cr, err, p, st := n.Commit(b)
		fmt.Printf("commit %x %x %v %v\n", cr.AppHash, cr.ReceiptsHash, err, p)
		nn, err := n.Nonce(evmutil.Addr(k))
		fmt.Println("nonce", nn, err)
		if h == 1 && len(os_args()) > 1 {
			fmt.Println("restart", n.Restart())
		}
	}
}

func os_args() []string { return os.Args }
