// Replays behaviours of specs/applifecycle/AppLifecycle.tla on the REAL chain/app/evm EVMApp (C05).
//
// usage: evmapp <traces.json>
//
// Every trace drives one application instance ("primary replica") on real LevelDBs in a temporary
// directory.  Steps (arguments as in the specification):
//
//	Execute(b, v, i)   block b (sequence of abstract transactions); v/i = what OnExecute must report
//	Commit(nrc, nkv)   TxPool.Update + OnCommit; nrc/nkv = receipts / kv records folded into ReceiptsHash
//	Restart            Stop ; NewEVMApp ; Start on the same directories
//	Query(kind, ans)   "state": nonce/key/receipt/history/existence queries, "call": contract call
//
// After every step the projected state is compared with the specification state.
//
// The property itself is relational and is checked directly on the real replies, independent of
// the model: every replica that has committed the same chain prefix - the primaries of all traces
// (different restart placements, different numbers of signature-checking goroutines, forced
// verifier schedules) and, per final chain, a reference replica that runs continuously with ONE
// verifier goroutine and a catch-up replica created afterwards with 16 goroutines and a restart in
// the middle - must have returned byte-identical CommitResult{AppHash, ReceiptsHash}, the same
// ExecuteResult partition, and byte-identical answers to every query.
package main

import (
	"bytes"
	"crypto/sha256"
	"encoding/binary"
	"encoding/hex"
	"encoding/json"
	"fmt"
	"hash/fnv"
	"io/ioutil"
	"os"
	"os/exec"
	"runtime/debug"
	"sort"
	"strings"
	"time"

	"github.com/dappledger/AnnChain/chain/app/evm"
	rtypes "github.com/dappledger/AnnChain/chain/types"
	"github.com/dappledger/AnnChain/eth/common"
	ecrypto "github.com/dappledger/AnnChain/eth/crypto"
	crypto "github.com/dappledger/AnnChain/gemmill/go-crypto"
	gtypes "github.com/dappledger/AnnChain/gemmill/types"
	"github.com/dappledger/AnnChain/gemmill/verifhook"

	"verifharness/evmutil"
	"verifharness/mbt"
)

type entry struct {
	vals map[string]string
	who  string
}

var defaultRoutines = 8
var referenceMode bool

// tables of what replicas observed, keyed by the committed chain prefix
var (
	commits = map[string]*entry{} // chainKey -> AppHash, ReceiptsHash
	execs   = map[string]*entry{} // chainKey|blockKey -> partition
	queries = map[string]*entry{} // chainKey -> query name -> answer
	calls   = map[string]*entry{} // chainKey -> contract call answer
	refDone = map[string]bool{}
)

type replica struct {
	rep      *mbt.Report
	ti       int
	tid      string
	node     *evmutil.Node
	who      string
	chain    [][][]byte      // committed blocks (raw txs)
	achain   [][]evmutil.ATx // same, abstract
	key      string          // chain key
	pending  *gtypes.Block
	ptxs     [][]byte
	patxs    []evmutil.ATx
	gate     bool
	replay   bool // a crash inside OnCommit hit: the decided block awaits its re-execution (queries then see a torn commit: C06)
	routines int
	aborted  bool
	accts    []int
	keys     []string
}

func (r *replica) fail(si int, action, kind string, prop bool, key, detail string, want, got interface{}) {
	r.rep.Fail(mbt.Failure{Trace: r.ti, TraceID: r.tid, Step: si, Action: action, Kind: kind, Property: prop, Key: key, Detail: detail, Want: want, Got: got})
}

func variantOf(t evmutil.ATx) int {
	h := fnv.New32a()
	h.Write([]byte(t.String()))
	return int(h.Sum32() % 9973)
}

func chainKey(prev string, txs [][]byte) string {
	h := sha256.New()
	h.Write([]byte(prev))
	for _, t := range txs {
		var l [4]byte
		binary.BigEndian.PutUint32(l[:], uint32(len(t)))
		h.Write(l[:])
		h.Write(t)
	}
	h.Write([]byte{0xff})
	return hex.EncodeToString(h.Sum(nil)[:12])
}

func names(ts []evmutil.ATx) []interface{} {
	o := make([]interface{}, len(ts))
	for i, t := range ts {
		o[i] = t.String()
	}
	return o
}

// record compares vals with what an earlier replica observed for the same key (first writer wins).
func (r *replica) record(tab map[string]*entry, key string, vals map[string]string, si int, action, what string) {
	r.rep.Checks++
	e, ok := tab[key]
	if !ok {
		tab[key] = &entry{vals: vals, who: r.who}
		return
	}
	r.rep.Count("relational_comparisons")
	// compare what both replicas asked (traces over fewer accounts / keys ask fewer questions); remember the rest
	var ks []string
	for k, v := range vals {
		if _, ok := e.vals[k]; ok {
			ks = append(ks, k)
		} else {
			e.vals[k] = v
		}
	}
	sort.Strings(ks)
	for _, k := range ks {
		if vals[k] != e.vals[k] {
			name := k
			if i := strings.IndexByte(name, ':'); i > 0 {
				name = name[:i]
			}
			r.fail(si, action, "property", true, "determinism:"+what+name,
				fmt.Sprintf("two replicas that committed the same %d blocks disagree on %s.\n this replica: %s\n other replica: %s\n chain: %s", len(r.achain), k, r.who, e.who, r.describe()),
				e.vals[k], vals[k])
			return
		}
	}
}

func (r *replica) describe() string {
	var bl []string
	for _, b := range r.achain {
		var ts []string
		for _, t := range b {
			ts = append(ts, t.String())
		}
		bl = append(bl, "["+strings.Join(ts, " ")+"]")
	}
	return strings.Join(bl, " ")
}

func (r *replica) execute(si int, atxs []evmutil.ATx, want *[2][]interface{}) bool {
	action := fmt.Sprintf("Execute(h=%d)", len(r.chain)+1)
	var txs [][]byte
	for _, t := range atxs {
		txs = append(txs, evmutil.Concretize(t, variantOf(t)))
	}
	blk := evmutil.MakeBlock(int64(len(r.chain)+1), txs)
	if r.routines < 0 {
		r.routines = defaultRoutines // the package default: runtime.NumCPU()
	}
	evm.VerifSetValidateRoutines(r.routines)
	var release chan struct{}
	if r.gate {
		release = make(chan struct{})
		verifhook.GateFn = func(site string) {
			if site == "evm.tryValidate.failed" || site == "evm.txQueue.afterInit" {
				select {
				case <-release:
				case <-time.After(40 * time.Millisecond):
				}
			}
		}
	}
	res, err, pnc, stack := r.node.Execute(blk)
	if r.gate {
		close(release)
		verifhook.GateFn = nil
	}
	r.rep.Checks++
	if hg, ok := pnc.(evmutil.Hang); ok && referenceMode {
		b, _ := json.Marshal(refOut{Err: "hang:" + hg.Call + " " + hg.String() + fmt.Sprintf(" (1 signature-checking goroutine) on block %v\n", names(atxs)) + hg.Dump})
		fmt.Println(string(b))
		evmutil.RemoveAllDirs()
		os.Exit(0)
	}
	if hg, ok := pnc.(evmutil.Hang); ok {
		r.fail(si, action, "hang", true, "hang:"+hg.Call, fmt.Sprintf("%s (%d signature-checking goroutines; %s) on block %v: this replica is stuck at the height while replicas with more goroutines execute the block\n%s",
			hg.String(), r.routines, r.who, names(atxs), hg.Dump), nil, nil)
		r.rep.Emit()
		evmutil.RemoveAllDirs()
		os.Exit(0) // the stuck goroutines cannot be reclaimed
	}
	if pnc != nil || err != nil {
		cls := "block"
		if len(atxs) == 1 {
			cls = atxs[0].C
		}
		if len(stack) > 1500 {
			stack = stack[:1500]
		}
		r.fail(si, action, "panic", true, "panic:"+cls, fmt.Sprintf("OnExecute failed on %v: %v %v\n%s", names(atxs), pnc, err, stack), nil, nil)
		r.aborted = true
		return false
	}
	cls, ok := evmutil.Classify(txs, res, nil)
	if !ok {
		r.fail(si, action, "property", true, "Total:not-a-partition", "ValidTxs/InvalidTxs do not partition the block", len(txs), len(res.ValidTxs)+len(res.InvalidTxs))
		r.aborted = true
		return false
	}
	var gv, gi []evmutil.ATx
	for i, c := range cls {
		if c == "valid" {
			gv = append(gv, atxs[i])
		} else {
			gi = append(gi, atxs[i])
		}
	}
	// relational: the partition is a function of chain and block
	r.record(execs, r.key+"|"+chainKey("", txs), map[string]string{"ExecuteResult": strings.Join(cls, ",")}, si, action, "")
	if want != nil {
		r.rep.Checks++
		if !mbt.Equal(mbt.Canon(names(gv)), mbt.Canon(wantNames(want[0]))) || !mbt.Equal(mbt.Canon(names(gi)), mbt.Canon(wantNames(want[1]))) {
			r.fail(si, action, "mismatch", false, "result:Execute", "ExecuteResult differs from the specification",
				[]interface{}{wantNames(want[0]), wantNames(want[1])}, []interface{}{names(gv), names(gi)})
		}
	}
	r.pending, r.ptxs, r.patxs = blk, txs, atxs
	return true
}

func wantNames(v []interface{}) []interface{} {
	o := make([]interface{}, len(v))
	for i, x := range v {
		o[i] = evmutil.ParseATx(x).String()
	}
	return o
}

func (r *replica) commit(si int) bool {
	action := fmt.Sprintf("Commit(h=%d)", len(r.chain)+1)
	cr, err, pnc, stack := r.node.Commit(r.pending)
	r.rep.Checks++
	if hg, ok := pnc.(evmutil.Hang); ok {
		r.fail(si, action, "hang", true, "hang:"+hg.Call, hg.String()+"\n"+hg.Dump, nil, nil)
		if !referenceMode {
			r.rep.Emit()
		}
		evmutil.RemoveAllDirs()
		os.Exit(0)
	}
	if pnc != nil || err != nil {
		r.fail(si, action, "panic", true, "panic:Commit", fmt.Sprintf("OnCommit failed: %v %v\n%s", pnc, err, stack), nil, nil)
		r.aborted = true
		return false
	}
	r.chain = append(r.chain, r.ptxs)
	r.achain = append(r.achain, r.patxs)
	r.key = chainKey(r.key, r.ptxs)
	r.pending = nil
	r.replay = false
	r.record(commits, r.key, map[string]string{"AppHash": hex.EncodeToString(cr.AppHash), "ReceiptsHash": hex.EncodeToString(cr.ReceiptsHash)}, si, action, "")
	// Info() must report what was committed
	info := r.node.App.Info()
	r.rep.Checks++
	if info.LastBlockHeight != int64(len(r.chain)) || !bytes.Equal(info.LastBlockAppHash, cr.AppHash) {
		r.fail(si, action, "property", true, "Info-after-commit", "Info() does not report the committed height/AppHash",
			[]interface{}{len(r.chain), hex.EncodeToString(cr.AppHash)}, []interface{}{info.LastBlockHeight, hex.EncodeToString(info.LastBlockAppHash)})
	}
	return true
}

const crashMarker = "verif: simulated crash before a durable write"

// crashCommit kills the application inside OnCommit of the executed block after j groups of durable writes
// (1 trie nodes, 2 + receipts/kv records, 3 + key history, 4 + lastreceipts; lastblock is never reached) and restarts it
// on the same directories.  The positions are found on a scout replica that commits the same chain uninterrupted and
// records the durable-write failpoints (gemmill/verifhook.Durable) OnCommit passes.
func (r *replica) crashCommit(si, j int) bool {
	action := fmt.Sprintf("CrashCommit(%d, h=%d)", j, len(r.chain)+1)
	scout, err := evmutil.NewNode(10)
	if err != nil {
		r.fail(si, action, "error", false, "scout-node", err.Error(), nil, nil)
		r.aborted = true
		return false
	}
	var seq []string
	ok := func() bool {
		defer scout.Close()
		for h, txs := range r.chain {
			b := evmutil.MakeBlock(int64(h+1), txs)
			if _, e, p, _ := scout.Execute(b); e != nil || p != nil {
				return false
			}
			if _, e, p, _ := scout.Commit(b); e != nil || p != nil {
				return false
			}
		}
		b := evmutil.MakeBlock(int64(len(r.chain)+1), r.ptxs)
		if _, e, p, _ := scout.Execute(b); e != nil || p != nil {
			return false
		}
		verifhook.DurableFn = func(site string, key []byte) error {
			seq = append(seq, site+":"+string(key))
			return nil
		}
		_, e, p, _ := scout.Commit(b)
		verifhook.DurableFn = nil
		return e == nil && p == nil
	}()
	iLR, iLB := -1, -1
	for i, x := range seq {
		if strings.HasSuffix(x, ":lastreceipts") {
			iLR = i
		}
		if strings.HasSuffix(x, ":lastblock") {
			iLB = i
		}
	}
	_, _, nh := r.node.App.VerifVolatile()
	hist := 0
	if nh > 0 {
		hist = 1
	}
	rcpt := iLR - 1 - hist
	if !ok || len(seq) < 2 {
		r.fail(si, action, "error", false, "scout-sequence", fmt.Sprintf("unexpected durable-write sequence of OnCommit: %v", seq), nil, nil)
		r.aborted = true
		return false
	}
	at := map[int]int{1: rcpt, 2: rcpt + 1, 3: iLR, 4: iLB}[j]
	if iLR < 1 || iLB != iLR+1 || rcpt < 0 {
		// the writes are not labelled the way the specification names them (a conformance matter for C06's trace
		// validation); the crash points are then taken by position from the end of the sequence: the application's own
		// commit records are its last two durable writes
		r.rep.Count("crash_points_by_position")
		at = len(seq) - (5 - j)
		if at < 0 {
			at = 0
		}
	}
	n := 0
	verifhook.DurableFn = func(site string, key []byte) error {
		if n == at {
			n++
			panic(crashMarker)
		}
		n++
		return nil
	}
	_, cerr, pnc, stack := r.node.Commit(r.pending)
	verifhook.DurableFn = nil
	r.rep.Checks++
	if fmt.Sprint(pnc) != crashMarker {
		r.fail(si, action, "error", false, "crash-not-reached", fmt.Sprintf("OnCommit did not reach durable write %d of %v: %v %v\n%s", at, seq, pnc, cerr, stack), nil, nil)
		r.aborted = true
		return false
	}
	r.rep.Count("crashes_in_commit")
	if err := r.node.Restart(); err != nil {
		r.fail(si, action, "error", true, "restart-failed", "Stop/NewEVMApp/Start after a crash inside OnCommit failed: "+err.Error(), nil, nil)
		r.aborted = true
		return false
	}
	r.pending = nil
	r.replay = true
	return true
}

func resStr(res gtypes.Result) string {
	return fmt.Sprintf("%d/%s", res.Code, hex.EncodeToString(res.Data))
}

// stateQueries asks everything a client can ask about committed data.
func (r *replica) stateQueries(si int) (map[string]string, bool) {
	out := map[string]string{}
	q := func(name string, kind byte, load []byte) bool {
		res, p, st := r.node.Query(kind, load)
		if p != nil {
			if len(st) > 1200 {
				st = st[:1200]
			}
			r.fail(si, "Query", "panic", true, "query-panic:"+strings.SplitN(name, ":", 2)[0], fmt.Sprintf("Query %s panicked: %v\n%s", name, p, st), nil, nil)
			return false
		}
		out[name] = resStr(res)
		return true
	}
	for _, a := range r.accts {
		addr := evmutil.Addr(evmutil.Key(a))
		if !q(fmt.Sprintf("nonce:%d", a), rtypes.QueryType_Nonce, addr.Bytes()) {
			return nil, false
		}
		for n := 0; n < 4; n++ {
			c := ecrypto.CreateAddress(addr, uint64(n))
			ex := evmutil.SignedTx(evmutil.Key(1), 0, &c, 0, 0, 0, ecrypto.Keccak256(evmutil.CounterInit[11:]))
			if !q(fmt.Sprintf("existence:%d/%d", a, n), rtypes.QueryType_Existence, ex) {
				return nil, false
			}
		}
	}
	for _, k := range r.keys {
		if !q("key:"+k, rtypes.QueryType_Key, []byte(k)) {
			return nil, false
		}
		load := make([]byte, 8)
		binary.BigEndian.PutUint32(load[0:], 1)
		binary.BigEndian.PutUint32(load[4:], 20)
		if !q("history:"+k, rtypes.QueryType_Key_Update_History, append(load, []byte(k)...)) {
			return nil, false
		}
	}
	for h, b := range r.chain {
		for i, raw := range b {
			if !q(fmt.Sprintf("receipt:%d.%d", h+1, i), rtypes.QueryType_Receipt, evmutil.TxHash(raw)) {
				return nil, false
			}
		}
	}
	return out, true
}

func (r *replica) compareModelState(si int, action string, post map[string]interface{}) {
	pS, _ := post["pS"].(map[string]interface{})
	if pS == nil {
		return
	}
	want := map[string]interface{}{"nonce": pS["nonce"], "height": post["pH"], "kv": post["pKV"]}
	got := map[string]interface{}{}
	var gn []interface{}
	for _, a := range r.accts {
		n, err := r.node.Nonce(evmutil.Addr(evmutil.Key(a)))
		if err != nil {
			r.fail(si, action, "error", true, "query-nonce", err.Error(), nil, nil)
			return
		}
		gn = append(gn, int64(n))
	}
	got["nonce"] = gn
	got["height"] = r.node.App.Info().LastBlockHeight
	gkv := map[string]interface{}{}
	for _, k := range r.keys {
		found, v, err := r.node.KVGet([]byte(k))
		if err != nil {
			r.fail(si, action, "error", true, "query-key", err.Error(), nil, nil)
			return
		}
		if found {
			gkv[k] = strings.TrimRight(string(v), evmutil.BigPad)
		} else {
			gkv[k] = "none"
		}
	}
	got["kv"] = gkv
	var wc, gc []string
	for _, c := range pS["created"].([]interface{}) {
		p := c.([]interface{})
		wc = append(wc, fmt.Sprintf("%d/%d", mbt.Int(p[0]), mbt.Int(p[1])))
	}
	for _, a := range r.accts {
		for n := 0; n < 4; n++ {
			has, err := r.node.HasCounterCode(ecrypto.CreateAddress(evmutil.Addr(evmutil.Key(a)), uint64(n)))
			if err != nil {
				r.fail(si, action, "error", true, "query-existence", err.Error(), nil, nil)
				return
			}
			if has {
				gc = append(gc, fmt.Sprintf("%d/%d", a, n))
			}
		}
	}
	want["created"], got["created"] = mbt.SortedStrings(wc), mbt.SortedStrings(gc)
	r.rep.Checks++
	if ks := mbt.DiffKeys(mbt.Norm(want).(map[string]interface{}), mbt.Canon(got).(map[string]interface{})); len(ks) > 0 {
		r.fail(si, action, "mismatch", false, "state:"+ks[0], fmt.Sprintf("committed state differs from the specification on %v", ks), want, got)
		r.aborted = true
	}
}

func (r *replica) compareVolatile(si int, action string, wrc, wkv, whist int) {
	grc, gkv, ghist := r.node.App.VerifVolatile()
	r.rep.Checks++
	if grc != wrc || gkv != wkv || (whist >= 0 && ghist != whist) {
		r.fail(si, action, "mismatch", false, "internal:accumulators", "lengths of app.receipts/app.kvs/app.keyValueHistories differ from the specification",
			[]int{wrc, wkv, whist}, []int{grc, gkv, ghist})
	}
}

func resOf(post map[string]interface{}) map[string]interface{} {
	if post == nil {
		return nil
	}
	m, _ := post["res"].(map[string]interface{})
	return m
}

func parseBlock(v interface{}) []evmutil.ATx {
	var out []evmutil.ATx
	for _, x := range v.([]interface{}) {
		out = append(out, evmutil.ParseATx(x))
	}
	return out
}

func seqLen(v interface{}) int {
	if l, ok := v.([]interface{}); ok {
		return len(l)
	}
	return 0
}

// reference runs the chain on a fresh replica; every commit and the final queries go through the tables.
func reference(rep *mbt.Report, ti int, tid string, achain [][]evmutil.ATx, accts []int, keys []string, routines int, restartAfter int, who string) {
	node, err := evmutil.NewNode(10)
	if err != nil {
		rep.Fail(mbt.Failure{Trace: ti, TraceID: tid, Kind: "error", Key: "reference-node", Detail: err.Error()})
		return
	}
	r := &replica{rep: rep, ti: ti, tid: tid, node: node, who: who, routines: routines, accts: accts, keys: keys}
	defer func() { r.node.Close() }()
	for h, b := range achain {
		if !r.execute(-1, b, nil) || !r.commit(-1) {
			return
		}
		if restartAfter == h+1 {
			if err := r.node.Restart(); err != nil {
				r.fail(-1, "Restart", "error", true, "restart-failed", err.Error(), nil, nil)
				return
			}
		}
	}
	if qs, ok := r.stateQueries(-1); ok {
		r.record(queries, r.key, qs, -1, "Query(state)", "Query:")
	}
	rep.Count("reference_replicas")
}

type refOut struct {
	Order   []string                     `json:"order"`
	Commits map[string]map[string]string `json:"commits"`
	Chains  map[string]string            `json:"chains"`
	Queries map[string]string            `json:"queries"`
	Final   string                       `json:"final"`
	Err     string                       `json:"err"`
}

// isolatedReference runs in a process of its own: it commits the blocks of one behaviour continuously, answers no
// contract-call query, and prints what the commit hook returned for every height plus the final state queries.
func isolatedReference(path string) {
	referenceMode = true
	out := refOut{Commits: map[string]map[string]string{}, Chains: map[string]string{}}
	defer func() {
		b, _ := json.Marshal(out)
		fmt.Println(string(b))
	}()
	traces, err := mbt.LoadTraces(path)
	if err != nil || len(traces) == 0 {
		out.Err = fmt.Sprint("load: ", err)
		return
	}
	tr := traces[0]
	node, err := evmutil.NewNode(10)
	if err != nil {
		out.Err = err.Error()
		return
	}
	rep := mbt.NewReport()
	r := &replica{rep: rep, tid: tr.ID, node: node, routines: 1, who: "isolated reference"}
	defer func() { r.node.Close() }()
	for _, a := range tr.Cfg["accts"].([]interface{}) {
		r.accts = append(r.accts, mbt.Int(a))
	}
	for _, k := range tr.Cfg["keys"].([]interface{}) {
		r.keys = append(r.keys, mbt.Str(k))
	}
	// only blocks that the behaviour commits are executed here (a block executed and then abandoned by a restart
	// never reached this continuously running replica)
	var next []evmutil.ATx
	have := false
	for _, st := range tr.Steps {
		switch st.A {
		case "Execute":
			next, have = parseBlock(st.Args[0]), true
		case "Commit":
			if !have {
				continue
			}
			have = false
			if !r.execute(-1, next, nil) {
				out.Err = "execute failed"
				return
			}
			if !r.commit(-1) {
				out.Err = "commit failed"
				return
			}
			out.Order = append(out.Order, r.key)
			out.Commits[r.key] = commits[r.key].vals
			out.Chains[r.key] = r.describe()
		case "Restart", "CrashCommit":
			have = false
		}
	}
	if qs, ok := r.stateQueries(-1); ok {
		out.Queries = qs
		out.Final = r.key
	}
}

// spawnReference starts the isolated reference replica of a behaviour and seeds the comparison tables with it.
func spawnReference(r *replica, tr mbt.Trace) error {
	f, err := ioutil.TempFile("", "verif-evmref-*.json")
	if err != nil {
		return err
	}
	defer os.Remove(f.Name())
	if err := json.NewEncoder(f).Encode(tr); err != nil {
		return err
	}
	f.Close()
	cmd := exec.Command(os.Args[0], "--reference", f.Name())
	cmd.Stderr = os.Stderr
	b, err := cmd.Output()
	if err != nil {
		return err
	}
	lines := strings.Split(strings.TrimSpace(string(b)), "\n")
	var out refOut
	if err := json.Unmarshal([]byte(lines[len(lines)-1]), &out); err != nil {
		return err
	}
	if strings.HasPrefix(out.Err, "hang:") {
		r.fail(-1, "Execute(isolated reference)", "hang", true, "hang:OnExecute", "the isolated reference replica of "+tr.ID+" is stuck: "+strings.TrimPrefix(out.Err, "hang:"), nil, nil)
		r.rep.Emit()
		evmutil.RemoveAllDirs()
		os.Exit(0)
	}
	if out.Err != "" {
		return fmt.Errorf("%s", out.Err)
	}
	who := "isolated reference replica of " + tr.ID + " (own process: continuous, 1 verifier goroutine, served no query)"
	ref := &replica{rep: r.rep, ti: r.ti, tid: r.tid, who: who}
	for _, k := range out.Order {
		ref.achain = append(ref.achain, nil)
		ref.record(commits, k, out.Commits[k], -1, "Commit(isolated reference)", "")
	}
	if out.Final != "" {
		ref.record(queries, out.Final, out.Queries, -1, "Query(state, isolated reference)", "Query:")
	}
	r.rep.Count("isolated_references")
	return nil
}

func main() {
	crypto.NodeInit(crypto.CryptoTypeZhongAn)
	if len(os.Args) < 2 {
		fmt.Fprintln(os.Stderr, "usage: evmapp traces.json")
		os.Exit(2)
	}
	if os.Args[1] == "--reference" {
		isolatedReference(os.Args[2])
		return
	}
	traces, err := mbt.LoadTraces(os.Args[1])
	if err != nil {
		fmt.Fprintln(os.Stderr, "load:", err)
		os.Exit(2)
	}
	debug.SetGCPercent(400)
	defaultRoutines = evm.VerifSetValidateRoutines(1)
	rep := mbt.NewReport()
	routineChoices := []int{1, 2, 4, 8, 16, 3}
	histories := map[string]bool{}
	for ti, tr := range traces {
		rep.Traces++
		node, err := evmutil.NewNode(10)
		if err != nil {
			fmt.Fprintln(os.Stderr, "node:", err)
			os.Exit(2)
		}
		r := &replica{rep: rep, ti: ti, tid: tr.ID, node: node}
		for _, a := range tr.Cfg["accts"].([]interface{}) {
			r.accts = append(r.accts, mbt.Int(a))
		}
		for _, k := range tr.Cfg["keys"].([]interface{}) {
			r.keys = append(r.keys, mbt.Str(k))
		}
		r.gate, _ = tr.Cfg["gate"].(bool)
		if iso, _ := tr.Cfg["isolated_reference"].(bool); iso {
			// Process-wide state of the application package (e.g. the VM configuration) is shared by every replica of
			// this driver process.  A replica of its own - fresh process, no query served, no restart - commits the
			// same blocks first; everything this process computes for that chain is compared with it.
			if err := spawnReference(r, tr); err != nil {
				fmt.Fprintln(os.Stderr, "isolated reference:", err)
				os.Exit(2)
			}
		}
		hh := fnv.New32a()
		hh.Write([]byte(tr.ID))
		rsel := int(hh.Sum32() % 997)
		r.routines = routineChoices[rsel%len(routineChoices)]
		if v, ok := tr.Cfg["routines"]; ok {
			r.routines = mbt.Int(v)
		}
		model := tr.Cfg["mode"] != "oracle"
		var restartsAt []string
		r.who = fmt.Sprintf("primary of %s (verifier goroutines %d, gate %v)", tr.ID, r.routines, r.gate)
		for si, st := range tr.Steps {
			if r.aborted {
				break
			}
			rep.Steps++
			switch st.A {
			case "Execute":
				var wp *[2][]interface{}
				if res := resOf(st.Post); model && res != nil {
					wv, _ := res["valid"].([]interface{})
					wi, _ := res["invalid"].([]interface{})
					wp = &[2][]interface{}{wv, wi}
				}
				if r.execute(si, parseBlock(st.Args[0]), wp) && model && st.Post != nil {
					r.compareVolatile(si, "Execute", seqLen(st.Post["vRc"]), seqLen(st.Post["vKvs"]), seqLen(st.Post["vHist"]))
				}
			case "Commit":
				if r.pending == nil {
					r.fail(si, "Commit", "error", false, "", "Commit without Execute in trace", nil, nil)
					r.aborted = true
					break
				}
				if res := resOf(st.Post); model && res != nil {
					if rh, ok := res["rh"].(map[string]interface{}); ok {
						r.compareVolatile(si, "Commit(before)", seqLen(rh["rc"]), seqLen(rh["kvs"]), -1)
					}
				}
				if r.commit(si) && model && st.Post != nil {
					r.compareVolatile(si, "Commit", seqLen(st.Post["vRc"]), seqLen(st.Post["vKvs"]), seqLen(st.Post["vHist"]))
					r.compareModelState(si, "Commit", st.Post)
				}
			case "Restart":
				if err := r.node.Restart(); err != nil {
					r.fail(si, "Restart", "error", true, "restart-failed", "Stop/NewEVMApp/Start failed: "+err.Error(), nil, nil)
					r.aborted = true
					break
				}
				r.pending = nil
				restartsAt = append(restartsAt, fmt.Sprintf("%d", len(r.chain)))
				r.routines = routineChoices[(rsel+len(restartsAt))%len(routineChoices)]
				if v, ok := tr.Cfg["routines"]; ok {
					r.routines = mbt.Int(v)
				}
				r.who = fmt.Sprintf("primary of %s (restarts after heights %v, verifier goroutines now %d)", tr.ID, restartsAt, r.routines)
				if model && st.Post != nil {
					r.compareVolatile(si, "Restart", 0, 0, 0)
					r.compareModelState(si, "Restart", st.Post)
				}
			case "CrashCommit":
				if r.pending == nil {
					r.fail(si, "CrashCommit", "error", false, "", "CrashCommit without Execute in trace", nil, nil)
					r.aborted = true
					break
				}
				j := mbt.Int(st.Args[0])
				if r.crashCommit(si, j) {
					restartsAt = append(restartsAt, fmt.Sprintf("crash%d@%d", j, len(r.chain)+1))
					r.who = fmt.Sprintf("primary of %s (restarts/crashes %v, verifier goroutines now %d)", tr.ID, restartsAt, r.routines)
					if model && st.Post != nil {
						r.compareVolatile(si, "CrashCommit", 0, 0, 0)
						r.compareModelState(si, "CrashCommit", st.Post)
					}
				}
			case "Query":
				kind := mbt.Str(st.Args[0])
				if kind == "state" {
					if qs, ok := r.stateQueries(si); ok {
						r.record(queries, r.key, qs, si, "Query(state)", "Query:")
						if model && st.Post != nil {
							r.compareModelState(si, "Query(state)", st.Post)
						}
					}
				} else {
					ret, err := r.node.Counter()
					rep.Checks++
					if err != nil {
						e := err.Error()
						if len(e) > 1500 {
							e = e[:1500]
						}
						r.fail(si, "Query(call)", "panic", true, "query-panic:contract-call",
							fmt.Sprintf("contract-call query failed on a replica (%s) although the same query is answered by a replica with the same chain that has executed a block since it started: %s", r.who, e), nil, nil)
						break
					}
					env, err := r.node.Env()
					if err != nil {
						r.fail(si, "Query(call)", "panic", true, "query-panic:contract-call", "contract-call query failed: "+err.Error(), nil, nil)
						break
					}
					// the header a query runs under is the last EXECUTED block's: key by chain and pending block
					pk := ""
					if r.pending != nil {
						pk = "|" + chainKey("", r.ptxs)
					}
					r.record(calls, r.key+pk, map[string]string{"contract-call": hex.EncodeToString(ret), "contract-env": hex.EncodeToString(env)}, si, "Query(call)", "Query:")
					if res := resOf(st.Post); model && res != nil && len(env) == 64 {
						if ans, ok := res["ans"].(map[string]interface{}); ok && ans["hdr"] != nil {
							if w, g := int64(mbt.Int(ans["hdr"])), int64(binary.BigEndian.Uint64(env[24:32])); w != g {
								r.fail(si, "Query(call)", "mismatch", false, "internal:query-header", "block number seen by a contract-call query differs from the specification", w, g)
							}
						}
					}
					if res := resOf(st.Post); model && res != nil {
						if ans, ok := res["ans"].(map[string]interface{}); ok && ans["cnt"] != nil {
							want := int64(mbt.Int(ans["cnt"]))
							got := int64(0)
							if len(ret) == 32 {
								got = int64(binary.BigEndian.Uint64(ret[24:]))
							}
							if want != got {
								r.fail(si, "Query(call)", "mismatch", false, "state:cnt", "contract counter differs from the specification", want, got)
							}
						}
					}
				}
			default:
				r.fail(si, st.A, "error", false, "", "unknown action", nil, nil)
			}
		}
		histories[fmt.Sprintf("%s|%v|%d", r.key, restartsAt, r.routines)] = true
		// final state queries of the primary
		if !r.aborted && len(r.chain) > 0 && !r.replay {
			if qs, ok := r.stateQueries(len(tr.Steps)); ok {
				r.record(queries, r.key, qs, len(tr.Steps), "Query(state,final)", "Query:")
			}
		}
		achain, accts, keys, key := r.achain, r.accts, r.keys, r.key
		r.node.Close()
		// reference replicas, once per distinct final chain
		if !r.aborted && len(achain) > 0 && !refDone[key] {
			refDone[key] = true
			reference(rep, ti, tr.ID, achain, accts, keys, 1, 0, "continuous reference replica (1 verifier goroutine, no restart)")
			ra := 1 + (rsel % len(achain))
			reference(rep, ti, tr.ID, achain, accts, keys, 16, ra, fmt.Sprintf("catch-up replica (fresh application, 16 verifier goroutines, restart after height %d)", ra))
		}
	}
	rep.Extra["distinct_chains"] = len(refDone)
	rep.Extra["distinct_chain_prefixes"] = len(commits)
	rep.Extra["distinct_histories"] = len(histories)
	_ = common.Address{}
	rep.Emit()
}
