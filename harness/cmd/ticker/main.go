// ticker: replays the state graph of specs/tendermint/Ticker.tla on the REAL pbft timeoutTicker (real timer, real
// timeoutRoutine goroutine). A Schedule that is followed by Fire in the behaviour is given a 1 ms duration and its tock
// is awaited; any other Schedule gets a duration that never elapses. At the end of every behaviour the ticker must be
// quiet (no unexpected tock).
package main

import (
	"fmt"
	"os"
	"time"

	"github.com/dappledger/AnnChain/gemmill/consensus/pbft"
	glog "github.com/dappledger/AnnChain/gemmill/modules/go-log"
	"go.uber.org/zap"

	"verifharness/mbt"
)

func main() {
	glog.SetLog(zap.NewNop())
	traces, err := mbt.LoadTraces(os.Args[1])
	if err != nil {
		fmt.Fprintln(os.Stderr, err)
		os.Exit(2)
	}
	rep := mbt.NewReport()
	for ti, tr := range traces {
		rep.Traces++
		t := pbft.NewTimeoutTicker()
		t.Start()
		fail := func(si int, st mbt.Step, key, detail string, want, got interface{}) {
			rep.Fail(mbt.Failure{Trace: ti, TraceID: tr.ID, Step: si, Action: fmt.Sprintf("%s%v", st.A, st.Args), Kind: "mismatch",
				Property: true, Key: key, Detail: detail, Want: want, Got: got})
		}
		ok := true
		for si, st := range tr.Steps {
			if !ok {
				break
			}
			rep.Steps++
			switch st.A {
			case "Schedule":
				d := time.Hour
				if si+1 < len(tr.Steps) && tr.Steps[si+1].A == "Fire" && mbt.Str(st.Args[3]) == "set" {
					d = time.Millisecond
				}
				pbft.VerifTickerSchedule(t, pbft.VerifTimeout{Duration: d, Height: int64(mbt.Int(st.Args[0])), Round: int64(mbt.Int(st.Args[1])), Step: mbt.Int(st.Args[2])})
				if mbt.Str(st.Args[3]) == "ignored" && si+1 < len(tr.Steps) && tr.Steps[si+1].A == "Fire" {
					// the running timer (scheduled earlier with a long duration) cannot be made to fire: stop here
					ok = false
					rep.Count("paths_cut_at_unfireable")
					continue
				}
			case "Fire":
				rep.Checks++
				got, fired := pbft.VerifTickerTock(t, 2*time.Second)
				if fired && got.Height == 0 {
					rep.Count("zero_tock_from_constructor")
					got, fired = pbft.VerifTickerTock(t, 2*time.Second)
				}
				want := st.Post["timer"].(map[string]interface{})
				if !fired {
					fail(si, st, "ticker:no-tock", "the real ticker did not fire the timeout the specification says is running", want, nil)
					ok = false
					break
				}
				if got.Height != int64(mbt.Int(want["h"])) || got.Round != int64(mbt.Int(want["r"])) || got.Step != mbt.Int(want["st"]) {
					fail(si, st, "ticker:wrong-tock", "the real ticker fired another timeout than the specification's running one", want, map[string]interface{}{"h": got.Height, "r": got.Round, "st": got.Step})
					ok = false
				}
			}
		}
		if ok {
			rep.Checks++
			got, fired := pbft.VerifTickerTock(t, 15*time.Millisecond)
			if fired && got.Height == 0 {
				// NewTimeoutTicker creates its timer with duration 0 and drains it racily: a zero tick may escape. It
				// carries height 0, which handleTimeout ignores for every real height; not a property matter.
				rep.Count("zero_tock_from_constructor")
				got, fired = pbft.VerifTickerTock(t, 15*time.Millisecond)
			}
			if fired {
				last := tr.Steps[len(tr.Steps)-1]
				fail(len(tr.Steps)-1, last, "ticker:spurious-tock", "the real ticker fired although the specification has no running timer due", nil, map[string]interface{}{"h": got.Height, "r": got.Round, "st": got.Step})
			}
		}
		t.Stop()
	}
	rep.Emit()
}
