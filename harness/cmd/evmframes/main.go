package main

import (
	"fmt"
	"math/big"

	"github.com/dappledger/AnnChain/eth/common"
	"github.com/dappledger/AnnChain/eth/core"
	"github.com/dappledger/AnnChain/eth/core/state"
	"github.com/dappledger/AnnChain/eth/core/vm"
	"github.com/dappledger/AnnChain/eth/ethdb"
	"github.com/dappledger/AnnChain/eth/params"
)

func push(b byte) []byte { return []byte{0x60, b} }
func cat(bs ...[]byte) []byte {
	var o []byte
	for _, b := range bs {
		o = append(o, b...)
	}
	return o
}
func pushAddr(a common.Address) []byte { return append([]byte{0x73}, a[:]...) }

func main() {
	A := common.BytesToAddress([]byte{0xaa})
	B := common.BytesToAddress([]byte{0xbb})
	C := common.BytesToAddress([]byte{0xcc})
	// C: sstore(0,1); stop
	codeC := cat(push(1), push(0), []byte{0x55}, []byte{0x00})
	// init code: returns 10 bytes of zeros as code
	initc := cat(push(10), push(0), []byte{0xf3})
	// B: mstore init code; create(0,0,len); sstore(1, addr)
	var codeB []byte
	for i, x := range initc {
		codeB = append(codeB, cat(push(x), push(byte(i)), []byte{0x53})...)
	}
	codeB = append(codeB, cat(push(byte(len(initc))), push(0), push(0), []byte{0xf0}, push(1), []byte{0x55, 0x00})...)
	call := func(op byte, to common.Address, val bool) []byte {
		b := cat(push(0), push(0), push(0), push(0))
		if val {
			b = append(b, push(0)...)
		}
		return cat(b, pushAddr(to), []byte{0x5a, op})
	}
	// A: call B ; sstore(0,status); staticcall C; sstore(1,status)
	codeA := cat(call(0xf1, B, true), push(0), []byte{0x55}, call(0xfa, C, false), push(1), []byte{0x55, 0x00})
	for _, cfgname := range []string{"allforks", "mainnet@10"} {
		db := ethdb.NewMemDatabase()
		s, _ := state.New(common.Hash{}, state.NewDatabase(db))
		s.SetCode(A, codeA)
		s.SetCode(B, codeB)
		s.SetCode(C, codeC)
		cc := params.AllEthashProtocolChanges
		if cfgname != "allforks" {
			cc = params.MainnetChainConfig
		}
		ctx := vm.Context{CanTransfer: core.CanTransfer, Transfer: core.Transfer,
			GetHash: func(uint64) common.Hash { return common.Hash{} }, BlockNumber: big.NewInt(10), Time: big.NewInt(1), Difficulty: big.NewInt(1), GasLimit: 1 << 62, GasPrice: big.NewInt(0)}
		evm := vm.NewEVM(ctx, s, cc, vm.Config{EVMGasLimit: 100000000})
		ret, left, err := evm.Call(vm.AccountRef(common.Address{1}), A, nil, 1000000, big.NewInt(0))
		fmt.Println(cfgname, "top->A->B(create): ret", ret, left, err, "budgetleft", evm.GasLeft())
		fmt.Println("  A[0]=callB ok:", s.GetState(A, common.Hash{}).Big(), " A[1]=static ok:", s.GetState(A, common.BigToHash(big.NewInt(1))).Big(), "C[0]:", s.GetState(C, common.Hash{}).Big())
		created := s.GetState(B, common.BigToHash(big.NewInt(1)))
		fmt.Println("  B[1]=created addr:", created.Hex(), "nonceB", s.GetNonce(B), "code", s.GetCode(common.BytesToAddress(created[:])), "nonce", s.GetNonce(common.BytesToAddress(created[:])))
		// direct: top -> B
		evm = vm.NewEVM(ctx, s, cc, vm.Config{EVMGasLimit: 100000000})
		ret, left, err = evm.Call(vm.AccountRef(common.Address{1}), B, nil, 1000000, big.NewInt(0))
		created = s.GetState(B, common.BigToHash(big.NewInt(1)))
		fmt.Println("  direct B: err", err, "created", created.Hex(), "code", s.GetCode(common.BytesToAddress(created[:])), "nonce", s.GetNonce(common.BytesToAddress(created[:])))
	}
}
