// In-tree side of the evmframes driver: how chain/app/evm configures the VM (mode APP) and the same VM with every
// fork active (mode ANN).  Not copied to harness-ref (see harness-ref/cmd/refevm/side_ref.go).
package main

import (
	"math/big"

	"github.com/dappledger/AnnChain/eth/core/state"
	"github.com/dappledger/AnnChain/eth/core/vm"
	"github.com/dappledger/AnnChain/eth/params"
)

func sideName() string { return "intree" }
func sideInit()        {}

var allForks = &params.ChainConfig{ChainID: big.NewInt(1), HomesteadBlock: big.NewInt(0), EIP150Block: big.NewInt(0),
	EIP155Block: big.NewInt(0), EIP158Block: big.NewInt(0), ByzantiumBlock: big.NewInt(0), ConstantinopleBlock: big.NewInt(0),
	Ethash: new(params.EthashConfig)}

func newEVM(ctx vm.Context, s *state.StateDB, mode string, bud uint64, tr *oogTracer) *vm.EVM {
	cc := allForks
	if mode == "APP" {
		// chain/app/evm/evm.go: chainConfig = params.MainnetChainConfig, header.Number = block height
		cc = params.MainnetChainConfig
	}
	cfg := vm.Config{EVMGasLimit: bud}
	if tr != nil {
		cfg.Debug, cfg.Tracer = true, tr
	}
	return vm.NewEVM(ctx, s, cc, cfg)
}

func budgetLeft(e *vm.EVM, bud uint64) uint64 { return e.GasLeft() }
