// In-tree side of the evmframes driver: how chain/app/evm configures the VM (mode APP) and the same VM with every
// fork active (mode ANN).  Not copied to harness-ref (see harness-ref/cmd/refevm/side_ref.go).
package main

import (
	"math"
	"math/big"

	"github.com/dappledger/AnnChain/eth/common"
	"github.com/dappledger/AnnChain/eth/core"
	"github.com/dappledger/AnnChain/eth/core/state"
	"github.com/dappledger/AnnChain/eth/core/types"
	"github.com/dappledger/AnnChain/eth/core/vm"
	"github.com/dappledger/AnnChain/eth/params"
	glog "github.com/dappledger/AnnChain/gemmill/modules/go-log"
	"go.uber.org/zap"
)

func sideName() string { return "intree" }
func sideInit()        { glog.SetLog(zap.NewNop()) }

// applyMessage runs the call as a transaction of `from` through core.ApplyMessage (state_transition.go).
func applyMessage(evm *vm.EVM, s *state.StateDB, from, to common.Address, input []byte) ([]byte, error) {
	msg := types.NewMessage(from, &to, s.GetNonce(from), new(big.Int), topGas, new(big.Int), input, true)
	ret, _, failed, err := core.ApplyMessage(evm, msg, new(core.GasPool).AddGas(math.MaxUint64))
	if err != nil {
		return nil, err
	}
	if failed {
		return ret, errVMFailed
	}
	return ret, nil
}

type vmFailed struct{}

func (vmFailed) Error() string { return "vm reported failed" }

var errVMFailed = vmFailed{}

var allForks = &params.ChainConfig{ChainID: big.NewInt(1), HomesteadBlock: big.NewInt(0), EIP150Block: big.NewInt(0),
	EIP155Block: big.NewInt(0), EIP158Block: big.NewInt(0), ByzantiumBlock: big.NewInt(0), ConstantinopleBlock: big.NewInt(0),
	Ethash: new(params.EthashConfig)}

func newEVM(ctx vm.Context, s *state.StateDB, mode string, bud uint64, tr *oogTracer) *vm.EVM {
	cc := allForks
	if mode == "APP" {
		// chain/app/evm/evm.go: chainConfig = params.MainnetChainConfig, header.Number = block height
		cc = params.MainnetChainConfig
	}
	cfg := vm.Config{EVMGasLimit: bud}
	if tr != nil {
		cfg.Debug, cfg.Tracer = true, tr
	}
	return vm.NewEVM(ctx, s, cc, cfg)
}

func budgetLeft(e *vm.EVM, bud uint64) uint64 { return e.GasLeft() }
