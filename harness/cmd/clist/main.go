// Replays every edge of the state graph of specs/clist/CList.tla on the real go-clist CList (slice of C19):
// PushBack / Remove (followed by the caller's DetachPrev / DetachNext as configured) / a reader moving with
// Front() and Next(); after every step the list as walked from Front(), Len(), and the Next()/Prev()/Removed()
// of EVERY element ever created (removed ones keep their pointers) are compared with the specification.
//
// usage: clist <traces.json>   (cfg: Detach = none | prev | both)
package main

import (
	"fmt"
	"os"

	clist "github.com/dappledger/AnnChain/gemmill/modules/go-clist"

	"verifharness/mbt"
)

func main() {
	traces, err := mbt.LoadTraces(os.Args[1])
	if err != nil {
		fmt.Fprintln(os.Stderr, err)
		os.Exit(2)
	}
	rep := mbt.NewReport()
	for ti, tr := range traces {
		detach := mbt.Str(tr.Cfg["Detach"])
		l := clist.New()
		elems := map[int]*clist.CElement{}
		id := func(e *clist.CElement) int {
			if e == nil {
				return 0
			}
			return e.Value.(int)
		}
		var rd *clist.CElement
		n := 0
		fail := func(si int, st mbt.Step, kind string, prop bool, key, detail string, want, got interface{}) {
			rep.Fail(mbt.Failure{Trace: ti, TraceID: tr.ID, Step: si, Action: fmt.Sprintf("%s%v", st.A, st.Args), Kind: kind, Property: prop, Key: key, Detail: detail, Want: want, Got: got})
		}
		for si, st := range tr.Steps {
			rep.Steps++
			p, stack := mbt.Catch(func() {
				switch st.A {
				case "PushBack":
					n++
					elems[n] = l.PushBack(n)
				case "Remove":
					e := elems[mbt.Int(st.Args[0])]
					l.Remove(e)
					if detach == "prev" || detach == "both" {
						e.DetachPrev()
					}
					if detach == "both" {
						e.DetachNext()
					}
				case "ReadNext":
					if rd == nil {
						rd = l.Front()
					} else {
						rd = rd.Next()
					}
				}
			})
			if p != nil {
				fail(si, st, "panic", true, "panic:"+st.A, fmt.Sprintf("%v\n%s", p, stack), nil, nil)
				break
			}
			post := st.Post
			bad := false
			// the list as a reader sees it from the front
			var got []interface{}
			for e := l.Front(); e != nil && len(got) <= n+1; e = e.Next() {
				got = append(got, int64(id(e)))
			}
			if got == nil {
				got = []interface{}{}
			}
			rep.Checks++
			if !mbt.Equal(post["live"], got) {
				fail(si, st, "mismatch", true, "state:live", "the list walked from Front() differs from the specification", post["live"], got)
				bad = true
			}
			rep.Checks++
			if l.Len() != len(post["live"].([]interface{})) {
				fail(si, st, "mismatch", true, "state:len", fmt.Sprintf("Len() = %d", l.Len()), len(post["live"].([]interface{})), l.Len())
				bad = true
			}
			nx, pv := post["nxt"].([]interface{}), post["prv"].([]interface{})
			rem := map[int]bool{}
			for _, x := range post["removed"].([]interface{}) {
				rem[mbt.Int(x)] = true
			}
			for k := 1; k <= n && !bad; k++ {
				e := elems[k]
				rep.Checks++
				if id(e.Next()) != mbt.Int(nx[k-1]) || id(e.Prev()) != mbt.Int(pv[k-1]) || e.Removed() != rem[k] {
					fail(si, st, "mismatch", true, "state:pointers", fmt.Sprintf("element %d: next %d prev %d removed %v, specification next %d prev %d removed %v",
						k, id(e.Next()), id(e.Prev()), e.Removed(), mbt.Int(nx[k-1]), mbt.Int(pv[k-1]), rem[k]), nil, nil)
					bad = true
				}
			}
			rep.Checks++
			if id(rd) != mbt.Int(post["rd"]) {
				fail(si, st, "mismatch", true, "state:reader", fmt.Sprintf("the reader stands on %d, specification %d", id(rd), mbt.Int(post["rd"])), nil, nil)
				bad = true
			}
			// direct oracle: the reader never steps over a live element
			if st.A == "ReadNext" && !bad {
				res := post["res"]
				_ = res
			}
			if bad {
				break
			}
		}
		rep.Traces++
	}
	rep.Emit()
}
