// Replays behaviours of specs/txpool/TxPool.tla on the REAL chain/app/evm ethTxPool with a REAL
// EVMApp (LevelDB state) behind it, and of specs/txpool/Mempool.tla on the real gemmill/mempool
// Mempool (C19).
//
// usage: txpool <traces.json>
//
// TxPool steps (arguments as in the specification; a transaction is [account, nonce, version]):
//
//	Submit(t, r)          TxPool.ReceiveTx(real signed tx); r = reply class
//	SubmitAdmin(x, r)     ReceiveTx(admin-tagged bytes)
//	SubmitBadSig(t)       (engine-made) a transaction whose signature does not verify
//	Reap(n)               Reap(n): checked against what the specification state allows
//	Update(B)             OnExecute(block B) [no pool effect] ; TxPool.Update(height, B)
//	SwapState             OnCommit runs until the Gate "evm.OnCommit.beforeUpdateToState": new app.state installed
//	UpdateToState(od,op)  the gate is released: pool.updateToState() ; OnCommit returns
//	Evict                 waits for the pool's own eviction tick (lifetime set to 0)
//	Flush
//
// After every step the real pool (hook VerifPoolView) is projected onto the specification
// variables and compared.  Independent of the model the driver checks on the real pool:
// what Reap offers is per account strictly consecutive from the account's committed nonce
// (Query), no (account, nonce) twice, nothing a committed block contained, exact duplicates
// rejected and only those, configured bounds respected, no executable transaction lost below
// capacity.
package main

import (
	"bytes"
	"encoding/hex"
	"fmt"
	"os"
	"runtime/debug"
	"sort"
	"strings"
	"sync"
	"time"

	"github.com/spf13/viper"

	"github.com/dappledger/AnnChain/chain/app/evm"
	"github.com/dappledger/AnnChain/eth/common"
	crypto "github.com/dappledger/AnnChain/gemmill/go-crypto"
	"github.com/dappledger/AnnChain/gemmill/mempool"
	sm "github.com/dappledger/AnnChain/gemmill/state"
	gtypes "github.com/dappledger/AnnChain/gemmill/types"
	"github.com/dappledger/AnnChain/gemmill/verifhook"

	"verifharness/evmutil"
	"verifharness/mbt"
)

type txid [3]int

func (t txid) String() string { return fmt.Sprintf("<<%d,%d,%d>>", t[0], t[1], t[2]) }

func parseID(v interface{}) txid {
	l := v.([]interface{})
	return txid{mbt.Int(l[0]), mbt.Int(l[1]), mbt.Int(l[2])}
}

func idJSON(t txid) []interface{} { return []interface{}{int64(t[0]), int64(t[1]), int64(t[2])} }

var (
	rawCache = map[txid][]byte{}
	rawMu    sync.Mutex
)

// raw returns the real transaction bytes of a specification transaction.
func raw(t txid) []byte {
	rawMu.Lock()
	defer rawMu.Unlock()
	if b, ok := rawCache[t]; ok {
		return b
	}
	var b []byte
	if t[0] == 0 { // admin op
		b = gtypes.TagAdminOPTx([]byte(fmt.Sprintf("verif-admin-op-%d", t[1])))
	} else {
		k := evmutil.Key(t[0])
		switch t[2] {
		case 1:
			b = evmutil.SignedTx(k, uint64(t[1]), &evmutil.PlainTo, 0, 21000, 0, nil)
		case 2: // fails at execution: gas price 1, no balance
			b = evmutil.SignedTx(k, uint64(t[1]), &evmutil.PlainTo, 0, 21000, 1, nil)
		default: // another valid transaction with the same nonce
			b = evmutil.SignedTx(k, uint64(t[1]), &evmutil.PlainTo, 0, 30000, 0, []byte{byte(t[2])})
		}
	}
	rawCache[t] = b
	return b
}

func classify(err error) string {
	if err == nil {
		return "ok"
	}
	s := err.Error()
	switch {
	case strings.Contains(s, "tx already exist in cache"):
		return "exist"
	case strings.Contains(s, "different with getNonce"):
		return "low"
	case strings.Contains(s, "waiting queue is full"):
		return "full"
	case strings.Contains(s, "tx nonce already exist"):
		return "dupnonce"
	}
	return "err:" + s
}

// the commit window (SwapState .. UpdateToState) uses the process-wide GateFn: one at a time
var commitMu sync.Mutex

// one commit of the real caller: State.CommitStateUpdateMempool(evsw, block, pool, round) runs in its own goroutine;
// it is parked (1) in the commit-hook listener, i.e. after mempool.Update and before the application's OnCommit, and
// (2) at the Gate inside OnCommit before pool.updateToState()
type window struct {
	updated  chan struct{} // mempool.Update has returned, the commit hook fired
	goSwap   chan struct{} // let the listener call OnCommit
	swapping bool
	swapped  chan struct{} // OnCommit reached the gate: new app.state installed
	release  chan struct{} // let OnCommit finish
	done     chan string
}

type run struct {
	rep     *mbt.Report
	repMu   *sync.Mutex
	ti      int
	tr      mbt.Trace
	node    *evmutil.Node
	accts   []int
	byHash  map[common.Hash]txid
	byRaw   map[string]txid
	P, W    int
	height  int64
	blk     *gtypes.Block
	blkIDs  []txid
	win     *window
	evsw    gtypes.EventSwitch
	aborted bool
	drifted bool
	// oracle state (independent of the model)
	committed map[txid]bool
	resub     map[txid]bool
	inWindow  bool
	universe  []txid
}

func (r *run) fail(si int, action, kind string, prop bool, key, detail string, want, got interface{}) {
	r.repMu.Lock()
	defer r.repMu.Unlock()
	r.rep.Fail(mbt.Failure{Trace: r.ti, TraceID: r.tr.ID, Step: si, Action: action, Kind: kind, Property: prop, Key: key, Detail: detail, Want: want, Got: got})
}

func (r *run) check() {
	r.repMu.Lock()
	r.rep.Checks++
	r.repMu.Unlock()
}

func (r *run) count(k string) {
	r.repMu.Lock()
	r.rep.Count(k)
	r.repMu.Unlock()
}

type view struct {
	pend, wait map[int][]txid // per account, sorted by nonce
	all        map[txid]bool
	beats      []int
	ext, bq    []txid
	unknown    []string
}

func (r *run) acctOf(a common.Address) int {
	for _, i := range r.accts {
		if evmutil.Addr(evmutil.Key(i)) == a {
			return i
		}
	}
	return -1
}

func (r *run) view() view {
	pv := r.node.App.VerifPoolView()
	v := view{pend: map[int][]txid{}, wait: map[int][]txid{}, all: map[txid]bool{}}
	conv := func(m map[common.Address][]evm.VerifPoolTx, out map[int][]txid, what string) {
		for a, l := range m {
			ai := r.acctOf(a)
			for _, x := range l {
				id, ok := r.byHash[x.Hash]
				if !ok || ai < 0 {
					v.unknown = append(v.unknown, fmt.Sprintf("%s[%s] nonce %d hash %s", what, a.Hex(), x.Nonce, x.Hash.Hex()))
					continue
				}
				out[ai] = append(out[ai], id)
			}
		}
	}
	conv(pv.Pending, v.pend, "pending")
	conv(pv.Waiting, v.wait, "waiting")
	for _, h := range pv.All {
		if id, ok := r.byHash[h]; ok {
			v.all[id] = true
		} else {
			v.unknown = append(v.unknown, "all "+h.Hex())
		}
	}
	for _, a := range pv.Beats {
		v.beats = append(v.beats, r.acctOf(a))
	}
	sort.Ints(v.beats)
	for _, x := range pv.Ext {
		v.ext = append(v.ext, r.byRaw[string(x)])
	}
	for _, x := range pv.Broadcast {
		v.bq = append(v.bq, r.byRaw[string(x)])
	}
	return v
}

func setJSON(ids []txid) []interface{} {
	c := append([]txid(nil), ids...)
	sort.Slice(c, func(i, j int) bool {
		for k := 0; k < 3; k++ {
			if c[i][k] != c[j][k] {
				return c[i][k] < c[j][k]
			}
		}
		return false
	})
	o := make([]interface{}, len(c))
	for i, t := range c {
		o[i] = idJSON(t)
	}
	return o
}

func seqJSON(ids []txid) []interface{} {
	o := make([]interface{}, len(ids))
	for i, t := range ids {
		o[i] = idJSON(t)
	}
	return o
}

func flat(m map[int][]txid) []txid {
	var o []txid
	for _, l := range m {
		o = append(o, l...)
	}
	return o
}

func (r *run) nonces() ([]interface{}, map[int]uint64, error) {
	var o []interface{}
	m := map[int]uint64{}
	for _, a := range r.accts {
		n, err := r.node.Nonce(evmutil.Addr(evmutil.Key(a)))
		if err != nil {
			return nil, nil, err
		}
		o = append(o, int64(n))
		m[a] = n
	}
	return o, m, nil
}

// project maps the real pool onto the specification variables.
func (r *run) project(v view) (map[string]interface{}, error) {
	nn, _, err := r.nonces()
	if err != nil {
		return nil, err
	}
	var all []txid
	for t := range v.all {
		all = append(all, t)
	}
	var beats []interface{}
	for _, b := range v.beats {
		beats = append(beats, int64(b))
	}
	if beats == nil {
		beats = []interface{}{}
	}
	return map[string]interface{}{"nonce": nn, "pend": setJSON(flat(v.pend)), "wait": setJSON(flat(v.wait)), "all": setJSON(all),
		"beats": beats, "ext": seqJSON(v.ext), "bq": seqJSON(v.bq)}, nil
}

func wantOf(post map[string]interface{}) map[string]interface{} {
	return map[string]interface{}{"nonce": post["nonce"], "pend": post["pend"], "wait": post["wait"], "all": post["all"],
		"beats": post["beats"], "ext": post["ext"], "bq": post["bq"]}
}

// oracles evaluates the properties on the real pool, independent of the model.
func (r *run) oracles(si int, action string, pre, post view, flush bool) {
	_, nn, err := r.nonces()
	if err != nil {
		r.fail(si, action, "error", true, "query-nonce", err.Error(), nil, nil)
		return
	}
	r.check()
	if len(post.unknown) > 0 {
		r.fail(si, action, "property", true, "pool-holds-unknown-tx", "the pool holds transactions nobody submitted: "+strings.Join(post.unknown, "; "), nil, nil)
	}
	// bounds
	np, nw := len(flat(post.pend)), len(flat(post.wait))
	r.check()
	if np > r.P || nw > r.W || len(post.all) > r.P+r.W || len(post.ext) > r.P || len(post.bq) > r.P+r.W {
		r.fail(si, action, "property", true, "WithinBounds", fmt.Sprintf("pool exceeds its configured bounds (pendingLimit %d, waitingLimit %d): pending %d waiting %d all %d ext %d broadcast %d",
			r.P, r.W, np, nw, len(post.all), len(post.ext), len(post.bq)), nil, nil)
	}
	if sz := r.node.App.GetTxPool().Size(); sz != len(post.ext)+len(post.all) {
		r.fail(si, action, "property", true, "Size", "Size() differs from extTxs + all", len(post.ext)+len(post.all), sz)
	}
	// lookup set = what the pool holds
	held := map[txid]bool{}
	for _, t := range flat(post.pend) {
		held[t] = true
	}
	for _, t := range flat(post.wait) {
		held[t] = true
	}
	r.check()
	for t := range post.all {
		if !held[t] {
			r.fail(si, action, "property", true, "all-leak", fmt.Sprintf("the lookup set `all` keeps %v which is neither pending nor waiting: the pool will reject it as a duplicate for ever and its size is no longer bounded by the queue limits", t), nil, nil)
			break
		}
	}
	for t := range held {
		if !post.all[t] {
			r.fail(si, action, "property", true, "all-missing", fmt.Sprintf("%v is queued but missing from the lookup set `all`: an exact duplicate would be accepted", t), nil, nil)
			break
		}
	}
	// no executable transaction lost below capacity
	if !flush {
		blk := map[txid]bool{}
		for _, t := range r.blkIDs {
			blk[t] = true
		}
		for a, l := range pre.pend {
			for _, t := range l {
				r.check()
				if held[t] || uint64(t[1]) < nn[a] || blk[t] {
					continue
				}
				if len(flat(pre.wait)) >= r.W || nw >= r.W {
					continue
				}
				r.fail(si, action, "property", true, "NoLossBelowCapacity", fmt.Sprintf("executable transaction %v (pending before %s) is gone although the pool is below capacity (waiting %d/%d) and the account nonce is %d", t, action, nw, r.W, nn[a]), nil, nil)
			}
		}
	}
	// offered transactions (only outside the commit window: Reap is called by the consensus goroutine)
	if r.inWindow {
		return
	}
	reaped := r.node.App.GetTxPool().Reap(1000)
	per := map[int][]txid{}
	seen := map[txid]bool{}
	for _, b := range reaped {
		id, ok := r.byRaw[string(b)]
		r.check()
		if !ok {
			r.fail(si, action, "property", true, "reap-unknown", "Reap offers bytes nobody submitted: "+hex.EncodeToString(b), nil, nil)
			continue
		}
		if seen[id] {
			r.fail(si, action, "property", true, "NoDupNonce:same-tx-twice", fmt.Sprintf("Reap offers %v twice", id), nil, nil)
		}
		seen[id] = true
		if r.committed[id] {
			if r.resub[id] {
				r.fail(si, action, "property", true, "reoffer:resubmitted-after-commit", fmt.Sprintf("Reap offers %v again: a committed block already contained it (it failed at execution) and it was submitted again afterwards; the pool keeps no memory of committed transactions", id), nil, nil)
			} else {
				r.fail(si, action, "property", true, "reoffer:committed-tx", fmt.Sprintf("Reap offers %v again although a committed block already contained it", id), nil, nil)
			}
		}
		if id[0] != 0 {
			per[id[0]] = append(per[id[0]], id)
		}
	}
	for a, l := range per {
		r.check()
		for i, t := range l {
			if uint64(t[1]) != nn[a]+uint64(i) {
				r.fail(si, action, "property", true, "ConsecutiveFromCurrentNonce", fmt.Sprintf("Reap offers for account %d the nonces %v but the account's committed nonce is %d", a, l, nn[a]), nil, nil)
				break
			}
		}
	}
}

func (r *run) submit(si int, id txid, b []byte, want string, model bool, label string) {
	pre := r.view()
	heldBefore := false
	for _, t := range append(flat(pre.pend), flat(pre.wait)...) {
		if t == id {
			heldBefore = true
		}
	}
	var err error
	p, stack := mbt.Catch(func() { err = r.node.App.GetTxPool().ReceiveTx(b) })
	r.check()
	if p != nil {
		r.fail(si, label, "panic", true, "panic:ReceiveTx", fmt.Sprintf("%v\n%s", p, stack), nil, nil)
		r.aborted = true
		return
	}
	got := classify(err)
	if model && got != want {
		r.fail(si, label, "mismatch", false, "reply:"+want+":"+got, "reply of ReceiveTx differs from the specification", want, got)
	}
	// exact duplicates are rejected, and only those
	if id[0] != 0 {
		r.check()
		if heldBefore && got != "exist" {
			r.fail(si, label, "property", true, "RejectsDuplicates:accepted", fmt.Sprintf("%v is already in the pool but ReceiveTx answered %q", id, got), "exist", got)
		}
		if !heldBefore && got == "exist" {
			r.fail(si, label, "property", true, "RejectsDuplicates:phantom", fmt.Sprintf("%v is neither pending nor waiting but ReceiveTx rejects it as already existing", id), nil, got)
		}
	}
	post := r.view()
	if got == "ok" {
		if r.committed[id] || r.inBlock(id) {
			r.resub[id] = true
		}
		if id[0] != 0 {
			held := false
			for _, t := range append(flat(post.pend), flat(post.wait)...) {
				if t == id {
					held = true
				}
			}
			r.check()
			if !held {
				r.fail(si, label, "property", true, "AcceptedIsHeld", fmt.Sprintf("ReceiveTx accepted %v (nil error) but the pool does not hold it afterwards", id), nil, nil)
			}
		}
	}
	r.oracles(si, label, pre, post, false)
}

func (r *run) inBlock(id txid) bool {
	for _, t := range r.blkIDs {
		if t == id {
			return true
		}
	}
	return false
}

func (r *run) closeWindow() string {
	w := r.win
	if w == nil {
		return ""
	}
	if !w.swapping {
		// the behaviour ends between mempool.Update and the state swap: let the commit run through
		commitMu.Lock()
		verifhook.GateFn = nil
		close(w.goSwap)
	} else {
		close(w.release)
	}
	e := <-w.done
	verifhook.GateFn = nil
	r.win = nil
	r.inWindow = false
	r.blkIDs = nil
	commitMu.Unlock()
	return e
}

func (r *run) step(si int, st mbt.Step, model bool) {
	pool := r.node.App.GetTxPool()
	label := fmt.Sprintf("%s%v", st.A, st.Args)
	compare := true
	switch st.A {
	case "Submit":
		id := parseID(st.Args[0])
		r.submit(si, id, raw(id), mbt.Str(st.Args[1]), model, label)
	case "SubmitAdmin":
		id := parseID(st.Args[0])
		r.submit(si, id, raw(id), mbt.Str(st.Args[1]), model, label)
	case "SubmitBadSig":
		id := parseID(st.Args[0])
		pre := r.view()
		b := evmutil.BadSig(raw(id), mbt.Int(st.Args[1]))
		var err error
		p, stack := mbt.Catch(func() { err = pool.ReceiveTx(b) })
		r.check()
		if p != nil {
			r.fail(si, label, "panic", true, "panic:ReceiveTx", fmt.Sprintf("%v\n%s", p, stack), nil, nil)
			r.aborted = true
			return
		}
		post := r.view()
		if err == nil || len(post.unknown) > 0 {
			r.fail(si, label, "property", true, "badsig-accepted", fmt.Sprintf("a transaction whose signature does not verify was accepted into the pool (reply %v; pool now holds %v): it is offered for inclusion under the zero address", err, post.unknown), "error", fmt.Sprint(err))
			r.aborted = true
			return
		}
		r.oracles(si, label, pre, post, false)
		compare = false
	case "Reap":
		n := mbt.Int(st.Args[0])
		v := r.view()
		got := pool.Reap(n)
		total := len(v.ext) + len(flat(v.pend))
		wantLen := n
		if total < n {
			wantLen = total
		}
		r.check()
		if len(got) != wantLen {
			r.fail(si, label, "property", true, "Reap-length", fmt.Sprintf("Reap(%d) returned %d transactions, the pool offers %d", n, len(got), total), wantLen, len(got))
		}
		// admin ops first (FIFO), then per account a prefix of its pending list
		k := 0
		for ; k < len(got) && k < len(v.ext); k++ {
			if r.byRaw[string(got[k])] != v.ext[k] {
				r.fail(si, label, "property", true, "Reap-admin-order", "Reap does not return the admin ops first in FIFO order", nil, nil)
				break
			}
		}
		per := map[int][]txid{}
		for _, b := range got[k:] {
			id := r.byRaw[string(b)]
			per[id[0]] = append(per[id[0]], id)
		}
		for a, l := range per {
			for i := range l {
				if i >= len(v.pend[a]) || l[i] != v.pend[a][i] {
					r.fail(si, label, "property", true, "Reap-prefix", fmt.Sprintf("Reap(%d) returns %v for account %d, not a prefix of its pending list %v", n, l, a, v.pend[a]), nil, nil)
					break
				}
			}
		}
		r.oracles(si, label, v, v, false)
	case "Update":
		var ids []txid
		for _, x := range st.Args[0].([]interface{}) {
			ids = append(ids, parseID(x))
		}
		sort.Slice(ids, func(i, j int) bool {
			if ids[i][1] != ids[j][1] {
				return ids[i][1] < ids[j][1]
			}
			if ids[i][0] != ids[j][0] {
				return ids[i][0] < ids[j][0]
			}
			return ids[i][2] < ids[j][2]
		})
		var txs, extxs [][]byte
		for _, id := range ids {
			if id[0] == 0 {
				extxs = append(extxs, raw(id))
			} else {
				txs = append(txs, raw(id))
			}
		}
		pre := r.view()
		blk := evmutil.MakeBlock(r.height+1, txs)
		for _, x := range extxs {
			blk.Data.ExTxs = append(blk.Data.ExTxs, gtypes.Tx(x))
		}
		if _, err, p, stack := r.node.Execute(blk); err != nil || p != nil {
			r.fail(si, label, "panic", true, "panic:OnExecute", fmt.Sprintf("%v %v\n%s", p, err, stack), nil, nil)
			r.aborted = true
			return
		}
		// the real caller: state.CommitStateUpdateMempool tells the pool which transactions the block contained and then
		// fires the commit hook; the block is built like pbft's createProposalBlock builds it (admin requests in ExTxs)
		w := &window{updated: make(chan struct{}), goSwap: make(chan struct{}), swapped: make(chan struct{}), release: make(chan struct{}), done: make(chan string, 1)}
		r.win = w
		go func() {
			e := ""
			p, stack := mbt.Catch(func() {
				if err := (&sm.State{}).CommitStateUpdateMempool(r.evsw, blk, pool, 0); err != nil {
					e = err.Error()
				}
			})
			if p != nil {
				e = fmt.Sprintf("panic: %v\n%s", p, stack)
			}
			w.done <- e
		}()
		select {
		case <-w.updated:
		case e := <-w.done:
			r.win = nil
			r.fail(si, label, "panic", true, "panic:CommitStateUpdateMempool", e, nil, nil)
			r.aborted = true
			return
		}
		r.blk, r.blkIDs = blk, ids
		for _, id := range ids {
			delete(r.resub, id)
		}
		r.inWindow = true
		r.oracles(si, label, pre, r.view(), false)
	case "SwapState":
		pre := r.view()
		w := r.win
		if w == nil {
			r.fail(si, label, "error", false, "", "SwapState without Update in trace", nil, nil)
			r.aborted = true
			return
		}
		commitMu.Lock()
		w.swapping = true
		var once sync.Once
		verifhook.GateFn = func(site string) {
			if site == "evm.OnCommit.beforeUpdateToState" {
				once.Do(func() {
					close(w.swapped)
					<-w.release
				})
			}
		}
		blk := r.blk
		close(w.goSwap)
		select {
		case <-w.swapped:
		case e := <-w.done:
			w.done <- e
		}
		r.height++
		r.node.Metas[blk.Height] = &gtypes.BlockMeta{Hash: blk.Hash(), Header: blk.Header}
		for _, id := range r.blkIDs {
			r.committed[id] = true
		}
		r.oracles(si, label, pre, r.view(), false)
	case "UpdateToState":
		pre := r.view()
		if e := r.closeWindow(); e != "" {
			r.fail(si, label, "panic", true, "panic:OnCommit", e, nil, nil)
			r.aborted = true
			return
		}
		post := r.view()
		r.oracles(si, label, pre, post, false)
		if model && st.Post != nil {
			// the iteration order over accounts is Go's random map order: when the reached state differs from the
			// behaviour's although every oracle held, the behaviour cannot be followed any further
			got, err := r.project(post)
			if err == nil {
				if ks := mbt.DiffKeys(mbt.Norm(wantOf(st.Post)).(map[string]interface{}), mbt.Canon(got).(map[string]interface{})); len(ks) > 0 {
					if len(r.accts) > 1 && (len(flat(post.pend)) >= r.P || len(flat(post.wait)) >= r.W || len(flat(pre.wait)) >= r.W) {
						r.count("legal_order_divergence")
						r.aborted = true
						return
					}
				}
			}
		}
	case "Evict":
		pre := r.view()
		r.node.App.VerifPoolSetLifetime(0)
		// the eviction loop ticks every minute after Start: wait until the next tick has certainly been processed
		el := time.Since(r.node.Started)
		next := (el/time.Minute + 1) * time.Minute
		time.Sleep(next - el + 3*time.Second)
		r.node.App.VerifPoolSetLifetime(10 * time.Minute)
		r.count("evictions_waited")
		r.oracles(si, label, pre, r.view(), false)
	case "Flush":
		pre := r.view()
		p, stack := mbt.Catch(func() { pool.Flush() })
		if p != nil {
			r.fail(si, label, "panic", true, "panic:Flush", fmt.Sprintf("%v\n%s", p, stack), nil, nil)
			r.aborted = true
			return
		}
		r.oracles(si, label, pre, r.view(), true)
	default:
		r.fail(si, label, "error", false, "", "unknown action", nil, nil)
		return
	}
	if r.aborted || !model || !compare || st.Post == nil {
		return
	}
	got, err := r.project(r.view())
	if err != nil {
		r.fail(si, label, "error", true, "query-nonce", err.Error(), nil, nil)
		r.aborted = true
		return
	}
	r.check()
	want := wantOf(st.Post)
	if ks := mbt.DiffKeys(mbt.Norm(want).(map[string]interface{}), mbt.Canon(got).(map[string]interface{})); len(ks) > 0 {
		r.fail(si, label, "mismatch", false, "state:"+ks[0], fmt.Sprintf("pool state differs from the specification on %v", ks), want, got)
		// internal drift is not a verdict: the behaviour is played to its end with the model comparison switched off, so
		// that the model-independent oracles (no committed transaction offered again, bounds, consecutive nonces ...)
		// can show the observable consequence, if there is one
		r.drifted = true
		return
	}
	// GetPendingMaxNonce against the specification's formula, evaluated on the specification state
	for _, a := range r.accts {
		want := pmn(st.Post, a)
		gotN, err := r.node.App.GetTxPool().GetPendingMaxNonce(evmutil.Addr(evmutil.Key(a)).Bytes())
		r.check()
		if err != nil || int64(gotN) != want {
			r.fail(si, label, "mismatch", false, "GetPendingMaxNonce", fmt.Sprintf("GetPendingMaxNonce(account %d) differs from the specification", a), want, fmt.Sprint(gotN, err))
		}
	}
}

// pmn evaluates the specification's PMN(a) on a specification state.
func pmn(post map[string]interface{}, a int) int64 {
	of := func(key string) []int {
		var ns []int
		for _, x := range post[key].([]interface{}) {
			t := parseID(x)
			if t[0] == a {
				ns = append(ns, t[1])
			}
		}
		sort.Ints(ns)
		return ns
	}
	p, w := of("pend"), of("wait")
	unsafe := int64(mbt.Int(post["nonce"].([]interface{})[a-1]))
	if len(p) > 0 {
		unsafe = int64(p[len(p)-1] + 1)
	}
	if len(w) > 0 {
		if unsafe != int64(w[0]) {
			return unsafe
		}
		return int64(w[len(w)-1] + 1)
	}
	return unsafe
}

func (r *run) runTrace() {
	model := r.tr.Cfg["mode"] != "oracle"
	for si, st := range r.tr.Steps {
		if r.aborted {
			break
		}
		r.repMu.Lock()
		r.rep.Steps++
		r.repMu.Unlock()
		r.step(si, st, model && !r.drifted)
	}
	if e := r.closeWindow(); e != "" && !r.aborted {
		r.fail(len(r.tr.Steps), "OnCommit", "panic", true, "panic:OnCommit", e, nil, nil)
	}
	r.evsw.Stop()
	r.node.Close()
}

func newRun(rep *mbt.Report, mu *sync.Mutex, ti int, tr mbt.Trace) (*run, error) {
	node, err := evmutil.NewNode(10)
	if err != nil {
		return nil, err
	}
	r := &run{rep: rep, repMu: mu, ti: ti, tr: tr, node: node, byHash: map[common.Hash]txid{}, byRaw: map[string]txid{},
		committed: map[txid]bool{}, resub: map[txid]bool{}}
	for _, a := range tr.Cfg["accts"].([]interface{}) {
		r.accts = append(r.accts, mbt.Int(a))
	}
	r.P, r.W = mbt.Int(tr.Cfg["P"]), mbt.Int(tr.Cfg["W"])
	node.App.VerifPoolSetLimits(r.P, r.W)
	// the commit-hook listener Angine installs: run the application's OnCommit and hand back its result
	r.evsw = gtypes.NewEventSwitch()
	if _, err := r.evsw.Start(); err != nil {
		return nil, err
	}
	gtypes.AddListenerForEvent(r.evsw, "verif-c19", gtypes.EventStringHookCommit(), func(ed gtypes.TMEventData) {
		data := ed.(gtypes.EventDataHookCommit)
		w := r.win
		close(w.updated)
		<-w.goSwap
		res, err := r.node.App.OnCommit(data.Height, data.Round, data.Block)
		if cs, ok := res.(gtypes.CommitResult); ok && err == nil {
			data.ResCh <- cs
		} else {
			data.ResCh <- gtypes.CommitResult{}
		}
	})
	for _, x := range tr.Cfg["universe"].([]interface{}) {
		id := parseID(x)
		b := raw(id)
		r.byRaw[string(b)] = id
		r.byHash[common.BytesToHash(evmutil.TxHash(b))] = id
		r.universe = append(r.universe, id)
	}
	return r, nil
}

// ---------------------------------------------------------------------------------------------
// plain FIFO mempool (gemmill/mempool), specs/txpool/Mempool.tla
//
// ReceiveTx takes no pool lock for its checks, so the specification splits it into its atomic steps and runs
// several submitter processes.  The driver reproduces every interleaving on the real Mempool: each submitter is
// a goroutine calling the real ReceiveTx, parked (1) in a registered filter - filters run between the cache.Exists
// check and cache.Push - and (2) at the Gate after cache.Push; Update runs in its own goroutine and is parked at
// the Gate before refreshMempoolTxs.  Exactly one goroutine runs at a time.
//   RcvCheck(p,x,r)  start ReceiveTx(x) for p; r = "exist" | "full" | "pass" (parked in the filter)
//   RcvPush(p,r)     let p continue: r = "exist" (cache.Push refused) | "ok"
//   RcvAppend(p)     (only with cfg split=true) let p append to the list
//   UpdCache(B)      start Update(B), parked before the refresh;  UpdRefresh: let it finish
//   Reap(n), Flush

type mpActor struct {
	kind    string // "sub" | "upd"
	stage   string
	arrived chan string
	resume  chan struct{}
	done    chan error
}

var (
	mpCur   *mpActor
	mpSplit bool
	mpMu    sync.Mutex
)

func mpCurrent() *mpActor {
	mpMu.Lock()
	defer mpMu.Unlock()
	return mpCur
}

func mpSet(a *mpActor) {
	mpMu.Lock()
	mpCur = a
	mpMu.Unlock()
}

type mpBarrier struct{}

func (mpBarrier) CheckTx(tx gtypes.Tx) (bool, error) {
	if a := mpCurrent(); a != nil && a.kind == "sub" && a.stage == "check" {
		a.stage = "filter"
		a.arrived <- "filter"
		<-a.resume
	}
	return true, nil
}

func mpGate(site string) {
	a := mpCurrent()
	if a == nil {
		return
	}
	switch {
	case site == "mempool.ReceiveTx.afterCachePush" && a.kind == "sub" && mpSplit && a.stage == "push":
		a.stage = "gate"
		a.arrived <- "gate"
		<-a.resume
	case site == "mempool.Update.beforeRefresh" && a.kind == "upd" && a.stage == "cache":
		a.stage = "gate"
		a.arrived <- "gate"
		<-a.resume
	}
}

// mpWait waits until the running actor parks or returns; "blocked" after the timeout (e.g. waiting for the pool lock).
func mpWait(a *mpActor) (string, error) {
	select {
	case w := <-a.arrived:
		return w, nil
	case err := <-a.done:
		a.stage = "done"
		return "done", err
	case <-time.After(300 * time.Millisecond):
		return "blocked", nil
	}
}

// lateFilter steers one schedule without any hook: ReceiveTx(T) is parked in the filter (i.e. after its cache.Exists
// check) and released by the SAME filter when Update rechecks the remaining list entry Y under the pool lock, so that
// the submitter is waiting for the pool lock when Update releases it.
type lateFilter struct {
	t, y    string
	parked  chan struct{}
	release chan struct{}
	once    *sync.Once
}

func (f lateFilter) CheckTx(tx gtypes.Tx) (bool, error) {
	switch string(tx) {
	case f.t:
		close(f.parked)
		<-f.release
	case f.y:
		select {
		case <-f.parked:
			f.once.Do(func() {
				close(f.release)
				time.Sleep(2 * time.Millisecond) // let the submitter reach mem.Lock()
			})
		default:
		}
	}
	return true, nil
}

// lateCopyRace: a copy of T, a transaction of the block being committed that this node does not hold, is submitted
// concurrently with Update(block): it passes the seen-check before Update starts and asks for the pool lock while
// Update holds it.  T is the last of n block transactions.  Whatever the order in which Update does its work, T
// must not be queued afterwards.
func lateCopyRace(fail func(int, string, string, bool, string, string, interface{}, interface{}), si int, label string, n, attempts int) {
	for attempt := 0; attempt < attempts; attempt++ {
		conf := viper.New()
		conf.Set("block_size", 10)
		mem := mempool.NewMempool(conf)
		f := lateFilter{t: "verif-late-T", y: "verif-late-Y", parked: make(chan struct{}), release: make(chan struct{}), once: new(sync.Once)}
		mem.RegisterFilter(f)
		if err := mem.ReceiveTx(gtypes.Tx(f.y)); err != nil {
			fail(si, label, "error", false, "mempool-late-setup", err.Error(), nil, nil)
			return
		}
		block := make([]gtypes.Tx, 0, n)
		for i := 0; i < n-1; i++ {
			block = append(block, gtypes.Tx(fmt.Sprintf("verif-late-filler-%d", i)))
		}
		block = append(block, gtypes.Tx(f.t))
		done := make(chan error, 1)
		go func() { done <- mem.ReceiveTx(gtypes.Tx(f.t)) }()
		select {
		case <-f.parked:
		case <-time.After(2 * time.Second):
			fail(si, label, "error", false, "mempool-late-setup", "submitter did not reach the filter", nil, nil)
			return
		}
		mem.Update(1, block)
		var err error
		select {
		case err = <-done:
		case <-time.After(5 * time.Second):
			fail(si, label, "error", false, "mempool-late-setup", "submitter did not return", nil, nil)
			return
		}
		for _, b := range mem.Reap(-1) {
			if string(b) == f.t {
				fail(si, label, "property", true, "mempool:reoffer-committed",
					fmt.Sprintf("attempt %d: ReceiveTx(T) ran concurrently with Update(block containing T as the last of %d transactions): it passed the seen-check before Update started and took the pool lock when Update released it; it returned err=%v and Reap offers T although the committed block contains it", attempt, n, err), "ErrTxInCache, T not queued", fmt.Sprint(err))
				return
			}
		}
	}
}

func runMempool(rep *mbt.Report, ti int, tr mbt.Trace) {
	conf := viper.New()
	conf.Set("block_size", mbt.Int(tr.Cfg["block_size"]))
	conf.Set("mempool_enable_txs_limits", true)
	mem := mempool.NewMempool(conf)
	mem.RegisterFilter(mpBarrier{})
	mpSplit, _ = tr.Cfg["split"].(bool)
	verifhook.GateFn = mpGate
	defer func() { verifhook.GateFn = nil; mpSet(nil) }()
	fail := func(si int, action, kind string, prop bool, key, detail string, want, got interface{}) {
		rep.Fail(mbt.Failure{Trace: ti, TraceID: tr.ID, Step: si, Action: action, Kind: kind, Property: prop, Key: key, Detail: detail, Want: want, Got: got})
	}
	// transaction "b" is an admin request (tag "zaop"): pbft's createProposalBlock puts it into block.ExTxs
	txb := func(v interface{}) []byte {
		if mbt.Str(v) == "b" {
			return gtypes.TagAdminOPTx([]byte("verif-mempool-tx-b"))
		}
		return []byte("verif-mempool-tx-" + mbt.Str(v))
	}
	name := func(b []byte) string {
		if gtypes.IsAdminOP(b) {
			b = b[len(gtypes.AdminTag):]
		}
		return strings.TrimPrefix(string(b), "verif-mempool-tx-")
	}
	// Update is reached through its real caller State.CommitStateUpdateMempool; the commit hook answers at once
	evsw := gtypes.NewEventSwitch()
	evsw.Start()
	defer evsw.Stop()
	gtypes.AddListenerForEvent(evsw, "verif-c19-mempool", gtypes.EventStringHookCommit(), func(ed gtypes.TMEventData) {
		ed.(gtypes.EventDataHookCommit).ResCh <- gtypes.CommitResult{}
	})
	model := tr.Cfg["mode"] != "oracle"
	subs := map[string]*mpActor{}
	subTx := map[string]string{}
	var upd *mpActor
	var updB []string
	var parked []*mpActor // every actor that may still have to be released at the end
	committed := map[string]bool{}
	forgot := map[string]bool{}
	updating := false
	var late []chan struct{} // Reap/Flush calls that blocked on the pool lock
	reapNow := func() ([]string, bool) {
		ch := make(chan []gtypes.Tx, 1)
		go func() { ch <- mem.Reap(-1) }()
		select {
		case l := <-ch:
			var o []string
			for _, b := range l {
				o = append(o, name(b))
			}
			return o, true
		case <-time.After(300 * time.Millisecond):
			return nil, false
		}
	}
	aborted := false
	for si, st := range tr.Steps {
		if aborted {
			break
		}
		rep.Steps++
		label := fmt.Sprintf("%s%v", st.A, st.Args)
		switch st.A {
		case "RcvCheck":
			p, x, want := mbt.Str(st.Args[0]), mbt.Str(st.Args[1]), mbt.Str(st.Args[2])
			a := &mpActor{kind: "sub", stage: "check", arrived: make(chan string, 1), resume: make(chan struct{}, 1), done: make(chan error, 1)}
			subs[p], subTx[p] = a, x
			parked = append(parked, a)
			mpSet(a)
			go func() { a.done <- mem.ReceiveTx(txb(x)) }()
			w, err := mpWait(a)
			got := "pass"
			switch {
			case w == "done" && err == mempool.ErrTxInCache:
				got = "exist"
			case w == "done" && err != nil:
				got = "full"
			case w == "done":
				got = "accepted-without-filter"
			case w == "blocked":
				got = "blocked"
			}
			rep.Checks++
			if model && got != want {
				fail(si, label, "mismatch", false, "mempool-reply:"+want+":"+got, "ReceiveTx differs from the specification at the Exists/limit check", want, got)
				aborted = true
			}
		case "RcvPush":
			p, want := mbt.Str(st.Args[0]), mbt.Str(st.Args[1])
			a := subs[p]
			if a == nil || a.stage != "filter" {
				if model {
					fail(si, label, "error", false, "mempool-not-parked", "submitter is not parked in the filter", nil, nil)
					aborted = true
				}
				break // (engine-made schedules: the real pool already answered this submitter)
			}
			mpSet(a)
			a.stage = "push"
			a.resume <- struct{}{}
			w, err := mpWait(a)
			got := "ok"
			switch {
			case w == "done" && err == mempool.ErrTxInCache:
				got = "exist"
			case w == "done" && err != nil:
				got = "err:" + err.Error()
			case w == "blocked":
				got = "blocked"
			}
			rep.Checks++
			if model && got != want {
				fail(si, label, "mismatch", false, "mempool-reply:"+want+":"+got, "ReceiveTx differs from the specification at cache.Push", want, got)
				aborted = true
			}
		case "RcvAppend":
			a := subs[mbt.Str(st.Args[0])]
			if a != nil && a.stage == "gate" {
				mpSet(a)
				a.stage = "append"
				a.resume <- struct{}{}
				mpWait(a)
			}
		case "UpdCache":
			var txs []gtypes.Tx
			updB = nil
			for _, x := range st.Args[0].([]interface{}) {
				txs = append(txs, txb(x))
				updB = append(updB, mbt.Str(x))
			}
			upd = &mpActor{kind: "upd", stage: "cache", arrived: make(chan string, 1), resume: make(chan struct{}, 1), done: make(chan error, 1)}
			parked = append(parked, upd)
			mpSet(upd)
			u := upd
			blk := evmutil.MakeBlock(int64(si+1), nil)
			for _, tx := range txs {
				if gtypes.IsAdminOP(tx) {
					blk.Data.ExTxs = append(blk.Data.ExTxs, tx)
				} else {
					blk.Data.Txs = append(blk.Data.Txs, tx)
				}
			}
			go func() { u.done <- (&sm.State{}).CommitStateUpdateMempool(evsw, blk, mem, 0) }()
			mpWait(upd)
			for _, x := range updB {
				committed[x] = true
				delete(forgot, x)
			}
			updating = true
		case "UpdRefresh":
			if upd != nil && upd.stage == "gate" {
				mpSet(upd)
				upd.stage = "refresh"
				upd.resume <- struct{}{}
				mpWait(upd)
			}
			// (when the refresh waits for the pool lock held by a parked submitter it completes later: see below)
		case "UpdLate":
			// (pre-repair variant of the specification only: the real Update has entered the cache long before)
		case "LateCopyRace":
			lateCopyRace(fail, si, label, mbt.Int(st.Args[0]), mbt.Int(st.Args[1]))
			continue
		case "Reap":
			// checked below through reapNow
		case "Flush":
			ch := make(chan struct{})
			go func() { mem.Flush(); close(ch) }()
			select {
			case <-ch:
			case <-time.After(300 * time.Millisecond):
				late = append(late, ch)
			}
			for x := range committed {
				forgot[x] = true
			}
		default:
			fail(si, label, "error", false, "", "unknown action", nil, nil)
		}
		if aborted {
			break
		}
		// calls that had to wait for the pool lock (held by a parked submitter) finish as soon as it is free
		var still []chan struct{}
		for _, ch := range late {
			select {
			case <-ch:
			case <-time.After(300 * time.Millisecond):
				still = append(still, ch)
			}
		}
		late = still
		// an Update whose refresh had to wait for the pool lock finishes as soon as the lock is free
		if upd != nil && upd.stage == "refresh" {
			select {
			case <-upd.done:
				upd.stage = "done"
			case <-time.After(300 * time.Millisecond):
			}
		}
		if upd != nil && upd.stage == "done" {
			updating = false
		}
		// ---- properties on the real pool, independent of the model
		got, ok := reapNow()
		if !ok {
			continue // the pool lock is held by a parked goroutine: nothing can be observed (nor offered) now
		}
		rep.Checks++
		seen := map[string]bool{}
		for _, x := range got {
			if seen[x] {
				fail(si, label, "property", true, "mempool:duplicate-queued", fmt.Sprintf("transaction %s is queued twice: Reap offers %v (two concurrent ReceiveTx of the same transaction were both accepted)", x, got), nil, got)
				aborted = true
				break
			}
			seen[x] = true
			if committed[x] && !forgot[x] && !updating {
				fail(si, label, "property", true, "mempool:reoffer-committed", fmt.Sprintf("Reap offers %s although a committed block already contained it (Reap = %v)", x, got), nil, got)
				aborted = true
				break
			}
		}
		if sz := mem.Size(); sz != len(got) {
			fail(si, label, "property", true, "mempool:size", "Size() differs from the number of queued transactions", len(got), sz)
		}
		if st.A == "Reap" {
			n := mbt.Int(st.Args[0])
			part := mem.Reap(n)
			want := got
			if n >= 0 && n < len(got) {
				want = got[:n]
			}
			var pl []string
			for _, b := range part {
				pl = append(pl, name(b))
			}
			if strings.Join(pl, ",") != strings.Join(want, ",") {
				fail(si, label, "property", true, "mempool:reap-fifo", "Reap(n) is not the first n queued transactions in arrival order", want, pl)
			}
		}
		if model && st.Post != nil {
			var want []string
			for _, x := range st.Post["txs"].([]interface{}) {
				want = append(want, mbt.Str(x))
			}
			if strings.Join(got, ",") != strings.Join(want, ",") {
				fail(si, label, "mismatch", false, "mempool-state", "mempool content differs from the specification", want, got)
				aborted = true
			}
		}
	}
	// release whatever is still parked, in order, and let every goroutine finish
	for _, a := range parked {
		for k := 0; k < 3 && a.stage != "done"; k++ {
			mpSet(a)
			select {
			case a.resume <- struct{}{}:
			default:
			}
			select {
			case <-a.done:
				a.stage = "done"
			case <-a.arrived:
			case <-time.After(200 * time.Millisecond):
			}
		}
	}
	for _, ch := range late {
		select {
		case <-ch:
		case <-time.After(time.Second):
		}
	}
}

func main() {
	crypto.NodeInit(crypto.CryptoTypeZhongAn)
	if len(os.Args) < 2 {
		fmt.Fprintln(os.Stderr, "usage: txpool traces.json")
		os.Exit(2)
	}
	traces, err := mbt.LoadTraces(os.Args[1])
	if err != nil {
		fmt.Fprintln(os.Stderr, "load:", err)
		os.Exit(2)
	}
	debug.SetGCPercent(400)
	rep := mbt.NewReport()
	var mu sync.Mutex
	var wg sync.WaitGroup
	// behaviours that contain an eviction tick wait for the pool's own one-minute ticker: run them concurrently
	for ti, tr := range traces {
		if ev, _ := tr.Cfg["evict"].(bool); ev {
			r, err := newRun(rep, &mu, ti, tr)
			if err != nil {
				fmt.Fprintln(os.Stderr, "node:", err)
				os.Exit(2)
			}
			rep.Traces++
			wg.Add(1)
			go func() {
				defer wg.Done()
				r.runTrace()
			}()
		}
	}
	for ti, tr := range traces {
		if ev, _ := tr.Cfg["evict"].(bool); ev {
			continue
		}
		rep.Traces++
		if tr.Cfg["kind"] == "mempool" {
			runMempool(rep, ti, tr)
			continue
		}
		r, err := newRun(rep, &mu, ti, tr)
		if err != nil {
			fmt.Fprintln(os.Stderr, "node:", err)
			os.Exit(2)
		}
		r.runTrace()
	}
	wg.Wait()
	_ = bytes.Equal
	rep.Emit()
}
