// Replays behaviours of specs/walgroup/WalGroup.tla on the real consensus WAL (pbft.WAL over autofile.Group):
// writes through the group's buffer, rotations of the head file at the model's moments, crashes (the
// buffer is lost, the last record may be torn), restarts through the real NewWAL/WAL.OnStart, and the
// start sequence of ConsensusState.OnStart + catchupReplay (Group.Search with the real height search
// function, then the GroupReader up to the end).  Part of C07.
//
// usage: walgroup <traces.json>
package main

import (
	"encoding/json"
	"fmt"
	"io"
	"io/ioutil"
	"os"
	"path/filepath"
	"sort"
	"strings"
	"time"

	"go.uber.org/zap"

	"github.com/dappledger/AnnChain/gemmill/consensus/pbft"
	"github.com/dappledger/AnnChain/gemmill/go-wire"
	auto "github.com/dappledger/AnnChain/gemmill/modules/go-autofile"
	glog "github.com/dappledger/AnnChain/gemmill/modules/go-log"
	"github.com/dappledger/AnnChain/gemmill/types"

	"verifharness/mbt"
)

const recStep = "RoundStepPropose"

type node struct {
	dir    string
	wal    *pbft.WAL
	g      *auto.Group
	h      int64
	nrec   int64
	ledger []int64 // direct oracle: ids of the records of height h that are whole on disk
	lastID int64
}

func recLine(h, id int64) string {
	return string(wire.JSONBytes(pbft.TimedWALMessage{Time: time.Now(), Msg: types.EventDataRoundState{Height: h, Round: id, Step: recStep}}))
}

// classify one line of a WAL file the way the specification names lines
func classify(line string) map[string]interface{} {
	if strings.HasPrefix(line, "#HEIGHT: ") {
		var h int64
		fmt.Sscanf(line, "#HEIGHT: %d", &h)
		return map[string]interface{}{"k": "M", "v": h}
	}
	var m struct {
		Msg []json.RawMessage `json:"msg"`
	}
	if err := json.Unmarshal([]byte(line), &m); err == nil && len(m.Msg) == 2 {
		var rs types.EventDataRoundState
		if json.Unmarshal(m.Msg[1], &rs) == nil {
			if rs.Step == recStep {
				return map[string]interface{}{"k": "R", "v": rs.Round}
			}
			return map[string]interface{}{"k": "S", "v": rs.Height} // round-state record written by Save(NewHeight): not an input
		}
	}
	return map[string]interface{}{"k": "T", "v": int64(0)}
}

// layout reads the directory: files in index order (head last), lines classified; torn = head without final newline
func (n *node) layout() (files [][]map[string]interface{}, torn bool, err error) {
	ents, err := ioutil.ReadDir(n.dir)
	if err != nil {
		return nil, false, err
	}
	var rot []string
	for _, e := range ents {
		if strings.HasPrefix(e.Name(), "wal.") {
			rot = append(rot, e.Name())
		}
	}
	sort.Strings(rot)
	names := append(rot, "wal")
	for i, nm := range names {
		b, err := ioutil.ReadFile(filepath.Join(n.dir, nm))
		if err != nil {
			if os.IsNotExist(err) && nm == "wal" {
				files = append(files, nil)
				continue
			}
			return nil, false, err
		}
		var ls []map[string]interface{}
		parts := strings.Split(string(b), "\n")
		if len(b) > 0 && b[len(b)-1] != '\n' {
			if i == len(names)-1 {
				torn = true
			}
		} else {
			parts = parts[:len(parts)-1]
		}
		for _, p := range parts {
			if p == "" {
				continue // the empty line OnStart writes to terminate a torn record
			}
			c := classify(p)
			if c["k"] == "S" {
				continue
			}
			ls = append(ls, c)
		}
		files = append(files, ls)
	}
	return files, torn, nil
}

func (n *node) crash() {
	if n.wal != nil {
		n.wal.Stop()
		n.g.Head.Close() // the file handle goes away; nothing is flushed
		n.wal, n.g = nil, nil
	}
}

// start = NewWAL (OpenGroup + the real WAL.OnStart), then what ConsensusState.OnStart and catchupReplay do with the group
func (n *node) start() (ids []int64, rerr string, err error) {
	w, err := pbft.NewWAL(n.dir, false)
	if err != nil {
		return nil, "", err
	}
	n.wal, n.g = w, w.VerifGroup()
	gr, found, serr := n.g.Search("#HEIGHT: ", pbft.VerifHeightSearchFunc(n.h))
	if serr == io.EOF || !found { // cs.Step == RoundStepNewHeight at every start
		n.wal.Save(types.EventDataRoundState{Height: n.h, Round: 0, Step: pbft.RoundStepNewHeight.String()})
	} else if serr != nil {
		return nil, "", serr
	}
	if gr != nil {
		gr.Close()
	}
	// catchupReplay
	gr, found, serr = n.g.Search("#HEIGHT: ", pbft.VerifHeightSearchFunc(n.h+1))
	if gr != nil {
		gr.Close()
	}
	if found {
		return nil, "has-next-height", nil
	}
	gr, found, serr = n.g.Search("#HEIGHT: ", pbft.VerifHeightSearchFunc(n.h))
	if serr == io.EOF {
		return nil, "eof", nil
	} else if serr != nil {
		return nil, "", serr
	}
	if !found {
		gr.Close()
		return nil, "no-height", nil
	}
	defer gr.Close()
	for {
		line, err := gr.ReadLine()
		if err != nil {
			if err == io.EOF {
				break
			}
			return nil, "", err
		}
		if c := classify(line); c["k"] == "R" {
			ids = append(ids, c["v"].(int64))
		}
	}
	return ids, "", nil
}

func ints(v interface{}) []int64 {
	var out []int64
	if l, ok := v.([]interface{}); ok {
		for _, x := range l {
			out = append(out, int64(mbt.Int(x)))
		}
	}
	return out
}

func eq(a, b []int64) bool {
	if len(a) != len(b) {
		return false
	}
	for i := range a {
		if a[i] != b[i] {
			return false
		}
	}
	return true
}

func main() {
	glog.SetLog(zap.NewNop())
	traces, err := mbt.LoadTraces(os.Args[1])
	if err != nil {
		fmt.Fprintln(os.Stderr, err)
		os.Exit(2)
	}
	rep := mbt.NewReport()
	for ti, tr := range traces {
		func() {
			dir, _ := ioutil.TempDir("", "vwalgroup-")
			defer os.RemoveAll(dir)
			n := &node{dir: dir, h: 1}
			fail := func(si int, st mbt.Step, kind string, prop bool, key, detail string, want, got interface{}) {
				rep.Fail(mbt.Failure{Trace: ti, TraceID: tr.ID, Step: si, Action: fmt.Sprintf("%s%v", st.A, st.Args),
					Kind: kind, Property: prop, Key: key, Detail: detail, Want: want, Got: got})
			}
			w, err := pbft.NewWAL(dir, false)
			if err != nil {
				fail(-1, mbt.Step{A: "Init"}, "error", false, "init", err.Error(), nil, nil)
				return
			}
			n.wal, n.g = w, w.VerifGroup()
			defer n.crash()
			for si, st := range tr.Steps {
				rep.Steps++
				var aerr error
				var got []int64
				var gerr string
				p, stack := mbt.Catch(func() {
					switch st.A {
					case "WriteRec":
						n.nrec++
						n.lastID = n.nrec
						aerr = n.g.WriteLine(recLine(n.h, n.nrec))
					case "FlushRec":
						aerr = n.g.Flush()
						n.ledger = append(n.ledger, n.lastID)
					case "Commit":
						n.h++
						n.ledger = nil
					case "WriteMarker":
						aerr = n.g.WriteLine(fmt.Sprintf("#HEIGHT: %d", n.h))
					case "FlushMarker":
						aerr = n.g.Flush()
					case "Rotate":
						n.g.RotateFile()
						rep.Count("rotations")
					case "Crash":
						n.crash()
					case "CrashTorn":
						n.crash()
						head := filepath.Join(dir, "wal")
						b, err := ioutil.ReadFile(head)
						if err != nil || len(b) < 2 {
							aerr = fmt.Errorf("no record to tear: %v", err)
							return
						}
						end := len(b) - 1
						start := strings.LastIndexByte(string(b[:end]), '\n') + 1
						cut := start + 1 + (si*7+ti)%(end-start-1)
						aerr = ioutil.WriteFile(head, b[:cut], 0600)
						if len(n.ledger) > 0 {
							n.ledger = n.ledger[:len(n.ledger)-1]
						}
						rep.Count("torn")
					case "Start":
						got, gerr, aerr = n.start()
						rep.Count("starts")
					default:
						aerr = fmt.Errorf("unknown action %s", st.A)
					}
				})
				if p != nil {
					fail(si, st, "panic", true, "panic:"+st.A, fmt.Sprintf("%v\n%s", p, stack), nil, nil)
					return
				}
				if aerr != nil {
					fail(si, st, "error", true, "error:"+st.A, aerr.Error(), nil, nil)
					return
				}
				if st.A == "Start" {
					rep.Checks++
					// direct oracle (independent of the model): the start replays the whole records of the height, in order
					if gerr != "" || !eq(got, n.ledger) {
						fail(si, st, "property", true, "ReplayReadsLog",
							fmt.Sprintf("after a restart at height %d the WAL holds the input records %v of that height, catchupReplay's search+read sequence yields %v (exit %q)", n.h, n.ledger, got, gerr),
							n.ledger, got)
						return
					}
					if chk, ok := st.Post["chk"].(map[string]interface{}); ok {
						rep.Checks++
						if !eq(ints(chk["got"]), got) || mbt.Str(chk["err"]) != gerr {
							fail(si, st, "mismatch", true, "Start-result", fmt.Sprintf("specification replays %v (exit %q), implementation %v (exit %q)", chk["got"], chk["err"], got, gerr), chk, got)
							return
						}
					}
				}
				// layout on disk vs the specification's files
				files, torn, err := n.layout()
				if err != nil {
					fail(si, st, "error", false, "layout", err.Error(), nil, nil)
					return
				}
				rep.Checks++
				var gotFiles []interface{}
				for _, f := range files {
					var ls []interface{}
					for _, l := range f {
						k := l["k"]
						v := l["v"]
						if k == "T" {
							v = int64(0)
						}
						ls = append(ls, map[string]interface{}{"k": k, "v": v})
					}
					if ls == nil {
						ls = []interface{}{}
					}
					gotFiles = append(gotFiles, ls)
				}
				wantFiles := mbt.Norm(st.Post["files"])
				if wl, ok := wantFiles.([]interface{}); ok {
					for _, f := range wl {
						if fl, ok := f.([]interface{}); ok {
							for _, l := range fl {
								if m, ok := l.(map[string]interface{}); ok && m["k"] == "T" {
									m["v"] = int64(0)
								}
							}
						}
					}
				}
				if !mbt.Equal(wantFiles, gotFiles) {
					fail(si, st, "mismatch", true, "state:files", "files on disk differ from the specification", wantFiles, mbt.Norm(gotFiles))
					return
				}
				if wt, ok := st.Post["torn"].(bool); ok && wt != torn {
					fail(si, st, "mismatch", true, "state:torn", fmt.Sprintf("torn tail: specification %v, disk %v", wt, torn), nil, nil)
					return
				}
				if n.g != nil {
					rep.Checks++
					if gm := mbt.Int(st.Post["gmax"]); gm != n.g.MaxIndex() {
						fail(si, st, "mismatch", false, "state:gmax", fmt.Sprintf("maxIndex: specification %d, group %d", gm, n.g.MaxIndex()), nil, nil)
						return
					}
				}
			}
			rep.Traces++
		}()
	}
	rep.Emit()
}
