// peerstate replays behaviours of specs/peerstate/PeerState.tla on the real pbft.PeerState
// (gemmill/consensus/pbft/reactor.go): one spec action = one public method, full projected state compared after
// every step (including the Precommits/CatchupCommit aliasing, observed by pointer identity).
//
// usage: peerstate <traces.json>
//
//	NewRoundStep(h,r,step,lcr) CommitStep(h,n,S) SetHasProposal(h,r,n,polr) SetHasPart(h,r,i) ProposalPOL(h,polr,S)
//	HasVote(h,r,ty,i) SetHasVote(h,r,ty,i) VoteSetBits(h,r,ty,S,ours) EnsureVoteBitArrays(h)
//	PickVote(h,r,ty,commit,V,res)
//
// Independent oracles (Property = true): [PickSendsUnknown] a picked vote is one of the offered votes the peer was not
// known to have; [NeverResend] it was not marked before; [PickWhenUnknown] nothing picked although a candidate exists.
package main

import (
	"fmt"
	"os"

	"github.com/dappledger/AnnChain/gemmill/consensus/pbft"
	crypto "github.com/dappledger/AnnChain/gemmill/go-crypto"
	gcmn "github.com/dappledger/AnnChain/gemmill/modules/go-common"
	glog "github.com/dappledger/AnnChain/gemmill/modules/go-log"
	"github.com/dappledger/AnnChain/gemmill/types"

	"go.uber.org/zap"

	"verifharness/mbt"
)

func bits(n int, s interface{}) *gcmn.BitArray {
	ba := gcmn.NewBitArray(n)
	for _, x := range s.([]interface{}) {
		ba.SetIndex(mbt.Int(x), true)
	}
	return ba
}

func arr(ba *gcmn.BitArray) map[string]interface{} {
	if ba == nil {
		return map[string]interface{}{"nil": true, "n": 0, "b": []interface{}{}}
	}
	var b []int
	for i := 0; i < ba.Size(); i++ {
		if ba.GetIndex(i) {
			b = append(b, i)
		}
	}
	return map[string]interface{}{"nil": false, "n": ba.Size(), "b": mbt.SortedInts(b)}
}

func vtype(s string) byte {
	if s == "pv" {
		return types.VoteTypePrevote
	}
	return types.VoteTypePrecommit
}

var stepOf = map[int]pbft.RoundStepType{0: 0, 1: pbft.RoundStepNewHeight, 2: pbft.RoundStepPropose, 3: pbft.RoundStepPrecommit}
var stepBack = map[pbft.RoundStepType]int{0: 0, pbft.RoundStepNewHeight: 1, pbft.RoundStepPropose: 2, pbft.RoundStepPrecommit: 3}

func project(ps *pbft.PeerState) map[string]interface{} {
	p := ps.GetRoundState()
	return map[string]interface{}{
		"h": p.Height, "r": p.Round, "st": stepBack[p.Step], "prop": p.Proposal, "parts": arr(p.ProposalBlockParts),
		"polr": p.ProposalPOLRound, "pol": arr(p.ProposalPOL), "pv": arr(p.Prevotes), "pc": arr(p.Precommits),
		"lcr": p.LastCommitRound, "lc": arr(p.LastCommit), "ccr": p.CatchupCommitRound, "cc": arr(p.CatchupCommit),
		"al": p.Precommits != nil && p.Precommits == p.CatchupCommit,
	}
}

// fakeVotes is the vote set offered to PickVoteToSend.
type fakeVotes struct {
	h, r   int64
	ty     byte
	n      int
	ba     *gcmn.BitArray
	commit bool
}

func (f *fakeVotes) Height() int64             { return f.h }
func (f *fakeVotes) Round() int64              { return f.r }
func (f *fakeVotes) Type() byte                { return f.ty }
func (f *fakeVotes) Size() int                 { return f.n }
func (f *fakeVotes) BitArray() *gcmn.BitArray  { return f.ba.Copy() }
func (f *fakeVotes) IsCommit() bool            { return f.commit }
func (f *fakeVotes) GetByIndex(i int) *types.Vote {
	if !f.ba.GetIndex(i) {
		return nil
	}
	return &types.Vote{Height: f.h, Round: f.r, Type: f.ty, ValidatorIndex: i}
}

func main() {
	crypto.NodeInit(crypto.CryptoTypeZhongAn)
	glog.SetLog(zap.NewNop())
	if len(os.Args) < 2 {
		fmt.Fprintln(os.Stderr, "usage: peerstate traces.json")
		os.Exit(2)
	}
	traces, err := mbt.LoadTraces(os.Args[1])
	if err != nil {
		fmt.Fprintln(os.Stderr, err)
		os.Exit(2)
	}
	rep := mbt.NewReport()
	for ti, tr := range traces {
		rep.Traces++
		n := mbt.Int(tr.Cfg["N"])
		ps := pbft.NewPeerState(nil)
		for si, st := range tr.Steps {
			rep.Steps++
			fail := func(kind string, prop bool, key, detail string, want, got interface{}) {
				rep.Fail(mbt.Failure{Trace: ti, TraceID: tr.ID, Step: si, Action: fmt.Sprintf("%s%v", st.A, st.Args),
					Kind: kind, Property: prop, Key: key, Detail: detail, Want: want, Got: got})
			}
			a := st.Args
			stop := false
			p, stack := mbt.Catch(func() {
				switch st.A {
				case "NewRoundStep":
					ps.ApplyNewRoundStepMessage(&pbft.NewRoundStepMessage{Height: int64(mbt.Int(a[0])), Round: int64(mbt.Int(a[1])),
						Step: stepOf[mbt.Int(a[2])], LastCommitRound: int64(mbt.Int(a[3]))})
				case "CommitStep":
					t := mbt.Int(a[1])
					ps.ApplyCommitStepMessage(&pbft.CommitStepMessage{Height: int64(mbt.Int(a[0])),
						BlockPartsHeader: types.PartSetHeader{Total: t, Hash: []byte("h")}, BlockParts: bits(t, a[2])})
				case "SetHasProposal":
					ps.SetHasProposal(&types.Proposal{Height: int64(mbt.Int(a[0])), Round: int64(mbt.Int(a[1])),
						BlockPartsHeader: types.PartSetHeader{Total: mbt.Int(a[2]), Hash: []byte("h")}, POLRound: int64(mbt.Int(a[3]))})
				case "SetHasPart":
					ps.SetHasProposalBlockPart(int64(mbt.Int(a[0])), int64(mbt.Int(a[1])), mbt.Int(a[2]))
				case "ProposalPOL":
					ps.ApplyProposalPOLMessage(&pbft.ProposalPOLMessage{Height: int64(mbt.Int(a[0])), ProposalPOLRound: int64(mbt.Int(a[1])),
						ProposalPOL: bits(n, a[2])})
				case "HasVote":
					ps.ApplyHasVoteMessage(&pbft.HasVoteMessage{Height: int64(mbt.Int(a[0])), Round: int64(mbt.Int(a[1])),
						Type: vtype(mbt.Str(a[2])), Index: mbt.Int(a[3])})
				case "SetHasVote":
					ps.SetHasVote(&types.Vote{Height: int64(mbt.Int(a[0])), Round: int64(mbt.Int(a[1])), Type: vtype(mbt.Str(a[2])),
						ValidatorIndex: mbt.Int(a[3])})
				case "VoteSetBits":
					var ours *gcmn.BitArray
					o := a[4].([]interface{})
					if mbt.Str(o[0]) == "set" {
						ours = bits(n, o[1])
					}
					ps.ApplyVoteSetBitsMessage(&pbft.VoteSetBitsMessage{Height: int64(mbt.Int(a[0])), Round: int64(mbt.Int(a[1])),
						Type: vtype(mbt.Str(a[2])), Votes: bits(n, a[3])}, ours)
				case "EnsureVoteBitArrays":
					ps.EnsureVoteBitArrays(int64(mbt.Int(a[0])), n)
				case "PickVote":
					fv := &fakeVotes{h: int64(mbt.Int(a[0])), r: int64(mbt.Int(a[1])), ty: vtype(mbt.Str(a[2])), n: n,
						ba: bits(n, a[4]), commit: a[3] == true}
					want := mbt.Int(a[5])
					v, ok := ps.PickVoteToSend(fv)
					rep.Checks++
					rep.Count("picks")
					got := -1
					if ok && v != nil {
						got = v.ValidatorIndex
						rep.Count("picks_sent")
						if !fv.ba.GetIndex(got) || v.Height != fv.h || v.Round != fv.r || v.Type != fv.ty {
							fail("property", true, "PickSendsUnknown", "the picked vote is not one of the offered votes", nil, got)
						}
					} else if ok && v == nil {
						fail("property", true, "PickSendsUnknown", "PickVoteToSend reports a vote to send but returns none", nil, nil)
					}
					if got != want {
						key := "PickVote-result"
						if want == -1 {
							key = "NeverResend" // the specification knows the peer has every offered vote
						} else if got == -1 {
							key = "PickWhenUnknown"
						}
						fail("mismatch", true, key, fmt.Sprintf("PickVoteToSend picked %d, the specification %d", got, want), want, got)
						stop = true
					}
				default:
					fail("error", false, "unknown-action", "unknown action "+st.A, nil, nil)
					stop = true
				}
			})
			if p != nil {
				fail("panic", true, "panic:"+st.A, fmt.Sprintf("%v\n%s", p, stack), nil, nil)
				break
			}
			if stop {
				break
			}
			want, _ := st.Post["ps"].(map[string]interface{})
			got := mbt.Canon(project(ps)).(map[string]interface{})
			rep.Checks++
			if ks := mbt.DiffKeys(mbt.Norm(want).(map[string]interface{}), got); len(ks) > 0 {
				fail("mismatch", true, "state:"+ks[0], fmt.Sprintf("peer state differs on %v", ks), want, got)
				break
			}
		}
	}
	rep.Emit()
}
