// Replays behaviours of specs/voteset/VoteSet.tla on the real types.VoteSet (C15).
//
// usage: voteset <traces.json>
// Each trace carries cfg {N, Power:[...], Blocks:[...], Peers:[...]} and steps
// AddVote(i,b,class,result) / SetPeerMaj23(p,b) with the spec state after the step.
package main

import (
	"bytes"
	"fmt"
	"os"
	"sort"

	crypto "github.com/dappledger/AnnChain/gemmill/go-crypto"
	"github.com/dappledger/AnnChain/gemmill/types"

	"verifharness/mbt"
)

const chainID = "verif-chain"

type env struct {
	n       int
	power   []int64
	privs   []crypto.PrivKeyEd25519 // in address order
	valSet  *types.ValidatorSet
	blocks  map[string]types.BlockID
	keyName map[string]string // BlockID.Key() -> spec name
	height  int64
	round   int64
	typ     byte
	total   int64
}

func mkBlockID(name string) types.BlockID {
	if name == "nil" {
		return types.BlockID{}
	}
	h := bytes.Repeat([]byte(name[:1]), 20)
	ph := bytes.Repeat([]byte(name[:1]), 20)
	ph[0] = 'p'
	return types.BlockID{Hash: h, PartsHeader: types.PartSetHeader{Total: 1 + int(name[0])%3, Hash: ph}}
}

func newEnv(cfg map[string]interface{}, variant int) *env {
	e := &env{height: 1 + int64(variant%3), round: int64(variant % 2), typ: types.VoteTypePrecommit}
	if variant%4 == 3 {
		e.typ = types.VoteTypePrevote
	}
	e.n = mbt.Int(cfg["N"])
	for _, p := range cfg["Power"].([]interface{}) {
		e.power = append(e.power, int64(mbt.Int(p)))
	}
	type kv struct {
		priv crypto.PrivKeyEd25519
		addr []byte
	}
	var ks []kv
	for i := 0; i < e.n; i++ {
		pk := crypto.GenPrivKeyEd25519FromSecret([]byte(fmt.Sprintf("verif-val-%d", i)))
		ks = append(ks, kv{pk, pk.PubKey().Address()})
	}
	sort.Slice(ks, func(a, b int) bool { return bytes.Compare(ks[a].addr, ks[b].addr) < 0 })
	vals := make([]*types.Validator, e.n)
	for i, k := range ks {
		e.privs = append(e.privs, k.priv)
		vals[i] = types.NewValidator(k.priv.PubKey(), e.power[i], true)
		e.total += e.power[i]
	}
	// the set reaches its final membership/powers through different histories (the tallies must use the CURRENT total):
	// directly, through a power Update of one member, or through Add + Remove of an extra member
	switch variant % 3 {
	case 1:
		pre := make([]*types.Validator, e.n)
		for i, v := range vals {
			pre[i] = v.Copy()
		}
		if (variant/3)%2 == 0 {
			pre[variant%e.n].VotingPower += 5 // the member's power is LOWERED by the Update
		} else {
			pre[variant%e.n].VotingPower = 0 // ... or RAISED by it (a stale total would be too small: sub-quorum commits)
		}
		e.valSet = types.NewValidatorSet(pre)
		if (variant/6)%2 == 0 {
			e.valSet.TotalVotingPower() // populate the cache before the change
		} else {
			// ... or the Update meets a set whose total is NOT cached (as after a reload, or after an Add/Remove in the same block)
			extra := crypto.GenPrivKeyEd25519FromSecret([]byte("verif-extra"))
			ev := types.NewValidator(extra.PubKey(), 7, true)
			e.valSet.Add(ev)
			e.valSet.Remove(ev.Address)
		}
		e.valSet.Update(vals[variant%e.n])
	case 2:
		extra := crypto.GenPrivKeyEd25519FromSecret([]byte("verif-extra"))
		e.valSet = types.NewValidatorSet(vals)
		e.valSet.TotalVotingPower()
		ev := types.NewValidator(extra.PubKey(), 7, true)
		e.valSet.Add(ev)
		e.valSet.TotalVotingPower()
		e.valSet.Remove(ev.Address)
	default:
		e.valSet = types.NewValidatorSet(vals)
	}
	for i, v := range e.valSet.Validators { // Accum differs between histories, membership and powers must not
		if !bytes.Equal(v.Address, vals[i].Address) || v.VotingPower != e.power[i] {
			panic("validator set construction went wrong")
		}
	}
	e.blocks = map[string]types.BlockID{}
	e.keyName = map[string]string{}
	for _, b := range cfg["Blocks"].([]interface{}) {
		id := mkBlockID(b.(string))
		if variant%5 == 4 && b.(string) != "nil" {
			// sibling block ids: same block hash, same number of parts, part-set hashes that agree on a long prefix and differ
			// only in their last byte - distinct ids all the same (BlockID.Equals compares everything)
			h := bytes.Repeat([]byte("S"), 20)
			ph := bytes.Repeat([]byte("s"), 20)
			ph[19] = b.(string)[0]
			id = types.BlockID{Hash: h, PartsHeader: types.PartSetHeader{Total: 2, Hash: ph}}
		}
		e.blocks[b.(string)] = id
		e.keyName[id.Key()] = b.(string)
	}
	return e
}

func (e *env) sign(i int, v *types.Vote, chain string) crypto.Signature {
	return e.privs[i].Sign(types.SignBytes(chain, v))
}

// baseVote returns a well-formed, validly signed vote of validator i (0-based) for block b.
func (e *env) baseVote(i int, b string) *types.Vote {
	v := &types.Vote{
		ValidatorAddress: e.valSet.Validators[i].Address,
		ValidatorIndex:   i,
		Height:           e.height,
		Round:            e.round,
		Type:             e.typ,
		BlockID:          e.blocks[b],
	}
	v.Signature = e.sign(i, v, chainID)
	return v
}

// variants concretises (i, b, class) into one or more real votes, all of which the spec maps to the
// same abstract vote and therefore to the same reply.
func (e *env) variants(i int, b string, class string) []*types.Vote {
	base := e.baseVote(i, b)
	switch class {
	case "ok":
		return []*types.Vote{base}
	case "badsig":
		var out []*types.Vote
		mk := func(mut func(v *types.Vote) string) {
			other := base.Copy()
			chain := mut(other)
			v := base.Copy()
			v.Signature = e.privs[i].Sign(types.SignBytes(chain, other))
			out = append(out, v)
		}
		// the same validator's genuine signature over a vote that differs in exactly one signed field
		mk(func(v *types.Vote) string { return chainID + "x" })
		mk(func(v *types.Vote) string { v.Height++; return chainID })
		mk(func(v *types.Vote) string { v.Round++; return chainID })
		mk(func(v *types.Vote) string { v.Type = 3 - v.Type; return chainID })
		for name, id := range e.blocks {
			if name != b {
				id := id
				mk(func(v *types.Vote) string { v.BlockID = id; return chainID })
			}
		}
		// another key's signature over the right bytes
		v := base.Copy()
		other := crypto.GenPrivKeyEd25519FromSecret([]byte("verif-outsider"))
		if e.n > 1 {
			other = e.privs[(i+1)%e.n]
		}
		v.Signature = other.Sign(types.SignBytes(chainID, base))
		out = append(out, v)
		// garbage
		v = base.Copy()
		var sig crypto.SignatureEd25519
		copy(sig[:], bytes.Repeat([]byte{0x5a}, 64))
		v.Signature = sig
		out = append(out, v)
		return out
	case "wrongaddr":
		v := base.Copy()
		if e.n > 1 {
			v.ValidatorAddress = e.valSet.Validators[(i+1)%e.n].Address
		} else {
			v.ValidatorAddress = bytes.Repeat([]byte{7}, 20)
		}
		v.Signature = e.sign(i, v, chainID)
		return []*types.Vote{v}
	case "wrongstep":
		var out []*types.Vote
		for k := 0; k < 3; k++ {
			v := base.Copy()
			switch k {
			case 0:
				v.Height++
			case 1:
				v.Round++
			case 2:
				v.Type = 3 - v.Type
			}
			v.Signature = e.sign(i, v, chainID)
			out = append(out, v)
		}
		return out
	case "badindex":
		var out []*types.Vote
		for _, idx := range []int{e.n, e.n + 7} {
			v := base.Copy()
			v.ValidatorIndex = idx
			v.Signature = e.sign(i, v, chainID)
			out = append(out, v)
		}
		return out
	}
	panic("unknown class " + class)
}

func classify(added bool, err error) string {
	if err == nil {
		if added {
			return "added"
		}
		return "dup"
	}
	if _, ok := err.(*types.ErrVoteConflictingVotes); ok {
		if added {
			return "conflictAdded"
		}
		return "conflictDropped"
	}
	s := err.Error()
	switch {
	case bytes.HasPrefix([]byte(s), []byte(types.ErrVoteUnexpectedStep.Error())):
		return "errStep"
	case err == types.ErrVoteInvalidValidatorIndex:
		return "errIndex"
	case err == types.ErrVoteInvalidValidatorAddress:
		return "errAddr"
	case err == types.ErrVoteInvalidSignature:
		return "errSig"
	}
	return "err:" + s
}

func (e *env) name(id types.BlockID) string {
	if n, ok := e.keyName[id.Key()]; ok {
		return n
	}
	return "?" + id.String()
}

// project maps the real set onto the spec variables. "internal" holds what only the verif hook can see.
func (e *env) project(vs *types.VoteSet) (obs map[string]interface{}, internal map[string]interface{}) {
	st := vs.VerifProject()
	obs = map[string]interface{}{}
	internal = map[string]interface{}{}
	// observable through the public API
	votes := make([]interface{}, e.n)
	for i := 0; i < e.n; i++ {
		v := vs.GetByIndex(i)
		if v == nil {
			votes[i] = "none"
		} else {
			votes[i] = e.name(v.BlockID)
		}
	}
	obs["votes"] = votes
	var bits []int
	if ba := vs.BitArray(); ba != nil {
		for i := 0; i < ba.Size(); i++ {
			if ba.GetIndex(i) {
				bits = append(bits, i+1)
			}
		}
	}
	obs["bits"] = mbt.SortedInts(bits)
	if id, ok := vs.TwoThirdsMajority(); ok {
		obs["maj23"] = e.name(id)
	} else {
		obs["maj23"] = "none"
	}
	bb := map[string]interface{}{}
	bbInt := map[string]interface{}{}
	for name, id := range e.blocks {
		ba := vs.BitArrayByBlockID(id)
		var voters []int
		if ba != nil {
			for i := 0; i < ba.Size(); i++ {
				if ba.GetIndex(i) {
					voters = append(voters, i+1)
				}
			}
		}
		bb[name] = map[string]interface{}{"tracked": ba != nil, "voters": mbt.SortedInts(voters)}
		in, ok := st.ByBlock[id.Key()]
		var iv []int
		for _, x := range in.Voters {
			iv = append(iv, x+1)
		}
		bbInt[name] = map[string]interface{}{"tracked": ok, "peerMaj23": in.PeerMaj23, "voters": mbt.SortedInts(iv), "sum": in.Sum}
	}
	obs["byBlock"] = bb
	internal["byBlock"] = bbInt
	internal["sum"] = st.Sum
	pm := map[string]interface{}{}
	for p, id := range st.PeerMaj {
		pm[p] = e.name(id)
	}
	internal["peerMaj"] = pm
	return
}

func wantObs(e *env, post map[string]interface{}) (obs, internal map[string]interface{}) {
	obs = map[string]interface{}{"votes": post["votes"], "bits": post["bits"], "maj23": post["maj23"]}
	bb := map[string]interface{}{}
	for name, v := range post["byBlock"].(map[string]interface{}) {
		m := v.(map[string]interface{})
		bb[name] = map[string]interface{}{"tracked": m["tracked"], "voters": m["voters"]}
	}
	obs["byBlock"] = bb
	pm := map[string]interface{}{}
	for p, v := range post["peerMaj"].(map[string]interface{}) {
		if v.(string) != "none" {
			pm[p] = v
		}
	}
	internal = map[string]interface{}{"byBlock": post["byBlock"], "sum": post["sum"], "peerMaj": pm}
	return
}

func main() {
	crypto.NodeInit(crypto.CryptoTypeZhongAn)
	if len(os.Args) < 2 {
		fmt.Fprintln(os.Stderr, "usage: voteset traces.json")
		os.Exit(2)
	}
	traces, err := mbt.LoadTraces(os.Args[1])
	if err != nil {
		fmt.Fprintln(os.Stderr, "load:", err)
		os.Exit(2)
	}
	rep := mbt.NewReport()
	distinct := map[string]bool{}
	for ti, tr := range traces {
		rep.Traces++
		variant := ti
		if v, ok := tr.Cfg["Variant"]; ok {
			variant = mbt.Int(v)
		}
		e := newEnv(tr.Cfg, variant)
		vs := types.NewVoteSet(chainID, e.height, e.round, e.typ, e.valSet)
		// independent oracle state: blocks each validator validly signed and offered
		offered := make([]map[string]bool, e.n)
		for i := range offered {
			offered[i] = map[string]bool{}
		}
		firstMaj := ""
		fail := func(si int, st mbt.Step, kind string, prop bool, key, detail string, want, got interface{}) {
			rep.Fail(mbt.Failure{Trace: ti, TraceID: tr.ID, Step: si, Action: fmt.Sprintf("%s%v", st.A, st.Args),
				Kind: kind, Property: prop, Key: key, Detail: detail, Want: want, Got: got})
		}
		aborted := false
		drifted := false
		for si, st := range tr.Steps {
			if aborted {
				break
			}
			rep.Steps++
			switch st.A {
			case "AddVote":
				i := mbt.Int(st.Args[0]) - 1
				b := mbt.Str(st.Args[1])
				class := mbt.Str(st.Args[2])
				want := mbt.Str(st.Args[3])
				vars := e.variants(i, b, class)
				rejecting := want == "dup" || want[:3] == "err"
				if !rejecting {
					vars = vars[:1]
				}
				for k, v := range vars {
					var added bool
					var aerr error
					p, stack := mbt.Catch(func() { added, aerr = vs.AddVote(v) })
					rep.Checks++
					if p != nil {
						fail(si, st, "panic", true, "AddVote-panic:"+class, fmt.Sprintf("variant %d: AddVote panicked: %v\n%s", k, p, stack), want, "panic")
						aborted = true
						break
					}
					got := classify(added, aerr)
					distinct[fmt.Sprintf("%s/%s/%d", class, got, k)] = true
					if got != want {
						fail(si, st, "mismatch", true, "AddVote-result:"+class+":"+want+":"+got, fmt.Sprintf("variant %d of class %s: reply differs", k, class), want, got)
					}
					if class == "ok" {
						offered[i][b] = true
					}
				}
			case "SetPeerMaj23":
				p, stack := mbt.Catch(func() { vs.SetPeerMaj23(mbt.Str(st.Args[0]), e.blocks[mbt.Str(st.Args[1])]) })
				if p != nil {
					fail(si, st, "panic", true, "SetPeerMaj23-panic", fmt.Sprintf("%v\n%s", p, stack), nil, nil)
					aborted = true
				}
			default:
				fail(si, st, "error", false, "", "unknown action", nil, nil)
			}
			if aborted {
				break
			}
			// compare with the spec state
			gotObs, gotInt := e.project(vs)
			wObs, wInt := wantObs(e, st.Post)
			rep.Checks++
			if ks := mbt.DiffKeys(mbt.Norm(wObs).(map[string]interface{}), mbt.Canon(gotObs).(map[string]interface{})); len(ks) > 0 {
				fail(si, st, "mismatch", true, "state:"+ks[0], fmt.Sprintf("observable state differs on %v", ks), wObs, gotObs)
				aborted = true
			}
			if ks := mbt.DiffKeys(mbt.Norm(wInt).(map[string]interface{}), mbt.Canon(gotInt).(map[string]interface{})); len(ks) > 0 {
				// drift on unexported bookkeeping is not a verdict by itself; the behaviour is followed further so that an
				// observable consequence (a wrong AddVote result, a missing majority, a wrong bit array) becomes one
				if !drifted {
					fail(si, st, "mismatch", false, "internal:"+ks[0], fmt.Sprintf("internal state differs on %v", ks), wInt, gotInt)
					drifted = true
					rep.Count("followed_after_internal_drift")
				}
			}
			// derived public predicates, against the spec's sum
			sum := int64(mbt.Int(st.Post["sum"]))
			if vs.HasTwoThirdsAny() != (3*sum > 2*e.total) {
				fail(si, st, "mismatch", true, "HasTwoThirdsAny", "HasTwoThirdsAny disagrees with the distinct-voter tally", 3*sum > 2*e.total, vs.HasTwoThirdsAny())
			}
			if vs.HasAll() != (sum == e.total) {
				fail(si, st, "mismatch", true, "HasAll", "HasAll disagrees with the distinct-voter tally", sum == e.total, vs.HasAll())
			}
			// properties evaluated directly on the real object, independent of the model
			if id, ok := vs.TwoThirdsMajority(); ok {
				name := e.name(id)
				var pw int64
				for i := 0; i < e.n; i++ {
					if offered[i][name] {
						pw += e.power[i]
					}
				}
				rep.Checks++
				if !(3*pw > 2*e.total) {
					fail(si, st, "property", true, "Sound", fmt.Sprintf("majority reported for %s with only %d/%d validly signed distinct power", name, pw, e.total), nil, nil)
				}
				if firstMaj == "" {
					firstMaj = name
				} else if firstMaj != name {
					fail(si, st, "property", true, "Maj23Stable", "reported majority changed", firstMaj, name)
				}
				if e.typ == types.VoteTypePrecommit {
					var verr error
					p, stack := mbt.Catch(func() { verr = e.valSet.VerifyCommit(chainID, id, e.height, vs.MakeCommit()) })
					rep.Checks++
					rep.Count("commits_verified")
					if p != nil {
						fail(si, st, "panic", true, "MakeCommit-panic", fmt.Sprintf("%v\n%s", p, stack), nil, nil)
					} else if verr != nil {
						fail(si, st, "property", true, "CommitVerifies", "commit assembled from the majority fails VerifyCommit: "+verr.Error(), nil, nil)
					} else if !(3*pw > 2*e.total) {
						fail(si, st, "property", true, "VerifyCommitQuorum", fmt.Sprintf("VerifyCommit accepted the commit assembled for %s although it carries only %d/%d of the voting power", name, pw, e.total), nil, nil)
					}
				}
			} else {
				if firstMaj != "" {
					fail(si, st, "property", true, "Maj23Stable", "reported majority disappeared", firstMaj, "none")
				}
				// no majority: a commit assembled from what the set holds must NOT pass commit verification for any block
				if e.typ == types.VoteTypePrecommit {
					for name, id := range e.blocks {
						if name == "nil" {
							continue
						}
						cm := &types.Commit{BlockID: id, Precommits: make([]*types.Vote, e.n)}
						var pw int64
						for i := 0; i < e.n; i++ {
							if v := vs.GetByIndex(i); v != nil {
								cm.Precommits[i] = v
								if v.BlockID.Equals(id) {
									pw += e.power[i]
								}
							}
						}
						if pw == 0 {
							continue
						}
						var verr error
						p, _ := mbt.Catch(func() { verr = e.valSet.VerifyCommit(chainID, id, e.height, cm) })
						rep.Checks++
						rep.Count("subquorum_commits_checked")
						if p == nil && verr == nil && !(3*pw > 2*e.total) {
							fail(si, st, "property", true, "VerifyCommitQuorum", fmt.Sprintf("VerifyCommit accepted a commit for %s carrying %d/%d of the voting power", name, pw, e.total), nil, nil)
						}
					}
				}
				// completeness without equivocation
				equiv := false
				for i := 0; i < e.n; i++ {
					if len(offered[i]) > 1 {
						equiv = true
					}
				}
				if !equiv {
					for name := range e.blocks {
						var pw int64
						for i := 0; i < e.n; i++ {
							if offered[i][name] {
								pw += e.power[i]
							}
						}
						if 3*pw > 2*e.total {
							fail(si, st, "property", true, "Complete", fmt.Sprintf("no majority reported although %s has %d/%d validly signed distinct power", name, pw, e.total), nil, nil)
						}
					}
				}
			}
		}
	}
	rep.Extra["distinct_class_result_variants"] = len(distinct)
	rep.Emit()
}
