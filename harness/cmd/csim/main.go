// csim: replays behaviours of specs/tendermint/Tendermint.tla on N real pbft.ConsensusState nodes.
//
//   csim replay <traces.json>     execute each behaviour, compare every node with the spec state after every action
//   csim tables <cfg.json>        print the proposer tables (LiveProp / StaleProp) computed by the real ValidatorSet
package main

import (
	"strings"
	"encoding/json"
	"fmt"
	"io/ioutil"
	"os"
	"sort"
	"strconv"
	"time"

	"github.com/dappledger/AnnChain/gemmill/types"

	"verifharness/csim"
	"verifharness/mbt"
)

func nextPowerOf(cfg map[string]interface{}) map[int64][]int64 {
	out := map[int64][]int64{}
	np, ok := cfg["NextPower"].(map[string]interface{})
	if !ok {
		return out
	}
	for k, v := range np {
		h, _ := strconv.Atoi(k)
		var pw []int64
		for _, x := range v.([]interface{}) {
			pw = append(pw, int64(mbt.Int(x)))
		}
		out[int64(h)] = pw
	}
	return out
}

func scaleOf(cfg map[string]interface{}) int {
	if v, ok := cfg["Scale"]; ok {
		return mbt.Int(v)
	}
	return 0
}

func powersOf(cfg map[string]interface{}) []int64 {
	var p []int64
	for _, x := range cfg["Power"].([]interface{}) {
		p = append(p, int64(mbt.Int(x)))
	}
	return p
}

func intsOf(v interface{}) []int {
	var o []int
	if v == nil {
		return o
	}
	for _, x := range v.([]interface{}) {
		o = append(o, mbt.Int(x))
	}
	return o
}

// tables computes, with the real ValidatorSet code, the proposer of (h, r) as a running node sees it and the
// round-0 proposer as a node sees it whose validator set went through State.Save/LoadState.
func tables(powers []int64, maxH, maxR int, next map[int64][]int64) (live [][]int, stale []int, err error) {
	dir, _ := ioutil.TempDir("", "csim-tab-")
	defer os.RemoveAll(dir)
	s, err := csim.New(dir, powers, nil, int64(maxR))
	if err != nil {
		return nil, nil, err
	}
	s.NextPower = next
	defer s.Close()
	n := s.Nodes[1]
	vs := n.State.Validators.Copy()
	for h := 1; h <= maxH; h++ {
		row := []int{}
		cur := vs.Copy()
		for r := 0; r <= maxR; r++ {
			if r > 0 {
				cur = cur.Copy()
				cur.IncrementAccum(1)
			}
			row = append(row, s.IdxOfAddr(cur.Proposer().Address))
		}
		live = append(live, row)
		// what a restarted node reports: the validator set goes through the real State.Save / LoadState
		stale = append(stale, s.IdxOfAddr(csim.ReloadThroughState(s.Genesis, vs, int64(h-1)).Proposer().Address))
		// next height: ExecBlock lets EndBlock change the copy, then nextValSet.IncrementAccum(1)
		vs = vs.Copy()
		s.ApplyChange(vs, int64(h+1))
		vs.IncrementAccum(1)
	}
	return live, stale, nil
}

func canon(v interface{}) string {
	b, _ := json.Marshal(mbt.Canon(v))
	return string(b)
}

func dropAbove(v interface{}, max int64) interface{} {
	l, ok := v.([]interface{})
	if !ok {
		return v
	}
	o := []interface{}{}
	for _, x := range l {
		if int64(mbt.Int(x)) <= max {
			o = append(o, x)
		}
	}
	return o
}

func sortedSet(v interface{}) interface{} {
	l, ok := v.([]interface{})
	if !ok {
		return v
	}
	c := append([]interface{}(nil), l...)
	sort.Slice(c, func(a, b int) bool { return canon(c[a]) < canon(c[b]) })
	return c
}

var cmpKeys = []string{"up", "h", "r", "st", "prop", "pb", "pp", "lr", "lb", "cr", "pvc", "pcc", "rs", "lc", "iq", "timer", "armed", "tocks", "dec"}

func nodeOf(post map[string]interface{}, i int) map[string]interface{} {
	nd := post["node"]
	switch x := nd.(type) {
	case map[string]interface{}:
		if r, ok := x[strconv.Itoa(i)]; ok {
			return r.(map[string]interface{})
		}
	case []interface{}:
		if i-1 < len(x) {
			return x[i-1].(map[string]interface{})
		}
	}
	return nil
}

func replayOne(ti int, tr mbt.Trace, rep *mbt.Report) {
	dir, _ := ioutil.TempDir("", "csim-")
	defer os.RemoveAll(dir)
	powers := powersOf(tr.Cfg)
	byz := intsOf(tr.Cfg["Byz"])
	maxR := int64(mbt.Int(tr.Cfg["MaxRound"]))
	variant := ti
	if v, ok := tr.Cfg["Variant"]; ok {
		variant = mbt.Int(v)
	}
	s, err := csim.New(dir, powers, byz, maxR)
	if err != nil {
		rep.Fail(mbt.Failure{Trace: ti, TraceID: tr.ID, Kind: "error", Detail: "setup: " + err.Error()})
		return
	}
	defer s.Close()
	s.NextPower = nextPowerOf(tr.Cfg)
	s.Start()
	var live [][]int
	var stale []int
	if t, ok := tr.Cfg["LiveProp"]; ok {
		for _, row := range t.([]interface{}) {
			live = append(live, intsOf(row))
		}
		stale = intsOf(tr.Cfg["StaleProp"])
	}
	fail := func(si int, st mbt.Step, kind string, prop bool, key, detail string, want, got interface{}) {
		rep.Fail(mbt.Failure{Trace: ti, TraceID: tr.ID, Step: si, Action: fmt.Sprintf("%s%s", st.A, canon(st.Args)), Kind: kind,
			Property: prop, Key: key, Detail: detail, Want: want, Got: got})
	}
	var expanded []interface{}
	defer func() {
		if p := os.Getenv("VERIF_CSIM_EXPAND"); p != "" && len(expanded) > 0 {
			b, _ := json.Marshal(expanded)
			ioutil.WriteFile(p, b, 0644)
		}
	}()
	preCrash := map[int]map[string]interface{}{}
	tornCrash := map[int]bool{}
	acceptedR0 := map[string]bool{} // "node/height": accepted a round-0 proposal while running
	staleDiffers := func(i int, h int) bool {
		return live != nil && h-1 < len(live) && h-1 < len(stale) && stale[h-1] != live[h-1][0]
	}
	for si, st := range tr.Steps {
		rep.Steps++
		var aerr error
		pseudoFail, pseudoDetail := "", ""
		var pseudoWant, pseudoGot interface{}
		p, stack := mbt.Catch(func() {
			switch st.A {
			case "Internal":
				n := mbt.Int(st.Args[0])
				got, err := s.Internal(n)
				if err != nil {
					aerr = err
					return
				}
				if len(st.Args) < 2 {
					return // free-running scenario: no expectation
				}
				want, _ := csim.MsgFromSpec(st.Args[1])
				if got.Key() != want.Key() {
					aerr = fmt.Errorf("node %d handled internal message %s, spec expects %s", n, got.Key(), want.Key())
				}
			case "Peer", "Byz":
				n := mbt.Int(st.Args[0])
				m, err := csim.MsgFromSpec(st.Args[1])
				if err != nil {
					aerr = err
					return
				}
				aerr = s.Deliver(n, m)
			case "InternalAll":
				for len(s.Nodes[mbt.Int(st.Args[0])].IQ) > 0 && aerr == nil {
					_, aerr = s.Internal(mbt.Int(st.Args[0]))
					expanded = append(expanded, []interface{}{"Internal", st.Args[0]})
				}
			case "Fire":
				_, aerr = s.Fire(mbt.Int(st.Args[0]))
			case "Timeout":
				ti := st.Args[1].(map[string]interface{})
				aerr = s.Timeout(mbt.Int(st.Args[0]), int64(mbt.Int(ti["h"])), int64(mbt.Int(ti["r"])), mbt.Int(ti["st"]))
			case "Crash":
				preCrash[mbt.Int(st.Args[0])] = mbt.Canon(s.SpecState(mbt.Int(st.Args[0]))).(map[string]interface{})
				tornCrash[mbt.Int(st.Args[0])] = false
				s.Crash(mbt.Int(st.Args[0]))
			case "CrashTorn":
				tornCrash[mbt.Int(st.Args[0])] = true
				// the cut position inside the last WAL line is derived from the position in the behaviour
				aerr = s.CrashTorn(mbt.Int(st.Args[0]), (si*37+variant*11)%97)
			case "RotateWAL":
				// pseudo step inserted by the engine: the autofile group's size check moves the head file away in the
				// middle of a height; invisible to the specification (the log content is the same), so the state must not
				// change now and a later Restart must still replay every record of the height
				if n := s.Nodes[mbt.Int(st.Args[0])]; n.Up && n.CS != nil {
					n.CS.VerifRotateWAL()
					rep.Count("wal_rotations")
				}
			case "Restart":
				aerr = s.Restart(mbt.Int(st.Args[0]))
				if aerr != nil {
					s.Notes = append(s.Notes, "restart: "+aerr.Error())
					aerr = nil
				}
			case "Drain":
				// pseudo step appended by the engine: fair schedule on the real nodes must reach the height
				rounds, derr := s.Drain(int64(mbt.Int(st.Args[0])), mbt.Int(st.Args[1]))
				rep.Count("drains")
				rep.Counters["drain_rounds"] += rounds
				if derr != nil {
					pseudoFail = "NoProgress"
					pseudoDetail = derr.Error()
					// known cause: a restarted node computes another round-0 proposer than the running nodes
					for _, i := range s.HonestIdx() {
						g := s.SpecState(i)
						h, r := int(g["h"].(int64)), int(g["r"].(int64))
						if s.Nodes[i].Inc > 0 && r == 0 && live != nil && h-1 < len(live) && int(g["proposer"].(int64)) != live[h-1][0] {
							pseudoFail = "NoProgress:stale-proposer-after-restart"
						}
					}
				}
			case "RealStartProbe":
				// pseudo step: real OnStart + receiveRoutine on a clone of the node's directory vs the stepped restart
				i := mbt.Int(st.Args[0])
				real, sync, perr := s.RealStartProbe(i, len(st.Args) > 1 && mbt.Str(st.Args[1]) == "realticker")
				rep.Count("real_start_probes")
				if s.ProbeTicks > 10 {
					rep.Count("real_start_probes_with_more_than_10_replayed_ticks")
				}
				if perr != nil {
					pseudoFail = "RealStart"
					if strings.Contains(perr.Error(), "Start() blocked") {
						pseudoFail = "RealStartBlocked"
					}
					pseudoDetail = "real Start() on a copy of the node directory failed: " + perr.Error()
				} else {
					cr, cs := mbt.Canon(real).(map[string]interface{}), mbt.Canon(sync).(map[string]interface{})
					var diff []string
					for _, k := range cmpKeys {
						if k == "armed" || k == "timer" || k == "tocks" {
							continue
						}
						if canon(cr[k]) != canon(cs[k]) {
							diff = append(diff, k)
						}
					}
					if len(diff) > 0 {
						pseudoFail = "RealStartDiffers"
						pseudoDetail = fmt.Sprintf("node %d restarted by the real OnStart/receiveRoutine differs from the stepped restart on %v", i, diff)
						pseudoWant, pseudoGot = cs, cr
					}
				}
			default:
				aerr = fmt.Errorf("unknown action %s", st.A)
			}
		})
		if p != nil {
			fail(si, st, "panic", true, "panic:"+st.A, fmt.Sprintf("%v\n%s", p, stack), nil, nil)
			return
		}
		if aerr != nil && st.Post == nil {
			// scripted scenario whose schedule the (repaired) code no longer admits: nothing to check further
			rep.Count("scenario_stopped")
			rep.Traces++
			return
		}
		if aerr != nil {
			fail(si, st, "mismatch", true, "cannot-follow:"+st.A, "the implementation cannot take the step the specification takes: "+aerr.Error(), nil, nil)
			return
		}
		if pseudoFail != "" {
			fail(si, st, "property", true, pseudoFail, pseudoDetail, pseudoWant, pseudoGot)
			return
		}
		if st.A == "Drain" || st.A == "RealStartProbe" {
			if msg := s.CheckAgreement(); msg != "" {
				fail(si, st, "property", true, "Agreement", msg, nil, nil)
				return
			}
			continue
		}
		if st.Post == nil && st.A != "InternalAll" {
			expanded = append(expanded, append([]interface{}{st.A}, st.Args...))
		}
		if st.Post == nil {
			// free-running scenario step: only the direct oracles apply
			if msg := s.CheckAgreement(); msg != "" {
				fail(si, st, "property", true, "Agreement", msg, nil, nil)
				return
			}
			if os.Getenv("VERIF_CSIM_TRACE") != "" {
				for _, i := range s.HonestIdx() {
					g := s.SpecState(i)
					fmt.Fprintf(os.Stderr, "  step %d %s%s node %d: h=%v r=%v st=%v lb=%v lr=%v prop=%v pb=%v dec=%v iq=%d\n", si, st.A, canon(st.Args), i, g["h"], g["r"], g["st"], g["lb"], g["lr"], g["prop"], g["pb"], g["dec"], len(s.Nodes[i].IQ))
				}
			}
			continue
		}
		// compare every honest node
		if msg := s.CheckTimeoutDurations(); msg != "" {
			fail(si, st, "oracle", true, "oracle:timeout-duration", msg, nil, nil)
			return
		}
		rep.Count("timeout_duration_checks")
		for _, i := range s.HonestIdx() {
			want := nodeOf(st.Post, i)
			if want == nil {
				fail(si, st, "error", false, "", fmt.Sprintf("no spec state for node %d", i), nil, nil)
				return
			}
			got := mbt.Canon(s.SpecState(i)).(map[string]interface{})
			rep.Checks++
			if bad, _ := want["bad"].(string); bad != "ok" {
				// the specification stopped following this node (round bound of the model reached)
				if bad != "EXHAUSTED" {
					fail(si, st, "error", false, "spec-bad:"+bad, "the specification flags "+bad, nil, nil)
				}
				rep.Count("exhausted")
				rep.Traces++
				return
			}
			if up, _ := want["up"].(bool); !up {
				if g, _ := got["up"].(bool); g {
					fail(si, st, "mismatch", true, "state:up", "node should be down", false, true)
					return
				}
				continue
			}
			var diff []string
			for _, k := range cmpKeys {
				w, g := mbt.Norm(want[k]), got[k]
				if k == "tocks" {
					w, g = sortedSet(w), sortedSet(g)
				}
				if k == "rs" {
					w = dropAbove(w, maxR)
				}
				if k == "lc" {
					if m, ok := w.(map[string]interface{}); ok {
						w = map[string]interface{}{"r": m["r"], "c": m["c"]}
					}
				}
				if canon(w) != canon(g) {
					diff = append(diff, k)
				}
			}
			ws := want["sig"].(map[string]interface{})
			gs := got["sig"].(map[string]interface{})
			for _, k := range []string{"h", "r", "s"} {
				if canon(mbt.Norm(ws[k])) != canon(gs[k]) {
					diff = append(diff, "sig."+k)
				}
			}
			if live != nil {
				h, r := mbt.Int(got["h"]), mbt.Int(got["r"])
				if h-1 < len(live) && r < len(live[h-1]) {
					exp := live[h-1][r]
					if st, _ := want["stale"].(bool); st && r == 0 {
						exp = stale[h-1]
					}
					if mbt.Int(got["proposer"]) != exp {
						diff = append(diff, "proposer")
					}
				}
			}
			if len(diff) > 0 {
				w := map[string]interface{}{}
				g := map[string]interface{}{}
				for _, k := range diff {
					w[k], g[k] = want[k], got[k]
				}
				fail(si, st, "mismatch", true, "state:"+diff[0], fmt.Sprintf("node %d differs from the specification on %v", i, diff), w, g)
				return
			}
		}
		// track acceptance of round-0 proposals (explains the known stale-proposer finding)
		for _, i := range s.HonestIdx() {
			if n := s.Nodes[i]; n.Up {
				g := s.SpecState(i)
				if pr, ok := g["prop"].(map[string]interface{}); ok && g["r"].(int64) == 0 {
					if v, ok := pr["v"].([]interface{}); ok && len(v) > 0 && v[0] != "none" {
						acceptedR0[fmt.Sprintf("%d/%d", i, g["h"].(int64))] = true
					}
				}
			}
		}
		// C07 oracle on the real node: a restart restores what the node had when its last logged input was processed
		if st.A == "Restart" && oracleRestore {
			i := mbt.Int(st.Args[0])
			if pre, ok := preCrash[i]; ok && !tornCrash[i] {
				got := mbt.Canon(s.SpecState(i)).(map[string]interface{})
				rep.Count("restart_restore_checks")
				strict := []string{"h", "pvc", "pcc", "cr", "dec"}
				full := []string{"r", "st", "prop", "pb", "pp", "lr", "lb"}
				for _, k := range strict {
					if canon(pre[k]) != canon(got[k]) {
						fail(si, st, "property", true, "ReplayRestores:"+k, fmt.Sprintf("node %d: %s after restart differs from what it was when the last logged input had been processed", i, k), pre[k], got[k])
						return
					}
				}
				for _, k := range full {
					if canon(pre[k]) != canon(got[k]) {
						h := mbt.Int(got["h"])
						key := "ReplayRestores:" + k
						if acceptedR0[fmt.Sprintf("%d/%d", i, h)] && staleDiffers(i, h) {
							key = "ReplayRestores:stale-proposer"
						}
						fail(si, st, "property", true, key, fmt.Sprintf("node %d: %s after restart differs from what it was when the last logged input had been processed", i, k), pre[k], got[k])
						if key != "ReplayRestores:stale-proposer" {
							return
						}
						break
					}
				}
			}
			delete(preCrash, i)
		}
		// properties evaluated directly on the real block stores
		if msg := s.CheckAgreement(); msg != "" {
			fail(si, st, "property", true, "Agreement", msg, nil, nil)
			return
		}
	}
	rep.Traces++
}

var oracleRestore = os.Getenv("VERIF_ORACLE_RESTORE") == "1"

func main() {
	if len(os.Args) < 2 {
		fmt.Fprintln(os.Stderr, "usage: csim traces.json | csim tables cfg.json")
		os.Exit(2)
	}
	if len(os.Args) >= 4 && os.Args[1] == "live" {
		// csim live <cfg.json> <out.ndjson>: record a run of real goroutines (real receiveRoutine, real ticker)
		var cfg map[string]interface{}
		b, err := ioutil.ReadFile(os.Args[2])
		if err == nil {
			err = json.Unmarshal(b, &cfg)
		}
		if err != nil {
			fmt.Fprintln(os.Stderr, err)
			os.Exit(2)
		}
		dir, _ := ioutil.TempDir("", "csim-live-")
		defer os.RemoveAll(dir)
		var sim *csim.Sim
		var evs []csim.LiveEvent
		var rerr error
		if cfg["Stack"] == true {
			sim, evs, rerr = csim.RunLiveStack(dir, powersOf(cfg), intsOf(cfg["Byz"]), int64(mbt.Int(cfg["MaxRound"])),
				int64(mbt.Int(cfg["Heights"])), time.Duration(mbt.Int(cfg["LimitMs"]))*time.Millisecond, scaleOf(cfg),
				optInt(cfg, "Laggard"), int64(optInt(cfg, "LagUntil")), optInt(cfg, "StopNode"), optInt(cfg, "RestartNode"))
		} else {
			sim, evs, rerr = csim.RunLive(dir, powersOf(cfg), intsOf(cfg["Byz"]), int64(mbt.Int(cfg["MaxRound"])),
				int64(mbt.Int(cfg["Heights"])), int64(mbt.Int(cfg["Seed"])), time.Duration(mbt.Int(cfg["LimitMs"]))*time.Millisecond, scaleOf(cfg), cfg["ByzActive"] == true)
		}
		res := map[string]interface{}{"events": len(evs)}
		if rerr != nil {
			res["error"] = rerr.Error()
			if cfg["Stack"] == true {
				// no trace is validated for a run that made no progress: report and leave (the nodes are still running)
				json.NewEncoder(os.Stdout).Encode(res)
				os.RemoveAll(dir)
				os.Exit(0)
			}
		}
		if sim != nil {
			recs := sim.LiveTrace(evs, int64(mbt.Int(cfg["Heights"])))
			f, err := os.Create(os.Args[3])
			if err != nil {
				fmt.Fprintln(os.Stderr, err)
				os.Exit(2)
			}
			enc := json.NewEncoder(f)
			for _, r := range recs {
				enc.Encode(r)
			}
			f.Close()
			if msg := sim.CheckAgreement(); msg != "" {
				res["agreement"] = msg
			}
			hs := map[string]int64{}
			for _, i := range sim.HonestIdx() {
				hs[strconv.Itoa(i)] = sim.Nodes[i].Store.Height()
			}
			res["heights"] = hs
			if cfg["Stack"] == true {
				// the reactors' per-peer gossip goroutines wind down on their own timers: do not close the stores under them
				json.NewEncoder(os.Stdout).Encode(res)
				os.RemoveAll(dir)
				os.Exit(0)
			}
			sim.Close()
		}
		json.NewEncoder(os.Stdout).Encode(res)
		return
	}
	if len(os.Args) == 2 || os.Args[1] != "tables" {
		// csim <traces.json>
		os.Args = []string{os.Args[0], "replay", os.Args[1]}
	}
	switch os.Args[1] {
	case "tables":
		var cfg map[string]interface{}
		b, err := ioutil.ReadFile(os.Args[2])
		if err == nil {
			err = json.Unmarshal(b, &cfg)
		}
		if err != nil {
			fmt.Fprintln(os.Stderr, err)
			os.Exit(2)
		}
		live, stale, err := tables(powersOf(cfg), mbt.Int(cfg["MaxHeight"]), mbt.Int(cfg["MaxRound"]), nextPowerOf(cfg))
		if err != nil {
			fmt.Fprintln(os.Stderr, err)
			os.Exit(2)
		}
		json.NewEncoder(os.Stdout).Encode(map[string]interface{}{"LiveProp": live, "StaleProp": stale})
	case "replay":
		traces, err := mbt.LoadTraces(os.Args[2])
		if err != nil {
			fmt.Fprintln(os.Stderr, "load:", err)
			os.Exit(2)
		}
		rep := mbt.NewReport()
		for ti, tr := range traces {
			replayOne(ti, tr, rep)
		}
		rep.Emit()
	}
	_ = types.VoteTypePrevote
}

func optInt(cfg map[string]interface{}, k string) int {
	if v, ok := cfg[k]; ok && v != nil {
		return mbt.Int(v)
	}
	return 0
}
