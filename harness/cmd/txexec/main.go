// Replays behaviours of specs/txexec/TxExec.tla on the REAL chain/app/evm EVMApp (C09).
//
// usage: txexec <traces.json>
//
// Every trace drives one application instance on real LevelDBs in a temporary directory through
// OnExecute / TxPool.Update / OnCommit with real signed transactions.  Steps:
//
//	Begin                      start collecting the transactions of the next block
//	ExecTx(t, r)               abstract transaction t (record c,a,n,k,v), expected class r
//	Commit                     the block is executed and committed; classification and state compared
//	Mutants(seed, count)       (engine-made, not from TLC) a block of byte-level mutants of valid txs
//
// Independent of the model the driver checks on the real replies:
//
//	ledger      a tx is reported valid only if its nonce equals its sender's nonce (own ledger, confirmed
//	            through Query after every commit); a plain well-formed tx whose nonce matches is applied;
//	            the nonce rises by exactly one per applied tx
//	at-most-once the same signed bytes are never reported valid twice over the whole chain
//	total       ValidTxs and InvalidTxs partition the block; no panic
//	twin        a second replica executes the same chain WITHOUT the invalid transactions and must
//	            reach the same AppHash after every block
//	receipts    every valid non-kv tx has a stored receipt, an invalid tx has none
package main

import (
	"bytes"
	"encoding/hex"
	"fmt"
	"hash/fnv"
	"math/big"
	"math/rand"
	"os"
	"runtime/debug"
	"strings"
	"time"

	"github.com/dappledger/AnnChain/chain/app/evm"
	"github.com/dappledger/AnnChain/eth/common"
	ecrypto "github.com/dappledger/AnnChain/eth/crypto"
	crypto "github.com/dappledger/AnnChain/gemmill/go-crypto"
	"github.com/dappledger/AnnChain/gemmill/verifhook"

	"verifharness/evmutil"
	"verifharness/mbt"
)

type item struct {
	t      evmutil.ATx
	known  bool // abstract class known (false for mutants)
	want   string
	raw    []byte
	stepIx int
	live   bool // the counter contract exists when this transaction runs
}

var plainOK = map[string]bool{"xfer": true, "create": true, "createfail": true, "createcalls": true, "valuecalls": true, "call": true, "revert": true, "oog": true, "loop": true, "pre": true,
	"admok": true, "admshort": true, "admcall": true, "kv": true, "kvbig": true}

type run struct {
	rep        *mbt.Report
	ti         int
	tr         mbt.Trace
	node       *evmutil.Node
	twin       *evmutil.Node
	twinChain  [][][]byte
	targetLive bool
	routines   int
	height     int64
	ledger     map[common.Address]uint64
	applied    map[string]int64 // raw bytes -> height at which it was reported valid
	everInv    map[string]bool
	model      bool
	gate       bool
	aborted    bool
	classes    map[string]bool
}

func (r *run) fail(si int, action, kind string, prop bool, key, detail string, want, got interface{}) {
	r.rep.Fail(mbt.Failure{Trace: r.ti, TraceID: r.tr.ID, Step: si, Action: action, Kind: kind, Property: prop, Key: key,
		Detail: detail, Want: want, Got: got})
}

func short(b []byte) string {
	s := hex.EncodeToString(b)
	if len(s) > 80 {
		s = s[:80] + "…"
	}
	return fmt.Sprintf("%s(len %d)", s, len(b))
}

// mutants builds a block of byte-level mutations of valid next-nonce transactions.
func (r *run) mutants(seed int64, count int) []item {
	rng := rand.New(rand.NewSource(seed))
	classes := []string{"xfer", "call", "create", "kv", "admok", "pre", "revert"}
	var out []item
	// nonces used inside this block so that unmutated copies stay valid
	next := map[int]uint64{}
	for a := 1; a <= 2; a++ {
		next[a] = r.ledger[evmutil.Addr(evmutil.Key(a))]
	}
	for i := 0; i < count; i++ {
		a := 1 + rng.Intn(2)
		c := classes[rng.Intn(len(classes))]
		base := evmutil.Concretize(evmutil.ATx{C: c, A: a, N: next[a], K: "mk", V: "mv"}, rng.Intn(16))
		b := append([]byte{}, base...)
		switch rng.Intn(8) {
		case 0: // unmutated
			next[a]++
		case 1:
			b = b[:rng.Intn(len(b))]
		case 2:
			b[rng.Intn(len(b))] ^= 1 << uint(rng.Intn(8))
		case 3:
			b[rng.Intn(len(b))] = byte(rng.Intn(256))
		case 4:
			b = append(b, byte(rng.Intn(256)))
		case 5:
			p := rng.Intn(len(b))
			b = append(append(append([]byte{}, b[:p]...), byte(rng.Intn(256))), b[p:]...)
		case 6:
			p := rng.Intn(len(b))
			b = append(append([]byte{}, b[:p]...), b[p+1:]...)
		case 7: // corrupt the RLP length prefix
			b[0] = byte(0xf8 + rng.Intn(8))
		}
		out = append(out, item{raw: b, known: false, t: evmutil.ATx{C: "mutant:" + c}})
	}
	return out
}

func (r *run) runBlock(si int, items []item, commit bool) {
	action := fmt.Sprintf("block %d", r.height+1)
	var txs [][]byte
	var prefer []string
	for _, it := range items {
		txs = append(txs, it.raw)
		prefer = append(prefer, it.want)
	}
	h := r.height + 1
	blk := evmutil.MakeBlock(h, txs)
	var release chan struct{}
	if r.gate {
		release = make(chan struct{})
		verifhook.GateFn = func(site string) {
			if site == "evm.tryValidate.failed" || site == "evm.txQueue.afterInit" {
				select {
				case <-release:
				case <-time.After(40 * time.Millisecond):
				}
			}
		}
	}
	res, err, pnc, stack := r.node.Execute(blk)
	if r.gate {
		close(release)
		verifhook.GateFn = nil
	}
	r.rep.Checks++
	if hg, ok := pnc.(evmutil.Hang); ok {
		var desc []string
		for _, it := range items {
			desc = append(desc, it.t.String())
		}
		r.fail(si, action, "hang", true, "hang:"+hg.Call, fmt.Sprintf("%s (%d signature-checking goroutines) on block [%s]: block execution never returns, the node is stuck at this height\n%s",
			hg.String(), r.routines, strings.Join(desc, ", "), trim(hg.Dump)), nil, nil)
		r.rep.Emit()
		evmutil.RemoveAllDirs()
		os.Exit(0) // the stuck goroutines cannot be reclaimed
	}
	if pnc != nil {
		cls := classOfPanic(fmt.Sprint(pnc), stack, items)
		var desc []string
		for _, it := range items {
			desc = append(desc, it.t.String()+"="+short(it.raw))
		}
		r.fail(si, action, "panic", true, "panic:"+cls, fmt.Sprintf("OnExecute panicked on block [%s]: %v\n%s", strings.Join(desc, ", "), pnc, trim(stack)), nil, fmt.Sprint(pnc))
		r.aborted = true
		return
	}
	if err != nil {
		r.fail(si, action, "error", true, "OnExecute-error", "OnExecute returned an error: "+err.Error(), nil, nil)
		r.aborted = true
		return
	}
	// ---- total
	got, ok := evmutil.Classify(txs, res, prefer)
	r.rep.Checks++
	if !ok {
		var v, n []string
		for _, x := range res.ValidTxs {
			v = append(v, short(x))
		}
		for _, x := range res.InvalidTxs {
			n = append(n, short(x.Bytes))
		}
		r.fail(si, action, "property", true, "Total:not-a-partition", fmt.Sprintf("ValidTxs/InvalidTxs do not partition the block (%d txs): valid=%v invalid=%v", len(txs), v, n), len(txs), len(res.ValidTxs)+len(res.InvalidTxs))
		r.aborted = true
		return
	}
	// ---- model classification + ledger oracle
	var twinTxs [][]byte
	for i, it := range items {
		r.rep.Count("tx_" + got[i])
		r.classes[it.t.C+"/"+got[i]] = true
		if r.model && it.known && it.want != got[i] {
			r.fail(it.stepIx, "ExecTx("+it.t.String()+")", "mismatch", false, "result:"+it.t.C+":"+it.want+":"+got[i],
				fmt.Sprintf("classification of %s differs from the specification (tx %s)", it.t.String(), short(it.raw)), it.want, got[i])
		}
		from, tx, sok := evmutil.Sender(it.raw)
		r.rep.Checks++
		items[i].live = r.targetLive
		if got[i] == "valid" && it.known && it.t.C == "create" && it.t.A == 1 && it.t.N == 0 {
			r.targetLive = true
		}
		if got[i] == "valid" {
			twinTxs = append(twinTxs, it.raw)
			if !sok {
				r.fail(it.stepIx, "ExecTx("+it.t.String()+")", "property", true, "applied-without-sender:"+it.t.C,
					"a transaction without a recoverable sender was reported valid: "+short(it.raw), "invalid", "valid")
				continue
			}
			if tx.Nonce() != r.ledger[from] {
				r.fail(it.stepIx, "ExecTx("+it.t.String()+")", "property", true, "applied-nonce-mismatch:"+it.t.C,
					fmt.Sprintf("transaction with nonce %d was applied although the sender's nonce is %d (tx %s)", tx.Nonce(), r.ledger[from], short(it.raw)),
					"invalid", "valid")
			}
			r.ledger[from]++
			if hh, dup := r.applied[string(it.raw)]; dup {
				r.fail(it.stepIx, "ExecTx("+it.t.String()+")", "property", true, "applied-twice:"+it.t.C,
					fmt.Sprintf("the same signed transaction was applied at height %d and again at height %d: %s", hh, h, short(it.raw)), nil, nil)
			}
			r.applied[string(it.raw)] = h
		} else {
			r.everInv[string(it.raw)] = true
			if sok && it.known && plainOK[it.t.C] && tx.Nonce() == r.ledger[from] {
				r.fail(it.stepIx, "ExecTx("+it.t.String()+")", "property", true, "not-applied:"+it.t.C,
					fmt.Sprintf("well-formed transaction with matching nonce %d was reported invalid (tx %s)", tx.Nonce(), short(it.raw)), "valid", "invalid")
			}
		}
	}
	if !commit {
		return
	}
	// ---- commit on the replica and on the twin (same chain without the invalid transactions)
	cr, cerr, pnc, stack := r.node.Commit(blk)
	if hg, ok := pnc.(evmutil.Hang); ok {
		r.fail(si, "Commit", "hang", true, "hang:"+hg.Call, hg.String()+"\n"+trim(hg.Dump), nil, nil)
		r.rep.Emit()
		evmutil.RemoveAllDirs()
		os.Exit(0)
	}
	if pnc != nil || cerr != nil {
		r.fail(si, "Commit", "panic", true, "panic:Commit", fmt.Sprintf("OnCommit failed: %v %v\n%s", pnc, cerr, trim(stack)), nil, nil)
		r.aborted = true
		return
	}
	r.height = h
	// the twin replica is only materialised once an invalid transaction has occurred (until then both chains are equal)
	r.twinChain = append(r.twinChain, twinTxs)
	if r.twin == nil && len(twinTxs) != len(txs) {
		tw, err := evmutil.NewNode(10)
		if err != nil {
			r.fail(si, "Commit", "error", false, "twin-node", err.Error(), nil, nil)
			r.aborted = true
			return
		}
		r.twin = tw
		for i := 0; i < len(r.twinChain)-1; i++ {
			b := evmutil.MakeBlock(int64(i+1), r.twinChain[i])
			if _, e, p, _ := tw.Execute(b); e != nil || p != nil {
				r.fail(si, "Commit", "panic", true, "panic:twin", fmt.Sprintf("twin OnExecute failed: %v %v", p, e), nil, nil)
				r.aborted = true
				return
			}
			if _, e, p, _ := tw.Commit(b); e != nil || p != nil {
				r.fail(si, "Commit", "panic", true, "panic:twin", fmt.Sprintf("twin OnCommit failed: %v %v", p, e), nil, nil)
				r.aborted = true
				return
			}
		}
	}
	if r.twin != nil {
		tblk := evmutil.MakeBlock(h, twinTxs)
		tres, terr, tp, tstack := r.twin.Execute(tblk)
		if tp != nil || terr != nil {
			r.fail(si, "Commit", "panic", true, "panic:twin", fmt.Sprintf("twin OnExecute failed: %v %v\n%s", tp, terr, trim(tstack)), nil, nil)
			r.aborted = true
			return
		}
		r.rep.Checks++
		if len(tres.InvalidTxs) != 0 {
			r.fail(si, "Commit", "property", true, "InvalidIsNoOp:twin-rejects", fmt.Sprintf("without the invalid transactions of the block %d of the valid ones are rejected: removing an invalid transaction changed the outcome", len(tres.InvalidTxs)), 0, len(tres.InvalidTxs))
		}
		tcr, terr, tp, tstack := r.twin.Commit(tblk)
		if tp != nil || terr != nil {
			r.fail(si, "Commit", "panic", true, "panic:twin", fmt.Sprintf("twin OnCommit failed: %v %v\n%s", tp, terr, trim(tstack)), nil, nil)
			r.aborted = true
			return
		}
		r.rep.Checks++
		r.rep.Count("twin_comparisons")
		if !bytes.Equal(cr.AppHash, tcr.AppHash) {
			var inv []string
			for i, it := range items {
				if got[i] == "invalid" {
					inv = append(inv, it.t.String())
				}
			}
			r.fail(si, "Commit", "property", true, "InvalidIsNoOp:AppHash", fmt.Sprintf("AppHash after block %d differs from the run without its invalid transactions %v", h, inv),
				hex.EncodeToString(tcr.AppHash), hex.EncodeToString(cr.AppHash))
		}
	}
	// ---- nonce ledger confirmed through Query
	for a, want := range r.ledger {
		gotN, err := r.node.Nonce(a)
		r.rep.Checks++
		if err != nil {
			r.fail(si, "Commit", "error", true, "query-nonce", err.Error(), nil, nil)
			continue
		}
		if gotN != want {
			r.fail(si, "Commit", "property", true, "NonceIncrementsByOne", fmt.Sprintf("account %s: committed nonce %d, but %d transactions of it were applied", a.Hex(), gotN, want), want, gotN)
			r.ledger[a] = gotN
		}
	}
	// ---- receipts
	for i, it := range items {
		found, status, _, err := r.node.ReceiptStatus(it.raw)
		r.rep.Checks++
		if err != nil {
			r.fail(si, "Commit", "error", true, "query-receipt", err.Error(), nil, nil)
			continue
		}
		_, tx, sok := evmutil.Sender(it.raw)
		isKv := sok && bytes.HasPrefix(tx.Data(), []byte("kvTx-"))
		if got[i] == "valid" && !isKv && !found {
			r.fail(si, "Commit", "property", true, "receipt-missing:"+it.t.C, "applied transaction has no receipt: "+short(it.raw), nil, nil)
		}
		if got[i] == "invalid" && found {
			if _, wasValid := r.applied[string(it.raw)]; !wasValid {
				r.fail(si, "Commit", "property", true, "receipt-for-invalid:"+it.t.C, "a transaction reported invalid has a receipt: "+short(it.raw), nil, nil)
			}
		}
		if got[i] == "valid" && found && r.model && it.known {
			if ws := evmutil.ExpectStatus(it.t.C, it.live); ws != nil {
				wantS := uint64(0)
				if *ws {
					wantS = 1
				}
				if status != wantS {
					r.fail(si, "Commit", "mismatch", false, "receipt-status:"+it.t.C, "receipt status differs from the specification for "+it.t.String(), wantS, status)
				}
			}
		}
	}
}

func classOfPanic(p, stack string, items []item) string {
	switch {
	case strings.Contains(stack, "AdminOP"):
		return "admin-precompile"
	case strings.Contains(stack, "genExecFun") && strings.Contains(p, "nil pointer"):
		return "nil-tx"
	}
	if len(items) == 1 {
		return items[0].t.C
	}
	return "block"
}

func trim(s string) string {
	if len(s) > 1800 {
		return s[:1800]
	}
	return s
}

// compareModel compares the committed state with the specification state after Commit.
func (r *run) compareModel(si int, post map[string]interface{}, accts []int, keys []string, maxn int) {
	base, _ := post["base"].(map[string]interface{})
	if base == nil {
		return
	}
	want := map[string]interface{}{}
	got := map[string]interface{}{}
	// nonces
	wn, _ := base["nonce"].([]interface{})
	var gn []interface{}
	for _, a := range accts {
		n, err := r.node.Nonce(evmutil.Addr(evmutil.Key(a)))
		if err != nil {
			r.fail(si, "Commit", "error", true, "query-nonce", err.Error(), nil, nil)
			return
		}
		gn = append(gn, int64(n))
	}
	want["nonce"], got["nonce"] = wn, gn
	// counter
	ret, err := r.node.Counter()
	if err != nil {
		r.fail(si, "Commit", "error", true, "query-contract", err.Error(), nil, nil)
		return
	}
	created := map[string]bool{}
	for _, c := range base["created"].([]interface{}) {
		p := c.([]interface{})
		created[fmt.Sprintf("%d/%d", mbt.Int(p[0]), mbt.Int(p[1]))] = true
	}
	gcnt := int64(-1)
	if len(ret) == 32 {
		gcnt = int64(new(big.Int).SetBytes(ret).Int64())
	} else if len(ret) == 0 {
		gcnt = 0
	}
	want["cnt"], got["cnt"] = int64(mbt.Int(base["cnt"])), gcnt
	// created contracts
	var wc, gc []string
	for _, a := range accts {
		for n := 0; n <= maxn+2; n++ {
			has, err := r.node.HasCounterCode(ecrypto.CreateAddress(evmutil.Addr(evmutil.Key(a)), uint64(n)))
			if err != nil {
				r.fail(si, "Commit", "error", true, "query-existence", err.Error(), nil, nil)
				return
			}
			k := fmt.Sprintf("%d/%d", a, n)
			if has {
				gc = append(gc, k)
			}
			if created[k] {
				wc = append(wc, k)
			}
		}
	}
	want["created"], got["created"] = mbt.SortedStrings(wc), mbt.SortedStrings(gc)
	// kv
	wkv, _ := post["kv"].(map[string]interface{})
	gkv := map[string]interface{}{}
	for _, k := range keys {
		found, v, err := r.node.KVGet([]byte(k))
		if err != nil {
			r.fail(si, "Commit", "error", true, "query-key", err.Error(), nil, nil)
			return
		}
		if !found {
			gkv[k] = "none"
		} else {
			gkv[k] = strings.TrimRight(string(v), evmutil.BigPad)
		}
	}
	want["kv"], got["kv"] = wkv, gkv
	want["height"] = int64(mbt.Int(post["height"]))
	got["height"] = r.node.App.Info().LastBlockHeight
	r.rep.Checks++
	if ks := mbt.DiffKeys(mbt.Norm(want).(map[string]interface{}), mbt.Canon(got).(map[string]interface{})); len(ks) > 0 {
		r.fail(si, "Commit", "mismatch", false, "state:"+ks[0], fmt.Sprintf("committed state differs from the specification on %v", ks), want, got)
		r.aborted = true
	}
}

func main() {
	crypto.NodeInit(crypto.CryptoTypeZhongAn)
	if len(os.Args) < 2 {
		fmt.Fprintln(os.Stderr, "usage: txexec traces.json")
		os.Exit(2)
	}
	traces, err := mbt.LoadTraces(os.Args[1])
	if err != nil {
		fmt.Fprintln(os.Stderr, "load:", err)
		os.Exit(2)
	}
	debug.SetGCPercent(400)
	defaultRoutines := evm.VerifSetValidateRoutines(1)
	rep := mbt.NewReport()
	classes := map[string]bool{}
	routines := []int{1, 2, 4, 8, 16, 3}
	for ti, tr := range traces {
		rep.Traces++
		node, err := evmutil.NewNode(10)
		if err != nil {
			fmt.Fprintln(os.Stderr, "node:", err)
			os.Exit(2)
		}
		r := &run{rep: rep, ti: ti, tr: tr, node: node, ledger: map[common.Address]uint64{}, applied: map[string]int64{},
			everInv: map[string]bool{}, classes: classes}
		r.model = tr.Cfg["mode"] != "oracle"
		r.gate, _ = tr.Cfg["gate"].(bool)
		var accts []int
		for _, a := range tr.Cfg["accts"].([]interface{}) {
			accts = append(accts, mbt.Int(a))
			r.ledger[evmutil.Addr(evmutil.Key(mbt.Int(a)))] = 0
		}
		var keys []string
		for _, k := range tr.Cfg["keys"].([]interface{}) {
			keys = append(keys, mbt.Str(k))
		}
		maxn := mbt.Int(tr.Cfg["maxn"])
		rc := routines[ti%len(routines)]
		if v, ok := tr.Cfg["routines"]; ok {
			rc = mbt.Int(v)
		}
		if rc < 0 {
			rc = defaultRoutines // the package default: runtime.NumCPU()
		}
		evm.VerifSetValidateRoutines(rc)
		r.routines = rc
		var items []item
		inBlock := false
		hh := fnv.New32a()
		hh.Write([]byte(tr.ID))
		vseed := int(hh.Sum32() % 100003)
		for si, st := range tr.Steps {
			if r.aborted {
				break
			}
			rep.Steps++
			switch st.A {
			case "Begin":
				items = nil
				inBlock = true
			case "ExecTx":
				t := evmutil.ParseATx(st.Args[0])
				// the same abstract transaction is the same signed bytes throughout one behaviour (variants differ between behaviours)
				th := fnv.New32a()
				th.Write([]byte(t.String()))
				variant := vseed + int(th.Sum32()%9973)
				if len(st.Args) > 2 {
					variant = mbt.Int(st.Args[2])
				}
				items = append(items, item{t: t, known: true, want: mbt.Str(st.Args[1]), raw: evmutil.Concretize(t, variant), stepIx: si})
			case "Commit":
				r.runBlock(si, items, true)
				inBlock = false
				items = nil
				if !r.aborted && r.model && st.Post != nil {
					r.compareModel(si, st.Post, accts, keys, maxn)
				}
			case "Mutants":
				r.runBlock(si, r.mutants(int64(mbt.Int(st.Args[0])), mbt.Int(st.Args[1])), true)
			default:
				r.fail(si, st.A, "error", false, "", "unknown action", nil, nil)
			}
		}
		if !r.aborted && inBlock && len(items) > 0 {
			r.runBlock(len(tr.Steps)-1, items, false)
		}
		node.Close()
		if r.twin != nil {
			r.twin.Close()
		}
	}
	rep.Extra["distinct_class_results"] = len(classes)
	var cl []string
	for c := range classes {
		cl = append(cl, c)
	}
	rep.Extra["class_results"] = mbt.SortedStrings(cl)
	rep.Emit()
}
