// Replays behaviours of specs/valset/ValSet.tla on the real types.ValidatorSet (C16) and evaluates the
// property's statements directly on the real objects, independently of the model.
//
// usage: valset <traces.json>
// Each trace: cfg {N}, init {sets:[{mem,pw,ac,...},...]}, steps
//
//	Increment(s,k) Copy(s,t) Add(s,i,p,r) Update(s,i,p,r) Remove(s,i,r) Reload(s) GetProposer(s,r) GetTotal(s,r)
//
// with the spec state after the step.
//
// Independent oracles (Failure.Property = true, keys in brackets):
//
//	[BatchedEqualsRepeated] IncrementAccum(k) == k x IncrementAccum(1) in accums, proposer and hash
//	[Proportional]          every window of TotalVotingPower consecutive selections of an unchanged set selects
//	                        each validator exactly VotingPower times (window kept by the driver, not the model)
//	[Determinism]           a replica rebuilt from genesis with single increments only, no copies, no reloads,
//	                        agrees on validators, accums, hash and proposer
//	[CopyIndependent]       Proposer() of every set equals that set's own entry; scribbling on returned values and
//	                        on arguments after the call changes nothing
//	[SortedNoDup]           Validators strictly ascending by address
//	[ReloadPreservesProposer] [ReloadPreservesSet] State.Save / LoadState round trip and the crash-recovery path
//	                        SaveIntermediate / LoadState / LoadIntermediate keep proposer, validators, hash
package main

import (
	"bytes"
	"fmt"
	"os"
	"sort"
	"time"

	crypto "github.com/dappledger/AnnChain/gemmill/go-crypto"
	dbm "github.com/dappledger/AnnChain/gemmill/modules/go-db"
	glog "github.com/dappledger/AnnChain/gemmill/modules/go-log"
	sm "github.com/dappledger/AnnChain/gemmill/state"
	"github.com/dappledger/AnnChain/gemmill/types"

	"go.uber.org/zap"

	"verifharness/mbt"
)

type ident struct {
	priv crypto.PrivKeyEd25519
	pub  crypto.PubKey
	addr []byte
}

var identCache = map[int][]ident{}

// idents returns n identities in address order: spec id i (1-based) = idents(n)[i-1].
func idents(n int) []ident {
	if v, ok := identCache[n]; ok {
		return v
	}
	var ks []ident
	for i := 0; i < n; i++ {
		pk := crypto.GenPrivKeyEd25519FromSecret([]byte(fmt.Sprintf("verif-valset-%d", i)))
		ks = append(ks, ident{pk, pk.PubKey(), pk.PubKey().Address()})
	}
	sort.Slice(ks, func(a, b int) bool { return bytes.Compare(ks[a].addr, ks[b].addr) < 0 })
	identCache[n] = ks
	return ks
}

type op struct {
	kind string // inc add upd rem
	k    int64
	i    int
	p    int64
}

type world struct {
	n      int
	ids    []ident
	byAddr map[string]int // address -> spec id
	real   []*types.ValidatorSet
	hist   [][]op                // per slot: operations since genesis (for the shadow replica)
	shadow []*types.ValidatorSet // per slot: independent replica
	win    [][]int               // per slot: proposers selected since the set was built / last changed
	pris   []bool                // per slot: unchanged since NewValidatorSet
	taint  []bool                // per slot: reloaded since the last IncrementAccum / mutation (known finding)
	kept   []bool                // per slot: a reload kept the proposer although the model says it changes (drift)
	genMem []int
	genPw  []int64
	order  int
}

func (w *world) newSet(mem []int, pw []int64, order int) *types.ValidatorSet {
	vals := make([]*types.Validator, 0, len(mem))
	for _, i := range mem {
		vals = append(vals, types.NewValidator(w.ids[i-1].pub, pw[i-1], true))
	}
	// NewValidatorSet must sort: hand the validators over in a trace-dependent order
	switch order % 3 {
	case 1:
		for a, b := 0, len(vals)-1; a < b; a, b = a+1, b-1 {
			vals[a], vals[b] = vals[b], vals[a]
		}
	case 2:
		if len(vals) > 1 {
			vals = append(vals[1:], vals[0])
		}
	}
	return types.NewValidatorSet(vals)
}

// applyOp performs one mutation the way plugin/admin_op.go does; returns the reply.
func (w *world) applyOp(vs *types.ValidatorSet, o op) bool {
	var id ident
	if o.i > 0 {
		id = w.ids[o.i-1]
	}
	switch o.kind {
	case "inc":
		for j := int64(0); j < o.k; j++ {
			vs.IncrementAccum(1)
		}
		return true
	case "add":
		return vs.Add(types.NewValidator(id.pub, o.p, true))
	case "upd":
		_, val := vs.GetByAddress(id.addr)
		if val == nil {
			return vs.Update(types.NewValidator(id.pub, o.p, true))
		}
		val.VotingPower = o.p
		return vs.Update(val)
	case "rem":
		_, ok := vs.Remove(id.addr)
		return ok
	}
	panic("bad op")
}

func (w *world) rebuildShadow(s int) {
	vs := w.newSet(w.genMem, w.genPw, 0)
	for _, o := range w.hist[s] {
		w.applyOp(vs, o)
	}
	w.shadow[s] = vs
}

type proj struct {
	obs      map[string]interface{}
	internal map[string]interface{}
	propID   int
	total    int64
}

// project maps a real set onto the spec record. Observation never mutates the set itself (Proposer() and
// TotalVotingPower() fill caches, so they are asked of a copy).
func (w *world) project(vs *types.ValidatorSet) (p proj, problems []string) {
	mem := []int{}
	pw := make([]int64, w.n)
	ac := make([]int64, w.n)
	for k, v := range vs.Validators {
		id, ok := w.byAddr[string(v.Address)]
		if !ok {
			problems = append(problems, fmt.Sprintf("SortedNoDup: unknown validator address %X", v.Address))
			continue
		}
		if k > 0 && bytes.Compare(vs.Validators[k-1].Address, v.Address) >= 0 {
			problems = append(problems, fmt.Sprintf("SortedNoDup: validators not strictly ascending by address at index %d", k))
		}
		if !bytes.Equal(v.PubKey.Address(), v.Address) {
			problems = append(problems, fmt.Sprintf("SortedNoDup: validator %d address does not belong to its key", id))
		}
		mem = append(mem, id)
		pw[id-1] = v.VotingPower
		ac[id-1] = v.Accum
	}
	c := vs.VerifCache()
	cp := vs.Copy()
	pr := cp.Proposer()
	p.total = cp.TotalVotingPower()
	if pr != nil {
		p.propID = w.byAddr[string(pr.Address)]
		_, own := vs.GetByAddress(pr.Address)
		if own == nil {
			problems = append(problems, fmt.Sprintf("CopyIndependent: Proposer() %X is not a member of the set", pr.Address))
		} else if own.Accum != pr.Accum || own.VotingPower != pr.VotingPower || !own.PubKey.Equals(pr.PubKey) || own.IsCA != pr.IsCA {
			problems = append(problems, fmt.Sprintf("CopyIndependent: Proposer() returns %v but the set's own entry is %v", pr, own))
		}
	}
	cached := 0
	if c.ProposerCached {
		cached = w.byAddr[string(c.ProposerAddress)]
		if !c.ProposerOwn {
			problems = append(problems, "CopyIndependent: cached proposer points at a validator object of another set")
		}
	}
	p.obs = map[string]interface{}{"mem": mbt.SortedInts(mem), "pw": pw, "ac": ac, "proposer": p.propID, "total": p.total}
	p.internal = map[string]interface{}{"prop": cached, "tvp": c.TotalCached}
	return
}

func specProposer(S map[string]interface{}) int {
	if p := mbt.Int(S["prop"]); p != 0 {
		return p
	}
	ac := S["ac"].([]interface{})
	best := 0
	for _, m := range S["mem"].([]interface{}) {
		i := mbt.Int(m)
		if best == 0 || mbt.Int(ac[i-1]) > mbt.Int(ac[best-1]) {
			best = i
		}
	}
	return best
}

func specTotal(S map[string]interface{}) int64 {
	var t int64
	for _, p := range S["pw"].([]interface{}) {
		t += int64(mbt.Int(p))
	}
	return t
}

// reload persists the set exactly as a node does (state.State.Save, go-wire, then LoadState) and returns what
// a restarted node gets back.
func (w *world) reload(vs *types.ValidatorSet) (*types.ValidatorSet, error) {
	db := dbm.NewMemDB()
	gen := &types.GenesisDoc{GenesisTime: time.Unix(1500000000, 0), ChainID: "verif-valset"}
	for _, i := range w.genMem {
		gen.Validators = append(gen.Validators, types.GenesisValidator{PubKey: w.ids[i-1].pub, Amount: w.genPw[i-1], IsCA: true})
	}
	st := sm.MakeGenesisState(db, gen)
	st.LastValidators = st.Validators
	st.Validators = vs
	st.LastBlockHeight = 7
	st.Save()
	st2 := sm.LoadState(db)
	if st2 == nil || st2.Validators == nil {
		return nil, fmt.Errorf("LoadState returned nothing")
	}
	return st2.Validators, nil
}

// reloadIntermediate is the crash-recovery round trip: the state of height 6 is saved, the next state (validators vs) only
// reaches SaveIntermediate (crash before Save), the restarted process loads the saved state and completes the interrupted
// commit with LoadIntermediate (angine.completeInterruptedCommit).
func (w *world) reloadIntermediate(vs *types.ValidatorSet) (*types.ValidatorSet, error) {
	db := dbm.NewMemDB()
	gen := &types.GenesisDoc{GenesisTime: time.Unix(1500000000, 0), ChainID: "verif-valset"}
	for _, i := range w.genMem {
		gen.Validators = append(gen.Validators, types.GenesisValidator{PubKey: w.ids[i-1].pub, Amount: w.genPw[i-1], IsCA: true})
	}
	st := sm.MakeGenesisState(db, gen)
	st.LastValidators = st.Validators
	st.LastBlockHeight = 6
	st.Save()
	next := st.Copy()
	next.LastValidators = st.Validators.Copy()
	next.Validators = vs
	next.LastBlockHeight = 7
	next.SaveIntermediate()
	st2 := sm.LoadState(db)
	if st2 == nil || st2.Validators == nil {
		return nil, fmt.Errorf("LoadState returned nothing")
	}
	st2.LoadIntermediate()
	if st2.LastBlockHeight != 7 || st2.Validators == nil {
		return nil, fmt.Errorf("LoadIntermediate left the state at height %d", st2.LastBlockHeight)
	}
	return st2.Validators, nil
}

func sameVals(a, b *types.ValidatorSet) string {
	if len(a.Validators) != len(b.Validators) {
		return fmt.Sprintf("sizes %d vs %d", len(a.Validators), len(b.Validators))
	}
	for i := range a.Validators {
		x, y := a.Validators[i], b.Validators[i]
		if !bytes.Equal(x.Address, y.Address) || x.VotingPower != y.VotingPower || x.Accum != y.Accum || !x.PubKey.Equals(y.PubKey) || x.IsCA != y.IsCA {
			return fmt.Sprintf("index %d: %v vs %v", i, x, y)
		}
	}
	if !bytes.Equal(a.Hash(), b.Hash()) {
		return fmt.Sprintf("hash %X vs %X", a.Hash(), b.Hash())
	}
	return ""
}

func main() {
	crypto.NodeInit(crypto.CryptoTypeZhongAn)
	glog.SetLog(zap.NewNop())
	if len(os.Args) < 2 {
		fmt.Fprintln(os.Stderr, "usage: valset traces.json")
		os.Exit(2)
	}
	traces, err := mbt.LoadTraces(os.Args[1])
	if err != nil {
		fmt.Fprintln(os.Stderr, "load:", err)
		os.Exit(2)
	}
	rep := mbt.NewReport()
	perKey := map[string]int{}
	for ti, tr := range traces {
		rep.Traces++
		n := mbt.Int(tr.Cfg["N"])
		w := &world{n: n, ids: idents(n), byAddr: map[string]int{}, order: ti}
		for i, id := range w.ids {
			w.byAddr[string(id.addr)] = i + 1
		}
		var cur mbt.Step
		si := -1
		fail := func(kind string, prop bool, key, detail string, want, got interface{}) {
			perKey[key]++
			rep.Counters["fail:"+key]++
			if perKey[key] > 3 {
				return
			}
			rep.Fail(mbt.Failure{Trace: ti, TraceID: tr.ID, Step: si, Action: fmt.Sprintf("%s%v", cur.A, cur.Args),
				Kind: kind, Property: prop, Key: key, Detail: detail, Want: want, Got: got})
		}
		initSets := tr.Init["sets"].([]interface{})
		slots := len(initSets)
		w.real = make([]*types.ValidatorSet, slots)
		w.shadow = make([]*types.ValidatorSet, slots)
		w.hist = make([][]op, slots)
		w.win = make([][]int, slots)
		w.pris = make([]bool, slots)
		w.taint = make([]bool, slots)
		w.kept = make([]bool, slots)
		g := initSets[0].(map[string]interface{})
		for _, m := range g["mem"].([]interface{}) {
			w.genMem = append(w.genMem, mbt.Int(m))
		}
		for _, p := range g["pw"].([]interface{}) {
			w.genPw = append(w.genPw, int64(mbt.Int(p)))
		}
		if pv, st := mbt.Catch(func() {
			w.real[0] = w.newSet(w.genMem, w.genPw, ti)
			w.rebuildShadow(0)
		}); pv != nil {
			fail("panic", true, "NewValidatorSet-panic", fmt.Sprintf("%v\n%s", pv, st), nil, nil)
			continue
		}
		w.pris[0] = true
		w.win[0] = []int{w.byAddr[string(w.real[0].Copy().Proposer().Address)]}

		// compare every live slot with the spec state, and evaluate the state oracles
		compare := func(post map[string]interface{}) bool {
			ok := true
			want := post["sets"].([]interface{})
			for s := 0; s < slots; s++ {
				S := want[s].(map[string]interface{})
				live := S["live"].(bool)
				if live != (w.real[s] != nil) {
					fail("error", false, "slot-liveness", fmt.Sprintf("slot %d liveness differs", s+1), live, w.real[s] != nil)
					return false
				}
				if !live {
					continue
				}
				var p proj
				var problems []string
				if pv, st := mbt.Catch(func() { p, problems = w.project(w.real[s]) }); pv != nil {
					fail("panic", true, "observe-panic", fmt.Sprintf("slot %d: %v\n%s", s+1, pv, st), nil, nil)
					return false
				}
				rep.Checks++
				for _, pr := range problems {
					key := pr[:bytes.IndexByte([]byte(pr), ':')]
					fail("property", true, key, fmt.Sprintf("slot %d: %s", s+1, pr), nil, nil)
					ok = false
				}
				wObs := map[string]interface{}{"mem": S["mem"], "pw": S["pw"], "ac": S["ac"], "proposer": specProposer(S), "total": specTotal(S)}
				if w.kept[s] {
					// the code preserved the proposer over a reload, the model (written for the unexported cache) does not
					wObs["proposer"] = p.propID
				}
				if ks := mbt.DiffKeys(mbt.Norm(mbt.Canon(wObs)).(map[string]interface{}), mbt.Canon(p.obs).(map[string]interface{})); len(ks) > 0 {
					fail("mismatch", true, "state:"+ks[0], fmt.Sprintf("slot %d: observable state differs on %v", s+1, ks), wObs, p.obs)
					ok = false
				}
				wInt := map[string]interface{}{"prop": S["prop"], "tvp": S["tvp"]}
				if w.kept[s] {
					wInt["prop"] = p.internal["prop"]
				}
				if ks := mbt.DiffKeys(mbt.Norm(wInt).(map[string]interface{}), mbt.Canon(p.internal).(map[string]interface{})); len(ks) > 0 {
					fail("mismatch", false, "internal:"+ks[0], fmt.Sprintf("slot %d: cache differs on %v", s+1, ks), wInt, p.internal)
					ok = false
				}
				// determinism: the replica that went through every round singly, never copied, never reloaded
				rep.Checks++
				if d := sameVals(w.real[s], w.shadow[s]); d != "" {
					fail("property", true, "Determinism", fmt.Sprintf("slot %d: replica with the same history disagrees: %s", s+1, d), nil, nil)
					ok = false
				}
				if !w.taint[s] {
					sp := w.byAddr[string(w.shadow[s].Copy().Proposer().Address)]
					if sp != p.propID {
						fail("property", true, "Determinism", fmt.Sprintf("slot %d: replica with the same history selects proposer %d, this set %d", s+1, sp, p.propID), sp, p.propID)
						ok = false
					}
				}
				// handed-out values are copies: scribble on them
				if _, v := w.real[s].GetByIndex(0); v != nil {
					v.Accum += 1000
					v.VotingPower += 50
				}
				if _, v := w.real[s].GetByAddress(w.real[s].Validators[0].Address); v != nil {
					v.Accum -= 1000
					v.VotingPower += 50
				}
				w.real[s].Iterate(func(i int, v *types.Validator) bool { v.Accum = 12345; v.VotingPower = 77; return false })
				if pr := w.real[s].Copy().Proposer(); pr != nil {
					pr.Accum = 999
				}
				var p2 proj
				mbt.Catch(func() { p2, _ = w.project(w.real[s]) })
				if !mbt.Equal(mbt.Canon(p.obs), mbt.Canon(p2.obs)) {
					fail("property", true, "CopyIndependent", fmt.Sprintf("slot %d: changing values returned by GetByIndex/GetByAddress/Iterate/Proposer changed the set", s+1), p.obs, p2.obs)
					ok = false
				}
			}
			return ok
		}

		if !compare(tr.Init) {
			continue
		}
		for k, st := range tr.Steps {
			si, cur = k, st
			rep.Steps++
			s := mbt.Int(st.Args[0]) - 1
			vs := w.real[s]
			abort := false
			pv, stack := mbt.Catch(func() {
				switch st.A {
				case "Increment":
					kk := int64(mbt.Int(st.Args[1]))
					single := vs.Copy()
					var sel []int
					for j := int64(0); j < kk; j++ {
						single.IncrementAccum(1)
						sel = append(sel, w.byAddr[string(single.Copy().Proposer().Address)])
					}
					vs.IncrementAccum(kk)
					rep.Checks++
					if d := sameVals(vs, single); d != "" {
						fail("property", true, "BatchedEqualsRepeated", fmt.Sprintf("IncrementAccum(%d) differs from %d x IncrementAccum(1): %s", kk, kk, d), nil, nil)
					}
					a, b := vs.Copy().Proposer().Address, single.Copy().Proposer().Address
					if !bytes.Equal(a, b) {
						fail("property", true, "BatchedEqualsRepeated", fmt.Sprintf("IncrementAccum(%d) selects another proposer than %d x IncrementAccum(1)", kk, kk), w.byAddr[string(b)], w.byAddr[string(a)])
					}
					w.hist[s] = append(w.hist[s], op{kind: "inc", k: kk})
					w.applyOp(w.shadow[s], op{kind: "inc", k: kk})
					w.taint[s] = false
					w.kept[s] = false
					w.win[s] = append(w.win[s], sel...)
					if w.pris[s] {
						T := int(vs.Copy().TotalVotingPower())
						// every full window that ends at one of the new selections
						for e := len(w.win[s]) - len(sel) + 1; e <= len(w.win[s]); e++ {
							if e < T {
								continue
							}
							cnt := map[int]int64{}
							for _, x := range w.win[s][e-T : e] {
								cnt[x]++
							}
							rep.Checks++
							rep.Count("windows")
							for _, v := range vs.Validators {
								id := w.byAddr[string(v.Address)]
								if cnt[id] != v.VotingPower {
									fail("property", true, "Proportional", fmt.Sprintf("in %d consecutive selections %v validator %d (power %d) was proposer %d times", T, w.win[s][e-T:e], id, v.VotingPower, cnt[id]), v.VotingPower, cnt[id])
								}
							}
						}
						if len(w.win[s]) > 4*T {
							w.win[s] = append([]int(nil), w.win[s][len(w.win[s])-T:]...)
						}
					}
				case "Copy":
					t := mbt.Int(st.Args[1]) - 1
					w.real[t] = vs.Copy()
					w.hist[t] = append([]op(nil), w.hist[s]...)
					w.rebuildShadow(t)
					w.win[t] = append([]int(nil), w.win[s]...)
					w.pris[t] = w.pris[s]
					w.taint[t] = w.taint[s]
					w.kept[t] = w.kept[s]
				case "Add", "Update", "Remove":
					i := mbt.Int(st.Args[1])
					o := op{i: i}
					var want bool
					id := w.ids[i-1]
					var got bool
					switch st.A {
					case "Add":
						o.kind, o.p, want = "add", int64(mbt.Int(st.Args[2])), st.Args[3].(bool)
						val := types.NewValidator(id.pub, o.p, true)
						got = vs.Add(val)
						val.Accum += 7 // the argument must have been copied
						val.VotingPower += 7
					case "Update":
						o.kind, o.p, want = "upd", int64(mbt.Int(st.Args[2])), st.Args[3].(bool)
						_, val := vs.GetByAddress(id.addr)
						if val == nil {
							val = types.NewValidator(id.pub, o.p, true)
						}
						val.VotingPower = o.p
						got = vs.Update(val)
						val.Accum += 7
						val.VotingPower += 7
					case "Remove":
						o.kind, want = "rem", st.Args[2].(bool)
						_, before := vs.GetByAddress(id.addr)
						var rv *types.Validator
						rv, got = vs.Remove(id.addr)
						if got && (rv == nil || before == nil || !bytes.Equal(rv.Address, id.addr) || rv.Accum != before.Accum || rv.VotingPower != before.VotingPower) {
							fail("property", true, "Remove-value", "Remove returned another validator than the one removed", before, rv)
						}
						if !got && rv != nil {
							fail("property", true, "Remove-value", "Remove returned a validator although nothing was removed", nil, rv)
						}
					}
					rep.Checks++
					if got != want {
						fail("mismatch", true, st.A+"-result", "reply differs", want, got)
						abort = true
					}
					if got {
						w.hist[s] = append(w.hist[s], o)
						if sg := w.applyOp(w.shadow[s], o); !sg {
							fail("property", true, "Determinism", "replica with the same history refused the same mutation", true, sg)
						}
						w.pris[s] = false
						w.win[s] = nil
						w.taint[s] = false
						w.kept[s] = false
					}
				case "Reload":
					before := vs.Copy()
					pb := before.Proposer().Address
					r, err := w.reload(vs)
					rep.Checks++
					rep.Count("reloads")
					if err != nil {
						fail("property", true, "ReloadPreservesSet", "persist/load failed: "+err.Error(), nil, nil)
						abort = true
						return
					}
					if d := sameVals(before, r); d != "" {
						fail("property", true, "ReloadPreservesSet", "validators/hash differ after State.Save + LoadState: "+d, nil, nil)
					}
					pa := r.Copy().Proposer().Address
					if !bytes.Equal(pa, pb) {
						rep.Count("reload_proposer_changed")
						fail("property", true, "ReloadPreservesProposer", fmt.Sprintf("accums %v: Proposer() is validator %d before State.Save and validator %d after LoadState", accs(before), w.byAddr[string(pb)], w.byAddr[string(pa)]), w.byAddr[string(pb)], w.byAddr[string(pa)])
						w.taint[s] = true
					} else if specProposer(st.Post["sets"].([]interface{})[s].(map[string]interface{})) != w.byAddr[string(pb)] {
						w.kept[s] = true
						fail("mismatch", false, "internal:reload-keeps-proposer", "the code preserved the proposer over State.Save + LoadState; ValSet.tla still models the unexported cache that is lost", nil, nil)
					}
					w.real[s] = r
					// the same set through the crash-recovery path (SaveIntermediate / LoadIntermediate)
					ri, err := w.reloadIntermediate(before.Copy())
					rep.Checks++
					rep.Count("reloads_intermediate")
					if err != nil {
						fail("property", true, "ReloadPreservesSet", "SaveIntermediate/LoadIntermediate failed: "+err.Error(), nil, nil)
					} else {
						if d := sameVals(before, ri); d != "" {
							fail("property", true, "ReloadPreservesSet", "validators/hash differ after SaveIntermediate + LoadState + LoadIntermediate: "+d, nil, nil)
						}
						if pi := ri.Copy().Proposer().Address; !bytes.Equal(pi, pb) {
							fail("property", true, "ReloadPreservesProposer", fmt.Sprintf("accums %v: Proposer() is validator %d before SaveIntermediate and validator %d after crash recovery (LoadState + LoadIntermediate)", accs(before), w.byAddr[string(pb)], w.byAddr[string(pi)]), w.byAddr[string(pb)], w.byAddr[string(pi)])
						}
					}
				case "GetProposer":
					want := mbt.Int(st.Args[1])
					got := w.byAddr[string(vs.Proposer().Address)]
					rep.Checks++
					if got != want && !w.kept[s] {
						fail("mismatch", true, "GetProposer-result", "Proposer() differs", want, got)
					}
				case "GetTotal":
					want := int64(mbt.Int(st.Args[1]))
					got := vs.TotalVotingPower()
					rep.Checks++
					if got != want {
						fail("mismatch", true, "GetTotal-result", "TotalVotingPower() differs", want, got)
					}
				default:
					fail("error", false, "unknown-action", "unknown action "+st.A, nil, nil)
					abort = true
				}
			})
			if pv != nil {
				fail("panic", true, st.A+"-panic", fmt.Sprintf("%v\n%s", pv, stack), nil, nil)
				break
			}
			if abort || !compare(st.Post) {
				break
			}
		}
	}
	rep.Emit()
}

func accs(vs *types.ValidatorSet) []int64 {
	var a []int64
	for _, v := range vs.Validators {
		a = append(a, v.Accum)
	}
	return a
}
