package main

import (
	"fmt"
	"time"

	crypto "github.com/dappledger/AnnChain/gemmill/go-crypto"

	"verifharness/evmutil"
)

func main() {
	crypto.NodeInit(crypto.CryptoTypeZhongAn)
	for i := 0; i < 5; i++ {
		t0 := time.Now()
		n, err := evmutil.NewNode(10)
		if err != nil {
			panic(err)
		}
		t1 := time.Now()
		b := evmutil.MakeBlock(1, [][]byte{evmutil.Concretize(evmutil.ATx{C: "xfer", A: 1, N: 0}, 0)})
		n.Execute(b)
		t2 := time.Now()
		n.Commit(b)
		t3 := time.Now()
		n.Restart()
		t4 := time.Now()
		n.Close()
		t5 := time.Now()
		fmt.Println("new", t1.Sub(t0), "exec", t2.Sub(t1), "commit", t3.Sub(t2), "restart", t4.Sub(t3), "close", t5.Sub(t4))
	}
}
