// raftfsm binds specs/raftmode/RaftMode.tla to the real raft-mode node.
//
//	raftfsm <traces.json>         replay TLC behaviours
//	raftfsm cluster <out.json> …  run a live 3-node cluster and record what every FSM applied (cluster.go)
//
// Replay: every replica of a behaviour is a REAL raft-mode node assembled by the production code
// (gemmill.VerifAsmNew -> buildState -> assembleStateMachine with consensus = "raft": LevelDB block store
// and state, completeInterruptedCommit, the blockchain reactor's height adjustment, raft.NewConsensusState
// with its bolt stores and TCP transport, then ConnectApp -> RecoverFromCrash) around the real EVM
// application on LevelDB.  The hashicorp/raft instance inside is a bystander (the replica is not a voter of
// its own cluster file, so it never campaigns): the driver plays raft's part, i.e. it owns the committed log
// and calls BlockChainFSM.Apply / Snapshot / Restore exactly as raft's FSM goroutine would (raft.Log entries
// with the bytes a leader hands to rawRaft.Apply, produced by the real createProposalBlock + sign).
//
// Apply runs on its own goroutine and is stopped at the durable-write failpoints (gemmill/verifhook.DurableFn)
// that separate the steps of the specification.  Crash(r) abandons the incarnation while it is stopped in front
// of a write -- the write and everything after it never happen, which is what kill -9 at that point leaves
// behind (the hooks run application callbacks on goroutines of their own, so a panic could not be caught; the
// stopped goroutine is simply never resumed) -- closes every database handle and Restart(r) assembles a new
// node on the same directories.  After every step the replica's store / state / application heights and block
// identities are compared with the specification's state.
package main

import (
	"bytes"
	"encoding/hex"
	"encoding/json"
	"fmt"
	"io"
	"io/ioutil"
	"math/rand"
	"os"
	"path/filepath"
	"regexp"
	"strings"
	"sync"
	"time"

	hraft "github.com/hashicorp/raft"

	"github.com/dappledger/AnnChain/chain/app/evm"
	rtypes "github.com/dappledger/AnnChain/chain/types"
	"github.com/dappledger/AnnChain/eth/rlp"
	"github.com/dappledger/AnnChain/gemmill"
	"github.com/dappledger/AnnChain/gemmill/archive"
	"github.com/dappledger/AnnChain/gemmill/blockchain"
	araft "github.com/dappledger/AnnChain/gemmill/consensus/raft"
	wire "github.com/dappledger/AnnChain/gemmill/go-wire"
	dbm "github.com/dappledger/AnnChain/gemmill/modules/go-db"
	"github.com/dappledger/AnnChain/gemmill/p2p"
	"github.com/dappledger/AnnChain/gemmill/refuse_list"
	"github.com/dappledger/AnnChain/gemmill/state"
	gtypes "github.com/dappledger/AnnChain/gemmill/types"
	"github.com/dappledger/AnnChain/gemmill/verifhook"

	"verifharness/chainutil"
	"verifharness/evmutil"
	"verifharness/mbt"
)

var realStdout = os.Stdout

const waitMax = 40 * time.Second

// ---------------------------------------------------------------------------------------------
// durable-write gate

var itemRe = regexp.MustCompile(`^(H|P|C|SC):\d+`)

func classOf(site string, key []byte) string {
	k := string(key)
	if strings.HasPrefix(site, "gldb") {
		switch {
		case k == "" && site == "gldb.BatchWrite":
			return "batch"
		case k == "":
			return "flush"
		case itemRe.MatchString(k):
			return "items"
		}
		switch k {
		case "blockStore":
			return "desc"
		case "stateIntermediateKey":
			return "inter"
		case "stateIntermediateKey.proposer":
			return "interp"
		case "stateKey":
			return "stsave"
		case "stateKey.proposer":
			return "stsavep"
		case "lastblock":
			return "applast"
		case "lastreceipts":
			return "lastrcpt"
		}
		return "other"
	}
	if strings.HasPrefix(site, "ethdb") {
		return "appdata"
	}
	return "other"
}

type writeEv struct{ site, key, class string }

type applyCtl struct {
	stopClass string
	stopAfter int
	seen      int
	pausedCh  chan writeEv
	resume    chan struct{}
	done      chan applyRes
	writes    []string
	paused    bool
}

type applyRes struct {
	ret   interface{}
	pnc   interface{}
	stack string
}

var gate struct {
	mu    sync.Mutex
	cur   *replica
	stray int
}

func durable(site string, key []byte) error {
	gate.mu.Lock()
	r := gate.cur
	if r == nil {
		gate.stray++
		gate.mu.Unlock()
		select {} // a write by an abandoned incarnation: it died, the write never happens
	}
	c := r.ctl
	if c == nil {
		r.asmWrites++
		gate.mu.Unlock()
		return nil
	}
	cl := classOf(site, key)
	c.seen++
	stop := (c.stopClass != "" && cl == c.stopClass) || (c.stopAfter > 0 && c.seen >= c.stopAfter)
	if !stop {
		c.writes = append(c.writes, cl)
		gate.mu.Unlock()
		return nil
	}
	c.stopClass, c.stopAfter = "", 0
	gate.mu.Unlock()
	c.pausedCh <- writeEv{site, string(key), cl}
	<-c.resume
	gate.mu.Lock()
	c.writes = append(c.writes, cl)
	gate.mu.Unlock()
	return nil
}

// ---------------------------------------------------------------------------------------------
// replica

type replica struct {
	id   int
	key  *chainutil.Key
	base string
	inc  int
	gen  *gtypes.GenesisDoc
	all  []*chainutil.Key

	up   bool
	app  *evm.EVMApp
	ang  *gemmill.Angine
	cs   *araft.ConsensusState
	fsm  *araft.BlockChainFSM
	dbs  map[string]dbm.DB
	conf interface{}

	ctl          *applyCtl
	asmWrites    int
	snapBytes    []byte // newest snapshot this replica holds (its own or an installed one)
	drainOnClose bool
	curIdx       int
}

type memSink struct{ bytes.Buffer }

func (s *memSink) ID() string    { return "verif" }
func (s *memSink) Cancel() error { return nil }
func (s *memSink) Close() error  { return nil }

func writeClusterFile(rt string, self *chainutil.Key, voters []*chainutil.Key, binds []string, selfBind string) error {
	cc := araft.ClusterConfig{Local: araft.Peer{PubKey: self.Pub, RPC: "127.0.0.1:1", Bind: selfBind}}
	for i, k := range voters {
		cc.Peers = append(cc.Peers, araft.Peer{PubKey: k.Pub, RPC: "127.0.0.1:1", Bind: binds[i]})
	}
	return ioutil.WriteFile(filepath.Join(rt, "raft-cluster.json"), wire.JSONBytesPretty(&cc), 0644)
}

// assemble builds one incarnation of a raft-mode node on the replica's directories.
func (r *replica) assemble(voters []*chainutil.Key, binds []string, selfBind string, emptyInterval string) error {
	r.inc++
	rt := filepath.Join(r.base, fmt.Sprintf("rt%d", r.inc))
	if err := os.MkdirAll(rt, 0700); err != nil {
		return err
	}
	conf := chainutil.Conf(rt, false)
	dbDir := filepath.Join(r.base, "data")
	conf.Set("db_backend", "leveldb")
	conf.Set("db_dir", dbDir)
	conf.Set("db_archive_dir", filepath.Join(r.base, "arch"))
	conf.Set("consensus", "raft")
	conf.Set("raft.empty_block_interval", emptyInterval)
	conf.Set("block_size", 100)
	for _, d := range []string{dbDir, filepath.Join(r.base, "arch")} {
		if err := os.MkdirAll(d, 0700); err != nil {
			return err
		}
	}
	if err := writeClusterFile(rt, r.key, voters, binds, selfBind); err != nil {
		return err
	}
	app, err := evm.NewEVMApp(conf)
	if err != nil {
		return fmt.Errorf("NewEVMApp: %v", err)
	}
	if err := app.Start(); err != nil {
		return fmt.Errorf("EVMApp.Start: %v", err)
	}
	dbs := map[string]dbm.DB{
		"state":       dbm.NewDB("state", "leveldb", dbDir),
		"blockstore":  dbm.NewDB("blockstore", "leveldb", dbDir),
		"archive":     dbm.NewDB("blockstore", "leveldb", filepath.Join(r.base, "arch")),
		"votechannel": dbm.NewDB("votechannel", "leveldb", dbDir),
	}
	sw := p2p.NewSwitch(conf)
	sw.SetNodeInfo(&p2p.NodeInfo{PubKey: r.key.Pub, Moniker: r.key.Name, Network: chainutil.ChainID, Version: "0.9.0", ListenAddr: "127.0.0.1:0"})
	sw.SetNodePrivKey(r.key.Priv)
	sw.SetExchangeData(&p2p.ExchangeData{GenesisJSON: r.gen.JSONBytes()})
	parts := &gemmill.VerifAsmParts{
		Conf:          conf,
		Genesis:       r.gen,
		PrivValidator: r.key.PrivValidator(),
		Switch:        sw,
		DBs:           dbs,
		RefuseList:    refuse_list.NewRefuseList("memdb", dbDir),
		Archive:       archive.NewArchive("memdb", dbDir, 0),
	}
	r.app, r.dbs = app, dbs
	ang, err := gemmill.VerifAsmNew(app, parts)
	if err != nil {
		return fmt.Errorf("assemble: %v", err)
	}
	r.ang = ang
	if ang.VerifAsmState() == nil {
		return fmt.Errorf("state machine not assembled")
	}
	ang.ConnectApp(app) // RecoverFromCrash
	app.SetCore(ang)
	if _, err := ang.VerifAsmEvents().Start(); err != nil {
		return err
	}
	r.cs = ang.VerifRaftConsensus()
	if r.cs == nil {
		return fmt.Errorf("not a raft-mode node")
	}
	r.fsm = r.cs.VerifFSM()
	r.up = true
	return nil
}

// start = process start: assembly, then raft restores its newest snapshot into the FSM (NewRaft.restoreSnapshot).
func (r *replica) start() (err error, pnc interface{}, stack string) {
	gate.mu.Lock()
	gate.cur = r
	r.ctl = nil
	gate.mu.Unlock()
	pnc, stack = mbt.Catch(func() {
		err = r.assemble(phantoms, []string{"127.0.0.1:1", "127.0.0.1:2"}, "127.0.0.1:0", "1ms")
		if err == nil && r.snapBytes != nil {
			err = r.fsm.Restore(ioutil.NopCloser(bytes.NewReader(r.snapBytes)))
		}
	})
	if err != nil || pnc != nil {
		r.release()
	}
	return
}

var phantoms = []*chainutil.Key{chainutil.NewKey("phantom-1"), chainutil.NewKey("phantom-2")}

// release closes whatever the current incarnation holds (also after a "crash": the stopped goroutine keeps
// references to closed handles and is never resumed).
func (r *replica) release() {
	gate.mu.Lock()
	if gate.cur == r {
		gate.cur = nil
	}
	gate.mu.Unlock()
	r.up = false
	r.ctl = nil
	r.stopRaft()
	mbt.Catch(func() { // (after raft: an Apply in flight still needs the execute / commit hooks)
		if r.ang != nil {
			r.ang.VerifAsmEvents().Stop()
		}
	})
	mbt.Catch(func() {
		if r.ang != nil {
			r.ang.Destroy()
		} else {
			for _, d := range r.dbs {
				d.Close()
			}
		}
	})
	mbt.Catch(func() {
		if r.app != nil {
			r.app.Stop()
		}
	})
	r.app, r.ang, r.cs, r.fsm, r.dbs = nil, nil, nil, nil, nil
}

// stopRaft shuts the node's raft instance down and waits for it: afterwards no FSM.Apply is running.
func (r *replica) stopRaft() {
	mbt.Catch(func() {
		if r.cs != nil {
			// raft.Shutdown waits for its FSM goroutine; an Apply in flight blocks on appliedCh, which run() stops
			// reading once the raft state is Shutdown: take the hand-offs while shutting down (live cluster only)
			stop := make(chan struct{})
			if r.drainOnClose {
				go func(ch <-chan *gtypes.Block) {
					for {
						select {
						case <-ch:
						case <-stop:
							return
						}
					}
				}(r.fsm.AppliedCh())
			}
			r.cs.VerifClose()
			close(stop)
		}
	})
	r.cs = nil
}

type obs struct {
	Desc, MStore          int64
	StkH, MStateH, InterH int64
	StkLast, MStateLast   string
	StkApp, MStateApp     string
	InterLast             string
	AppH                  int64
	AppHash               string
	Blocks                map[int64]string
}

func hx(b []byte) string { return strings.ToUpper(hex.EncodeToString(b)) }

func loadInter(db dbm.DB) *state.State {
	buf := db.Get([]byte("stateIntermediateKey"))
	if len(buf) == 0 {
		return nil
	}
	s := &state.State{}
	r, n, err := bytes.NewReader(buf), new(int), new(error)
	wire.ReadBinaryPtr(&s, r, 0, n, err)
	if *err != nil {
		return nil
	}
	return s
}

func (r *replica) observe() (o obs) {
	o.Desc = blockchain.LoadBlockStoreStateJSON(r.dbs["blockstore"]).Height
	store := r.ang.VerifAsmStore()
	o.MStore = store.Height()
	if st := state.LoadState(r.dbs["state"]); st != nil {
		o.StkH, o.StkLast, o.StkApp = st.LastBlockHeight, hx(st.LastBlockID.Hash), hx(st.AppHash)
	}
	fs := r.fsm.VerifState()
	o.MStateH, o.MStateLast, o.MStateApp = fs.LastBlockHeight, hx(fs.LastBlockID.Hash), hx(fs.AppHash)
	if in := loadInter(r.dbs["state"]); in != nil {
		o.InterH, o.InterLast = in.LastBlockHeight, hx(in.LastBlockID.Hash)
	}
	info := r.app.Info()
	o.AppH, o.AppHash = info.LastBlockHeight, hx(info.LastBlockAppHash)
	o.Blocks = map[int64]string{}
	for h := int64(1); h <= o.Desc; h++ {
		var b *gtypes.Block
		if p, _ := mbt.Catch(func() { b = store.LoadBlock(h) }); p != nil || b == nil {
			o.Blocks[h] = "unreadable"
		} else {
			o.Blocks[h] = hx(b.Hash())
		}
	}
	return
}

func (r *replica) nonce(k int) (uint64, error) {
	res := r.app.Query(append([]byte{rtypes.QueryType_Nonce}, evmutil.Addr(evmutil.Key(k)).Bytes()...))
	if res.Code != gtypes.CodeType_OK {
		return 0, fmt.Errorf("query nonce: %v %s", res.Code, res.Log)
	}
	var v uint64
	err := rlp.DecodeBytes(res.Data, &v)
	return v, err
}

// ---------------------------------------------------------------------------------------------
// one behaviour

type sim struct {
	rep      *mbt.Report
	ti       int
	tr       mbt.Trace
	dir      string
	reps     []*replica
	keys     []*chainutil.Key
	gen      *gtypes.GenesisDoc
	log      [][]byte
	hashOf   map[int]string
	rootHash map[string]string
	execAt   map[int64]string // height -> block the application of some replica executed there first
	execBy   map[int64]int
	rng      *rand.Rand
	si       int
	act      string
	dead     bool // stop replaying this behaviour
	reexec   bool
	variants bool
}

func (s *sim) fail(key, kind string, property bool, detail string, want, got interface{}) {
	s.rep.Fail(mbt.Failure{Trace: s.ti, TraceID: s.tr.ID, Step: s.si, Action: s.act, Kind: kind, Property: property,
		Key: key, Detail: detail, Want: want, Got: got})
}

func (s *sim) harness(detail string) {
	s.fail("raft:harness", "error", false, detail, nil, nil)
	s.dead = true
}

func at(v interface{}, r int) interface{} {
	switch x := v.(type) {
	case []interface{}:
		if r-1 < len(x) {
			return x[r-1]
		}
	case map[string]interface{}:
		return x[fmt.Sprint(r)]
	}
	return nil
}

func ints(v interface{}) []int {
	var out []int
	if l, ok := v.([]interface{}); ok {
		for _, x := range l {
			out = append(out, mbt.Int(x))
		}
	}
	return out
}

func rootKey(ids []int) string { b, _ := json.Marshal(ids); return string(b) }

func (s *sim) hashOfID(id int) string {
	if id == 0 {
		return ""
	}
	return s.hashOf[id]
}

// check compares replica r with the specification's state after the current step.
func (s *sim) check(r *replica, post map[string]interface{}) {
	if !r.up {
		return
	}
	var o obs
	if p, st := mbt.Catch(func() { o = r.observe() }); p != nil {
		s.fail("raft:observe-panic", "panic", true, fmt.Sprintf("reading replica %d: %v\n%s", r.id, p, st), nil, nil)
		s.dead = true
		return
	}
	s.rep.Checks++
	id := r.id
	cmpI := func(field string, want int, got int64, prop bool) {
		if int64(want) != got {
			s.fail("raft:"+field, "mismatch", prop, fmt.Sprintf("replica %d after %s: %s is %d, specification says %d (observed %+v)", id, s.act, field, got, want, o), want, got)
		}
	}
	cmpS := func(field string, want, got string, prop bool) {
		if want != got {
			s.fail("raft:"+field, "mismatch", prop, fmt.Sprintf("replica %d after %s: %s is %s, specification says %s", id, s.act, field, got, want), want, got)
		}
	}
	stk := at(post["stk"], id).(map[string]interface{})
	ms := at(post["mState"], id).(map[string]interface{})
	appIDs := ints(at(post["app"], id))
	cmpI("store-descriptor-height", mbt.Int(at(post["desc"], id)), o.Desc, true)
	cmpI("store-height", mbt.Int(at(post["mStore"], id)), o.MStore, true)
	cmpI("saved-state-height", mbt.Int(stk["h"]), o.StkH, true)
	cmpI("state-height", mbt.Int(ms["h"]), o.MStateH, true)
	cmpI("app-height", len(appIDs), o.AppH, true)
	cmpS("saved-state-last-block", s.hashOfID(mbt.Int(stk["last"])), o.StkLast, true)
	cmpS("state-last-block", s.hashOfID(mbt.Int(ms["last"])), o.MStateLast, true)
	in := at(post["inter"], id).(map[string]interface{})
	cmpI("intermediate-height", mbt.Int(in["h"]), o.InterH, false)
	cmpS("intermediate-last-block", s.hashOfID(mbt.Int(in["blk"])), o.InterLast, false)
	// application roots: one hash per sequence of executed blocks, whoever executes it and however often it restarts
	root := func(field string, ids []int, got string) {
		if len(ids) == 0 {
			return // before the first block the state carries the genesis document's AppHash, the application its empty trie root
		}
		k := rootKey(ids)
		if w, ok := s.rootHash[k]; !ok {
			s.rootHash[k] = got
		} else if w != got {
			s.fail("raft:"+field, "mismatch", true, fmt.Sprintf("replica %d after %s: %s after executing blocks %s is %s, but %s was obtained for the same blocks before", id, s.act, field, k, got, w), w, got)
		}
	}
	root("app-hash", appIDs, o.AppHash)
	// all replicas execute the same block at the same height (judged on the observations alone)
	if h := o.AppH; h > 0 && h <= o.Desc {
		got := o.Blocks[h] // the application committed the block its node stored at that height
		if w, ok := s.execAt[h]; !ok {
			s.execAt[h], s.execBy[h] = got, id
		} else if w != got {
			s.fail("raft:replicas-executed-different-blocks", "property", true, fmt.Sprintf("replica %d stored and executed block %s at height %d, replica %d block %s", id, got, h, s.execBy[h], w), w, got)
		}
	}
	root("app-hash", ints(stk["root"]), o.StkApp)
	root("app-hash", ints(ms["root"]), o.MStateApp)
	items := ints(at(post["items"], id))
	for h := int64(1); h <= o.Desc && int(h) <= len(items); h++ {
		cmpS("stored-block", s.hashOfID(items[h-1]), o.Blocks[h], true)
	}
	// every transaction of every executed block exactly once: block h carries nonce 0 of accounts 1000+h (and 2000+h)
	// (asked only while no Apply is in progress: the query answers from the executed, not yet committed state)
	for h := 1; r.ctl == nil && h <= len(s.log)+1 && h <= 8; h++ {
		want := uint64(0)
		if h <= int(o.AppH) {
			want = 1
		}
		if n, err := r.nonce(1000 + h); err != nil {
			s.fail("raft:nonce-query", "error", false, err.Error(), nil, nil)
		} else if n != want {
			s.fail("raft:tx-not-exactly-once", "property", true, fmt.Sprintf("replica %d after %s: application at height %d, account of block %d has nonce %d, want %d", id, s.act, o.AppH, h, n, want), want, n)
		}
	}
}

func txsFor(h int64) [][]byte {
	out := [][]byte{evmutil.SignedTx(evmutil.Key(1000+int(h)), 0, &evmutil.PlainTo, 0, 21000, 0, nil)}
	if h%2 == 0 {
		out = append(out, evmutil.SignedTx(evmutil.Key(2000+int(h)), 0, &evmutil.PlainTo, 0, 1000000, 0,
			evmutil.KVPayload([]byte(fmt.Sprintf("k%d", h)), []byte(fmt.Sprintf("v%d", h)))))
	}
	return out
}

func (s *sim) waitEv(c *applyCtl) (ev *writeEv, res *applyRes) {
	select {
	case e := <-c.pausedCh:
		c.paused = true
		return &e, nil
	case d := <-c.done:
		return nil, &d
	case <-time.After(waitMax):
		return nil, nil
	}
}

func (s *sim) nextIsCrash(r int) bool {
	for k := s.si + 1; k < len(s.tr.Steps); k++ {
		st := s.tr.Steps[k]
		if len(st.Args) > 0 && mbt.Int(st.Args[0]) == r {
			return st.A == "Crash"
		}
	}
	return false
}

// advance resumes the stopped Apply of r until the first write of class `next` (or, when the behaviour crashes
// r next and variants are on, possibly earlier: before the n-th write after the one it was stopped at).
func (s *sim) advance(r *replica, next string) {
	c := r.ctl
	if c == nil || !c.paused {
		s.harness(fmt.Sprintf("replica %d: no Apply stopped at a write", r.id))
		return
	}
	gate.mu.Lock()
	gate.cur = r
	c.stopClass, c.stopAfter, c.seen = next, 0, 0
	if s.variants && next != "" && s.nextIsCrash(r.id) && s.rng.Intn(3) > 0 {
		c.stopAfter = 1 + s.rng.Intn(9)
		s.rep.Count("crash-inside-step")
	}
	c.paused = false
	gate.mu.Unlock()
	c.resume <- struct{}{}
	if next == "" {
		return
	}
	ev, res := s.waitEv(c)
	switch {
	case ev != nil:
		s.rep.Count("stop:" + ev.class)
	case res != nil:
		s.applyEnded(r, res, "before the "+next+" write")
	default:
		s.harness(fmt.Sprintf("replica %d: Apply neither reached the %s write nor returned", r.id, next))
	}
}

func (s *sim) applyEnded(r *replica, res *applyRes, where string) {
	if res.pnc != nil {
		s.fail("raft:apply-panic", "panic", true, fmt.Sprintf("replica %d: FSM.Apply panicked %s: %v\n%s", r.id, where, res.pnc, res.stack), nil, nil)
	} else {
		s.fail("raft:apply-returned", "mismatch", true, fmt.Sprintf("replica %d: FSM.Apply returned %v %s (the specification is inside Apply); writes so far %v", r.id, res.ret, where, r.ctl.writes), nil, fmt.Sprint(res.ret))
	}
	r.ctl = nil
	s.dead = true
}

func (s *sim) step(st mbt.Step) {
	s.act = fmt.Sprintf("%s%v", st.A, st.Args)
	rid := 0
	if len(st.Args) > 0 {
		rid = mbt.Int(st.Args[0])
	}
	var r *replica
	if rid >= 1 && rid <= len(s.reps) {
		r = s.reps[rid-1]
	}
	s.rep.Count("a:" + st.A)
	switch st.A {
	case "Elect", "SwitchOn", "LoopLeader", "ProposeLost":
		// raft's election and the control flow of ConsensusState.run are not driven here (cluster mode runs them)
	case "Propose":
		postLog := st.Post["log"].([]interface{})
		e := postLog[len(postLog)-1].(map[string]interface{})
		gate.mu.Lock()
		gate.cur = r
		gate.mu.Unlock()
		fs := r.fsm.VerifState()
		h := fs.LastBlockHeight + 1
		for _, tx := range txsFor(h) {
			r.app.GetTxPool().ReceiveTx(tx)
		}
		var b *gtypes.Block
		var data []byte
		if p, stk := mbt.Catch(func() { b, data = r.cs.VerifPropose() }); p != nil {
			s.fail("raft:propose-panic", "panic", true, fmt.Sprintf("replica %d createProposalBlock: %v\n%s", rid, p, stk), nil, nil)
			s.dead = true
			return
		}
		s.log = append(s.log, data)
		id := len(s.log)
		s.hashOf[id] = hx(b.Hash())
		if int64(mbt.Int(e["h"])) != b.Height || s.hashOfID(mbt.Int(e["par"])) != hx(b.LastBlockID.Hash) || mbt.Int(e["by"]) != rid {
			s.fail("raft:proposal-not-on-applied-block", "property", true, fmt.Sprintf("replica %d proposed height %d on %s; its last applied block is height %d %s (specification: h=%v par=%v)",
				rid, b.Height, hx(b.LastBlockID.Hash), fs.LastBlockHeight, hx(fs.LastBlockID.Hash), e["h"], e["par"]), e, map[string]interface{}{"h": b.Height, "par": hx(b.LastBlockID.Hash)})
		}
		if r.ctl == nil && len(b.Data.Txs) != len(txsFor(h)) { // (while a block is being applied the pool may already have dropped them)
			s.fail("raft:proposal-txs", "mismatch", false, fmt.Sprintf("replica %d proposed %d transactions at height %d, %d were offered", rid, len(b.Data.Txs), h, len(txsFor(h))), nil, nil)
		}
	case "Deliver":
		want := mbt.Str(st.Args[1])
		idx := mbt.Int(at(st.Post["dl"], rid)) - 1
		if idx < 1 || idx > len(s.log) {
			s.harness(fmt.Sprintf("Deliver of entry %d, log has %d", idx, len(s.log)))
			return
		}
		c := &applyCtl{pausedCh: make(chan writeEv), resume: make(chan struct{}), done: make(chan applyRes, 1), stopAfter: 1}
		gate.mu.Lock()
		gate.cur = r
		r.ctl = c
		gate.mu.Unlock()
		r.curIdx = idx
		fsm, data := r.fsm, s.log[idx-1]
		go func() {
			var ret interface{}
			p, stk := mbt.Catch(func() { ret = fsm.Apply(&hraft.Log{Index: uint64(idx), Term: 1, Type: hraft.LogCommand, Data: data}) })
			c.done <- applyRes{ret, p, stk}
		}()
		ev, res := s.waitEv(c)
		drop := want == "dup" || want == "behind"
		switch {
		case ev == nil && res == nil:
			s.harness(fmt.Sprintf("replica %d: Apply of entry %d neither wrote nor returned", rid, idx))
		case drop && res != nil && res.pnc == nil && res.ret == nil:
			r.ctl = nil
		case drop && res != nil:
			s.applyEnded(r, res, "for an entry the specification drops ("+want+")")
		case want == "behind":
			s.fail("raft:applied-entry-behind-snapshot", "property", true, fmt.Sprintf("replica %d: raft restored a snapshot of height %v, the block store is at %v, yet FSM.Apply starts storing entry %d (block %s, %s %s): "+
				"the entries between the store and the snapshot were never delivered, this one may be a duplicate proposal of a height the cluster already decided",
				rid, at(st.Post["minH"], rid), at(st.Post["mStore"], rid), idx, s.hashOf[idx], ev.site, ev.key), "behind", "apply")
			s.dead = true
		case want == "dup":
			s.fail("raft:duplicate-entry-applied", "property", true, fmt.Sprintf("replica %d: entry %d (block %s) is dropped by the specification (store height %v) but FSM.Apply starts writing (%s %s)",
				rid, idx, s.hashOf[idx], at(st.Post["mStore"], rid), ev.site, ev.key), "dup", "apply")
			s.dead = true
		case res != nil && res.pnc != nil:
			s.applyEnded(r, res, "at once")
		case res != nil:
			s.fail("raft:entry-dropped", "property", true, fmt.Sprintf("replica %d: entry %d (block %s) is the next block for the specification (store height %v + 1) but FSM.Apply returned %v without storing it",
				rid, idx, s.hashOf[idx], at(st.Post["mStore"], rid), res.ret), "apply", "dup")
			r.ctl = nil
			s.dead = true
		case ev.class != "items":
			s.fail("raft:first-write", "mismatch", false, fmt.Sprintf("replica %d: first durable write of Apply is %s %s, expected a block-store record", rid, ev.site, ev.key), nil, nil)
		}
	case "W_Items":
		s.advance(r, "desc")
	case "W_Desc":
		s.advance(r, "inter")
	case "W_Inter":
		s.advance(r, "applast")
	case "W_AppLast":
		s.advance(r, "stsave")
	case "W_StSave":
		c := r.ctl
		s.advance(r, "")
		if s.dead {
			return
		}
		h := int64(mbt.Int(at(st.Post["mState"], rid).(map[string]interface{})["h"]))
		dl := time.Now().Add(waitMax)
		for r.fsm.VerifState().LastBlockHeight != h {
			select {
			case res := <-c.done:
				s.applyEnded(r, &res, "before handing the block over")
				return
			default:
			}
			if time.Now().After(dl) {
				s.harness(fmt.Sprintf("replica %d: state not replaced after Save", rid))
				return
			}
			time.Sleep(2 * time.Millisecond)
		}
		time.Sleep(5 * time.Millisecond)
		select {
		case res := <-c.done:
			s.fail("raft:no-handoff", "mismatch", true, fmt.Sprintf("replica %d: Apply returned %v without handing the block to appliedCh", rid, res.ret), nil, nil)
			r.ctl = nil
		default:
		}
	case "Hand":
		c := r.ctl
		if c == nil {
			s.harness("Hand without Apply")
			return
		}
		select {
		case b := <-r.fsm.AppliedCh():
			if hx(b.Hash()) != s.hashOf[r.curIdx] {
				s.fail("raft:handed-block", "mismatch", true, fmt.Sprintf("replica %d handed over block %s, applied entry %d is %s", rid, hx(b.Hash()), r.curIdx, s.hashOf[r.curIdx]), nil, nil)
			}
		case <-time.After(waitMax):
			s.harness(fmt.Sprintf("replica %d: nothing on appliedCh", rid))
			return
		}
		select {
		case res := <-c.done:
			if res.pnc != nil || res.ret != nil {
				s.fail("raft:apply-result", "mismatch", true, fmt.Sprintf("replica %d: Apply of entry %d ended with %v %v", rid, r.curIdx, res.ret, res.pnc), nil, nil)
			}
			s.rep.Extra["writes_per_apply"] = c.writes
		case <-time.After(waitMax):
			s.harness("Apply did not return after the hand-off")
		}
		r.ctl = nil
	case "Snapshot":
		var err error
		p, stk := mbt.Catch(func() {
			var sn hraft.FSMSnapshot
			if sn, err = r.fsm.Snapshot(); err == nil {
				sink := &memSink{}
				if err = sn.Persist(sink); err == nil {
					r.snapBytes = append([]byte(nil), sink.Bytes()...)
				}
				sn.Release()
			}
		})
		if p != nil || err != nil {
			s.fail("raft:snapshot-failed", "panic", true, fmt.Sprintf("replica %d Snapshot/Persist: %v %v\n%s", rid, err, p, stk), nil, nil)
		}
		fs := r.fsm.VerifState()
		if want := fmt.Sprintf("%d-%x", fs.LastBlockHeight, fs.LastBlockID.Hash); string(r.snapBytes) != want {
			s.fail("raft:snapshot-content", "mismatch", false, fmt.Sprintf("snapshot is %q, state is %q", r.snapBytes, want), want, string(r.snapBytes))
		}
	case "InstallSnap":
		ld := s.reps[mbt.Int(st.Post["leader"])-1]
		if ld.snapBytes == nil {
			s.harness("leader has no snapshot")
			return
		}
		r.snapBytes = append([]byte(nil), ld.snapBytes...)
		gate.mu.Lock()
		gate.cur = r
		gate.mu.Unlock()
		var err error
		if p, stk := mbt.Catch(func() { err = r.fsm.Restore(ioutil.NopCloser(bytes.NewReader(r.snapBytes))) }); p != nil || err != nil {
			s.fail("raft:restore-failed", "panic", true, fmt.Sprintf("replica %d Restore: %v %v\n%s", rid, err, p, stk), nil, nil)
		}
	case "Crash":
		if c := r.ctl; c != nil && !c.paused {
			// Apply is blocked on appliedCh (pc = hand) -- nothing is being written
			s.rep.Count("crash:hand")
		} else if c != nil {
			s.rep.Count("crash:in-apply")
		} else {
			s.rep.Count("crash:idle")
		}
		r.release()
	case "Restart":
		want := mbt.Str(st.Args[1])
		err, p, stk := r.start()
		got := "ok"
		if err != nil || p != nil {
			got = "panic"
		}
		if got != want {
			s.fail("raft:restart-"+got, "property", true, fmt.Sprintf("replica %d restart: %v %v (specification: %s)\n%s", rid, err, p, want, stk), want, got)
			s.dead = true
			return
		}
	default:
		s.harness("unknown action " + st.A)
		return
	}
	if s.dead {
		return
	}
	for _, x := range s.reps {
		if x == r || st.A == "Propose" {
			s.check(x, st.Post)
		}
	}
}

// reexecute replays the chain stored by replica r on a fresh raft-mode node through FSM.Apply and compares
// the resulting state with r's: every AppHash / ReceiptsHash recorded in a header is validated on the way.
func (s *sim) reexecute(r *replica) {
	store := r.ang.VerifAsmStore()
	H := store.Height()
	if H == 0 {
		return
	}
	f := &replica{id: 100 + r.id, key: r.key, base: filepath.Join(s.dir, fmt.Sprintf("fresh%d", r.id)), gen: s.gen}
	if err, p, stk := f.start(); err != nil || p != nil {
		s.harness(fmt.Sprintf("fresh node: %v %v %s", err, p, stk))
		return
	}
	defer f.release()
	for h := int64(1); h <= H; h++ {
		b := store.LoadBlock(h)
		data := wire.BinaryBytes(b)
		done := make(chan interface{}, 1)
		go func() {
			var ret interface{}
			if p, _ := mbt.Catch(func() { ret = f.fsm.Apply(&hraft.Log{Index: uint64(h), Term: 1, Type: hraft.LogCommand, Data: data}) }); p != nil {
				ret = p
			}
			done <- ret
		}()
		select {
		case <-f.fsm.AppliedCh():
			<-done
		case ret := <-done:
			s.fail("raft:reexecution", "property", true, fmt.Sprintf("re-executing the chain of replica %d on a fresh node fails at height %d: %v", r.id, h, ret), nil, nil)
			return
		case <-time.After(waitMax):
			s.harness("fresh node stuck")
			return
		}
	}
	a, b := r.fsm.VerifState(), f.fsm.VerifState()
	if a.LastBlockHeight != b.LastBlockHeight || !bytes.Equal(a.AppHash, b.AppHash) || !bytes.Equal(a.ReceiptsHash, b.ReceiptsHash) || !bytes.Equal(a.LastBlockID.Hash, b.LastBlockID.Hash) {
		s.fail("raft:reexecution-differs", "property", true, fmt.Sprintf("replica %d: height %d app %X receipts %X; fresh re-execution of its chain: height %d app %X receipts %X",
			r.id, a.LastBlockHeight, a.AppHash, a.ReceiptsHash, b.LastBlockHeight, b.AppHash, b.ReceiptsHash), nil, nil)
	}
	s.rep.Count("reexecuted")
}

func runTrace(rep *mbt.Report, ti int, tr mbt.Trace) {
	n := mbt.Int(tr.Cfg["N"])
	dir, err := ioutil.TempDir("", "rf")
	if err != nil {
		panic(err)
	}
	defer os.RemoveAll(dir)
	s := &sim{rep: rep, ti: ti, tr: tr, dir: dir, hashOf: map[int]string{}, rootHash: map[string]string{}, execAt: map[int64]string{}, execBy: map[int64]int{}}
	seed := int64(1)
	if v, ok := tr.Cfg["Seed"]; ok {
		seed = int64(mbt.Int(v))
	}
	s.rng = rand.New(rand.NewSource(seed*7919 + int64(ti)))
	if v, ok := tr.Cfg["Reexec"]; ok {
		s.reexec = v == true
	}
	if v, ok := tr.Cfg["Variants"]; ok {
		s.variants = v == true
	}
	powers := make([]int64, n)
	for i := 0; i < n; i++ {
		s.keys = append(s.keys, chainutil.NewKey(fmt.Sprintf("raft-%d", i+1)))
		powers[i] = 1
	}
	s.gen = chainutil.Genesis(s.keys, powers, "")
	defer func() {
		for _, r := range s.reps {
			if r.up || r.ang != nil {
				r.release()
			}
		}
	}()
	for i := 0; i < n; i++ {
		r := &replica{id: i + 1, key: s.keys[i], base: filepath.Join(dir, fmt.Sprintf("r%d", i+1)), gen: s.gen, all: s.keys}
		s.reps = append(s.reps, r)
		if err, p, stk := r.start(); err != nil || p != nil {
			s.act = "Init"
			s.harness(fmt.Sprintf("initial start of replica %d: %v %v\n%s", i+1, err, p, stk))
			return
		}
	}
	s.act = "Init"
	for _, r := range s.reps {
		s.check(r, tr.Init)
	}
	for si, st := range tr.Steps {
		if s.dead {
			break
		}
		s.si = si
		s.step(st)
		rep.Steps++
	}
	if !s.dead && s.reexec {
		s.act = "end"
		for _, r := range s.reps {
			if r.up && (r.ctl == nil || !r.ctl.paused) {
				s.reexecute(r)
			}
		}
	}
}

func main() {
	devnull, _ := os.OpenFile(os.DevNull, os.O_WRONLY, 0)
	os.Stdout = devnull // raft.NewConsensusState prints its server list
	chainutil.Init()
	if len(os.Args) >= 2 && os.Args[1] == "cluster" {
		clusterMain(os.Args[2:])
		return
	}
	if len(os.Args) < 2 {
		fmt.Fprintln(os.Stderr, "usage: raftfsm <traces.json> | raftfsm cluster ...")
		os.Exit(2)
	}
	traces, err := mbt.LoadTraces(os.Args[1])
	if err != nil {
		fmt.Fprintln(os.Stderr, err)
		os.Exit(2)
	}
	verifhook.DurableFn = durable
	rep := mbt.NewReport()
	t0 := time.Now()
	for ti, tr := range traces {
		runTrace(rep, ti, tr)
		rep.Traces++
	}
	rep.Extra["wall_s"] = time.Since(t0).Seconds()
	gate.mu.Lock()
	rep.Extra["stray_writes"] = gate.stray
	gate.mu.Unlock()
	os.Stdout = realStdout
	rep.Emit()
}

var _ = io.EOF
