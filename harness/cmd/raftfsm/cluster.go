package main

// Cluster mode: a REAL three-node raft cluster in one process.  Every node is assembled by the production code
// with consensus = "raft" (raft.NewConsensusState: hashicorp/raft with bolt log/stable stores, file snapshots
// and the SecretTCPTransport on loopback ports), the real EVM application on LevelDB, and the real leader loop
// ConsensusState.run (started the way the blockchain reactor starts it: the SwitchToConsensus event).
//
// Scenario: blocks are produced until every node has applied `blocks` of them; the leader's node is shut down
// (raft Shutdown, databases closed); the two remaining nodes elect a leader and produce `blocks` more; the
// stopped node is assembled again on its directories -- hashicorp/raft delivers its log again from the start
// (no snapshot yet), then the entries it missed -- and must catch up.
//
// Recorded per node: one event per FSM.Apply that executed a block (onUpdateState: height, block hash,
// application hash).  Checked (the properties of RaftMode.tla on the recorded trace): per node the heights are
// consecutive and no height is executed twice, across the restart too (AppliedOnceInOrder); all nodes executed
// the same block and obtained the same application hash at the same height (Agreement); at the end store, state
// and application of every node agree (HeightsAgree); the stored chain is linear.

import (
	"bytes"
	"encoding/json"
	"flag"
	"fmt"
	"io/ioutil"
	"net"
	"os"
	"path/filepath"
	"sync"
	"time"

	hraft "github.com/hashicorp/raft"

	"github.com/dappledger/AnnChain/gemmill/state"
	gtypes "github.com/dappledger/AnnChain/gemmill/types"

	"verifharness/chainutil"
	"verifharness/mbt"
)

type applyEv struct {
	Node    int    `json:"node"`
	Inc     int    `json:"inc"`
	Height  int64  `json:"h"`
	Block   string `json:"block"`
	AppHash string `json:"app"`
}

type clusterOut struct {
	Events   []applyEv              `json:"events"`
	Leaders  []int                  `json:"leaders"`
	Final    map[string]interface{} `json:"final"`
	Failures []mbt.Failure          `json:"failures"`
	Notes    []string               `json:"notes"`
	WallS    float64                `json:"wall_s"`
	Dups     int                    `json:"duplicate_height_entries"`
}

func freeAddrs(n int) []string {
	var ls []net.Listener
	var out []string
	for i := 0; i < n; i++ {
		l, err := net.Listen("tcp", "127.0.0.1:0")
		if err != nil {
			panic(err)
		}
		ls = append(ls, l)
		out = append(out, l.Addr().String())
	}
	for _, l := range ls {
		l.Close()
	}
	return out
}

func clusterMain(args []string) {
	fs := flag.NewFlagSet("cluster", flag.ExitOnError)
	blocks := fs.Int("blocks", 3, "blocks per phase")
	timeout := fs.Int("timeout", 90, "seconds per phase")
	noRestart := fs.Bool("norestart", false, "skip the leader stop / restart phases")
	fs.Parse(args)
	t0 := time.Now()
	out := &clusterOut{Final: map[string]interface{}{}}
	fail := func(key, detail string, prop bool) {
		out.Failures = append(out.Failures, mbt.Failure{Action: "cluster", Kind: "property", Property: prop, Key: key, Detail: detail})
	}
	dir, err := ioutil.TempDir("", "rc")
	if err != nil {
		panic(err)
	}
	defer os.RemoveAll(dir)
	const n = 3
	var keys []*chainutil.Key
	for i := 0; i < n; i++ {
		keys = append(keys, chainutil.NewKey(fmt.Sprintf("raft-%d", i+1)))
	}
	gen := chainutil.Genesis(keys, []int64{1, 1, 1}, "")
	addrs := freeAddrs(n)
	var mu sync.Mutex
	nodes := make([]*replica, n)
	startNode := func(i int) error {
		r := nodes[i]
		if r == nil {
			r = &replica{id: i + 1, key: keys[i], base: filepath.Join(dir, fmt.Sprintf("n%d", i+1)), gen: gen, drainOnClose: true}
			nodes[i] = r
		}
		var err error
		if p, stk := mbt.Catch(func() { err = r.assemble(keys, addrs, addrs[i], "300ms") }); p != nil {
			return fmt.Errorf("panic: %v\n%s", p, stk)
		}
		if err != nil {
			return err
		}
		ang, inc := r.ang, r.inc
		r.cs.SetOnUpdateStatus(func(st *state.State) {
			mu.Lock()
			out.Events = append(out.Events, applyEv{i + 1, inc, st.LastBlockHeight, hx(st.LastBlockID.Hash), hx(st.AppHash)})
			mu.Unlock()
			ang.UpdateStateMachine(st)
		})
		gtypes.FireEventSwitchToConsensus(ang.VerifAsmEvents()) // what the blockchain reactor fires when it is caught up
		return nil
	}
	stopNode := func(i int) {
		r := nodes[i]
		r.release()
	}
	defer func() {
		for i := range nodes {
			if nodes[i] != nil && nodes[i].up {
				stopNode(i)
			}
		}
	}()
	for i := 0; i < n; i++ {
		if err := startNode(i); err != nil {
			fail("raft:cluster-start", fmt.Sprintf("node %d: %v", i+1, err), false)
			emitCluster(out, t0)
			return
		}
	}
	height := func(i int) int64 {
		mu.Lock()
		defer mu.Unlock()
		h := int64(0)
		for _, e := range out.Events {
			if e.Node == i+1 && e.Height > h {
				h = e.Height
			}
		}
		return h
	}
	leader := func() int {
		for i, r := range nodes {
			if r != nil && r.up && r.cs.VerifRaft().State() == hraft.Leader {
				return i
			}
		}
		return -1
	}
	offer := func(h int64) {
		for _, r := range nodes {
			if r != nil && r.up {
				for _, tx := range txsFor(h) {
					r.app.GetTxPool().ReceiveTx(tx)
				}
			}
		}
	}
	// produce until every node in `who` has applied height `target`
	produce := func(who []int, target int64, phase string) bool {
		dl := time.Now().Add(time.Duration(*timeout) * time.Second)
		offered := int64(0)
		for time.Now().Before(dl) {
			min, max := int64(1<<62), int64(0)
			for _, i := range who {
				h := height(i)
				if h < min {
					min = h
				}
				if h > max {
					max = h
				}
			}
			if min >= target {
				return true
			}
			if l := leader(); l >= 0 {
				if len(out.Leaders) == 0 || out.Leaders[len(out.Leaders)-1] != l+1 {
					out.Leaders = append(out.Leaders, l+1)
				}
				for offered < max+1 && offered < target {
					offered++
					offer(offered)
				}
			}
			time.Sleep(20 * time.Millisecond)
		}
		hs := []int64{}
		for i := range nodes {
			hs = append(hs, height(i))
		}
		// not a verdict: raft elections are timing dependent (1 s heartbeats on a loaded machine), and a leader that lost and
		// regained leadership while it was creating a block waits on appliedCh for good (LeaderNotStuck in RaftMode.tla)
		fail("raft:cluster-no-progress:"+phase, fmt.Sprintf("phase %s: heights %v after %ds, target %d (leader %d)", phase, hs, *timeout, target, leader()+1), false)
		return false
	}
	ok := produce([]int{0, 1, 2}, int64(*blocks), "start")
	if ok && !*noRestart {
		l := leader()
		if l < 0 {
			l = 0
		}
		out.Notes = append(out.Notes, fmt.Sprintf("stopping node %d (leader) at height %d", l+1, height(l)))
		stopNode(l)
		rest := []int{}
		for i := 0; i < n; i++ {
			if i != l {
				rest = append(rest, i)
			}
		}
		ok = produce(rest, int64(2**blocks), "leader-stopped")
		if ok {
			if err := startNode(l); err != nil {
				fail("raft:cluster-restart", fmt.Sprintf("node %d does not start again: %v", l+1, err), true)
				ok = false
			}
		}
		if ok {
			ok = produce([]int{0, 1, 2}, int64(3**blocks), "restarted")
		}
	}
	time.Sleep(300 * time.Millisecond)
	// ---- judge the recorded trace
	mu.Lock()
	evs := append([]applyEv(nil), out.Events...)
	mu.Unlock()
	last := map[int]int64{}
	at := map[int64]applyEv{}
	for _, e := range evs {
		if e.Height != last[e.Node]+1 {
			fail("raft:cluster-not-consecutive", fmt.Sprintf("node %d (incarnation %d) executed height %d after height %d", e.Node, e.Inc, e.Height, last[e.Node]), true)
		}
		last[e.Node] = e.Height
		if w, seen := at[e.Height]; !seen {
			at[e.Height] = e
		} else if w.Block != e.Block || w.AppHash != e.AppHash {
			fail("raft:cluster-disagree", fmt.Sprintf("height %d: node %d executed block %s (app %s), node %d block %s (app %s)", e.Height, w.Node, w.Block, w.AppHash, e.Node, e.Block, e.AppHash), true)
		}
	}
	for i, r := range nodes {
		if r == nil || !r.up {
			continue
		}
		r.stopRaft() // waits for an Apply in flight: the node is at rest, its databases still open
		var o obs
		if p, _ := mbt.Catch(func() { o = r.observe() }); p != nil {
			fail("raft:cluster-observe", fmt.Sprint(p), false)
			continue
		}
		out.Final[fmt.Sprint(i+1)] = map[string]interface{}{"store": o.MStore, "descriptor": o.Desc, "state": o.StkH, "app": o.AppH}
		if !(o.MStore == o.Desc && o.Desc == o.StkH && o.StkH == o.MStateH && o.AppH == o.StkH) {
			fail("raft:cluster-heights", fmt.Sprintf("node %d at rest: store %d/%d state %d/%d app %d", i+1, o.MStore, o.Desc, o.StkH, o.MStateH, o.AppH), true)
		}
		store := r.ang.VerifAsmStore()
		var prev []byte
		for h := int64(1); h <= o.Desc; h++ {
			b := store.LoadBlock(h)
			if b == nil {
				fail("raft:cluster-block-missing", fmt.Sprintf("node %d: block %d not readable", i+1, h), true)
				break
			}
			if h > 1 && !bytes.Equal(b.LastBlockID.Hash, prev) {
				fail("raft:cluster-not-linear", fmt.Sprintf("node %d: block %d does not build on stored block %d", i+1, h, h-1), true)
			}
			if e, okk := at[h]; okk && e.Block != hx(b.Hash()) {
				fail("raft:cluster-stored-differs", fmt.Sprintf("node %d stores %s at height %d, executed was %s", i+1, hx(b.Hash()), h, e.Block), true)
			}
			prev = b.Hash()
		}
	}
	emitCluster(out, t0)
}

func emitCluster(out *clusterOut, t0 time.Time) {
	out.WallS = time.Since(t0).Seconds()
	os.Stdout = realStdout
	b, _ := json.Marshal(out)
	fmt.Println(string(b))
}
