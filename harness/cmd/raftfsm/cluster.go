package main

import (
	"fmt"
	"os"
)

func clusterMain(args []string) {
	fmt.Fprintln(os.Stderr, "cluster mode not built yet")
	os.Exit(2)
}
