// Replays behaviours of specs/statedb/{Trie,StateDB}.tla on the real trie.Trie, trie.SecureTrie and
// state.StateDB (C11).
//
// usage: statedb <traces.json>
//
// THIS FILE IS THE SOURCE OF harness-ref/cmd/refstatedb/main.go: the reference driver is the same text
// with the import paths of the in-tree packages replaced by github.com/ethereum/go-ethereum (the two
// code bases cannot be linked into one binary).  tools/engines/c11.py regenerates the copy before it
// builds, so the two binaries always run the same checks on the same vectors; the engine compares the
// class -> root tables both print.
//
// trace kinds (cfg.kind):
//
//	trie      steps of Trie.tla; cfg.flavor = "trie" | "secure"; cfg.keymap, cfg.valmap choose the
//	          concretisation of abstract keys / value classes
//	triegraph cfg.graph = the TLC state graph of Trie.tla; every path of length <= cfg.depth from the
//	          initial state is executed (history independence over ALL bounded histories)
//	statedb   steps of StateDB.tla
package main

import (
	"bytes"
	"encoding/hex"
	"encoding/json"
	"fmt"
	"math/big"
	"math/rand"
	"os"
	"sort"
	"strings"

	"github.com/dappledger/AnnChain/eth/common"
	"github.com/dappledger/AnnChain/eth/core/state"
	"github.com/dappledger/AnnChain/eth/crypto"
	"github.com/dappledger/AnnChain/eth/ethdb"
	"github.com/dappledger/AnnChain/eth/rlp"
	"github.com/dappledger/AnnChain/eth/trie"

	"verifharness/mbt"
)

var rep = mbt.NewReport()

var emptyRoot = common.HexToHash("56e81f171bcc55a6ff8345e692c0f86e5b48e01b996cadc001622fb5e363b421")

// class -> root tables, printed for the cross-binary comparison
var classRoots = map[string]string{}
var rootClass = map[string]string{}
var rootTrace = map[string]int{} // class -> first trace that reached it
var curTrace int

type failer func(kind string, prop bool, key, detail string, want, got interface{})

// classRoot records that the abstract content `class` (within namespace ns) has real root `root` and checks
// that the root is a function of the content (same class => same root) and injective (other class => other root).
func classRoot(fail failer, ns, class string, root common.Hash) {
	k := ns + "|" + class
	r := root.Hex()
	rep.Checks++
	if old, ok := classRoots[k]; ok {
		if old != r {
			fail("property", true, "history-independence:"+strings.SplitN(ns, "/", 2)[0],
				"two histories ending in the same content give different roots; content "+k, old, r)
		}
	} else {
		classRoots[k] = r
		rootTrace[k] = curTrace
	}
	rk := ns + "|" + r
	if old, ok := rootClass[rk]; ok {
		if old != class {
			fail("property", true, "root-collision:"+strings.SplitN(ns, "/", 2)[0],
				"two different contents give the same root "+r, old, class)
		}
	} else {
		rootClass[rk] = class
	}
}

func canon(v interface{}) string {
	b, _ := json.Marshal(mbt.Norm(v)) // maps are marshalled with sorted keys
	return string(b)
}

// ---------------------------------------------------------------------------------------------
// concretisation of abstract keys and values

func hexb(s string) []byte {
	b, err := hex.DecodeString(s)
	if err != nil {
		panic(err)
	}
	return b
}

// keymaps: abstract key index (0-based, k1..k6) -> byte key.
//
//	0: variable length, k1 is a proper prefix of k2 and k5, k2 of k5 (value in the 17th slot of a branch),
//	   k3 shares 3 nibbles with k2, k4 shares 1 nibble, k6 none
//	1: 32-byte keys sharing 63, 62, 32, 1 and 0 nibbles with k1
//	2: one-byte keys and the EMPTY key
//	3: chain of prefix extensions 01, 0102, 010203, ...
//	>=4: six 32-byte keys, key i shares a seeded-random number (0..63) of nibbles with key 0
func keymap(id int) [][]byte {
	switch id {
	case 0:
		return [][]byte{hexb("12"), hexb("1234"), hexb("1235"), hexb("13"), hexb("123456"), hexb("20")}
	case 1:
		z := make([]byte, 32)
		mk := func(i int, v byte) []byte { c := append([]byte(nil), z...); c[i] = v; return c }
		return [][]byte{z, mk(31, 0x01), mk(31, 0x10), mk(16, 0x80), mk(0, 0x01), mk(0, 0x10)}
	case 2:
		return [][]byte{hexb("00"), hexb("01"), hexb("10"), {}, hexb("ff"), hexb("11")}
	case 3:
		return [][]byte{hexb("01"), hexb("0102"), hexb("010203"), hexb("01020304"), hexb("0102030405"), hexb("010203040506")}
	}
	r := rand.New(rand.NewSource(int64(id)))
	base := make([]byte, 32)
	r.Read(base)
	out := [][]byte{base}
	used := map[int]bool{}
	for len(out) < 6 {
		l := r.Intn(64)
		if used[l] {
			continue
		}
		used[l] = true
		k := append([]byte(nil), base...)
		// differ at nibble l, random afterwards
		for i := l/2 + 1; i < 32; i++ {
			k[i] = byte(r.Intn(256))
		}
		if l%2 == 0 {
			k[l/2] = (((base[l/2] >> 4) ^ 0x8) << 4) | byte(r.Intn(16))
		} else {
			k[l/2] = base[l/2]&0xf0 | ((base[l/2] & 0x0f) ^ 0x8)
		}
		out = append(out, k)
	}
	return out
}

// valmaps: value class (1..3) -> bytes.  0..4: both sides of the 32-byte limit and tiny values; 5..7: lengths that
// put the RLP of leaf / branch nodes at exactly 31, 32 and 33 bytes for the key shapes above (a node is embedded in
// its parent iff its encoding is shorter than 32 bytes); >= 8: seeded random lengths 1..40
func valmap(id int) [][]byte {
	rp := func(b byte, n int) []byte { return bytes.Repeat([]byte{b}, n) }
	switch id {
	case 0:
		return [][]byte{nil, []byte("a"), rp(0x62, 32), rp(0x63, 100)}
	case 1:
		return [][]byte{nil, rp(0x61, 31), rp(0x62, 33), {0x00}}
	case 2:
		return [][]byte{nil, []byte("x"), []byte("y"), []byte("z")}
	case 3:
		return [][]byte{nil, rp(0x61, 32), rp(0x62, 32), rp(0x63, 64)}
	case 4:
		return [][]byte{nil, rp(0x61, 20), rp(0x62, 7), rp(0x63, 56)}
	case 5:
		return [][]byte{nil, rp(0x61, 29), rp(0x62, 27), rp(0x63, 30)}
	case 6:
		return [][]byte{nil, rp(0x61, 28), rp(0x62, 26), rp(0x63, 25)}
	case 7:
		return [][]byte{nil, rp(0x61, 5), rp(0x62, 4), rp(0x63, 6)}
	}
	r := rand.New(rand.NewSource(int64(id)))
	out := [][]byte{nil}
	for i := 1; i <= 3; i++ {
		v := make([]byte, 1+r.Intn(40))
		r.Read(v)
		v[0] |= 1 // never the single byte 0x00 twice
		out = append(out, v)
	}
	return out
}

func keyIndex(name string) int { // "k3" -> 2
	return mbt.Int(json.Number(name[1:])) - 1
}

// ---------------------------------------------------------------------------------------------
// a uniform handle over trie.Trie and trie.SecureTrie

type handle struct {
	secure bool
	t      *trie.Trie
	s      *trie.SecureTrie
}

func openHandle(secure bool, root common.Hash, db *trie.Database) (*handle, error) {
	if secure {
		s, err := trie.NewSecure(root, db, 0)
		return &handle{secure: true, s: s}, err
	}
	t, err := trie.New(root, db)
	return &handle{t: t}, err
}

func (h *handle) copy() *handle {
	if h.secure {
		return &handle{secure: true, s: h.s.Copy()}
	}
	c := *h.t
	return &handle{t: &c}
}
func (h *handle) update(k, v []byte) error {
	if h.secure {
		return h.s.TryUpdate(k, v)
	}
	return h.t.TryUpdate(k, v)
}
func (h *handle) delete(k []byte) error {
	if h.secure {
		return h.s.TryDelete(k)
	}
	return h.t.TryDelete(k)
}
func (h *handle) get(k []byte) ([]byte, error) {
	if h.secure {
		return h.s.TryGet(k)
	}
	return h.t.TryGet(k)
}
func (h *handle) hash() common.Hash {
	if h.secure {
		return h.s.Hash()
	}
	return h.t.Hash()
}
func (h *handle) commit() (common.Hash, error) {
	if h.secure {
		return h.s.Commit(nil)
	}
	return h.t.Commit(nil)
}
func (h *handle) prove(k []byte, p ethdb.Putter) error {
	if h.secure {
		return h.s.Prove(k, 0, p)
	}
	return h.t.Prove(k, 0, p)
}
func (h *handle) proofKey(k []byte) []byte {
	if h.secure {
		return crypto.Keccak256(k)
	}
	return k
}
func (h *handle) iter() trie.NodeIterator {
	if h.secure {
		return h.s.NodeIterator(nil)
	}
	return h.t.NodeIterator(nil)
}

type nodeList [][]byte

func (n *nodeList) Put(key []byte, value []byte) error {
	*n = append(*n, append([]byte(nil), value...))
	return nil
}

// honestDB stores every proof node under the hash of its bytes, the way a verifier that received the
// node list over the wire does.
func honestDB(nodes [][]byte) *ethdb.MemDatabase {
	db := ethdb.NewMemDatabase()
	for _, n := range nodes {
		db.Put(crypto.Keccak256(n), n)
	}
	return db
}

// ---------------------------------------------------------------------------------------------
// Trie.tla

type trieEnv struct {
	secure  bool
	keys    [][]byte
	vals    [][]byte
	names   []string // k1..kn in use
	ns      string
	disk    *ethdb.MemDatabase
	tdb     *trie.Database
	h       *handle
	roots   map[string]common.Hash // committed content -> root
	fail    failer
	light   bool // graph mode: cheaper per-step checks
	stepTag int
}

func newTrieEnv(cfg map[string]interface{}, fail failer) *trieEnv {
	e := &trieEnv{fail: fail, roots: map[string]common.Hash{}}
	e.secure = cfg["flavor"] == "secure"
	km, vm := mbt.Int(cfg["keymap"]), mbt.Int(cfg["valmap"])
	e.keys = keymap(km)
	e.vals = valmap(vm)
	for _, k := range cfg["keys"].([]interface{}) {
		e.names = append(e.names, k.(string))
	}
	sort.Strings(e.names)
	fl := "trie"
	if e.secure {
		fl = "secure"
	}
	e.ns = fmt.Sprintf("%s/km%d/vm%d/%d", fl, km, vm, len(e.names))
	e.disk = ethdb.NewMemDatabase()
	e.tdb = trie.NewDatabase(e.disk)
	e.h, _ = openHandle(e.secure, common.Hash{}, e.tdb)
	return e
}

func (e *trieEnv) key(name string) []byte { return e.keys[keyIndex(name)] }

// checkContent compares Get of every key on h with the abstract content.
func (e *trieEnv) checkContent(h *handle, content map[string]interface{}, what string) bool {
	ok := true
	for _, name := range e.names {
		want := e.vals[mbt.Int(content[name])]
		got, err := h.get(e.key(name))
		rep.Checks++
		if err != nil {
			e.fail("property", true, "content:"+what+":error", fmt.Sprintf("%s: Get(%s) failed: %v", what, name, err), nil, err.Error())
			ok = false
		} else if !bytes.Equal(got, want) {
			e.fail("property", true, "content:"+what, fmt.Sprintf("%s: Get(%s) differs from the content", what, name), hex.EncodeToString(want), hex.EncodeToString(got))
			ok = false
		}
	}
	return ok
}

// freshCopy builds a new disk database holding only the nodes reachable from root and opens a trie on it.
func (e *trieEnv) reopenChecks(root common.Hash, content map[string]interface{}) {
	// (a) same trie.Database
	h2, err := openHandle(e.secure, root, e.tdb)
	if err != nil {
		e.fail("property", true, "reopen:same-db", "cannot open a trie at a committed root over the same database: "+err.Error(), nil, nil)
		return
	}
	e.checkContent(h2, content, "reopen-same-db")
	// (b) new cache layer over the same disk
	h3, err := openHandle(e.secure, root, trie.NewDatabase(e.disk))
	if err != nil {
		e.fail("property", true, "reopen:disk", "cannot open a trie at a committed root over the disk database: "+err.Error(), nil, nil)
		return
	}
	e.checkContent(h3, content, "reopen-disk")
	if e.light {
		return
	}
	// (c) fresh disk with only the nodes reachable from the root
	fresh := ethdb.NewMemDatabase()
	it := h3.iter()
	for it.Next(true) {
		if hh := it.Hash(); hh != (common.Hash{}) {
			if blob, err := e.disk.Get(hh[:]); err == nil {
				fresh.Put(hh[:], blob)
			}
		}
	}
	if it.Error() != nil {
		e.fail("property", true, "reopen:iterate", "node iterator failed on a committed trie: "+it.Error().Error(), nil, nil)
	}
	h4, err := openHandle(e.secure, root, trie.NewDatabase(fresh))
	if err != nil {
		e.fail("property", true, "reopen:fresh", "cannot open a trie at a committed root over a database holding exactly its nodes: "+err.Error(), nil, nil)
		return
	}
	e.checkContent(h4, content, "reopen-fresh-db")
	// rebuilding the content from nothing gives the same root, and so does re-hashing the reopened trie after a no-op change
	h5, _ := openHandle(e.secure, common.Hash{}, trie.NewDatabase(ethdb.NewMemDatabase()))
	for i := len(e.names) - 1; i >= 0; i-- {
		if c := mbt.Int(content[e.names[i]]); c != 0 {
			h5.update(e.key(e.names[i]), e.vals[c])
		}
	}
	rep.Checks++
	if r5 := h5.hash(); r5 != root {
		e.fail("property", true, "history-independence:rebuild", "content rebuilt from an empty trie has a different root", root.Hex(), r5.Hex())
	}
}

func (e *trieEnv) proveChecks(h *handle, name string, content map[string]interface{}) {
	key := e.key(name)
	root := h.hash()
	var nodes nodeList
	// SecureTrie.Prove takes the HASHED key (as StateDB.GetProof passes it)
	if err := h.prove(h.proofKey(key), &nodes); err != nil {
		e.fail("property", true, "prove:error", "Prove failed: "+err.Error(), nil, nil)
		return
	}
	want := e.vals[mbt.Int(content[name])]
	if root == emptyRoot {
		// as implemented (in-tree and reference alike): the empty trie has no nodes, Prove writes nothing and
		// VerifyProof has nothing to start from; absence in the empty trie is known from the root alone
		rep.Checks++
		rep.Count("proofs_empty_trie")
		if len(nodes) != 0 || len(want) != 0 {
			e.fail("property", true, "prove:empty-trie", "empty root but proof nodes / content present", nil, len(nodes))
		}
		return
	}
	pdb := honestDB(nodes)
	val, _, err := trie.VerifyProof(root, h.proofKey(key), pdb)
	rep.Checks++
	rep.Count("proofs")
	if err != nil {
		e.fail("property", true, "prove:verify-error", fmt.Sprintf("proof of %s does not verify against the root: %v", name, err), nil, nil)
		return
	}
	if !bytes.Equal(val, want) {
		e.fail("property", true, "prove:value", fmt.Sprintf("verified proof of %s yields a value different from the content", name), hex.EncodeToString(want), hex.EncodeToString(val))
	}
	if len(want) == 0 {
		rep.Count("proofs_absent")
	}
	if e.light {
		return
	}
	// soundness: whatever the same proof verifies for ANOTHER key must agree with the content
	for _, other := range e.names {
		if other == name {
			continue
		}
		v2, _, err2 := trie.VerifyProof(root, h.proofKey(e.key(other)), pdb)
		rep.Checks++
		if err2 == nil && !bytes.Equal(v2, e.vals[mbt.Int(content[other])]) {
			e.fail("property", true, "prove:unsound", fmt.Sprintf("proof of %s verifies a wrong value for %s", name, other), hex.EncodeToString(e.vals[mbt.Int(content[other])]), hex.EncodeToString(v2))
		}
	}
	// tampering: one byte of one node changed (node list re-hashed by the verifier), or one node dropped
	for i := range nodes {
		for _, pos := range []int{0, len(nodes[i]) / 2, len(nodes[i]) - 1} {
			t := make([][]byte, len(nodes))
			for j := range nodes {
				t[j] = append([]byte(nil), nodes[j]...)
			}
			t[i][pos] ^= 0x01
			var v3 []byte
			var err3 error
			p, _ := mbt.Catch(func() { v3, _, err3 = trie.VerifyProof(root, h.proofKey(key), honestDB(t)) })
			rep.Checks++
			rep.Count("tampered_proofs")
			if p != nil {
				e.fail("panic", true, "prove:tamper-panic", fmt.Sprintf("VerifyProof panicked on a tampered proof: %v", p), nil, nil)
			} else if err3 == nil {
				e.fail("property", true, "prove:tamper-accepted", fmt.Sprintf("proof of %s with byte %d of node %d flipped still verifies", name, pos, i), nil, hex.EncodeToString(v3))
			}
		}
		var t [][]byte
		for j := range nodes {
			if j != i {
				t = append(t, nodes[j])
			}
		}
		_, _, err4 := trie.VerifyProof(root, h.proofKey(key), honestDB(t))
		rep.Checks++
		if err4 == nil {
			e.fail("property", true, "prove:dropped-accepted", fmt.Sprintf("proof of %s with node %d removed still verifies", name, i), nil, nil)
		}
	}
	// against the root of ANOTHER committed content the same node list either fails to verify or - when that root
	// happens to be one of the nodes (a sub-trie of this content can be the whole trie of another) - yields what
	// that other content holds for the key
	for c, r := range e.roots {
		if r != root {
			v5, _, err5 := trie.VerifyProof(r, h.proofKey(key), pdb)
			rep.Checks++
			if err5 == nil {
				var other map[string]interface{}
				json.Unmarshal([]byte(c), &other)
				if w5 := e.vals[mbt.Int(other[name])]; !bytes.Equal(v5, w5) {
					e.fail("property", true, "prove:wrong-root", "proof verifies against the root of another content "+c+" with a value that content does not hold", hex.EncodeToString(w5), hex.EncodeToString(v5))
				}
				rep.Count("proofs_valid_for_other_root")
			}
		}
	}
}

// apply executes one Trie.tla action on e.h; post is the spec state after it.
func (e *trieEnv) apply(a string, args []interface{}, post map[string]interface{}) (abort bool) {
	content := post["content"].(map[string]interface{})
	ckey := canon(content)
	switch a {
	case "Update":
		if err := e.h.update(e.key(mbt.Str(args[0])), e.vals[mbt.Int(args[1])]); err != nil {
			e.fail("property", true, "update:error", "TryUpdate failed: "+err.Error(), nil, nil)
			return true
		}
	case "Delete":
		var err error
		if mbt.Str(args[1]) == "delete" {
			err = e.h.delete(e.key(mbt.Str(args[0])))
		} else {
			err = e.h.update(e.key(mbt.Str(args[0])), nil)
		}
		if err != nil {
			e.fail("property", true, "delete:error", "TryDelete failed: "+err.Error(), nil, nil)
			return true
		}
	case "Get":
		got, err := e.h.get(e.key(mbt.Str(args[0])))
		want := e.vals[mbt.Int(args[1])]
		rep.Checks++
		if err != nil || !bytes.Equal(got, want) {
			e.fail("property", true, "get", fmt.Sprintf("Get(%s) differs from the content (err=%v)", args[0], err), hex.EncodeToString(want), hex.EncodeToString(got))
		}
	case "Hash":
		classRoot(e.fail, e.ns, ckey, e.h.hash())
	case "Commit":
		pre := e.h.copy().hash()
		root, err := e.h.commit()
		if err != nil {
			e.fail("property", true, "commit:error", "Commit failed: "+err.Error(), nil, nil)
			return true
		}
		if err := e.tdb.Commit(root, false); err != nil {
			e.fail("property", true, "commit:db-error", "Database.Commit failed: "+err.Error(), nil, nil)
			return true
		}
		rep.Checks++
		if pre != root {
			e.fail("property", true, "commit:root-differs-from-hash", "Commit returned a root different from Hash of the same content", pre.Hex(), root.Hex())
		}
		classRoot(e.fail, e.ns, ckey, root)
		e.roots[ckey] = root
		e.reopenChecks(root, content)
		rep.Count("commits")
	case "Reopen":
		c := canon(args[0])
		root, ok := e.roots[c]
		if !ok {
			e.fail("error", false, "reopen:unknown-root", "spec reopens a content the driver never committed", nil, nil)
			return true
		}
		h, err := openHandle(e.secure, root, e.tdb)
		if err != nil {
			e.fail("property", true, "reopen:error", "cannot open a trie at a committed root: "+err.Error(), nil, nil)
			return true
		}
		e.h = h
		rep.Count("reopens")
	case "Prove":
		e.proveChecks(e.h, mbt.Str(args[0]), content)
	default:
		e.fail("error", false, "unknown-action", "unknown action "+a, nil, nil)
		return true
	}
	// content after every step, on a copy so that the handle's own lazily resolved / cached structure
	// stays the way the history left it
	if !e.checkContent(e.h.copy(), content, "after-"+a) {
		return true
	}
	return false
}

func runTrieTrace(ti int, tr mbt.Trace) {
	var cur mbt.Step
	si := 0
	fail := func(kind string, prop bool, key, detail string, want, got interface{}) {
		rep.Fail(mbt.Failure{Trace: ti, TraceID: tr.ID, Step: si, Action: fmt.Sprintf("%s%v", cur.A, cur.Args), Kind: kind,
			Property: prop, Key: key, Detail: detail, Want: want, Got: got})
	}
	e := newTrieEnv(tr.Cfg, fail)
	for si, cur = range tr.Steps {
		rep.Steps++
		var abort bool
		if p, stack := mbt.Catch(func() { abort = e.apply(cur.A, cur.Args, cur.Post) }); p != nil {
			fail("panic", true, "panic:"+cur.A, fmt.Sprintf("%v\n%s", p, stack), nil, nil)
			return
		}
		if abort {
			return
		}
	}
	// end of history: the handle itself (not a copy) answers the content, its root is the class root,
	// and every key has a valid proof
	if len(tr.Steps) > 0 {
		content := tr.Steps[len(tr.Steps)-1].Post["content"].(map[string]interface{})
		cur = mbt.Step{A: "end"}
		e.checkContent(e.h, content, "end")
		classRoot(fail, e.ns, canon(content), e.h.hash())
		for _, n := range e.names {
			e.proveChecks(e.h, n, content)
		}
	}
}

// ---------------------------------------------------------------------------------------------
// triegraph: all paths of bounded length through the TLC state graph

type gEdge struct {
	a    string
	args []interface{}
	dst  int
}

func runTrieGraph(ti int, tr mbt.Trace) {
	g := tr.Cfg["graph"].(map[string]interface{})
	nodesJ := g["nodes"].([]interface{})
	edgesJ := g["edges"].([]interface{})
	depth := mbt.Int(tr.Cfg["depth"])
	posts := make([]map[string]interface{}, len(nodesJ))
	for i, n := range nodesJ {
		posts[i] = n.(map[string]interface{})
	}
	out := make([][]gEdge, len(nodesJ))
	edgeIdx := make([][]int, len(nodesJ))
	for k, ej := range edgesJ {
		e := ej.([]interface{})
		src := mbt.Int(e[0])
		out[src] = append(out[src], gEdge{a: mbt.Str(e[1]), args: e[2].([]interface{}), dst: mbt.Int(e[3])})
		edgeIdx[src] = append(edgeIdx[src], k)
	}
	var path []int
	curA := ""
	failed := false
	fail := func(kind string, prop bool, key, detail string, want, got interface{}) {
		if failed {
			return // one failure per graph run is enough; the engine turns the path into a step replay
		}
		failed = true
		rep.Fail(mbt.Failure{Trace: ti, TraceID: tr.ID, Step: len(path), Action: curA, Kind: kind, Property: prop, Key: key,
			Detail: detail + fmt.Sprintf(" | history (edge indexes) %v", path), Want: want, Got: map[string]interface{}{"got": got, "path": append([]int(nil), path...)}})
	}
	e := newTrieEnv(tr.Cfg, fail)
	e.light = true
	histories := 0
	var dfs func(node int, d int)
	dfs = func(node int, d int) {
		if failed {
			return
		}
		histories++
		// root of the content reached by THIS history, computed on a copy (the history's own hash flags stay)
		classRoot(fail, e.ns, canon(posts[node]["content"]), e.h.copy().hash())
		if d == depth {
			return
		}
		for k, ed := range out[node] {
			saveH, saveRoots := e.h, e.roots
			e.h = saveH.copy()
			r2 := make(map[string]common.Hash, len(saveRoots)+1)
			for a, b := range saveRoots {
				r2[a] = b
			}
			e.roots = r2
			path = append(path, edgeIdx[node][k])
			curA = fmt.Sprintf("%s%v", ed.a, ed.args)
			rep.Steps++
			var abort bool
			if p, stack := mbt.Catch(func() { abort = e.apply(ed.a, ed.args, posts[ed.dst]) }); p != nil {
				fail("panic", true, "panic:"+ed.a, fmt.Sprintf("%v\n%s", p, stack), nil, nil)
			}
			if !abort {
				dfs(ed.dst, d+1)
			}
			path = path[:len(path)-1]
			e.h, e.roots = saveH, saveRoots
			if failed {
				return
			}
		}
	}
	dfs(mbt.Int(g["init"]), 0)
	rep.Counters["graph_histories"] += histories
}

// ---------------------------------------------------------------------------------------------
// StateDB.tla

var unitBal, _ = new(big.Int).SetString("1000000000000000000000000000000", 10) // abstract balance b = b * 10^30

type sdbEnv struct {
	addrs    map[string]common.Address
	slots    map[string]common.Hash
	anames   []string
	snames   []string
	codes    [][]byte
	vals     []common.Hash
	nonces   []uint64
	disk     *ethdb.MemDatabase
	sdb      state.Database
	s        *state.StateDB
	last     common.Hash // last committed root
	revIDs   map[int]int
	snapObs  map[int]map[string]interface{}
	snapStep map[int]int
	stepNo   int
	del      bool
	valset   int
	copies   []copyRec
	quiet    bool
	tr       *mbt.Trace
	fail     failer
}

// engineered addresses / slot keys: their keccak images (the secure-trie paths) share leading nibbles
func findPreimages(tag string, n int, size int) [][]byte {
	var out [][]byte
	var first []byte
	for c := 0; len(out) < n; c++ {
		p := make([]byte, size)
		copy(p, []byte(fmt.Sprintf("%s-%d", tag, c)))
		h := crypto.Keccak256(p)
		if first == nil {
			first = h
			out = append(out, p)
			continue
		}
		// account i shares exactly (i) leading nibbles... at least: i=1 -> 2 nibbles, i=2 -> 1 nibble
		want := 3 - len(out)
		if want < 0 {
			want = 0
		}
		share := 0
		for share < 64 {
			a, b := first[share/2], h[share/2]
			if share%2 == 0 {
				a, b = a>>4, b>>4
			} else {
				a, b = a&15, b&15
			}
			if a != b {
				break
			}
			share++
		}
		if share == want {
			out = append(out, p)
		}
	}
	return out
}

func newSdbEnv(cfg map[string]interface{}, fail failer) *sdbEnv {
	e := &sdbEnv{fail: fail, addrs: map[string]common.Address{}, slots: map[string]common.Hash{}, revIDs: map[int]int{},
		snapObs: map[int]map[string]interface{}{}, snapStep: map[int]int{}}
	e.del, _ = cfg["del"].(bool)
	for _, a := range cfg["addrs"].([]interface{}) {
		e.anames = append(e.anames, a.(string))
	}
	for _, s := range cfg["slots"].([]interface{}) {
		e.snames = append(e.snames, s.(string))
	}
	sort.Strings(e.anames)
	sort.Strings(e.snames)
	pa := findPreimages("verif-addr", len(e.anames), 20)
	for i, n := range e.anames {
		e.addrs[n] = common.BytesToAddress(pa[i])
	}
	ps := findPreimages("verif-slot", len(e.snames), 32)
	for i, n := range e.snames {
		e.slots[n] = common.BytesToHash(ps[i])
	}
	e.codes = [][]byte{nil, {0x60, 0x00}, bytes.Repeat([]byte{0x5b}, 100), {0x00}}
	// storage value classes 0..3, chosen by cfg.valset: leading AND trailing zero bytes (the trie stores the value
	// with its leading zeros trimmed, and only those), both ends non-zero, 1 next to 0x100 / 0x10000 (equal after a
	// wrong trim), a lone top byte
	e.valset = 0
	if v, ok := cfg["valset"]; ok {
		e.valset = mbt.Int(v)
	}
	hx := common.HexToHash
	switch e.valset % 4 {
	case 0:
		e.vals = []common.Hash{{}, hx("0x01"), hx("0xffffffffffffffffffffffffffffffffffffffffffffffffffffffffffffffff"), hx("0x8000")}
	case 1:
		e.vals = []common.Hash{{}, hx("0x0100"), hx("0x0100000000000000000000000000000000000000000000000000000000000000"), hx("0xab00")}
	case 2:
		e.vals = []common.Hash{{}, hx("0x01"), hx("0x0100"), hx("0x010000")}
	case 3:
		e.vals = []common.Hash{{}, hx("0xab000000"), hx("0x8000000000000000000000000000000000000000000000000000000000000000"), hx("0xff00000000000000000000000000000000000000000000000000000000000001")}
	}
	e.nonces = []uint64{0, 1, 1 << 40, 7}
	e.disk = ethdb.NewMemDatabase()
	e.sdb = state.NewDatabase(e.disk)
	e.s, _ = state.New(common.Hash{}, e.sdb)
	return e
}

func (e *sdbEnv) bal(b int) *big.Int { return new(big.Int).Mul(unitBal, big.NewInt(int64(b))) }

func indexOfHash(xs []common.Hash, h common.Hash) interface{} {
	for i, x := range xs {
		if x == h {
			return int64(i)
		}
	}
	return "?" + h.Hex()
}

// project reads the StateDB through its getters into the shape of the spec's `acc`.
func (e *sdbEnv) project(s *state.StateDB) map[string]interface{} {
	out := map[string]interface{}{}
	for _, n := range e.anames {
		a := e.addrs[n]
		ex := s.Exist(a)
		var nonce interface{} = "?"
		for i, x := range e.nonces {
			if x == s.GetNonce(a) {
				nonce = int64(i)
				break
			}
		}
		var bal interface{}
		q, r := new(big.Int).QuoRem(s.GetBalance(a), unitBal, new(big.Int))
		if r.Sign() == 0 && q.IsInt64() {
			bal = q.Int64()
		} else {
			bal = "?" + s.GetBalance(a).String()
		}
		var code interface{} = "?"
		gc := s.GetCode(a)
		for i, c := range e.codes {
			if bytes.Equal(c, gc) {
				code = int64(i)
				break
			}
		}
		// (GetCodeSize of a codeless account looks the empty code hash up in the database and records the
		// resulting "not found" in StateDB.Error() - reference behaviour, so it is only asked for real code)
		if cs := len(gc); cs > 0 && s.GetCodeSize(a) != cs {
			cs = s.GetCodeSize(a)
			code = fmt.Sprintf("?size %d != len %d", cs, len(gc))
		}
		if ch := s.GetCodeHash(a); ex && ch != crypto.Keccak256Hash(gc) {
			code = "?codehash " + ch.Hex()
		}
		st := map[string]interface{}{}
		for _, sn := range e.snames {
			st[sn] = indexOfHash(e.vals, s.GetState(a, e.slots[sn]))
		}
		rec := map[string]interface{}{"ex": ex, "nonce": nonce, "bal": bal, "code": code, "st": st, "suic": s.HasSuicided(a)}
		// Empty() must agree with its definition
		if s.Empty(a) != (!ex || (s.GetNonce(a) == 0 && s.GetBalance(a).Sign() == 0 && len(gc) == 0)) {
			rec["ex"] = "?Empty() inconsistent"
		}
		out[n] = rec
	}
	return out
}

func persistClass(acc map[string]interface{}) string {
	p := map[string]interface{}{}
	for n, v := range acc {
		r := v.(map[string]interface{})
		if b, _ := r["ex"].(bool); b {
			// zero slots are absent from the storage trie: configurations with different slot sets share classes
			st := map[string]interface{}{}
			for k, v := range r["st"].(map[string]interface{}) {
				if !mbt.Equal(v, int64(0)) {
					st[k] = v
				}
			}
			p[n] = map[string]interface{}{"nonce": r["nonce"], "bal": r["bal"], "code": r["code"], "st": st}
		}
	}
	return canon(p)
}

func (e *sdbEnv) compareAcc(s *state.StateDB, want map[string]interface{}, what string, key string) bool {
	got := mbt.Canon(e.project(s)).(map[string]interface{})
	rep.Checks++
	if ks := mbt.DiffKeys(mbt.Norm(want).(map[string]interface{}), got); len(ks) > 0 {
		e.fail("mismatch", true, key, fmt.Sprintf("%s: accounts %v differ", what, ks), want, got)
		return false
	}
	return true
}

func (e *sdbEnv) proveAccount(name string, wantPresent bool, stale bool) {
	a := e.addrs[name]
	// the journal is empty here, so the account trie is current; it is hashed on a copy because
	// IntermediateRoot on the StateDB itself would drop the valid revisions
	root := e.s.Copy().IntermediateRoot(e.del)
	nodes, err := e.s.GetProof(a)
	if err != nil {
		e.fail("property", true, "prove-account:error", "GetProof failed: "+err.Error(), nil, nil)
		return
	}
	if root == emptyRoot {
		rep.Checks++
		rep.Count("proofs_empty_trie")
		if len(nodes) != 0 || wantPresent {
			e.fail("property", true, "prove-account:empty-trie", "empty state root but proof nodes / account present", nil, len(nodes))
		}
		return
	}
	val, _, err := trie.VerifyProof(root, crypto.Keccak256(a[:]), honestDB(nodes))
	rep.Checks++
	rep.Count("account_proofs")
	if err != nil {
		e.fail("property", true, "prove-account:verify-error", "account proof does not verify against the state root: "+err.Error(), nil, nil)
		return
	}
	if (len(val) > 0) != wantPresent {
		e.fail("property", true, "prove-account:presence", "account proof yields presence/absence contrary to the content", wantPresent, len(val) > 0)
		return
	}
	if len(val) == 0 {
		return
	}
	var acct state.Account
	if err := rlp.DecodeBytes(val, &acct); err != nil {
		e.fail("property", true, "prove-account:decode", "proven account body does not decode: "+err.Error(), nil, nil)
		return
	}
	if stale {
		return // the live object was not written (ResetQuirk): getters and trie legitimately differ here
	}
	if acct.Nonce != e.s.GetNonce(a) || acct.Balance.Cmp(e.s.GetBalance(a)) != 0 || !bytes.Equal(acct.CodeHash, e.s.GetCodeHash(a).Bytes()) {
		e.fail("property", true, "prove-account:value", "proven account body differs from the getters", nil, fmt.Sprintf("%+v", acct))
	}
	for _, sn := range e.snames {
		k := e.slots[sn]
		sp, err := e.s.GetStorageProof(a, k)
		if err != nil {
			e.fail("property", true, "prove-storage:error", "GetStorageProof failed: "+err.Error(), nil, nil)
			continue
		}
		if acct.Root == emptyRoot {
			rep.Checks++
			if len(sp) != 0 || e.s.GetState(a, k) != (common.Hash{}) {
				e.fail("property", true, "prove-storage:empty-trie", "empty storage root but proof nodes / value present", nil, len(sp))
			}
			continue
		}
		v, _, err := trie.VerifyProof(acct.Root, crypto.Keccak256(k[:]), honestDB(sp))
		rep.Checks++
		rep.Count("storage_proofs")
		if err != nil {
			e.fail("property", true, "prove-storage:verify-error", "storage proof does not verify against the proven storage root: "+err.Error(), nil, nil)
			continue
		}
		var got common.Hash
		if len(v) > 0 {
			_, c, _, _ := rlp.Split(v)
			got.SetBytes(c)
		}
		if got != e.s.GetState(a, k) {
			e.fail("property", true, "prove-storage:value", "storage proof yields a value different from GetState", e.s.GetState(a, k).Hex(), got.Hex())
		}
	}
}

// rebuildRoot: the root of a state holding exactly `content`, built from nothing by one canonical history.
func (e *sdbEnv) rebuildRoot(content map[string]interface{}) common.Hash {
	s, _ := state.New(common.Hash{}, state.NewDatabase(ethdb.NewMemDatabase()))
	for i := len(e.anames) - 1; i >= 0; i-- {
		r := content[e.anames[i]].(map[string]interface{})
		if ex, _ := r["ex"].(bool); !ex {
			continue
		}
		a := e.addrs[e.anames[i]]
		s.CreateAccount(a)
		s.SetCode(a, e.codes[mbt.Int(r["code"])])
		for _, sn := range e.snames {
			s.SetState(a, e.slots[sn], e.vals[mbt.Int(r["st"].(map[string]interface{})[sn])])
		}
		s.SetBalance(a, e.bal(mbt.Int(r["bal"])))
		s.SetNonce(a, e.nonces[mbt.Int(r["nonce"])])
	}
	return s.IntermediateRoot(false)
}

func inList(xs interface{}, name string) bool {
	l, _ := xs.([]interface{})
	for _, x := range l {
		if x == name {
			return true
		}
	}
	return false
}

// rootChecks: the real root names the trie content (class table shared by all traces), equals the root of the
// content rebuilt from nothing, and a Copy() taken at this boundary hashes to the same root.
func (e *sdbEnv) rootChecks(root common.Hash, trieContent map[string]interface{}) {
	classRoot(e.fail, fmt.Sprintf("statedb/del=%v/vs=%d", e.del, e.valset%4), persistClass(trieContent), root)
	rep.Checks += 2
	if r2 := e.rebuildRoot(trieContent); r2 != root {
		e.fail("property", true, "history-independence:rebuild", "the same content rebuilt from an empty state has a different root", root.Hex(), r2.Hex())
	}
	if r3 := e.s.Copy().IntermediateRoot(e.del); r3 != root {
		e.fail("property", true, "copy:root", "a Copy() taken after finalisation has a different root", root.Hex(), r3.Hex())
	}
}

// replayEnv re-executes steps[0:n] on a fresh StateDB without any checking.
func replayEnv(tr mbt.Trace, n int) *sdbEnv {
	quiet := func(string, bool, string, string, interface{}, interface{}) {}
	e := newSdbEnv(tr.Cfg, quiet)
	e.quiet = true
	for i := 0; i < n; i++ {
		e.apply(tr.Steps[i])
	}
	return e
}

// replayRoot re-executes steps[0:n] on a fresh StateDB and finalises it.
func replayRoot(tr mbt.Trace, n int) (root common.Hash) {
	e := replayEnv(tr, n)
	return e.s.IntermediateRoot(e.del)
}

// resetNotDirty: per the model, account n is an object CreateAccount put over an existing account and nothing has
// made the address dirty since (ghost `stale` after a finalisation, a lone "reset" journal entry before it)
func resetNotDirty(post map[string]interface{}, n string) bool {
	if inList(post["stale"], n) {
		return true
	}
	reset, other := false, false
	j, _ := post["journal"].([]interface{})
	for _, ei := range j {
		en := ei.(map[string]interface{})
		if en["a"] == n {
			if en["t"] == "reset" {
				reset = true
			} else {
				other = true
			}
		}
	}
	return reset && !other
}

type copyRec struct {
	s    *state.StateDB
	obs  map[string]interface{}
	what string
}

// batch writes every field of every account; variant selects the values
func (e *sdbEnv) batch(s *state.StateDB, variant int) {
	for i, n := range e.anames {
		a := e.addrs[n]
		s.SetNonce(a, e.nonces[(3+variant)%4])
		s.SetBalance(a, e.bal(5+variant+i))
		s.SetCode(a, e.codes[(3+variant)%4])
		for j, sn := range e.snames {
			s.SetState(a, e.slots[sn], e.vals[1+(variant+i+j)%3])
		}
	}
}

// copyChecks: CopyIndependent, both directions.  cp := Copy() must (1) answer like the original, (2) have a working journal
// of its own, (3) when written to, leave the original's getters alone, (4) finalise to the root a StateDB gets that reached
// the same state by the same history and was written to in the same way, (5) the same for a copy of the finalised copy,
// (6) keep its content whatever the original does afterwards (checked at the end of the behaviour).  That the original's
// journal / revisions / dirtiness are untouched shows in the original simply continuing the behaviour against the model.
func (e *sdbEnv) copyChecks(post map[string]interface{}) {
	if e.tr == nil {
		return
	}
	rep.Count("copies")
	obs0 := mbt.Canon(e.project(e.s)).(map[string]interface{})
	cp := e.s.Copy()
	rep.Checks += 6
	obsC0 := mbt.Canon(e.project(cp)).(map[string]interface{})
	if ks := mbt.DiffKeys(obs0, obsC0); len(ks) > 0 {
		// the model knows one way this happens in both code bases: an object that replaced an existing account
		// (CreateAccount) and was not dirtied since is not "dirty", so Copy() leaves it behind like Commit does
		quirk := true
		for _, n := range ks {
			if !resetNotDirty(post, n) {
				quirk = false
			}
		}
		if quirk {
			e.fail("property", true, "commit:reset-account-not-persisted", fmt.Sprintf("Copy() drops the un-dirtied object CreateAccount put over the existing account %v: the copy answers with the old account", ks), obs0, obsC0)
		} else {
			e.fail("property", true, "CopyIndependent:copy-differs", fmt.Sprintf("a fresh Copy() answers differently than the original on %v", ks), obs0, obsC0)
			return
		}
	}
	sid := cp.Snapshot()
	e.batch(cp, 1)
	cp.RevertToSnapshot(sid)
	if ks := mbt.DiffKeys(obsC0, mbt.Canon(e.project(cp)).(map[string]interface{})); len(ks) > 0 {
		e.fail("property", true, "CopyIndependent:copy-revert", fmt.Sprintf("snapshot + writes + revert inside the copy does not restore accounts %v", ks), obsC0, e.project(cp))
		return
	}
	e.batch(cp, 0)
	if ks := mbt.DiffKeys(obs0, mbt.Canon(e.project(e.s)).(map[string]interface{})); len(ks) > 0 {
		e.fail("property", true, "CopyIndependent:original-changed", fmt.Sprintf("writing to the copy changed accounts %v of the original", ks), obs0, e.project(e.s))
		return
	}
	ref := replayEnv(*e.tr, e.stepNo)
	ref.batch(ref.s, 0)
	rootCp, rootRef := cp.IntermediateRoot(e.del), ref.s.IntermediateRoot(e.del)
	if rootCp != rootRef {
		e.fail("property", true, "CopyIndependent:copy-root", "the written-to copy finalises to a different root than a StateDB with the same history and the same writes", rootRef.Hex(), rootCp.Hex())
		return
	}
	obsCp := mbt.Canon(e.project(cp)).(map[string]interface{})
	if ks := mbt.DiffKeys(mbt.Canon(e.project(ref.s)).(map[string]interface{}), obsCp); len(ks) > 0 {
		e.fail("property", true, "CopyIndependent:copy-content", fmt.Sprintf("the written-to, finalised copy differs on %v from a StateDB with the same history and writes", ks), e.project(ref.s), obsCp)
		return
	}
	// a copy of the finalised copy (Copy's second loop: objects that are dirty but no longer in the journal)
	cp2 := cp.Copy()
	e.batch(cp2, 2)
	ref.batch(ref.s, 2)
	if ks := mbt.DiffKeys(obsCp, mbt.Canon(e.project(cp)).(map[string]interface{})); len(ks) > 0 {
		e.fail("property", true, "CopyIndependent:original-changed", fmt.Sprintf("writing to a copy of the copy changed accounts %v of the copy", ks), obsCp, e.project(cp))
		return
	}
	r2, rr2 := cp2.IntermediateRoot(e.del), ref.s.IntermediateRoot(e.del)
	if r2 != rr2 {
		e.fail("property", true, "CopyIndependent:copy-root", "a written-to copy of a finalised copy finalises to a different root than a StateDB with the same history and writes", rr2.Hex(), r2.Hex())
		return
	}
	// the copy's revisions are its own: a snapshot taken in the copy after all this still reverts exactly
	sid = cp.Snapshot()
	e.batch(cp, 1)
	cp.RevertToSnapshot(sid)
	if ks := mbt.DiffKeys(obsCp, mbt.Canon(e.project(cp)).(map[string]interface{})); len(ks) > 0 {
		e.fail("property", true, "CopyIndependent:copy-revert", fmt.Sprintf("snapshot + writes + revert inside the finalised copy does not restore accounts %v", ks), obsCp, e.project(cp))
		return
	}
	e.copies = append(e.copies, copyRec{cp, obsCp, fmt.Sprintf("copy taken after step %d", e.stepNo)})
}

func (e *sdbEnv) apply(st mbt.Step) (abort bool) {
	post := st.Post["acc"].(map[string]interface{})
	trieC, _ := st.Post["trie"].(map[string]interface{})
	addr := func(i int) common.Address { return e.addrs[mbt.Str(st.Args[i])] }
	e.stepNo++
	switch st.A {
	case "SetNonce":
		e.s.SetNonce(addr(0), e.nonces[mbt.Int(st.Args[1])])
	case "SetBalance":
		e.s.SetBalance(addr(0), e.bal(mbt.Int(st.Args[1])))
	case "AddBalance":
		e.s.AddBalance(addr(0), e.bal(mbt.Int(st.Args[1])))
	case "SubBalance":
		e.s.SubBalance(addr(0), e.bal(mbt.Int(st.Args[1])))
	case "SetCode":
		e.s.SetCode(addr(0), e.codes[mbt.Int(st.Args[1])])
	case "SetState":
		e.s.SetState(addr(0), e.slots[mbt.Str(st.Args[1])], e.vals[mbt.Int(st.Args[2])])
	case "Suicide":
		got := e.s.Suicide(addr(0))
		if e.quiet {
			return false
		}
		rep.Checks++
		if got != st.Args[1].(bool) {
			e.fail("mismatch", true, "suicide:reply", "Suicide reply differs", st.Args[1], got)
		}
	case "CreateAccount":
		e.s.CreateAccount(addr(0))
	case "Snapshot":
		id := mbt.Int(st.Args[0])
		real := e.s.Snapshot()
		e.revIDs[id] = real
		if e.quiet {
			return false
		}
		if real != id {
			e.fail("mismatch", false, "snapshot:id", "revision id differs from the model", id, real)
		}
		e.snapObs[id] = mbt.Canon(e.project(e.s)).(map[string]interface{})
		e.snapStep[id] = e.stepNo
	case "RevertToSnapshot":
		id := mbt.Int(st.Args[0])
		e.s.RevertToSnapshot(e.revIDs[id])
		if e.quiet {
			return false
		}
		rep.Count("reverts")
		// independent of the model: exactly the observables recorded when the snapshot was taken ...
		got := mbt.Canon(e.project(e.s)).(map[string]interface{})
		rep.Checks += 2
		if ks := mbt.DiffKeys(e.snapObs[id], got); len(ks) > 0 {
			e.fail("property", true, "RevertRestoresExactly:content", fmt.Sprintf("after RevertToSnapshot accounts %v differ from what the getters answered at the snapshot", ks), e.snapObs[id], got)
			return true
		}
		// ... and the root: the history up to the snapshot and the history up to here, each replayed on a
		// fresh StateDB and finalised, must give one root
		if e.tr != nil {
			ra, rb := replayRoot(*e.tr, e.snapStep[id]), replayRoot(*e.tr, e.stepNo)
			if ra != rb {
				e.fail("property", true, "RevertRestoresExactly:root", "finalising after RevertToSnapshot gives a different root than finalising at the snapshot", ra.Hex(), rb.Hex())
				return true
			}
		}
	case "Finalise":
		e.s.Finalise(e.del)
		root := e.s.IntermediateRoot(e.del)
		if e.quiet {
			return false
		}
		e.rootChecks(root, trieC)
		rep.Count("finalises")
		e.copyChecks(st.Post) // Copy right after a finalisation: every touched account is dirty but not in the journal
	case "Commit":
		root, err := e.s.Commit(e.del)
		if err != nil {
			e.fail("property", true, "commit:error", "Commit failed: "+err.Error(), nil, nil)
			return true
		}
		if err := e.sdb.TrieDB().Commit(root, false); err != nil {
			e.fail("property", true, "commit:db-error", "TrieDB.Commit failed: "+err.Error(), nil, nil)
			return true
		}
		e.last = root
		if e.quiet {
			return false
		}
		e.rootChecks(root, trieC)
		rep.Count("commits")
		// reopen: same caching database, fresh cache over the same disk, fresh disk holding a copy of what was written
		want := persistAcc(trieC)
		if s2, err := state.New(root, e.sdb); err != nil {
			e.fail("property", true, "reopen:same-db", "cannot open the committed root: "+err.Error(), nil, nil)
		} else {
			e.compareAcc(s2, want, "reopen over the same database", "ReopenEqualsContent:same-db")
		}
		if s3, err := state.New(root, state.NewDatabase(e.disk)); err != nil {
			e.fail("property", true, "reopen:disk", "cannot open the committed root from disk: "+err.Error(), nil, nil)
		} else {
			e.compareAcc(s3, want, "reopen from disk", "ReopenEqualsContent:disk")
		}
		fresh := ethdb.NewMemDatabase()
		for _, k := range e.disk.Keys() {
			v, _ := e.disk.Get(k)
			fresh.Put(k, v)
		}
		if s4, err := state.New(root, state.NewDatabase(fresh)); err != nil {
			e.fail("property", true, "reopen:fresh", "cannot open the committed root from a copy of the disk: "+err.Error(), nil, nil)
		} else {
			e.compareAcc(s4, want, "reopen from a copied disk", "ReopenEqualsContent:fresh")
			rep.Checks++
			if r := s4.IntermediateRoot(e.del); r != root {
				e.fail("property", true, "reopen:root", "reopened state has a different root", root.Hex(), r.Hex())
			}
			// "exactly that content": what the getters of the committing StateDB answer must be what a reopened
			// state answers.  The model knows one way this fails in both code bases (ResetQuirk, ghost `stale`);
			// it is reported from the OBSERVED difference, under its own key.
			live := mbt.Canon(e.project(e.s)).(map[string]interface{})
			re := mbt.Canon(e.project(s4)).(map[string]interface{})
			for _, n := range e.anames {
				lr, rr := live[n].(map[string]interface{}), re[n].(map[string]interface{})
				lr["suic"] = false
				rep.Checks++
				if !mbt.Equal(lr, rr) {
					if inList(st.Post["stale"], n) {
						e.fail("property", true, "commit:reset-account-not-persisted", "CreateAccount over an existing account that nothing dirtied afterwards is not written by Commit: the getters show the new object, the root and the reopened state keep the old one", lr, rr)
					} else {
						e.fail("property", true, "ReopenEqualsContent:live", "account "+n+": getters of the committing StateDB differ from the reopened state", lr, rr)
					}
				}
			}
		}
	case "Reopen":
		db := state.NewDatabase(e.disk)
		s, err := state.New(e.last, db)
		if err != nil {
			e.fail("property", true, "reopen:error", "cannot open the last committed root: "+err.Error(), nil, nil)
			return true
		}
		e.s, e.sdb = s, db
		e.revIDs = map[int]int{}
		rep.Count("reopens")
	case "Copy":
		if e.quiet {
			return false
		}
		e.copyChecks(st.Post)
	case "ProveAccount":
		if e.quiet {
			return false
		}
		e.proveAccount(mbt.Str(st.Args[0]), mbt.Str(st.Args[1]) == "present", inList(st.Post["stale"], mbt.Str(st.Args[0])))
	default:
		e.fail("error", false, "unknown-action", "unknown action "+st.A, nil, nil)
		return true
	}
	if e.quiet {
		return false
	}
	if err := e.s.Error(); err != nil {
		e.fail("property", true, "statedb:db-error", "StateDB reports a database error: "+err.Error(), nil, nil)
		return true
	}
	return !e.compareAcc(e.s, post, "after "+st.A, "state:"+st.A)
}

func persistAcc(acc map[string]interface{}) map[string]interface{} {
	out := map[string]interface{}{}
	for n, v := range acc {
		r := v.(map[string]interface{})
		c := map[string]interface{}{}
		for k, x := range r {
			c[k] = x
		}
		c["suic"] = false
		out[n] = c
	}
	return out
}

func runStateDBTrace(ti int, tr mbt.Trace) {
	var cur mbt.Step
	si := 0
	fail := func(kind string, prop bool, key, detail string, want, got interface{}) {
		rep.Fail(mbt.Failure{Trace: ti, TraceID: tr.ID, Step: si, Action: fmt.Sprintf("%s%v", cur.A, cur.Args), Kind: kind,
			Property: prop, Key: key, Detail: detail, Want: want, Got: got})
	}
	e := newSdbEnv(tr.Cfg, fail)
	e.tr = &tr
	for si, cur = range tr.Steps {
		rep.Steps++
		var abort bool
		if p, stack := mbt.Catch(func() { abort = e.apply(cur) }); p != nil {
			fail("panic", true, "panic:"+cur.A, fmt.Sprintf("%v\n%s", p, stack), nil, nil)
			return
		}
		if abort {
			return
		}
	}
	// whatever the original did after a copy was taken, the copy still holds what it held
	cur = mbt.Step{A: "end"}
	for _, c := range e.copies {
		rep.Checks++
		if ks := mbt.DiffKeys(c.obs, mbt.Canon(e.project(c.s)).(map[string]interface{})); len(ks) > 0 {
			fail("property", true, "CopyIndependent:copy-changed-later", fmt.Sprintf("%s: accounts %v of the copy changed through later operations on the original", c.what, ks), c.obs, e.project(c.s))
		}
	}
}

func main() {
	if len(os.Args) < 2 {
		fmt.Fprintln(os.Stderr, "usage: statedb traces.json")
		os.Exit(2)
	}
	traces, err := mbt.LoadTraces(os.Args[1])
	if err != nil {
		fmt.Fprintln(os.Stderr, "load:", err)
		os.Exit(2)
	}
	for ti, tr := range traces {
		rep.Traces++
		curTrace = ti
		switch tr.Cfg["kind"] {
		case "trie":
			runTrieTrace(ti, tr)
		case "triegraph":
			runTrieGraph(ti, tr)
		case "statedb":
			runStateDBTrace(ti, tr)
		default:
			rep.Fail(mbt.Failure{Trace: ti, Kind: "error", Detail: "unknown trace kind"})
		}
	}
	rep.Extra["roots"] = classRoots
	rep.Extra["root_trace"] = rootTrace
	rep.Extra["classes"] = len(classRoots)
	rep.Emit()
}
