// Replays behaviours of specs/fastsync/FastSync.tla on the real code (C13).
//
// usage: fastsync <traces.json>     supervisor: replays the behaviours in parallel worker processes
//        fastsync -worker           one behaviour per stdin line, one result per stdout line
//        fastsync -probe <name>     hand-written behaviours (minimal reproductions), prints the report
//
// The syncing node is a real gemmill.Angine assembled in memory (production assembleStateMachine: real
// BlockchainReactor with fastSync=true, real BlockPool, real verifier closure stateM.Validators.VerifyCommit,
// real executer closure SaveBlock+ApplyBlock+Save, real pbft ConsensusState as block validator, adminOp plugin)
// started with Angine.Start() on a real p2p Switch.  Peers are real Switches connected through net.Pipe
// (p2p.Connect2Switches, secret connection + handshake) whose blockchain-channel reactor is scripted by the
// behaviour.  The source chain consists of real blocks with real commits produced by a live node of the same
// kind (chainutil), including a validator-set change made through the adminOp plugin.  The pool's goroutines,
// the 100 ms sync ticker and the 1 s switch ticker run for real; after every environment action the driver
// waits until the node has reached the state the specification reaches through its urgent internal steps.
//
// A panic in a goroutine of the node kills the worker process: the supervisor reports it as a failure of
// the behaviour that was running.
package main

import (
	"bufio"
	"bytes"
	"encoding/json"
	"fmt"
	"io"
	"os"
	"os/exec"
	"runtime"
	"sort"
	"strconv"
	"strings"
	"sync"
	"time"

	"verifharness/mbt"
)

type result struct {
	Restart  bool           `json:"restart,omitempty"` // the worker could not release the node in time: replace it
	Steps    int            `json:"steps"`
	Checks   int            `json:"checks"`
	Failures []mbt.Failure  `json:"failures"`
	Counters map[string]int `json:"counters"`
}

func tamperClasses(tr mbt.Trace) string {
	set := map[string]bool{}
	for _, st := range tr.Steps {
		if st.A == "Deliver" && len(st.Args) == 3 && mbt.Str(st.Args[2]) != "good" {
			set[mbt.Str(st.Args[2])] = true
		}
	}
	var l []string
	for c := range set {
		l = append(l, c)
	}
	sort.Strings(l)
	if len(l) == 0 {
		return "none"
	}
	return strings.Join(l, "+")
}

// worker process handle
type workerProc struct {
	cmd    *exec.Cmd
	in     io.WriteCloser
	out    *bufio.Reader
	stderr *tailBuffer
}

type tailBuffer struct {
	mu  sync.Mutex
	buf []byte
}

func (t *tailBuffer) Write(p []byte) (int, error) {
	t.mu.Lock()
	t.buf = append(t.buf, p...)
	if len(t.buf) > 1<<16 {
		t.buf = t.buf[len(t.buf)-(1<<16):]
	}
	t.mu.Unlock()
	return len(p), nil
}

func (t *tailBuffer) String() string {
	t.mu.Lock()
	defer t.mu.Unlock()
	return string(t.buf)
}

var (
	superRoot string // scratch root of this supervisor; every worker gets a sub-directory, removed at the end
	workerSeq int
	seqMu     sync.Mutex
)

func scratchRoot() string {
	root := ""
	if fi, err := os.Stat("/dev/shm"); err == nil && fi.IsDir() {
		root = "/dev/shm"
	}
	d, err := os.MkdirTemp(root, "vfastsync-")
	if err != nil {
		panic(err)
	}
	return d
}

func startWorker() (*workerProc, error) {
	cmd := exec.Command(os.Args[0], "-worker")
	seqMu.Lock()
	workerSeq++
	cmd.Env = append(os.Environ(), fmt.Sprintf("VERIF_FS_BASE=%s/w%d", superRoot, workerSeq))
	seqMu.Unlock()
	in, err := cmd.StdinPipe()
	if err != nil {
		return nil, err
	}
	out, err := cmd.StdoutPipe()
	if err != nil {
		return nil, err
	}
	tb := &tailBuffer{}
	cmd.Stderr = tb
	if err := cmd.Start(); err != nil {
		return nil, err
	}
	return &workerProc{cmd: cmd, in: in, out: bufio.NewReaderSize(out, 1<<20), stderr: tb}, nil
}

func (w *workerProc) kill() {
	w.in.Close()
	w.cmd.Process.Kill()
	w.cmd.Wait()
}

// panicSite extracts a short stable description of where the worker died.
func panicSite(stderr string) (site string, excerpt string) {
	i := strings.Index(stderr, "panic:")
	if i < 0 {
		i = strings.Index(stderr, "fatal error:")
	}
	if i < 0 {
		if len(stderr) > 1500 {
			stderr = stderr[len(stderr)-1500:]
		}
		return "unknown", stderr
	}
	ex := stderr[i:]
	if len(ex) > 3000 {
		ex = ex[:3000]
	}
	site = "unknown"
	for _, fn := range []string{"RedoRequest", "PopRequest", "reconstructLastCommit", "VerifyCommit", "AddBlock", "requestRoutine", "makeRequestersRoutine", "ApplyBlock", "ExecBlock", "SwitchToConsensus", "poolRoutine"} {
		if strings.Contains(ex, fn) {
			site = fn
			break
		}
	}
	return site, ex
}

func supervise(traces []mbt.Trace) *mbt.Report {
	rep := mbt.NewReport()
	superRoot = scratchRoot()
	defer os.RemoveAll(superRoot)
	nw := 6
	if v, err := strconv.Atoi(os.Getenv("VERIF_FS_WORKERS")); err == nil && v > 0 {
		nw = v
	}
	perTrace := 180 * time.Second
	type job struct {
		ti int
	}
	jobs := make(chan job, len(traces))
	for i := range traces {
		jobs <- job{i}
	}
	close(jobs)
	var mu sync.Mutex
	var wg sync.WaitGroup
	for k := 0; k < nw; k++ {
		wg.Add(1)
		go func() {
			defer wg.Done()
			var w *workerProc
			defer func() {
				if w != nil {
					w.kill()
				}
			}()
			for j := range jobs {
				tr := traces[j.ti]
				if w == nil {
					var err error
					w, err = startWorker()
					if err != nil {
						mu.Lock()
						rep.Fail(mbt.Failure{Trace: j.ti, TraceID: tr.ID, Kind: "error", Key: "worker-start", Detail: err.Error()})
						mu.Unlock()
						continue
					}
				}
				line, _ := json.Marshal(tr)
				type rd struct {
					b   []byte
					err error
				}
				ch := make(chan rd, 1)
				go func(w *workerProc) {
					if _, err := w.in.Write(append(line, '\n')); err != nil {
						ch <- rd{nil, err}
						return
					}
					b, err := w.out.ReadBytes('\n')
					ch <- rd{b, err}
				}(w)
				var r rd
				timedOut := false
				select {
				case r = <-ch:
				case <-time.After(perTrace):
					timedOut = true
				}
				mu.Lock()
				rep.Traces++
				if timedOut {
					w.kill()
					stuck := w.stderr.String()
					if i := strings.Index(stuck, "WATCHDOG:"); i >= 0 {
						stuck = stuck[i:]
					}
					if len(stuck) > 6000 {
						stuck = stuck[:6000]
					}
					w = nil
					rep.Fail(mbt.Failure{Trace: j.ti, TraceID: tr.ID, Kind: "error", Property: false, Key: "worker-hang", Detail: "worker did not finish the behaviour in time\n" + stuck})
					mu.Unlock()
					continue
				}
				if timedOutDetail := ""; r.err != nil {
					_ = timedOutDetail
					// the node (worker process) died while replaying this behaviour
					w.cmd.Wait()
					site, ex := panicSite(w.stderr.String())
					w.in.Close()
					w = nil
					rep.Count("node_crashes")
					rep.Fail(mbt.Failure{Trace: j.ti, TraceID: tr.ID, Kind: "panic", Property: true,
						Key:    "node-crash:" + site + ":" + tamperClasses(tr),
						Detail: "the syncing node's process died while replaying this behaviour\n" + ex})
					mu.Unlock()
					continue
				}
				var res result
				if err := json.Unmarshal(r.b, &res); err != nil {
					rep.Fail(mbt.Failure{Trace: j.ti, TraceID: tr.ID, Kind: "error", Key: "worker-output", Detail: err.Error() + ": " + string(r.b)})
					mu.Unlock()
					continue
				}
				if res.Restart {
					w.kill()
					w = nil
					rep.Count("worker_restarts")
				}
				rep.Steps += res.Steps
				rep.Checks += res.Checks
				for k, v := range res.Counters {
					rep.Counters[k] += v
				}
				for _, f := range res.Failures {
					f.Trace = j.ti
					f.TraceID = tr.ID
					rep.Fail(f)
				}
				mu.Unlock()
			}
		}()
	}
	wg.Wait()
	return rep
}

func workerLoop() {
	in := bufio.NewReaderSize(os.Stdin, 1<<20)
	out := bufio.NewWriter(os.Stdout)
	env := newEnv()
	defer env.cleanup()
	for {
		line, err := in.ReadBytes('\n')
		if len(bytes.TrimSpace(line)) > 0 {
			var tr mbt.Trace
			dec := json.NewDecoder(bytes.NewReader(line))
			dec.UseNumber()
			res := result{Counters: map[string]int{}}
			if derr := dec.Decode(&tr); derr != nil {
				res.Failures = append(res.Failures, mbt.Failure{Kind: "error", Detail: "bad trace: " + derr.Error()})
			} else {
				done := make(chan struct{})
				go func() { // watchdog: show where a behaviour is stuck
					select {
					case <-done:
					case <-time.After(150 * time.Second):
						buf := make([]byte, 1<<20)
						n := runtime.Stack(buf, true)
						fmt.Fprintf(os.Stderr, "WATCHDOG: behaviour %s stuck; goroutines:\n%s\n", tr.ID, buf[:n])
					}
				}()
				cleanup := env.run(&res, tr)
				close(done)
				if cleanup != nil {
					fin := make(chan struct{})
					go func() { cleanup(); close(fin) }()
					select {
					case <-fin:
					case <-time.After(20 * time.Second):
						res.Restart = true // teardown of the node hangs: abandon this process
					}
				}
			}
			b, _ := json.Marshal(res)
			out.Write(b)
			out.WriteByte('\n')
			out.Flush()
		}
		if err != nil {
			return
		}
	}
}

func main() {
	if len(os.Args) < 2 {
		fmt.Fprintln(os.Stderr, "usage: fastsync traces.json | -worker | -probe name")
		os.Exit(2)
	}
	switch os.Args[1] {
	case "-worker":
		workerLoop()
		return
	case "-probe":
		probe(os.Args[2])
		return
	case "-probe-redo":
		probeRedo()
		return
	}
	traces, err := mbt.LoadTraces(os.Args[1])
	if err != nil {
		fmt.Fprintln(os.Stderr, "load:", err)
		os.Exit(2)
	}
	rep := supervise(traces)
	rep.Emit()
}
