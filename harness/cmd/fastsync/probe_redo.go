package main

import (
	"fmt"
	"time"

	"github.com/dappledger/AnnChain/gemmill/blockchain"
	gtypes "github.com/dappledger/AnnChain/gemmill/types"

	"verifharness/chainutil"
	"verifharness/mbt"
)

// probeRedo executes, on a real BlockPool, the calls poolRoutine makes when verification of `first` fails
// (PeekTwoBlocks ... RedoRequest) with the removal of the serving peer (disconnect / timeout, done by another
// goroutine in the node) landing in between.  `fastsync -probe-redo`
func probeRedo() {
	chainutil.Init()
	requests := make(chan blockchain.BlockRequest, 1000)
	timeouts := make(chan string, 1000)
	pool := blockchain.NewBlockPool(1, requests, timeouts)
	pool.Start()
	defer pool.Stop()
	pool.SetPeerHeight("p", 2)
	deadline := time.Now().Add(10 * time.Second)
	for time.Now().Before(deadline) {
		v := pool.VerifView(2)
		if len(v.Requesters) == 2 && v.Requesters[0].PeerID == "p" && v.Requesters[1].PeerID == "p" {
			break
		}
		time.Sleep(5 * time.Millisecond)
	}
	mk := func(h int64) *gtypes.Block {
		return &gtypes.Block{Header: &gtypes.Header{Height: h, ChainID: "x"}, Data: &gtypes.Data{}, LastCommit: &gtypes.Commit{}}
	}
	pool.AddBlock("p", mk(1), 100)
	pool.AddBlock("p", mk(2), 100)
	first, second := pool.PeekTwoBlocks()
	fmt.Printf("peeked first=%v second=%v\n", first != nil, second != nil)
	// ... verification of first fails; meanwhile the peer goes away
	pool.RemovePeer("p")
	time.Sleep(50 * time.Millisecond)
	p, stack := mbt.Catch(func() { pool.RedoRequest(first.Height) })
	if p != nil {
		fmt.Printf("RedoRequest PANICKED: %v\n%s\n", p, stack[:600])
	} else {
		fmt.Println("RedoRequest returned normally")
	}
}
