package main

import (
	"bytes"
	"crypto/sha256"
	"encoding/json"
	"fmt"
	"os"
	"path/filepath"
	"sort"
	"strconv"
	"sync"
	"time"

	"github.com/spf13/viper"

	"github.com/dappledger/AnnChain/eth/common"
	"github.com/dappledger/AnnChain/gemmill"
	"github.com/dappledger/AnnChain/gemmill/blockchain"
	wire "github.com/dappledger/AnnChain/gemmill/go-wire"
	"github.com/dappledger/AnnChain/gemmill/p2p"
	gtypes "github.com/dappledger/AnnChain/gemmill/types"

	"verifharness/chainutil"
	"verifharness/mbt"
)

// ---------------------------------------------------------------------------------------------
// a trivial deterministic application: the application hash chains every transaction and its outcome;
// a transaction "admin:" ++ from(20) ++ payload is handed to Angine.ExecAdminTx -- the call the EVM application's
// admin precompile makes -- so that validator-set changes go through the real adminOp plugin.

type simpleApp struct {
	ang       *gemmill.Angine
	height    int64
	hash      []byte
	nonces    map[string]uint64
	wHash     []byte
	wNonces   map[string]uint64
	adminErrs []string
}

type adminCaller struct {
	from  []byte
	nonce uint64
}

func (a *adminCaller) From() []byte     { return a.from }
func (a *adminCaller) GetNonce() uint64 { return a.nonce }

var adminPrefix = []byte("admin:")

func newSimpleApp() *simpleApp { return &simpleApp{nonces: map[string]uint64{}} }

func (app *simpleApp) GetAngineHooks() gtypes.Hooks {
	return gtypes.Hooks{OnExecute: gtypes.NewHook(app.onExecute), OnCommit: gtypes.NewHook(app.onCommit)}
}
func (app *simpleApp) CompatibleWithAngine() {}
func (app *simpleApp) CheckTx(bs []byte) (common.Address, uint64, error) {
	return common.Address{}, 0, nil
}
func (app *simpleApp) Query([]byte) gtypes.Result { return gtypes.NewResultOK(nil, "") }
func (app *simpleApp) Info() gtypes.ResultInfo {
	return gtypes.ResultInfo{LastBlockHeight: app.height, LastBlockAppHash: app.hash}
}
func (app *simpleApp) Start() error        { return nil }
func (app *simpleApp) Stop()               {}
func (app *simpleApp) SetCore(gtypes.Core) {}

func (app *simpleApp) onExecute(height, round int64, block *gtypes.Block) (interface{}, error) {
	h := append([]byte(nil), app.hash...)
	app.wNonces = map[string]uint64{}
	for k, v := range app.nonces {
		app.wNonces[k] = v
	}
	var res gtypes.ExecuteResult
	for _, tx := range block.Data.Txs {
		s := sha256.Sum256(append(h, tx...))
		h = s[:]
		if bytes.HasPrefix(tx, adminPrefix) && len(tx) >= len(adminPrefix)+20 {
			from := tx[len(adminPrefix) : len(adminPrefix)+20]
			app.wNonces[string(from)]++
			err := app.ang.ExecAdminTx(&adminCaller{from: from, nonce: app.wNonces[string(from)]}, tx[len(adminPrefix)+20:])
			out := "ok"
			if err != nil {
				out = err.Error()
				app.adminErrs = append(app.adminErrs, out)
			}
			s := sha256.Sum256(append(h, out...))
			h = s[:]
		}
		res.ValidTxs = append(res.ValidTxs, tx)
	}
	app.wHash = h
	return res, nil
}

func (app *simpleApp) onCommit(height, round int64, block *gtypes.Block) (interface{}, error) {
	app.hash, app.nonces, app.height = app.wHash, app.wNonces, height
	r := sha256.Sum256(append([]byte("receipts"), app.hash...))
	return gtypes.CommitResult{AppHash: app.hash, ReceiptsHash: r[:]}, nil
}

// ---------------------------------------------------------------------------------------------
// source chain

type snapshot struct {
	stateBytes []byte
	appHash    []byte
	valHash    []byte
	lastVal    []byte
	blockID    gtypes.BlockID
}

type source struct {
	L        int
	changeAt int
	vals     []*chainutil.Key
	ring     chainutil.KeyRing
	gen      *gtypes.GenesisDoc
	blocks   []*gtypes.Block // index h-1
	parts    []*gtypes.PartSet
	valsets  []*gtypes.ValidatorSet // set in force at height h (index h-1)
	snaps    []snapshot             // after block h (index h-1)
	partSize int
}

func copyBlock(b *gtypes.Block) *gtypes.Block {
	bz := wire.BinaryBytes(b)
	var n int
	var err error
	out := wire.ReadBinary(&gtypes.Block{}, bytes.NewReader(bz), 0, &n, &err).(*gtypes.Block)
	if err != nil {
		panic(err)
	}
	return out
}

// buildSource runs a live node of the same kind over L blocks.  Validators A..E have power 1 (total 5); the block
// at height changeAt-1 carries an admin request (signed by all five) raising A to power 4 (total 8).  Both totals
// are = 2 (mod 3), where "more than two thirds" is strictly more than the boundary tally 3 of 5 / 5 of 8.
// Canonical commits are minimal and epoch-specific: {B,C,D,E} (4/5; 4/8 under the new set) before the change,
// {A,B,C} (6/8; 3/5 under the old set) from it on.
func buildSource(base string, L, changeAt int) (*source, error) {
	s := &source{L: L, changeAt: changeAt}
	for _, n := range []string{"A", "B", "C", "D", "E"} {
		s.vals = append(s.vals, chainutil.NewKey("val-"+n))
	}
	s.ring = chainutil.Ring(s.vals...)
	s.gen = chainutil.Genesis(s.vals, []int64{1, 1, 1, 1, 1}, "adminOp")
	dir := filepath.Join(base, fmt.Sprintf("src-%d-%d", L, changeAt))
	app := newSimpleApp()
	kit, err := chainutil.Assemble(app, s.gen, chainutil.NewKey("live-observer"), chainutil.Conf(dir, false))
	if err != nil {
		return nil, err
	}
	app.ang = kit.Ang
	kit.Ang.ConnectApp(app)
	kit.Ang.VerifAsmEvents().Start()
	defer func() {
		kit.Ang.VerifAsmEvents().Stop()
		kit.Ang.VerifAsmClose()
		os.RemoveAll(dir)
	}()
	s.partSize = kit.Conf.GetInt("block_part_size")
	operator := bytes.Repeat([]byte{0xa1}, 20)
	var lastCommit *gtypes.Commit
	for h := 1; h <= L; h++ {
		st := kit.State()
		txs := []gtypes.Tx{gtypes.Tx(fmt.Sprintf("tx-%d-a", h)), gtypes.Tx(fmt.Sprintf("tx-%d-b", h))}
		if h == changeAt-1 {
			attr := &gtypes.ValidatorAttr{PubKey: s.vals[0].PubBytes(), Power: 4, Cmd: gtypes.ValidatorCmdUpdateNode, Addr: operator, Nonce: 0}
			msg, _ := json.Marshal(attr)
			cmd := &gtypes.AdminOPCmd{CmdType: gtypes.AdminOpChangeValidator, Msg: msg, Time: chainutil.GenesisTime}
			for _, k := range s.vals {
				cmd.SInfos = append(cmd.SInfos, gtypes.SigInfo{PubKey: k.PubBytes(), Signature: k.Sign(msg)})
			}
			cj, _ := json.Marshal(cmd)
			tx := append(append(append([]byte(nil), adminPrefix...), operator...), gtypes.TagAdminOPTx(cj)...)
			txs = append(txs, gtypes.Tx(tx))
		}
		b, parts := chainutil.Proposal(st, txs, []gtypes.Tx{}, lastCommit, nil, s.partSize)
		bid := gtypes.BlockID{Hash: b.Hash(), PartsHeader: parts.Header()}
		s.valsets = append(s.valsets, st.Validators.Copy())
		// the canonical commit is a minimal one: the quorum that is +2/3 under the set in force and NOT under the
		// other epoch's set, so that a verifier bound to the wrong validator set refuses honest blocks
		signers := s.canon(h)
		seen, err := chainutil.Commit(chainutil.ChainID, st.Validators, s.ring, int64(h), 0, bid, func(i int, v *gtypes.Validator) bool { return signers[string(v.Address)] })
		if err != nil {
			return nil, err
		}
		if err := kit.Apply(b, parts, seen, 0); err != nil {
			return nil, fmt.Errorf("live node refused block %d: %v", h, err)
		}
		if len(app.adminErrs) > 0 {
			return nil, fmt.Errorf("admin request failed on the live node: %v", app.adminErrs)
		}
		s.blocks = append(s.blocks, b)
		s.parts = append(s.parts, parts)
		s.snaps = append(s.snaps, snapshot{stateBytes: st.Bytes(), appHash: append([]byte(nil), st.AppHash...),
			valHash: st.Validators.Hash(), lastVal: st.LastValidators.Hash(), blockID: bid})
		lastCommit = seen
	}
	if changeAt > 1 && changeAt <= L {
		if bytes.Equal(s.valsets[changeAt-1].Hash(), s.valsets[changeAt-2].Hash()) {
			return nil, fmt.Errorf("validator set did not change at height %d", changeAt)
		}
	}
	return s, nil
}

func nameSet(names string) map[string]bool {
	want := map[string]bool{}
	for _, c := range names {
		want[string(chainutil.NewKey("val-"+string(c)).Addr)] = true
	}
	return want
}

// epoch2 reports whether height h lies at or after the validator-set change.
func (s *source) epoch2(h int) bool { return s.changeAt > 1 && h >= s.changeAt }

// canon: signers of the canonical commit of block h -- {B,C,D,E} (4/5) before the change, {A,B,C} (6/8) after it.
func (s *source) canon(h int) map[string]bool {
	if s.epoch2(h) {
		return nameSet("ABC")
	}
	return nameSet("BCDE")
}

// commitBy returns a commit for source block h (1-based) by the chosen validators of the set in force.
func (s *source) commitBy(h int, names string) *gtypes.Commit {
	vs := s.valsets[h-1]
	want := nameSet(names)
	c := &gtypes.Commit{BlockID: s.snaps[h-1].blockID, Precommits: make([]*gtypes.Vote, vs.Size())}
	for i, val := range vs.Validators {
		if want[string(val.Address)] {
			c.Precommits[i] = chainutil.SignedVote(chainutil.ChainID, vs, i, s.ring[string(val.Address)], int64(h), 0, c.BlockID)
		}
	}
	return c
}

// serve returns what a peer of the given class sends for height h; variant selects among the concrete
// tamperings the class stands for.
func (s *source) serve(h int, class string, variant int) (*gtypes.Block, string) {
	b := copyBlock(s.blocks[h-1])
	epoch2 := s.epoch2(h - 1) // is the block whose commit b carries (h-1) in the second epoch?
	switch class {
	case "good":
		return b, "good"
	case "body":
		switch variant % 7 {
		case 6:
			b.Data = nil
			return b, "Data missing (LastCommit intact)"
		case 0:
			b.Data.Txs = append(b.Data.Txs, gtypes.Tx("injected"))
			return b, "txs appended, header untouched"
		case 1:
			b.Data.Txs = append(gtypes.Txs{gtypes.Tx("injected")}, b.Data.Txs[1:]...)
			b.Header.DataHash = nil
			b.FillHeader()
			return b, "first tx replaced, data hash recomputed"
		case 2:
			b.Header.AppHash = append([]byte{0x01}, b.Header.AppHash...)
			return b, "header AppHash altered"
		case 3:
			b.Header.Extra = []byte("x")
			return b, "header Extra altered (not covered by the header hash)"
		case 4:
			b.Header.Time = b.Header.Time.Add(time.Second)
			return b, "header Time altered"
		default:
			b.Data.ExTxs = append(b.Data.ExTxs, gtypes.Tx("injected-ex"))
			return b, "extra tx appended"
		}
	case "subvotes":
		if h == 1 {
			b.Header.Extra = []byte("y") // block 1 has no commit to thin out
			return b, "header Extra altered"
		}
		// another commit than the canonical one that also holds +2/3 of the set in force
		if epoch2 {
			b.LastCommit = s.commitBy(h-1, "ACD") // 6/8
			return b, "LastCommit by A,C,D (6/8) instead of the canonical A,B,C"
		}
		b.LastCommit = s.commitBy(h-1, "ABCD") // 4/5
		return b, "LastCommit by A,B,C,D (4/5) instead of the canonical B,C,D,E"
	case "boundaryvotes":
		// exactly the largest tally that is NOT more than two thirds of the set in force
		if h == 1 {
			b.Header.Extra = []byte("w")
			return b, "header Extra altered"
		}
		if epoch2 {
			if variant%2 == 0 {
				b.LastCommit = s.commitBy(h-1, "AB") // 5/8
				return b, "LastCommit by A,B: 5 of 8"
			}
			b.LastCommit = s.commitBy(h-1, "AE") // 5/8
			return b, "LastCommit by A,E: 5 of 8"
		}
		if variant%2 == 0 {
			b.LastCommit = s.commitBy(h-1, "CDE") // 3/5
			return b, "LastCommit by C,D,E: 3 of 5"
		}
		b.LastCommit = s.commitBy(h-1, "ABD") // 3/5
		return b, "LastCommit by A,B,D: 3 of 5"
	case "fewvotes":
		if h == 1 {
			b.LastCommit = &gtypes.Commit{Precommits: []*gtypes.Vote{nil}}
			return b, "block 1 with a non-empty LastCommit"
		}
		switch variant % 7 {
		case 6:
			// precommits of everybody, validly signed for a DIFFERENT block id, under a commit envelope that names the
			// genuine block (Commit.BlockID is covered by no hash and no signature: only the votes may be believed)
			vs := s.valsets[h-2]
			other := s.snaps[h-2].blockID
			other.Hash = append([]byte{0x66}, other.Hash[1:]...)
			c := &gtypes.Commit{BlockID: s.snaps[h-2].blockID, Precommits: make([]*gtypes.Vote, vs.Size())}
			for i, val := range vs.Validators {
				c.Precommits[i] = chainutil.SignedVote(chainutil.ChainID, vs, i, s.ring[string(val.Address)], int64(h-1), 0, other)
			}
			b.LastCommit = c
			return b, "precommits for another block id under a commit envelope naming the genuine block"
		case 0, 1:
			// the quorum of the OTHER epoch: sufficient under the other validator set, not under the one in force
			if epoch2 {
				b.LastCommit = s.commitBy(h-1, "BCDE") // 4/8
				return b, "LastCommit by B,C,D,E only (4/8; would be 4/5 under the old set)"
			}
			b.LastCommit = s.commitBy(h-1, "AB") // 2/5
			return b, "LastCommit by A,B only (2/5)"
		case 2:
			for i := range b.LastCommit.Precommits {
				b.LastCommit.Precommits[i] = nil
			}
			return b, "all precommits removed (nil slots)"
		case 3:
			b.LastCommit.Precommits = nil
			return b, "empty precommit list"
		case 4:
			c := s.commitBy(h-1, "ABCDE")
			v := *c.Precommits[1]
			v.Signature = s.ring[string(s.valsets[h-2].Validators[1].Address)].Priv.Sign([]byte("something else"))
			c.Precommits[1] = &v
			b.LastCommit = c
			return b, "one precommit with a signature over another message"
		default:
			// precommits of everybody, validly signed, for a DIFFERENT block id
			vs := s.valsets[h-2]
			other := s.snaps[h-2].blockID
			other.Hash = append([]byte{0x77}, other.Hash[1:]...)
			c := &gtypes.Commit{BlockID: other, Precommits: make([]*gtypes.Vote, vs.Size())}
			for i, val := range vs.Validators {
				c.Precommits[i] = chainutil.SignedVote(chainutil.ChainID, vs, i, s.ring[string(val.Address)], int64(h-1), 0, other)
			}
			b.LastCommit = c
			return b, "precommits for another block id"
		}
	case "voteidx":
		if h == 1 {
			b.Header.Extra = []byte("z")
			return b, "header Extra altered"
		}
		c := s.commitBy(h-1, "ABCDE")
		n := len(c.Precommits)
		switch variant % 3 {
		case 0:
			v := *c.Precommits[0]
			v.ValidatorIndex = (v.ValidatorIndex + 1) % n
			c.Precommits[0] = &v
			b.LastCommit = c
			return b, "precommit 0 carries validator index 1"
		case 1:
			v := *c.Precommits[n-1]
			v.ValidatorAddress = append([]byte(nil), c.Precommits[0].ValidatorAddress...)
			c.Precommits[n-1] = &v
			b.LastCommit = c
			return b, "last precommit carries validator 0's address"
		default:
			v := *c.Precommits[1]
			v.ValidatorIndex, v.ValidatorAddress = c.Precommits[2].ValidatorIndex, append([]byte(nil), c.Precommits[2].ValidatorAddress...)
			c.Precommits[1] = &v
			b.LastCommit = c
			return b, "precommit 1 carries index and address of validator 2"
		}
	case "nilpart":
		if variant%2 == 1 {
			b.Data, b.LastCommit = nil, nil
			return b, "LastCommit and Data missing"
		}
		b.LastCommit = nil
		return b, "LastCommit missing"
	case "nilhdr":
		switch variant % 2 {
		case 0:
			b.Header = nil
			return b, "Header missing"
		default:
			return nil, "no block in the response"
		}
	}
	panic("unknown class " + class)
}

// ---------------------------------------------------------------------------------------------
// scripted peer

type scriptReactor struct {
	p2p.BaseReactor
	mu        sync.Mutex
	requested map[int64]int
	peer      *p2p.Peer // the syncing node as seen from here
}

func newScriptReactor() *scriptReactor {
	r := &scriptReactor{requested: map[int64]int{}}
	r.BaseReactor = *p2p.NewBaseReactor("ScriptedPeer", r)
	return r
}

func (r *scriptReactor) GetChannels() []*p2p.ChannelDescriptor {
	var out []*p2p.ChannelDescriptor
	for _, id := range []byte{0x20, 0x21, 0x22, 0x23, 0x30, blockchain.BlockchainChannel} {
		out = append(out, &p2p.ChannelDescriptor{ID: id, Priority: 5, SendQueueCapacity: 100})
	}
	return out
}
func (r *scriptReactor) AddPeer(peer *p2p.Peer) {
	r.mu.Lock()
	r.peer = peer
	r.mu.Unlock()
}
func (r *scriptReactor) RemovePeer(peer *p2p.Peer, reason interface{}) {}
func (r *scriptReactor) Receive(chID byte, src *p2p.Peer, msgBytes []byte) {
	if chID != blockchain.BlockchainChannel {
		return
	}
	kind, h, _, err := blockchain.VerifDecode(msgBytes)
	if err == nil && kind == "blockRequest" {
		r.mu.Lock()
		r.requested[h]++
		r.mu.Unlock()
	}
}

type speer struct {
	name string
	sw   *p2p.Switch
	r    *scriptReactor
	key  string // p2p key under which the syncing node knows this peer
}

func (p *speer) send(msg interface{}) bool {
	p.r.mu.Lock()
	peer := p.r.peer
	p.r.mu.Unlock()
	if peer == nil {
		return false
	}
	return peer.Send(blockchain.BlockchainChannel, msg)
}

// ---------------------------------------------------------------------------------------------
// worker environment

type env struct {
	base    string
	sources map[string]*source
	seq     int
	wait    time.Duration
}

func newEnv() *env {
	chainutil.Init()
	blockchain.VerifSetPeerTimeoutSeconds(3600) // timeouts are fired by the behaviour, never by the wall clock
	base := os.Getenv("VERIF_FS_BASE") // set by the supervisor, which removes it whatever happens to this process
	if base != "" {
		if err := os.MkdirAll(base, 0700); err != nil {
			panic(err)
		}
	} else {
		base = scratchRoot()
	}
	w := 30 * time.Second
	if v, err := strconv.Atoi(os.Getenv("VERIF_FS_WAIT_MS")); err == nil && v > 0 {
		w = time.Duration(v) * time.Millisecond
	}
	return &env{base: base, sources: map[string]*source{}, wait: w}
}

func (e *env) cleanup() { os.RemoveAll(e.base) }

func (e *env) source(L, changeAt int) (*source, error) {
	k := fmt.Sprintf("%d/%d", L, changeAt)
	if s, ok := e.sources[k]; ok {
		return s, nil
	}
	s, err := buildSource(e.base, L, changeAt)
	if err != nil {
		return nil, err
	}
	e.sources[k] = s
	return s, nil
}

// view is the projection of the real node onto the specification's variables.
type view struct {
	Height   int64
	Req      map[int64][2]string // height -> (peer name | none, "blk" | none)
	PeerH    map[string]int64
	Conn     []string
	Switched bool
	Store    int64
	State    int64 // height of the state last saved (State.Save() is the executer's final statement for a block)
}

type syncNode struct {
	kit      *chainutil.Kit
	app      *simpleApp
	pool     *blockchain.BlockPool
	switched chan struct{}
	peers    map[string]*speer
	byKey    map[string]string
	dir      string
}

func (n *syncNode) isSwitched() bool {
	select {
	case <-n.switched:
		return true
	default:
		return false
	}
}

func (n *syncNode) view(L int) view {
	pv := n.pool.VerifView(int64(L))
	v := view{Height: pv.Height, Req: map[int64][2]string{}, PeerH: map[string]int64{}, Switched: n.isSwitched(), Store: n.kit.Ang.VerifAsmStore().Height(), State: n.kit.SavedHeight()}
	for _, r := range pv.Requesters {
		p, b := "none", "none"
		if r.PeerID != "" {
			if name, ok := n.byKey[r.PeerID]; ok {
				p = name
			} else {
				p = "?" + r.PeerID
			}
		}
		if r.HasBlock {
			b = "blk"
		}
		v.Req[r.Height] = [2]string{p, b}
	}
	for name := range n.peers {
		v.PeerH[name] = -1
	}
	for key, p := range pv.Peers {
		if name, ok := n.byKey[key]; ok {
			v.PeerH[name] = p.Height
		}
	}
	for _, p := range n.kit.Switch.Peers().List() {
		if name, ok := n.byKey[p.Key]; ok {
			v.Conn = append(v.Conn, name)
		}
	}
	sort.Strings(v.Conn)
	return v
}

func (n *syncNode) stop() {
	for _, p := range n.peers {
		p.sw.Stop()
	}
	n.kit.Switch.Stop()
	n.kit.Ang.VerifAsmEvents().Stop()
	n.kit.Ang.VerifAsmClose()
	os.RemoveAll(n.dir)
}

func (e *env) newSyncNode(src *source, peerNames []string) (*syncNode, error) {
	e.seq++
	dir := filepath.Join(e.base, fmt.Sprintf("n%d", e.seq))
	app := newSimpleApp()
	conf := chainutil.Conf(dir, true)
	kit, err := chainutil.Assemble(app, src.gen, chainutil.NewKey(fmt.Sprintf("syncer-%d", e.seq)), conf)
	if err != nil {
		return nil, err
	}
	app.ang = kit.Ang
	kit.Ang.ConnectApp(app)
	n := &syncNode{kit: kit, app: app, switched: make(chan struct{}), peers: map[string]*speer{}, byKey: map[string]string{}, dir: dir}
	bcr, ok := kit.Switch.Reactor("BLOCKCHAIN").(*blockchain.BlockchainReactor)
	if !ok || !bcr.VerifFastSync() {
		return nil, fmt.Errorf("blockchain reactor not assembled in fast-sync mode")
	}
	n.pool = bcr.VerifPool()
	var once sync.Once
	gtypes.AddListenerForEvent(kit.Ang.VerifAsmEvents(), "verif", gtypes.EventStringSwitchToConsensus(), func(gtypes.TMEventData) {
		once.Do(func() { close(n.switched) })
	})
	if err := kit.Ang.Start(); err != nil {
		return nil, err
	}
	for _, name := range peerNames {
		pconf := viper.New()
		sw := p2p.NewSwitch(pconf)
		k := chainutil.NewKey(fmt.Sprintf("peer-%s-%d", name, e.seq))
		sw.SetNodeInfo(&p2p.NodeInfo{PubKey: k.Pub, Moniker: name, Network: chainutil.ChainID, Version: "0.9.0", ListenAddr: "127.0.0.1:0"})
		sw.SetNodePrivKey(k.Priv)
		r := newScriptReactor()
		sw.AddReactor("SCRIPT", r)
		if _, err := sw.Start(); err != nil {
			return nil, err
		}
		p2p.Connect2Switches([]*p2p.Switch{kit.Switch, sw}, 0, 1)
		sp := &speer{name: name, sw: sw, r: r}
		for _, p := range kit.Switch.Peers().List() {
			if p.NodeInfo.Moniker == name {
				sp.key = p.Key
			}
		}
		if sp.key == "" {
			return nil, fmt.Errorf("peer %s did not connect", name)
		}
		n.peers[name] = sp
		n.byKey[sp.key] = name
	}
	return n, nil
}

// ---------------------------------------------------------------------------------------------

func specReq(post map[string]interface{}, L int) map[int64][2]string {
	out := map[int64][2]string{}
	get := func(h int) map[string]interface{} {
		switch x := post["req"].(type) {
		case []interface{}:
			return x[h-1].(map[string]interface{})
		case map[string]interface{}:
			return x[fmt.Sprint(h)].(map[string]interface{})
		}
		return nil
	}
	for h := 1; h <= L; h++ {
		m := get(h)
		b := "none"
		if mbt.Str(m["b"]) != "none" {
			b = "blk"
		}
		out[int64(h)] = [2]string{mbt.Str(m["p"]), b}
	}
	return out
}

func matches(v view, post map[string]interface{}, L int, peerNames []string) (bool, string) {
	wantSwitched := post["switched"].(bool)
	if v.Switched != wantSwitched {
		return false, "switched"
	}
	wantH := int64(mbt.Int(post["height"]))
	if v.Height != wantH {
		return false, "height"
	}
	if v.Store != int64(len(post["applied"].([]interface{}))) {
		return false, "store height"
	}
	if v.State != v.Store {
		return false, "state height (block being executed)"
	}
	if wantSwitched {
		return true, "" // the pool is stopped; its requesters no longer matter
	}
	wr := specReq(post, L)
	for h := wantH; h <= int64(L); h++ {
		got, ok := v.Req[h]
		if !ok {
			got = [2]string{"none", "none"}
		}
		if got != wr[h] {
			return false, fmt.Sprintf("req[%d]", h)
		}
	}
	ph := post["peerH"].(map[string]interface{})
	for _, p := range peerNames {
		if v.PeerH[p] != int64(mbt.Int(ph[p])) {
			return false, "peerH[" + p + "]"
		}
	}
	var wc []string
	for _, c := range post["conn"].([]interface{}) {
		wc = append(wc, c.(string))
	}
	sort.Strings(wc)
	if fmt.Sprint(wc) != fmt.Sprint(v.Conn) {
		return false, "conn"
	}
	return true, ""
}

func isEnv(a string) bool {
	return a == "Report" || a == "Deliver" || a == "Disconnect" || a == "Timeout"
}

// run replays one behaviour and returns the function that releases the node (run by the caller, with a time limit).
func (e *env) run(res *result, tr mbt.Trace) (cleanup func()) {
	fail := func(si int, st mbt.Step, kind string, prop bool, key, detail string, want, got interface{}) {
		res.Failures = append(res.Failures, mbt.Failure{TraceID: tr.ID, Step: si, Action: fmt.Sprintf("%s%v", st.A, st.Args),
			Kind: kind, Property: prop, Key: key, Detail: detail, Want: want, Got: got})
	}
	L := mbt.Int(tr.Cfg["L"])
	changeAt := mbt.Int(tr.Cfg["ChangeAt"])
	variant := 0
	if v, ok := tr.Cfg["Variant"]; ok {
		variant = mbt.Int(v)
	}
	var peerNames []string
	for _, p := range tr.Cfg["Peers"].([]interface{}) {
		peerNames = append(peerNames, p.(string))
	}
	src, err := e.source(L, changeAt)
	if err != nil {
		fail(0, mbt.Step{}, "error", false, "source-chain", err.Error(), nil, nil)
		return
	}
	n, err := e.newSyncNode(src, peerNames)
	if err != nil {
		fail(0, mbt.Step{}, "error", false, "node-setup", err.Error(), nil, nil)
		return
	}
	cleanup = n.stop

	// invariant checks on the real node, independent of the specification
	checkStore := func(si int, st mbt.Step) bool {
		store := n.kit.Ang.VerifAsmStore()
		ok := true
		for h := int64(1); h <= store.Height(); h++ {
			meta := store.LoadBlockMeta(h)
			res.Checks++
			if h > int64(L) || meta == nil || !bytes.Equal(meta.Hash, src.snaps[h-1].blockID.Hash) || !meta.PartsHeader.Equals(src.snaps[h-1].blockID.PartsHeader) {
				fail(si, st, "property", true, "tampered-block-stored", fmt.Sprintf("block %d in the store of the syncing node is not the source chain's block", h), nil, nil)
				ok = false
			} else if blk := store.LoadBlock(h); blk == nil || !bytes.Equal(wire.BinaryBytes(blk), wire.BinaryBytes(src.blocks[h-1])) {
				fail(si, st, "property", true, "tampered-block-stored", fmt.Sprintf("block %d loaded from the store differs from the source block", h), nil, nil)
				ok = false
			}
		}
		return ok
	}
	checkEnd := func(si int, st mbt.Step) {
		stt := n.kit.State()
		h := stt.LastBlockHeight
		store := n.kit.Ang.VerifAsmStore()
		res.Checks++
		if store.Height() != h {
			fail(si, st, "property", true, "state-store-height", "state and block store of the syncing node are at different heights", store.Height(), h)
			return
		}
		if h == 0 {
			return
		}
		sn := src.snaps[h-1]
		diff := []string{}
		if !bytes.Equal(stt.Validators.Hash(), sn.valHash) {
			diff = append(diff, "Validators")
		}
		if !bytes.Equal(stt.LastValidators.Hash(), sn.lastVal) {
			diff = append(diff, "LastValidators")
		}
		if !bytes.Equal(stt.AppHash, sn.appHash) || !bytes.Equal(n.app.hash, sn.appHash) {
			diff = append(diff, "AppHash")
		}
		if !stt.LastBlockID.Equals(sn.blockID) {
			diff = append(diff, "LastBlockID")
		}
		if len(diff) == 0 && !bytes.Equal(stt.Bytes(), sn.stateBytes) {
			diff = append(diff, "State.Bytes")
		}
		if len(diff) > 0 {
			fail(si, st, "property", true, "end-state-differs:"+diff[0], fmt.Sprintf("after syncing to height %d the node's state differs from the live node's in %v", h, diff), nil, nil)
		}
		// the commit kept for the last block must justify it under the set in force at that height
		seen := store.LoadSeenCommit(h)
		res.Checks++
		if seen == nil || src.valsets[h-1].VerifyCommit(chainutil.ChainID, sn.blockID, h, seen) != nil {
			fail(si, st, "property", true, "seen-commit-unjustified", fmt.Sprintf("the commit stored for block %d does not hold +2/3 of the set in force", h), nil, nil)
		}
	}

	tampered := map[int]string{}
	for si := 0; si < len(tr.Steps); si++ {
		st := tr.Steps[si]
		res.Steps++
		if !isEnv(st.A) {
			// internal steps happen by themselves; they are awaited after the environment step before them
			if si == 0 {
				fail(si, st, "error", false, "", "behaviour starts with an internal step", nil, nil)
				return
			}
			continue
		}
		switch st.A {
		case "Report":
			p := n.peers[mbt.Str(st.Args[0])]
			p.send(blockchain.VerifStatusResponse(int64(mbt.Int(st.Args[1]))))
		case "Deliver":
			p := n.peers[mbt.Str(st.Args[0])]
			h := mbt.Int(st.Args[1])
			class := mbt.Str(st.Args[2])
			blk, what := src.serve(h, class, variant+si)
			if class != "good" {
				tampered[h] = class + ": " + what
				res.Counters["tamper:"+class]++
			}
			p.send(blockchain.VerifBlockResponse(blk))
		case "Disconnect":
			n.peers[mbt.Str(st.Args[0])].sw.Stop()
		case "Timeout":
			if !n.pool.VerifFirePeerTimeout(n.peers[mbt.Str(st.Args[0])].key) {
				fail(si, st, "mismatch", false, "timeout-unknown-peer", "peer to time out is not in the pool", nil, nil)
				return
			}
		}
		// the state the specification reaches through the urgent internal steps that follow
		j := si
		for j+1 < len(tr.Steps) && !isEnv(tr.Steps[j+1].A) {
			j++
		}
		post := tr.Steps[j].Post
		if tr.Steps[j].A == "Switch" && mbt.Str(tr.Steps[j].Args[0]) == "crash" {
			// the specification (of the unguarded code) predicts that the node dies at the switch: let it
			t0 := time.Now()
			for !n.isSwitched() && time.Since(t0) < 5*time.Second {
				time.Sleep(10 * time.Millisecond)
			}
			time.Sleep(500 * time.Millisecond)
			fail(j, tr.Steps[j], "mismatch", false, "expected-crash-did-not-happen", "the specification predicts a crash at the switch; the node survived", nil, nil)
			return
		}
		deadline := time.Now().Add(e.wait)
		var v view
		var why string
		ok := false
		for {
			v = n.view(L)
			if !checkStore(j, tr.Steps[j]) {
				return
			}
			ok, why = matches(v, post, L, peerNames)
			if ok || time.Now().After(deadline) {
				break
			}
			time.Sleep(5 * time.Millisecond)
		}
		res.Checks++
		for k := si + 1; k <= j; k++ {
			res.Counters["internal:"+tr.Steps[k].A]++
		}
		if !ok {
			// what kind of disagreement is it?
			wantH := int64(mbt.Int(post["height"]))
			prop := false
			key := "state:" + why
			detail := fmt.Sprintf("the node did not reach the specified state within %v (first difference: %s); tampered deliveries so far: %v", e.wait, why, tampered)
			if v.Store > int64(len(post["applied"].([]interface{}))) || v.Height > wantH {
				prop, key = true, "applied-unjustified"
				detail = "the node stored and executed a block the specification says must be refused; " + detail
			} else if v.Switched && !post["switched"].(bool) {
				prop, key = true, "switched-early"
			} else if v.Height < wantH {
				// did the node refuse (redo) a block that is the source block, justified by the next one?
				first := specFirstPeer(tr.Steps[si].Post, wantH-1)
				if first != "" && v.PeerH[first] == -1 {
					prop, key = true, "justified-block-refused"
					detail = "the node dropped the peer that served a source block justified by +2/3 of the set in force instead of applying it; " + detail
				}
			}
			fail(j, tr.Steps[j], "mismatch", prop, key, detail, post, v)
			checkEnd(j, tr.Steps[j])
			return
		}
		si = j
		if v.Switched {
			break
		}
	}
	last := len(tr.Steps) - 1
	checkStore(last, tr.Steps[last])
	checkEnd(last, tr.Steps[last])
	if n.isSwitched() {
		res.Counters["switched"]++
		// give the consensus reactor's own listener (reconstructLastCommit, consensus start) time to run or die
		time.Sleep(150 * time.Millisecond)
	}
	res.Counters["applied_blocks"] += int(n.kit.Ang.VerifAsmStore().Height())
	if changeAt > 1 && int(n.kit.Ang.VerifAsmStore().Height()) >= changeAt {
		res.Counters["synced_across_valset_change"]++
	}
	return
}

// specFirstPeer returns the peer holding the block at height h in a specification state ("" if none).
func specFirstPeer(post map[string]interface{}, h int64) string {
	if h < 1 {
		return ""
	}
	switch x := post["req"].(type) {
	case []interface{}:
		if int(h) <= len(x) {
			m := x[h-1].(map[string]interface{})
			if mbt.Str(m["b"]) != "none" {
				return mbt.Str(m["p"])
			}
		}
	}
	return ""
}
