package main

import (
	"encoding/json"
	"fmt"
	"os"

	"verifharness/mbt"
)

// probe replays the behaviours of a trace file in-process (no worker isolation) and prints the result;
// a crash of the node is then visible as the crash of this process.  `fastsync -probe traces.json`
func probe(path string) {
	traces, err := mbt.LoadTraces(path)
	if err != nil {
		fmt.Fprintln(os.Stderr, err)
		os.Exit(2)
	}
	e := newEnv()
	defer e.cleanup()
	for _, tr := range traces {
		res := result{Counters: map[string]int{}}
		if cl := e.run(&res, tr); cl != nil {
			cl()
		}
		b, _ := json.MarshalIndent(res, "", " ")
		fmt.Println(string(b))
	}
}
