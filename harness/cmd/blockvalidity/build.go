package main

import (
	"bytes"
	"fmt"
	"math/rand"
	"time"

	crypto "github.com/dappledger/AnnChain/gemmill/go-crypto"
	"github.com/dappledger/AnnChain/gemmill/go-wire"
	sm "github.com/dappledger/AnnChain/gemmill/state"
	"github.com/dappledger/AnnChain/gemmill/types"

	"verifharness/mbt"
)

// ground is the real chain state an abstract block is concretised on.
type ground struct {
	chainID  string
	st       *sm.State // copy of the state after height Last
	n        int
	privs    []crypto.PrivKeyEd25519 // address order
	addrs    [][]byte
	round    int64  // round of the "good" precommits (the round height Last was really committed in)
	proposer []byte // address of the proposer of (Last+1, 0)
	outsider crypto.PrivKeyEd25519
}

// abstractBlock is the value of variable blk of BlockValidity.tla.
type abstractBlock struct {
	f     map[string]string
	slots []string
}

func parseBlk(v interface{}) (abstractBlock, error) {
	m, ok := v.(map[string]interface{})
	if !ok {
		return abstractBlock{}, fmt.Errorf("blk is not a record: %#v", v)
	}
	a := abstractBlock{f: map[string]string{}}
	for k, x := range m {
		if k == "slots" {
			switch sl := x.(type) {
			case []interface{}:
				for _, c := range sl {
					a.slots = append(a.slots, mbt.Str(c))
				}
			case map[string]interface{}:
				for i := 1; i <= len(sl); i++ {
					a.slots = append(a.slots, mbt.Str(sl[fmt.Sprint(i)]))
				}
			default:
				return a, fmt.Errorf("slots: %#v", x)
			}
			continue
		}
		a.f[k] = mbt.Str(x)
	}
	return a, nil
}

func flip(b []byte, rng *rand.Rand) []byte {
	c := append([]byte(nil), b...)
	if len(c) == 0 {
		return []byte{0x5a, byte(rng.Intn(256))}
	}
	c[rng.Intn(len(c))] ^= 1 << uint(rng.Intn(8))
	return c
}

func randBytes(n int, rng *rand.Rand) []byte {
	b := make([]byte, n)
	rng.Read(b)
	return b
}

func (g *ground) sign(signer int, chain string, v *types.Vote) crypto.Signature {
	return g.privs[signer].Sign(types.SignBytes(chain, v))
}

// otherBlockID returns a block id that differs from id (hash, parts header or both).
func otherBlockID(id types.BlockID, rng *rand.Rand) types.BlockID {
	o := types.BlockID{Hash: append([]byte(nil), id.Hash...), PartsHeader: types.PartSetHeader{Total: id.PartsHeader.Total, Hash: append([]byte(nil), id.PartsHeader.Hash...)}}
	switch rng.Intn(3) {
	case 0:
		o.Hash = flip(o.Hash, rng)
	case 1:
		if rng.Intn(2) == 0 {
			o.PartsHeader.Total++
		} else {
			o.PartsHeader.Hash = flip(o.PartsHeader.Hash, rng)
		}
	default:
		o.Hash = randBytes(20, rng)
		o.PartsHeader = types.PartSetHeader{Total: 1, Hash: randBytes(20, rng)}
	}
	return o
}

// concretise builds the real block for an abstract one.  Every choice that the specification leaves open (which
// wrong value, which other validator's key, ...) is drawn from rng; all slots of one class share the wrong height /
// wrong round, as the specification assumes.
func (g *ground) concretise(a abstractBlock, rng *rand.Rand, tag string) (*types.Block, string) {
	st := g.st
	last := st.LastBlockHeight
	desc := ""
	note := func(f string, x ...interface{}) { desc += fmt.Sprintf(f, x...) + ";" }
	pick := func(n int) int { return rng.Intn(n) }

	h := &types.Header{ChainID: g.chainID, Height: last + 1, Time: st.LastBlockTime.Add(time.Second),
		LastBlockID: st.LastBlockID, ValidatorsHash: st.Validators.Hash(), AppHash: append([]byte(nil), st.AppHash...),
		ReceiptsHash: append([]byte(nil), st.ReceiptsHash...), ProposerAddress: append([]byte(nil), g.proposer...)}
	data := &types.Data{}
	for k := 0; k < 1+pick(2); k++ {
		data.Txs = append(data.Txs, types.Tx(fmt.Sprintf("bv-%s-%d", tag, k)))
	}
	if pick(3) == 0 {
		data.ExTxs = append(data.ExTxs, types.Tx("bv-ex-"+tag))
	}
	h.NumTxs = int64(len(data.Txs) + len(data.ExTxs))

	switch a.f["chain"] {
	case "wrong":
		h.ChainID = []string{g.chainID + "x", "", "other-chain"}[pick(3)]
		note("chain=%q", h.ChainID)
	}
	switch a.f["height"] {
	case "same":
		h.Height = last
	case "skip":
		h.Height = last + 2
	case "zero":
		h.Height = 0
	case "neg":
		h.Height = []int64{-1, -(last + 1)}[pick(2)]
	}
	switch a.f["ntx"] {
	case "wrong":
		h.NumTxs = []int64{h.NumTxs + 1, 0, -1}[pick(3)]
		note("numtxs=%d", h.NumTxs)
	}
	switch a.f["lbid"] {
	case "hash":
		if last == 0 || pick(3) > 0 {
			h.LastBlockID.Hash = flip(h.LastBlockID.Hash, rng)
		} else {
			h.LastBlockID.Hash = nil
		}
		note("lbid.hash=%X", h.LastBlockID.Hash)
	case "parts":
		if pick(2) == 0 {
			h.LastBlockID.PartsHeader.Total++
		} else {
			h.LastBlockID.PartsHeader.Hash = flip(h.LastBlockID.PartsHeader.Hash, rng)
		}
		note("lbid.parts=%v", h.LastBlockID.PartsHeader)
	}
	switch a.f["app"] {
	case "wrong":
		if len(h.AppHash) > 0 && pick(3) == 0 {
			h.AppHash = nil
		} else {
			h.AppHash = flip(h.AppHash, rng)
		}
		note("app=%X", h.AppHash)
	}
	switch a.f["rcpt"] {
	case "wrong":
		if len(h.ReceiptsHash) > 0 && pick(3) == 0 {
			h.ReceiptsHash = nil
		} else {
			h.ReceiptsHash = flip(h.ReceiptsHash, rng)
		}
		note("rcpt=%X", h.ReceiptsHash)
	}
	switch a.f["vhash"] {
	case "wrong":
		switch pick(4) {
		case 0:
			h.ValidatorsHash = flip(h.ValidatorsHash, rng)
		case 1:
			vs := st.Validators.Copy()
			vs.IncrementAccum(1)
			h.ValidatorsHash = vs.Hash() // the set of another height
		case 2:
			h.ValidatorsHash = randBytes(20, rng)
		default:
			h.ValidatorsHash = nil // makes Header.Hash() nil
		}
		note("vhash=%X", h.ValidatorsHash)
	}
	switch a.f["time"] {
	case "wrong":
		h.Time = []time.Time{st.LastBlockTime.Add(-time.Hour), st.LastBlockTime, time.Unix(0, 0)}[pick(3)]
	}
	switch a.f["prop"] {
	case "validator":
		// another member of the validator set of THIS height
		for _, v := range st.Validators.Validators {
			if !bytes.Equal(v.Address, g.proposer) {
				h.ProposerAddress = append([]byte(nil), v.Address...)
				if pick(2) == 0 {
					break
				}
			}
		}
	case "outsider":
		h.ProposerAddress = [][]byte{g.outsider.PubKey().Address(), nil, flip(g.proposer, rng), {1, 2, 3}}[pick(4)]
		note("prop=%X", h.ProposerAddress)
	}

	// ---- the commit
	lastID := st.LastBlockID
	commit := &types.Commit{BlockID: lastID}
	switch a.f["cbid"] {
	case "zero":
		commit.BlockID = types.BlockID{}
	case "other":
		commit.BlockID = otherBlockID(lastID, rng)
	}
	wrongHeight := []int64{last + 1, last - 1, last + 7}[pick(3)]
	wrongRound := g.round + []int64{1, 2, 5}[pick(3)]
	other := otherBlockID(lastID, rng)
	mk := func(i int, class string) *types.Vote {
		v := &types.Vote{ValidatorAddress: append([]byte(nil), g.addrs[i]...), ValidatorIndex: i, Height: last, Round: g.round,
			Type: types.VoteTypePrecommit, BlockID: lastID}
		j := (i + 1) % g.n
		signer := i
		switch class {
		case "missing":
			return nil
		case "good":
		case "nilvote":
			v.BlockID = types.BlockID{}
		case "wrongHeight":
			v.Height = wrongHeight
		case "wrongRound":
			v.Round = wrongRound
		case "wrongType":
			v.Type = types.VoteTypePrevote
		case "otherBlock":
			v.BlockID = other
		case "signedByOther":
			signer = j
		case "nilSignedByOther": // a vote that does not count, labelled i, signed by another validator
			v.BlockID = types.BlockID{}
			signer = j
		case "otherBlockSignedByOther":
			v.BlockID = other
			signer = j
		case "duplicateOfOther":
			v.ValidatorIndex, v.ValidatorAddress = j, append([]byte(nil), g.addrs[j]...)
			signer = j
		case "relabelled":
			switch pick(3) {
			case 0:
				v.ValidatorIndex, v.ValidatorAddress = j, append([]byte(nil), g.addrs[j]...)
			case 1:
				v.ValidatorIndex = -1
			default:
				v.ValidatorIndex, v.ValidatorAddress = g.n+3, randBytes(20, rng)
			}
		case "badSig", "nilBadSig", "otherBlockBadSig":
			// nilBadSig / otherBlockBadSig: a forged vote that does not count for the block anyway
			if class == "nilBadSig" {
				v.BlockID = types.BlockID{}
			} else if class == "otherBlockBadSig" {
				v.BlockID = other
			}
			switch pick(6) {
			case 0: // the validator's genuine signature over another chain id
				v.Signature = g.sign(i, g.chainID+"x", v)
			case 1: // ... over a vote that differs in one signed field
				w := v.Copy()
				switch pick(3) {
				case 0:
					w.Height++
				case 1:
					w.Round++
				default:
					w.BlockID = otherBlockID(v.BlockID, rng) // never the id this vote carries
				}
				v.Signature = g.sign(i, g.chainID, w)
			case 2: // one bit flipped
				s := g.sign(i, g.chainID, v).(crypto.SignatureEd25519)
				s[pick(len(s))] ^= 1 << uint(pick(8))
				v.Signature = s
			case 3: // no signature at all
				v.Signature = nil
			case 4: // an outsider's key
				v.Signature = g.outsider.Sign(types.SignBytes(g.chainID, v))
			default:
				var s crypto.SignatureEd25519
				v.Signature = s
			}
			return v
		default:
			panic("unknown slot class " + class)
		}
		v.Signature = g.sign(signer, g.chainID, v)
		return v
	}
	size := g.n
	if last == 0 {
		size = 0
	}
	switch a.f["csize"] {
	case "short":
		size = g.n - 1
	case "long":
		size = g.n + 1
		if last == 0 {
			size = 1
		}
	case "empty":
		size = 0
	case "full":
		size = g.n
	}
	for k := 0; k < size; k++ {
		if k < g.n {
			class := "good"
			if k < len(a.slots) {
				class = a.slots[k]
			}
			commit.Precommits = append(commit.Precommits, mk(k, class))
		} else {
			commit.Precommits = append(commit.Precommits, mk(g.n-1, "good"))
		}
	}

	// ---- commitments
	h.DataHash = freshDataHash(data)
	h.LastCommitHash = freshCommitHash(commit.Precommits)
	switch a.f["data"] {
	case "wrong":
		switch pick(4) {
		case 0:
			h.DataHash = flip(h.DataHash, rng)
		case 1:
			h.DataHash = nil // Block.FillHeader would fill it in
		case 2: // data replaced after the hash was taken, NumTxs kept right
			data.Txs[0] = types.Tx("swapped-" + tag)
		default:
			h.DataHash = randBytes(20, rng)
		}
		note("datahash=%X", h.DataHash)
	}
	switch a.f["lch"] {
	case "wrong":
		switch {
		case len(h.LastCommitHash) > 0 && pick(3) == 0:
			h.LastCommitHash = nil // Block.FillHeader would fill it in
		case len(h.LastCommitHash) > 0 && pick(2) == 0:
			h.LastCommitHash = randBytes(20, rng)
		default:
			h.LastCommitHash = flip(h.LastCommitHash, rng)
		}
		note("lch=%X", h.LastCommitHash)
	}
	b := &types.Block{Header: h, Data: data, LastCommit: commit}
	switch a.f["nilp"] {
	case "header":
		b.Header = nil
	case "data":
		b.Data = nil
	case "commit":
		b.LastCommit = nil
	}
	return b, desc
}

// overWire returns the block as a peer receives it: encoded with go-wire and decoded into a fresh object
// (no cached hashes).
func overWire(b *types.Block) (*types.Block, []byte, error) {
	bz := wire.BinaryBytes(b)
	var n int
	var err error
	o := wire.ReadBinary(&types.Block{}, bytes.NewReader(bz), types.MaxBlockSize, &n, &err)
	if err != nil {
		return nil, bz, err
	}
	d, ok := o.(*types.Block)
	if !ok || d == nil {
		return nil, bz, fmt.Errorf("decoded %T", o)
	}
	return d, bz, nil
}
