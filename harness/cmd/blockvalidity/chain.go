package main

import (
	"bytes"
	"fmt"
	"io/ioutil"
	"os"

	"github.com/dappledger/AnnChain/gemmill/consensus/pbft"
	crypto "github.com/dappledger/AnnChain/gemmill/go-crypto"
	"github.com/dappledger/AnnChain/gemmill/types"

	"verifharness/csim"
)

// world is a csim system plus the scheduler that plays the gossip layer: every message a node makes visible is
// delivered to every other honest node (unless the policy drops it), lost messages of the current height are
// re-delivered when the system is idle, and timers fire only when nothing else can happen.
type world struct {
	s    *csim.Sim
	dir  string
	sent []sentMsg
	drop func(from int, m csim.Msg, to int) bool
	// priors[i][h] = node i's state after height h (what block h+1 must extend).  The validator set that signs
	// block h (prior[h].lastValidators) is the DRIVER's record: the set the node showed as Validators while it was
	// at height h, not what the node's state calls LastValidators afterwards; histBad collects the heights at which
	// the two differ.
	priors    map[int]map[int64]prior
	hist      *history
	histFired int
	histBad   []problem
}

type sentMsg struct {
	from int
	m    csim.Msg
}

func newWorld(powers []int64, byz []int, hist *history) (*world, error) {
	dir, err := ioutil.TempDir("", "bv-")
	if err != nil {
		return nil, err
	}
	s, err := csim.New(dir, powers, byz, 3)
	if err != nil {
		os.RemoveAll(dir)
		return nil, err
	}
	w := &world{s: s, dir: dir, priors: map[int]map[int64]prior{}}
	if hist.active() {
		w.install(hist)
	}
	s.Start()
	w.snapshot()
	return w, nil
}

func (w *world) close() {
	if w.s != nil {
		w.s.Close()
		w.s = nil
	}
	os.RemoveAll(w.dir)
}

func (w *world) snapshot() {
	for _, i := range w.s.HonestIdx() {
		st := w.s.Nodes[i].CS.GetState()
		if w.priors[i] == nil {
			w.priors[i] = map[int64]prior{}
		}
		h := st.LastBlockHeight
		if _, ok := w.priors[i][h]; !ok {
			p := priorOf(st)
			if prev, ok := w.priors[i][h-1]; ok && h > 0 {
				// the set that signs block h is the one that was in force at height h
				if !sameSet(st.LastValidators, prev.validators) {
					w.histBad = append(w.histBad, problem{"last-validators-history", fmt.Sprintf(
						"node %d after block %d: state.LastValidators (hash %X, total power %d, %d validators) is not the validator set of height %d (hash %X, total power %d, %d validators)",
						i, h, st.LastValidators.Hash(), st.LastValidators.TotalVotingPower(), st.LastValidators.Size(), h,
						prev.validators.Hash(), prev.validators.TotalVotingPower(), prev.validators.Size())})
				}
				p.lastValidators = prev.validators.Copy()
			}
			w.priors[i][h] = p
		}
	}
}

func (w *world) fingerprint() string {
	out := ""
	for _, i := range w.s.HonestIdx() {
		n := w.s.Nodes[i]
		rs := n.CS.GetRoundState()
		out += fmt.Sprintf("%d:%d/%d/%d/%d/%d;", i, rs.Height, rs.Round, rs.Step, len(n.IQ), n.Store.Height())
	}
	return out
}

func (w *world) minStoreHeight() int64 {
	m := int64(-1)
	for _, i := range w.s.HonestIdx() {
		h := w.s.Nodes[i].Store.Height()
		if m == -1 || h < m {
			m = h
		}
	}
	return m
}

// flush lets every node handle its internal queue; each handled message is delivered to all other honest nodes.
func (w *world) flush() (bool, error) {
	progressed := false
	for again := true; again; {
		again = false
		for _, i := range w.s.HonestIdx() {
			n := w.s.Nodes[i]
			if len(n.IQ) == 0 {
				continue
			}
			if rs := n.CS.GetRoundState(); rs.Round > 6 {
				return progressed, fmt.Errorf("no decision within 6 rounds at height %d (nothing is dropped in these rounds: the proposals are being refused): %s", rs.Height, w.fingerprint())
			}
			m, err := w.s.Internal(i)
			if err != nil {
				return progressed, fmt.Errorf("node %d internal: %v", i, err)
			}
			again, progressed = true, true
			w.sent = append(w.sent, sentMsg{i, m})
			for _, j := range w.s.HonestIdx() {
				if j == i || (w.drop != nil && w.drop(i, m, j)) {
					continue
				}
				if err := w.s.Deliver(j, m); err != nil {
					return progressed, fmt.Errorf("deliver %s to %d: %v", m.Key(), j, err)
				}
			}
			w.snapshot()
		}
	}
	return progressed, nil
}

// redeliver offers every node the messages of its current height again (what the gossip routines do).
func (w *world) redeliver() error {
	for _, j := range w.s.HonestIdx() {
		h := w.s.Nodes[j].CS.GetRoundState().Height
		for _, sm := range w.sent {
			if sm.from == j || sm.m.H != h || (w.drop != nil && w.drop(sm.from, sm.m, j)) {
				continue
			}
			if err := w.s.Deliver(j, sm.m); err != nil {
				return err
			}
		}
	}
	w.snapshot()
	return nil
}

// run plays the system until every honest node has committed height target.
func (w *world) run(target int64) error {
	for iter := 0; iter < 4000; iter++ {
		if os.Getenv("BV_DEBUG") != "" && iter%20 == 0 {
			fmt.Fprintf(os.Stderr, "run(%d) iter %d sent %d: %s\n", target, iter, len(w.sent), w.fingerprint())
		}
		if w.minStoreHeight() >= target {
			return nil
		}
		for _, i := range w.s.HonestIdx() {
			if rs := w.s.Nodes[i].CS.GetRoundState(); rs.Round > 6 {
				return fmt.Errorf("no decision within 6 rounds below height %d (nothing is dropped in these rounds: the proposals are being refused): %s", target, w.fingerprint())
			}
		}
		p, err := w.flush()
		if err != nil {
			return err
		}
		if p {
			continue
		}
		before := w.fingerprint()
		if err := w.redeliver(); err != nil {
			return err
		}
		if w.fingerprint() != before {
			continue
		}
		fired := false
		for _, i := range w.s.HonestIdx() {
			ti, err := w.s.Fire(i)
			if err != nil {
				continue
			}
			fired = true
			if err := w.s.Timeout(i, ti.Height, ti.Round, ti.Step); err != nil {
				return err
			}
		}
		w.snapshot()
		if !fired {
			return fmt.Errorf("system is stuck below height %d: %s", target, w.fingerprint())
		}
	}
	return fmt.Errorf("height %d not reached within the step bound: %s", target, w.fingerprint())
}

// dropProposalAt makes every node miss the round-0 proposal of height h for as long as it is in that round and has
// not seen a decision (=> a round change at h, unless one validator decides alone).  A node that has moved on, or
// that waits in the commit step for the decided block, gets the parts from the gossip like everybody else.
func (w *world) dropProposalAt(h int64) func(int, csim.Msg, int) bool {
	return func(from int, m csim.Msg, to int) bool {
		if !(m.H == h && m.R == 0 && (m.T == "P" || m.T == "B")) {
			return false
		}
		rs := w.s.Nodes[to].CS.GetRoundState()
		return rs.Height == h && rs.Round == 0 && rs.Step < pbft.RoundStepCommit
	}
}

// checkCommitted runs the direct C02 oracles on height h of node i's stores; the returned problems are
// violations of the property by the real code.
func (w *world) checkCommitted(i int, h int64) (ps []problem, seenRound int64) {
	add := func(k, f string, a ...interface{}) { ps = append(ps, problem{k, fmt.Sprintf(f, a...)}) }
	n := w.s.Nodes[i]
	p, ok := w.priors[i][h-1]
	if !ok {
		add("no-prior", "node %d: no snapshot of the state after height %d", i, h-1)
		return
	}
	blk := n.Store.LoadBlock(h)
	meta := n.Store.LoadBlockMeta(h)
	if blk == nil || meta == nil {
		add("missing-block", "node %d: block %d is not in the store", i, h)
		return
	}
	bps, _, _ := checkBlock(p, blk)
	for _, x := range bps {
		add("committed-"+x.kind, "node %d height %d: %s", i, h, x.detail)
	}
	id := types.BlockID{Hash: blk.Hash(), PartsHeader: meta.PartsHeader}
	if !bytes.Equal(meta.Hash, id.Hash) {
		add("meta-hash", "node %d height %d: BlockMeta.Hash differs from the hash of the stored block", i, h)
	}
	if h > 1 {
		pm := n.Store.LoadBlockMeta(h - 1)
		if pm == nil || !blk.LastBlockID.Equals(types.BlockID{Hash: pm.Hash, PartsHeader: pm.PartsHeader}) {
			add("committed-prev-link", "node %d height %d: LastBlockID is not the stored block %d", i, h, h-1)
		}
		// toy application of csim: app hash after block h-1 = RIPEMD160("app:" + hash(block h-1))
		if pm != nil && !bytes.Equal(blk.AppHash, crypto.Ripemd160(append([]byte("app:"), pm.Hash...))) {
			add("committed-app-link", "node %d height %d: AppHash is not the application's hash after block %d", i, h, h-1)
		}
	}
	// the commit stored with the block
	seen := n.Store.LoadSeenCommit(h)
	sps, r, _ := verifyCommitIndependently(p.validators, p.chainID, id, h, seen)
	seenRound = r
	for _, x := range sps {
		add("seen-"+x.kind, "node %d: SeenCommit(%d): %s", i, h, x.detail)
	}
	if seen != nil {
		if err := p.validators.VerifyCommit(p.chainID, id, h, seen); err != nil {
			add("seen-verifycommit", "node %d: VerifyCommit rejects SeenCommit(%d): %v", i, h, err)
		}
	}
	// the last-commit embedded in block h (= LoadBlockCommit(h-1)) justifies block h-1
	if h > 1 {
		emb := n.Store.LoadBlockCommit(h - 1)
		pm := n.Store.LoadBlockMeta(h - 1)
		if emb == nil || pm == nil {
			add("missing-block-commit", "node %d: BlockCommit(%d) is not in the store", i, h-1)
		} else {
			if !bytes.Equal(freshCommitHash(emb.Precommits), freshCommitHash(blk.LastCommit.Precommits)) {
				add("block-commit-differs", "node %d: BlockCommit(%d) is not the LastCommit of block %d", i, h-1, h)
			}
			pid := types.BlockID{Hash: pm.Hash, PartsHeader: pm.PartsHeader}
			eps, _, _ := verifyCommitIndependently(p.lastValidators, p.chainID, pid, h-1, emb)
			for _, x := range eps {
				add("embedded-"+x.kind, "node %d: BlockCommit(%d): %s", i, h-1, x.detail)
			}
			if err := p.lastValidators.VerifyCommit(p.chainID, pid, h-1, emb); err != nil {
				add("embedded-verifycommit", "node %d: VerifyCommit rejects BlockCommit(%d): %v", i, h-1, err)
			}
		}
	}
	return
}

// proposal builds the signed proposal message and the part messages for block bytes bz by validator k (1-based).
func (w *world) proposal(k int, height, round int64, bz []byte) (*pbft.ProposalMessage, []*pbft.BlockPartMessage, types.PartSetHeader) {
	ps := types.NewPartSetFromData(bz, w.s.PartSize)
	p := types.NewProposal(height, round, ps.Header(), -1, types.BlockID{})
	p.Signature = w.s.Privs[k-1].Sign(types.SignBytes(csim.ChainID, p))
	var parts []*pbft.BlockPartMessage
	for x := 0; x < ps.Total(); x++ {
		parts = append(parts, &pbft.BlockPartMessage{Height: height, Round: round, Part: ps.GetPart(x)})
	}
	return &pbft.ProposalMessage{Proposal: p}, parts, ps.Header()
}

// inject hands node i a proposal and its parts as peer messages and moves what the node queued for itself
// into the simulator's view of its internal queue.
func (w *world) inject(i int, pm *pbft.ProposalMessage, parts []*pbft.BlockPartMessage, peer string) {
	n := w.s.Nodes[i]
	n.CS.VerifHandlePeer(pm, peer)
	for _, bp := range parts {
		n.CS.VerifHandlePeer(bp, peer)
	}
	for {
		m, ok := n.CS.VerifPopInternal()
		if !ok {
			break
		}
		n.IQ = append(n.IQ, m)
	}
}
