// blockvalidity: C02 - every committed block is valid and carries a verifiable +2/3 commit.
//
// usage: blockvalidity <traces.json>
//
// Each trace carries cfg.mode:
//
//	"mbt"   a behaviour of specs/blockvalidity/BlockValidity.tla: TamperField / TamperSlot steps followed by
//	        Validate(r, vb, vc).  The abstract block of the Validate step is concretised (cfg.variants times, with
//	        different concrete choices) into a real types.Block with real signatures on top of a real chain state
//	        produced by real pbft.ConsensusState nodes (csim), sent over go-wire, and pushed through
//	        State.ValidateBlock -> ConsensusState.ValidateBlock (what enterPrevote calls), Block.ValidateBasic and
//	        ValidatorSet.VerifyCommit.  Verdicts must equal r / vb / vc; independently of the specification an
//	        accepted block must pass this driver's own signature-by-signature check (oracle.go).
//	"byz"   the same abstract block proposed by a Byzantine proposer to the honest nodes of a running system:
//	        every honest node must prevote nil (prevote the block iff r = ok), and the block is never committed.
//	"chain" no steps: real nodes commit cfg.heights heights (round change at height cfg.rc); after that every
//	        committed height of every node is checked directly (links to the state after h-1, header commitments,
//	        SeenCommit(h) and BlockCommit(h-1) re-verified signature by signature, > 2/3 in one round).
package main

import (
	"bytes"
	"fmt"
	"hash/fnv"
	"math/rand"
	"os"
	"strings"

	"github.com/dappledger/AnnChain/gemmill/consensus/pbft"
	crypto "github.com/dappledger/AnnChain/gemmill/go-crypto"
	"github.com/dappledger/AnnChain/gemmill/types"

	"verifharness/csim"
	"verifharness/mbt"
)

func powersOf(cfg map[string]interface{}) []int64 {
	var p []int64
	for _, x := range cfg["Power"].([]interface{}) {
		p = append(p, int64(mbt.Int(x)))
	}
	return p
}

func cfgInt(cfg map[string]interface{}, k string, def int) int {
	if v, ok := cfg[k]; ok && v != nil {
		return mbt.Int(v)
	}
	return def
}

func rngFor(seed int, id string, k int) *rand.Rand {
	h := fnv.New64a()
	fmt.Fprintf(h, "%d/%s/%d", seed, id, k)
	return rand.New(rand.NewSource(int64(h.Sum64())))
}

// classify names the check that produced err (result classes of BlockValidity.tla).
func classify(err error) string {
	if err == nil {
		return "ok"
	}
	s := err.Error()
	for _, p := range [][2]string{
		{"Incomplete block", "nilPart"},
		{"Wrong Block.Header.ChainID", "chainID"},
		{"Wrong Block.Header.Height", "height"},
		{"Wrong Block.Header.NumTxs", "numTxs"},
		{"Wrong Block.Header.LastBlockID", "lastBlockID"},
		{"Wrong Block.Header.DataHash", "dataHash"},
		{"Wrong Block.Header.AppHash", "appHash"},
		{"Wrong Block.Header.ReceiptsHash", "receiptsHash"},
		{"Wrong Block.Header.ValidatorsHash", "validatorsHash"},
		{"Wrong Block.Header.LastCommitHash", "lastCommitHash"},
		{"Commit cannot be for nil block", "commitNilBlock"},
		{"No precommits in commit", "commitEmpty"},
		{"Invalid commit vote. Expected precommit", "commitType"},
		{"Invalid commit precommit height", "commitHeight"},
		{"Invalid commit precommit round", "commitRound"},
		{"Block.Header.ProposerAddress", "proposer"},
		{"Block at height 1", "h1Precommits"},
		{"Invalid block commit size", "commitSize"},
		{"Invalid commit -- nil commit", "vcNilCommit"},
		{"Invalid commit -- wrong set size", "vcSize"},
		{"Invalid commit -- wrong height", "vcHeight"},
		{"Invalid commit -- wrong round", "vcRound"},
		{"Invalid commit -- not precommit", "vcType"},
		{"Invalid commit -- precommit @ index", "vcLabel"},
		{"Invalid commit -- invalid signature", "vcSig"},
		{"Invalid commit -- insufficient voting power", "vcPower"},
	} {
		if strings.HasPrefix(s, p[0]) {
			return p[1]
		}
	}
	return "err:" + s
}

// the code reports "wrong height" with one text for both height checks of VerifyCommit
func normWant(w string) string {
	if w == "vcSlotHeight" {
		return "vcHeight"
	}
	return w
}

type driver struct {
	rep     *mbt.Report
	grounds map[string]*groundWorld
	classes map[string]bool
	sched   map[string][]int // powers -> proposer (1-based) of height h at round 0, index h
}

type groundWorld struct {
	w        *world
	g        *ground
	i        int // the node used for validation
	reported bool
}

func histName(h string) string {
	if h == "" {
		return "none"
	}
	return h
}

func (d *driver) closeAll() {
	for _, gw := range d.grounds {
		gw.w.close()
	}
	d.grounds = map[string]*groundWorld{}
}

// groundFor returns a real system that has committed `last` heights (round change at the last one when rc).
func (d *driver) groundFor(powers []int64, last int64, rc bool, hist string) (*groundWorld, error) {
	key := fmt.Sprint(powers, last, rc, hist)
	if gw, ok := d.grounds[key]; ok {
		return gw, nil
	}
	var h *history
	if hist != "" && hist != "none" {
		if last < 1 {
			return nil, fmt.Errorf("a validator-set history needs Last >= 1")
		}
		h = &history{kind: hist, at: last} // block `last` changes the set of height last+1
	}
	w, err := newWorld(powers, nil, h)
	if err != nil {
		return nil, err
	}
	if rc && last > 0 {
		w.drop = w.dropProposalAt(last)
	}
	if last > 0 {
		if err := w.run(last); err != nil {
			w.close()
			return nil, err
		}
	}
	if h.active() {
		st := w.s.Nodes[w.s.HonestIdx()[0]].CS.GetState()
		if w.histFired == 0 || sameSet(st.Validators, w.priors[w.s.HonestIdx()[0]][last-1].validators) {
			w.close()
			return nil, fmt.Errorf("the validator change %s did not reach the validator set of height %d", h, last+1)
		}
		d.rep.Count("ground_systems_with_validator_change")
	}
	gw := &groundWorld{w: w, i: w.s.HonestIdx()[0]}
	gw.g = groundOf(w, gw.i)
	d.grounds[key] = gw
	d.rep.Count("ground_systems")
	return gw, nil
}

func groundOf(w *world, i int) *ground {
	n := w.s.Nodes[i]
	st := n.CS.GetState()
	g := &ground{chainID: csim.ChainID, st: st, n: w.s.N, privs: w.s.Privs, addrs: w.s.Addrs,
		outsider: crypto.GenPrivKeyEd25519FromSecret([]byte("bv-outsider"))}
	if st.LastBlockHeight > 0 {
		if sc := n.Store.LoadSeenCommit(st.LastBlockHeight); sc != nil {
			g.round = sc.Round()
		}
	}
	g.proposer = append([]byte(nil), st.Validators.Copy().Proposer().Address...)
	return g
}

func (d *driver) fail(ti int, tr mbt.Trace, si int, action, kind string, prop bool, key, detail string, want, got interface{}) {
	d.rep.Fail(mbt.Failure{Trace: ti, TraceID: tr.ID, Step: si, Action: action, Kind: kind, Property: prop, Key: key,
		Detail: detail, Want: want, Got: got})
}

// ---------------------------------------------------------------------------------------------------------------
// mbt

func (d *driver) mbt(ti int, tr mbt.Trace) {
	powers := powersOf(tr.Cfg)
	last := int64(cfgInt(tr.Cfg, "Last", 1))
	seed := cfgInt(tr.Cfg, "seed", 1)
	variants := cfgInt(tr.Cfg, "variants", 1)
	rc := cfgInt(tr.Cfg, "rc", 0) != 0
	hist, _ := tr.Cfg["hist"].(string)
	gw, err := d.groundFor(powers, last, rc, hist)
	if err != nil {
		d.fail(ti, tr, 0, "setup", "error", false, "setup", "cannot build the ground chain: "+err.Error(), nil, nil)
		return
	}
	g := gw.g
	node := gw.w.s.Nodes[gw.i]
	// the state block last+1 must extend, with the set that signed block `last` taken from the driver's own record
	p := gw.w.priors[gw.i][last]
	if !gw.reported {
		gw.reported = true
		for _, x := range gw.w.histBad {
			d.fail(ti, tr, 0, "ExecBlock", "property", true, x.kind+":"+histName(hist), x.detail+" (validator-set history "+histName(hist)+")", nil, nil)
		}
	}
	blkOf := func(st mbt.Step) interface{} {
		if b, ok := st.Post["blk"]; ok {
			return b
		}
		return tr.Init["blk"]
	}
	type conc struct {
		blk  *types.Block
		what string
	}
	cache := map[int]conc{} // the three calls of a behaviour look at the same concrete blocks
	for si, st := range tr.Steps {
		d.rep.Steps++
		if !strings.HasPrefix(st.A, "Call") {
			continue
		}
		action := fmt.Sprintf("%s%v", st.A, st.Args)
		a, err := parseBlk(blkOf(st))
		if err != nil {
			d.fail(ti, tr, si, action, "error", false, "bad-trace", err.Error(), nil, nil)
			return
		}
		want := normWant(mbt.Str(st.Args[0]))
		wantR, wantVB, wantVC := want, want, want
		if hist != "" && hist != "none" {
			action += " after " + hist
		}
		for k := 0; k < variants; k++ {
			cc, ok := cache[k]
			if !ok {
				b, desc := g.concretise(a, rngFor(seed, tr.ID, k), fmt.Sprintf("%s-%d", tr.ID, k))
				cc = conc{b, fmt.Sprintf("abstract block %v slots %v [%s]", a.f, a.slots, desc)}
				cache[k] = cc
			}
			blk, what := cc.blk, cc.what
			d1, bz, werr := overWire(blk)
			if werr != nil {
				d.fail(ti, tr, si, action, "error", false, "wire", "block does not survive go-wire: "+werr.Error()+" "+what, nil, nil)
				continue
			}
			var verr error
			var pn interface{}
			var stack string
			switch st.A {
			case "CallValidateBlock":
				// ConsensusState.ValidateBlock through State.ValidateBlock, on the block as received over the wire
				pn, stack = mbt.Catch(func() { verr = node.CS.GetState().ValidateBlock(d1) })
				d.rep.Checks++
				if pn != nil {
					d.fail(ti, tr, si, action, "panic", true, "ValidateBlock-panic:"+wantR, fmt.Sprintf("ConsensusState.ValidateBlock panicked: %v on %s\n%s", pn, what, stack), wantR, "panic")
				} else {
					got := classify(verr)
					d.classes["r/"+got] = true
					d2, _, _ := overWire(blk)
					ops, _, rl := checkBlock(p, d2)
					if rl > 0 && got == "ok" {
						d.rep.Count("accepted_with_relabelled_votes")
					}
					if got == "ok" && len(ops) > 0 {
						d.fail(ti, tr, si, action, "property", true, "accepted-invalid:"+ops[0].kind,
							fmt.Sprintf("ValidateBlock accepted a block that is not a valid successor: %s (%s)", ops[0].detail, what), wantR, got)
					} else if (got == "ok") != (wantR == "ok") {
						d.fail(ti, tr, si, action, "mismatch", true, "ValidateBlock-verdict:"+wantR+":"+strings.SplitN(got, " ", 2)[0],
							fmt.Sprintf("ValidateBlock verdict differs from the specification on %s (error: %v)", what, verr), wantR, got)
					} else if got != wantR {
						d.fail(ti, tr, si, action, "mismatch", false, "ValidateBlock-class:"+wantR, fmt.Sprintf("rejected by another check than the specification says: %v on %s", verr, what), wantR, got)
					} else if got != "ok" && len(ops) == 0 {
						d.fail(ti, tr, si, action, "error", false, "oracle-disagrees:"+got, "the driver's own check finds nothing wrong with a block both code and specification reject: "+what, wantR, got)
					}
					if got == "ok" {
						d.rep.Count("accepted")
					} else {
						d.rep.Count("rejected")
					}
					// the verdict does not depend on how often the block is looked at
					var verr2 error
					pn, stack = mbt.Catch(func() { verr2 = node.CS.GetState().ValidateBlock(d1) })
					if pn != nil {
						d.fail(ti, tr, si, action, "panic", true, "ValidateBlock-panic:"+wantR, fmt.Sprintf("second ValidateBlock panicked: %v on %s\n%s", pn, what, stack), wantR, "panic")
					} else if classify(verr2) != got {
						d.fail(ti, tr, si, action, "mismatch", true, "ValidateBlock-unstable:"+wantR, fmt.Sprintf("second validation of the same block says %v, first said %v: %s", verr2, verr, what), got, classify(verr2))
					}
				}
			case "CallValidateBasic":
				pn, stack = mbt.Catch(func() {
					verr = d1.ValidateBasic(g.st.ChainID, g.st.LastBlockHeight, g.st.LastBlockID, g.st.LastBlockTime, g.st.AppHash, g.st.ReceiptsHash)
				})
				d.rep.Checks++
				if pn != nil {
					d.fail(ti, tr, si, action, "panic", true, "ValidateBasic-panic:"+wantVB, fmt.Sprintf("Block.ValidateBasic panicked: %v on %s\n%s", pn, what, stack), wantVB, "panic")
				} else if got := classify(verr); (got == "ok") != (wantVB == "ok") {
					d.fail(ti, tr, si, action, "mismatch", true, "ValidateBasic-verdict:"+wantVB+":"+strings.SplitN(got, " ", 2)[0], fmt.Sprintf("ValidateBasic verdict differs on %s (error: %v)", what, verr), wantVB, got)
				} else if got != wantVB {
					d.fail(ti, tr, si, action, "mismatch", false, "ValidateBasic-class:"+wantVB, fmt.Sprintf("%v on %s", verr, what), wantVB, got)
				} else {
					d.classes["vb/"+got] = true
				}
			case "CallVerifyCommit":
				// ValidatorSet.VerifyCommit on the commit carried (what fast sync relies on)
				if last > 0 {
					d4 := d1
					pn, stack = mbt.Catch(func() {
						verr = g.st.LastValidators.VerifyCommit(g.st.ChainID, g.st.LastBlockID, last, d4.LastCommit)
					})
					d.rep.Checks++
					if pn != nil {
						d.fail(ti, tr, si, action, "panic", true, "VerifyCommit-panic:"+wantVC, fmt.Sprintf("ValidatorSet.VerifyCommit panicked: %v on %s\n%s", pn, what, stack), wantVC, "panic")
					} else {
						got := classify(verr)
						d.classes["vc/"+got] = true
						cps, _, _ := verifyCommitIndependently(p.lastValidators, p.chainID, p.lastBlockID, last, d4.LastCommit)
						if got == "ok" && len(cps) > 0 {
							d.fail(ti, tr, si, action, "property", true, "VerifyCommit-accepted-invalid:"+cps[0].kind,
								fmt.Sprintf("VerifyCommit accepted a commit that does not justify the block: %s (%s)", cps[0].detail, what), wantVC, got)
						} else if (got == "ok") != (wantVC == "ok") {
							d.fail(ti, tr, si, action, "mismatch", true, "VerifyCommit-verdict:"+wantVC+":"+strings.SplitN(got, " ", 2)[0], fmt.Sprintf("VerifyCommit verdict differs on %s (error: %v)", what, verr), wantVC, got)
						} else if got != wantVC {
							d.fail(ti, tr, si, action, "mismatch", false, "VerifyCommit-class:"+wantVC, fmt.Sprintf("%v on %s", verr, what), wantVC, got)
						}
					}
				}
			}
			_ = bz
		}
	}
	d.rep.Traces++
}

// ---------------------------------------------------------------------------------------------------------------
// chain

func (d *driver) chain(ti int, tr mbt.Trace) {
	powers := powersOf(tr.Cfg)
	heights := int64(cfgInt(tr.Cfg, "heights", 3))
	rc := int64(cfgInt(tr.Cfg, "rc", 2))
	d.rep.Steps++
	var w *world
	var err error
	pn, stack := mbt.Catch(func() {
		var h *history
		if hk, _ := tr.Cfg["hist"].(string); hk != "" && hk != "none" {
			h = &history{kind: hk, at: int64(cfgInt(tr.Cfg, "histAt", 1))}
		}
		w, err = newWorld(powers, nil, h)
		if err != nil {
			return
		}
		if rc > 0 {
			w.drop = w.dropProposalAt(rc)
		}
		err = w.run(heights)
		if err == nil && h.active() && w.histFired == 0 {
			err = fmt.Errorf("the validator change %s never happened", h)
		}
	})
	if w != nil {
		defer w.close()
	}
	if pn != nil {
		d.fail(ti, tr, 0, "chain", "panic", true, "chain-panic", fmt.Sprintf("honest nodes panicked while committing: %v\n%s", pn, stack), nil, nil)
		return
	}
	if err != nil {
		d.fail(ti, tr, 0, "chain", "error", false, "chain-run", "cannot drive the system: "+err.Error(), nil, nil)
		return
	}
	roundsGe1 := 0
	for _, i := range w.s.HonestIdx() {
		for h := int64(1); h <= heights; h++ {
			var ps []problem
			var r int64
			pn, stack := mbt.Catch(func() { ps, r = w.checkCommitted(i, h) })
			d.rep.Checks++
			d.rep.Count("committed_heights_checked")
			if pn != nil {
				d.fail(ti, tr, 0, fmt.Sprintf("check(node %d, height %d)", i, h), "panic", true, "chain-check-panic", fmt.Sprintf("%v\n%s", pn, stack), nil, nil)
				continue
			}
			if r >= 1 {
				roundsGe1++
				d.rep.Count("commits_in_round_ge1")
			}
			for _, x := range ps {
				d.fail(ti, tr, 0, fmt.Sprintf("check(node %d, height %d)", i, h), "property", true, x.kind, x.detail, nil, nil)
			}
		}
	}
	for _, x := range w.histBad {
		d.fail(ti, tr, 0, "chain", "property", true, x.kind, x.detail, nil, nil)
	}
	if w.hist.active() {
		d.rep.Count("chains_with_validator_change")
	}
	if msg := w.s.CheckAgreement(); msg != "" {
		d.fail(ti, tr, 0, "chain", "property", true, "Agreement", msg, nil, nil)
	}
	if rc > 0 && rc <= heights && roundsGe1 == 0 {
		d.fail(ti, tr, 0, "chain", "error", false, "no-round-change", "the schedule was meant to commit one height in a round >= 1 but did not", nil, nil)
	}
	d.rep.Traces++
}

// ---------------------------------------------------------------------------------------------------------------
// byz

// schedule: proposer (1-based) of round 0 of heights 1..5 when every proposal is accepted in round 0.
func (d *driver) schedule(powers []int64) ([]int, error) {
	key := fmt.Sprint(powers)
	if s, ok := d.sched[key]; ok {
		return s, nil
	}
	w, err := newWorld(powers, nil, nil)
	if err != nil {
		return nil, err
	}
	defer w.close()
	vs := w.s.Nodes[1].CS.GetState().Validators.Copy()
	out := []int{0}
	for h := 1; h <= 5; h++ {
		out = append(out, w.s.IdxOfAddr(vs.Proposer().Address))
		vs = vs.Copy()
		vs.IncrementAccum(1)
	}
	d.sched[key] = out
	return out, nil
}

// byzBlock is one block the Byzantine proposer sends (it may equivocate: one block per honest node).
type byzBlock struct {
	id     string
	a      abstractBlock
	want   string
	blk    *types.Block
	what   string
	pm     *pbft.ProposalMessage
	parts  []*pbft.BlockPartMessage
	psh    types.PartSetHeader
	hash   []byte
	action string
}

func (d *driver) byz(ti int, tr mbt.Trace) {
	powers := powersOf(tr.Cfg)
	last := int64(cfgInt(tr.Cfg, "Last", 1))
	seed := cfgInt(tr.Cfg, "seed", 1)
	var blocks []*byzBlock
	for si := range tr.Steps {
		d.rep.Steps++
		if tr.Steps[si].A == "CallValidateBlock" {
			val := tr.Steps[si]
			var ablk interface{} = tr.Init["blk"]
			if b, ok := val.Post["blk"]; ok {
				ablk = b
			}
			a, err := parseBlk(ablk)
			if err != nil {
				d.fail(ti, tr, 0, "byz", "error", false, "bad-trace", err.Error(), nil, nil)
				return
			}
			blocks = append(blocks, &byzBlock{id: tr.ID, a: a, want: normWant(mbt.Str(val.Args[0]))})
		}
	}
	// further blocks for the other honest nodes (only blocks the specification rejects are bundled)
	if bl, ok := tr.Cfg["bundle"].([]interface{}); ok {
		for _, x := range bl {
			m, _ := x.(map[string]interface{})
			a, err := parseBlk(m["blk"])
			if err != nil {
				d.fail(ti, tr, 0, "byz", "error", false, "bad-trace", err.Error(), nil, nil)
				return
			}
			blocks = append(blocks, &byzBlock{id: mbt.Str(m["id"]), a: a, want: normWant(mbt.Str(m["want"]))})
		}
	}
	if len(blocks) == 0 {
		d.fail(ti, tr, 0, "byz", "error", false, "bad-trace", "no CallValidateBlock step", nil, nil)
		return
	}
	for _, b := range blocks {
		b.action = fmt.Sprintf("ByzPropose[%s %s]", b.id, b.want)
		if len(blocks) > 1 && b.want == "ok" {
			d.fail(ti, tr, 0, b.action, "error", false, "bad-trace", "a valid block cannot be part of an equivocating bundle", nil, nil)
			return
		}
	}
	action := blocks[0].action
	sched, err := d.schedule(powers)
	if err != nil {
		d.fail(ti, tr, 0, action, "error", false, "setup", err.Error(), nil, nil)
		return
	}
	target := last + 1
	k := sched[target]
	var w *world
	pn, stack := mbt.Catch(func() {
		w, err = newWorld(powers, []int{k}, nil)
		if err == nil && last > 0 {
			err = w.run(last)
		}
	})
	if w != nil {
		defer w.close()
	}
	if pn != nil || err != nil {
		d.fail(ti, tr, 0, action, "error", false, "setup", fmt.Sprintf("cannot bring the system to height %d: %v %v\n%s", last, err, pn, stack), nil, nil)
		return
	}
	honest := w.s.HonestIdx()
	// every honest node enters round 0 of the target height and waits for the proposal
	for _, i := range honest {
		n := w.s.Nodes[i]
		rs := n.CS.GetRoundState()
		if rs.Height != target {
			d.fail(ti, tr, 0, action, "error", false, "setup", fmt.Sprintf("node %d is at height %d, expected %d", i, rs.Height, target), nil, nil)
			return
		}
		if rs.Step == pbft.RoundStepNewHeight {
			if tk, err := w.s.Fire(i); err == nil {
				w.s.Timeout(i, tk.Height, tk.Round, tk.Step)
			}
		}
		rs = n.CS.GetRoundState()
		if rs.Round != 0 || rs.Step != pbft.RoundStepPropose || w.s.IdxOfAddr(rs.Validators.Proposer().Address) != k {
			d.fail(ti, tr, 0, action, "error", false, "setup", fmt.Sprintf("node %d: height %d round %d step %v proposer %d, expected to wait for validator %d's proposal",
				i, rs.Height, rs.Round, rs.Step, w.s.IdxOfAddr(rs.Validators.Proposer().Address), k), nil, nil)
			return
		}
	}
	g := groundOf(w, honest[0])
	for _, b := range blocks {
		var desc string
		b.blk, desc = g.concretise(b.a, rngFor(seed, b.id, 0), b.id)
		b.what = fmt.Sprintf("abstract block %v slots %v [%s]", b.a.f, b.a.slots, desc)
		_, bz, werr := overWire(b.blk)
		if werr != nil {
			d.fail(ti, tr, 0, b.action, "error", false, "wire", werr.Error(), nil, nil)
			return
		}
		b.pm, b.parts, b.psh = w.proposal(k, target, 0, bz)
		if fresh, _, _ := overWire(b.blk); fresh != nil && fresh.Header != nil {
			b.hash = fresh.Hash()
		}
	}
	for x, i := range honest {
		b := blocks[x%len(blocks)]
		n := w.s.Nodes[i]
		pn, stack := mbt.Catch(func() { w.inject(i, b.pm, b.parts, fmt.Sprintf("peer%d", k)) })
		d.rep.Checks++
		if pn != nil {
			d.fail(ti, tr, 0, b.action, "panic", true, "proposal-panic:"+b.want, fmt.Sprintf("node %d panicked on the proposal of Byzantine validator %d: %v; %s\n%s", i, k, pn, b.what, stack), b.want, "panic")
			return
		}
		// the node must have prevoted: nil for an invalid block, the block for a valid one
		var pv *types.Vote
		for _, m := range n.IQ {
			if vm, ok := m.(*pbft.VoteMessage); ok && vm.Vote.Type == types.VoteTypePrevote && vm.Vote.Height == target && vm.Vote.Round == 0 {
				pv = vm.Vote
			}
		}
		if pv == nil {
			d.fail(ti, tr, 0, b.action, "mismatch", false, "no-prevote", fmt.Sprintf("node %d did not prevote after the complete proposal; %s", i, b.what), nil, nil)
			return
		}
		forBlock := !pv.BlockID.IsZero()
		if forBlock && b.want != "ok" {
			ops, _, _ := checkBlock(w.priors[i][last], b.blk)
			kind := "spec-only"
			if len(ops) > 0 {
				kind = ops[0].kind
			}
			d.fail(ti, tr, 0, b.action, "property", true, "prevoted-invalid:"+kind, fmt.Sprintf("node %d prevoted for an invalid proposal (%s); %s", i, b.want, b.what), "nil prevote", fmt.Sprintf("%X", pv.BlockID.Hash))
		}
		if !forBlock && b.want == "ok" {
			d.fail(ti, tr, 0, b.action, "mismatch", true, "prevoted-nil-for-valid", fmt.Sprintf("node %d prevoted nil for a valid proposal; %s", i, b.what), "block", "nil")
			return
		}
		if forBlock {
			d.rep.Count("byz_proposals_prevoted")
		} else {
			d.rep.Count("byz_proposals_refused")
		}
	}
	// let the system go on until the height is committed; no Byzantine block may be it (unless valid)
	pn, stack = mbt.Catch(func() { err = w.run(target) })
	if pn != nil {
		d.fail(ti, tr, 0, action, "panic", true, "after-proposal-panic:"+blocks[0].want, fmt.Sprintf("honest nodes panicked after the Byzantine proposal: %v; %s\n%s", pn, blocks[0].what, stack), nil, nil)
		return
	}
	if err != nil {
		d.fail(ti, tr, 0, action, "error", false, "run", "system did not commit the height after the Byzantine proposal: "+err.Error(), nil, nil)
		return
	}
	for _, i := range honest {
		meta := w.s.Nodes[i].Store.LoadBlockMeta(target)
		d.rep.Checks++
		if meta == nil {
			d.fail(ti, tr, 0, action, "error", false, "run", "no block meta", nil, nil)
			return
		}
		committedByz := false
		for _, b := range blocks {
			isByz := meta.PartsHeader.Equals(b.psh) || (len(b.hash) > 0 && bytes.Equal(meta.Hash, b.hash))
			if isByz && b.want != "ok" {
				d.fail(ti, tr, 0, b.action, "property", true, "committed-invalid:"+b.want, fmt.Sprintf("node %d committed the invalid block of the Byzantine proposer; %s", i, b.what), nil, nil)
			}
			committedByz = committedByz || isByz
		}
		if blocks[0].want == "ok" && !committedByz {
			d.rep.Count("valid_byz_block_not_committed")
		}
		if committedByz {
			d.rep.Count("byz_blocks_committed")
		}
		ps, _ := w.checkCommitted(i, target)
		for _, x := range ps {
			d.fail(ti, tr, 0, action, "property", true, x.kind, x.detail+"; after "+blocks[0].what, nil, nil)
		}
	}
	d.rep.Counters["byz_blocks_proposed"] += len(blocks)
	d.rep.Traces++
}

func main() {
	crypto.NodeInit(crypto.CryptoTypeZhongAn)
	if len(os.Args) < 2 {
		fmt.Fprintln(os.Stderr, "usage: blockvalidity traces.json")
		os.Exit(2)
	}
	traces, err := mbt.LoadTraces(os.Args[1])
	if err != nil {
		fmt.Fprintln(os.Stderr, "load:", err)
		os.Exit(2)
	}
	d := &driver{rep: mbt.NewReport(), grounds: map[string]*groundWorld{}, classes: map[string]bool{}, sched: map[string][]int{}}
	for ti, tr := range traces {
		mode, _ := tr.Cfg["mode"].(string)
		pn, stack := mbt.Catch(func() {
			switch mode {
			case "chain":
				d.chain(ti, tr)
			case "byz":
				d.byz(ti, tr)
			default:
				d.mbt(ti, tr)
			}
		})
		if pn != nil {
			d.fail(ti, tr, 0, mode, "error", false, "driver-panic", fmt.Sprintf("%v\n%s", pn, stack), nil, nil)
		}
	}
	d.closeAll()
	d.rep.Extra["distinct_result_classes"] = len(d.classes)
	var cl []string
	for c := range d.classes {
		cl = append(cl, c)
	}
	d.rep.Extra["result_classes"] = mbt.SortedStrings(cl)
	d.rep.Emit()
}
