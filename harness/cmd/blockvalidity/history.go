package main

import (
	"bytes"
	"fmt"

	crypto "github.com/dappledger/AnnChain/gemmill/go-crypto"
	"github.com/dappledger/AnnChain/gemmill/modules/go-events"
	"github.com/dappledger/AnnChain/gemmill/types"
)

// history is a validator-set history: block `at` carries a validator change that the application applies in
// EndBlock to the NEXT validator set, the way plugin.AdminOp.updateValidators does (GetByAddress copy + Update,
// Add, Remove).  The set of height `at` signs block `at`; the changed set is in force from height at+1 on.
//
//	lower   the heaviest validator's power drops to 1
//	raise   the lightest validator's power becomes the sum of all powers
//	add     a new validator (no node runs for it) with power 1 joins
//	remove  the lightest validator leaves
type history struct {
	kind string
	at   int64
}

func (h *history) String() string {
	if h == nil || h.kind == "" || h.kind == "none" {
		return "none"
	}
	return fmt.Sprintf("%s@%d", h.kind, h.at)
}

func (h *history) active() bool { return h != nil && h.kind != "" && h.kind != "none" }

var addedKey = crypto.GenPrivKeyEd25519FromSecret([]byte("bv-added-validator"))

// histExec is the application side of a node: no transactions, validator change at one height.
type histExec struct {
	h     *history
	addrs [][]byte // validators of the genesis set, address order
	power []int64
	fired *int
}

func (histExec) BeginBlock(*types.Block, events.Fireable, *types.PartSetHeader) error { return nil }
func (histExec) ExecBlock(*types.Block, events.Fireable, *types.ExecuteResult) error  { return nil }

func (x histExec) EndBlock(b *types.Block, _ events.Fireable, _ *types.PartSetHeader, _ []*types.ValidatorAttr, next *types.ValidatorSet) error {
	if !x.h.active() || b.Height != x.h.at {
		return nil
	}
	heavy, light := 0, 0
	var sum int64
	for i, p := range x.power {
		sum += p
		if p > x.power[heavy] {
			heavy = i
		}
		if p <= x.power[light] {
			light = i
		}
	}
	switch x.h.kind {
	case "lower", "raise":
		who, np := heavy, int64(1)
		if x.h.kind == "raise" {
			who, np = light, sum
		}
		_, val := next.GetByAddress(x.addrs[who])
		if val == nil {
			return fmt.Errorf("validator %X not in the set", x.addrs[who])
		}
		val.VotingPower = np
		if !next.Update(val) {
			return fmt.Errorf("update failed")
		}
	case "add":
		if !next.Add(types.NewValidator(addedKey.PubKey(), 1, true)) {
			return fmt.Errorf("add failed")
		}
	case "remove":
		if _, ok := next.Remove(x.addrs[light]); !ok {
			return fmt.Errorf("remove failed")
		}
	default:
		return fmt.Errorf("unknown history %q", x.h.kind)
	}
	*x.fired++
	return nil
}

// install replaces the application of every node of the world by histExec.  The State object handed to
// NewConsensusState is the one the consensus state machine copies from at every commit, so the executable set
// here is the one every later ExecBlock calls.
func (w *world) install(h *history) {
	w.hist = h
	for _, i := range w.s.HonestIdx() {
		w.s.Nodes[i].State.SetBlockExecutable(histExec{h: h, addrs: w.s.Addrs, power: w.s.Powers, fired: &w.histFired})
	}
}

// sameSet: the same validators (address, key, power, in the same order).  Accum is left out: it only drives the
// proposer rotation, no commit verification looks at it.
func sameSet(a, b *types.ValidatorSet) bool {
	if len(a.Validators) != len(b.Validators) {
		return false
	}
	for i, v := range a.Validators {
		w := b.Validators[i]
		if !bytes.Equal(v.Address, w.Address) || !v.PubKey.Equals(w.PubKey) || v.VotingPower != w.VotingPower {
			return false
		}
	}
	return true
}
