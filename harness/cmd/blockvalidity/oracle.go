package main

import (
	"bytes"
	"fmt"

	"github.com/dappledger/AnnChain/gemmill/modules/go-merkle"
	sm "github.com/dappledger/AnnChain/gemmill/state"
	"github.com/dappledger/AnnChain/gemmill/types"
)

// prior is what block h must extend: the state after h-1.
type prior struct {
	chainID        string
	lastHeight     int64
	lastBlockID    types.BlockID
	appHash        []byte
	receiptsHash   []byte
	validators     *types.ValidatorSet // validators of height lastHeight+1
	lastValidators *types.ValidatorSet // validators of height lastHeight (signers of LastCommit)
}

func priorOf(st *sm.State) prior {
	return prior{chainID: st.ChainID, lastHeight: st.LastBlockHeight, lastBlockID: st.LastBlockID, appHash: st.AppHash,
		receiptsHash: st.ReceiptsHash, validators: st.Validators.Copy(), lastValidators: st.LastValidators.Copy()}
}

type problem struct {
	kind   string // stable short name
	detail string
}

func freshDataHash(d *types.Data) []byte {
	return merkle.SimpleHashFromTwoHashes(append(types.Txs(nil), d.Txs...).Hash(), append(types.Txs(nil), d.ExTxs...).Hash())
}

func freshCommitHash(pcs []*types.Vote) []byte {
	bs := make([]interface{}, len(pcs))
	for i, p := range pcs {
		bs[i] = p
	}
	return merkle.SimpleHashFromBinaries(bs)
}

// verifyCommitIndependently re-verifies a commit signature by signature: every vote carried must be a precommit of
// `height`, all of one round, signed by the validator of its slot; validators holding more than 2/3 of the power
// must have signed exactly blockID; index and address of a vote must be those of its slot.  It does not call ValidatorSet.VerifyCommit.
func verifyCommitIndependently(vals *types.ValidatorSet, chainID string, blockID types.BlockID, height int64, commit *types.Commit) (ps []problem, round int64, relabelled int) {
	add := func(k, f string, a ...interface{}) { ps = append(ps, problem{k, fmt.Sprintf(f, a...)}) }
	round = -1
	if commit == nil {
		add("commit-nil", "no commit")
		return
	}
	if len(commit.Precommits) != len(vals.Validators) {
		add("commit-size", "commit has %d slots, validator set has %d", len(commit.Precommits), len(vals.Validators))
		return
	}
	var tally, total int64
	for _, v := range vals.Validators {
		total += v.VotingPower
	}
	for idx, pc := range commit.Precommits {
		if pc == nil {
			continue
		}
		val := vals.Validators[idx]
		if pc.Type != types.VoteTypePrecommit {
			add("commit-type", "slot %d holds a vote of type %d", idx, pc.Type)
			continue
		}
		if pc.Height != height {
			add("commit-height", "slot %d holds a vote of height %d, not %d", idx, pc.Height, height)
			continue
		}
		if round == -1 {
			round = pc.Round
		} else if pc.Round != round {
			add("commit-round", "slot %d holds a vote of round %d, others of round %d", idx, pc.Round, round)
			continue
		}
		if pc.Signature == nil || !val.PubKey.VerifyBytes(types.SignBytes(chainID, pc), pc.Signature) {
			add("commit-sig", "slot %d: signature does not verify under the key of validator %d", idx, idx)
			continue
		}
		if pc.ValidatorIndex != idx || !bytes.Equal(pc.ValidatorAddress, val.Address) {
			// index and address are not covered by the signature; a stored commit is fed to VoteSet.AddVote later
			relabelled++
			add("commit-label", "slot %d holds a vote labelled validator %d / %X", idx, pc.ValidatorIndex, pc.ValidatorAddress)
			continue
		}
		if blockID.Equals(pc.BlockID) {
			tally += val.VotingPower
		}
	}
	if !(3*tally > 2*total) {
		add("commit-power", "validly signed precommits for the block hold %d of %d voting power (need more than 2/3)", tally, total)
	}
	return
}

// checkBlock decides, independently of Block.ValidateBasic / ConsensusState.ValidateBlock / VerifyCommit, whether
// block b is a valid successor of the state p (C02's definition).
func checkBlock(p prior, b *types.Block) (ps []problem, commitRound int64, relabelled int) {
	add := func(k, f string, a ...interface{}) { ps = append(ps, problem{k, fmt.Sprintf(f, a...)}) }
	commitRound = -1
	if b == nil || b.Header == nil || b.Data == nil || b.LastCommit == nil {
		add("nil-part", "block without header, data or last commit")
		return
	}
	if b.ChainID != p.chainID {
		add("chain-id", "chain id %q, expected %q", b.ChainID, p.chainID)
	}
	if b.Height != p.lastHeight+1 {
		add("height", "height %d on top of %d", b.Height, p.lastHeight)
	}
	if !b.LastBlockID.Equals(p.lastBlockID) {
		add("last-block-id", "LastBlockID %v, the previous block is %v", b.LastBlockID, p.lastBlockID)
	}
	if !bytes.Equal(b.AppHash, p.appHash) {
		add("app-hash", "AppHash %X, prior state has %X", b.AppHash, p.appHash)
	}
	if !bytes.Equal(b.ReceiptsHash, p.receiptsHash) {
		add("receipts-hash", "ReceiptsHash %X, prior state has %X", b.ReceiptsHash, p.receiptsHash)
	}
	if !bytes.Equal(b.DataHash, freshDataHash(b.Data)) {
		add("data-hash", "DataHash %X is not the hash of the data carried (%X)", b.DataHash, freshDataHash(b.Data))
	}
	if b.NumTxs != int64(len(b.Data.Txs)+len(b.Data.ExTxs)) {
		add("num-txs", "NumTxs %d, data holds %d", b.NumTxs, len(b.Data.Txs)+len(b.Data.ExTxs))
	}
	if !bytes.Equal(b.LastCommitHash, freshCommitHash(b.LastCommit.Precommits)) {
		add("last-commit-hash", "LastCommitHash %X is not the hash of the commit carried (%X)", b.LastCommitHash, freshCommitHash(b.LastCommit.Precommits))
	}
	if !bytes.Equal(b.ValidatorsHash, p.validators.Hash()) {
		add("validators-hash", "ValidatorsHash %X is not the hash of the validator set of height %d (%X)", b.ValidatorsHash, p.lastHeight+1, p.validators.Hash())
	}
	if !p.validators.HasAddress(b.ProposerAddress) {
		add("proposer", "proposer %X is not a validator", b.ProposerAddress)
	}
	if p.lastHeight == 0 {
		if len(b.LastCommit.Precommits) != 0 {
			add("h1-precommits", "block 1 carries %d precommits", len(b.LastCommit.Precommits))
		}
		return
	}
	if b.LastCommit.BlockID.IsZero() {
		add("commit-nil-block", "the commit names no block")
	}
	cps, r, rl := verifyCommitIndependently(p.lastValidators, p.chainID, p.lastBlockID, p.lastHeight, b.LastCommit)
	ps = append(ps, cps...)
	return ps, r, rl
}
