package main

// Concretisation of the message classes of specs/peerinput/PeerInput.tla into real messages with real keys,
// encoded with go-wire exactly as a peer's MConnection would deliver them to Reactor.Receive.

import (
	"bytes"
	"fmt"
	"math"
	"sort"
	"strings"

	"github.com/dappledger/AnnChain/gemmill/consensus/pbft"
	crypto "github.com/dappledger/AnnChain/gemmill/go-crypto"
	"github.com/dappledger/AnnChain/gemmill/go-wire"
	gcmn "github.com/dappledger/AnnChain/gemmill/modules/go-common"
	"github.com/dappledger/AnnChain/gemmill/modules/go-merkle"
	"github.com/dappledger/AnnChain/gemmill/types"

	"verifharness/csim"
	"verifharness/mbt"
)

type msgClass struct {
	T  string            // message type
	Ch string            // channel it is sent on
	PS string            // what the sender told us about itself before: fresh | synced | full
	D  []string          // deviations from a valid message, "field=class"
	F  map[string]string // field classes
}

func parseMsg(v interface{}) (msgClass, error) {
	d, ok := v.(map[string]interface{})
	if !ok {
		return msgClass{}, fmt.Errorf("not a message class: %#v", v)
	}
	m := msgClass{T: mbt.Str(d["t"]), Ch: mbt.Str(d["ch"]), PS: mbt.Str(d["ps"]), F: map[string]string{}}
	if f, ok := d["f"].(map[string]interface{}); ok {
		for k, x := range f {
			m.F[k] = fmt.Sprint(x)
		}
	}
	if l, ok := d["d"].([]interface{}); ok {
		for _, x := range l {
			if p, ok := x.([]interface{}); ok && len(p) == 2 {
				m.D = append(m.D, fmt.Sprintf("%v=%v", p[0], p[1]))
			}
		}
	}
	sort.Strings(m.D)
	return m, nil
}

// label is the stable name of the class inside its message type: the deviations from a valid message.
func (m msgClass) label() string {
	if len(m.D) == 0 {
		return "valid"
	}
	return strings.Join(m.D, ",")
}

func (m msgClass) key() string { return m.T + ":" + m.label() }

var chanIDs = map[string]byte{"state": pbft.StateChannel, "data": pbft.DataChannel, "vote": pbft.VoteChannel, "bits": pbft.VoteSetBitsChannel, "unknown": 0x55}

const hugeBits = 1 << 40

func (e *env) height(cls string) int64 {
	h, _, _ := e.hrs()
	switch cls {
	case "cur":
		return h
	case "prev":
		return h - 1
	case "next":
		return h + 1
	case "zero":
		return 0
	case "neg":
		return -7
	case "huge":
		return math.MaxInt64
	}
	panic("height class " + cls)
}

func (e *env) round(cls string) int64 {
	_, r, _ := e.hrs()
	switch cls {
	case "cur":
		return r
	case "next":
		return r + 1
	case "far":
		return r + 2
	case "neg1":
		return -1
	case "neg":
		return -(1 << 40)
	case "huge":
		return math.MaxInt64
	}
	panic("round class " + cls)
}

func voteType(cls string) byte {
	switch cls {
	case "pv":
		return types.VoteTypePrevote
	case "pc":
		return types.VoteTypePrecommit
	case "bad":
		return 0x03
	case "zero":
		return 0x00
	}
	panic("vote type class " + cls)
}

// signer: "prop" = the validator that is proposer of the node's current round (the one Byzantine validator of the
// run), "val" = another validator.
func (e *env) signer(cls string) int {
	_, r, _ := e.hrs()
	z := e.proposerOf(r)
	if z == e.T {
		z = e.others()[0]
	}
	if cls == "prop" || cls == "" {
		return z
	}
	var rest []int
	for _, i := range e.others() {
		if i != z {
			rest = append(rest, i)
		}
	}
	if cls == "third" {
		return rest[len(rest)-1]
	}
	return rest[0]
}

func (e *env) blockIDOf(cls string) (types.BlockID, error) {
	h, _, _ := e.hrs()
	switch cls {
	case "blk":
		return e.blockID(xsym(h))
	case "nil":
		return types.BlockID{}, nil
	case "last":
		return e.blockID(xsym(h - 1))
	case "unk":
		return types.BlockID{Hash: bytes.Repeat([]byte{0xab}, 20), PartsHeader: types.PartSetHeader{Total: 3, Hash: bytes.Repeat([]byte{0xcd}, 20)}}, nil
	}
	panic("block id class " + cls)
}

func bitArray(cls string, n int) *gcmn.BitArray {
	switch cls {
	case "ok":
		ba := gcmn.NewBitArray(n)
		ba.SetIndex(0, true)
		return ba
	case "nilptr":
		return nil
	case "short":
		return &gcmn.BitArray{Bits: n - 1, Elems: make([]uint64, (n-1+63)/64)}
	case "long":
		return &gcmn.BitArray{Bits: 200, Elems: []uint64{^uint64(0), 1, 2, 3}}
	case "few":
		return &gcmn.BitArray{Bits: 200, Elems: []uint64{}}
	case "many":
		return &gcmn.BitArray{Bits: 1, Elems: []uint64{1, 2, 3, 4, 5}}
	case "negbits":
		return &gcmn.BitArray{Bits: -5, Elems: []uint64{7}}
	case "huge":
		return &gcmn.BitArray{Bits: hugeBits, Elems: []uint64{}}
	}
	panic("bit array class " + cls)
}

func signature(cls string, priv crypto.PrivKeyEd25519, signBytes []byte) crypto.Signature {
	switch cls {
	case "ok":
		return priv.Sign(signBytes)
	case "bad":
		var sig crypto.SignatureEd25519
		copy(sig[:], bytes.Repeat([]byte{0x5a}, 64))
		return sig
	case "nil":
		return nil
	case "secp":
		var sig crypto.SignatureSecp256k1
		copy(sig[:], bytes.Repeat([]byte{0x21}, len(sig)))
		return sig
	}
	panic("signature class " + cls)
}

func encode(msg pbft.ConsensusMessage) []byte {
	return wire.BinaryBytes(struct{ pbft.ConsensusMessage }{msg})
}

// concretise builds the bytes of message class m for the node's current situation.
func (e *env) concretise(m msgClass) (chID byte, bz []byte, err error) {
	chID = chanIDs[m.Ch]
	f := m.F
	h, r, step := e.hrs()
	switch m.T {
	case "NewRoundStep":
		msg := &pbft.NewRoundStepMessage{Height: e.height(f["h"]), Round: e.round(f["r"])}
		switch f["st"] {
		case "ok":
			msg.Step = pbft.RoundStepType(step)
		case "zero":
			msg.Step = 0
		case "huge":
			msg.Step = 0xff
		}
		switch f["ss"] {
		case "neg":
			msg.SecondsSinceStartTime = -1 << 40
		case "huge":
			msg.SecondsSinceStartTime = math.MaxInt64
		}
		switch f["lcr"] {
		case "none":
			msg.LastCommitRound = -1
		case "zero":
			msg.LastCommitRound = 0
		case "neg":
			msg.LastCommitRound = -1 << 40
		case "huge":
			msg.LastCommitRound = math.MaxInt64
		}
		return chID, encode(msg), nil
	case "CommitStep":
		hdr, err := e.header(xsym(h))
		if err != nil {
			return 0, nil, err
		}
		switch f["pt"] {
		case "zero":
			hdr.Total = 0
		case "neg1":
			hdr.Total = -1
		case "huge":
			hdr.Total = hugeBits
		}
		return chID, encode(&pbft.CommitStepMessage{Height: e.height(f["h"]), BlockPartsHeader: hdr, BlockParts: bitArray(f["ba"], 1)}), nil
	case "Proposal":
		if f["pp"] == "nil" {
			return chID, encode(&pbft.ProposalMessage{}), nil
		}
		sym := xsym(h)
		if f["blk"] == "y" {
			sym = ysym(h)
		}
		hdr, err := e.header(sym)
		if err != nil {
			return 0, nil, err
		}
		switch f["pt"] {
		case "zero":
			hdr.Total = 0
		case "neg1":
			hdr.Total = -1
		case "negbig":
			hdr.Total = -1000
		case "big":
			hdr.Total = types.MaxBlockSize + 1
		case "huge":
			hdr.Total = hugeBits
		}
		pr := e.round(f["r"])
		var pol int64
		switch f["pol"] {
		case "none":
			pol = -1
		case "valid":
			pol = 0
		case "eq":
			pol = pr
		case "neg2":
			pol = -2
		case "huge":
			pol = math.MaxInt64
		}
		p := types.NewProposal(e.height(f["h"]), pr, hdr, pol, types.BlockID{})
		key := e.s.Privs[e.signer("prop")-1]
		sg := f["sg"]
		if sg == "wrongkey" {
			key = e.s.Privs[e.signer("val")-1]
			sg = "ok"
		}
		p.Signature = signature(sg, key, types.SignBytes(csim.ChainID, p))
		return chID, encode(&pbft.ProposalMessage{Proposal: p}), nil
	case "ProposalPOL":
		msg := &pbft.ProposalPOLMessage{Height: e.height(f["h"]), ProposalPOL: bitArray(f["ba"], 4)}
		switch f["pr"] {
		case "match":
			msg.ProposalPOLRound = e.ps.GetRoundState().ProposalPOLRound
		case "other":
			msg.ProposalPOLRound = 1
		case "huge":
			msg.ProposalPOLRound = math.MaxInt64
		}
		return chID, encode(msg), nil
	case "BlockPart":
		msg := &pbft.BlockPartMessage{Height: e.height(f["h"]), Round: e.round(f["r"])}
		if f["pa"] == "nil" {
			return chID, encode(msg), nil
		}
		sym := xsym(h)
		if f["blk"] == "y" {
			sym = ysym(h)
		}
		orig, err := e.part(sym)
		if err != nil {
			return 0, nil, err
		}
		part := &types.Part{Index: orig.Index, Bytes: orig.Bytes, Proof: orig.Proof}
		switch f["pi"] {
		case "neg1":
			part.Index = -1
		case "neg64":
			part.Index = -64
		case "total":
			part.Index = 1
		case "huge":
			part.Index = math.MaxInt64
		}
		switch f["pf"] {
		case "bad":
			part.Proof = merkle.SimpleProof{Aunts: [][]byte{bytes.Repeat([]byte{1}, 20), bytes.Repeat([]byte{2}, 20)}}
		}
		if f["pb"] == "garbage" {
			part.Bytes = bytes.Repeat([]byte{0xee}, 37)
		}
		msg.Part = part
		return chID, encode(msg), nil
	case "Vote":
		if f["vp"] == "nil" {
			return chID, encode(&pbft.VoteMessage{}), nil
		}
		by := e.signer(f["by"])
		id, err := e.blockIDOf(f["bi"])
		if err != nil {
			return 0, nil, err
		}
		v := &types.Vote{ValidatorAddress: e.s.Addrs[by-1], ValidatorIndex: by - 1, Height: e.height(f["h"]), Round: e.round(f["r"]),
			Type: voteType(f["ty"]), BlockID: id}
		switch f["ix"] {
		case "other":
			v.ValidatorIndex = e.signer("val") - 1
			if v.ValidatorIndex == by-1 {
				v.ValidatorIndex = e.T - 1
			}
		case "neg1":
			v.ValidatorIndex = -1
		case "neg64":
			v.ValidatorIndex = -64
		case "size":
			v.ValidatorIndex = 4
		case "huge":
			v.ValidatorIndex = math.MaxInt64
		}
		switch f["ad"] {
		case "empty":
			v.ValidatorAddress = []byte{}
		case "short":
			v.ValidatorAddress = v.ValidatorAddress[:10]
		case "other":
			v.ValidatorAddress = e.s.Addrs[e.T-1]
		}
		v.Signature = signature(f["sg"], e.s.Privs[by-1], types.SignBytes(csim.ChainID, v))
		return chID, encode(&pbft.VoteMessage{Vote: v}), nil
	case "HasVote":
		msg := &pbft.HasVoteMessage{Height: e.height(f["h"]), Round: e.round(f["r"]), Type: voteType(f["ty"])}
		switch f["ix"] {
		case "ok":
			msg.Index = 1
		case "neg1":
			msg.Index = -1
		case "neg64":
			msg.Index = -64
		case "size":
			msg.Index = 4
		case "huge":
			msg.Index = math.MaxInt64
		}
		return chID, encode(msg), nil
	case "VoteSetMaj23":
		id, err := e.blockIDOf(f["bi"])
		if err != nil {
			return 0, nil, err
		}
		return chID, encode(&pbft.VoteSetMaj23Message{Height: e.height(f["h"]), Round: e.round(f["r"]), Type: voteType(f["ty"]), BlockID: id}), nil
	case "VoteSetBits":
		id, err := e.blockIDOf(f["bi"])
		if err != nil {
			return 0, nil, err
		}
		return chID, encode(&pbft.VoteSetBitsMessage{Height: e.height(f["h"]), Round: e.round(f["r"]), Type: voteType(f["ty"]), BlockID: id,
			Votes: bitArray(f["ba"], 4)}), nil
	case "Raw":
		base := encode(&pbft.HasVoteMessage{Height: h, Round: r, Type: types.VoteTypePrevote, Index: 1})
		switch f["kind"] {
		case "empty":
			return chID, []byte{}, nil
		case "nilmsg":
			return chID, []byte{0x00}, nil
		case "unknowntype":
			base[0] = 0x7f
			return chID, base, nil
		case "truncated":
			return chID, base[:len(base)-3], nil
		case "trailing":
			return chID, append(base, 1, 2, 3, 4, 5), nil
		case "typeonly":
			return chID, base[:1], nil
		}
	}
	return 0, nil, fmt.Errorf("cannot concretise message class %+v", m)
}

// preparePeer establishes what the sender made us believe about it before the message under test.
func (e *env) preparePeer(cls string) error {
	h, r, step := e.hrs()
	if cls == "fresh" {
		return nil
	}
	lcr := int64(-1)
	if rs := e.cs.GetRoundState(); rs.LastCommit != nil {
		lcr = rs.LastCommit.Round()
	}
	nrs := encode(&pbft.NewRoundStepMessage{Height: h, Round: r, Step: pbft.RoundStepType(step), LastCommitRound: lcr})
	if p, _ := mbt.Catch(func() { e.conR.Receive(pbft.StateChannel, e.peer, nrs) }); p != nil {
		return fmt.Errorf("NewRoundStep of the synced peer panicked: %v", p)
	}
	if cls == "synced" {
		return nil
	}
	// full: what our own gossip routines record once they have sent the proposal and picked votes for the peer
	rs := e.cs.GetRoundState()
	lcs := 0
	if rs.LastCommit != nil {
		lcs = rs.LastCommit.Size()
	}
	e.ps.EnsureVoteBitArrays(h, rs.Validators.Size())
	e.ps.EnsureVoteBitArrays(h-1, lcs)
	pm, err := e.s.Concrete(csim.Msg{T: "P", H: h, R: r, V: xsym(h), Pol: -1, By: e.signer("prop")}, e.n)
	if err != nil {
		return err
	}
	e.ps.SetHasProposal(pm.(*pbft.ProposalMessage).Proposal)
	return nil
}
