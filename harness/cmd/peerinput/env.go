package main

// The receiver under test: one REAL pbft.ConsensusState (validator T of four) inside csim, with the REAL
// ConsensusReactor in front of it and one REAL p2p.Peer (MConnection over an in-memory pipe) as the
// malicious sender.  The other three validators are scripted with their real keys.

import (
	"encoding/json"
	"fmt"
	"io"
	"io/ioutil"
	"net"
	"os"
	"sort"
	"strconv"
	"strings"
	"sync"
	"time"

	"github.com/spf13/viper"

	"github.com/dappledger/AnnChain/gemmill/consensus/pbft"
	crypto "github.com/dappledger/AnnChain/gemmill/go-crypto"
	"github.com/dappledger/AnnChain/gemmill/p2p"
	"github.com/dappledger/AnnChain/gemmill/types"

	"verifharness/csim"
	"verifharness/mbt"
)

const maxRound = 3

type env struct {
	dir       string
	s         *csim.Sim
	T         int
	n         *csim.Node
	cs        *pbft.ConsensusState
	conR      *pbft.ConsensusReactor
	sw        *p2p.Switch
	peer      *p2p.Peer
	ps        *pbft.PeerState
	pipe      net.Conn
	sit       string
	fast      bool
	peerErrMu sync.Mutex
	peerErr   interface{}
	sentinel  chan struct{}
}

type pipeAddr struct{}

func (pipeAddr) Network() string { return "tcp" }
func (pipeAddr) String() string  { return "10.9.8.7:46656" }

// sentinelReactor signals when the connection's recvRoutine has worked its way up to a marker packet.
type sentinelReactor struct {
	p2p.BaseReactor
	ch chan struct{}
}

func (r *sentinelReactor) GetChannels() []*p2p.ChannelDescriptor {
	return []*p2p.ChannelDescriptor{{ID: 0x7e, Priority: 1, SendQueueCapacity: 1}}
}
func (r *sentinelReactor) Receive(chID byte, peer *p2p.Peer, msgBytes []byte) {
	select {
	case r.ch <- struct{}{}:
	default:
	}
}

func powers() []int64 { return []int64{1, 1, 1, 1} }

func newEnv(T int, fast bool) (*env, error) {
	dir, err := ioutil.TempDir("", "peerinput-")
	if err != nil {
		return nil, err
	}
	var byz []int
	for i := 1; i <= 4; i++ {
		if i != T {
			byz = append(byz, i)
		}
	}
	s, err := csim.New(dir, powers(), byz, maxRound)
	if err != nil {
		os.RemoveAll(dir)
		return nil, err
	}
	e := &env{dir: dir, s: s, T: T, n: s.Nodes[T], fast: fast, sentinel: make(chan struct{}, 4)}
	e.cs = e.n.CS
	if !fast {
		s.Start()
	}
	e.conR = pbft.NewConsensusReactor(e.cs, fast)
	conf := viper.New()
	e.sw = p2p.NewSwitch(conf)
	e.sw.AddReactor("CONSENSUS", e.conR)
	if err := e.conR.VerifStart(fast); err != nil {
		e.close()
		return nil, err
	}
	e.newPeer()
	return e, nil
}

// newPeer connects a fresh sender: what Switch.AddPeerWithConnection + ConsensusReactor.AddPeer set up, minus the
// three gossip goroutines (they are exercised separately, see gossip.go).
func (e *env) newPeer() {
	if e.peer != nil {
		e.peer.Stop()
	}
	if e.pipe != nil {
		e.pipe.Close()
	}
	c1, c2 := net.Pipe()
	e.pipe = c2
	go io.Copy(ioutil.Discard, &readOnly{c2})
	key := crypto.GenPrivKeyEd25519FromSecret([]byte("peerinput-attacker"))
	pk := key.PubKey()
	info := &p2p.NodeInfo{PubKey: pk, Moniker: "attacker", Network: csim.ChainID, RemoteAddr: "10.9.8.7:46656", ListenAddr: "10.9.8.7:46656", Version: "0.0.0"}
	sen := &sentinelReactor{ch: e.sentinel}
	sen.BaseReactor = *p2p.NewBaseReactor("sentinel", sen)
	byCh := map[byte]p2p.Reactor{pbft.StateChannel: e.conR, pbft.DataChannel: e.conR, pbft.VoteChannel: e.conR, pbft.VoteSetBitsChannel: e.conR, 0x7e: sen}
	descs := append(e.conR.GetChannels(), sen.GetChannels()...)
	e.peerErrMu.Lock()
	e.peerErr = nil
	e.peerErrMu.Unlock()
	e.peer = p2p.VerifNewPeer(viper.New(), &addrConn{c1}, info, false, byCh, descs, func(p *p2p.Peer, r interface{}) {
		e.peerErrMu.Lock()
		if e.peerErr == nil {
			e.peerErr = r
		}
		e.peerErrMu.Unlock()
		select {
		case e.sentinel <- struct{}{}:
		default:
		}
	})
	e.peer.Start()
	e.ps = pbft.NewPeerState(e.peer)
	e.peer.Data.Set(types.PeerStateKey, e.ps)
}

type addrConn struct{ net.Conn }

func (addrConn) LocalAddr() net.Addr  { return &net.TCPAddr{IP: net.IPv4(127, 0, 0, 1), Port: 46656} }
func (addrConn) RemoteAddr() net.Addr { return &net.TCPAddr{IP: net.IPv4(10, 9, 8, 7), Port: 46656} }

// readOnly hides WriteTo/ReadFrom shortcuts so io.Copy just reads.
type readOnly struct{ c net.Conn }

func (r *readOnly) Read(p []byte) (int, error) { return r.c.Read(p) }

func (e *env) close() {
	if e.peer != nil {
		e.peer.Stop()
	}
	if e.pipe != nil {
		e.pipe.Close()
	}
	if e.conR != nil {
		// do not call conR.Stop(): OnStop stops the consensus state, whose routines were never started
	}
	e.s.Close()
	os.RemoveAll(e.dir)
}

func (e *env) peerError() interface{} {
	e.peerErrMu.Lock()
	defer e.peerErrMu.Unlock()
	return e.peerErr
}

// ---------------------------------------------------------------------------------------------
// stepping the node under test

// drain moves what the node queued for itself into the simulator's view of its internal queue.
func (e *env) drain() {
	for {
		m, ok := e.cs.VerifPopInternal()
		if !ok {
			return
		}
		e.n.IQ = append(e.n.IQ, m)
	}
}

// runInternal handles the node's own queued messages (Internal steps) until the queue is empty.
func (e *env) runInternal() {
	e.drain()
	for len(e.n.IQ) > 0 {
		m := e.n.IQ[0]
		e.n.IQ = e.n.IQ[1:]
		e.cs.VerifHandleInternal(m)
		e.drain()
	}
}

func (e *env) hrs() (int64, int64, int) {
	rs := e.cs.GetRoundState()
	return rs.Height, rs.Round, int(rs.Step)
}

func (e *env) proposerIdx() int {
	rs := e.cs.GetRoundState()
	return e.s.IdxOfAddr(rs.Validators.Proposer().Address)
}

// proposerOf computes the proposer of (current height, round) as a running node does.
func (e *env) proposerOf(round int64) int {
	rs := e.cs.GetRoundState()
	vs := rs.Validators.Copy()
	if d := round - rs.Round; d > 0 {
		vs.IncrementAccum(d)
	}
	return e.s.IdxOfAddr(vs.Proposer().Address)
}

func (e *env) others() []int {
	var o []int
	for i := 1; i <= 4; i++ {
		if i != e.T {
			o = append(o, i)
		}
	}
	return o
}

func xsym(h int64) []interface{} { return []interface{}{"X", h, int64(1)} }
func ysym(h int64) []interface{} { return []interface{}{"X", h, int64(2)} }

func jint(v interface{}) int64 {
	switch x := v.(type) {
	case int64:
		return x
	case int:
		return int64(x)
	case float64:
		return int64(x)
	case json.Number:
		i, _ := x.Int64()
		return i
	}
	return 0
}

// blockID, part and parts header of a value (created on first use on the node's chain state).
func (e *env) blockID(sym []interface{}) (types.BlockID, error) {
	if len(sym) == 1 {
		return types.BlockID{}, nil
	}
	if _, err := e.s.Concrete(csim.Msg{T: "B", H: jint(sym[1]), R: 0, V: sym}, e.n); err != nil {
		return types.BlockID{}, err
	}
	vm, err := e.s.Concrete(csim.Msg{T: "V", H: jint(sym[1]), R: 0, Ty: "pv", By: e.others()[0], V: sym}, e.n)
	if err != nil {
		return types.BlockID{}, err
	}
	return vm.(*pbft.VoteMessage).Vote.BlockID, nil
}

func (e *env) part(sym []interface{}) (*types.Part, error) {
	bm, err := e.s.Concrete(csim.Msg{T: "B", H: jint(sym[1]), R: 0, V: sym}, e.n)
	if err != nil {
		return nil, err
	}
	return bm.(*pbft.BlockPartMessage).Part, nil
}

// handlePeer = the peerMsgQueue case of receiveRoutine for a scripted (honest-looking) message.
func (e *env) handlePeer(m csim.Msg) error {
	r, err := e.s.Concrete(m, e.n)
	if err != nil {
		return err
	}
	e.cs.VerifHandlePeer(r, fmt.Sprintf("peer%d", m.By))
	e.drain()
	return nil
}

func (e *env) fireAll() bool {
	fired := false
	if ti, err := e.s.Fire(e.T); err == nil {
		fired = true
		e.s.Timeout(e.T, ti.Height, ti.Round, ti.Step)
		e.drain()
	}
	return fired
}

// finish plays honest traffic: from wherever the node is, the other validators propose block X of the node's height,
// prevote and precommit it in the node's current round (again in later rounds if needed).  The node must commit.
func (e *env) finish(h0 int64) error {
	if e.fast {
		// fast sync is over: the consensus state starts (OnStart without receiveRoutine, which the driver plays)
		e.s.Start()
		e.fast = false
	}
	for iter := 0; iter < 8; iter++ {
		if e.n.Store.Height() >= h0 {
			return nil
		}
		h, r, step := e.hrs()
		if h > h0 {
			return nil
		}
		e.runInternal()
		if step == 1 { // NewHeight: the commit timeout passes
			if !e.fireAll() {
				return fmt.Errorf("node sits in NewHeight of height %d with no timer running", h)
			}
			e.runInternal()
			continue
		}
		X := xsym(h)
		prop := e.proposerOf(r)
		var deliver = func(m csim.Msg) {
			if err := e.handlePeer(m); err != nil {
				panic(fmt.Sprintf("finish: cannot build %s: %v", m.Key(), err))
			}
			e.runInternal()
		}
		if prop != e.T {
			deliver(csim.Msg{T: "P", H: h, R: r, V: X, Pol: -1, By: prop})
			deliver(csim.Msg{T: "B", H: h, R: r, V: X})
		}
		for _, ty := range []string{"pv", "pc"} {
			for _, i := range e.others() {
				deliver(csim.Msg{T: "V", H: h, R: r, Ty: ty, By: i, V: X})
			}
			deliver(csim.Msg{T: "B", H: h, R: r, V: X})
		}
		if e.n.Store.Height() >= h0 {
			return nil
		}
		// the round did not decide at this node: let its timers expire
		for k := 0; k < 4; k++ {
			_, r2, _ := e.hrs()
			if r2 > r || e.n.Store.Height() >= h0 {
				break
			}
			if !e.fireAll() {
				break
			}
			e.runInternal()
		}
	}
	if e.n.Store.Height() >= h0 {
		return nil
	}
	h, r, st := e.hrs()
	return fmt.Errorf("node did not commit height %d after honest traffic in %d rounds (now at %d/%d/%d)", h0, 8, h, r, st)
}

// finishGuarded runs finish with a watchdog: a deadlock (lock left held by a recovered panic) is a wedge too.
var wedgesSeen int

func (e *env) finishGuarded(h0 int64) (err error, panicked interface{}, stack string) {
	done := make(chan struct{})
	go func() {
		defer close(done)
		panicked, stack = mbt.Catch(func() { err = e.finish(h0) })
	}()
	// escalating deadlines (30 + 60 + 120 s): honest traffic needs milliseconds of CPU; only a node blocked on a lock
	// or a full queue is still not through after all of them, and then its goroutine is parked inside the consensus code
	for i, d := range []time.Duration{30 * time.Second, 60 * time.Second, 120 * time.Second} {
		select {
		case <-done:
			return
		case <-time.After(d):
		}
		// a goroutine that waits for a mutex in two samples, 30 s (90 s for the first such case of this process) after
		// the honest traffic started, is not slow: nobody runs that could release the lock (the driver plays every
		// goroutine of the node itself).  Concluding here keeps several wedged inputs inside the driver's time limit.
		if i >= 1 || wedgesSeen > 0 {
			if desc, parked := parkedIn("main.(*env).finish("); parked && (strings.Contains(desc, "[sync.Mutex.Lock") || strings.Contains(desc, "[sync.RWMutex") || strings.Contains(desc, "[semacquire")) {
				wedgesSeen++
				return fmt.Errorf("honest traffic did not get through and the goroutine that plays it waits for a lock nobody will release (lock left held by a recovered panic?)\n%s", desc), nil, ""
			}
		}
	}
	desc, parked := parkedIn("main.(*env).finish(")
	if !parked {
		<-done // slow, not blocked
		return
	}
	return fmt.Errorf("honest traffic did not get through in 210 s (escalating deadlines) and the goroutine that plays it is parked: the node is blocked (lock held or queue full)\n%s", desc), nil, ""
}

// ---------------------------------------------------------------------------------------------
// comparison with the node record of Tendermint.tla

var cmpKeys = []string{"up", "h", "r", "st", "prop", "pb", "pp", "lr", "lb", "cr", "pvc", "pcc", "rs", "lc", "iq", "timer", "armed", "tocks", "dec"}

func canon(v interface{}) string {
	b, _ := json.Marshal(mbt.Canon(v))
	return string(b)
}

func sortedSet(v interface{}) interface{} {
	l, ok := v.([]interface{})
	if !ok {
		return v
	}
	c := append([]interface{}(nil), l...)
	sort.Slice(c, func(a, b int) bool { return canon(c[a]) < canon(c[b]) })
	return c
}

func nodeOf(post map[string]interface{}, i int) map[string]interface{} {
	switch x := post["node"].(type) {
	case map[string]interface{}:
		if r, ok := x[strconv.Itoa(i)]; ok {
			return r.(map[string]interface{})
		}
	case []interface{}:
		if i-1 < len(x) {
			if m, ok := x[i-1].(map[string]interface{}); ok {
				return m
			}
		}
	}
	return nil
}

// diffNode lists the keys on which the real node differs from the specification's node record.
func (e *env) diffNode(want map[string]interface{}) ([]string, map[string]interface{}) {
	got := mbt.Canon(e.s.SpecState(e.T)).(map[string]interface{})
	var diff []string
	for _, k := range cmpKeys {
		w, g := mbt.Norm(want[k]), got[k]
		if k == "tocks" {
			w, g = sortedSet(w), sortedSet(g)
		}
		if k == "rs" {
			l, _ := w.([]interface{})
			o := []interface{}{}
			for _, x := range l {
				if int64(mbt.Int(x)) <= maxRound {
					o = append(o, x)
				}
			}
			w = o
		}
		if k == "lc" {
			if m, ok := w.(map[string]interface{}); ok {
				w = map[string]interface{}{"r": m["r"], "c": m["c"]}
			}
		}
		if canon(w) != canon(g) {
			diff = append(diff, k)
		}
	}
	return diff, got
}

// digestGuarded is digest under its own frame name (the wedge watchdog looks for the goroutine parked inside it).
func (e *env) digestGuarded() string { return e.digest() }

func (e *env) digest() string {
	b, _ := json.Marshal(mbt.Canon(e.s.SpecState(e.T)))
	return e.cs.VerifDigest() + "\nspec " + string(b)
}

func (e *env) header(sym []interface{}) (types.PartSetHeader, error) {
	id, err := e.blockID(sym)
	return id.PartsHeader, err
}
