package main

// The other reactors a peer can talk to: blockchain (fast sync, with the real BlockPool and poolRoutine running),
// mempool and PEX.  Each Other(reactor, class, outcome) step runs in a child process: these reactors run goroutines
// of their own (poolRoutine, requesters) that have no recover, so a panic there kills the process - which is exactly
// what the parent reports as a crash.

import (
	"bytes"
	"fmt"
	"io"
	"io/ioutil"
	"net"
	"os"
	"regexp"
	"runtime"
	"strings"
	"sync"
	"time"

	"github.com/spf13/viper"

	"github.com/dappledger/AnnChain/gemmill/archive"
	"github.com/dappledger/AnnChain/gemmill/blockchain"
	"github.com/dappledger/AnnChain/gemmill/consensus/pbft"
	crypto "github.com/dappledger/AnnChain/gemmill/go-crypto"
	"github.com/dappledger/AnnChain/gemmill/go-wire"
	"github.com/dappledger/AnnChain/gemmill/mempool"
	"github.com/dappledger/AnnChain/gemmill/modules/go-clist"
	dbm "github.com/dappledger/AnnChain/gemmill/modules/go-db"
	"github.com/dappledger/AnnChain/gemmill/p2p"
	sm "github.com/dappledger/AnnChain/gemmill/state"
	"github.com/dappledger/AnnChain/gemmill/types"

	"verifharness/csim"
	"verifharness/mbt"
)

func standInPeer(byCh map[byte]p2p.Reactor, descs []*p2p.ChannelDescriptor) (*p2p.Peer, func()) {
	return standInPeerNamed("peerinput-attacker", byCh, descs)
}

func standInPeerNamed(secret string, byCh map[byte]p2p.Reactor, descs []*p2p.ChannelDescriptor) (*p2p.Peer, func()) {
	c1, c2 := net.Pipe()
	go io.Copy(ioutil.Discard, &readOnly{c2})
	key := crypto.GenPrivKeyEd25519FromSecret([]byte(secret))
	info := &p2p.NodeInfo{PubKey: key.PubKey(), Moniker: "attacker", Network: csim.ChainID, RemoteAddr: "10.9.8.7:46656", ListenAddr: "10.9.8.7:46656", Version: "0.0.0"}
	peer := p2p.VerifNewPeer(viper.New(), &addrConn{c1}, info, false, byCh, descs, func(p *p2p.Peer, r interface{}) {})
	peer.Start()
	return peer, func() { peer.Stop(); c2.Close() }
}

func recvOn(r p2p.Reactor, ch byte, peer *p2p.Peer, bz []byte) (disc bool, pval interface{}, stack string) {
	pval, stack = mbt.Catch(func() { r.Receive(ch, peer, bz) })
	return pval != nil, pval, stack
}

// guardedEsc runs f and waits for it base, then 2x base, then 4x base more (7x base in all): only a call that is still
// blocked after every one of the escalating deadlines counts as blocked.  Deadlines are for machine load; a call blocked
// on a lock or channel that nobody will ever release stays blocked however long one waits.
func guardedEsc(base time.Duration, f func()) bool {
	done := make(chan struct{})
	go func() { f(); close(done) }()
	for _, d := range []time.Duration{base, 2 * base, 4 * base} {
		select {
		case <-done:
			return true
		case <-time.After(d):
		}
	}
	return false
}

var goroutineHdr = regexp.MustCompile(`^goroutine (\d+) \[([^\],]+)`)

// parkedIn looks at the real goroutines: it returns id and state of the goroutine whose stack contains `frame`, sampled
// twice two seconds apart; parked = both samples show the same goroutine waiting (not running / runnable).
func parkedIn(frame string) (desc string, parked bool) {
	sample := func() (string, string, string) {
		buf := make([]byte, 4<<20)
		buf = buf[:runtime.Stack(buf, true)]
		for _, g := range strings.Split(string(buf), "\n\n") {
			if strings.Contains(g, frame) {
				if m := goroutineHdr.FindStringSubmatch(g); m != nil {
					return m[1], m[2], g
				}
			}
		}
		return "", "", ""
	}
	id1, st1, g1 := sample()
	time.Sleep(2 * time.Second)
	id2, st2, _ := sample()
	if id1 == "" || id2 == "" {
		return "no goroutine is inside " + frame, false
	}
	waiting := func(s string) bool { return s != "running" && s != "runnable" && s != "syscall" }
	if len(g1) > 1500 {
		g1 = g1[:1500]
	}
	return fmt.Sprintf("goroutine %s [%s] then goroutine %s [%s]\n%s", id1, st1, id2, st2, g1), id1 == id2 && waiting(st1) && waiting(st2)
}

func guarded(d time.Duration, f func()) bool {
	done := make(chan struct{})
	go func() { f(); close(done) }()
	select {
	case <-done:
		return true
	case <-time.After(d):
		return false
	}
}

func (r *runner) other(si int, st mbt.Step) bool {
	reactor, class, want := mbt.Str(st.Args[0]), mbt.Str(st.Args[1]), mbt.Str(st.Args[2])
	action := fmt.Sprintf("Other(%s %s) -> %s", reactor, class, want)
	var got, detail string
	var wedge error
	p, stack := mbt.Catch(func() {
		switch reactor {
		case "bc":
			got, detail, wedge = runBC(class, want)
		case "mempool":
			got, detail, wedge = runMempool(class)
		case "pex":
			got, detail, wedge = runPEX(class)
		default:
			got = "unknown reactor"
		}
	})
	r.rep.Checks++
	r.rep.Count("other_inputs")
	r.rep.Count("other-" + got)
	if p != nil {
		r.fail(si, action, "panic", true, "crash:"+reactor+":"+class, fmt.Sprintf("panic outside Receive: %v\n%s", p, stack), want, "Crash")
		return false
	}
	if wedge != nil {
		key := "wedge:" + reactor + ":" + class
		if reactor == "bc" && strings.HasPrefix(class, "response-") {
			key = "wedge:bcBlockResponse:" + strings.TrimPrefix(class, "response-")
		}
		r.fail(si, action, "property", true, key, wedge.Error(), want, got)
		return false
	}
	if got != want {
		r.fail(si, action, "mismatch", false, "outcome:"+reactor+":"+class+":"+want+":"+got, "specification says "+want+", the real code did "+got+" "+detail, want, got)
		return false
	}
	return true
}

// ---------------------------------------------------------------------------------------------
// blockchain reactor in fast-sync mode

type bcEnv struct {
	dir      string
	sim      *csim.Sim
	bcR      *blockchain.BlockchainReactor
	store    *blockchain.BlockStore
	peer     *p2p.Peer
	stop     func()
	executed []int64
	blocks   map[int64]*types.Block
	exMu     sync.Mutex
	hungWhy  string
	hung     bool // a Receive call never returned: the reactor / pool is blocked, nothing may be closed any more
}

func (e *bcEnv) executedHeights() []int64 {
	e.exMu.Lock()
	defer e.exMu.Unlock()
	return append([]int64(nil), e.executed...)
}

// the reference chain (three blocks made by four honest real nodes) is built once per process
var refChain struct {
	sim    *csim.Sim
	dir    string
	blocks map[int64]*types.Block
}

func newBC() (*bcEnv, error) {
	if refChain.sim == nil {
		dir, err := ioutil.TempDir("", "peerinput-bc-")
		if err != nil {
			return nil, err
		}
		s, err := csim.New(dir, powers(), nil, maxRound)
		if err != nil {
			return nil, err
		}
		s.Start()
		if _, err := s.Drain(3, 400); err != nil {
			return nil, fmt.Errorf("cannot build the reference chain: %v", err)
		}
		refChain.sim, refChain.dir, refChain.blocks = s, dir, map[int64]*types.Block{}
		for h := int64(1); h <= 3; h++ {
			refChain.blocks[h] = s.Nodes[1].Store.LoadBlock(h)
		}
	}
	s, dir := refChain.sim, refChain.dir
	e := &bcEnv{dir: dir, blocks: refChain.blocks, sim: s}
	valSet := s.Nodes[1].State.LastValidators
	if valSet == nil || valSet.Size() == 0 {
		valSet = s.Nodes[1].State.Validators
	}
	conf := viper.New()
	conf.Set("block_part_size", 1<<20)
	conf.Set("db_archive_dir", dir)
	conf.Set("db_backend", "memdb")
	store := blockchain.NewBlockStore(dbm.NewMemDB(), nil)
	e.store = store
	arch := archive.NewArchive("memdb", dir, 0) // threshold_blocks default
	e.bcR = blockchain.NewBlockchainReactor(conf, 0, store, true, arch)
	e.bcR.SetBlockVerifier(func(id types.BlockID, h int64, c *types.Commit) error {
		return valSet.VerifyCommit(csim.ChainID, id, h, c)
	})
	e.bcR.SetBlockExecuter(func(b *types.Block, ps *types.PartSet, c *types.Commit) error {
		e.exMu.Lock()
		e.executed = append(e.executed, b.Height)
		e.exMu.Unlock()
		store.SaveBlock(b, ps, c)
		return nil
	})
	evsw := types.NewEventSwitch()
	evsw.Start()
	e.bcR.SetEventSwitch(evsw)
	sw := p2p.NewSwitch(conf)
	sw.AddReactor("BLOCKCHAIN", e.bcR)
	if _, err := e.bcR.Start(); err != nil {
		return nil, err
	}
	e.peer, e.stop = standInPeer(map[byte]p2p.Reactor{blockchain.BlockchainChannel: e.bcR}, e.bcR.GetChannels())
	blockchain.VerifSetPeerTimeoutSeconds(3600) // the 15 s response timer would turn machine load into peer removals
	return e, nil
}

func (e *bcEnv) close() {
	if e.hung {
		return // the process ends anyway; Stop() could block behind the held lock
	}
	e.stop()
	e.bcR.Stop()
}

func closeRefChain() {
	if refChain.sim != nil {
		refChain.sim.Close()
		os.RemoveAll(refChain.dir)
		refChain.sim = nil
	}
}

func (e *bcEnv) recv(o interface{}) (bool, interface{}, string) {
	return e.recvFrom(e.peer, wire.BinaryBytes(o))
}

// recvFrom is Receive on the peer's connection goroutine, time-bounded: a Receive that does not return within 6 s has
// blocked that peer's recvRoutine for good (and whatever lock it holds).
func (e *bcEnv) recvFrom(peer *p2p.Peer, bz []byte) (disc bool, pval interface{}, stack string) {
	if e.hung {
		return false, nil, ""
	}
	if guardedEsc(6*time.Second, func() { disc, pval, stack = recvOn(e.bcR, blockchain.BlockchainChannel, peer, bz) }) {
		return
	}
	// 42 s without a return.  The verdict comes from the goroutine itself: is it parked inside the reactor?
	desc, parked := parkedIn("blockchain.(*BlockchainReactor).Receive")
	if !parked {
		// slow, not blocked: give it all the time it needs
		desc2 := ""
		for k := 0; k < 20 && !parked; k++ {
			time.Sleep(5 * time.Second)
			if desc2, parked = parkedIn("blockchain.(*BlockchainReactor).Receive"); strings.HasPrefix(desc2, "no goroutine") {
				return // it returned meanwhile
			}
		}
		desc = desc2
	}
	e.hung = true
	e.hungWhy = desc
	return false, "Receive did not return (42 s, escalating deadlines) and its goroutine is parked: " + desc, ""
}

// serveHonest plays an honest peer for as long as it takes: it (re-)announces its height whenever the pool does not
// know it (a pool drops peers it finds slow; honest peers answer the status request that follows) and answers every
// request the pool has assigned to it with the genuine block.  It returns when blocks 1..upto are executed, when a
// Receive call blocks for good, or after the (generous) deadline.
func (e *bcEnv) serveHonest(upto int, deadline time.Duration) bool {
	end := time.Now().Add(deadline)
	for time.Now().Before(end) && !e.hung {
		if len(e.executedHeights()) >= upto {
			return true
		}
		v := e.bcR.VerifPool().VerifView(3)
		if _, known := v.Peers[e.peer.Key]; !known {
			e.recv(blockchain.VerifStatusResponse(3))
		}
		for _, rq := range v.Requesters {
			if rq.PeerID == e.peer.Key && !rq.HasBlock && e.blocks[rq.Height] != nil {
				e.recvFrom(e.peer, wire.BinaryBytes(blockchain.VerifBlockResponse(cloneBlock(e.blocks[rq.Height]))))
			}
		}
		time.Sleep(100 * time.Millisecond)
	}
	return len(e.executedHeights()) >= upto
}

// announce makes the pool ask this peer for blocks 1..: returns when requesters 1 and 2 are assigned to it.
func (e *bcEnv) announce(h int64) error {
	if d, p, _ := e.recv(blockchain.VerifStatusResponse(h)); d {
		return fmt.Errorf("status response disconnected: %v", p)
	}
	for k := 0; k < 3000; k++ { // up to 60 s: only machine load decides how long the requesters take
		v := e.bcR.VerifPool().VerifView(3)
		n := 0
		for _, rq := range v.Requesters {
			if rq.PeerID == e.peer.Key && rq.Height <= 3 {
				n++
			}
		}
		if n >= 3 {
			return nil
		}
		if _, known := v.Peers[e.peer.Key]; !known && k%100 == 99 {
			e.recv(blockchain.VerifStatusResponse(h))
		}
		time.Sleep(20 * time.Millisecond)
	}
	return fmt.Errorf("the pool did not assign requests 1..3 to the peer within 60 s")
}

func cloneBlock(b *types.Block) *types.Block {
	var n int
	var err error
	c := wire.ReadBinary(&types.Block{}, bytes.NewReader(wire.BinaryBytes(b)), types.MaxBlockSize, &n, &err).(*types.Block)
	return c
}

func runBC(class, want string) (got, detail string, wedge error) {
	e, err := newBC()
	if err != nil {
		return "setup-error", err.Error(), nil
	}
	defer e.close()
	var disc bool
	var pval interface{}
	settle := 450 * time.Millisecond // several trySync ticks of poolRoutine (100 ms)
	switch class {
	case "status-ok":
		disc, pval, _ = e.recv(blockchain.VerifStatusResponse(3))
	case "status-zero":
		disc, pval, _ = e.recv(blockchain.VerifStatusResponse(0))
	case "status-neg":
		disc, pval, _ = e.recv(blockchain.VerifStatusResponse(-5))
	case "status-huge":
		disc, pval, _ = e.recv(blockchain.VerifStatusResponse(1<<62 + 7))
	case "statusreq":
		disc, pval, _ = e.recv(blockchain.VerifStatusRequest(-1))
	case "blockreq-unknown":
		disc, pval, _ = e.recv(blockchain.VerifBlockRequest(5))
	case "blockreq-huge":
		disc, pval, _ = e.recv(blockchain.VerifBlockRequest(1<<62 + 7))
	case "blockreq-zero":
		disc, pval, _ = e.recv(blockchain.VerifBlockRequest(0))
	case "blockreq-neg":
		disc, pval, _ = e.recv(blockchain.VerifBlockRequest(-9))
	case "raw-empty":
		disc, pval, _ = recvOn(e.bcR, blockchain.BlockchainChannel, e.peer, []byte{})
	case "raw-unknowntype":
		disc, pval, _ = recvOn(e.bcR, blockchain.BlockchainChannel, e.peer, []byte{0x7f, 1, 2, 3})
	case "raw-truncated":
		bz := wire.BinaryBytes(blockchain.VerifBlockResponse(e.blocks[1]))
		disc, pval, _ = recvOn(e.bcR, blockchain.BlockchainChannel, e.peer, bz[:len(bz)/2])
	case "resp-unsolicited-nil":
		disc, pval, _ = e.recv(blockchain.VerifBlockResponse(nil))
	case "resp-unsolicited-valid":
		disc, pval, _ = e.recv(blockchain.VerifBlockResponse(e.blocks[1]))
	case "resp-unsolicited-nil-header":
		b := cloneBlock(e.blocks[1])
		b.Header = nil
		disc, pval, _ = e.recv(blockchain.VerifBlockResponse(b))
	case "response-duplicate", "response-two-different", "response-nonassigned-peer", "response-unrequested-height":
		return runBCResponse(e, class)
	case "commit-late-badsig", "commit-late-wrong-height", "commit-late-wrong-round", "commit-late-wrong-type", "commit-late-wrong-index",
		"commit-late-wrong-address", "commit-late-duplicate", "commit-late-nil", "commit-late-other-block", "commit-late-empty-address":
		return runBCCommit(e, class, want)
	default:
		// requested-*: the pool asked this peer for blocks 1 and 2
		if err := e.announce(3); err != nil {
			return "setup-error", err.Error(), nil
		}
		b1, b2 := cloneBlock(e.blocks[1]), cloneBlock(e.blocks[2])
		switch class {
		case "requested-nil":
			b1 = nil
		case "requested-nil-header":
			b1.Header = nil
		case "requested-nil-data":
			b1.Data = nil
		case "requested-nil-lastcommit":
			b1.LastCommit = nil
		case "requested-wrong-height":
			b1.Header.Height = 2
		case "requested-second-nil-lastcommit":
			b2.LastCommit = nil
		case "requested-second-nil-data":
			b2.Data = nil
		case "requested-second-commit-nil-entries":
			b2.LastCommit = &types.Commit{BlockID: b2.LastCommit.BlockID, Precommits: make([]*types.Vote, 4)}
		case "requested-second-commit-empty":
			b2.LastCommit = &types.Commit{}
		case "requested-second-commit-short":
			b2.LastCommit.Precommits = b2.LastCommit.Precommits[:2]
		case "requested-second-commit-bad-vote":
			v := *b2.LastCommit.Precommits[0]
			v.ValidatorIndex = -1
			v.ValidatorAddress = nil
			v.Signature = nil
			b2.LastCommit.Precommits[0] = &v
		case "requested-second-commit-neg-height":
			for _, v := range b2.LastCommit.Precommits {
				if v != nil {
					v.Height = -3
				}
			}
		case "requested-valid":
		default:
			return "unknown class", "", nil
		}
		disc, pval, _ = e.recv(blockchain.VerifBlockResponse(b1))
		if !disc && b1 != nil && b1.Header != nil {
			d2, p2, _ := e.recv(blockchain.VerifBlockResponse(b2))
			disc, pval = d2, p2
		}
		time.Sleep(settle) // poolRoutine verifies (and executes) in its own goroutine: a panic there ends this process
		for k := 0; want == "Accept" && len(e.executedHeights()) == 0 && k < 1200; k++ {
			time.Sleep(100 * time.Millisecond)
		}
		if class == "requested-valid" {
			if len(e.executedHeights()) == 0 || e.executedHeights()[0] != 1 {
				return "Drop", "", fmt.Errorf("valid blocks 1 and 2 from the requested peer were not executed (executed: %v)", e.executedHeights())
			}
			return "Accept", "", nil
		}
		if len(e.executedHeights()) > 0 {
			return "Accept", fmt.Sprintf("executed %v", e.executedHeights()), nil
		}
	}
	if e.hung {
		return "Drop", "", fmt.Errorf("BlockchainReactor.Receive never returned (blocked for good)")
	}
	time.Sleep(150 * time.Millisecond)
	// no wedge: the pool still answers (its lock is free) and the reactor still serves a status request
	ok := guardedEsc(10*time.Second, func() {
		e.bcR.VerifPool().VerifView(3)
		p, stop := standInPeer(map[byte]p2p.Reactor{blockchain.BlockchainChannel: e.bcR}, e.bcR.GetChannels())
		recvOn(e.bcR, blockchain.BlockchainChannel, p, wire.BinaryBytes(blockchain.VerifStatusRequest(1)))
		stop()
	})
	if !ok {
		e.hung = true
		wedge = fmt.Errorf("the blockchain reactor / pool is blocked after the message (lock held)")
	}
	if disc {
		return "Disconnect", fmt.Sprint(pval), wedge
	}
	return "Drop", "", wedge
}

// runBCResponse: block responses the pool did not ask for in that form, while block 1 is still waiting for block 2 (its
// height is not popped yet): the same block twice from the assigned peer, two different blocks for one height, a block
// from a peer the request was not assigned to, a block of a height nobody asked this peer for.  Then the NO-WEDGE oracle,
// every step time-bounded: the pool answers GetStatus / PeekTwoBlocks, takes further honest responses, and the sync
// still executes the chain.
func runBCResponse(e *bcEnv, class string) (got, detail string, wedge error) {
	if err := e.announce(3); err != nil {
		return "setup-error", err.Error(), nil
	}
	b1 := cloneBlock(e.blocks[1])
	resp := func(b *types.Block) []byte { return wire.BinaryBytes(blockchain.VerifBlockResponse(b)) }
	var disc bool
	var pval interface{}
	switch class {
	case "response-duplicate":
		e.recvFrom(e.peer, resp(b1))
		disc, pval, _ = e.recvFrom(e.peer, resp(cloneBlock(e.blocks[1])))
	case "response-two-different":
		e.recvFrom(e.peer, resp(b1))
		other := cloneBlock(e.blocks[1])
		other.Data.Txs = append(other.Data.Txs, types.Tx("another body"))
		other.Header.DataHash = nil
		disc, pval, _ = e.recvFrom(e.peer, resp(other))
	case "response-nonassigned-peer":
		p2, stop2 := standInPeerNamed("peerinput-bystander", map[byte]p2p.Reactor{blockchain.BlockchainChannel: e.bcR}, e.bcR.GetChannels())
		defer stop2()
		disc, pval, _ = e.recvFrom(p2, resp(b1))
	case "response-unrequested-height":
		far := cloneBlock(e.blocks[1])
		far.Header.Height = 100000
		disc, pval, _ = e.recvFrom(e.peer, resp(far))
	}
	if e.hung {
		return "Drop", "", fmt.Errorf("BlockchainReactor.Receive never returned for the %s (the peer's recv routine is blocked; BlockPool.AddBlock holds the pool lock): fast sync is wedged\n%s", class, e.hungWhy)
	}
	if disc {
		return "Disconnect", fmt.Sprint(pval), nil
	}
	// oracle 1: the pool's lock is free (escalating deadlines 10 + 20 + 40 s)
	if !guardedEsc(10*time.Second, func() {
		e.bcR.VerifPool().GetStatus()
		e.bcR.VerifPool().PeekTwoBlocks()
		e.bcR.VerifPool().IsCaughtUp()
	}) {
		e.hung = true
		return "Drop", "", fmt.Errorf("BlockPool.GetStatus / PeekTwoBlocks / IsCaughtUp are still blocked 70 s after the %s: the pool lock is held for good", class)
	}
	// oracle 2: an honest peer that answers every request the pool assigns to it gets the chain executed (block 3 needs a
	// block 4 to be verified).  A first window, then one twice as long; the verdict is read from the pool's own state.
	if !e.serveHonest(2, 60*time.Second) && !e.hung {
		e.serveHonest(2, 120*time.Second)
	}
	if e.hung {
		return "Drop", "", fmt.Errorf("an honest response after the %s never returned from Receive: fast sync is wedged\n%s", class, e.hungWhy)
	}
	ex := e.executedHeights()
	if len(ex) < 2 || ex[0] != 1 || ex[1] != 2 {
		v := e.bcR.VerifPool().VerifView(3)
		return "Drop", "", fmt.Errorf("after the %s the sync did not execute blocks 1 and 2 although an honest peer answered every request for 180 s (executed %v; pool height %d, pending %d, requesters %+v, peers %+v)", class, ex, v.Height, v.NumPending, v.Requesters, v.Peers)
	}
	return "Accept", fmt.Sprintf("executed %v", ex), nil
}

// runBCCommit: the assigned peer serves genuine blocks 1..3, except that the LastCommit of block 3 (the commit that
// justifies block 2 and that blockExecuter stores as block 2's SEEN commit) has genuine precommits in the low slots -
// already more than 2/3 of the power - and a malformed precommit in the last slot.  VerifyCommit is the only check fast
// sync applies to it.  The behaviour is followed through what comes next in the node's life: when the pool is caught up
// (SwitchToConsensus) and at every restart (NewConsensusState), reconstructLastCommit feeds EVERY stored precommit of the
// last block's seen commit to VoteSet.AddVote and PanicCrisis-es on a refusal - on poolRoutine's goroutine / at start-up.
// Oracle: for every height the sync executed, a consensus state built on the store at that height must come up.
// Outcome: Accept = block 2 was executed with that commit, Drop = it was refused (peer dropped, block asked again).
func runBCCommit(e *bcEnv, class, want string) (got, detail string, wedge error) {
	if err := e.announce(3); err != nil {
		return "setup-error", err.Error(), nil
	}
	b1, b2, b3 := cloneBlock(e.blocks[1]), cloneBlock(e.blocks[2]), cloneBlock(e.blocks[3])
	lc := b3.LastCommit
	n := len(lc.Precommits)
	last := n - 1
	// genuine precommits in every slot (a validator the reference run did not collect signs now, with its real key)
	genuine := func(i int) *types.Vote {
		v := &types.Vote{ValidatorAddress: e.sim.Addrs[i], ValidatorIndex: i, Height: 2, Round: lc.Round(), Type: types.VoteTypePrecommit, BlockID: lc.BlockID}
		v.Signature = e.sim.Privs[i].Sign(types.SignBytes(csim.ChainID, v))
		return v
	}
	for i := 0; i < n; i++ {
		if lc.Precommits[i] == nil {
			lc.Precommits[i] = genuine(i)
		}
	}
	f := *lc.Precommits[last]
	resign := func() { f.Signature = e.sim.Privs[last].Sign(types.SignBytes(csim.ChainID, &f)) }
	switch class {
	case "commit-late-badsig":
		f.Signature = signature("bad", e.sim.Privs[last], nil)
	case "commit-late-wrong-height":
		f.Height = 7
		resign()
	case "commit-late-wrong-round":
		f.Round = lc.Round() + 3
		resign()
	case "commit-late-wrong-type":
		f.Type = types.VoteTypePrevote
		resign()
	case "commit-late-wrong-index":
		f.ValidatorIndex = 0
	case "commit-late-wrong-address":
		f.ValidatorAddress = e.sim.Addrs[0]
	case "commit-late-empty-address":
		f.ValidatorAddress = nil
	case "commit-late-duplicate":
		f = *lc.Precommits[0] // validator 0's genuine vote a second time, in the last slot
	case "commit-late-other-block":
		f.BlockID = types.BlockID{Hash: bytes.Repeat([]byte{0xab}, 20), PartsHeader: types.PartSetHeader{Total: 1, Hash: bytes.Repeat([]byte{0xcd}, 20)}}
		resign()
	}
	lc.Precommits[last] = &f
	if class == "commit-late-nil" {
		lc.Precommits[last] = nil
	}
	resp := func(b *types.Block) []byte { return wire.BinaryBytes(blockchain.VerifBlockResponse(b)) }
	for _, b := range []*types.Block{b1, b2, b3} {
		if d, p, _ := e.recvFrom(e.peer, resp(b)); d {
			return "Disconnect", fmt.Sprint(p), nil
		}
		if e.hung {
			return "Drop", "", fmt.Errorf("BlockchainReactor.Receive never returned")
		}
	}
	// poolRoutine decides in its own goroutine: block 2 executed, or refused (RedoRequest removes the peer from the pool).
	// Read from the pool's state, with a deadline that only machine load can approach.
	served := map[int64]*types.Block{1: b1, 2: b2, 3: b3}
	for k := 0; k < 1200 && !e.hung; k++ {
		ex := e.executedHeights()
		if len(ex) >= 2 {
			break
		}
		v := e.bcR.VerifPool().VerifView(3)
		_, known := v.Peers[e.peer.Key]
		if len(ex) >= 1 && !known && want != "Accept" {
			break
		}
		if !known && want == "Accept" {
			// dropped as a slow peer before the verdict on block 2: an honest peer announces itself again and serves again
			e.recv(blockchain.VerifStatusResponse(3))
		}
		for _, rq := range v.Requesters {
			if rq.PeerID == e.peer.Key && !rq.HasBlock && served[rq.Height] != nil && (want == "Accept" || k == 0) {
				e.recvFrom(e.peer, resp(served[rq.Height]))
			}
		}
		time.Sleep(100 * time.Millisecond)
	}
	time.Sleep(150 * time.Millisecond)
	ex := e.executedHeights()
	if e.hung {
		return "Drop", "", fmt.Errorf("BlockchainReactor.Receive never returned\n%s", e.hungWhy)
	}
	if len(ex) == 0 {
		return "Drop", "", fmt.Errorf("the genuine block 1 was not executed within 120 s")
	}
	// the node's next steps: switch to consensus now, or stop and start again at any height it has reached
	for _, hgt := range ex {
		var cs *pbft.ConsensusState
		p, stk := mbt.Catch(func() { cs = e.consensusOn(hgt) })
		if p != nil {
			panic(fmt.Sprintf("fast sync accepted block %d with a seen commit whose last slot is malformed (%s); building the consensus state on it (SwitchToConsensus when the pool is caught up / NewConsensusState at every restart: reconstructLastCommit) dies: %v\n%s", hgt, class, p, stk))
		}
		if cs != nil {
			cs.VerifCloseWAL()
		}
	}
	if !guardedEsc(10*time.Second, func() { e.bcR.VerifPool().GetStatus(); e.bcR.VerifPool().PeekTwoBlocks() }) {
		e.hung = true
		wedge = fmt.Errorf("the pool is blocked after the commit with a malformed last slot")
	}
	if len(ex) >= 2 {
		return "Accept", fmt.Sprintf("executed %v", ex), wedge
	}
	return "Drop", fmt.Sprintf("executed %v", ex), wedge
}

// consensusOn builds the consensus state the node would run on the block store as it is, at height h: what
// SwitchToConsensus / a restart do first (updateToState, reconstructLastCommit from the stored seen commit).
func (e *bcEnv) consensusOn(h int64) *pbft.ConsensusState {
	st := sm.MakeGenesisState(dbm.NewMemDB(), e.sim.Genesis)
	st.LastBlockHeight = h
	st.LastValidators = st.Validators.Copy()
	if meta := e.store.LoadBlockMeta(h); meta != nil {
		st.LastBlockID = types.BlockID{Hash: meta.Hash, PartsHeader: meta.PartsHeader}
	}
	conf := viper.New()
	conf.Set("chain_id", csim.ChainID)
	conf.Set("cs_wal_dir", fmt.Sprintf("%s/cs-wal-%d-%d", e.dir, h, time.Now().UnixNano()))
	conf.Set("cs_wal_light", true)
	for _, k := range []string{"timeout_propose", "timeout_prevote", "timeout_precommit", "timeout_commit"} {
		conf.Set(k, 1000)
		conf.Set(k+"_delta", 500)
	}
	return pbft.NewConsensusState(conf, st, e.store, &nullPool{})
}

type nullPool struct{ mtx sync.Mutex }

func (p *nullPool) Lock()                                     { p.mtx.Lock() }
func (p *nullPool) Unlock()                                   { p.mtx.Unlock() }
func (p *nullPool) Reap(count int) []types.Tx                 { return nil }
func (p *nullPool) ReceiveTx(tx types.Tx) error               { return nil }
func (p *nullPool) Update(height int64, txs []types.Tx)       {}
func (p *nullPool) Size() int                                 { return 0 }
func (p *nullPool) TxsFrontWait() *clist.CElement             { return nil }
func (p *nullPool) Flush()                                    {}
func (p *nullPool) RegisterFilter(filter types.IFilter)       {}
func (p *nullPool) GetPendingMaxNonce([]byte) (uint64, error) { return 0, nil }

// ---------------------------------------------------------------------------------------------
// mempool reactor with the real gemmill Mempool

func runMempool(class string) (got, detail string, wedge error) {
	conf := viper.New()
	conf.Set("block_size", 100)
	pool := mempool.NewMempool(conf)
	memR := mempool.NewTxReactor(conf, pool)
	peer, stop := standInPeer(map[byte]p2p.Reactor{mempool.MempoolChannel: memR}, memR.GetChannels())
	defer stop()
	enc := func(tx []byte) []byte { return append([]byte{0x01}, wire.BinaryBytes(tx)...) }
	var bz []byte
	switch class {
	case "tx-small":
		bz = enc([]byte("hello"))
	case "tx-empty":
		bz = enc([]byte{})
	case "tx-big":
		bz = enc(bytes.Repeat([]byte{7}, 1000000))
	case "tx-over-limit":
		bz = enc(bytes.Repeat([]byte{7}, 1100000))
	case "tx-length-lie":
		bz = []byte{0x01, 0x05, 0xff, 0xff, 0xff, 0xff, 0xff, 1, 2, 3}
	case "tx-neg-length":
		bz = []byte{0x01, 0xf1, 0x05, 1, 2, 3}
	case "raw-empty":
		bz = []byte{}
	case "raw-unknowntype":
		bz = []byte{0x7f, 1, 2}
	case "raw-nilmsg":
		bz = []byte{0x00}
	case "tx-duplicate":
		recvOn(memR, mempool.MempoolChannel, peer, enc([]byte("dup")))
		bz = enc([]byte("dup"))
	default:
		return "unknown class", "", nil
	}
	before := pool.Size()
	disc, pval, _ := recvOn(memR, mempool.MempoolChannel, peer, bz)
	after := pool.Size()
	if !guardedEsc(8*time.Second, func() { pool.ReceiveTx(types.Tx("fresh-after")); pool.Reap(-1) }) {
		wedge = fmt.Errorf("the mempool is blocked after the message")
	} else if pool.Size() != after+1 {
		wedge = fmt.Errorf("the mempool does not take a fresh transaction after the message")
	}
	switch {
	case disc:
		return "Disconnect", fmt.Sprint(pval), wedge
	case after > before:
		return "Accept", "", wedge
	}
	return "Drop", "", wedge
}

// ---------------------------------------------------------------------------------------------
// PEX reactor with a real AddrBook

type wireAddr struct {
	IP   []byte
	Port uint16
}

func runPEX(class string) (got, detail string, wedge error) {
	dir, _ := ioutil.TempDir("", "peerinput-pex-")
	defer os.RemoveAll(dir)
	book := p2p.NewAddrBook(dir+"/addrbook.json", true)
	pexR := p2p.NewPEXReactor(book)
	sw := p2p.NewSwitch(viper.New())
	sw.AddReactor("PEX", pexR)
	peer, stop := standInPeer(map[byte]p2p.Reactor{p2p.PexChannel: pexR}, pexR.GetChannels())
	defer stop()
	addrs := func(l []*wireAddr) []byte {
		return append([]byte{0x02}, wire.BinaryBytes(struct{ Addrs []*wireAddr }{l})...)
	}
	good := &wireAddr{IP: net.IPv4(8, 8, 4, 4).To4(), Port: 46656}
	var bz []byte
	switch class {
	case "request":
		bz = []byte{0x01}
	case "addrs-ok":
		bz = addrs([]*wireAddr{good, {IP: net.IPv4(9, 9, 9, 9).To4(), Port: 1}})
	case "addrs-empty":
		bz = addrs(nil)
	case "addrs-nil-entry":
		bz = addrs([]*wireAddr{good, nil})
	case "addrs-empty-ip":
		bz = addrs([]*wireAddr{{IP: []byte{}, Port: 1}})
	case "addrs-odd-ip":
		bz = addrs([]*wireAddr{{IP: []byte{1, 2, 3}, Port: 1}, {IP: bytes.Repeat([]byte{9}, 100), Port: 2}})
	case "addrs-port-zero":
		bz = addrs([]*wireAddr{{IP: net.IPv4(8, 8, 4, 4).To4(), Port: 0}})
	case "addrs-loopback":
		bz = addrs([]*wireAddr{{IP: net.IPv4(127, 0, 0, 1).To4(), Port: 46656}, {IP: net.IPv4(10, 0, 0, 1).To4(), Port: 2}})
	case "addrs-many":
		var l []*wireAddr
		for i := 0; i < 20000; i++ {
			l = append(l, &wireAddr{IP: net.IPv4(byte(11+i%200), byte(i>>8), byte(i), 1).To4(), Port: uint16(1 + i%60000)})
		}
		bz = addrs(l)
	case "addrs-count-lie":
		bz = []byte{0x02, 0x05, 0xff, 0xff, 0xff, 0xff, 0xff, 0x01}
	case "addrs-neg-count":
		bz = []byte{0x02, 0xf1, 0x09}
	case "raw-empty":
		bz = []byte{}
	case "raw-unknowntype":
		bz = []byte{0x7f}
	default:
		return "unknown class", "", nil
	}
	before := book.Size()
	disc, pval, _ := recvOn(pexR, p2p.PexChannel, peer, bz)
	after := book.Size()
	if !guardedEsc(8*time.Second, func() {
		na, _ := p2p.NewNetAddressString("8.8.8.8:46656")
		book.AddAddress(na, na)
		book.GetSelection()
		book.PickAddress(50)
	}) {
		wedge = fmt.Errorf("the address book is blocked after the message (lock held)")
	}
	switch {
	case disc:
		return "Disconnect", fmt.Sprint(pval), wedge
	case after > before:
		return "Accept", "", wedge
	}
	return "Drop", "", wedge
}
