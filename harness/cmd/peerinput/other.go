package main

import "verifharness/mbt"

func (r *runner) other(si int, st mbt.Step) bool {
	r.fail(si, "Other", "error", false, "", "not implemented", nil, nil)
	return false
}
