package main

import (
	"bytes"
	"fmt"
	"strconv"
	"strings"
	"time"

	"github.com/dappledger/AnnChain/gemmill/consensus/pbft"
	"github.com/dappledger/AnnChain/gemmill/go-wire"
	gcmn "github.com/dappledger/AnnChain/gemmill/modules/go-common"
	"github.com/dappledger/AnnChain/gemmill/types"

	"verifharness/csim"
	"verifharness/mbt"
)

func wireBytes(o interface{}) []byte { return wire.BinaryBytes(o) }

// ---------------------------------------------------------------------------------------------
// bounded byte-level mutations of a model-chosen encoding

// mutations lists the mutants of bz: every truncation length, and every byte at a tag / length / small-integer
// position (found by decoding structure: see tagPositions) replaced by each of a few values.
func mutations(bz []byte, maxTrunc int) (out [][]byte, labels []string) {
	step := 1
	if maxTrunc > 0 && len(bz) > maxTrunc {
		step = (len(bz) + maxTrunc - 1) / maxTrunc
	}
	for k := 0; k < len(bz); k += step {
		out = append(out, append([]byte(nil), bz[:k]...))
		labels = append(labels, fmt.Sprintf("trunc@%d", k))
	}
	for _, p := range tagPositions(bz) {
		for _, v := range []byte{0x00, 0x01, 0x02, 0x08, 0x7f, 0x80, 0xf1, 0xff, bz[p] ^ 0x01, bz[p] + 1} {
			if v == bz[p] {
				continue
			}
			c := append([]byte(nil), bz...)
			c[p] = v
			out = append(out, c)
			labels = append(labels, fmt.Sprintf("byte@%d=%02x", p, v))
		}
	}
	return
}

// tagPositions: positions holding interface/pointer tags, varint size bytes and the bytes of varints, approximated
// structurally: every byte of the first 48, every byte whose value is a plausible varint size prefix (0x00..0x08,
// 0xf1..0xf8) followed by that many bytes, and the last 4 bytes.
func tagPositions(bz []byte) []int {
	seen := map[int]bool{}
	var out []int
	add := func(p int) {
		if p >= 0 && p < len(bz) && !seen[p] {
			seen[p] = true
			out = append(out, p)
		}
	}
	for p := 0; p < len(bz) && p < 48; p++ {
		add(p)
	}
	for p, b := range bz {
		sz := int(b & 0x0f)
		if (b <= 0x08 || (b >= 0xf1 && b <= 0xf8)) && p+sz < len(bz) {
			add(p)
			if len(out) > 400 {
				break
			}
		}
	}
	for p := len(bz) - 4; p < len(bz); p++ {
		add(p)
	}
	return out
}

// mutate: Mutate(m, maxTrunc).  No model outcome: required are no crash, and consensus state unchanged whenever the
// mutant does not decode.
func (r *runner) mutate(si int, st mbt.Step) bool {
	e := r.e
	m, err := parseMsg(st.Args[0])
	if err != nil {
		r.fail(si, "Mutate", "error", false, "", err.Error(), nil, nil)
		return false
	}
	maxTrunc := 0
	if len(st.Args) > 1 {
		maxTrunc = mbt.Int(st.Args[1])
	}
	if err := e.preparePeer(m.PS); err != nil {
		r.fail(si, "Mutate", "error", false, "prepare-peer", err.Error(), nil, nil)
		return false
	}
	chID, bz, err := e.concretise(m)
	if err != nil {
		r.fail(si, "Mutate", "error", false, "concretise:"+m.key(), err.Error(), nil, nil)
		return false
	}
	muts, labels := mutations(bz, maxTrunc)
	for k, mb := range muts {
		action := fmt.Sprintf("Mutate(%s %s in %s)", m.T, labels[k], e.sit)
		_, _, derr := safeDecode(mb)
		res, err := e.deliver(chID, mb, false)
		if err != nil {
			r.fail(si, action, "error", false, "deliver", err.Error(), nil, nil)
			return false
		}
		r.rep.Checks++
		r.rep.Count("mutants")
		r.rep.Count("mutant-" + res.outcome)
		if res.outcome == "Wedge" {
			r.fail(si, action, "property", true, "wedge:mutant:"+m.T, fmt.Sprintf("after a mutated encoding (%s) the node's state can no longer be read (lock left held)\nbytes: %x\n%s", labels[k], trunc(mb, 300), res.stack), nil, "Wedge")
			r.e = nil
			return false
		}
		if res.outcome == "Crash" {
			r.fail(si, action, "panic", true, "crash:mutant:"+m.T,
				fmt.Sprintf("panic on the consensus goroutine for a mutated encoding (%s): %v\nbytes: %x\n%s", labels[k], res.pval, trunc(mb, 300), res.stack), nil, "Crash")
			return false
		}
		if derr != nil && res.after != res.before {
			r.fail(si, action, "property", true, "state-changed:mutant:"+m.T,
				fmt.Sprintf("bytes that do not decode (%v) changed the consensus state (%s)\n%s", derr, labels[k], firstDiff(res.before, res.after)), nil, res.outcome)
			return false
		}
		if res.outcome == "Disconnect" {
			e.newPeer()
			if err := e.preparePeer(m.PS); err != nil {
				r.fail(si, action, "error", false, "prepare-peer", err.Error(), nil, nil)
				return false
			}
		}
		if h, _, _ := e.hrs(); h > r.h0 {
			break // a mutant that is a valid message completed the height
		}
	}
	return true
}

func safeDecode(bz []byte) (t byte, msg pbft.ConsensusMessage, err error) {
	p, _ := mbt.Catch(func() { t, msg, err = pbft.DecodeMessage(bz) })
	if p != nil {
		err = fmt.Errorf("decode panicked: %v", p)
	}
	return
}

// ---------------------------------------------------------------------------------------------
// scripted multi-message scenarios: a validly signed proposal (Byzantine proposer of the round) for bytes that are not a
// well-formed block, then the matching part(s).

func (r *runner) scenario(si int, st mbt.Step) bool {
	e := r.e
	name := mbt.Str(st.Args[0])
	action := "Scenario(" + name + " in " + e.sit + ")"
	h, rd, _ := e.hrs()
	var data []byte
	blk := func(mut func(b *types.Block)) []byte {
		orig, err := e.part(xsym(h))
		if err != nil {
			panic(err)
		}
		var n int
		var derr error
		b := wire.ReadBinary(&types.Block{}, bytes.NewReader(orig.Bytes), types.MaxBlockSize, &n, &derr).(*types.Block)
		if derr != nil {
			panic(derr)
		}
		mut(b)
		return wire.BinaryBytes(b)
	}
	switch name {
	case "block-garbage":
		data = bytes.Repeat([]byte{0xee}, 97)
	case "block-zero-bytes":
		data = []byte{0, 0, 0}
	case "block-nil-header":
		data = blk(func(b *types.Block) { b.Header = nil })
	case "block-nil-data":
		data = blk(func(b *types.Block) { b.Data = nil })
	case "block-nil-lastcommit":
		data = blk(func(b *types.Block) { b.LastCommit = nil })
	case "block-truncated":
		d := blk(func(b *types.Block) {})
		data = d[:len(d)/2]
	case "block-nil-precommit-entries", "same-header-other-body-late-parts":
		// the header of X (so the same block hash) around another body, hence other parts
		data = blk(func(b *types.Block) { b.LastCommit = &types.Commit{Precommits: []*types.Vote{nil, nil, nil, nil}} })
	case "same-header-other-data-late-parts":
		data = blk(func(b *types.Block) {
			b.Data = &types.Data{Txs: types.Txs{types.Tx("not the voted body"), types.Tx("at all")}}
		})
	default:
		if strings.HasPrefix(name, "block-absurd-length-") {
			// the genuine block with ONE length prefix of a string / byte-slice field (chain id, a 20-byte hash, a 64-byte
			// signature) replaced by a 9-byte varint close to MaxInt64: offset + length overflows, the size limit must hold
			k, _ := strconv.Atoi(strings.TrimPrefix(name, "block-absurd-length-"))
			d := blk(func(b *types.Block) {})
			var cand []int
			for p := 0; p+2 < len(d); p++ {
				if d[p] == 0x01 && (d[p+1] == 0x14 || d[p+1] == 0x40 || d[p+1] == byte(len(csim.ChainID))) && p+2+int(d[p+1]) <= len(d) {
					cand = append(cand, p)
				}
			}
			if len(cand) == 0 {
				r.fail(si, action, "error", false, "", "no length prefix found in the block encoding", nil, nil)
				return false
			}
			p := cand[(k*7)%len(cand)]
			huge := [][]byte{
				{0x08, 0x7f, 0xff, 0xff, 0xff, 0xff, 0xff, 0xff, 0xff},
				{0x08, 0x7f, 0xff, 0xff, 0xff, 0xff, 0xff, 0xff, 0xf0},
				{0x08, 0x40, 0x00, 0x00, 0x00, 0x00, 0x00, 0x00, 0x00},
			}[k%3]
			data = append(append(append([]byte(nil), d[:p]...), huge...), d[p+2:]...)
			break
		}
		r.fail(si, action, "error", false, "", "unknown scenario", nil, nil)
		return false
	}
	parts := types.NewPartSetFromData(data, 1<<20)
	by := e.signer("prop")
	p := types.NewProposal(h, rd, parts.Header(), -1, types.BlockID{})
	p.Signature = e.s.Privs[by-1].Sign(types.SignBytes(csim.ChainID, p))
	e.preparePeer("synced")
	msgs := [][]byte{encode(&pbft.ProposalMessage{Proposal: p})}
	for i := 0; i < parts.Total(); i++ {
		msgs = append(msgs, encode(&pbft.BlockPartMessage{Height: h, Round: rd, Part: parts.GetPart(i)}))
	}
	for k, bz := range msgs {
		res, err := e.deliver(pbft.DataChannel, bz, false)
		if err != nil {
			r.fail(si, action, "error", false, "deliver", err.Error(), nil, nil)
			return false
		}
		r.rep.Checks++
		r.rep.Count("scenario_messages")
		if res.outcome == "Wedge" {
			r.fail(si, action, "property", true, "wedge:scenario:"+name, "after message "+fmt.Sprint(k)+" of the scenario the node's state can no longer be read (lock left held)\n"+res.stack, nil, "Wedge")
			r.e = nil
			return false
		}
		if res.outcome == "Crash" {
			r.fail(si, action, "panic", true, "crash:scenario:"+name,
				fmt.Sprintf("panic on the consensus goroutine at message %d of the scenario (proposal signed by the round's proposer for bytes that are not a well-formed block, then its part): %v\n%s", k, res.pval, res.stack), nil, "Crash")
			return false
		}
		// the node's own reaction (prevote) runs on the same goroutine
		pv, stk := mbt.Catch(func() { e.runInternal() })
		if pv != nil {
			r.fail(si, action, "panic", true, "crash:scenario:"+name, fmt.Sprintf("panic on the consensus goroutine while the node reacts: %v\n%s", pv, stk), nil, "Crash")
			return false
		}
	}
	// let the propose timeout pass: the node must get to prevote (nil) without dying
	pv, stk := mbt.Catch(func() {
		e.fireAll()
		e.runInternal()
	})
	if pv != nil {
		r.fail(si, action, "panic", true, "crash:scenario:"+name, fmt.Sprintf("panic on the consensus goroutine at the propose timeout: %v\n%s", pv, stk), nil, "Crash")
		return false
	}
	if strings.HasSuffix(name, "-late-parts") {
		return r.lateParts(si, action, name, h, rd)
	}
	return true
}

// lateParts: the node has fully reassembled the Byzantine body (the voted header, another body).  The other validators got
// the genuine block X: their +2/3 prevotes for X's BlockID arrive, then their +2/3 precommits - all BEFORE any genuine part.
// The node must wait for the genuine parts: it may not hold the unvoted body as the polka / commit block, may not enter
// finalizeCommit with it (that ends in PanicConsensus / PanicSanity on the consensus goroutine), may not commit yet.
// (The genuine parts follow in the honest traffic after the scenario, and then it must commit.)
func (r *runner) lateParts(si int, action, name string, h, rd int64) bool {
	e := r.e
	X := xsym(h)
	want, err := e.blockID(X)
	if err != nil {
		r.fail(si, action, "error", false, "", err.Error(), nil, nil)
		return false
	}
	check := func(stage string) bool {
		p := e.cs.VerifProject(maxRound)
		r.rep.Checks++
		if e.n.Store.Height() >= h {
			r.fail(si, action, "property", true, "committed-unvoted-body:"+name, "the node committed height "+fmt.Sprint(h)+" "+stage+" although it never received a part of the voted block", nil, nil)
			return false
		}
		if p.Height == h && p.ProposalBlock != "-" && p.PartsHeader == fmt.Sprintf("%x", want.PartsHeader.Hash) && !p.PartsComplete {
			r.fail(si, action, "property", true, "unvoted-body-kept:"+name,
				fmt.Sprintf("%s the node holds a ProposalBlock (hash %s) while its part set for the voted parts header %x is incomplete: that block was not decoded from the voted parts (it is the Byzantine body with the voted header)", stage, p.ProposalBlock, want.PartsHeader.Hash), nil, nil)
			return false
		}
		return true
	}
	kept := false
	for _, ty := range []string{"pv", "pc"} {
		stage := map[string]string{"pv": "after +2/3 prevotes for the genuine BlockID", "pc": "after +2/3 precommits for the genuine BlockID"}[ty]
		for _, i := range e.others() {
			var herr error
			pv, stk := mbt.Catch(func() {
				herr = e.handlePeer(csim.Msg{T: "V", H: h, R: rd, Ty: ty, By: i, V: X})
				e.runInternal()
			})
			r.rep.Count("scenario_messages")
			if pv != nil {
				r.fail(si, action, "panic", true, "crash:scenario:"+name,
					fmt.Sprintf("panic on the consensus goroutine %s (no genuine part has arrived; the node went on with the body nobody voted for): %v\n%s", stage, pv, stk), nil, "Crash")
				return false
			}
			if herr != nil {
				r.fail(si, action, "error", false, "", herr.Error(), nil, nil)
				return false
			}
		}
		if !check(stage) {
			kept = true // go on: what the node does with that body when the precommits arrive is the observable part
		}
	}
	return !kept
}

// ---------------------------------------------------------------------------------------------
// gossip routines reading a PeerState the peer poisoned through Receive

func (r *runner) gossip(si int, st mbt.Step) bool {
	e := r.e
	name := mbt.Str(st.Args[0])
	action := "Gossip(" + name + " in " + e.sit + ")"
	h, rd, step := e.hrs()
	hdr, err := e.header(xsym(h))
	if err != nil {
		r.fail(si, action, "error", false, "", err.Error(), nil, nil)
		return false
	}
	send := func(ch byte, msg pbft.ConsensusMessage) bool {
		res, err := e.deliver(ch, encode(msg), false)
		if err != nil || res.outcome == "Crash" {
			r.fail(si, action, "panic", true, "crash:gossip-setup:"+name, fmt.Sprintf("%v %v\n%s", err, res.pval, res.stack), nil, nil)
			return false
		}
		return res.outcome != "Disconnect"
	}
	nrs := &pbft.NewRoundStepMessage{Height: h, Round: rd, Step: pbft.RoundStepType(step), LastCommitRound: -1}
	fakeProposal := func(pol int64) *pbft.ProposalMessage {
		p := types.NewProposal(h, rd, hdr, pol, types.BlockID{})
		p.Signature = signature("bad", e.s.Privs[0], nil)
		return &pbft.ProposalMessage{Proposal: p}
	}
	alive := true
	switch {
	case len(name) > 10 && name[:10] == "commitstep":
		// CommitStep with our parts header and a poisoned bit array -> ps.ProposalBlockParts
		alive = send(pbft.StateChannel, nrs) && send(pbft.StateChannel, &pbft.CommitStepMessage{Height: h, BlockPartsHeader: hdr, BlockParts: bitArray(name[11:], 1)})
	case len(name) > 3 && name[:3] == "pol":
		// the peer's own (unverifiable) proposal sets ps.ProposalPOLRound = 0, then ProposalPOL with a poisoned array
		// (the peer claims to be one round ahead, so that the POL round is not its current round)
		nrs.Round = rd + 1
		pm := fakeProposal(rd)
		pm.Proposal.Round = rd + 1
		alive = send(pbft.StateChannel, nrs) && send(pbft.DataChannel, pm) &&
			send(pbft.DataChannel, &pbft.ProposalPOLMessage{Height: h, ProposalPOLRound: rd, ProposalPOL: bitArray(name[4:], 4)})
	case name == "nrs-neg-height":
		alive = send(pbft.StateChannel, &pbft.NewRoundStepMessage{Height: -5, Round: 0, Step: 1, LastCommitRound: -1})
	case name == "nrs-huge-height":
		alive = send(pbft.StateChannel, &pbft.NewRoundStepMessage{Height: 1<<62 + 5, Round: 0, Step: 1, LastCommitRound: -1})
	case name == "nrs-prev-height":
		alive = send(pbft.StateChannel, &pbft.NewRoundStepMessage{Height: h - 1, Round: 0, Step: 1, LastCommitRound: -1})
	case name == "nrs-neg-round":
		alive = send(pbft.StateChannel, &pbft.NewRoundStepMessage{Height: h, Round: -9, Step: 1, LastCommitRound: -9})
	case name == "nrs-huge-round":
		alive = send(pbft.StateChannel, &pbft.NewRoundStepMessage{Height: h, Round: 1<<62 + 1, Step: 8, LastCommitRound: 1 << 62})
	case name == "nrs-huge-step":
		alive = send(pbft.StateChannel, &pbft.NewRoundStepMessage{Height: h, Round: rd, Step: 0xff, LastCommitRound: -1})
	case name == "proposal-neg-total":
		pm := fakeProposal(-1)
		pm.Proposal.BlockPartsHeader.Total = -1
		alive = send(pbft.StateChannel, nrs) && send(pbft.DataChannel, pm)
	case name == "proposal-pol-huge":
		alive = send(pbft.StateChannel, nrs) && send(pbft.DataChannel, fakeProposal(1<<62))
	case name == "valid":
		alive = send(pbft.StateChannel, nrs)
	default:
		r.fail(si, action, "error", false, "", "unknown gossip poison", nil, nil)
		return false
	}
	if !alive {
		r.rep.Count("gossip_poison_disconnected")
		e.newPeer()
		return true // the peer was disconnected while poisoning: nothing left for the gossip routines to read
	}
	// The three routines AddPeer starts with `go` run here for a bounded time.  They have no recover.
	type res struct {
		which string
		p     interface{}
		stack string
	}
	out := make(chan res, 3)
	run := func(which string, f func()) {
		go func() {
			p, stk := mbt.Catch(f)
			out <- res{which, p, stk}
		}()
	}
	run("gossipDataRoutine", func() { e.conR.VerifGossipData(e.peer, e.ps) })
	run("gossipVotesRoutine", func() { e.conR.VerifGossipVotes(e.peer, e.ps) })
	run("queryMaj23Routine", func() { e.conR.VerifQueryMaj23(e.peer, e.ps) })
	dur := 350 * time.Millisecond
	if len(st.Args) > 1 {
		dur = time.Duration(mbt.Int(st.Args[1])) * time.Millisecond
	}
	okAll := true
	report := func(x res) {
		if x.p != nil {
			r.fail(si, action, "panic", true, "crash:gossip:"+name,
				fmt.Sprintf("%s panicked reading the PeerState the peer set through Receive (the routine is started with `go` and has no recover: the node dies): %v\npeer state: %s\n%s",
					x.which, x.p, safePS(e.ps), x.stack), nil, "Crash")
			okAll = false
		}
	}
	got := map[string]bool{}
	window := time.After(dur)
WINDOW:
	for len(got) < 3 {
		select {
		case x := <-out:
			got[x.which] = true
			report(x)
		case <-window:
			break WINDOW
		}
	}
	e.peer.Stop() // the routines notice at their next turn and return
	grace := time.After(90 * time.Second)
GRACE:
	for !(got["gossipDataRoutine"] && got["gossipVotesRoutine"]) {
		select {
		case x := <-out:
			got[x.which] = true
			report(x)
		case <-grace:
			r.fail(si, action, "property", true, "wedge:gossip:"+name, "a gossip routine did not return within 90 s after the peer was stopped (it is stuck reading the poisoned PeerState)\npeer state: "+safePS(e.ps), nil, nil)
			okAll = false
			break GRACE
		}
	}
	r.rep.Checks++
	r.rep.Count("gossip_runs")
	e.newPeer()
	return okAll
}

func safePS(ps *pbft.PeerState) (s string) {
	mbt.Catch(func() { s = ps.VerifDigest() })
	return
}

var _ = gcmn.NewBitArray
