// peerinput: replays the (situation, message class) pairs of specs/peerinput/PeerInput.tla on a REAL node (C08).
//
//	peerinput <traces.json>          one JSON report on stdout
//	peerinput child <trace.json>     (internal) one trace under an address-space limit, for the "huge" classes
//
// Trace steps (name and arguments come from the spec's `act` variable):
//
//	Setup(sit, prefix)      bring validator T into the situation by the scripted prefix; compare with the spec's node
//	Input(m, outcome)       one message class through ConsensusReactor.Receive -> peerMsgQueue -> handleMsg
//	Mutate(m, plan)         bounded byte mutations of the encoding of m (engine-made step, no model outcome)
//	Scenario(name)          scripted multi-message inputs (engine-made step)
//	Gossip(poison)          gossip routines reading a PeerState poisoned through Receive (engine-made step)
//	Other(reactor, m, o)    blockchain / mempool / pex reactors
//
// After the last step of every trace honest traffic follows and the node must still commit its height.
package main

import (
	"encoding/json"
	"fmt"
	"io/ioutil"
	"os"
	"os/exec"
	"runtime"
	"strings"
	"syscall"
	"time"

	"github.com/dappledger/AnnChain/gemmill/consensus/pbft"
	crypto "github.com/dappledger/AnnChain/gemmill/go-crypto"

	"verifharness/csim"
	"verifharness/mbt"
)

const asLimit = 24 << 30 // address-space limit of a child that handles a "huge" class

type runner struct {
	rep *mbt.Report
	ti  int
	tr  mbt.Trace
	e   *env
	T   int
	h0  int64
	// bookkeeping for the evidence
	maxAlloc uint64
}

func (r *runner) fail(si int, action, kind string, prop bool, key, detail string, want, got interface{}) {
	r.rep.Fail(mbt.Failure{Trace: r.ti, TraceID: r.tr.ID, Step: si, Action: action, Kind: kind, Property: prop, Key: key,
		Detail: detail, Want: want, Got: got})
}

func isHuge(m msgClass) bool {
	for k, v := range m.F {
		if v == "huge" && (k == "ba" || k == "pt") {
			return true
		}
	}
	return false
}

// receive pushes bytes through the real Reactor.Receive under a recover that does what MConnection._recover does:
// the panic is caught on the connection's goroutine and the peer is stopped (=> outcome Disconnect).
func (e *env) receive(chID byte, bz []byte) (disconnected bool, pval interface{}, stack string) {
	pval, stack = mbt.Catch(func() { e.conR.Receive(chID, e.peer, bz) })
	if pval != nil {
		disconnected = true
		e.peer.Stop()
	}
	return
}

// receiveWire sends the bytes over the peer's real connection (msgPacket framing) and waits until recvRoutine has
// consumed them: the real _recover / stopForError / onPeerError path decides.
func (e *env) receiveWire(chID byte, bz []byte) (disconnected bool, pval interface{}, err error) {
	for len(e.sentinel) > 0 {
		<-e.sentinel
	}
	var buf []byte
	pkt := func(ch byte, payload []byte, eof byte) {
		buf = append(buf, 0x03)
		buf = append(buf, wireBytes(struct {
			ChannelID byte
			EOF       byte
			Bytes     []byte
		}{ch, eof, payload})...)
	}
	rest := bz
	for {
		if len(rest) <= 1024 {
			pkt(chID, rest, 1)
			break
		}
		pkt(chID, rest[:1024], 0)
		rest = rest[1024:]
	}
	pkt(0x7e, []byte{1}, 1)
	done := make(chan error, 1)
	go func() {
		e.pipe.SetWriteDeadline(time.Now().Add(120 * time.Second))
		_, werr := e.pipe.Write(buf)
		done <- werr
	}()
	select {
	case <-e.sentinel:
	case <-time.After(180 * time.Second):
		return false, nil, fmt.Errorf("connection did not consume the message within 180 s")
	}
	if pe := e.peerError(); pe != nil {
		return true, pe, nil
	}
	return false, nil, nil
}

type inputResult struct {
	outcome string // Accept | Drop | Disconnect | Crash
	pval    interface{}
	stack   string
	queued  int
	before  string
	after   string
	alloc   uint64
}

// deliver runs one message through Receive and then what the consensus goroutine would do with the queue.
func (e *env) deliver(chID byte, bz []byte, viaWire bool) (res inputResult, err error) {
	res.before = e.digest()
	var ms0, ms1 runtime.MemStats
	runtime.ReadMemStats(&ms0)
	var disc bool
	if viaWire {
		disc, res.pval, err = e.receiveWire(chID, bz)
		if err != nil {
			return
		}
	} else {
		disc, res.pval, res.stack = e.receive(chID, bz)
	}
	for {
		msg, peerKey, ok := e.cs.VerifPopPeer()
		if !ok {
			break
		}
		res.queued++
		// the consensus goroutine has NO recover: a panic here kills the node
		p, st := mbt.Catch(func() { e.cs.VerifHandlePeer(msg, peerKey) })
		if p != nil {
			res.outcome, res.pval, res.stack = "Crash", p, st
			return
		}
		e.drain()
	}
	runtime.ReadMemStats(&ms1)
	res.alloc = ms1.TotalAlloc - ms0.TotalAlloc
	// reading the node's state takes the node's locks: a lock left held by a panic that the connection recovered
	// (the peer is dropped, the node lives on) blocks every later reader and writer - the node is wedged
	doneD := make(chan struct{})
	go func() { defer close(doneD); res.after = e.digestGuarded() }()
	for i, d := range []time.Duration{20 * time.Second, 40 * time.Second, 80 * time.Second} {
		select {
		case <-doneD:
		case <-time.After(d):
			if desc, parked := parkedIn("main.(*env).digestGuarded("); parked && (i == 2 || strings.Contains(desc, "[sync.Mutex.Lock") || strings.Contains(desc, "[sync.RWMutex") || strings.Contains(desc, "[semacquire")) {
				res.outcome, res.stack = "Wedge", desc
				if res.pval != nil {
					res.stack = fmt.Sprintf("panic recovered on the connection: %v\n%s", res.pval, desc)
				}
				return
			}
			continue
		}
		break
	}
	<-doneD
	switch {
	case disc:
		res.outcome = "Disconnect"
	case res.after != res.before:
		res.outcome = "Accept"
	default:
		res.outcome = "Drop"
	}
	return
}

func firstDiff(a, b string) string {
	la, lb := strings.Split(a, "\n"), strings.Split(b, "\n")
	for i := 0; i < len(la) && i < len(lb); i++ {
		if la[i] != lb[i] {
			x, y := la[i], lb[i]
			if len(x) > 700 {
				x = x[:700]
			}
			if len(y) > 700 {
				y = y[:700]
			}
			return fmt.Sprintf("before: %s\nafter:  %s", x, y)
		}
	}
	return fmt.Sprintf("length %d -> %d lines", len(la), len(lb))
}

func (r *runner) setup(si int, st mbt.Step) bool {
	sit := mbt.Str(st.Args[0])
	e, err := newEnv(r.T, sit == "FastSync")
	if err != nil {
		r.fail(si, "Setup("+sit+")", "error", false, "", "setup: "+err.Error(), nil, nil)
		return false
	}
	r.e = e
	e.sit = sit
	var perr error
	p, stack := mbt.Catch(func() { perr = e.runPrefix(st.Args[1]) })
	if p != nil {
		r.fail(si, "Setup("+sit+")", "panic", false, "setup-panic:"+sit, fmt.Sprintf("%v\n%s", p, stack), nil, nil)
		return false
	}
	if perr != nil {
		r.fail(si, "Setup("+sit+")", "error", false, "setup:"+sit, perr.Error(), nil, nil)
		return false
	}
	if want := nodeOf(st.Post, r.T); want != nil {
		r.rep.Checks++
		if diff, got := e.diffNode(want); len(diff) > 0 {
			w, g := map[string]interface{}{}, map[string]interface{}{}
			for _, k := range diff {
				w[k], g[k] = want[k], got[k]
			}
			r.fail(si, "Setup("+sit+")", "mismatch", false, "situation:"+sit+":"+diff[0],
				fmt.Sprintf("after the prefix of situation %s the real node differs from the specification on %v", sit, diff), w, g)
			return false
		}
	}
	r.h0, _, _ = e.hrs()
	return true
}

// runPrefix plays the spec's prefix: ["F"] fire the timer, ["T", ti] handle a timeout, ["M", msg] a scripted peer
// message, ["I"] the node handles the head of its own queue.
func (e *env) runPrefix(v interface{}) error {
	steps, _ := v.([]interface{})
	for _, s := range steps {
		st, ok := s.([]interface{})
		if !ok || len(st) == 0 {
			return fmt.Errorf("bad prefix step %#v", s)
		}
		switch mbt.Str(st[0]) {
		case "F":
			if _, err := e.s.Fire(e.T); err != nil {
				return err
			}
		case "T":
			ti := st[1].(map[string]interface{})
			if err := e.s.Timeout(e.T, int64(mbt.Int(ti["h"])), int64(mbt.Int(ti["r"])), mbt.Int(ti["st"])); err != nil {
				return err
			}
		case "M":
			m, err := csim.MsgFromSpec(st[1])
			if err != nil {
				return err
			}
			if err := e.s.Deliver(e.T, m); err != nil {
				return err
			}
		case "I":
			if _, err := e.s.Internal(e.T); err != nil {
				return err
			}
		default:
			return fmt.Errorf("unknown prefix step %v", st[0])
		}
	}
	return nil
}

func (r *runner) input(si int, st mbt.Step, viaWire bool) bool {
	e := r.e
	m, err := parseMsg(st.Args[0])
	if err != nil {
		r.fail(si, "Input", "error", false, "", err.Error(), nil, nil)
		return false
	}
	want := mbt.Str(st.Args[1])
	action := fmt.Sprintf("Input(%s %s ps=%s ch=%s in %s) -> %s", m.T, m.label(), m.PS, m.Ch, e.sit, want)
	e.newPeer() // every input comes from a peer we know nothing about yet
	d0 := e.digest()
	if err := e.preparePeer(m.PS); err != nil {
		r.fail(si, action, "error", false, "prepare-peer", err.Error(), nil, nil)
		return false
	}
	if e.digest() != d0 {
		r.fail(si, action, "error", false, "prepare-peer-changed-state", "preparing the peer state changed the consensus state", nil, nil)
		return false
	}
	var chID byte
	var bz []byte
	if p, _ := mbt.Catch(func() { chID, bz, err = e.concretise(m) }); p != nil {
		err = fmt.Errorf("%v", p)
	}
	if err != nil {
		r.fail(si, action, "error", false, "concretise:"+m.key(), err.Error(), nil, nil)
		return false
	}
	if m.Ch == "unknown" {
		viaWire = true // an unknown channel never reaches a reactor: the connection itself decides
	}
	res, err := e.deliver(chID, bz, viaWire)
	if err != nil {
		r.fail(si, action, "error", false, "deliver", err.Error(), nil, nil)
		return false
	}
	r.rep.Checks++
	r.rep.Count("inputs")
	r.rep.Count("got-" + res.outcome)
	if viaWire {
		r.rep.Count("inputs_via_real_connection")
	}
	if res.alloc > r.maxAlloc {
		r.maxAlloc = res.alloc
	}
	if res.outcome == "Wedge" {
		r.fail(si, action, "property", true, "wedge:"+m.key(),
			fmt.Sprintf("after the message the node's state can no longer be read: the reader waits for a lock that nobody releases (left held by the panic the connection recovered) - the consensus goroutine blocks on it the same way\nmessage bytes (%d): %x\n%s",
				len(bz), trunc(bz, 200), res.stack), want, "Wedge")
		r.e = nil // the environment is lost (its goroutines are parked for good)
		return false
	}
	if res.outcome == "Crash" {
		r.fail(si, action, "panic", true, "crash:"+m.key(),
			fmt.Sprintf("panic on the consensus goroutine (handleMsg reached through peerMsgQueue has no recover: the node dies): %v\nmessage bytes (%d): %x\n%s",
				res.pval, len(bz), trunc(bz, 200), res.stack), want, "Crash")
		return false
	}
	changed := res.after != res.before
	switch {
	case want != "Accept" && changed:
		r.fail(si, action, "property", true, "state-changed:"+m.key(),
			fmt.Sprintf("a message the specification classifies as %s (fails validation) changed the consensus state (real outcome %s)\n%s", want, res.outcome, firstDiff(res.before, res.after)), want, res.outcome)
		return false
	case want != res.outcome:
		det := fmt.Sprintf("specification says %s, the real code did %s", want, res.outcome)
		if res.pval != nil {
			det += fmt.Sprintf(" (panic recovered on the connection: %v)\n%s", res.pval, res.stack)
		}
		r.fail(si, action, "mismatch", false, "outcome:"+m.key()+":"+e.sit+":"+m.PS+":"+want+":"+res.outcome, det, want, res.outcome)
		return false
	}
	if want == "Accept" {
		if wn := nodeOf(st.Post, r.T); wn != nil {
			r.rep.Checks++
			if diff, got := e.diffNode(wn); len(diff) > 0 {
				w, g := map[string]interface{}{}, map[string]interface{}{}
				for _, k := range diff {
					w[k], g[k] = wn[k], got[k]
				}
				r.fail(si, action, "mismatch", false, "accept-state:"+m.key()+":"+diff[0],
					fmt.Sprintf("accepted message: the real node differs from what Tendermint.tla prescribes on %v", diff), w, g)
				return false
			}
		}
	}
	return true
}

func trunc(b []byte, n int) []byte {
	if len(b) > n {
		return b[:n]
	}
	return b
}

func (r *runner) finish(si int, label string) {
	e := r.e
	if e == nil {
		return
	}
	err, p, stack := e.finishGuarded(r.h0)
	r.rep.Checks++
	r.rep.Count("finishes")
	if p != nil {
		r.fail(si, "Finish after "+label, "panic", true, "crash-later:"+label, fmt.Sprintf("panic while handling honest traffic after the input: %v\n%s", p, stack), nil, nil)
		return
	}
	if err != nil {
		r.fail(si, "Finish after "+label, "property", true, "wedge:"+label, err.Error(), "commit of height "+fmt.Sprint(r.h0), "no commit")
	}
}

func runTrace(ti int, tr mbt.Trace, rep *mbt.Report) {
	r := &runner{rep: rep, ti: ti, tr: tr, T: 4}
	if t, ok := tr.Cfg["T"]; ok {
		r.T = mbt.Int(t)
	}
	viaWire := false
	if w, ok := tr.Cfg["wire"].(bool); ok {
		viaWire = w
	}
	defer func() {
		if r.e != nil {
			r.e.close()
		}
		if r.maxAlloc > uint64(rep.Counters["max_alloc_bytes"]) {
			rep.Counters["max_alloc_bytes"] = int(r.maxAlloc)
		}
	}()
	label := "baseline"
	ok := true
	for si, st := range tr.Steps {
		rep.Steps++
		switch st.A {
		case "Setup":
			ok = r.setup(si, st)
			if ok {
				label = "baseline:" + r.e.sit
			}
		case "Input":
			if m, err := parseMsg(st.Args[0]); err == nil {
				label = m.key()
			}
			ok = r.input(si, st, viaWire)
		case "Mutate":
			ok = r.mutate(si, st)
			label = "mutations"
		case "Scenario":
			label = "scenario:" + mbt.Str(st.Args[0])
			ok = r.scenario(si, st)
		case "Gossip":
			label = "gossip:" + mbt.Str(st.Args[0])
			ok = r.gossip(si, st)
		case "Other":
			r.other(si, st) // a failing class does not keep the others of the batch from running
			r.e = nil
			ok = true
		default:
			r.fail(si, st.A, "error", false, "", "unknown step "+st.A, nil, nil)
			ok = false
		}
		if !ok {
			return
		}
	}
	if r.e != nil {
		r.finish(len(tr.Steps), label)
	}
	rep.Traces++
}

// needsChild: the trace contains a class whose concretisation is an absurd size: it runs in a child process with a
// bounded address space, so that an attempted allocation fails there (a fatal, unrecoverable runtime error = the
// node dies) instead of exhausting this machine.
func needsChild(tr mbt.Trace) (bool, string) {
	for _, st := range tr.Steps {
		if st.A == "Input" || st.A == "Mutate" {
			if m, err := parseMsg(st.Args[0]); err == nil && isHuge(m) {
				return true, m.key()
			}
		}
		if st.A == "Gossip" && strings.Contains(mbt.Str(st.Args[0]), "huge") {
			return true, "gossip:" + mbt.Str(st.Args[0])
		}
		if st.A == "Other" {
			return true, mbt.Str(st.Args[0]) + ":" + mbt.Str(st.Args[1])
		}
	}
	return false, ""
}

func runChild(ti int, tr mbt.Trace, key string, rep *mbt.Report) {
	f, err := ioutil.TempFile("", "peerinput-child-*.json")
	if err != nil {
		rep.Fail(mbt.Failure{Trace: ti, TraceID: tr.ID, Kind: "error", Detail: err.Error()})
		return
	}
	defer os.Remove(f.Name())
	json.NewEncoder(f).Encode(tr)
	f.Close()
	cmd := exec.Command(os.Args[0], "child", f.Name())
	// the child's scratch directories live (and die, even if the child is killed by the runtime) under one directory
	if cdir, derr := ioutil.TempDir("", "peerinput-child-"); derr == nil {
		defer os.RemoveAll(cdir)
		cmd.Env = append(os.Environ(), "TMPDIR="+cdir)
	}
	var stderr strings.Builder
	cmd.Stderr = &stderr
	out, err := cmd.Output()
	rep.Count("child_runs")
	var sub mbt.Report
	if err == nil {
		lines := strings.Split(strings.TrimSpace(string(out)), "\n")
		err = json.Unmarshal([]byte(lines[len(lines)-1]), &sub)
	}
	if err != nil {
		es := stderr.String()
		fatal := strings.Contains(es, "fatal error") || strings.Contains(es, "out of memory") || strings.Contains(es, "cannot allocate memory") ||
			strings.Contains(es, "panic:") || strings.Contains(es, "[running]")
		if len(es) > 3000 {
			es = es[:3000]
		}
		inputs := 0
		for _, st := range tr.Steps {
			if st.A == "Input" || st.A == "Other" {
				inputs++
			}
		}
		if fatal && inputs > 1 {
			// find the input that kills the process: one child per input
			for si, st := range tr.Steps {
				if st.A != "Input" && st.A != "Other" {
					continue
				}
				one := mbt.Trace{ID: fmt.Sprintf("%s-step%d", tr.ID, si), Cfg: tr.Cfg, Init: tr.Init, Steps: []mbt.Step{tr.Steps[0], st}}
				k := key
				if st.A == "Other" {
					one.Steps = []mbt.Step{st}
					k = mbt.Str(st.Args[0]) + ":" + mbt.Str(st.Args[1])
				} else if m, err := parseMsg(st.Args[0]); err == nil {
					k = m.key()
				}
				before := len(rep.Failures)
				runChild(ti, one, k, rep)
				for i := before; i < len(rep.Failures); i++ {
					rep.Failures[i].Step = si
				}
			}
			return
		}
		if fatal {
			rep.Fail(mbt.Failure{Trace: ti, TraceID: tr.ID, Step: len(tr.Steps) - 1, Action: "Input(" + key + ")", Kind: "panic", Property: true, Key: "crash:" + key,
				Detail: fmt.Sprintf("the process died while handling the message (unrecovered panic on a goroutine of the node, or a fatal runtime error; address space limited to %d GiB): %v\n%s", asLimit>>30, err, es)})
		} else {
			rep.Fail(mbt.Failure{Trace: ti, TraceID: tr.ID, Kind: "error", Property: false, Key: "child-died:" + key, Detail: fmt.Sprintf("child failed: %v\n%s", err, es)})
		}
		return
	}
	rep.Traces += sub.Traces
	rep.Steps += sub.Steps
	rep.Checks += sub.Checks
	for k, v := range sub.Counters {
		if k == "max_alloc_bytes" {
			if v > rep.Counters[k] {
				rep.Counters[k] = v
			}
			continue
		}
		if k != "failures" {
			rep.Counters[k] += v
		}
	}
	for _, fl := range sub.Failures {
		fl.Trace = ti
		rep.Fail(fl)
	}
}

func main() {
	crypto.NodeInit(crypto.CryptoTypeZhongAn)
	if len(os.Args) < 2 {
		fmt.Fprintln(os.Stderr, "usage: peerinput traces.json")
		os.Exit(2)
	}
	_ = pbft.StateChannel
	child := os.Args[1] == "child"
	path := os.Args[1]
	if child {
		path = os.Args[2]
		lim := syscall.Rlimit{Cur: asLimit, Max: asLimit}
		if err := syscall.Setrlimit(syscall.RLIMIT_AS, &lim); err != nil {
			fmt.Fprintln(os.Stderr, "setrlimit:", err)
			os.Exit(3)
		}
	}
	traces, err := mbt.LoadTraces(path)
	if err != nil {
		fmt.Fprintln(os.Stderr, "load:", err)
		os.Exit(2)
	}
	rep := mbt.NewReport()
	for ti, tr := range traces {
		if !child {
			if yes, key := needsChild(tr); yes {
				runChild(ti, tr, key, rep)
				continue
			}
		}
		runTrace(ti, tr, rep)
	}
	closeRefChain()
	rep.Emit()
}
