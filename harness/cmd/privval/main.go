// Replays behaviours of specs/privval/PrivVal.tla on a real types.PrivValidator with a real key and a real
// priv_validator.json (C03), crashing / failing exactly at the WriteFileAtomic failpoints, and evaluates the
// property directly on every signature the real signer hands out.
//
// usage: privval <traces.json>
// Trace kinds (cfg.kind):
//
//	"model"  steps Request(h,r,s,b,class) WriteBak(f) WriteNew(f) Rename(f) Return(f) Crash Reload with the spec state
//	"random" cfg {seed, steps, maxH, maxR, blocks}: the driver's own fault-heavy schedule (oracles only)
//
// A signing call is ONE real call of SignVote / SignProposal; the sub-steps that follow its Request in the
// behaviour tell the failpoint (verifhook.DurableFn at "WriteFileAtomic.bak/.new/.rename") what to do at each
// site: ok (continue), fail (the failpoint returns an error), realfail (the failpoint obstructs the target so that
// the REAL write / rename fails), crash (abandon the call and the object right there).  At every
// site the object's Last* fields and the three files are compared with the spec state reached so far.
//
// Independent oracles on every released signature (Failure.Property = true):
//
//	[SignatureValid]        it verifies under the validator's key over the bytes that were asked to be signed
//	[DurableBeforeRelease]  priv_validator.json, read back from disk at that moment, holds exactly its record
//	[NoConflictingRelease]  no earlier released signature for the same height/round/step covers other bytes
//	[Monotone]              its height/round/step is not earlier than that of any earlier released signature
//	[DiskMonotone]          the record in priv_validator.json never moves backwards, the file always parses
package main

import (
	"bytes"
	"errors"
	"fmt"
	"io/ioutil"
	"math/rand"
	"os"
	"path/filepath"
	"runtime"
	"strings"
	"sync"
	"time"

	crypto "github.com/dappledger/AnnChain/gemmill/go-crypto"
	glog "github.com/dappledger/AnnChain/gemmill/modules/go-log"
	"github.com/dappledger/AnnChain/gemmill/types"
	"github.com/dappledger/AnnChain/gemmill/verifhook"
	"go.uber.org/zap"

	"verifharness/mbt"
)

const chainID = "verif-privval"

var rep = mbt.NewReport()
var perKey = map[string]int{}

type rec struct {
	H, R int64
	S    int8
	B    string
}

func (r rec) before(o rec) bool {
	if r.H != o.H {
		return r.H < o.H
	}
	if r.R != o.R {
		return r.R < o.R
	}
	return r.S < o.S
}
func (r rec) sameHRS(o rec) bool { return r.H == o.H && r.R == o.R && r.S == o.S }
func (r rec) json() map[string]interface{} {
	return map[string]interface{}{"h": r.H, "r": r.R, "s": int64(r.S), "b": r.B}
}

type release struct {
	rec
	signBytes []byte
	sig       crypto.Signature
}

type world struct {
	ti       int
	id       string
	si       int
	act      string
	dir      string
	file     string
	priv     crypto.PrivKeyEd25519
	pv       *types.PrivValidator // nil when the process is down
	released []release
	lastMain rec
	blocks   []string
}

func (w *world) fail(kind string, prop bool, key, detail string, want, got interface{}) {
	perKey[key]++
	rep.Counters["fail:"+key]++
	if perKey[key] > 3 {
		return
	}
	rep.Fail(mbt.Failure{Trace: w.ti, TraceID: w.id, Step: w.si, Action: w.act, Kind: kind, Property: prop, Key: key,
		Detail: detail, Want: want, Got: got})
}

func blockID(name string) types.BlockID {
	h := bytes.Repeat([]byte(name[:1]), 20)
	ph := bytes.Repeat([]byte(name[:1]), 20)
	ph[0] = 'p'
	return types.BlockID{Hash: h, PartsHeader: types.PartSetHeader{Total: 1 + int(name[0])%3, Hash: ph}}
}

// signable builds the vote / proposal for (h, r, step, content) and returns its sign-bytes.
func (w *world) signable(h, r int64, s int8, b string) (vote *types.Vote, prop *types.Proposal, sb []byte) {
	id := blockID(b)
	switch s {
	case 1:
		prop = types.NewProposal(h, r, id.PartsHeader, -1, types.BlockID{})
		sb = types.SignBytes(chainID, prop)
	case 2, 3:
		t := types.VoteTypePrevote
		if s == 3 {
			t = types.VoteTypePrecommit
		}
		vote = &types.Vote{ValidatorAddress: w.priv.PubKey().Address(), ValidatorIndex: 0, Height: h, Round: r, Type: byte(t), BlockID: id}
		sb = types.SignBytes(chainID, vote)
	default:
		panic("bad step")
	}
	return
}

// recOf maps Last* fields onto a spec record.
func (w *world) recOf(h, r int64, s int8, sb []byte, sig crypto.Signature) rec {
	x := rec{H: h, R: r, S: s, B: "?"}
	if len(sb) == 0 {
		if sig == nil {
			x.B = "none"
		} else {
			x.B = "?sig-without-bytes"
		}
		return x
	}
	if s < 1 || s > 3 {
		return x
	}
	for _, b := range w.blocks {
		_, _, want := w.signable(h, r, s, b)
		if bytes.Equal(want, sb) {
			x.B = b
			if sig == nil || !w.priv.PubKey().VerifyBytes(sb, sig) {
				x.B = "?badsig:" + b
			}
			return x
		}
	}
	return x
}

func (w *world) memRec() rec {
	if w.pv == nil {
		return rec{-1, -1, -1, "down"}
	}
	return w.recOf(w.pv.LastHeight, w.pv.LastRound, w.pv.LastStep, w.pv.LastSignBytes, w.pv.LastSignature)
}

// fileRec parses one of the signer's files the way a restart does.
func (w *world) fileRec(path string) rec {
	if _, err := os.Stat(path); os.IsNotExist(err) {
		return rec{-1, -1, -1, "nofile"}
	}
	raw, _ := ioutil.ReadFile(path)
	ck := fmt.Sprintf("%d|%v|%s", w.ti%7, w.blocks, raw)
	if x, ok := parseCache[ck]; ok {
		return x
	}
	x := w.parseFile(path)
	if len(parseCache) < 20000 {
		parseCache[ck] = x
	}
	return x
}

var parseCache = map[string]rec{}

func (w *world) parseFile(path string) rec {
	var pv *types.PrivValidator
	var err error
	if p, _ := mbt.Catch(func() { pv, err = types.LoadPrivValidator(path) }); p != nil || err != nil || pv == nil {
		return rec{-1, -1, -1, fmt.Sprintf("?unreadable:%v%v", p, err)}
	}
	if !pv.PubKey.Equals(w.priv.PubKey()) || !bytes.Equal(pv.Address, w.priv.PubKey().Address()) {
		return rec{-1, -1, -1, "?otherkey"}
	}
	return w.recOf(pv.LastHeight, pv.LastRound, pv.LastStep, pv.LastSignBytes, pv.LastSignature)
}

func (w *world) checkDisk() rec {
	m := w.fileRec(w.file)
	rep.Checks++
	if m.B == "nofile" || m.B[0] == '?' {
		w.fail("property", true, "DiskMonotone", "priv_validator.json is missing or does not parse to a whole record: "+m.B, nil, m.json())
		return m
	}
	if m.before(w.lastMain) {
		w.fail("property", true, "DiskMonotone", "the record in priv_validator.json moved backwards", w.lastMain.json(), m.json())
	}
	w.lastMain = m
	return m
}

// compare checks object and files against a spec state.
func (w *world) compare(post map[string]interface{}, where string) bool {
	if post == nil {
		return true
	}
	ok := true
	rep.Checks++
	got := map[string]interface{}{"up": w.pv != nil, "mem": w.memRec().json(), "main": w.checkDisk().json()}
	want := map[string]interface{}{"up": post["up"], "mem": post["mem"], "main": post["main"]}
	if ks := mbt.DiffKeys(mbt.Norm(want).(map[string]interface{}), mbt.Canon(got).(map[string]interface{})); len(ks) > 0 {
		// what the object holds mid-call is internal; between calls and on disk it is the observable contract
		prop := true
		if len(ks) == 1 && ks[0] == "mem" && where != "after" {
			prop = false
		}
		w.fail("mismatch", prop, "state:"+ks[0]+":"+where, fmt.Sprintf("%s: state differs on %v", where, ks), want, got)
		ok = false
	}
	return ok
}

func (w *world) hrsMax() (rec, bool) {
	var m rec
	for i, x := range w.released {
		if i == 0 || m.before(x.rec) {
			m = x.rec
		}
	}
	return m, len(w.released) > 0
}

// onRelease evaluates the property on a signature that has just left the signer.
func (w *world) onRelease(x rec, sb []byte, sig crypto.Signature) {
	rep.Checks++
	rep.Count("released")
	if sig == nil || !w.priv.PubKey().VerifyBytes(sb, sig) {
		w.fail("property", true, "SignatureValid", fmt.Sprintf("released signature for %+v does not verify over the requested bytes", x), nil, nil)
	}
	// the durable record, read back now
	var disk *types.PrivValidator
	var err error
	if p, _ := mbt.Catch(func() { disk, err = types.LoadPrivValidator(w.file) }); p != nil || err != nil || disk == nil {
		w.fail("property", true, "DurableBeforeRelease", fmt.Sprintf("signature for %+v released but priv_validator.json is unreadable: %v %v", x, p, err), nil, nil)
	} else if disk.LastHeight != x.H || disk.LastRound != x.R || disk.LastStep != x.S || !bytes.Equal(disk.LastSignBytes, sb) ||
		disk.LastSignature == nil || !disk.LastSignature.Equals(sig) {
		w.fail("property", true, "DurableBeforeRelease", fmt.Sprintf("signature for %+v released while priv_validator.json holds %d/%d/%d (sign-bytes equal: %v): a restart would allow contradicting it",
			x, disk.LastHeight, disk.LastRound, disk.LastStep, bytes.Equal(disk.LastSignBytes, sb)), x.json(), w.fileRec(w.file).json())
	}
	for _, y := range w.released {
		if y.sameHRS(x) && !bytes.Equal(y.signBytes, sb) {
			w.fail("property", true, "NoConflictingRelease", fmt.Sprintf("two signatures released for height %d round %d step %d over different bytes (%s and %s)", x.H, x.R, x.S, y.B, x.B), y.rec.json(), x.json())
		}
		if x.before(y.rec) {
			w.fail("property", true, "Monotone", fmt.Sprintf("signature released for %d/%d/%d after one for %d/%d/%d", x.H, x.R, x.S, y.H, y.R, y.S), nil, nil)
		}
	}
	w.released = append(w.released, release{x, sb, sig})
}

type plan struct {
	at     map[string]string                 // site -> ok|fail|crash
	posts  map[string]map[string]interface{} // site -> spec state that must hold when the site is reached
	ret    string                            // ok|crash|"" (unknown: behaviour ends before)
	direct map[string]func()                 // extra checks at a site
}

var sites = []string{"WriteFileAtomic.bak", "WriteFileAtomic.new", "WriteFileAtomic.rename"}

// call performs one real signing call under the plan. Returns (signature, error, crashed).
func (w *world) call(h, r int64, s int8, b string, pl *plan) (sig crypto.Signature, err error, crashed bool, sb []byte) {
	vote, prop, sb := w.signable(h, r, s, b)
	mainBefore, _ := ioutil.ReadFile(w.file)
	var newAtRename []byte
	crashedAt := make(chan string, 1)
	verifhook.DurableFn = func(site string, key []byte) error {
		if string(key) != w.file {
			return nil
		}
		rep.Count("site:" + site)
		if pl.posts != nil {
			w.compare(pl.posts[site], "at "+site)
		}
		// direct expectations about the two auxiliary files, which the model leaves out of its view
		switch site {
		case "WriteFileAtomic.new":
			if bk, e := ioutil.ReadFile(w.file + ".bak"); e != nil || !bytes.Equal(bk, mainBefore) {
				w.fail("property", true, "BakIsOldFile", ".bak is not a copy of the file as it was before the call", nil, nil)
			}
		case "WriteFileAtomic.rename":
			newAtRename, _ = ioutil.ReadFile(w.file + ".new")
			if x := w.fileRec(w.file + ".new"); x != (rec{h, r, s, b}) {
				w.fail("property", true, "NewIsNewRecord", ".new does not hold the record being saved", rec{h, r, s, b}.json(), x.json())
			}
			if now, _ := ioutil.ReadFile(w.file); !bytes.Equal(now, mainBefore) {
				w.fail("property", true, "DiskMonotone", "priv_validator.json changed before the rename", nil, nil)
			}
		}
		switch pl.at[site] {
		case "fail":
			rep.Count("injected_fail")
			return errors.New("verif: injected write failure at " + site)
		case "realfail":
			// no injected error: obstruct the target so that the REAL write / rename that follows fails
			rep.Count("real_fail")
			switch site {
			case "WriteFileAtomic.bak":
				os.Remove(w.file + ".bak")
				os.Mkdir(w.file+".bak", 0700)
			case "WriteFileAtomic.new":
				os.Remove(w.file + ".new")
				os.Mkdir(w.file+".new", 0700)
			case "WriteFileAtomic.rename":
				os.Remove(w.file + ".new") // vanished between its write and the rename: os.Rename fails with ENOENT
			}
			return nil
		case "crash":
			// the process dies here: nothing of the code under test runs any more (no deferred unlock, no cleanup).
			// The goroutine is parked for good and the object abandoned.
			rep.Count("injected_crash")
			crashedAt <- site
			select {}
		}
		return nil
	}
	defer func() {
		for _, sfx := range []string{".bak", ".new"} {
			if fi, e := os.Stat(w.file + sfx); e == nil && fi.IsDir() {
				os.Remove(w.file + sfx)
			}
		}
	}()
	// the call runs on its own goroutine, through the real locked entry points SignVote / SignProposal
	type outcome struct {
		pv    interface{}
		stack string
	}
	finished := make(chan outcome, 1)
	signer := w.pv
	go func() {
		p, st := mbt.Catch(func() {
			if vote != nil {
				err = signer.SignVote(chainID, vote)
				sig = vote.Signature
			} else {
				err = signer.SignProposal(chainID, prop)
				sig = prop.Signature
			}
		})
		finished <- outcome{p, st}
	}()
	var pv interface{}
	var stack string
	select {
	case o := <-finished:
		pv, stack = o.pv, o.stack
	case <-crashedAt:
		verifhook.DurableFn = nil
		w.pv = nil // the process is gone; whatever it computed is lost
		return nil, nil, true, sb
	}
	verifhook.DurableFn = nil
	if pv != nil {
		w.fail("panic", true, "Sign-panic", fmt.Sprintf("%v\n%s", pv, stack), nil, nil)
		w.pv = nil
		return nil, nil, true, sb
	}
	if newAtRename != nil && err == nil {
		if now, _ := ioutil.ReadFile(w.file); !bytes.Equal(now, newAtRename) {
			w.fail("property", true, "NewIsNewRecord", "after the rename priv_validator.json is not what .new held", nil, nil)
		}
		if _, e := os.Stat(w.file + ".new"); e == nil {
			w.fail("property", true, "NewIsNewRecord", ".new still exists after the rename", nil, nil)
		}
	}
	return sig, err, false, sb
}

func (w *world) setup() bool {
	var err error
	base := os.Getenv("VERIF_WORKDIR")
	if base == "" {
		// a memory file system keeps the tens of thousands of small file operations cheap; rename / write semantics
		// seen by the process (the crash model of this check) are the same
		if fi, e := os.Stat("/dev/shm"); e == nil && fi.IsDir() {
			base = "/dev/shm"
		}
	}
	w.dir, err = ioutil.TempDir(base, "verif-privval-")
	if err != nil {
		fmt.Fprintln(os.Stderr, "tempdir:", err)
		os.Exit(2)
	}
	w.file = filepath.Join(w.dir, "priv_validator.json")
	w.priv = crypto.GenPrivKeyEd25519FromSecret([]byte(fmt.Sprintf("verif-privval-%d", w.ti%7)))
	ok := true
	if pv, st := mbt.Catch(func() {
		// LoadOrGenPrivValidator's "generate" branch with a fixed key
		p, e := types.GenPrivValidator(crypto.CryptoTypeZhongAn, w.priv)
		if e != nil {
			panic(e)
		}
		p.SetFile(w.file)
		if e := p.Save(); e != nil {
			panic(e)
		}
		w.pv = p
	}); pv != nil {
		w.fail("panic", true, "Setup-panic", fmt.Sprintf("%v\n%s", pv, st), nil, nil)
		ok = false
	}
	w.lastMain = rec{0, 0, 0, "none"}
	return ok
}

func (w *world) reload() {
	var p *types.PrivValidator
	var err error
	pv, st := mbt.Catch(func() { p, err = types.LoadPrivValidator(w.file) })
	if pv != nil || err != nil || p == nil {
		w.fail("property", true, "Reload-failed", fmt.Sprintf("LoadPrivValidator after a crash: %v %v\n%s", pv, err, st), nil, nil)
		return
	}
	w.pv = p
	rep.Count("reloads")
}

func runModel(w *world, tr mbt.Trace) {
	w.blocks = nil
	for _, b := range tr.Cfg["Blocks"].([]interface{}) {
		w.blocks = append(w.blocks, b.(string))
	}
	if !w.setup() {
		return
	}
	defer os.RemoveAll(w.dir)
	if !w.compare(tr.Init, "after") {
		return
	}
	siteOf := map[string]string{"WriteBak": sites[0], "WriteNew": sites[1], "Rename": sites[2]}
	for si := 0; si < len(tr.Steps); si++ {
		st := tr.Steps[si]
		w.si, w.act = si, fmt.Sprintf("%s%v", st.A, st.Args)
		rep.Steps++
		switch st.A {
		case "Request":
			h, r, s, b, class := int64(mbt.Int(st.Args[0])), int64(mbt.Int(st.Args[1])), int8(mbt.Int(st.Args[2])), mbt.Str(st.Args[3]), mbt.Str(st.Args[4])
			pl := &plan{at: map[string]string{}, posts: map[string]map[string]interface{}{}}
			// the sub-steps of this call that the behaviour contains
			last := si
			prevPost := st.Post
			complete := class != "sign"
			if class == "sign" {
				for k := si + 1; k < len(tr.Steps); k++ {
					n := tr.Steps[k]
					if site, ok := siteOf[n.A]; ok {
						pl.at[site] = mbt.Str(n.Args[0])
						pl.posts[site] = prevPost
						prevPost = n.Post
						last = k
						if mbt.Str(n.Args[0]) != "ok" {
							complete = true
							break
						}
						continue
					}
					if n.A == "Return" {
						pl.ret = mbt.Str(n.Args[0])
						last = k
						complete = true
					}
					break
				}
			}
			if w.pv == nil {
				w.fail("error", false, "request-while-down", "behaviour asks a dead process to sign", nil, nil)
				return
			}
			sig, err, crashed, sb := w.call(h, r, s, b, pl)
			rep.Steps += last - si
			want := rec{h, r, s, b}
			switch {
			case crashed:
				if !complete || !(pl.at[sites[0]] == "crash" || pl.at[sites[1]] == "crash" || pl.at[sites[2]] == "crash") {
					w.fail("error", false, "unplanned-crash", "the call ended at a failpoint the behaviour did not plan", nil, nil)
					return
				}
			case class == "regress":
				rep.Checks++
				if err == nil || sig != nil {
					w.fail("mismatch", true, "Request-result:regress", fmt.Sprintf("request %+v must be refused (memory %+v) but a signature came back", want, w.memRec()), "error", "signature")
					if err == nil {
						w.onRelease(want, sb, sig)
					}
				}
			case class == "same":
				rep.Checks++
				if err != nil || sig == nil {
					w.fail("mismatch", true, "Request-result:same", fmt.Sprintf("repeating the request %+v must return the stored signature: %v", want, err), "signature", "error")
				} else {
					w.onRelease(want, sb, sig)
				}
			default: // sign
				failed := false
				for _, st := range sites {
					if pl.at[st] == "fail" || pl.at[st] == "realfail" {
						failed = true
					}
				}
				rep.Checks++
				switch {
				case failed && (err == nil || sig != nil):
					w.fail("mismatch", true, "Request-result:failed-save", fmt.Sprintf("the signer file could not be written, yet a signature for %+v came back", want), "error", "signature")
					if err == nil {
						w.onRelease(want, sb, sig)
					}
				case failed:
				case err != nil || sig == nil:
					w.fail("mismatch", true, "Request-result:sign", fmt.Sprintf("request %+v refused: %v", want, err), "signature", "error")
				case pl.ret == "crash":
					// the process dies after save() and before the caller sees the signature: it never leaves
					w.pv = nil
					rep.Count("injected_crash")
				default:
					w.onRelease(want, sb, sig)
				}
			}
			if last > si {
				si = last
				w.si, w.act = si, fmt.Sprintf("%s%v (end of %s)", tr.Steps[si].A, tr.Steps[si].Args, w.act)
			}
			if complete {
				if !w.compare(tr.Steps[si].Post, "after") {
					return
				}
			} else {
				// the behaviour stops inside the call; the real call ran to its end, nothing left to compare
				return
			}
		case "Crash":
			w.pv = nil
			if !w.compare(st.Post, "after") {
				return
			}
		case "Reload":
			if w.pv != nil {
				w.fail("error", false, "reload-while-up", "", nil, nil)
				return
			}
			w.reload()
			if !w.compare(st.Post, "after") {
				return
			}
		default:
			w.fail("error", false, "unexpected-action", "sub-step without a request: "+st.A, nil, nil)
			return
		}
	}
}

func runRandom(w *world, tr mbt.Trace) {
	rng := rand.New(rand.NewSource(int64(mbt.Int(tr.Cfg["seed"]))))
	n := mbt.Int(tr.Cfg["steps"])
	maxH, maxR := int64(mbt.Int(tr.Cfg["maxH"])), int64(mbt.Int(tr.Cfg["maxR"]))
	w.blocks = nil
	for _, b := range tr.Cfg["Blocks"].([]interface{}) {
		w.blocks = append(w.blocks, b.(string))
	}
	if !w.setup() {
		return
	}
	defer os.RemoveAll(w.dir)
	cur := rec{1, 0, 1, ""}
	for k := 0; k < n; k++ {
		w.si = k
		rep.Steps++
		if w.pv == nil {
			w.act = "Reload"
			w.reload()
			if w.pv == nil {
				return
			}
			w.checkDisk()
			continue
		}
		if rng.Intn(12) == 0 {
			w.act = "Crash"
			w.pv = nil
			continue
		}
		// mostly move forward like a consensus run, sometimes repeat or go back
		var q rec
		switch x := rng.Intn(10); {
		case x < 5:
			q = cur
			q.S++
			if q.S > 3 {
				q.S = 1
				if rng.Intn(3) == 0 && q.R < maxR {
					q.R++
				} else {
					q.H++
					q.R = 0
				}
			}
		case x < 7:
			q = cur
		default:
			q = rec{1 + rng.Int63n(maxH), rng.Int63n(maxR + 1), int8(1 + rng.Intn(3)), ""}
		}
		if q.H > maxH {
			q.H = maxH
		}
		q.B = w.blocks[rng.Intn(len(w.blocks))]
		pl := &plan{at: map[string]string{}}
		switch rng.Intn(8) {
		case 0:
			pl.at[sites[rng.Intn(3)]] = "fail"
		case 1:
			pl.at[sites[rng.Intn(3)]] = "crash"
		case 2:
			pl.ret = "crash"
		case 3:
			pl.at[sites[rng.Intn(3)]] = "realfail"
		}
		w.act = fmt.Sprintf("Request%+v plan %v ret %q", q, pl.at, pl.ret)
		sig, err, crashed, sb := w.call(q.H, q.R, q.S, q.B, pl)
		if !crashed && err == nil && sig != nil {
			if pl.ret == "crash" {
				w.pv = nil
			} else {
				w.onRelease(q, sb, sig)
				if cur.before(q) {
					cur = q
				}
			}
		}
		w.checkDisk()
		if w.pv != nil {
			// between calls the object agrees with the file
			rep.Checks++
			if m, d := w.memRec(), w.fileRec(w.file); m != d {
				w.fail("property", true, "MemIsDisk", "between calls the object's record differs from priv_validator.json", d.json(), m.json())
			}
		}
	}
}

func main() {
	crypto.NodeInit(crypto.CryptoTypeZhongAn)
	glog.SetLog(zap.NewNop())
	if len(os.Args) < 2 {
		fmt.Fprintln(os.Stderr, "usage: privval traces.json")
		os.Exit(2)
	}
	traces, err := mbt.LoadTraces(os.Args[1])
	if err != nil {
		fmt.Fprintln(os.Stderr, "load:", err)
		os.Exit(2)
	}
	for ti, tr := range traces {
		rep.Traces++
		w := &world{ti: ti, id: tr.ID, si: -1}
		switch mbt.Str(tr.Cfg["kind"]) {
		case "model":
			runModel(w, tr)
		case "conc":
			runConc(w, tr)
		case "random":
			runRandom(w, tr)
		default:
			w.fail("error", false, "unknown-kind", "unknown trace kind", nil, nil)
		}
		verifhook.DurableFn = nil
	}
	rep.Emit()
}

// ---------------------------------------------------------------------------------------------------------------
// Two requesters (behaviours with Issue2 / Enter2): every signing call runs on its own goroutine through the real
// SignVote / SignProposal; the failpoint is the scheduler gate: a call that reaches a WriteFileAtomic site parks
// there until the driver tells it what happens (ok / fail / realfail).  A second call issued meanwhile must block on
// the signer's mutex (PrivVal.tla: wait) and be served only after the first one returned.

type cev struct {
	id    int
	kind  string // "site" | "done"
	site  string
	sig   crypto.Signature
	err   error
	pv    interface{}
	stack string
}

type ccall struct {
	id         int
	rec        rec
	sb         []byte
	cmd        chan string
	gid        chan int64
	g          int64
	parked     string
	mainBefore []byte
	newAtRen   []byte
}

func curGID() int64 {
	var b [64]byte
	n := runtime.Stack(b[:], false)
	var id int64
	fmt.Sscanf(string(b[:n]), "goroutine %d ", &id)
	return id
}

// goroutineState returns the scheduler state of goroutine g as printed by runtime.Stack ("sync.Mutex.Lock", "running", ...).
func goroutineState(g int64) string {
	buf := make([]byte, 1<<18)
	for {
		n := runtime.Stack(buf, true)
		if n < len(buf) {
			buf = buf[:n]
			break
		}
		buf = make([]byte, 2*len(buf))
	}
	tag := []byte(fmt.Sprintf("goroutine %d [", g))
	i := bytes.Index(buf, tag)
	if i < 0 {
		return "gone"
	}
	rest := buf[i+len(tag):]
	j := bytes.IndexByte(rest, ']')
	if j < 0 {
		return "?"
	}
	return string(rest[:j])
}

type conc struct {
	w       *world
	events  chan cev
	mtx     sync.Mutex
	byGid   map[int64]*ccall
	nextID  int
	running int
	stash   []cev // events of another call that arrived while waiting for a particular one
}

func (c *conc) hook(site string, key []byte) error {
	if string(key) != c.w.file {
		return nil
	}
	c.mtx.Lock()
	cl := c.byGid[curGID()]
	c.mtx.Unlock()
	if cl == nil {
		return nil
	}
	c.events <- cev{id: cl.id, kind: "site", site: site}
	switch cmd := <-cl.cmd; cmd {
	case "fail":
		return errors.New("verif: injected write failure at " + site)
	case "realfail":
		switch site {
		case sites[0]:
			os.Remove(c.w.file + ".bak")
			os.Mkdir(c.w.file+".bak", 0700)
		case sites[1]:
			os.Remove(c.w.file + ".new")
			os.Mkdir(c.w.file+".new", 0700)
		case sites[2]:
			os.Remove(c.w.file + ".new")
		}
	}
	return nil
}

func (c *conc) start(x rec) *ccall {
	w := c.w
	vote, prop, sb := w.signable(x.H, x.R, x.S, x.B)
	c.nextID++
	cl := &ccall{id: c.nextID, rec: x, sb: sb, cmd: make(chan string), gid: make(chan int64, 1)}
	signer := w.pv
	c.running++
	go func() {
		g := curGID()
		c.mtx.Lock()
		c.byGid[g] = cl
		c.mtx.Unlock()
		cl.gid <- g
		var sig crypto.Signature
		var err error
		p, st := mbt.Catch(func() {
			if vote != nil {
				err = signer.SignVote(chainID, vote)
				sig = vote.Signature
			} else {
				err = signer.SignProposal(chainID, prop)
				sig = prop.Signature
			}
		})
		c.events <- cev{id: cl.id, kind: "done", sig: sig, err: err, pv: p, stack: st}
	}()
	cl.g = <-cl.gid
	return cl
}

// nextFor waits for the next event of one particular call; events of the other call are kept for later.  (When the
// first call returns, the blocked second call may get the mutex and reach its first gate before the first call's
// goroutine has reported "done": both orders of these two reports are the same real behaviour.)
func (c *conc) nextFor(id int) (cev, bool) {
	for i, e := range c.stash {
		if e.id == id {
			c.stash = append(c.stash[:i:i], c.stash[i+1:]...)
			return e, true
		}
	}
	for {
		e, ok := c.recv()
		if !ok || e.id == id {
			return e, ok
		}
		c.stash = append(c.stash, e)
	}
}

// next waits for the next event of the code under test.
func (c *conc) next() (cev, bool) {
	if len(c.stash) > 0 {
		e := c.stash[0]
		c.stash = c.stash[1:]
		return e, true
	}
	return c.recv()
}

func (c *conc) recv() (cev, bool) {
	select {
	case e := <-c.events:
		if e.kind == "done" {
			c.running--
		}
		return e, true
	case <-time.After(20 * time.Second):
		return cev{}, false
	}
}

// drain lets every call that is still in flight run to its end (all writes succeed).
func (c *conc) drain(calls ...*ccall) {
	for _, cl := range calls {
		if cl != nil && cl.parked != "" {
			cl.parked = ""
			cl.cmd <- "ok"
		}
	}
	for c.running > 0 {
		e, ok := c.next()
		if !ok {
			return
		}
		if e.kind == "site" {
			for _, cl := range c.byGid {
				if cl.id == e.id {
					cl.cmd <- "ok"
				}
			}
		}
	}
	for _, sfx := range []string{".bak", ".new"} {
		if fi, e := os.Stat(c.w.file + sfx); e == nil && fi.IsDir() {
			os.Remove(c.w.file + sfx)
		}
	}
}

// siteChecks are the direct expectations about the auxiliary files when a call reaches a site.
func (c *conc) siteChecks(cl *ccall, site string) {
	w := c.w
	rep.Count("site:" + site)
	switch site {
	case sites[0]:
		// the call holds the signer now: this is the file as it is before the call touches anything
		cl.mainBefore, _ = ioutil.ReadFile(w.file)
	case sites[1]:
		if bk, e := ioutil.ReadFile(w.file + ".bak"); e != nil || !bytes.Equal(bk, cl.mainBefore) {
			w.fail("property", true, "BakIsOldFile", ".bak is not a copy of the file as it was before the call", nil, nil)
		}
	case sites[2]:
		cl.newAtRen, _ = ioutil.ReadFile(w.file + ".new")
		if x := w.fileRec(w.file + ".new"); x != cl.rec {
			w.fail("property", true, "NewIsNewRecord", ".new does not hold the record being saved", cl.rec.json(), x.json())
		}
		if now, _ := ioutil.ReadFile(w.file); !bytes.Equal(now, cl.mainBefore) {
			w.fail("property", true, "DiskMonotone", "priv_validator.json changed before the rename", nil, nil)
		}
	}
}

// compareMain compares only the durable record (used while another caller may already be inside the signer).
func (w *world) compareMain(post map[string]interface{}, where string) bool {
	got := w.checkDisk().json()
	rep.Checks++
	if !mbt.Equal(mbt.Norm(post["main"]), mbt.Canon(got)) {
		w.fail("mismatch", true, "state:main:"+where, where+": priv_validator.json differs", post["main"], got)
		return false
	}
	return true
}

func runConc(w *world, tr mbt.Trace) {
	w.blocks = nil
	for _, b := range tr.Cfg["Blocks"].([]interface{}) {
		w.blocks = append(w.blocks, b.(string))
	}
	if !w.setup() {
		return
	}
	defer os.RemoveAll(w.dir)
	c := &conc{w: w, events: make(chan cev, 16), byGid: map[int64]*ccall{}}
	verifhook.DurableFn = c.hook
	var active, waiter *ccall
	type fin struct {
		sig crypto.Signature
		err error
	}
	var pendingRet *fin // save() returned nil: the model's pc = "ret"
	defer func() {
		c.drain(active, waiter)
		verifhook.DurableFn = nil
	}()
	if !w.compare(tr.Init, "after") {
		return
	}
	siteOf := map[string]string{"WriteBak": sites[0], "WriteNew": sites[1], "Rename": sites[2]}
	cmp := func(post map[string]interface{}, where string) bool {
		if waiter != nil && where == "after" {
			// the blocked caller enters the moment the first one returns: only the file is stable to look at
			return w.compareMain(post, where)
		}
		return w.compare(post, where)
	}
	// entered handles the first event of a call that has just got the mutex (Request / Enter2)
	entered := func(cl *ccall, class string, post map[string]interface{}) bool {
		e, ok := c.nextFor(cl.id)
		if !ok {
			w.fail("error", false, "scheduler-timeout", "no event from the entering call", nil, nil)
			return false
		}
		if e.kind == "done" && e.pv != nil {
			w.fail("panic", true, "Sign-panic", fmt.Sprintf("%v\n%s", e.pv, e.stack), nil, nil)
			active = nil
			return false
		}
		rep.Checks++
		switch class {
		case "sign":
			if e.kind != "site" || e.site != sites[0] {
				if e.kind == "done" {
					active = nil
					w.fail("mismatch", true, "Request-result:sign", fmt.Sprintf("request %+v refused: %v", cl.rec, e.err), "signature", "error")
				}
				return false
			}
			cl.parked = e.site
			c.siteChecks(cl, e.site)
			return w.compare(post, "at "+e.site)
		case "regress":
			if e.kind != "done" {
				cl.parked = e.site
				w.fail("mismatch", true, "Request-result:regress", fmt.Sprintf("request %+v must be refused (memory %+v) but it is being saved", cl.rec, w.memRec()), "error", "signing")
				return false
			}
			active = nil
			if e.err == nil || e.sig != nil {
				w.fail("mismatch", true, "Request-result:regress", fmt.Sprintf("request %+v must be refused but a signature came back", cl.rec), "error", "signature")
				if e.err == nil {
					w.onRelease(cl.rec, cl.sb, e.sig)
				}
			}
			return w.compare(post, "after")
		default: // same
			if e.kind != "done" {
				cl.parked = e.site
				w.fail("mismatch", true, "Request-result:same", fmt.Sprintf("repeating %+v must return the stored signature but a new one is being saved", cl.rec), nil, nil)
				return false
			}
			active = nil
			if e.err != nil || e.sig == nil {
				w.fail("mismatch", true, "Request-result:same", fmt.Sprintf("repeating the request %+v must return the stored signature: %v", cl.rec, e.err), "signature", "error")
			} else {
				w.onRelease(cl.rec, cl.sb, e.sig)
			}
			return w.compare(post, "after")
		}
	}
	for si := 0; si < len(tr.Steps); si++ {
		st := tr.Steps[si]
		w.si, w.act = si, fmt.Sprintf("%s%v", st.A, st.Args)
		rep.Steps++
		switch st.A {
		case "Request":
			if active != nil || waiter != nil || pendingRet != nil {
				w.fail("error", false, "request-while-busy", "", nil, nil)
				return
			}
			x := rec{int64(mbt.Int(st.Args[0])), int64(mbt.Int(st.Args[1])), int8(mbt.Int(st.Args[2])), mbt.Str(st.Args[3])}
			active = c.start(x)
			if !entered(active, mbt.Str(st.Args[4]), st.Post) {
				return
			}
		case "WriteBak", "WriteNew", "Rename":
			f := mbt.Str(st.Args[0])
			if active == nil || active.parked != siteOf[st.A] {
				w.fail("error", false, "substep-without-call", "behaviour and real call are at different sub-steps", siteOf[st.A], nil)
				return
			}
			if f == "crash" {
				w.fail("error", false, "crash-in-concurrent-behaviour", "not supported by this runner", nil, nil)
				return
			}
			if f != "ok" {
				rep.Count("injected_" + f)
			}
			cl := active
			cl.parked = ""
			cl.cmd <- f
			e, ok := c.nextFor(cl.id)
			if !ok {
				w.fail("error", false, "scheduler-timeout", "the call did not move on", nil, nil)
				return
			}
			if e.kind == "site" && len(c.stash) > 0 {
				cl.parked = e.site
				w.fail("property", true, "Serialized", fmt.Sprintf("a second signing call moved while the first one (%+v) is still inside its signer-file write (%s)", cl.rec, e.site), nil, nil)
				return
			}
			if e.kind == "done" && e.pv != nil {
				active = nil
				w.fail("panic", true, "Sign-panic", fmt.Sprintf("%v\n%s", e.pv, e.stack), nil, nil)
				return
			}
			rep.Checks++
			switch {
			case f == "ok" && st.A != "Rename":
				if e.kind != "site" {
					active = nil
					w.fail("mismatch", true, "Request-result:sign", fmt.Sprintf("the call ended early: %v", e.err), nil, nil)
					return
				}
				cl.parked = e.site
				c.siteChecks(cl, e.site)
				if !w.compare(st.Post, "at "+e.site) {
					return
				}
			case f == "ok":
				if e.kind != "done" || e.err != nil || e.sig == nil {
					if e.kind == "site" {
						cl.parked = e.site
					} else {
						active = nil
					}
					w.fail("mismatch", true, "Request-result:sign", fmt.Sprintf("request %+v refused after a successful save: %v", cl.rec, e.err), "signature", "error")
					return
				}
				if now, _ := ioutil.ReadFile(w.file); !bytes.Equal(now, cl.newAtRen) {
					w.fail("property", true, "NewIsNewRecord", "after the rename priv_validator.json is not what .new held", nil, nil)
				}
				pendingRet = &fin{e.sig, e.err}
				if !cmp(st.Post, "after") {
					return
				}
			default: // fail / realfail: the request is refused, nothing released
				if e.kind != "done" {
					cl.parked = e.site
					w.fail("mismatch", true, "Request-result:failed-save", "the signer file could not be written, yet the call goes on", nil, nil)
					return
				}
				active = nil
				if e.err == nil || e.sig != nil {
					w.fail("mismatch", true, "Request-result:failed-save", fmt.Sprintf("the signer file could not be written, yet a signature for %+v came back", cl.rec), "error", "signature")
					if e.err == nil {
						w.onRelease(cl.rec, cl.sb, e.sig)
					}
				}
				for _, sfx := range []string{".bak", ".new"} {
					if fi, e := os.Stat(w.file + sfx); e == nil && fi.IsDir() {
						os.Remove(w.file + sfx)
					}
				}
				if !cmp(st.Post, "after") {
					return
				}
			}
		case "Return":
			if pendingRet == nil || active == nil || mbt.Str(st.Args[0]) != "ok" {
				w.fail("error", false, "return-without-call", "", nil, nil)
				return
			}
			w.onRelease(active.rec, active.sb, pendingRet.sig)
			active, pendingRet = nil, nil
			if !cmp(st.Post, "after") {
				return
			}
		case "Issue2":
			if active == nil || active.parked == "" || waiter != nil {
				w.fail("error", false, "issue2-without-parked-call", "", nil, nil)
				return
			}
			x := rec{int64(mbt.Int(st.Args[0])), int64(mbt.Int(st.Args[1])), int8(mbt.Int(st.Args[2])), mbt.Str(st.Args[3])}
			waiter = c.start(x)
			rep.Count("concurrent_requests")
			// it must block on the signer's mutex: either we see it blocked there, or it shows up at the gate / returns
			moved := false
			var ev cev
			deadline := time.Now().Add(10 * time.Second)
			for !moved {
				select {
				case ev = <-c.events:
					if ev.kind == "done" {
						c.running--
					}
					moved = true
					continue
				default:
				}
				stt := goroutineState(waiter.g)
				if strings.HasPrefix(stt, "sync.Mutex.Lock") || strings.HasPrefix(stt, "semacquire") {
					break
				}
				if time.Now().After(deadline) {
					w.fail("error", false, "scheduler-timeout", "cannot tell whether the second call is blocked: "+stt, nil, nil)
					return
				}
				time.Sleep(50 * time.Microsecond)
			}
			if !moved {
				rep.Count("second_caller_blocked")
				continue
			}
			// The second call ran although the first one is between its check and its durable write: check, watermark
			// update and write are not atomic.  Show the consequence on the real signer with the driver's own schedule:
			// let the second call finish, make the first one's write fail, then ask for a conflicting signature.
			w.fail("property", true, "Serialized", fmt.Sprintf("request %+v was served while request %+v was inside its signer-file write (%s)", waiter.rec, active.rec, active.parked), nil, nil)
			second := waiter
			for ev.kind != "done" {
				if ev.id == second.id {
					second.cmd <- "ok"
				}
				var ok bool
				if ev, ok = c.next(); !ok {
					return
				}
			}
			if ev.err == nil && ev.sig != nil {
				w.onRelease(second.rec, second.sb, ev.sig) // incl. DurableBeforeRelease for an answer from LastSignature
			}
			waiter = nil
			first := active
			first.parked = ""
			first.cmd <- "fail"
			for {
				e2, ok := c.next()
				if !ok {
					return
				}
				if e2.kind == "done" {
					if e2.err == nil && e2.sig != nil {
						w.onRelease(first.rec, first.sb, e2.sig)
					}
					break
				}
				first.cmd <- "ok"
			}
			active = nil
			other := "A"
			if second.rec.B == "A" {
				other = "B"
			}
			probe := c.start(rec{second.rec.H, second.rec.R, second.rec.S, other})
			for {
				e3, ok := c.next()
				if !ok {
					return
				}
				if e3.kind == "done" {
					if e3.err == nil && e3.sig != nil {
						w.onRelease(probe.rec, probe.sb, e3.sig) // NoConflictingRelease if the second call's signature is out
					}
					break
				}
				probe.cmd <- "ok"
			}
			if m, d := w.memRec(), w.fileRec(w.file); m != d {
				w.fail("property", true, "MemIsDisk", "between calls the object's record differs from priv_validator.json", d.json(), m.json())
			}
			return
		case "Enter2":
			if waiter == nil || active != nil {
				w.fail("error", false, "enter2-without-waiter", "", nil, nil)
				return
			}
			active, waiter = waiter, nil
			if !entered(active, mbt.Str(st.Args[0]), st.Post) {
				return
			}
		default:
			w.fail("error", false, "unexpected-action", st.A+" in a concurrent behaviour", nil, nil)
			return
		}
	}
}
