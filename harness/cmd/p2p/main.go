// Replays behaviours of specs/p2p/{SecretConn,MConn,Admission}.tla on the real gemmill/p2p code (C20).
//
// usage: p2p <traces.json>
// Every trace has cfg.kind in {"secretconn", "mconn", "admission"} and cfg.seed; see the three files
// secretconn.go, mconn.go, admission.go for the binding of each.  Environment: VERIF_P2P_TMP (scratch
// directory owned by the caller), VERIF_P2P_PAR (traces replayed concurrently, default 4).
package main

import (
	"fmt"
	"os"
	"strconv"
	"sync"
	"time"

	"go.uber.org/zap"

	crypto "github.com/dappledger/AnnChain/gemmill/go-crypto"
	glog "github.com/dappledger/AnnChain/gemmill/modules/go-log"

	"verifharness/mbt"
)

// report is mbt.Report behind a mutex (traces are replayed concurrently).
type report struct {
	mu sync.Mutex
	r  *mbt.Report
}

func (rp *report) fail(f mbt.Failure) { rp.mu.Lock(); rp.r.Fail(f); rp.mu.Unlock() }
func (rp *report) checks(n int)       { rp.mu.Lock(); rp.r.Checks += n; rp.mu.Unlock() }
func (rp *report) steps(n int)        { rp.mu.Lock(); rp.r.Steps += n; rp.mu.Unlock() }
func (rp *report) count(k string)     { rp.mu.Lock(); rp.r.Counters[k]++; rp.mu.Unlock() }
func (rp *report) add(k string, n int) {
	rp.mu.Lock()
	rp.r.Counters[k] += n
	rp.mu.Unlock()
}
func (rp *report) distinct(set, k string) {
	rp.mu.Lock()
	m, _ := rp.r.Extra[set].(map[string]bool)
	if m == nil {
		m = map[string]bool{}
		rp.r.Extra[set] = m
	}
	m[k] = true
	rp.mu.Unlock()
}

// tctx is what one trace replay needs to report.
type tctx struct {
	rep *report
	ti  int
	tr  mbt.Trace
}

func (t *tctx) fail(si int, kind string, prop bool, key, detail string, want, got interface{}) {
	action := ""
	if si >= 0 && si < len(t.tr.Steps) {
		action = fmt.Sprintf("%s%v", t.tr.Steps[si].A, t.tr.Steps[si].Args)
	}
	t.rep.fail(mbt.Failure{Trace: t.ti, TraceID: t.tr.ID, Step: si, Action: action, Kind: kind, Property: prop,
		Key: key, Detail: detail, Want: want, Got: got})
}

func cfgStr(tr mbt.Trace, k, def string) string {
	if v, ok := tr.Cfg[k]; ok {
		if s, ok := v.(string); ok {
			return s
		}
	}
	return def
}

func cfgInt(tr mbt.Trace, k string, def int) int {
	if v, ok := tr.Cfg[k]; ok && v != nil {
		return mbt.Int(v)
	}
	return def
}

var tmpBase string

func main() {
	crypto.NodeInit(crypto.CryptoTypeZhongAn)
	glog.SetLog(zap.NewNop())
	glog.SetAuditLog(zap.NewNop())
	if len(os.Args) < 2 {
		fmt.Fprintln(os.Stderr, "usage: p2p traces.json")
		os.Exit(2)
	}
	traces, err := mbt.LoadTraces(os.Args[1])
	if err != nil {
		fmt.Fprintln(os.Stderr, "load:", err)
		os.Exit(2)
	}
	tmpBase = os.Getenv("VERIF_P2P_TMP")
	ownTmp := false
	if tmpBase == "" {
		tmpBase, err = os.MkdirTemp("", "vp2p-")
		if err != nil {
			fmt.Fprintln(os.Stderr, "tmp:", err)
			os.Exit(2)
		}
		ownTmp = true
	}
	par := 4
	if s := os.Getenv("VERIF_P2P_PAR"); s != "" {
		if n, err := strconv.Atoi(s); err == nil && n > 0 {
			par = n
		}
	}
	rep := &report{r: mbt.NewReport()}
	rep.r.Traces = len(traces)
	var wg sync.WaitGroup
	sem := make(chan struct{}, par)
	for ti := range traces {
		wg.Add(1)
		sem <- struct{}{}
		go func(ti int) {
			defer wg.Done()
			defer func() { <-sem }()
			t := &tctx{rep: rep, ti: ti, tr: traces[ti]}
			done := make(chan struct{})
			go func() {
				defer close(done)
				if p, stack := mbt.Catch(func() { runTrace(t) }); p != nil {
					t.fail(-1, "error", false, "driver-panic", fmt.Sprintf("driver panicked: %v\n%s", p, stack), nil, nil)
				}
			}()
			select {
			case <-done:
			case <-time.After(300 * time.Second):
				t.fail(-1, "timeout", false, "timeout:trace", "trace replay did not finish in 300 s", nil, nil)
			}
		}(ti)
	}
	wg.Wait()
	rep.mu.Lock()
	for k, v := range rep.r.Extra {
		if m, ok := v.(map[string]bool); ok {
			rep.r.Extra[k] = len(m)
		}
	}
	rep.r.Emit()
	rep.mu.Unlock()
	if ownTmp {
		os.RemoveAll(tmpBase)
	}
	os.Exit(0)
}

func runTrace(t *tctx) {
	switch cfgStr(t.tr, "kind", "") {
	case "secretconn":
		runSecretConn(t)
	case "mconn":
		runMConn(t)
	case "admission":
		runAdmission(t)
	default:
		t.fail(-1, "error", false, "unknown-kind", "trace without a known cfg.kind", nil, nil)
	}
}
