package main

import (
	"fmt"
	"net"
	"os"
	"time"

	"go.uber.org/zap"

	"github.com/dappledger/AnnChain/eth/common"
	"github.com/dappledger/AnnChain/gemmill"
	"github.com/dappledger/AnnChain/gemmill/archive"
	"github.com/dappledger/AnnChain/gemmill/config"
	crypto "github.com/dappledger/AnnChain/gemmill/go-crypto"
	wire "github.com/dappledger/AnnChain/gemmill/go-wire"
	gcmn "github.com/dappledger/AnnChain/gemmill/modules/go-common"
	dbm "github.com/dappledger/AnnChain/gemmill/modules/go-db"
	glog "github.com/dappledger/AnnChain/gemmill/modules/go-log"
	"github.com/dappledger/AnnChain/gemmill/p2p"
	"github.com/dappledger/AnnChain/gemmill/refuse_list"
	"github.com/dappledger/AnnChain/gemmill/types"
)

type app struct{}

func (app) GetAngineHooks() types.Hooks { return types.Hooks{} }
func (app) CompatibleWithAngine()        {}
func (app) CheckTx(bs []byte) (common.Address, uint64, error) {
	return common.Address{}, 0, nil
}
func (app) Query([]byte) types.Result { return types.Result{} }
func (app) Info() types.ResultInfo    { return types.ResultInfo{} }
func (app) Start() error              { return nil }
func (app) Stop()                     {}
func (app) SetCore(types.Core)        {}

func key(n string) crypto.PrivKeyEd25519 { return crypto.GenPrivKeyEd25519FromSecret([]byte("k-" + n)) }

func attempt(sw *p2p.Switch, auth crypto.PrivKeyEd25519, ann crypto.PubKey, sig string) (res string) {
	c1, c2 := net.Pipe()
	done := make(chan string, 1)
	go func() {
		defer func() {
			if r := recover(); r != nil {
				done <- fmt.Sprintf("PANIC %v", r)
			}
		}()
		p, err := sw.AddPeerWithConnection(c1, false)
		if err != nil {
			done <- "refused: " + err.Error()
		} else {
			done <- "admitted " + p.Key[:8]
		}
	}()
	go func() {
		c2.SetDeadline(time.Now().Add(5 * time.Second))
		sc, err := p2p.MakeSecretConnection(c2, auth)
		if err != nil {
			return
		}
		ni := &p2p.NodeInfo{PubKey: ann, SigndPubKey: sig, Moniker: "peer", Network: "x", Version: "0.9.0", ListenAddr: "1.2.3.4:5"}
		gcmn.Parallel(func() { var n int; var err error; wire.WriteBinary(ni, sc, &n, &err) },
			func() { var n int; var err error; o := new(p2p.NodeInfo); wire.ReadBinary(o, sc, 10240, &n, &err) })
		gcmn.Parallel(func() { var n int; var err error; wire.WriteBinary(&p2p.ExchangeData{}, sc, &n, &err) },
			func() { var n int; var err error; o := new(p2p.ExchangeData); wire.ReadBinary(o, sc, 10240, &n, &err) })
	}()
	select {
	case r := <-done:
		return r
	case <-time.After(30 * time.Second):
		return "TIMEOUT"
	}
}

func main() {
	crypto.NodeInit(crypto.CryptoTypeZhongAn)
	glog.SetLog(zap.NewNop())
	glog.SetAuditLog(zap.NewNop())
	dir, _ := os.MkdirTemp("", "vp2p-")
	defer os.RemoveAll(dir)
	self, ca, peer, newca := key("self"), key("ca"), key("peer"), key("newca")
	conf := config.DefaultConfig()
	config.SetDefaults(dir, conf)
	conf.Set("db_backend", "memdb")
	conf.Set("pex_reactor", false)
	conf.Set("p2p_laddr", "tcp://127.0.0.1:0")
	conf.Set("rpc_laddr", "")
	conf.Set("environment", "development")
	conf.Set("auth_by_ca", true)
	conf.Set("non_validator_node_auth", true)
	gen := &types.GenesisDoc{GenesisTime: time.Unix(1e9, 0), ChainID: "c", Validators: []types.GenesisValidator{
		{PubKey: self.PubKey(), Amount: 10, Name: "self", IsCA: true}, {PubKey: ca.PubKey(), Amount: 10, Name: "ca", IsCA: true}}}
	pv, _ := types.GenPrivValidator(crypto.CryptoTypeZhongAn, self)
	t0 := time.Now()
	rl := refuse_list.NewRefuseList("memdb", dir)
	sw, err := gemmill.VerifPrepareP2P(conf, gen, pv, rl)
	fmt.Println("prepareP2P", err, time.Since(t0))
	dbs := map[string]dbm.DB{"state": dbm.NewDB("state", "memdb", dir), "blockstore": dbm.NewDB("blockstore", "memdb", dir),
		"archive": dbm.NewDB("blockstore", "memdb", dir), "votechannel": dbm.NewDB("votechannel", "memdb", dir)}
	ang, err := gemmill.VerifAsmNew(app{}, &gemmill.VerifAsmParts{Conf: conf, Genesis: gen, PrivValidator: pv, Switch: sw, DBs: dbs, RefuseList: rl, Archive: archive.NewArchive("memdb", dir, 0)})
	fmt.Println("asm", err, time.Since(t0))
	st := ang.VerifAsmState()
	sigBy := func(k crypto.PrivKeyEd25519, p crypto.PubKey) string { return types.SignCA(k, p.Bytes()[1:]) }
	_ = sigBy
	pkb := peer.PubKey().(crypto.PubKeyEd25519)
	s1 := types.SignCA(ca, pkb[:])
	s2 := types.SignCA(newca, pkb[:])
	fmt.Println("1 sig by ca      :", attempt(sw, peer, peer.PubKey(), s1))
	fmt.Println("2 no sig         :", attempt(sw, peer, peer.PubKey(), ""))
	fmt.Println("3 sig by newca   :", attempt(sw, peer, peer.PubKey(), s2))
	// validator set change as ExecBlock does: remove ca, add newca as CA
	vs := st.Validators.Copy()
	next := vs.Copy()
	next.Remove(ca.PubKey().Address())
	next.Add(types.NewValidator(newca.PubKey(), 10, true))
	next.IncrementAccum(1)
	st.SetBlockAndValidators(&types.Header{ChainID: "c", Height: 1, Time: time.Unix(1e9, 0)}, types.PartSetHeader{}, vs, next)
	fmt.Println("-- after change: ca removed, newca added as CA; current CAs:")
	for _, v := range st.Validators.Validators {
		fmt.Printf("   %X ca=%v\n", v.Address[:4], v.IsCA)
	}
	for _, p := range sw.Peers().List() {
		sw.StopPeerGracefully(p)
	}
	fmt.Println("4 sig by removed ca:", attempt(sw, peer, peer.PubKey(), s1))
	for _, p := range sw.Peers().List() {
		sw.StopPeerGracefully(p)
	}
	fmt.Println("5 sig by newca     :", attempt(sw, peer, peer.PubKey(), s2))
	fmt.Println("6 nil announced    :", attempt(sw, peer, nil, s2))
	t1 := time.Now()
	for i := 0; i < 200; i++ {
		attempt(sw, peer, peer.PubKey(), "")
	}
	fmt.Println("200 attempts", time.Since(t1))
}
