package main

// SecretConn.tla behaviours on two REAL p2p.SecretConnection endpoints with a frame-aware man in the
// middle.  The handshake step runs the real MakeSecretConnection on both ends concurrently while the
// man in the middle plays the strategy of the step with real cryptography (p2putil).  The stream steps
// are sequential: Write on the writer, the man in the middle's action on the captured sealed frames,
// Read on the reader, whose connection pulls frames from the man in the middle on demand.
//
// Per Read: (n, error class) against the specification, the bytes against the written stream at the
// delivered offset (independent of the specification), (0, nil) and data-with-error rejected.
// A second pass replays the same writes and man-in-the-middle actions with an io.ReadFull consumer
// and an oracle that knows only the written stream and which frames were touched.

import (
	"bytes"
	"fmt"
	"io"
	"math/rand"
	"strings"
	"time"

	crypto "github.com/dappledger/AnnChain/gemmill/go-crypto"
	"github.com/dappledger/AnnChain/gemmill/p2p"

	"verifharness/mbt"
	"verifharness/p2putil"
)

var (
	keyA = crypto.GenPrivKeyEd25519FromSecret([]byte("verif-p2p-A"))
	keyB = crypto.GenPrivKeyEd25519FromSecret([]byte("verif-p2p-B"))
	keyM = crypto.GenPrivKeyEd25519FromSecret([]byte("verif-p2p-M"))
)

type hsEnd struct {
	end   *p2putil.End
	sc    *p2p.SecretConnection
	err   error
	panic interface{}
	stack string
	res   string
}

type hsOut struct {
	a, b    *hsEnd
	timeout bool
	mitmErr error
}

func classifyHs(e *hsEnd, own, peer crypto.PubKey) string {
	if e.panic != nil {
		return "panic"
	}
	if e.err != nil {
		if strings.Contains(e.err.Error(), "decrypt") {
			return "errDecrypt"
		}
		return "errVerify"
	}
	rk := e.sc.RemotePubKey()
	switch {
	case rk == nil:
		return "ok:nil"
	case rk.Equals(peer):
		return "ok:peer"
	case rk.Equals(own):
		return "ok:self"
	case rk.Equals(keyM.PubKey()):
		return "ok:M"
	}
	return "ok:unknown"
}

// handshake runs MakeSecretConnection on both ends against the man in the middle's strategy.
func handshake(toA, toB, authA, authB string, rng *rand.Rand, seg int) hsOut {
	a := &hsEnd{end: p2putil.NewEnd()}
	b := &hsEnd{end: p2putil.NewEnd()}
	a.end.Seg, b.end.Seg = seg, seg
	done := make(chan struct{}, 2)
	run := func(e *hsEnd, k crypto.PrivKeyEd25519) {
		e.panic, e.stack = mbt.Catch(func() { e.sc, e.err = p2p.MakeSecretConnection(e.end, k) })
		done <- struct{}{}
	}
	go run(a, keyA)
	go run(b, keyB)
	out := hsOut{a: a, b: b}
	mdone := make(chan error, 1)
	go func() { mdone <- mitmHandshake(a.end, b.end, toA, toB, authA, authB, rng) }()
	deadline := time.After(3 * p2putil.HsTimeout)
	for i := 0; i < 3; i++ {
		select {
		case <-done:
		case err := <-mdone:
			out.mitmErr = err
		case <-deadline:
			out.timeout = true
			a.end.Close()
			b.end.Close()
			return out
		}
	}
	a.res = classifyHs(a, keyA.PubKey(), keyB.PubKey())
	b.res = classifyHs(b, keyB.PubKey(), keyA.PubKey())
	return out
}

// mitmHandshake: what M does between the two ends (End.Out is what the end wrote, End.In what it will read).
func mitmHandshake(ea, eb *p2putil.End, toA, toB, authA, authB string, rng *rand.Rand) error {
	rawA, err := p2putil.ReadN(ea.Out, p2putil.EphKeySize)
	if err != nil {
		return fmt.Errorf("eph A: %v", err)
	}
	rawB, err := p2putil.ReadN(eb.Out, p2putil.EphKeySize)
	if err != nil {
		return fmt.Errorf("eph B: %v", err)
	}
	var ephA, ephB [32]byte
	copy(ephA[:], rawA)
	copy(ephB[:], rawB)
	eM := p2putil.NewEphKey(rng)
	var legA, legB *p2putil.Leg // M's legs towards A and towards B, when M put its own key there
	if toA == "eM" {
		ea.In.Write(eM.Pub[:])
		legA = p2putil.NewLeg(eM, &ephA)
	} else {
		ea.In.Write(ephB[:])
	}
	if toB == "eM" {
		eb.In.Write(eM.Pub[:])
		legB = p2putil.NewLeg(eM, &ephB)
	} else {
		eb.In.Write(ephA[:])
	}
	blobA, err := p2putil.ReadN(ea.Out, p2putil.AuthBlobLen)
	if err != nil {
		return fmt.Errorf("auth A: %v", err)
	}
	blobB, err := p2putil.ReadN(eb.Out, p2putil.AuthBlobLen)
	if err != nil {
		return fmt.Errorf("auth B: %v", err)
	}
	var plainA, plainB p2putil.AuthMsg
	var okA, okB bool
	if legA != nil {
		plainA, okA = legA.OpenAuth(blobA)
	}
	if legB != nil {
		plainB, okB = legB.OpenAuth(blobB)
	}
	build := func(choice string, leg *p2putil.Leg, ownBlob, peerBlob []byte, ownPlain, peerPlain p2putil.AuthMsg, ownOK, peerOK bool, peerKey crypto.PubKey) ([]byte, error) {
		need := func() error {
			if leg == nil {
				return fmt.Errorf("strategy %s needs the secret of this leg", choice)
			}
			return nil
		}
		switch choice {
		case "relay":
			return peerBlob, nil
		case "reflect":
			return ownBlob, nil
		case "garbage":
			g := make([]byte, p2putil.AuthBlobLen)
			rng.Read(g)
			return g, nil
		case "own":
			if err := need(); err != nil {
				return nil, err
			}
			return leg.SealAuth(p2putil.AuthMsg{Key: keyM.PubKey(), Sig: keyM.Sign(leg.Challenge[:])}), nil
		case "claimPeer":
			if err := need(); err != nil {
				return nil, err
			}
			return leg.SealAuth(p2putil.AuthMsg{Key: peerKey, Sig: keyM.Sign(leg.Challenge[:])}), nil
		case "nilKey":
			if err := need(); err != nil {
				return nil, err
			}
			return leg.SealAuth(p2putil.AuthMsg{Key: nil, Sig: keyM.Sign(leg.Challenge[:])}), nil
		case "resealSelf":
			if err := need(); err != nil {
				return nil, err
			}
			if !ownOK {
				return nil, fmt.Errorf("could not open the end's own auth message")
			}
			return leg.SealAuth(ownPlain), nil
		case "resealPeer":
			if err := need(); err != nil {
				return nil, err
			}
			if !peerOK {
				return nil, fmt.Errorf("could not open the peer's auth message")
			}
			return leg.SealAuth(peerPlain), nil
		}
		return nil, fmt.Errorf("unknown auth choice %q", choice)
	}
	mA, err := build(authA, legA, blobA, blobB, plainA, plainB, okA, okB, keyB.PubKey())
	if err != nil {
		return err
	}
	mB, err := build(authB, legB, blobB, blobA, plainB, plainA, okB, okA, keyA.PubKey())
	if err != nil {
		return err
	}
	ea.In.Write(mA)
	eb.In.Write(mB)
	return nil
}

// ---------------------------------------------------------------------------------------------

type wframe struct {
	idx  int // >= 1 genuine frame (nonce index), -1 bad, -2 part
	data []byte
}

// mitm owns the sealed frames between writer and reader in the stream phase.
type mitm struct {
	genuine [][]byte
	lens    []int // chunk length of each genuine frame (from the driver's own split of the writes)
	wire    []wframe
	closed  bool
	cur     []byte
	served  int
	blocked bool
}

func (m *mitm) Read(p []byte) (int, error) {
	if len(m.cur) == 0 {
		if len(m.wire) == 0 {
			if m.closed {
				return 0, io.EOF
			}
			m.blocked = true
			return 0, p2putil.ErrWouldBlock
		}
		m.cur = m.wire[0].data
		m.wire = m.wire[1:]
		m.served++
	}
	n := copy(p, m.cur)
	m.cur = m.cur[n:]
	return n, nil
}

func (m *mitm) insert(p int, f wframe) {
	m.wire = append(m.wire, wframe{})
	copy(m.wire[p+1:], m.wire[p:])
	m.wire[p] = f
}

func errClass(err error) string {
	switch {
	case err == nil:
		return "ok"
	case err == io.EOF:
		return "eof"
	case err == io.ErrUnexpectedEOF:
		return "ueof"
	case err == p2putil.ErrWouldBlock:
		return "wouldblock"
	case strings.Contains(err.Error(), "decrypt"):
		return "decrypt"
	}
	return "err:" + err.Error()
}

// scSession is one connected pair in the stream phase.
type scSession struct {
	w, r    *p2p.SecretConnection
	wEnd    *p2putil.End
	rEnd    *p2putil.End
	m       *mitm
	stream  *p2putil.Stream
	written int
	rng     *rand.Rand
}

// newSession: an untouched handshake over a carrier that hands over at most seg bytes per Read (0: no limit).
// The second result is "" on success, "timeout", or a description; the third says whether the failure is owed to
// the fragmentation (the same handshake succeeds when the carrier delivers whole writes).
func newSession(seed uint64, seg int) (*scSession, string, bool) {
	rng := rand.New(rand.NewSource(int64(seed)))
	hs := handshake("eB", "eA", "relay", "relay", rng, seg)
	if hs.timeout {
		return nil, "timeout", false
	}
	if hs.a.res != "ok:peer" || hs.b.res != "ok:peer" {
		msg := fmt.Sprintf("untouched handshake failed (carrier delivers at most %d bytes per Read; 0 = unlimited): A=%s(%v) B=%s(%v)", seg, hs.a.res, hs.a.err, hs.b.res, hs.b.err)
		if seg > 0 {
			h2 := handshake("eB", "eA", "relay", "relay", rng, 0)
			if !h2.timeout && h2.a.res == "ok:peer" && h2.b.res == "ok:peer" {
				return nil, msg + "; the same handshake succeeds when the carrier hands over every write whole", true
			}
		}
		return nil, msg, false
	}
	s := &scSession{w: hs.a.sc, r: hs.b.sc, wEnd: hs.a.end, rEnd: hs.b.end, m: &mitm{}, stream: p2putil.NewStream(seed), rng: rng}
	// the reader now pulls sealed frames from the man in the middle; nothing blocks any more
	s.rEnd.Reader = s.m
	s.wEnd.Out.Take()
	return s, "", false
}

func (s *scSession) setSeg(k int) { s.wEnd.Seg, s.rEnd.Seg = k, k }

// sessionFailure reports why no session could be established.
func sessionFailure(t *tctx, si int, msg string, frag bool) {
	switch {
	case msg == "timeout":
		t.fail(si, "timeout", false, "timeout:handshake", "untouched handshake timed out", nil, nil)
	case frag:
		t.fail(si, "property", true, "StreamIntegrity:fragmented-carrier", msg, "ok:peer", msg)
	default:
		t.fail(si, "mismatch", true, "Handshake:untouched-failed", msg, "ok:peer", msg)
	}
}

// write performs Write(sz) on the real writer and hands the sealed frames to the man in the middle.
func (s *scSession) write(sz int) (n int, err error, nframes int, aligned bool) {
	data := s.stream.Range(s.written, sz)
	n, err = s.w.Write(data)
	raw := s.wEnd.Out.Take()
	aligned = len(raw)%p2putil.SealedSize == 0
	rest := sz
	for off := 0; off+p2putil.SealedSize <= len(raw); off += p2putil.SealedSize {
		f := raw[off : off+p2putil.SealedSize]
		s.m.genuine = append(s.m.genuine, f)
		l := rest
		if l > p2putil.DataMax {
			l = p2putil.DataMax
		}
		rest -= l
		s.m.lens = append(s.m.lens, l)
		s.m.wire = append(s.m.wire, wframe{idx: len(s.m.genuine), data: f})
		nframes++
	}
	s.written += sz
	return
}

// apply performs one man-in-the-middle action; positions are 1-based as in the specification.
func (s *scSession) apply(a string, args []interface{}) error {
	m := s.m
	pos := func(i int) int { return mbt.Int(args[i]) - 1 }
	switch a {
	case "Flip":
		p := pos(0)
		if p >= len(m.wire) {
			return fmt.Errorf("no frame %d", p+1)
		}
		d := append([]byte(nil), m.wire[p].data...)
		var at int
		switch s.rng.Intn(4) {
		case 0:
			at = s.rng.Intn(16) // poly1305 tag
		case 1:
			at = 16 + s.rng.Intn(2) // sealed length header
		case 2:
			at = len(d) - 1
		default:
			at = s.rng.Intn(len(d))
		}
		d[at] ^= 1 << uint(s.rng.Intn(8))
		m.wire[p] = wframe{idx: -1, data: d}
	case "Drop":
		p := pos(0)
		if p >= len(m.wire) {
			return fmt.Errorf("no frame %d", p+1)
		}
		m.wire = append(m.wire[:p:p], m.wire[p+1:]...)
	case "Dup":
		p := pos(0)
		if p >= len(m.wire) {
			return fmt.Errorf("no frame %d", p+1)
		}
		m.insert(p+1, m.wire[p])
	case "Swap":
		p := pos(0)
		if p+1 >= len(m.wire) {
			return fmt.Errorf("no frames %d,%d", p+1, p+2)
		}
		m.wire[p], m.wire[p+1] = m.wire[p+1], m.wire[p]
	case "Inject":
		p := pos(0)
		if p > len(m.wire) {
			return fmt.Errorf("no position %d", p+1)
		}
		var d []byte
		switch s.rng.Intn(3) {
		case 0: // random bytes
			d = make([]byte, p2putil.SealedSize)
			s.rng.Read(d)
		case 1: // a genuine frame of the OTHER direction (same secret, other nonce sequence)
			if _, err := s.r.Write([]byte("reflected")); err != nil {
				return err
			}
			d = s.rEnd.Out.Take()
			if len(d) != p2putil.SealedSize {
				return fmt.Errorf("reverse frame has %d bytes", len(d))
			}
		default: // a well-formed frame sealed under a key the attacker made up
			leg := p2putil.NewLeg(p2putil.NewEphKey(s.rng), p2putil.NewEphKey(s.rng).Pub)
			d = leg.Seal(s.stream.Range(0, 100))
		}
		m.insert(p, wframe{idx: -1, data: d})
	case "Replay":
		k := mbt.Int(args[0])
		if k < 1 || k > len(m.genuine) {
			return fmt.Errorf("no frame with nonce index %d", k)
		}
		m.insert(0, wframe{idx: k, data: m.genuine[k-1]})
	case "Truncate":
		p := pos(0)
		mid := args[1].(bool)
		if p > len(m.wire) || (mid && p >= len(m.wire)) {
			return fmt.Errorf("no position %d", p+1)
		}
		var part []byte
		if mid {
			cuts := []int{1, 15, 16, 18, 521, p2putil.SealedSize - 1}
			part = m.wire[p].data[:cuts[s.rng.Intn(len(cuts))]]
		}
		m.wire = m.wire[:p:p]
		if mid {
			m.wire = append(m.wire, wframe{idx: -2, data: part})
		}
		m.closed = true
	default:
		return fmt.Errorf("unknown action %s", a)
	}
	return nil
}

func isMitmAction(a string) bool {
	switch a {
	case "Flip", "Drop", "Dup", "Swap", "Inject", "Replay", "Truncate":
		return true
	}
	return false
}

func runSecretConn(t *tctx) {
	seed := uint64(cfgInt(t.tr, "seed", 1))
	rng := rand.New(rand.NewSource(int64(seed) ^ 0x5ec2e7))
	var s *scSession
	delivered := 0
	tampered := false
	// the carrier fragments from the start (cfg.seg0, chosen by the engine from the seed) and whenever the behaviour says so
	seg := cfgInt(t.tr, "seg0", 0)
	for si, st := range t.tr.Steps {
		t.rep.steps(1)
		if s == nil && si == 0 && st.A != "Handshake" {
			// behaviours of the stream phase alone start right after an untouched handshake
			var msg string
			var frag bool
			s, msg, frag = newSession(seed, seg)
			if s == nil {
				sessionFailure(t, si, msg, frag)
				return
			}
		}
		switch {
		case st.A == "Resegment":
			seg = mbt.Int(st.Args[0])
			if s != nil {
				s.setSeg(seg)
			}
			t.rep.distinct("sc_cases", fmt.Sprintf("Resegment/%d/%v", seg, s != nil))
		case st.A == "Handshake":
			toA, toB := mbt.Str(st.Args[0]), mbt.Str(st.Args[1])
			authA, authB := mbt.Str(st.Args[2]), mbt.Str(st.Args[3])
			wantA, wantB := mbt.Str(st.Args[4]), mbt.Str(st.Args[5])
			if toA == "eB" && toB == "eA" && authA == "relay" && authB == "relay" {
				var msg string
				var frag bool
				s, msg, frag = newSession(seed, seg)
				t.rep.checks(2)
				if s == nil {
					sessionFailure(t, si, msg, frag)
					return
				}
				t.rep.distinct("sc_cases", fmt.Sprintf("Handshake/seg%d", seg))
				t.rep.distinct("hs_strategies", "eB/eA/relay/relay")
				continue
			}
			hs := handshake(toA, toB, authA, authB, rng, seg)
			if hs.timeout {
				t.fail(si, "timeout", false, "timeout:handshake", "handshake with the man in the middle timed out", nil, nil)
				return
			}
			if hs.mitmErr != nil {
				t.fail(si, "error", false, "mitm-infeasible", "man in the middle could not play the strategy: "+hs.mitmErr.Error(), nil, nil)
				return
			}
			t.rep.distinct("hs_strategies", toA+"/"+toB+"/"+authA+"/"+authB)
			for _, x := range []struct {
				side, want, to, auth string
				e                    *hsEnd
			}{{"A", wantA, toA, authA, hs.a}, {"B", wantB, toB, authB, hs.b}} {
				t.rep.checks(2)
				if x.e.panic != nil {
					t.fail(si, "panic", true, "MakeSecretConnection-panic:"+x.auth,
						fmt.Sprintf("MakeSecretConnection at %s panicked on auth message %q: %v\n%s", x.side, x.auth, x.e.panic, x.e.stack), x.want, "panic")
					continue
				}
				if x.e.res != x.want {
					// accepting an identity the strategy cannot justify contradicts the property; a different error class does not
					prop := strings.HasPrefix(x.e.res, "ok") || strings.HasPrefix(x.want, "ok")
					t.fail(si, "mismatch", prop, "Handshake:"+x.auth+":"+x.want+":"+x.e.res,
						fmt.Sprintf("end %s (received %s, auth %s): result differs (err=%v)", x.side, x.to, x.auth, x.e.err), x.want, x.e.res)
				}
				// independent of the specification: whoever sits inside the channel is never reported as the honest peer
				if x.to == "eM" && x.e.res == "ok:peer" {
					t.fail(si, "property", true, "PeerIdentity:mitm-as-peer",
						fmt.Sprintf("end %s shares its secret with the man in the middle but reports the honest peer's key", x.side), nil, nil)
				}
				if x.e.res == "ok:nil" || x.e.res == "ok:unknown" {
					t.fail(si, "property", true, "PeerIdentity:unknown-key", "handshake succeeded with an identity nobody proved", nil, x.e.res)
				}
			}
			hs.a.end.Close()
			hs.b.end.Close()
		case s == nil:
			t.fail(si, "error", false, "no-session", "stream step before a successful handshake", nil, nil)
			return
		case st.A == "Write":
			sz, k := mbt.Int(st.Args[0]), mbt.Int(st.Args[1])
			var n, nf int
			var err error
			var aligned bool
			p, stack := mbt.Catch(func() { n, err, nf, aligned = s.write(sz) })
			t.rep.checks(2)
			t.rep.distinct("sc_cases", fmt.Sprintf("Write/%d", sz))
			if p != nil {
				t.fail(si, "panic", true, "Write-panic", fmt.Sprintf("%v\n%s", p, stack), nil, nil)
				return
			}
			if n != sz || err != nil {
				t.fail(si, "mismatch", true, "Write-result", fmt.Sprintf("Write(%d bytes) returned (%d, %v)", sz, n, err), sz, n)
				return
			}
			if nf != k || !aligned {
				t.fail(si, "mismatch", false, "Write-framing", fmt.Sprintf("Write(%d bytes) put %d whole frames on the wire (aligned=%v)", sz, nf, aligned), k, nf)
				return
			}
		case isMitmAction(st.A):
			tampered = true
			if err := s.apply(st.A, st.Args); err != nil {
				t.fail(si, "error", false, "mitm-step", err.Error(), nil, nil)
				return
			}
			t.rep.distinct("sc_cases", st.A)
		case st.A == "Read" || st.A == "Drain":
			b := mbt.Int(st.Args[0])
			calls := 1
			if st.A == "Drain" {
				calls = mbt.Int(st.Args[1])
			}
			left := mbt.Int(st.Args[2])
			for c := 0; c < calls; c++ {
				wantR, wantN := "ok", left
				if st.A == "Read" {
					wantR = mbt.Str(st.Args[1])
				} else if wantN > b {
					wantN = b
				}
				left -= wantN
				if !s.readStep(t, si, b, wantR, wantN, &delivered, tampered) {
					return
				}
			}
			// the specification's view of the reader after the step
			if want := mbt.Int(st.Post["dpos"]); want != delivered {
				t.fail(si, "mismatch", true, "StreamIntegrity:count", "bytes delivered so far differ from the specification", want, delivered)
				return
			}
		default:
			t.fail(si, "error", false, "unknown-action", "unknown action "+st.A, nil, nil)
			return
		}
	}
	if s != nil {
		consumerPass(t, seed, cfgInt(t.tr, "seg0", 0))
	}
}

// readStep performs one raw Read with a buffer of b bytes and judges it.
func (s *scSession) readStep(t *tctx, si, b int, wantR string, wantN int, delivered *int, tampered bool) bool {
	buf := bytes.Repeat([]byte{0xA5}, b+8)
	var n int
	var err error
	s.m.blocked = false
	p, stack := mbt.Catch(func() { n, err = s.r.Read(buf[:b]) })
	t.rep.checks(4)
	if p != nil {
		t.fail(si, "panic", true, "Read-panic", fmt.Sprintf("%v\n%s", p, stack), nil, nil)
		return false
	}
	got := errClass(err)
	cls := fmt.Sprintf("%s/b%d/%s", map[bool]string{true: "tampered", false: "clean"}[tampered], b, got)
	if got == "ok" {
		switch {
		case n == b:
			cls += "/full"
		default:
			cls += "/short"
		}
	}
	t.rep.distinct("sc_cases", cls)
	// independent of the specification: what Read hands out is the written stream, in order, nothing else
	if n < 0 || n > b {
		t.fail(si, "property", true, "Read-count-range", fmt.Sprintf("Read returned n=%d for a buffer of %d", n, b), nil, n)
		return false
	}
	if !bytes.Equal(buf[b:], bytes.Repeat([]byte{0xA5}, 8)) {
		t.fail(si, "property", true, "Read-overrun", "Read wrote beyond the buffer it was given", nil, nil)
		return false
	}
	if n > 0 {
		if *delivered+n > s.written || !bytes.Equal(buf[:n], s.stream.Range(*delivered, n)) {
			t.fail(si, "property", true, "StreamIntegrity:bytes",
				fmt.Sprintf("Read returned %d bytes that are not bytes %d.. of the written stream", n, *delivered), nil, nil)
			return false
		}
	}
	if err == nil && n == 0 && b > 0 {
		// bytes may have been consumed although none were reported: look at what the buffer holds
		lost := !bytes.Equal(buf[:b], bytes.Repeat([]byte{0xA5}, b))
		t.fail(si, "property", true, "Read-zero-nil",
			fmt.Sprintf("Read returned (0, nil) for a %d-byte buffer (buffer modified: %v): the reader loses or never gets the bytes", b, lost), wantN, 0)
		return false
	}
	if err != nil && n > 0 {
		t.fail(si, "property", true, "Read-data-with-error", fmt.Sprintf("Read returned %d bytes together with %v", n, err), nil, nil)
		return false
	}
	*delivered += n
	if got == "wouldblock" {
		t.fail(si, "mismatch", false, "Read-wouldblock", "the real reader asked the connection for bytes where the specification serves the leftover buffer or has no frame", wantR, got)
		return false
	}
	if got != wantR {
		switch {
		case wantR == "ok":
			// honest bytes were due: the receiver does not obtain the stream the sender wrote
			key := "Read-error-on-genuine"
			if !tampered && s.rEnd.Seg > 0 {
				key = "StreamIntegrity:fragmented-carrier"
			}
			t.fail(si, "mismatch", true, key, fmt.Sprintf("Read failed (%v) where the next genuine frame / leftover was due; man in the middle acted before: %v; carrier delivers at most %d bytes per Read (0 = unlimited)",
				err, tampered, s.rEnd.Seg), wantR, got)
		case got == "ok":
			t.fail(si, "mismatch", true, "Tamper-accepted", "Read succeeded on a frame that is not the next genuine frame", wantR, got)
		default:
			t.fail(si, "mismatch", false, "Read-error-class", "different error class", wantR, got)
		}
		return false
	}
	if n != wantN {
		// fewer bytes than available is legal for an io.Reader; the model is exact about what the code does
		t.fail(si, "mismatch", false, "Read-count", fmt.Sprintf("Read(%d) returned %d bytes", b, n), wantN, n)
		return false
	}
	return true
}

// consumerPass: the same writes and man-in-the-middle actions, consumed the way a normal reader does
// (io.ReadFull with the behaviour's buffer sizes).  The oracle here is not the specification: it knows the
// written stream, the chunk length of every frame and which frames on the wire are untouched and in order.
func consumerPass(t *tctx, seed uint64, seg int) {
	s, msg, frag := newSession(seed^0xc0ffee, seg)
	if s == nil {
		sessionFailure(t, -1, msg+" (consumer pass)", frag)
		return
	}
	opened, openedBytes, delivered := 0, 0, 0
	touched := false
	avail := func() int {
		a := openedBytes - delivered
		next := opened + 1
		for _, f := range s.m.wire {
			if f.idx != next {
				break
			}
			a += s.m.lens[f.idx-1]
			next++
		}
		return a
	}
	full := func(si, m int) bool {
		buf := make([]byte, m)
		var n int
		var err error
		p, stack := mbt.Catch(func() { n, err = io.ReadFull(s.r, buf) })
		t.rep.checks(2)
		t.rep.count("consumer_readfull")
		if p != nil {
			t.fail(si, "panic", true, "Read-panic", fmt.Sprintf("%v\n%s", p, stack), nil, nil)
			return false
		}
		if err != nil || n != m {
			key := "Consumer:short"
			if err == p2putil.ErrWouldBlock {
				key = "Consumer:lost-bytes"
			}
			if !touched && s.rEnd.Seg > 0 {
				key = "StreamIntegrity:fragmented-carrier"
			}
			t.fail(si, "property", true, key,
				fmt.Sprintf("io.ReadFull(%d bytes) with %d untouched in-order bytes available returned (%d, %v); carrier delivers at most %d bytes per Read (0 = unlimited)", m, m, n, err, s.rEnd.Seg), m, n)
			return false
		}
		if !bytes.Equal(buf, s.stream.Range(delivered, m)) {
			t.fail(si, "property", true, "Consumer:bytes", fmt.Sprintf("io.ReadFull returned bytes that are not bytes %d..%d of the written stream", delivered, delivered+m), nil, nil)
			return false
		}
		delivered += m
		for openedBytes < delivered {
			openedBytes += s.m.lens[opened]
			opened++
		}
		return true
	}
	for si, st := range t.tr.Steps {
		switch {
		case st.A == "Handshake":
		case st.A == "Resegment":
			seg = mbt.Int(st.Args[0])
			s.setSeg(seg)
		case st.A == "Write":
			sz := mbt.Int(st.Args[0])
			n, err, _, _ := s.write(sz)
			if n != sz || err != nil {
				t.fail(si, "mismatch", true, "Write-result", fmt.Sprintf("Write(%d bytes) returned (%d, %v)", sz, n, err), sz, n)
				return
			}
		case isMitmAction(st.A):
			touched = true
			// Replay refers to frames the raw pass had opened; here it may still be unopened, which makes it a duplicate: fine
			if err := s.apply(st.A, st.Args); err != nil {
				return // positions refer to the raw pass's wire; stop when they no longer exist here
			}
		case st.A == "Read" || st.A == "Drain":
			b := mbt.Int(st.Args[0])
			if a := avail(); a > 0 {
				m := b
				if a < m {
					m = a
				}
				if !full(si, m) {
					return
				}
			} else if len(s.m.wire) > 0 || s.m.closed {
				buf := make([]byte, b)
				var n int
				var err error
				p, stack := mbt.Catch(func() { n, err = s.r.Read(buf) })
				t.rep.checks(1)
				if p != nil {
					t.fail(si, "panic", true, "Read-panic", fmt.Sprintf("%v\n%s", p, stack), nil, nil)
					return
				}
				if err == nil || n != 0 {
					t.fail(si, "property", true, "Tamper-accepted",
						fmt.Sprintf("Read returned (%d, %v) although the next frame on the wire is not the next genuine frame", n, err), nil, nil)
					return
				}
				t.rep.count("consumer_errors_seen")
			}
		}
	}
	for a := avail(); a > 0; a = avail() {
		m := a
		if m > 4096 {
			m = 4096
		}
		if !full(len(t.tr.Steps)-1, m) {
			return
		}
	}
	if !touched && delivered != s.written {
		t.fail(len(t.tr.Steps)-1, "property", true, "Consumer:incomplete", "untouched connection: not every written byte reached the reader", s.written, delivered)
	}
	t.rep.count("consumer_passes")
}
