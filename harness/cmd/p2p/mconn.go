package main

// MConn.tla behaviours on a REAL pair of p2p.MConnections.  The behaviour supplies the workload: the
// Send / TrySend steps (channel, exact message size) in order; one goroutine per channel issues them on the
// sending MConnection while the other channels do the same, the receiving MConnection's onReceive / onError
// callbacks record what arrives.  The internal steps of the behaviour (SendPacket / RecvPacket) are scheduled
// by the real send and receive routines; their interleaving is not prescribed (MConn.tla leaves the choice of
// the channel open as well), so what is compared is what MConn.tla's invariants speak about:
//   - PerChannelOrderAndIntegrity, CapacityRespected, NoSpuriousError, OverCapacityIsError, Complete,
//     NothingAfterError, evaluated on the real outcome (accepted = the calls that returned true);
//   - Packetisation, on the packets seen by a tap on the plain connection (cfg.wrap = "plain").
// cfg.wrap = "secret" puts a real SecretConnection pair under the MConnections; cfg.tamper then lets the tap
// flip / drop / duplicate one sealed frame: the receiver must end the connection and deliver nothing further.

import (
	"bytes"
	"fmt"
	"io"
	"net"
	"reflect"
	"sync"
	"sync/atomic"
	"time"

	"github.com/spf13/viper"

	"github.com/dappledger/AnnChain/gemmill/p2p"

	"verifharness/mbt"
	"verifharness/p2putil"
)

const mconnWait = 20 * time.Second

// after this many behaviours with a timeout the remaining MConn behaviours are skipped (each costs the full wait;
// the engine re-runs the first of them in isolation to decide what the timeouts mean)
const mconnMaxTimeouts = 6

var mconnTimeouts int32

type mmsg struct {
	id   int
	size int
}

type recvd struct {
	ch   byte
	data []byte
	at   time.Time
}

type mcOp struct {
	si   int
	try  bool
	size int
	id   int
}

func msgBytes(seed uint64, id, size int) []byte {
	return p2putil.NewStream(seed*1000003+uint64(id)).Range(0, size)
}

// arrayOf wraps bytes in a [n]byte value: go-wire writes a byte array without any prefix, so the message
// accepted by Send is exactly these bytes.
func arrayOf(b []byte) interface{} {
	v := reflect.New(reflect.ArrayOf(len(b), reflect.TypeOf(byte(0)))).Elem()
	reflect.Copy(v, reflect.ValueOf(b))
	return v.Interface()
}

// tap forwards src -> dst and lets see() look at the bytes first (it may rewrite what is forwarded).
// seg > 0 re-segments: dst receives the bytes in pieces of at most seg bytes, so that one Read on the far side of the
// pipe returns at most seg bytes (a TCP carrier may do that at any time).
func tap(src, dst net.Conn, see func([]byte) []byte, wg *sync.WaitGroup, seg int) {
	defer wg.Done()
	buf := make([]byte, 64*1024)
	for {
		n, err := src.Read(buf)
		if n > 0 {
			out := buf[:n]
			if see != nil {
				out = see(append([]byte(nil), out...))
			}
			for len(out) > 0 {
				piece := out
				if seg > 0 && len(piece) > seg {
					piece = piece[:seg]
				}
				if _, werr := dst.Write(piece); werr != nil {
					src.Close()
					return
				}
				out = out[len(piece):]
			}
		}
		if err != nil {
			dst.Close()
			return
		}
	}
}

type pkt struct {
	ch  byte
	eof byte
	n   int
}

// packetParser decodes the plain MConnection byte stream: 0x01 ping, 0x02 pong, 0x03 msgPacket{ChannelID, EOF, Bytes}.
type packetParser struct {
	buf  []byte
	pkts []pkt
	bad  string
	mu   sync.Mutex
}

func (pp *packetParser) feed(b []byte) []byte {
	pp.mu.Lock()
	defer pp.mu.Unlock()
	if pp.bad != "" {
		return b
	}
	pp.buf = append(pp.buf, b...)
	for len(pp.buf) > 0 {
		switch pp.buf[0] {
		case 0x01, 0x02:
			pp.buf = pp.buf[1:]
		case 0x03:
			if len(pp.buf) < 4 {
				return b
			}
			sz := int(pp.buf[3])
			if sz > 8 {
				pp.bad = fmt.Sprintf("varint size byte %#x", pp.buf[3])
				return b
			}
			if len(pp.buf) < 4+sz {
				return b
			}
			l := 0
			for _, x := range pp.buf[4 : 4+sz] {
				l = l<<8 | int(x)
			}
			if len(pp.buf) < 4+sz+l {
				return b
			}
			pp.pkts = append(pp.pkts, pkt{ch: pp.buf[1], eof: pp.buf[2], n: l})
			pp.buf = pp.buf[4+sz+l:]
		default:
			pp.bad = fmt.Sprintf("packet type %#x", pp.buf[0])
			return b
		}
	}
	return b
}

// frameTamper works on the sealed stream of a SecretConnection: after the handshake bytes of this direction it
// counts sealed frames and applies op to frame number at (0-based).
type frameTamper struct {
	skip int // handshake bytes to pass through
	buf  []byte
	k    int
	at   int
	op   string
	done bool
}

func (ft *frameTamper) feed(b []byte) []byte {
	var out []byte
	if ft.skip > 0 {
		n := ft.skip
		if n > len(b) {
			n = len(b)
		}
		out = append(out, b[:n]...)
		b = b[n:]
		ft.skip -= n
	}
	ft.buf = append(ft.buf, b...)
	for len(ft.buf) >= p2putil.SealedSize {
		f := ft.buf[:p2putil.SealedSize]
		ft.buf = ft.buf[p2putil.SealedSize:]
		if ft.k == ft.at {
			ft.done = true
			switch ft.op {
			case "flip":
				f = append([]byte(nil), f...)
				f[20+ft.k%1000] ^= 0x10
				out = append(out, f...)
			case "drop":
			case "dup":
				out = append(out, f...)
				out = append(out, f...)
			}
		} else {
			out = append(out, f...)
		}
		ft.k++
	}
	return out
}

func runMConn(t *tctx) {
	if atomic.LoadInt32(&mconnTimeouts) >= mconnMaxTimeouts && cfgInt(t.tr, "wait_s", 0) == 0 {
		t.rep.count("mc_skipped_after_timeouts")
		return
	}
	runMConn1(t)
}

func runMConn1(t *tctx) {
	seed := uint64(cfgInt(t.tr, "seed", 1))
	wrap := cfgStr(t.tr, "wrap", "plain")
	caps := map[byte]int{}
	for k, v := range t.tr.Cfg["Cap"].(map[string]interface{}) {
		var id int
		fmt.Sscanf(k, "%d", &id)
		caps[byte(id)] = mbt.Int(v)
	}
	selftest := cfgStr(t.tr, "selftest", "")
	mconnWait := mconnWait
	if w := cfgInt(t.tr, "wait_s", 0); w > 0 {
		mconnWait = time.Duration(w) * time.Second
	}
	var tamper map[string]interface{}
	if v, ok := t.tr.Cfg["tamper"].(map[string]interface{}); ok {
		tamper = v
	}
	// the workload
	ops := map[byte][]mcOp{}
	var chans []byte
	nid := 0
	for si, st := range t.tr.Steps {
		if st.A != "Send" && st.A != "TrySend" {
			continue
		}
		nid++
		c := byte(mbt.Int(st.Args[0]))
		if _, ok := ops[c]; !ok {
			chans = append(chans, c)
		}
		ops[c] = append(ops[c], mcOp{si: si, try: st.A == "TrySend", size: mbt.Int(st.Args[1]), id: nid})
		t.rep.distinct("mc_cases", fmt.Sprintf("%s/ch%d/%d", st.A, c, mbt.Int(st.Args[1])))
	}
	t.rep.steps(nid)
	if nid == 0 {
		return
	}
	conf := viper.New()
	p2p.NewSwitch(conf) // installs the p2p defaults (send_rate, recv_rate, ...) into conf
	if r := cfgInt(t.tr, "rate", 0); r > 0 {
		conf.Set("send_rate", r)
		conf.Set("recv_rate", r)
	}
	var descs []*p2p.ChannelDescriptor
	for c, capc := range caps {
		descs = append(descs, &p2p.ChannelDescriptor{ID: c, Priority: 1 + int(c)*4, SendQueueCapacity: 1, RecvMessageCapacity: capc})
	}
	// sender <-> (tap) <-> receiver
	s1, s2 := net.Pipe()
	r1, r2 := net.Pipe()
	var wg sync.WaitGroup
	pp := &packetParser{}
	var ft *frameTamper
	var see func([]byte) []byte
	if wrap == "plain" {
		see = pp.feed
	} else if tamper != nil {
		ft = &frameTamper{skip: p2putil.EphKeySize + p2putil.AuthBlobLen, at: mbt.Int(tamper["frame"]), op: mbt.Str(tamper["op"])}
		see = ft.feed
	}
	wg.Add(2)
	seg := cfgInt(t.tr, "seg", 0)
	go tap(s2, r1, see, &wg, seg)
	go tap(r1, s2, nil, &wg, seg)
	var sconn, rconn net.Conn = s1, r2
	if wrap != "plain" {
		type res struct {
			sc  *p2p.SecretConnection
			err error
		}
		// a side whose handshake fails returns while the other may still wait for bytes: a deadline, and closing both
		// ends at the first failure, keep that from hanging
		s1.SetDeadline(time.Now().Add(30 * time.Second))
		r2.SetDeadline(time.Now().Add(30 * time.Second))
		chS, chR := make(chan res, 1), make(chan res, 1)
		go func() { sc, err := p2p.MakeSecretConnection(s1, keyA); chS <- res{sc, err} }()
		go func() { sc, err := p2p.MakeSecretConnection(r2, keyB); chR <- res{sc, err} }()
		var sr, rr res
		for i := 0; i < 2; i++ {
			select {
			case sr = <-chS:
				if sr.err != nil {
					s1.Close()
					r2.Close()
				}
			case rr = <-chR:
				if rr.err != nil {
					s1.Close()
					r2.Close()
				}
			}
		}
		s1.SetDeadline(time.Time{})
		r2.SetDeadline(time.Time{})
		if sr.err != nil || rr.err != nil {
			key := "Handshake:untouched-failed"
			if seg > 0 {
				key = "StreamIntegrity:fragmented-carrier"
			}
			t.fail(-1, "mismatch", true, key, fmt.Sprintf("handshake under the MConnections failed: %v / %v (carrier delivers at most %d bytes per Read; 0 = unlimited)", sr.err, rr.err, seg), nil, nil)
			s1.Close()
			r2.Close()
			return
		}
		sconn, rconn = sr.sc, rr.sc
	}
	var mu sync.Mutex
	var got []recvd
	var rerr interface{}
	var rerrAt time.Time
	onRecv := func(ch byte, b []byte) {
		cp := append([]byte(nil), b...) // the slice is the channel's reassembly buffer: a receiver must consume it before returning
		mu.Lock()
		if selftest == "flip-received" && len(got) == 0 && len(cp) > 0 {
			cp[len(cp)/2] ^= 0x40 // binding self-test: the comparison below must notice
		}
		got = append(got, recvd{ch, cp, time.Now()})
		mu.Unlock()
	}
	onErr := func(r interface{}) {
		mu.Lock()
		if rerr == nil {
			rerr = r
			rerrAt = time.Now()
		}
		mu.Unlock()
	}
	var serr interface{}
	sender := p2p.NewMConnection(conf, sconn, descs, func(byte, []byte) {}, func(r interface{}) { mu.Lock(); serr = r; mu.Unlock() })
	receiver := p2p.NewMConnection(conf, rconn, descs, onRecv, onErr)
	sender.Start()
	receiver.Start()
	defer func() {
		sender.Stop()
		receiver.Stop()
		s1.Close()
		s2.Close()
		r1.Close()
		r2.Close()
		wg.Wait()
	}()
	// one goroutine per channel issues that channel's calls in order
	accepted := map[byte][]mmsg{}
	var amu sync.Mutex
	var swg sync.WaitGroup
	var panics []string
	for _, c := range chans {
		swg.Add(1)
		go func(c byte) {
			defer swg.Done()
			for _, op := range ops[c] {
				msg := arrayOf(msgBytes(seed, op.id, op.size))
				var ok bool
				p, stack := mbt.Catch(func() {
					if op.try {
						ok = sender.TrySend(c, msg)
					} else {
						ok = sender.Send(c, msg)
					}
				})
				amu.Lock()
				if p != nil {
					panics = append(panics, fmt.Sprintf("%v\n%s", p, stack))
				}
				if ok {
					accepted[c] = append(accepted[c], mmsg{op.id, op.size})
				}
				amu.Unlock()
			}
		}(c)
	}
	sdone := make(chan struct{})
	go func() { swg.Wait(); close(sdone) }()
	select {
	case <-sdone:
	case <-time.After(mconnWait + 15*time.Second):
		atomic.AddInt32(&mconnTimeouts, 1)
		t.fail(-1, "timeout", false, "timeout:mconn-send", "Send calls did not return", nil, nil)
		return
	}
	if len(panics) > 0 {
		t.fail(-1, "panic", true, "Send-panic", panics[0], nil, nil)
		return
	}
	// what must happen
	overcap := false
	total := 0
	for c, ms := range accepted {
		for _, m := range ms {
			total++
			if m.size > caps[c] {
				overcap = true
			}
		}
	}
	expectErr := overcap || tamper != nil
	deadline := time.Now().Add(mconnWait)
	for {
		mu.Lock()
		n, e := len(got), rerr
		mu.Unlock()
		if (expectErr && e != nil) || (!expectErr && n >= total) || (e != nil) {
			break
		}
		if time.Now().After(deadline) {
			break
		}
		time.Sleep(3 * time.Millisecond)
	}
	time.Sleep(30 * time.Millisecond) // anything delivered in excess or after the error would show up now
	mu.Lock()
	gotC := append([]recvd(nil), got...)
	e, eAt := rerr, rerrAt
	mu.Unlock()
	t.rep.checks(3 + len(gotC))
	t.rep.add("mc_messages_accepted", total)
	t.rep.add("mc_messages_delivered", len(gotC))
	// PerChannelOrderAndIntegrity / CapacityRespected / NothingAfterError
	idx := map[byte]int{}
	for _, g := range gotC {
		acc := accepted[g.ch]
		i := idx[g.ch]
		if i >= len(acc) {
			t.fail(-1, "property", true, "PerChannelOrder:extra", fmt.Sprintf("channel %d: a message of %d bytes arrived that was never accepted (or arrived twice)", g.ch, len(g.data)), nil, nil)
			return
		}
		want := msgBytes(seed, acc[i].id, acc[i].size)
		if !bytes.Equal(g.data, want) {
			kind := "modified"
			if len(g.data) != len(want) {
				kind = fmt.Sprintf("has %d bytes instead of %d", len(g.data), len(want))
			}
			key := "PerChannelOrder:content"
			if acc[i].size == 0 {
				key = "PerChannelOrder:empty-message-lost"
			}
			t.fail(-1, "property", true, key, fmt.Sprintf("channel %d: message #%d (size %d) arrived %s or out of order", g.ch, i+1, acc[i].size, kind), acc[i].size, len(g.data))
			return
		}
		if len(g.data) > caps[g.ch] {
			t.fail(-1, "property", true, "Capacity:delivered-over", fmt.Sprintf("channel %d delivered %d bytes, capacity %d", g.ch, len(g.data), caps[g.ch]), caps[g.ch], len(g.data))
			return
		}
		if e != nil && g.at.After(eAt.Add(5*time.Millisecond)) {
			t.fail(-1, "property", true, "NothingAfterError", fmt.Sprintf("channel %d delivered a message after the connection reported an error", g.ch), nil, nil)
			return
		}
		idx[g.ch] = i + 1
	}
	switch {
	case tamper != nil:
		if ft != nil && !ft.done {
			t.rep.count("mc_tamper_not_reached")
			if e != nil {
				t.fail(-1, "property", true, "NoSpuriousError", fmt.Sprintf("receiver reported %v although no frame was touched", e), nil, nil)
			} else if len(gotC) < total {
				atomic.AddInt32(&mconnTimeouts, 1)
				t.fail(-1, "timeout", true, "Complete:timeout", fmt.Sprintf("%d of %d accepted messages arrived within %v", len(gotC), total, mconnWait), total, len(gotC))
			}
			return
		}
		t.rep.count("mc_tampered_runs")
		if e == nil && ft != nil && ft.op == "drop" && ft.k <= ft.at+1 {
			// the dropped frame was the last one so far: nothing has arrived yet that could reveal the gap
			t.rep.count("mc_drop_of_last_frame")
		} else if e == nil {
			// a dropped / duplicated / flipped frame that the receiver swallowed
			t.fail(-1, "property", true, "Tamper-not-detected:"+mbt.Str(tamper["op"]),
				fmt.Sprintf("sealed frame %d was %s; the receiving MConnection reported no error within %v", mbt.Int(tamper["frame"]), mbt.Str(tamper["op"]), mconnWait), nil, nil)
		}
	case overcap:
		// the first over-capacity message of a channel and everything behind it on that channel must not arrive
		for c, ms := range accepted {
			for i, m := range ms {
				if m.size > caps[c] && idx[c] > i {
					t.fail(-1, "property", true, "Capacity:delivered-over", fmt.Sprintf("channel %d delivered a message of %d bytes, capacity %d", c, m.size, caps[c]), nil, nil)
					return
				}
			}
		}
		if e == nil {
			atomic.AddInt32(&mconnTimeouts, 1)
			t.fail(-1, "timeout", true, "OverCapacity:no-error", fmt.Sprintf("a message over the capacity was accepted for sending but the receiver reported no error within %v", mconnWait), "error", "none")
		} else {
			t.rep.count("mc_overcap_errors")
		}
	default:
		if e != nil {
			key := "NoSpuriousError"
			if seg > 0 && wrap != "plain" {
				key = "StreamIntegrity:fragmented-carrier"
			}
			t.fail(-1, "property", true, key, fmt.Sprintf("receiver reported %v although every accepted message fits the capacity (carrier delivers at most %d bytes per Read; 0 = unlimited)", e, seg), nil, fmt.Sprint(e))
			return
		}
		if len(gotC) < total {
			miss := ""
			for c, ms := range accepted {
				if idx[c] < len(ms) {
					miss += fmt.Sprintf(" ch%d:#%d(size %d)", c, idx[c]+1, ms[idx[c]].size)
				}
			}
			atomic.AddInt32(&mconnTimeouts, 1)
			t.fail(-1, "timeout", true, "Complete:timeout", fmt.Sprintf("%d of %d accepted messages arrived within %v; first missing:%s", len(gotC), total, mconnWait, miss), total, len(gotC))
			return
		}
		mu.Lock()
		se := serr
		mu.Unlock()
		if se != nil {
			t.fail(-1, "property", true, "NoSpuriousError", fmt.Sprintf("sender reported %v", se), nil, nil)
		}
	}
	// Packetisation on the plain wire
	if wrap == "plain" {
		pp.mu.Lock()
		pk, bad := append([]pkt(nil), pp.pkts...), pp.bad
		pp.mu.Unlock()
		if bad != "" {
			t.fail(-1, "mismatch", false, "Packetisation:parse", "tap could not parse the packet stream: "+bad, nil, nil)
			return
		}
		cur := map[byte]int{}  // index of the message being sent per channel
		left := map[byte]int{} // bytes of it not yet seen
		started := map[byte]bool{}
		for _, p := range pk {
			acc := accepted[p.ch]
			if !started[p.ch] {
				if cur[p.ch] >= len(acc) {
					t.fail(-1, "mismatch", false, "Packetisation:extra", fmt.Sprintf("packet on channel %d beyond the accepted messages", p.ch), nil, nil)
					return
				}
				left[p.ch] = acc[cur[p.ch]].size
				started[p.ch] = true
			}
			wantN := left[p.ch]
			if wantN > 1024 {
				wantN = 1024
			}
			wantEOF := byte(0)
			if left[p.ch] <= 1024 {
				wantEOF = 1
			}
			t.rep.checks(1)
			if p.n != wantN || p.eof != wantEOF {
				t.fail(-1, "mismatch", false, "Packetisation:cut", fmt.Sprintf("channel %d message of %d bytes: packet with %d bytes EOF=%d where %d bytes EOF=%d are due",
					p.ch, acc[cur[p.ch]].size, p.n, p.eof, wantN, wantEOF), nil, nil)
				return
			}
			left[p.ch] -= p.n
			if p.eof == 1 {
				cur[p.ch]++
				started[p.ch] = false
			}
		}
		t.rep.add("mc_packets_checked", len(pk))
	}
	_ = io.EOF
}
