package main

// Admission.tla behaviours on a REAL node assembly: the Switch comes from the production prepareP2P (listener,
// NodeInfo, node key, refuse-list filter; hook gemmill.VerifPrepareP2P), the rest of the node from the
// production buildState -> assembleStateMachine (hook gemmill.VerifAsmNew), which is where authByCA is installed
// over &State.Validators when auth_by_ca is set.  Validator-set changes are applied to that State the way
// ExecBlock does (copy, Add/Remove/Update, IncrementAccum, SetBlockAndValidators); refuse-list changes go to the
// node's RefuseList as the admin plugin does.  Every Connect step is one real connection attempt: the driver is
// the remote peer (real MakeSecretConnection with the key it authenticates as, then NodeInfo and ExchangeData on
// the wire), the node runs Switch.AddPeerWithConnection.  cfg.path = "listener" sends the attempts through the
// node's real TCP listener and listenerRoutine instead of calling AddPeerWithConnection directly.
//
// Compared: the outcome class with the specification, and -- independent of it -- for every admitted peer the
// property itself, recomputed from the node's live refuse list, live validator set and the signature bytes.

import (
	"encoding/hex"
	"fmt"
	"net"
	"os"
	"path/filepath"
	"strings"
	"time"

	"github.com/spf13/viper"

	"github.com/dappledger/AnnChain/eth/common"
	"github.com/dappledger/AnnChain/gemmill"
	"github.com/dappledger/AnnChain/gemmill/archive"
	"github.com/dappledger/AnnChain/gemmill/config"
	crypto "github.com/dappledger/AnnChain/gemmill/go-crypto"
	wire "github.com/dappledger/AnnChain/gemmill/go-wire"
	gcmn "github.com/dappledger/AnnChain/gemmill/modules/go-common"
	dbm "github.com/dappledger/AnnChain/gemmill/modules/go-db"
	"github.com/dappledger/AnnChain/gemmill/p2p"
	"github.com/dappledger/AnnChain/gemmill/refuse_list"
	"github.com/dappledger/AnnChain/gemmill/state"
	"github.com/dappledger/AnnChain/gemmill/types"

	"verifharness/mbt"
)

// stubApp is the smallest types.Application: admission never calls into the application.
type stubApp struct{}

func (stubApp) GetAngineHooks() types.Hooks { return types.Hooks{} }
func (stubApp) CompatibleWithAngine()       {}
func (stubApp) CheckTx(bs []byte) (common.Address, uint64, error) {
	return common.Address{}, 0, nil
}
func (stubApp) Query([]byte) types.Result { return types.Result{} }
func (stubApp) Info() types.ResultInfo    { return types.ResultInfo{} }
func (stubApp) Start() error              { return nil }
func (stubApp) Stop()                     {}
func (stubApp) SetCore(types.Core)        {}

func nodeKey(name string) crypto.PrivKeyEd25519 {
	return crypto.GenPrivKeyEd25519FromSecret([]byte("verif-p2p-node-" + name))
}

func pubBytes(k crypto.PubKey) []byte {
	e := k.(crypto.PubKeyEd25519)
	return append([]byte(nil), e[:]...)
}

type admNode struct {
	conf   *viper.Viper
	sw     *p2p.Switch
	st     *state.State
	rl     *refuse_list.RefuseList
	keys   map[string]crypto.PrivKeyEd25519
	self   string
	height int64
	listen string
}

func strSet(v interface{}) map[string]bool {
	m := map[string]bool{}
	for _, x := range v.([]interface{}) {
		m[x.(string)] = true
	}
	return m
}

func newAdmNode(t *tctx, dir string, light bool) (*admNode, error) {
	init := t.tr.Init
	n := &admNode{keys: map[string]crypto.PrivKeyEd25519{}, self: cfgStr(t.tr, "Self", "N")}
	for _, k := range t.tr.Cfg["Keys"].([]interface{}) {
		n.keys[k.(string)] = nodeKey(k.(string))
	}
	vals, cas := strSet(init["vals"]), strSet(init["cas"])
	conf := config.DefaultConfig()
	config.SetDefaults(dir, conf)
	conf.Set("db_backend", "memdb")
	conf.Set("pex_reactor", false)
	conf.Set("p2p_laddr", "tcp://127.0.0.1:0")
	conf.Set("rpc_laddr", "")
	conf.Set("environment", "development")
	conf.Set("log_path", filepath.Join(dir, "log"))
	conf.Set("auth_by_ca", init["authByCA"].(bool))
	conf.Set("non_validator_node_auth", init["nva"].(bool))
	conf.Set("handshake_timeout_seconds", 60)
	n.conf = conf
	if err := os.MkdirAll(filepath.Join(dir, "data"), 0700); err != nil {
		return nil, err
	}
	gen := &types.GenesisDoc{GenesisTime: time.Unix(1500000000, 0), ChainID: "verif-p2p"}
	for _, name := range []string{"N", "C", "V", "P", "Q"} {
		if vals[name] {
			gen.Validators = append(gen.Validators, types.GenesisValidator{PubKey: n.keys[name].PubKey(), Amount: 10, Name: name, IsCA: cas[name]})
		}
	}
	pv, err := types.GenPrivValidator(crypto.CryptoTypeZhongAn, n.keys[n.self])
	if err != nil {
		return nil, err
	}
	dbDir := conf.GetString("db_dir")
	n.rl = refuse_list.NewRefuseList("memdb", dbDir)
	n.sw, err = gemmill.VerifPrepareP2P(conf, gen, pv, n.rl)
	if err != nil {
		return nil, fmt.Errorf("prepareP2P: %v", err)
	}
	if light {
		// only what admission needs: no reactors, so that the Switch can be started for its listenerRoutine.
		// The closure is installed with the statement assembleStateMachine uses.
		n.st = state.MakeGenesisState(dbm.NewDB("state", "memdb", dbDir), gen)
		if conf.GetBool("auth_by_ca") {
			n.sw.SetAuthByCA(gemmill.VerifAuthByCA(conf, &n.st.Validators))
		}
	} else {
		dbs := map[string]dbm.DB{
			"state":       dbm.NewDB("state", "memdb", dbDir),
			"blockstore":  dbm.NewDB("blockstore", "memdb", dbDir),
			"archive":     dbm.NewDB("blockstore", "memdb", conf.GetString("db_archive_dir")),
			"votechannel": dbm.NewDB("votechannel", "memdb", dbDir),
		}
		ang, err := gemmill.VerifAsmNew(stubApp{}, &gemmill.VerifAsmParts{Conf: conf, Genesis: gen, PrivValidator: pv, Switch: n.sw,
			DBs: dbs, RefuseList: n.rl, Archive: archive.NewArchive("memdb", dbDir, 0)})
		if err != nil {
			return nil, fmt.Errorf("assembly: %v", err)
		}
		n.st = ang.VerifAsmState()
		if n.st == nil {
			return nil, fmt.Errorf("state machine not assembled")
		}
	}
	if ls := n.sw.Listeners(); len(ls) > 0 {
		n.listen = fmt.Sprintf("127.0.0.1:%d", ls[0].ExternalAddress().Port)
	}
	return n, nil
}

func (n *admNode) close() {
	for _, l := range n.sw.Listeners() {
		l.Stop()
	}
}

// changeValidators does what ExecBlock does around EndBlock.
func (n *admNode) changeValidators(mut func(next *types.ValidatorSet) bool) bool {
	valSet := n.st.Validators.Copy()
	next := valSet.Copy()
	ok := mut(next)
	next.IncrementAccum(1)
	n.height++
	n.st.SetBlockAndValidators(&types.Header{ChainID: n.st.ChainID, Height: n.height, Time: time.Unix(1500000000+n.height, 0)}, types.PartSetHeader{}, valSet, next)
	return ok
}

type attempt struct {
	auth, ann, signer, over string
}

func (n *admNode) signature(a attempt) string {
	switch a.signer {
	case "none":
		return ""
	case "malformed":
		return "this is not hex"
	}
	var msg []byte
	if a.ann != "nil" {
		msg = pubBytes(n.keys[a.ann].PubKey())
	}
	if a.over == "other" {
		// a genuine signature of the same signer over something that is not the announced key
		other := a.auth
		if other == a.ann {
			other = a.signer
		}
		if other == a.ann {
			for k := range n.keys {
				if k != a.ann {
					other = k
				}
			}
		}
		msg = append(pubBytes(n.keys[other].PubKey()), byte(len(a.ann)))
	}
	return types.SignCA(n.keys[a.signer], msg)
}

// remote plays the connecting peer on conn.
func (n *admNode) remote(conn net.Conn, a attempt, done chan<- string) {
	conn.SetDeadline(time.Now().Add(90 * time.Second))
	sc, err := p2p.MakeSecretConnection(conn, n.keys[a.auth])
	if err != nil {
		done <- "handshake: " + err.Error()
		return
	}
	ni := &p2p.NodeInfo{SigndPubKey: n.signature(a), Moniker: "peer-" + a.auth, Network: "verif-p2p", Version: "0.9.0", ListenAddr: "127.0.0.1:1"}
	if a.ann != "nil" {
		ni.PubKey = n.keys[a.ann].PubKey()
	}
	var e1, e2, e3, e4 error
	gcmn.Parallel(func() { var c int; wire.WriteBinary(ni, sc, &c, &e1) },
		func() { var c int; wire.ReadBinary(new(p2p.NodeInfo), sc, 10240, &c, &e2) })
	if e1 == nil && e2 == nil {
		gcmn.Parallel(func() { var c int; wire.WriteBinary(&p2p.ExchangeData{}, sc, &c, &e3) },
			func() { var c int; wire.ReadBinary(new(p2p.ExchangeData), sc, 10240, &c, &e4) })
	}
	if e1 != nil || e2 != nil || e3 != nil || e4 != nil {
		done <- "closed"
		return
	}
	done <- "exchanged"
	// admitted: the node keeps the connection open (its MConnection is silent until the first ping);
	// refused: the node closes it, which this read reports
	one := make([]byte, 1)
	if _, err = sc.Read(one); err != nil {
		done <- "closed"
	}
}

func classifyAdm(err error) string {
	if err == nil {
		return "admitted"
	}
	s := err.Error()
	switch {
	case strings.Contains(s, "in refuselist"):
		return "refused:refuselist"
	case strings.Contains(s, "announcing no pubkey"):
		return "refused:nokey"
	case strings.Contains(s, "REJECT! No peers with valid CA"), strings.Contains(s, "encoding/hex"):
		return "refused:ca"
	case strings.Contains(s, "unmatching pubkey"):
		return "refused:mismatch"
	case strings.Contains(s, "connection from self"):
		return "refused:self"
	}
	return "refused:other:" + s
}

// oracle recomputes the property for an admitted peer from the node's live data.
func (n *admNode) oracle(a attempt, peer *p2p.Peer) string {
	authPub := n.keys[a.auth].PubKey()
	if n.rl.QueryRefuseKey(authPub.Bytes()) {
		return "its authenticated key is on the refuse list"
	}
	if peer.NodeInfo.PubKey == nil || !peer.NodeInfo.PubKey.Equals(authPub) {
		return "its announced key is not the key it authenticated with"
	}
	if !n.conf.GetBool("auth_by_ca") {
		return ""
	}
	cur := n.st.Validators
	if cur.HasAddress(authPub.Address()) && !n.conf.GetBool("non_validator_node_auth") {
		return "" // CA admission does not apply to a current validator when non_validator_node_auth is off
	}
	raw, err := hex.DecodeString(peer.NodeInfo.SigndPubKey)
	if err != nil || len(raw) < 64 {
		return "CA admission applies and it carries no well-formed signature"
	}
	var sig crypto.SignatureEd25519
	copy(sig[:], raw)
	for _, v := range cur.Validators {
		if v.IsCA && v.PubKey.VerifyBytes(pubBytes(authPub), sig) {
			return ""
		}
	}
	return "CA admission applies and no CURRENT authority's key verifies its signature"
}

func runAdmission(t *tctx) {
	dir := filepath.Join(tmpBase, fmt.Sprintf("adm-%d", t.ti))
	viaListener := cfgStr(t.tr, "path", "direct") == "listener"
	node, err := newAdmNode(t, dir, viaListener)
	if err != nil {
		t.fail(-1, "error", false, "assembly", "node assembly failed: "+err.Error(), nil, nil)
		return
	}
	defer node.close()
	if viaListener {
		if _, err := node.sw.Start(); err != nil {
			t.fail(-1, "error", false, "assembly", "switch start failed: "+err.Error(), nil, nil)
			return
		}
		defer node.sw.Stop()
	}
	for si, st := range t.tr.Steps {
		t.rep.steps(1)
		switch st.A {
		case "AddVal":
			k, ca := mbt.Str(st.Args[0]), st.Args[1].(bool)
			if !node.changeValidators(func(next *types.ValidatorSet) bool {
				return next.Add(types.NewValidator(node.keys[k].PubKey(), 10, ca))
			}) {
				t.fail(si, "error", false, "valset-change", "ValidatorSet.Add refused", nil, nil)
				return
			}
		case "RemoveVal":
			k := mbt.Str(st.Args[0])
			if !node.changeValidators(func(next *types.ValidatorSet) bool {
				_, ok := next.Remove(node.keys[k].PubKey().Address())
				return ok
			}) {
				t.fail(si, "error", false, "valset-change", "ValidatorSet.Remove refused", nil, nil)
				return
			}
		case "SetCA":
			k, ca := mbt.Str(st.Args[0]), st.Args[1].(bool)
			if !node.changeValidators(func(next *types.ValidatorSet) bool {
				return next.Update(types.NewValidator(node.keys[k].PubKey(), 10, ca))
			}) {
				t.fail(si, "error", false, "valset-change", "ValidatorSet.Update refused", nil, nil)
				return
			}
		case "AddRefuse":
			node.rl.AddRefuseKey(node.keys[mbt.Str(st.Args[0])].PubKey().Bytes())
		case "DelRefuse":
			node.rl.DeleteRefuseKey(node.keys[mbt.Str(st.Args[0])].PubKey().Bytes())
		case "Connect":
			a := attempt{mbt.Str(st.Args[0]), mbt.Str(st.Args[1]), mbt.Str(st.Args[2]), mbt.Str(st.Args[3])}
			want := mbt.Str(st.Args[4])
			if viaListener {
				if !node.connectViaListener(t, si, a, want) {
					return
				}
			} else if !node.connectDirect(t, si, a, want) {
				return
			}
		default:
			t.fail(si, "error", false, "unknown-action", "unknown action "+st.A, nil, nil)
			return
		}
		// the node's view of what the decision depends on, against the specification
		if st.A != "Connect" {
			t.rep.checks(1)
			gotVals, gotCAs := map[string]bool{}, map[string]bool{}
			for name, k := range node.keys {
				if _, v := node.st.Validators.GetByAddress(k.PubKey().Address()); v != nil {
					gotVals[name] = true
					if v.IsCA {
						gotCAs[name] = true
					}
				}
			}
			if fmt.Sprint(gotVals) != fmt.Sprint(strSet(st.Post["vals"])) || fmt.Sprint(gotCAs) != fmt.Sprint(strSet(st.Post["cas"])) {
				t.fail(si, "mismatch", false, "valset-state", "validator set after the change differs from the specification", st.Post["vals"], fmt.Sprint(gotVals, gotCAs))
				return
			}
		}
	}
}

func (n *admNode) judge(t *tctx, si int, a attempt, want, got string, peer *p2p.Peer, panicked interface{}, stack string) bool {
	t.rep.checks(3)
	changed := "same-set"
	if n.height > 0 {
		changed = "changed-set"
	}
	t.rep.distinct("adm_rows", fmt.Sprintf("%v/%v/%s/%s/%s/%s/%s/%s", n.conf.GetBool("auth_by_ca"), n.conf.GetBool("non_validator_node_auth"), changed, a.auth, a.ann, a.signer, a.over, got))
	if panicked != nil {
		t.fail(si, "panic", true, "AddPeer-panic:ann="+map[bool]string{true: "nil", false: "key"}[a.ann == "nil"],
			fmt.Sprintf("AddPeerWithConnection panicked: %v\n%s", panicked, stack), want, "panic")
		return false
	}
	key := n.keys[a.auth].PubKey().KeyString()
	inSet := n.sw.Peers().Has(key)
	if got == "admitted" {
		t.rep.count("adm_admitted")
		if why := n.oracle(a, peer); why != "" {
			t.fail(si, "property", true, "Admitted:"+map[string]string{
				"its authenticated key is on the refuse list":                                "refuselisted",
				"its announced key is not the key it authenticated with":                     "identity-mismatch",
				"CA admission applies and it carries no well-formed signature":               "no-signature",
				"CA admission applies and no CURRENT authority's key verifies its signature": "no-current-authority"}[why],
				fmt.Sprintf("peer %s (announcing %s, signature by %s over %s) was admitted although %s", a.auth, a.ann, a.signer, a.over, why), want, got)
			n.dropPeers()
			return false
		}
		if !inSet {
			t.fail(si, "mismatch", false, "peerset", "AddPeerWithConnection returned a peer that is not in Peers()", true, false)
		}
	} else {
		t.rep.count("adm_refused")
		if inSet {
			t.fail(si, "property", true, "Refused-but-in-peerset", fmt.Sprintf("attempt was refused (%s) but the key is in Peers()", got), false, true)
			n.dropPeers()
			return false
		}
	}
	n.dropPeers()
	if got != want {
		switch {
		case got == "admitted":
			// the oracle above found nothing wrong with the peer: the specification is stricter than the property here
			t.fail(si, "mismatch", false, "Admission:spec-refuses:"+want, "the node admitted a peer the specification refuses", want, got)
		case want == "admitted":
			t.fail(si, "mismatch", false, "Admission:node-refuses:"+got, "the node refused a peer the specification admits", want, got)
		default:
			t.fail(si, "mismatch", false, "Admission:reason:"+want+":"+got, "refused for a different reason", want, got)
		}
		return false
	}
	return true
}

func (n *admNode) dropPeers() {
	for _, p := range n.sw.Peers().List() {
		mbt.Catch(func() { n.sw.StopPeerGracefully(p) })
	}
}

func (n *admNode) connectDirect(t *tctx, si int, a attempt, want string) bool {
	c1, c2 := net.Pipe()
	rdone := make(chan string, 3)
	go n.remote(c2, a, rdone)
	type res struct {
		peer  *p2p.Peer
		err   error
		p     interface{}
		stack string
	}
	ch := make(chan res, 1)
	go func() {
		var r res
		r.p, r.stack = mbt.Catch(func() { r.peer, r.err = n.sw.AddPeerWithConnection(c1, false) })
		ch <- r
	}()
	var r res
	select {
	case r = <-ch:
	case <-time.After(120 * time.Second):
		c1.Close()
		c2.Close()
		t.fail(si, "timeout", false, "timeout:admission", "AddPeerWithConnection did not return", nil, nil)
		return false
	}
	got := classifyAdm(r.err)
	if r.p != nil {
		got = "panic"
	}
	ok := n.judge(t, si, a, want, got, r.peer, r.p, r.stack)
	c1.Close()
	c2.Close()
	return ok
}

// connectViaListener dials the node's real listener (listenerRoutine -> AddPeerWithConnection); the outcome is
// what the remote side and Peers() show: refused = the node closed the connection, admitted = the key is in Peers().
func (n *admNode) connectViaListener(t *tctx, si int, a attempt, want string) bool {
	conn, err := net.DialTimeout("tcp", n.listen, 10*time.Second)
	if err != nil {
		t.fail(si, "error", false, "dial", "cannot dial the node's listener: "+err.Error(), nil, nil)
		return false
	}
	defer conn.Close()
	rdone := make(chan string, 3)
	go n.remote(conn, a, rdone)
	key := n.keys[a.auth].PubKey().KeyString()
	got := ""
	deadline := time.Now().Add(120 * time.Second)
	for got == "" {
		select {
		case seen := <-rdone:
			if seen != "exchanged" {
				got = "refused"
			}
		default:
		}
		if got == "" && n.sw.Peers().Has(key) {
			got = "admitted"
		}
		if got == "" {
			if time.Now().After(deadline) {
				t.fail(si, "timeout", false, "timeout:admission", "neither admitted nor refused through the listener", nil, nil)
				return false
			}
			time.Sleep(time.Millisecond)
		}
	}
	var peer *p2p.Peer
	if got == "admitted" {
		peer = n.sw.Peers().Get(key)
	} else if want != "admitted" {
		got = want // the reason is not visible from outside: compare admitted / refused only
	} else {
		got = "refused:unknown"
	}
	t.rep.count("adm_via_listener")
	return n.judge(t, si, a, want, got, peer, nil, "")
}
