// Replays behaviours of specs/heightvoteset/HeightVoteSet.tla on the real pbft.HeightVoteSet (slice of C15):
// AddVote(peer, round, type, validator, block, class) with the reply class, SetRound(r); after every step the
// existing rounds, every vote slot, every majority and POLInfo are compared with the specification.
//
// usage: hvs <traces.json>   (cfg: N, Power, Blocks, Peers, MaxRound)
package main

import (
	"bytes"
	"fmt"
	"os"
	"sort"

	"go.uber.org/zap"

	"github.com/dappledger/AnnChain/gemmill/consensus/pbft"
	crypto "github.com/dappledger/AnnChain/gemmill/go-crypto"
	glog "github.com/dappledger/AnnChain/gemmill/modules/go-log"
	"github.com/dappledger/AnnChain/gemmill/types"

	"verifharness/mbt"
)

const chainID = "verif-chain"

type env struct {
	n      int
	privs  []crypto.PrivKeyEd25519
	valSet *types.ValidatorSet
	total  int64
	power  []int64
	height int64
	blocks map[string]types.BlockID
	name   map[string]string
}

func mkBlockID(name string) types.BlockID {
	if name == "nil" {
		return types.BlockID{}
	}
	h := bytes.Repeat([]byte(name[:1]), 20)
	ph := bytes.Repeat([]byte(name[:1]), 20)
	ph[0] = 'p'
	return types.BlockID{Hash: h, PartsHeader: types.PartSetHeader{Total: 1 + int(name[0])%3, Hash: ph}}
}

func newEnv(cfg map[string]interface{}, variant int) *env {
	e := &env{height: 1 + int64(variant%3), blocks: map[string]types.BlockID{}, name: map[string]string{}}
	e.n = mbt.Int(cfg["N"])
	for _, p := range cfg["Power"].([]interface{}) {
		e.power = append(e.power, int64(mbt.Int(p)))
	}
	type kv struct {
		priv crypto.PrivKeyEd25519
		addr []byte
	}
	var ks []kv
	for i := 0; i < e.n; i++ {
		pk := crypto.GenPrivKeyEd25519FromSecret([]byte(fmt.Sprintf("verif-hvs-%d-%d", variant%5, i)))
		ks = append(ks, kv{pk, pk.PubKey().Address()})
	}
	sort.Slice(ks, func(a, b int) bool { return bytes.Compare(ks[a].addr, ks[b].addr) < 0 })
	vals := make([]*types.Validator, e.n)
	for i, k := range ks {
		e.privs = append(e.privs, k.priv)
		vals[i] = types.NewValidator(k.priv.PubKey(), e.power[i], true)
		e.total += e.power[i]
	}
	e.valSet = types.NewValidatorSet(vals)
	for _, b := range cfg["Blocks"].([]interface{}) {
		id := mkBlockID(mbt.Str(b))
		e.blocks[mbt.Str(b)] = id
		e.name[id.Key()] = mbt.Str(b)
	}
	return e
}

func (e *env) vote(r int64, ty string, i int, b string, cls string, variant int) *types.Vote {
	t := byte(types.VoteTypePrevote)
	if ty == "pc" {
		t = types.VoteTypePrecommit
	}
	_, val := e.valSet.GetByIndex(i - 1)
	v := &types.Vote{ValidatorAddress: val.Address, ValidatorIndex: i - 1, Height: e.height, Round: r, Type: t, BlockID: e.blocks[b]}
	sig := e.privs[i-1].Sign(types.SignBytes(chainID, v))
	if cls != "ok" {
		switch variant % 3 {
		case 0: // signature over another round
			o := *v
			o.Round = r + 1
			sig = e.privs[i-1].Sign(types.SignBytes(chainID, &o))
		case 1: // another validator's key
			sig = e.privs[i%e.n].Sign(types.SignBytes(chainID, v))
			if e.n == 1 {
				sig = e.privs[0].Sign([]byte("x"))
			}
		default: // another height
			v.Height = e.height + 1
			sig = e.privs[i-1].Sign(types.SignBytes(chainID, v))
		}
	}
	v.Signature = sig
	return v
}

func main() {
	glog.SetLog(zap.NewNop())
	crypto.NodeInit(crypto.CryptoTypeZhongAn)
	traces, err := mbt.LoadTraces(os.Args[1])
	if err != nil {
		fmt.Fprintln(os.Stderr, err)
		os.Exit(2)
	}
	rep := mbt.NewReport()
	for ti, tr := range traces {
		variant := ti
		if v, ok := tr.Cfg["Variant"]; ok {
			variant = mbt.Int(v)
		}
		e := newEnv(tr.Cfg, variant)
		maxRound := int64(mbt.Int(tr.Cfg["MaxRound"]))
		hvs := pbft.NewHeightVoteSet(chainID, e.height, e.valSet)
		fail := func(si int, st mbt.Step, kind string, prop bool, key, detail string, want, got interface{}) {
			rep.Fail(mbt.Failure{Trace: ti, TraceID: tr.ID, Step: si, Action: fmt.Sprintf("%s%v", st.A, st.Args), Kind: kind, Property: prop, Key: key, Detail: detail, Want: want, Got: got})
		}
		ok := true
		for si, st := range tr.Steps {
			if !ok {
				break
			}
			rep.Steps++
			var got string
			p, stack := mbt.Catch(func() {
				switch st.A {
				case "AddVote":
					peer, r, ty, i, b, cls := mbt.Str(st.Args[0]), int64(mbt.Int(st.Args[1])), mbt.Str(st.Args[2]), mbt.Int(st.Args[3]), mbt.Str(st.Args[4]), mbt.Str(st.Args[5])
					added, err := hvs.AddVote(e.vote(r, ty, i, b, cls, variant+si), peer)
					switch {
					case added:
						got = "added"
					case err == nil:
						got = "dup-or-ignored"
					default:
						if _, isConf := err.(*types.ErrVoteConflictingVotes); isConf {
							got = "conflict"
						} else {
							got = "err"
						}
					}
				case "SetRound":
					hvs.SetRound(int64(mbt.Int(st.Args[0])))
				}
			})
			if p != nil {
				fail(si, st, "panic", true, "panic:"+st.A, fmt.Sprintf("%v\n%s", p, stack), nil, nil)
				break
			}
			if st.A == "AddVote" {
				want := mbt.Str(st.Args[6])
				w := want
				if want == "dup" || want == "ignored" {
					w = "dup-or-ignored"
				}
				rep.Checks++
				if w != got {
					// a valid vote the node refuses / an invalid one it takes contradicts the property; reply classes
					// among the refusals are representation
					prop := (want == "added") != (got == "added")
					fail(si, st, "mismatch", prop, "AddVote-result:"+want+":"+got, "reply of AddVote differs from the specification", want, got)
					ok = false
					break
				}
			}
			// observable state: existing rounds, slots, majorities, POLInfo, Round()
			post := st.Post
			wantExists := map[int64]bool{}
			for _, x := range post["exists"].([]interface{}) {
				wantExists[int64(mbt.Int(x))] = true
			}
			votes := post["votes"]
			for r := int64(0); r <= maxRound && ok; r++ {
				for _, ty := range []string{"pv", "pc"} {
					vs := hvs.Prevotes(r)
					if ty == "pc" {
						vs = hvs.Precommits(r)
					}
					rep.Checks++
					if (vs != nil) != wantExists[r] {
						fail(si, st, "mismatch", true, "state:exists", fmt.Sprintf("round %d %s: vote set exists=%v, specification says %v", r, ty, vs != nil, wantExists[r]), nil, nil)
						ok = false
						break
					}
					if vs == nil {
						continue
					}
					var row []interface{}
					switch x := votes.(type) {
					case []interface{}:
						row = x[r].(map[string]interface{})[ty].([]interface{})
					case map[string]interface{}:
						row = x[fmt.Sprint(r)].(map[string]interface{})[ty].([]interface{})
					}
					tally := map[string]int64{}
					for i := 0; i < e.n; i++ {
						want := mbt.Str(row[i])
						gv := vs.GetByIndex(i)
						g := "none"
						if gv != nil {
							g = e.name[gv.BlockID.Key()]
							if gv.Round != r || (gv.Type == types.VoteTypePrevote) != (ty == "pv") {
								fail(si, st, "property", true, "CountedInOwnSet", fmt.Sprintf("the %s set of round %d holds a vote of round %d type %d", ty, r, gv.Round, gv.Type), nil, nil)
								ok = false
							}
						}
						rep.Checks++
						if g != want {
							fail(si, st, "mismatch", true, "state:votes", fmt.Sprintf("round %d %s validator %d: specification %s, vote set %s", r, ty, i+1, want, g), want, g)
							ok = false
						}
						if want != "none" {
							tally[want] += e.power[i]
						}
					}
					if !ok {
						break
					}
					// majority: direct oracle from the specification's slots (distinct validators by construction)
					bid, has := vs.TwoThirdsMajority()
					wantMaj := ""
					for b, s := range tally {
						if 3*s > 2*e.total {
							wantMaj = b
						}
					}
					gotMaj := ""
					if has {
						gotMaj = e.name[bid.Key()]
					}
					rep.Checks++
					if gotMaj != wantMaj {
						fail(si, st, "property", true, "Maj23", fmt.Sprintf("round %d %s: TwoThirdsMajority reports %q, the counted votes give %q", r, ty, gotMaj, wantMaj), wantMaj, gotMaj)
						ok = false
					}
				}
			}
			if !ok {
				break
			}
			rep.Checks++
			if wr := int64(mbt.Int(post["round"])); hvs.Round() != wr {
				fail(si, st, "mismatch", true, "state:round", fmt.Sprintf("Round() = %d, specification %d", hvs.Round(), wr), nil, nil)
				break
			}
		}
		rep.Traces++
	}
	rep.Emit()
}
