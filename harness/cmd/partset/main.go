// Replays behaviours of specs/partset/{PartSet,SimpleMerkle}.tla on the real types.PartSet and
// merkle.SimpleProof (C17), and evaluates the property's statements directly on the real code.
//
// usage: partset <traces.json>
// Trace kinds (cfg.kind):
//
//	"dyn"    cfg {partSize, dataLen, salt}; init {total,...}; steps AddPart(claimedIndex, sourcePart, mutation, result)
//	"merkle" init {n, root, proofs, confusions} of SimpleMerkle.tla: the real tree must be the spec's tree, and
//	         SimpleProof.Verify is brute-forced over every (proof, leaf, index, total, single-field mutation)
//	"sizes"  cfg {partSizes, maxParts, salt}: NewPartSetFromData / reassembly over data lengths and part sizes
//	"bigtree" cfg {n}: the brute force of "merkle" for tree sizes beyond the model, without its predictions
package main

import (
	"bytes"
	"fmt"
	"io/ioutil"
	"math/rand"
	"os"
	"sort"
	"strconv"
	"sync"

	crypto "github.com/dappledger/AnnChain/gemmill/go-crypto"
	wire "github.com/dappledger/AnnChain/gemmill/go-wire"
	glog "github.com/dappledger/AnnChain/gemmill/modules/go-log"
	merkle "github.com/dappledger/AnnChain/gemmill/modules/go-merkle"
	"github.com/dappledger/AnnChain/gemmill/types"

	"go.uber.org/zap"

	"verifharness/mbt"
)

var rep = mbt.NewReport()
var perKey = map[string]int{}

type ctx struct {
	ti  int
	id  string
	si  int
	act string
}

func (c *ctx) fail(kind string, prop bool, key, detail string, want, got interface{}) {
	perKey[key]++
	rep.Counters["fail:"+key]++
	if perKey[key] > 3 {
		return
	}
	rep.Fail(mbt.Failure{Trace: c.ti, TraceID: c.id, Step: c.si, Action: c.act, Kind: kind, Property: prop, Key: key,
		Detail: detail, Want: want, Got: got})
}

// mkData returns n bytes such that equal-sized chunks of it differ from each other.
func mkData(n int, salt int) []byte {
	d := make([]byte, n)
	for k := range d {
		d[k] = byte((k*37 + salt*11 + (k/251)*7) % 251)
	}
	return d
}

// viaWire copies a part the way a peer message does (and drops the cached hash).
func viaWire(p *types.Part) *types.Part {
	bz := wire.BinaryBytes(p)
	var q *types.Part
	var n int
	var err error
	wire.ReadBinaryPtr(&q, bytes.NewReader(bz), 0, &n, &err)
	if err != nil || q == nil {
		panic(fmt.Sprintf("wire round trip of a part failed: %v", err))
	}
	return q
}

func cloneAunts(a [][]byte) [][]byte {
	o := make([][]byte, len(a))
	for i := range a {
		o[i] = append([]byte(nil), a[i]...)
	}
	return o
}

var foreignHash = bytes.Repeat([]byte{0xA5}, 20)

// treeHashes returns every hash occurring in the tree over the given leaf hashes (the spec's Universe).
func treeHashes(leaves [][]byte) [][]byte {
	if len(leaves) == 1 {
		return [][]byte{leaves[0]}
	}
	k := (len(leaves) + 1) / 2
	out := [][]byte{merkle.SimpleHashFromHashes(leaves)}
	out = append(out, treeHashes(leaves[:k])...)
	out = append(out, treeHashes(leaves[k:])...)
	return out
}

type partProj struct {
	Have     []int
	Count    int
	Complete bool
	Bytes    []string
}

func project(ps *types.PartSet) partProj {
	p := partProj{Count: ps.Count(), Complete: ps.IsComplete(), Have: []int{}}
	ba := ps.BitArray()
	for i := 0; i < ps.Total(); i++ {
		var b string
		if pt := ps.GetPart(i); pt != nil {
			b = string(pt.Bytes)
			if !ba.GetIndex(i) {
				b = "!bit-missing:" + b
			}
			p.Have = append(p.Have, i)
		} else if ba.GetIndex(i) {
			b = "!bit-without-part"
			p.Have = append(p.Have, i)
		}
		p.Bytes = append(p.Bytes, b)
	}
	return p
}

func classify(added bool, err error) string {
	switch {
	case err == nil && added:
		return "added"
	case err == nil:
		return "dup"
	case err == types.ErrPartSetUnexpectedIndex:
		return "errIndex"
	case err == types.ErrPartSetInvalidProof:
		return "errProof"
	}
	if added {
		return "added+err:" + err.Error()
	}
	return "err:" + err.Error()
}

// variants concretises (claimed index i, source part j, mutation c) into real parts.
func variants(full *types.PartSet, i, j int, c string, univ [][]byte) []*types.Part {
	src := full.GetPart(j)
	base := func() *types.Part {
		return &types.Part{Index: i, Bytes: append([]byte(nil), src.Bytes...), Proof: merkle.SimpleProof{Aunts: cloneAunts(src.Proof.Aunts)}}
	}
	var out []*types.Part
	switch c {
	case "none":
		out = append(out, base())
	case "bytes":
		p := base()
		p.Bytes[0] ^= 1
		out = append(out, p)
		p = base()
		p.Bytes[len(p.Bytes)-1] ^= 0x80
		out = append(out, p)
		p = base()
		p.Bytes = p.Bytes[:len(p.Bytes)-1]
		out = append(out, p)
		p = base()
		p.Bytes = append(p.Bytes, 0)
		out = append(out, p)
		p = base()
		p.Bytes = nil
		out = append(out, p)
	case "otherbytes":
		p := base()
		p.Bytes = append([]byte(nil), full.GetPart((j+1)%full.Total()).Bytes...)
		out = append(out, p)
	case "aunt":
		for pos := range src.Proof.Aunts {
			repl := [][]byte{foreignHash, nil, src.Proof.Aunts[pos][:19], append(append([]byte(nil), src.Proof.Aunts[pos]...), 0)}
			flipped := append([]byte(nil), src.Proof.Aunts[pos]...)
			flipped[7] ^= 4
			repl = append(repl, flipped)
			for _, h := range univ {
				if !bytes.Equal(h, src.Proof.Aunts[pos]) {
					repl = append(repl, h)
				}
			}
			for _, h := range repl {
				p := base()
				p.Proof.Aunts[pos] = h
				out = append(out, p)
			}
		}
	case "extra":
		for pos := 0; pos <= len(src.Proof.Aunts); pos++ {
			for _, h := range append([][]byte{foreignHash, nil}, univ...) {
				p := base()
				a := append([][]byte{}, p.Proof.Aunts[:pos]...)
				a = append(a, h)
				a = append(a, p.Proof.Aunts[pos:]...)
				p.Proof.Aunts = a
				out = append(out, p)
			}
		}
	case "missing":
		for pos := range src.Proof.Aunts {
			p := base()
			p.Proof.Aunts = append(append([][]byte{}, p.Proof.Aunts[:pos]...), p.Proof.Aunts[pos+1:]...)
			out = append(out, p)
		}
	case "noproof":
		p := base()
		p.Proof.Aunts = nil
		out = append(out, p)
		p = base()
		p.Proof.Aunts = [][]byte{}
		out = append(out, p)
	default:
		panic("unknown mutation " + c)
	}
	return out
}

func runDyn(c *ctx, tr mbt.Trace) {
	ps := mbt.Int(tr.Cfg["partSize"])
	L := mbt.Int(tr.Cfg["dataLen"])
	salt := mbt.Int(tr.Cfg["salt"])
	total := mbt.Int(tr.Init["total"])
	data := mkData(L, salt)
	hdr := "genuine"
	if h, ok := tr.Init["hdr"]; ok {
		hdr = mbt.Str(h)
	}
	var full *types.PartSet
	var recvs []*types.PartSet
	if pv, st := mbt.Catch(func() {
		full = types.NewPartSetFromData(data, ps)
		switch hdr {
		case "genuine":
			recvs = append(recvs, types.NewPartSetFromHeader(full.Header()))
		case "emptyroot":
			// a crafted header: the right Total, no root (nil) / a zero-length root; no part is genuine under it
			recvs = append(recvs, types.NewPartSetFromHeader(types.PartSetHeader{Total: full.Total(), Hash: nil}))
			recvs = append(recvs, types.NewPartSetFromHeader(types.PartSetHeader{Total: full.Total(), Hash: []byte{}}))
		default:
			panic("unknown header class " + hdr)
		}
	}); pv != nil {
		c.fail("panic", true, "NewPartSet-panic", fmt.Sprintf("%v\n%s", pv, st), nil, nil)
		return
	}
	if full.Total() != total {
		c.fail("error", false, "cfg-total", "engine configuration does not give the spec's total", total, full.Total())
		return
	}
	leaves := make([][]byte, total)
	for k := 0; k < total; k++ {
		leaves[k] = full.GetPart(k).Hash()
	}
	univ := treeHashes(leaves)
	for _, recv := range recvs {
		runDynOn(c, tr, hdr, data, total, full, recv, univ)
	}
}

func runDynOn(c *ctx, tr mbt.Trace, hdr string, data []byte, total int, full, recv *types.PartSet, univ [][]byte) {
	for si, st := range tr.Steps {
		c.si, c.act = si, fmt.Sprintf("%s%v hdr=%s(root %v)", st.A, st.Args, hdr, recv.Hash())
		rep.Steps++
		if st.A != "AddPart" {
			c.fail("error", false, "unknown-action", st.A, nil, nil)
			return
		}
		i, j, mut, want := mbt.Int(st.Args[0]), mbt.Int(st.Args[1]), mbt.Str(st.Args[2]), mbt.Str(st.Args[3])
		vars := variants(full, i, j, mut, univ)
		if want == "added" {
			vars = vars[:1]
		}
		genuine := hdr == "genuine" && i == j && mut == "none"
		for k, v := range vars {
			before := project(recv)
			wasThere := i >= 0 && i < total && recv.GetPart(i) != nil
			var added bool
			var err error
			part := viaWire(v)
			pv, stack := mbt.Catch(func() { added, err = recv.AddPart(part, true) })
			rep.Checks++
			if pv != nil {
				c.fail("panic", true, "AddPart-panic", fmt.Sprintf("variant %d of (%d,%d,%s): %v\n%s", k, i, j, mut, pv, stack), want, "panic")
				return
			}
			got := classify(added, err)
			rep.Count("r:" + mut + ":" + got)
			if got != want {
				c.fail("mismatch", true, "AddPart-result:"+mut+":"+want+":"+got, fmt.Sprintf("variant %d of claimed index %d, source part %d, mutation %s", k, i, j, mut), want, got)
			}
			// the property itself, independent of the model
			if added && !(genuine && !wasThere) {
				c.fail("property", true, "OnlyGenuineAccepted", fmt.Sprintf("accepted a part that is not the genuine new part at its index: claimed %d, made from part %d, mutation %s (variant %d)", i, j, mut, k), nil, nil)
			}
			if genuine && i >= 0 && i < total && !wasThere && !added {
				c.fail("property", true, "GenuineRejected", fmt.Sprintf("genuine part %d refused: %v", i, err), nil, nil)
			}
			after := project(recv)
			if !added && !mbt.Equal(mbt.Canon(before), mbt.Canon(after)) {
				c.fail("property", true, "RejectLeavesSetUnchanged", fmt.Sprintf("a refused part changed the set (claimed %d, source %d, %s, variant %d)", i, j, mut, k), before, after)
			}
		}
		// compare with the spec state
		got := project(recv)
		if hdr != "genuine" && (len(got.Have) > 0 || got.Count != 0 || (got.Complete && total > 0)) {
			detail := fmt.Sprintf("a receiver built from the crafted header {Total %d, Hash %v} holds %d part(s)", total, recv.Hash(), len(got.Have))
			if got.Complete {
				var b []byte
				mbt.Catch(func() { b, _ = ioutil.ReadAll(recv.GetReader()) })
				detail += fmt.Sprintf(", is complete and reads back %d bytes that nobody committed to", len(b))
			}
			c.fail("property", true, "EmptyHeaderNeverFills", detail, nil, nil)
		}
		wantHave := st.Post["have"]
		rep.Checks++
		if !mbt.Equal(mbt.Norm(wantHave), mbt.Canon(got.Have)) {
			c.fail("mismatch", true, "state:have", "set of held parts differs", wantHave, got.Have)
			return
		}
		if got.Count != mbt.Int(st.Post["count"]) {
			c.fail("mismatch", true, "state:count", "Count() differs", st.Post["count"], got.Count)
			return
		}
		if got.Complete != (mbt.Int(st.Post["count"]) == total) {
			c.fail("mismatch", true, "state:complete", "IsComplete() differs", mbt.Int(st.Post["count"]) == total, got.Complete)
		}
		for _, idx := range got.Have {
			if got.Bytes[idx] != string(full.GetPart(idx).Bytes) {
				c.fail("property", true, "StoredGenuine", fmt.Sprintf("bytes held at index %d are not the genuine part", idx), nil, nil)
			}
		}
		if got.Complete {
			var b []byte
			var err error
			pv, stack := mbt.Catch(func() { b, err = ioutil.ReadAll(recv.GetReader()) })
			rep.Checks++
			rep.Count("reassembled")
			if pv != nil {
				c.fail("panic", true, "Reassembly-panic", fmt.Sprintf("%v\n%s", pv, stack), nil, nil)
			} else if err != nil || !bytes.Equal(b, data) {
				c.fail("property", true, "ReassemblyExact", fmt.Sprintf("reassembled %d bytes (err %v), original %d bytes", len(b), err, len(data)), nil, nil)
			}
			if !recv.HashesTo(full.Hash()) || !recv.HasHeader(full.Header()) {
				c.fail("property", true, "ReassemblyExact", "hash/header of the reassembled set differs from the sender's", nil, nil)
			}
		}
	}
}

// eval turns a symbolic hash of MerkleOps.tla into the real hash.
func eval(expr string, leaves [][]byte) []byte {
	h, rest := evalP(expr, leaves)
	if rest != "" {
		panic("trailing input in " + expr)
	}
	return h
}

func evalP(s string, leaves [][]byte) ([]byte, string) {
	switch {
	case s == "":
		panic("empty hash expression")
	case s[0] == 'X':
		return foreignHash, s[1:]
	case s[0] == 'L':
		k := 1
		for k < len(s) && s[k] >= '0' && s[k] <= '9' {
			k++
		}
		n, _ := strconv.Atoi(s[1:k])
		return leaves[n], s[k:]
	case s[0] == '(':
		l, r1 := evalP(s[1:], leaves)
		if r1[0] != ',' {
			panic("expected , in " + s)
		}
		r, r2 := evalP(r1[1:], leaves)
		if r2[0] != ')' {
			panic("expected ) in " + s)
		}
		return merkle.SimpleHashFromTwoHashes(l, r), r2[1:]
	}
	panic("bad hash expression " + s)
}

type hashable []byte

func (h hashable) Hash() []byte { return h }

// bruteForce checks SimpleProof.Verify over every proof x leaf x index x total and every single-field mutation of
// the proofs. predicted == nil: no model prediction (tree beyond the model).
func bruteForce(c *ctx, n int, leaves [][]byte, root []byte, proofs []*merkle.SimpleProof, predicted map[[3]int]bool) {
	univ := append(treeHashes(leaves), foreignHash)
	leafSet := append(append([][]byte{}, leaves...), foreignHash)
	seen := map[[3]int]bool{}
	verify := func(sp *merkle.SimpleProof, idx, tot int, leaf []byte) (ok bool, panicked bool) {
		pv, stack := mbt.Catch(func() { ok = sp.Verify(idx, tot, leaf, root) })
		rep.Checks++
		if pv != nil {
			c.fail("panic", true, "Verify-panic", fmt.Sprintf("Verify(index %d, total %d) on a tree of %d leaves: %v\n%s", idx, tot, n, pv, stack), nil, nil)
			return false, true
		}
		return ok, false
	}
	for i := 0; i < n; i++ {
		for idx := -n - 1; idx <= n+1; idx++ {
			for tot := -1; tot <= n+2; tot++ {
				for li, leaf := range leafSet {
					ok, pn := verify(proofs[i], idx, tot, leaf)
					if pn {
						continue
					}
					genuine := li == i && idx == i && tot == n
					switch {
					case genuine && !ok:
						c.fail("property", true, "ProofComplete", fmt.Sprintf("generated proof of leaf %d of %d does not verify", i, n), true, ok)
					case genuine || !ok:
					case li != i:
						c.fail("property", true, "ProofSound", fmt.Sprintf("proof of leaf %d of %d verifies ANOTHER leaf hash (%d) at index %d, total %d", i, n, li, idx, tot), false, true)
					case tot == n:
						c.fail("property", true, "ProofSound", fmt.Sprintf("proof of leaf %d of %d verifies for index %d under the same total", i, n, idx), false, true)
					default:
						seen[[3]int{i, idx, tot}] = true
						rep.Count("total_confusions")
						if predicted != nil && !predicted[[3]int{i, idx, tot}] {
							c.fail("property", true, "ProofSound", fmt.Sprintf("proof of leaf %d of %d verifies as index %d of %d, which the scheme (SimpleMerkle.tla) does not allow", i, n, idx, tot), false, true)
						} else {
							c.fail("property", true, "ProofBindsTotal", fmt.Sprintf("proof of leaf %d of %d verifies against the same root as index %d of %d leaves", i, n, idx, tot), false, true)
						}
					}
				}
			}
		}
		// single-field mutations of the proof, under the genuine total, every index and leaf
		var muts []*merkle.SimpleProof
		au := proofs[i].Aunts
		for pos := range au {
			for _, h := range append([][]byte{nil, au[pos][:19]}, univ...) {
				if bytes.Equal(h, au[pos]) {
					continue
				}
				a := cloneAunts(au)
				a[pos] = h
				muts = append(muts, &merkle.SimpleProof{Aunts: a})
			}
			a := cloneAunts(au)
			muts = append(muts, &merkle.SimpleProof{Aunts: append(a[:pos], a[pos+1:]...)})
		}
		for pos := 0; pos <= len(au); pos++ {
			for _, h := range append([][]byte{nil}, univ...) {
				a := cloneAunts(au)
				b := append([][]byte{}, a[:pos]...)
				b = append(b, h)
				b = append(b, a[pos:]...)
				muts = append(muts, &merkle.SimpleProof{Aunts: b})
			}
		}
		for _, m := range muts {
			for idx := -n - 1; idx <= n+1; idx++ {
				for li, leaf := range leafSet {
					ok, pn := verify(m, idx, n, leaf)
					if pn {
						continue
					}
					if ok {
						// a mutation may turn the proof of leaf i into the genuine proof of another leaf (aunt replaced by
						// the sibling's...): genuine iff it equals the real proof of idx and the leaf is leaf idx
						if idx >= 0 && idx < n && li == idx && sameAunts(m.Aunts, proofs[idx].Aunts) {
							continue
						}
						c.fail("property", true, "ProofSound", fmt.Sprintf("mutated proof of leaf %d of %d verifies (index %d, leaf %d)", i, n, idx, li), false, true)
					}
				}
			}
		}
		// against an EMPTY expected root (nil / zero-length: a crafted header) nothing may verify, in particular
		// not a proof that is structurally wrong for (index, total), whose recomputation yields no hash at all
		for _, emptyRoot := range [][]byte{nil, {}} {
			cands := []*merkle.SimpleProof{proofs[i], {Aunts: nil}, {Aunts: [][]byte{}}}
			for _, m := range muts {
				if len(m.Aunts) != len(au) { // an aunt dropped / inserted: structurally wrong
					cands = append(cands, m)
				}
			}
			for ci, m := range cands {
				for idx := -n - 1; idx <= n+1; idx++ {
					for tot := -1; tot <= n+2; tot++ {
						if ci >= 3 && tot != n {
							continue // mutated proofs: under the header's total only
						}
						for li, leaf := range leafSet {
							var ok bool
							pv, stack := mbt.Catch(func() { ok = m.Verify(idx, tot, leaf, emptyRoot) })
							rep.Checks++
							rep.Count("empty_root_rows")
							if pv != nil {
								c.fail("panic", true, "Verify-panic", fmt.Sprintf("Verify(index %d, total %d, empty root) on a tree of %d leaves: %v\n%s", idx, tot, n, pv, stack), nil, nil)
							} else if ok {
								c.fail("property", true, "ProofSound", fmt.Sprintf("Verify(index %d, total %d, leaf %d, %d aunts) is true against the EMPTY root %#v (tree of %d leaves, candidate %d of leaf %d)", idx, tot, li, len(m.Aunts), emptyRoot, n, ci, i), false, true)
							}
						}
					}
				}
			}
		}
		rep.Count("proofs_bruteforced")
	}
	if predicted != nil {
		for k := range predicted {
			if !seen[k] {
				c.fail("mismatch", false, "internal:confusion-not-real", fmt.Sprintf("SimpleMerkle.tla predicts that the proof of leaf %d of %d verifies as index %d of %d; the code refuses", k[0], n, k[1], k[2]), true, false)
			}
		}
	}
}

func sameAunts(a, b [][]byte) bool {
	if len(a) != len(b) {
		return false
	}
	for i := range a {
		if !bytes.Equal(a[i], b[i]) {
			return false
		}
	}
	return true
}

func realTree(n int, salt int) (leaves [][]byte, root []byte, proofs []*merkle.SimpleProof) {
	full := types.NewPartSetFromData(mkData(3*n, salt), 3)
	items := make([]merkle.Hashable, n)
	for k := 0; k < n; k++ {
		leaves = append(leaves, full.GetPart(k).Hash())
		items[k] = full.GetPart(k)
	}
	root, proofs = merkle.SimpleProofsFromHashables(items)
	return
}

func runMerkle(c *ctx, tr mbt.Trace) {
	n := mbt.Int(tr.Init["n"])
	c.act = fmt.Sprintf("tree(%d)", n)
	pv, stack := mbt.Catch(func() {
		leaves, root, proofs := realTree(n, c.ti)
		// determinism of the root, by every route the code offers
		items := make([]merkle.Hashable, n)
		for k := range items {
			items[k] = hashable(leaves[k])
		}
		root2, _ := merkle.SimpleProofsFromHashables(items)
		rep.Checks++
		if !bytes.Equal(root, root2) || !bytes.Equal(root, merkle.SimpleHashFromHashes(leaves)) || !bytes.Equal(root, merkle.SimpleHashFromHashables(items)) {
			c.fail("property", true, "RootDeterministic", fmt.Sprintf("the root of %d leaves differs between SimpleProofsFromHashables / SimpleHashFromHashes / SimpleHashFromHashables", n), nil, nil)
		}
		// the real tree is the spec's tree
		if !bytes.Equal(root, eval(mbt.Str(tr.Init["root"]), leaves)) {
			c.fail("mismatch", false, "internal:root-shape", fmt.Sprintf("root of %d leaves is not %s", n, tr.Init["root"]), nil, nil)
		}
		for i, pr := range tr.Init["proofs"].([]interface{}) {
			var want [][]byte
			for _, a := range pr.([]interface{}) {
				want = append(want, eval(mbt.Str(a), leaves))
			}
			rep.Checks++
			if !sameAunts(want, proofs[i].Aunts) {
				c.fail("mismatch", false, "internal:proof-shape", fmt.Sprintf("aunts of leaf %d of %d are not %v", i, n, pr), nil, nil)
			}
		}
		pred := map[[3]int]bool{}
		for _, t := range tr.Init["confusions"].([]interface{}) {
			x := t.([]interface{})
			pred[[3]int{mbt.Int(x[0]), mbt.Int(x[1]), mbt.Int(x[2])}] = true
		}
		bruteForce(c, n, leaves, root, proofs, pred)
	})
	if pv != nil {
		c.fail("panic", true, "Merkle-panic", fmt.Sprintf("%v\n%s", pv, stack), nil, nil)
	}
}

func runBigTree(c *ctx, tr mbt.Trace) {
	n := mbt.Int(tr.Cfg["n"])
	c.act = fmt.Sprintf("tree(%d)", n)
	pv, stack := mbt.Catch(func() {
		leaves, root, proofs := realTree(n, c.ti)
		bruteForce(c, n, leaves, root, proofs, nil)
	})
	if pv != nil {
		c.fail("panic", true, "Merkle-panic", fmt.Sprintf("%v\n%s", pv, stack), nil, nil)
	}
}

func runSizes(c *ctx, tr mbt.Trace) {
	salt := mbt.Int(tr.Cfg["salt"])
	maxParts := mbt.Int(tr.Cfg["maxParts"])
	rng := rand.New(rand.NewSource(int64(salt)))
	for _, x := range tr.Cfg["partSizes"].([]interface{}) {
		ps := mbt.Int(x)
		lens := map[int]bool{0: true, 1: true}
		for k := 1; k <= maxParts; k++ {
			for _, d := range []int{-1, 0, 1} {
				if l := k*ps + d; l >= 0 && (l+ps-1)/ps <= maxParts {
					lens[l] = true
				}
			}
		}
		var sorted []int
		for L := range lens {
			sorted = append(sorted, L)
		}
		sort.Ints(sorted)
		for _, L := range sorted {
			c.act = fmt.Sprintf("data(%d bytes, part size %d)", L, ps)
			rep.Steps++
			data := mkData(L, salt)
			pv, stack := mbt.Catch(func() {
				full := types.NewPartSetFromData(data, ps)
				total := (L + ps - 1) / ps
				rep.Checks++
				if full.Total() != total || !full.IsComplete() || full.Count() != total {
					c.fail("property", true, "SplitExact", "wrong number of parts", total, full.Total())
					return
				}
				again := types.NewPartSetFromData(append([]byte(nil), data...), ps)
				if !bytes.Equal(full.Hash(), again.Hash()) {
					c.fail("property", true, "RootDeterministic", "splitting the same data twice gives two hashes", nil, nil)
				}
				for i := 0; i < total; i++ {
					p := full.GetPart(i)
					hi := (i + 1) * ps
					if hi > L {
						hi = L
					}
					if p.Index != i || !bytes.Equal(p.Bytes, data[i*ps:hi]) {
						c.fail("property", true, "SplitExact", fmt.Sprintf("part %d does not hold its slice of the data", i), nil, nil)
					}
					if !p.Proof.Verify(i, total, p.Hash(), full.Hash()) {
						c.fail("property", true, "ProofComplete", fmt.Sprintf("proof of part %d of %d does not verify", i, total), nil, nil)
					}
				}
				if b, err := ioutil.ReadAll(full.GetReader()); err != nil || !bytes.Equal(b, data) {
					c.fail("property", true, "ReassemblyExact", "the sender's own set does not read back the data", nil, nil)
				}
				// receiver: random arrival order with duplicates
				recv := types.NewPartSetFromHeader(full.Header())
				order := rng.Perm(total)
				for k := 0; k < total; k++ {
					order = append(order, rng.Intn(total))
				}
				rng.Shuffle(len(order), func(a, b int) { order[a], order[b] = order[b], order[a] })
				got := map[int]bool{}
				for _, i := range order {
					if recv.IsComplete() != (len(got) == total) {
						c.fail("property", true, "ReassemblyExact", "IsComplete() before all parts arrived / not after", nil, nil)
					}
					added, err := recv.AddPart(viaWire(full.GetPart(i)), true)
					rep.Checks++
					if err != nil || added == got[i] {
						c.fail("property", true, "GenuineRejected", fmt.Sprintf("genuine part %d of %d (duplicate=%v): added=%v err=%v", i, total, got[i], added, err), nil, nil)
					}
					got[i] = true
				}
				if !recv.IsComplete() {
					c.fail("property", true, "ReassemblyExact", "not complete after all parts arrived", nil, nil)
					return
				}
				b, err := ioutil.ReadAll(recv.GetReader())
				rep.Count("reassembled")
				if err != nil || !bytes.Equal(b, data) || !recv.HashesTo(full.Hash()) {
					c.fail("property", true, "ReassemblyExact", fmt.Sprintf("reassembled %d bytes (err %v), original %d", len(b), err, L), nil, nil)
				}
				// small reads through the reader (PartSetReader.Read crosses part boundaries)
				rd := recv.GetReader()
				var acc []byte
				buf := make([]byte, 3)
				for {
					n, err := rd.Read(buf[:1+rng.Intn(3)])
					acc = append(acc, buf[:n]...)
					if err != nil {
						break
					}
					if len(acc) > L+8 {
						break
					}
				}
				if !bytes.Equal(acc, data) {
					c.fail("property", true, "ReassemblyExact", fmt.Sprintf("small reads reassembled %d bytes, original %d", len(acc), L), nil, nil)
				}
				// a part beyond the end and before the start
				if total > 0 {
					for _, idx := range []int{-1, -total, total, total + 1} {
						p := viaWire(full.GetPart(0))
						p.Index = idx
						r2 := types.NewPartSetFromHeader(full.Header())
						added, err := r2.AddPart(p, true)
						if added || err == nil {
							c.fail("property", true, "OnlyGenuineAccepted", fmt.Sprintf("part with index %d of %d: added=%v err=%v", idx, total, added, err), nil, nil)
						}
					}
				}
			})
			if pv != nil {
				key := "Sizes-panic"
				if L == 0 {
					key = "Reassembly-panic"
				}
				c.fail("panic", true, key, fmt.Sprintf("%v\n%s", pv, stack), nil, nil)
			}
		}
	}
}

func main() {
	crypto.NodeInit(crypto.CryptoTypeZhongAn)
	glog.SetLog(zap.NewNop())
	if len(os.Args) < 2 {
		fmt.Fprintln(os.Stderr, "usage: partset traces.json")
		os.Exit(2)
	}
	traces, err := mbt.LoadTraces(os.Args[1])
	if err != nil {
		fmt.Fprintln(os.Stderr, "load:", err)
		os.Exit(2)
	}
	for ti, tr := range traces {
		rep.Traces++
		c := &ctx{ti: ti, id: tr.ID, si: -1}
		switch mbt.Str(tr.Cfg["kind"]) {
		case "dyn":
			runDyn(c, tr)
		case "merkle":
			runMerkle(c, tr)
		case "bigtree":
			runBigTree(c, tr)
		case "sizes":
			runSizes(c, tr)
		case "conc":
			runConcurrent(c, tr)
		default:
			c.fail("error", false, "unknown-kind", "unknown trace kind", nil, nil)
		}
	}
	rep.Emit()
}

// ---------------------------------------------------------------------------------------------------------------
// Concurrent deliveries ("conc" traces): G goroutines hand a multiset of parts (duplicates of the same index, now and
// then a tampered one) to ONE real PartSet at the same moment (start barrier), round after round.  The recorded
// results must be linearizable with PartSet.tla as the sequential specification.  All calls of a round overlap, so a
// linearization is any order of the round's calls (rounds are ordered in real time); under PartSet.tla's Result
// (errIndex, then dup = (false,nil) if the index is held, then the proof check) such an order exists iff, per index:
//   - held before the round: every call returns (false, nil);
//   - otherwise, if the round delivers the genuine part: exactly one genuine delivery returns added, every other
//     genuine delivery returns (false, nil), a tampered delivery returns (false, nil) or ErrPartSetInvalidProof;
//   - otherwise every (tampered) delivery returns ErrPartSetInvalidProof;
// and after the round Count() = number of held indices <= Total, every held slot holds the genuine bytes,
// IsComplete() <=> every slot is filled, and a complete set reads back the original bytes.

type concCall struct {
	idx      int
	tampered bool
	added    bool
	err      error
	pv       interface{}
}

func runConcurrent(c *ctx, tr mbt.Trace) {
	seed := int64(mbt.Int(tr.Cfg["seed"]))
	trials := mbt.Int(tr.Cfg["trials"])
	ps := mbt.Int(tr.Cfg["partSize"])
	G := mbt.Int(tr.Cfg["G"])
	rng := rand.New(rand.NewSource(seed))
	for trial := 0; trial < trials; trial++ {
		total := 1 + rng.Intn(4)
		L := (total-1)*ps + 1 + rng.Intn(ps)
		data := make([]byte, L)
		rng.Read(data)
		full := types.NewPartSetFromData(data, ps)
		recv := types.NewPartSetFromHeader(full.Header())
		held := map[int]bool{}
		rep.Steps++
		for round := 0; round < 3 && len(held) < total; round++ {
			// the multiset of this round: G deliveries; in the last round every missing part, twice
			var calls []*concCall
			if round == 2 {
				for i := 0; i < total; i++ {
					calls = append(calls, &concCall{idx: i}, &concCall{idx: i})
				}
			} else {
				first := rng.Intn(total)
				for g := 0; g < G; g++ {
					cl := &concCall{idx: first}
					if g > 0 && rng.Intn(3) == 0 {
						cl.idx = rng.Intn(total)
					}
					if rng.Intn(6) == 0 {
						cl.tampered = true
					}
					calls = append(calls, cl)
				}
			}
			c.act = fmt.Sprintf("trial %d round %d: %d parts of %d bytes, concurrent deliveries %v", trial, round, total, ps, describe(calls))
			start := make(chan struct{})
			var wg sync.WaitGroup
			for _, cl := range calls {
				cl := cl
				// a fresh object per delivery, like a part decoded from a peer's message
				p := viaWire(full.GetPart(cl.idx))
				if cl.tampered {
					p.Bytes[len(p.Bytes)/2] ^= 0x10
				}
				wg.Add(1)
				go func() {
					defer wg.Done()
					<-start
					cl.pv, _ = mbt.Catch(func() { cl.added, cl.err = recv.AddPart(p, true) })
				}()
			}
			close(start)
			wg.Wait()
			rep.Checks += len(calls)
			rep.Count("concurrent_deliveries")
			// linearizability against the sequential specification
			byIdx := map[int][]*concCall{}
			for _, cl := range calls {
				if cl.pv != nil {
					c.fail("panic", true, "AddPart-panic", fmt.Sprintf("%s: %v", c.act, cl.pv), nil, nil)
					return
				}
				byIdx[cl.idx] = append(byIdx[cl.idx], cl)
			}
			for idx, cs := range byIdx {
				nAdded, genuine := 0, 0
				for _, cl := range cs {
					if !cl.tampered {
						genuine++
					}
				}
				for _, cl := range cs {
					got := classify(cl.added, cl.err)
					switch {
					case held[idx]:
						if got != "dup" {
							c.fail("property", true, "Linearizable", fmt.Sprintf("%s: index %d was already held, a delivery returned %s", c.act, idx, got), "dup", got)
						}
					case cl.tampered:
						if got != "errProof" && !(got == "dup" && genuine > 0) {
							c.fail("property", true, "Linearizable", fmt.Sprintf("%s: tampered delivery for index %d returned %s", c.act, idx, got), "errProof", got)
						}
						if cl.added {
							c.fail("property", true, "OnlyGenuineAccepted", fmt.Sprintf("%s: tampered part %d accepted", c.act, idx), nil, nil)
						}
					default:
						if got == "added" {
							nAdded++
						} else if got != "dup" {
							c.fail("property", true, "GenuineRejected", fmt.Sprintf("%s: genuine part %d refused: %s", c.act, idx, got), nil, nil)
						}
					}
				}
				genuineFirst := genuine
				if !held[idx] && genuineFirst > 0 {
					if nAdded != 1 {
						c.fail("property", true, "Linearizable", fmt.Sprintf("%s: the genuine part %d was delivered %d times at once and AddPart answered added=true %d times; no sequential order of the calls gives that (PartSet.tla: added exactly once, then (false,nil))", c.act, idx, genuineFirst, nAdded), 1, nAdded)
					}
					if nAdded >= 1 {
						held[idx] = true
					}
				}
			}
			// the state after the round
			got := project(recv)
			rep.Checks++
			if got.Count != len(held) || got.Count > total {
				c.fail("property", true, "CountMatchesHeld", fmt.Sprintf("%s: Count() = %d, parts held = %d, total = %d", c.act, got.Count, len(held), total), len(held), got.Count)
			}
			if len(got.Have) != len(held) {
				c.fail("property", true, "Linearizable", fmt.Sprintf("%s: slots filled %v, parts accepted %d", c.act, got.Have, len(held)), nil, nil)
			}
			for _, idx := range got.Have {
				if got.Bytes[idx] != string(full.GetPart(idx).Bytes) {
					c.fail("property", true, "StoredGenuine", fmt.Sprintf("%s: bytes held at index %d are not the genuine part", c.act, idx), nil, nil)
				}
			}
			if got.Complete != (len(got.Have) == total) {
				c.fail("property", true, "ReassemblyExact", fmt.Sprintf("%s: IsComplete() = %v with %d of %d slots filled (Count %d)", c.act, got.Complete, len(got.Have), total, got.Count), len(got.Have) == total, got.Complete)
			}
			if got.Complete && len(got.Have) == total {
				var b []byte
				var err error
				if pv, _ := mbt.Catch(func() { b, err = ioutil.ReadAll(recv.GetReader()) }); pv != nil || err != nil || !bytes.Equal(b, data) {
					c.fail("property", true, "ReassemblyExact", fmt.Sprintf("%s: reassembled %d bytes (err %v, panic %v), original %d", c.act, len(b), err, pv, L), nil, nil)
				}
				rep.Count("reassembled")
			}
		}
	}
}

func describe(calls []*concCall) []string {
	var o []string
	for _, cl := range calls {
		s := fmt.Sprintf("%d", cl.idx)
		if cl.tampered {
			s += "x"
		}
		o = append(o, s)
	}
	return o
}
