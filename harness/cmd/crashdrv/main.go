// crashdrv is the chain-specific half of the C06 fault-enumeration binding.  The engine
// (tools/engines/c06.py) runs REAL node subprocesses (harness/cmd/crashnode) and kills them at durable
// write k; this tool
//
//	gentx    builds the scripted, signed transactions (EVM create/transfer/call, kv puts, one
//	         validator-change admin tx signed with the node key) and the effects each batch must have;
//	submit   sends raw transactions through the node's JSON-RPC (broadcast_tx_async);
//	observe  reads the live node through JSON-RPC (status, every block, app Info, nonces, contract
//	         storage, kv values, receipts, validator power);
//	offline  opens the STOPPED node's databases (block store, state, application) with the repository's
//	         own loaders, reads the same facts from the state trie, and (-replay) re-executes blocks
//	         1..H on a FRESH node directory through the real Angine/EVMApp glue (core.NewNode +
//	         State.ApplyBlock), which validates every AppHash/ReceiptsHash recorded in the headers.
//
// Every sub-command prints one JSON object on stdout.  Judging is done by the engine.
package main

import (
	"bytes"
	"encoding/hex"
	"encoding/json"
	"flag"
	"fmt"
	"io/ioutil"
	"math/big"
	"os"
	"path/filepath"
	"strings"
	"time"

	"github.com/dappledger/AnnChain/chain/app/evm"
	"github.com/dappledger/AnnChain/chain/core"
	rtypes "github.com/dappledger/AnnChain/chain/types"
	"github.com/dappledger/AnnChain/eth/accounts/abi"
	"github.com/dappledger/AnnChain/eth/common"
	ecore "github.com/dappledger/AnnChain/eth/core"
	estate "github.com/dappledger/AnnChain/eth/core/state"
	etypes "github.com/dappledger/AnnChain/eth/core/types"
	ecrypto "github.com/dappledger/AnnChain/eth/crypto"
	"github.com/dappledger/AnnChain/eth/ethdb"
	"github.com/dappledger/AnnChain/eth/rlp"
	"github.com/dappledger/AnnChain/gemmill/blockchain"
	"github.com/dappledger/AnnChain/gemmill/config"
	crypto "github.com/dappledger/AnnChain/gemmill/go-crypto"
	dbm "github.com/dappledger/AnnChain/gemmill/modules/go-db"
	"github.com/dappledger/AnnChain/gemmill/rpc/client"
	"github.com/dappledger/AnnChain/gemmill/state"
	gtypes "github.com/dappledger/AnnChain/gemmill/types"
)

var gasLimit = uint64(90000000000)

// ---------------------------------------------------------------------------------------------
// script

type TxRec struct {
	Raw   string `json:"raw"`
	Hash  string `json:"hash"`
	From  string `json:"from"`
	Nonce uint64 `json:"nonce"`
	Type  string `json:"type"` // create | transfer | call | kv | admin
	Key   string `json:"key,omitempty"`
	Value string `json:"value,omitempty"`
}

type Batch struct {
	Kind     string            `json:"kind"` // evm | call | kv | admin | empty
	Txs      []TxRec           `json:"txs"`
	NonceInc map[string]uint64 `json:"nonce_inc"`
	Counter  uint64            `json:"counter_inc"`
	KV       map[string]string `json:"kv"`
	Power    int64             `json:"power"` // new voting power of the validator (0 = unchanged)
}

type Script struct {
	Seed     int64             `json:"seed"`
	Accounts map[string]string `json:"accounts"` // name -> hex address
	Keys     map[string]string `json:"keys"`     // name -> hex private key
	Contract string            `json:"contract"`
	ValPub   string            `json:"val_pub"`
	Batches  []Batch           `json:"batches"`
}

// counter contract: empty calldata -> return slot0 ; otherwise slot0++ and LOG0
var runtimeCode = common.Hex2Bytes("36600f5760005460005260206000f35b6000546001016000556000600060a000")
var initCode = append(common.Hex2Bytes("601f600c600039601f6000f3"), runtimeCode...)

func acctKey(seed int64, name string) []byte {
	return ecrypto.Keccak256([]byte(fmt.Sprintf("verif-c06-%d-%s", seed, name)))
}

func signTx(priv []byte, tx *etypes.Transaction) ([]byte, error) {
	signer := new(etypes.HomesteadSigner)
	k, err := ecrypto.ToECDSA(priv)
	if err != nil {
		return nil, err
	}
	sig, err := ecrypto.Sign(signer.Hash(tx).Bytes(), k)
	if err != nil {
		return nil, err
	}
	stx, err := tx.WithSignature(signer, sig)
	if err != nil {
		return nil, err
	}
	return rlp.EncodeToBytes(stx)
}

func addrOf(priv []byte) common.Address {
	k, err := ecrypto.ToECDSA(priv)
	if err != nil {
		die("bad key: %v", err)
	}
	return ecrypto.PubkeyToAddress(k.PublicKey)
}

func die(f string, a ...interface{}) {
	fmt.Fprintf(os.Stderr, f+"\n", a...)
	os.Exit(3)
}

func emit(v interface{}) {
	b, err := json.Marshal(v)
	if err != nil {
		die("marshal: %v", err)
	}
	os.Stdout.Write(b)
	os.Stdout.Write([]byte("\n"))
}

func gentx(args []string) {
	fs := flag.NewFlagSet("gentx", flag.ExitOnError)
	privval := fs.String("privval", "", "priv_validator.json of the node")
	seed := fs.Int64("seed", 1, "seed")
	fs.Parse(args)
	pv, err := gtypes.LoadPrivValidator(*privval)
	if err != nil {
		die("LoadPrivValidator: %v", err)
	}
	names := []string{"A", "B", "C"}
	keys := map[string][]byte{}
	sc := &Script{Seed: *seed, Accounts: map[string]string{}, Keys: map[string]string{}}
	for _, n := range names {
		keys[n] = acctKey(*seed, n)
		sc.Accounts[n] = hex.EncodeToString(addrOf(keys[n]).Bytes())
		sc.Keys[n] = hex.EncodeToString(keys[n])
	}
	nonces := map[string]uint64{}
	contract := ecrypto.CreateAddress(addrOf(keys["A"]), 0)
	sc.Contract = hex.EncodeToString(contract.Bytes())
	sc.ValPub = pv.PubKey.KeyString()

	mk := func(from, typ string, to *common.Address, data []byte) TxRec {
		var tx *etypes.Transaction
		n := nonces[from]
		if to == nil {
			tx = etypes.NewContractCreation(n, big.NewInt(0), gasLimit, big.NewInt(0), data)
		} else {
			tx = etypes.NewTransaction(n, *to, big.NewInt(0), gasLimit, big.NewInt(0), data)
		}
		raw, err := signTx(keys[from], tx)
		if err != nil {
			die("sign: %v", err)
		}
		nonces[from] = n + 1
		return TxRec{Raw: hex.EncodeToString(raw), Hash: hex.EncodeToString(gtypes.Tx(raw).Hash()), From: from, Nonce: n, Type: typ}
	}
	r := uint64(*seed)
	// batch evm: contract creation + plain transfer(s)
	{
		b := Batch{Kind: "evm", NonceInc: map[string]uint64{}, KV: map[string]string{}}
		b.Txs = append(b.Txs, mk("A", "create", nil, initCode))
		to := addrOf(keys["B"])
		b.Txs = append(b.Txs, mk("A", "transfer", &to, nil))
		if r%2 == 1 {
			to2 := addrOf(keys["A"])
			b.Txs = append(b.Txs, mk("B", "transfer", &to2, nil))
		}
		for _, t := range b.Txs {
			b.NonceInc[t.From]++
		}
		sc.Batches = append(sc.Batches, b)
	}
	// batch call: 1..3 increments of the counter
	{
		b := Batch{Kind: "call", NonceInc: map[string]uint64{}, KV: map[string]string{}}
		ncall := int(1 + r%3)
		for i := 0; i < ncall; i++ {
			from := names[i%2]
			b.Txs = append(b.Txs, mk(from, "call", &contract, []byte{byte(1 + i)}))
			b.NonceInc[from]++
			b.Counter++
		}
		sc.Batches = append(sc.Batches, b)
	}
	// batch kv: 3..4 puts on two keys (so at least one key is updated twice in the block)
	{
		b := Batch{Kind: "kv", NonceInc: map[string]uint64{}, KV: map[string]string{}}
		nkv := int(3 + (r/3)%2)
		for i := 0; i < nkv; i++ {
			from := names[(i+1)%2]
			key := fmt.Sprintf("k%d-%d", *seed, i%2)
			val := fmt.Sprintf("v%d-%d", *seed, i)
			kvBytes, _ := rlp.EncodeToBytes(&rtypes.KV{Key: []byte(key), Value: []byte(val)})
			t := mk(from, "kv", &common.Address{}, append(append([]byte{}, rtypes.KVTxType...), kvBytes...))
			t.Key, t.Value = key, val
			b.Txs = append(b.Txs, t)
			b.NonceInc[from]++
			b.KV[key] = val
		}
		sc.Batches = append(sc.Batches, b)
	}
	// batch admin: change the voting power of the (only) validator, signed with the node key
	{
		b := Batch{Kind: "admin", NonceInc: map[string]uint64{}, KV: map[string]string{}}
		power := int64(101 + r%17)
		pub := crypto.GetNodePubkeyBytes(pv.PubKey)
		va := &gtypes.ValidatorAttr{PubKey: pub, Cmd: gtypes.ValidatorCmdUpdateNode, Power: power,
			Nonce: nonces["C"], Addr: addrOf(keys["C"]).Bytes()}
		vdata, _ := json.Marshal(va)
		cmd := &gtypes.AdminOPCmd{CmdType: gtypes.AdminOpChangeValidator, Msg: vdata,
			Time: time.Unix(1700000000+*seed, 0).UTC()}
		cmd.SInfos = append(cmd.SInfos, gtypes.SigInfo{PubKey: pub, Signature: crypto.GetNodeSigBytes(pv.PrivKey.Sign(vdata))})
		opData, _ := json.Marshal(cmd)
		abiJSON, err := abi.JSON(strings.NewReader(ecore.AdminABI))
		if err != nil {
			die("abi: %v", err)
		}
		calldata, err := abiJSON.Pack(ecore.AdminMethod, gtypes.TagAdminOPTx(opData))
		if err != nil {
			die("abi pack: %v", err)
		}
		to := ecore.AdminTo
		b.Txs = append(b.Txs, mk("C", "admin", &to, calldata))
		b.NonceInc["C"]++
		b.Power = power
		sc.Batches = append(sc.Batches, b)
	}
	sc.Batches = append(sc.Batches, Batch{Kind: "empty", Txs: []TxRec{}, NonceInc: map[string]uint64{}, KV: map[string]string{}})
	emit(sc)
}

func loadScript(path string) *Script {
	if path == "" {
		return &Script{}
	}
	b, err := ioutil.ReadFile(path)
	if err != nil {
		die("script: %v", err)
	}
	sc := &Script{}
	if err := json.Unmarshal(b, sc); err != nil {
		die("script: %v", err)
	}
	return sc
}

// ---------------------------------------------------------------------------------------------
// RPC side

func submit(args []string) {
	fs := flag.NewFlagSet("submit", flag.ExitOnError)
	rpc := fs.String("rpc", "", "host:port")
	raws := fs.String("raw", "", "comma separated hex transactions")
	fs.Parse(args)
	cl := client.NewClientJSONRPC(*rpc)
	type res struct {
		Hash string `json:"hash"`
		Err  string `json:"err,omitempty"`
	}
	out := []res{}
	for _, h := range strings.Split(*raws, ",") {
		if h == "" {
			continue
		}
		b, err := hex.DecodeString(h)
		if err != nil {
			die("hex: %v", err)
		}
		r := new(gtypes.ResultBroadcastTx)
		_, err = cl.Call("broadcast_tx_async", []interface{}{b}, r)
		x := res{Hash: hex.EncodeToString(gtypes.Tx(b).Hash())}
		if err != nil {
			x.Err = err.Error()
		}
		out = append(out, x)
	}
	emit(map[string]interface{}{"results": out})
}

type BlockRec struct {
	Height       int64    `json:"height"`
	Hash         string   `json:"hash"`
	AppHash      string   `json:"app_hash"`
	ReceiptsHash string   `json:"receipts_hash"`
	ValsHash     string   `json:"validators_hash"`
	LastBlock    string   `json:"last_block_hash"`
	NumTxs       int64    `json:"num_txs"`
	Txs          []string `json:"txs"`
	Err          string   `json:"err,omitempty"`
}

func blockRec(b *gtypes.Block) BlockRec {
	r := BlockRec{Height: b.Height, Hash: hex.EncodeToString(b.Hash()), AppHash: hex.EncodeToString(b.AppHash),
		ReceiptsHash: hex.EncodeToString(b.ReceiptsHash), ValsHash: hex.EncodeToString(b.ValidatorsHash),
		LastBlock: hex.EncodeToString(b.LastBlockID.Hash), NumTxs: b.NumTxs, Txs: []string{}}
	for _, tx := range b.Data.Txs {
		r.Txs = append(r.Txs, hex.EncodeToString(tx.Hash()))
	}
	for _, tx := range b.Data.ExTxs {
		r.Txs = append(r.Txs, "ex:"+hex.EncodeToString(tx.Hash()))
	}
	return r
}

func observe(args []string) {
	fs := flag.NewFlagSet("observe", flag.ExitOnError)
	rpc := fs.String("rpc", "", "host:port")
	script := fs.String("script", "", "script file")
	from := fs.Int64("from", 1, "first block to fetch (0 = none; the engine reads blocks itself through HTTP)")
	fs.Parse(args)
	sc := loadScript(*script)
	cl := client.NewClientJSONRPC(*rpc)
	out := map[string]interface{}{}
	lh := new(gtypes.ResultLastHeight)
	if _, err := cl.Call("last_height", []interface{}{}, lh); err != nil {
		emit(map[string]interface{}{"error": "last_height: " + err.Error()})
		return
	}
	height := lh.LastHeight
	out["height"] = height
	info := new(gtypes.ResultInfo)
	if _, err := cl.Call("info", []interface{}{}, info); err != nil {
		out["info_err"] = err.Error()
	} else {
		out["app"] = map[string]interface{}{"height": info.LastBlockHeight, "app_hash": hex.EncodeToString(info.LastBlockAppHash)}
	}
	blocks := []BlockRec{}
	for h := *from; *from > 0 && h <= height; h++ {
		rb := new(gtypes.ResultBlock)
		if _, err := cl.Call("block", []interface{}{h}, rb); err != nil || rb.Block == nil {
			e := "nil block"
			if err != nil {
				e = err.Error()
			}
			blocks = append(blocks, BlockRec{Height: h, Err: e})
			continue
		}
		blocks = append(blocks, blockRec(rb.Block))
	}
	out["blocks"] = blocks
	query := func(q []byte) ([]byte, string) {
		r := new(gtypes.ResultQuery)
		if _, err := cl.Call("query", []interface{}{q}, r); err != nil {
			return nil, err.Error()
		}
		if r.Result.Code != gtypes.CodeType_OK {
			return nil, fmt.Sprintf("code %v: %s", r.Result.Code, r.Result.Log)
		}
		return r.Result.Data, ""
	}
	nonces := map[string]interface{}{}
	for n, a := range sc.Accounts {
		ab, _ := hex.DecodeString(a)
		d, e := query(append([]byte{rtypes.QueryType_Nonce}, ab...))
		if e != "" {
			nonces[n] = "err:" + e
			continue
		}
		v := new(uint64)
		rlp.DecodeBytes(d, v)
		nonces[n] = *v
	}
	out["nonces"] = nonces
	if sc.Contract != "" {
		cb, _ := hex.DecodeString(sc.Contract)
		caddr := common.BytesToAddress(cb)
		kb, _ := hex.DecodeString(sc.Keys["A"])
		tx := etypes.NewTransaction(0, caddr, big.NewInt(0), gasLimit, big.NewInt(0), nil)
		raw, err := signTx(kb, tx)
		if err == nil {
			d, e := query(append([]byte{rtypes.QueryType_Contract}, raw...))
			if e != "" {
				out["counter"] = "err:" + e
			} else {
				out["counter"] = new(big.Int).SetBytes(d).Uint64()
			}
		}
	}
	kv := map[string]interface{}{}
	rcpt := map[string]bool{}
	for _, b := range sc.Batches {
		for k := range b.KV {
			d, e := query(append([]byte{rtypes.QueryType_Key}, []byte(k)...))
			if e != "" {
				kv[k] = nil
			} else {
				kv[k] = string(d)
			}
		}
		for _, t := range b.Txs {
			if t.Type == "kv" {
				continue
			}
			hb, _ := hex.DecodeString(t.Hash)
			d, e := query(append([]byte{rtypes.QueryType_Receipt}, hb...))
			rcpt[t.Hash] = e == "" && len(d) > 0
		}
	}
	out["kv"] = kv
	out["receipts"] = rcpt
	vals := new(gtypes.ResultValidators)
	if _, err := cl.Call("validators", []interface{}{}, vals); err == nil {
		vp := map[string]int64{}
		for _, v := range vals.Validators {
			vp[strings.ToUpper(v.PubKey)] = v.VotingPower
		}
		out["validators"] = vp
	}
	emit(out)
}

// ---------------------------------------------------------------------------------------------
// offline side

func offline(args []string) {
	fs := flag.NewFlagSet("offline", flag.ExitOnError)
	runtime := fs.String("runtime", "", "runtime dir of the STOPPED node")
	script := fs.String("script", "", "script file")
	replay := fs.Bool("replay", false, "re-execute blocks 1..H on a fresh node directory")
	port := fs.Int("port", 0, "p2p port for the fresh node's listener")
	fs.Parse(args)
	sc := loadScript(*script)
	out := map[string]interface{}{}
	dataDir := filepath.Join(*runtime, "data")

	var panicked interface{}
	func() {
		defer func() {
			if r := recover(); r != nil {
				panicked = r
			}
		}()
		bsdb := dbm.NewDB("blockstore", "leveldb", dataDir)
		defer bsdb.Close()
		bs := blockchain.NewBlockStore(bsdb, nil)
		out["store_height"] = bs.Height()
		blocks := []BlockRec{}
		for h := int64(1); h <= bs.Height(); h++ {
			var br BlockRec
			func() {
				defer func() {
					if r := recover(); r != nil {
						br = BlockRec{Height: h, Err: fmt.Sprintf("panic: %v", r)}
					}
				}()
				b := bs.LoadBlock(h)
				if b == nil {
					br = BlockRec{Height: h, Err: "missing"}
					return
				}
				br = blockRec(b)
				meta := bs.LoadBlockMeta(h)
				if meta == nil || !bytes.Equal(meta.Hash, b.Hash()) {
					br.Err = "meta hash differs from block hash"
				}
				if bs.LoadSeenCommit(h) == nil {
					br.Err = "seen commit missing"
				}
				if h > 1 && bs.LoadBlockCommit(h-1) == nil {
					br.Err = "block commit missing"
				}
			}()
			blocks = append(blocks, br)
		}
		out["blocks"] = blocks

		sdb := dbm.NewDB("state", "leveldb", dataDir)
		defer sdb.Close()
		st := state.LoadState(sdb)
		if st == nil {
			out["state"] = nil
		} else {
			vp := map[string]int64{}
			for _, v := range st.Validators.Validators {
				vp[strings.ToUpper(v.PubKey.KeyString())] = v.VotingPower
			}
			out["state"] = map[string]interface{}{"height": st.LastBlockHeight, "app_hash": hex.EncodeToString(st.AppHash),
				"receipts_hash": hex.EncodeToString(st.ReceiptsHash), "last_block_hash": hex.EncodeToString(st.LastBlockID.Hash),
				"validators": vp, "validators_hash": hex.EncodeToString(st.Validators.Hash())}
		}

		adb, err := dbm.NewGoLevelDB("evm", dataDir)
		if err != nil {
			die("open evm.db: %v", err)
		}
		defer adb.Close()
		ba := gtypes.BaseApplication{Database: adb}
		lb := &evm.LastBlockInfo{}
		appHash := []byte{}
		if res, err := ba.LoadLastBlock(lb); err == nil && res != nil {
			lb = res.(*evm.LastBlockInfo)
			out["app"] = map[string]interface{}{"height": lb.Height, "app_hash": hex.EncodeToString(lb.AppHash)}
			appHash = lb.AppHash
		} else {
			out["app"] = map[string]interface{}{"height": 0, "app_hash": ""}
		}
		// application state at the committed root, straight from the trie
		cdb, err := ethdb.NewLDBDatabase(filepath.Join(dataDir, "chaindata"), 16, 16)
		if err != nil {
			die("open chaindata: %v", err)
		}
		defer cdb.Close()
		if len(appHash) > 0 {
			sdb2, err := estate.New(common.BytesToHash(appHash), estate.NewDatabase(cdb))
			if err != nil {
				out["trie_err"] = err.Error()
			} else {
				nonces := map[string]uint64{}
				for n, a := range sc.Accounts {
					nonces[n] = sdb2.GetNonce(common.HexToAddress(a))
				}
				out["nonces"] = nonces
				if sc.Contract != "" {
					ca := common.HexToAddress(sc.Contract)
					out["contract_exists"] = len(sdb2.GetCode(ca)) > 0
					out["counter"] = sdb2.GetState(ca, common.Hash{}).Big().Uint64()
				}
			}
		}
		kv := map[string]interface{}{}
		rcpt := map[string]bool{}
		for _, b := range sc.Batches {
			for k := range b.KV {
				v, err := cdb.Get(append(append([]byte{}, evm.KvPrefix...), []byte(k)...))
				if err != nil {
					kv[k] = nil
				} else {
					kv[k] = string(v)
				}
			}
			for _, t := range b.Txs {
				if t.Type == "kv" {
					continue
				}
				hb, _ := hex.DecodeString(t.Hash)
				v, err := cdb.Get(append(append([]byte{}, evm.ReceiptsPrefix...), hb...))
				rcpt[t.Hash] = err == nil && len(v) > 0
			}
		}
		out["kv"] = kv
		out["receipts"] = rcpt
		// kv update history (secondary index kept by the application in its own database)
		hdb, err := ethdb.NewLDBDatabase(filepath.Join(dataDir, "kv_update_history"), 16, 16)
		if err == nil {
			mgr := evm.NewKeyValueHistoryManager(hdb)
			hist := map[string][]string{}
			for _, b := range sc.Batches {
				for k := range b.KV {
					l := []string{}
					if n, err := mgr.GetKeyHistorySize([]byte(k)); err == nil {
						for i := uint32(0); i < n && i < 64; i++ {
							if h, err := mgr.Get([]byte(k), i); err == nil {
								l = append(l, hex.EncodeToString(h.TxHash))
							} else {
								l = append(l, "missing")
							}
						}
					}
					hist[k] = l
				}
			}
			out["kv_history"] = hist
			hdb.Close()
		}
	}()
	if panicked != nil {
		out["panic"] = fmt.Sprint(panicked)
		emit(out)
		return
	}
	if *replay {
		out["replay"] = doReplay(*runtime, *port)
	}
	emit(out)
}

// doReplay re-executes the stored chain on a FRESH node directory assembled by the repository's own
// core.NewNode (real Angine, plugins, EVMApp, hooks); State.ApplyBlock validates every header (AppHash and
// ReceiptsHash of block h+1 must equal what executing block h produced) before executing it.
func doReplay(runtime string, port int) (res map[string]interface{}) {
	res = map[string]interface{}{"ok": false}
	tmp, err := ioutil.TempDir("", "c06-replay-")
	if err != nil {
		res["err"] = err.Error()
		return
	}
	defer os.RemoveAll(tmp)
	defer func() {
		if r := recover(); r != nil {
			res["ok"] = false
			res["panic"] = fmt.Sprint(r)
		}
	}()
	os.MkdirAll(filepath.Join(tmp, "data"), 0700)
	for _, f := range []string{"genesis.json", "config.toml"} {
		b, err := ioutil.ReadFile(filepath.Join(runtime, f))
		if err != nil {
			res["err"] = err.Error()
			return
		}
		ioutil.WriteFile(filepath.Join(tmp, f), b, 0600)
	}
	// a signer file that has never signed (the fresh node never signs anything anyway)
	pv, err := gtypes.LoadPrivValidator(filepath.Join(runtime, "priv_validator.json"))
	if err != nil {
		res["err"] = err.Error()
		return
	}
	pv.LastHeight, pv.LastRound, pv.LastStep, pv.LastSignature, pv.LastSignBytes = 0, 0, 0, nil, nil
	pv.SetFile(filepath.Join(tmp, "priv_validator.json"))
	pv.Save()

	conf, err := config.ReadConfig(tmp)
	if err != nil {
		res["err"] = "ReadConfig: " + err.Error()
		return
	}
	conf.Set("p2p_laddr", fmt.Sprintf("tcp://127.0.0.1:%d", port))
	conf.Set("rpc_laddr", "")
	conf.Set("log_path", filepath.Join(tmp, "output.log"))
	conf.Set("audit_log_path", filepath.Join(tmp, "audit.log"))
	node, err := core.NewNode(conf, "", "evm")
	if err != nil {
		res["err"] = "NewNode: " + err.Error()
		return
	}
	if err := node.Application.Start(); err != nil {
		res["err"] = "app start: " + err.Error()
		return
	}
	defer func() {
		node.Application.Stop()
		node.Angine.Destroy()
	}()

	bsdb := dbm.NewDB("blockstore", "leveldb", filepath.Join(runtime, "data"))
	defer bsdb.Close()
	bs := blockchain.NewBlockStore(bsdb, nil)
	res["height"] = bs.Height()
	for h := int64(1); h <= bs.Height(); h++ {
		b := bs.LoadBlock(h)
		meta := bs.LoadBlockMeta(h)
		if b == nil || meta == nil {
			res["fail_height"] = h
			res["err"] = "block missing"
			return
		}
		if err := node.Angine.VerifApplyBlock(b, meta.PartsHeader); err != nil {
			res["fail_height"] = h
			res["err"] = err.Error()
			return
		}
	}
	st := node.Angine.VerifState()
	res["app_hash"] = hex.EncodeToString(st.AppHash)
	res["receipts_hash"] = hex.EncodeToString(st.ReceiptsHash)
	res["validators_hash"] = hex.EncodeToString(st.Validators.Hash())
	res["state_height"] = st.LastBlockHeight
	res["ok"] = true
	return
}

func main() {
	crypto.NodeInit(crypto.CryptoTypeZhongAn)
	if len(os.Args) < 2 {
		die("usage: crashdrv gentx|submit|observe|offline ...")
	}
	switch os.Args[1] {
	case "gentx":
		gentx(os.Args[2:])
	case "submit":
		submit(os.Args[2:])
	case "observe":
		observe(os.Args[2:])
	case "offline":
		offline(os.Args[2:])
	default:
		die("unknown sub-command %s", os.Args[1])
	}
}
