// Replays behaviours of specs/adminop/AdminOp.tla on the real code (C14).
//
// usage: adminop <traces.json>           replay behaviours
//        adminop -probe <name>           minimal reproductions against the real code (prints JSON)
//
// Every replica is a real gemmill.Angine assembled in memory (production buildState /
// assembleStateMachine / InitPlugins wiring incl. the adminOp plugin bound to
// &state.Validators), connected with ConnectApp to a real chain/app/evm.EVMApp (LevelDB in a temp dir, genesis
// allocation with the Admin contract at core.AdminTo).  A request is a real signed Ethereum transaction to the
// Admin contract (or, route "direct", to the 0xfe precompile itself) whose payload is a real AdminOPCmd with
// real ed25519 signature entries; blocks are real blocks with real +2/3 commits, executed through
// State.ApplyBlock -> EVMApp.OnExecute -> core.ApplyTransaction -> EVM -> 0xfe precompile -> callback ->
// Angine.ExecAdminTx -> AdminOp.ExecTX, and Angine.EndBlock -> AdminOp.EndBlock for the next validator set.
package main

import (
	"bytes"
	"crypto/ecdsa"
	"encoding/json"
	"fmt"
	"math/big"
	"os"
	"path/filepath"
	"sort"
	"strings"
	"time"

	"github.com/dappledger/AnnChain/chain/app/evm"
	"github.com/dappledger/AnnChain/eth/accounts/abi"
	"github.com/dappledger/AnnChain/eth/common"
	"github.com/dappledger/AnnChain/eth/core"
	etypes "github.com/dappledger/AnnChain/eth/core/types"
	"github.com/dappledger/AnnChain/eth/core/vm"
	ecrypto "github.com/dappledger/AnnChain/eth/crypto"
	"github.com/dappledger/AnnChain/eth/rlp"
	gtypes "github.com/dappledger/AnnChain/gemmill/types"
	"github.com/dappledger/AnnChain/gemmill/verifhook"

	"verifharness/chainutil"
	"verifharness/mbt"
)

var precompileAddr = common.BytesToAddress([]byte{254})

// ---------------------------------------------------------------------------------------------
// identities

type account struct {
	name string
	key  *ecdsa.PrivateKey
	addr common.Address
}

func newAccount(name string) *account {
	k, err := ecrypto.ToECDSA(ecrypto.Keccak256([]byte("verif-acct-" + name)))
	if err != nil {
		panic(err)
	}
	return &account{name: name, key: k, addr: ecrypto.PubkeyToAddress(k.PublicKey)}
}

// ---------------------------------------------------------------------------------------------
// replica

type cbRecord struct {
	tag     int64
	err     string
	changed bool // plugin.ChangedValidators grew during the call
	from    []byte
	nonce   uint64
}

type replica struct {
	id    int
	kit   *chainutil.Kit
	app   *evm.EVMApp
	calls []cbRecord
}

func newReplica(id int, dir string, gen *gtypes.GenesisDoc, self *chainutil.Key) (*replica, error) {
	conf := chainutil.Conf(dir, false)
	if err := os.MkdirAll(conf.GetString("db_dir"), 0700); err != nil {
		return nil, err
	}
	app, err := evm.NewEVMApp(conf)
	if err != nil {
		return nil, err
	}
	if err := app.Start(); err != nil {
		return nil, err
	}
	kit, err := chainutil.Assemble(app, gen, self, conf)
	if err != nil {
		return nil, err
	}
	r := &replica{id: id, kit: kit, app: app}
	kit.Ang.ConnectApp(app)
	app.SetCore(kit.Ang)
	if _, err := kit.Ang.VerifAsmEvents().Start(); err != nil {
		return nil, err
	}
	return r, nil
}

// bind installs this replica's angine as the target of the (process-global) admin precompile, exactly as
// chain/core.NewNode does with node.ExecAdminTx (= Angine.ExecAdminTx), wrapped only to record the outcome.
func (r *replica) bind() {
	vm.DefaultAdminContract.SetCallback(func(app *vm.AdminDBApp, data []byte) error {
		rec := cbRecord{tag: -1, from: append([]byte(nil), app.From()...), nonce: app.GetNonce()}
		cmd := &gtypes.AdminOPCmd{}
		if json.Unmarshal(gtypes.UnwrapTx(data), cmd) == nil {
			rec.tag = cmd.Time.Unix()
		}
		before := len(r.kit.Ang.VerifAsmAdminOp().ChangedValidators)
		err := r.kit.Ang.ExecAdminTx(app, data)
		rec.changed = len(r.kit.Ang.VerifAsmAdminOp().ChangedValidators) > before
		if err != nil {
			rec.err = err.Error()
		}
		r.calls = append(r.calls, rec)
		return err
	})
}

func (r *replica) stop() {
	r.kit.Ang.VerifAsmEvents().Stop()
	r.kit.Ang.VerifAsmClose()
	r.app.Stop()
}

func (r *replica) receipt(raw []byte) (found bool, status uint64) {
	h := common.BytesToHash(gtypes.Tx(raw).Hash())
	res := r.app.Query(append([]byte{3}, h.Bytes()...)) // QueryType_Receipt
	if res.IsErr() || len(res.Data) == 0 {
		return false, 0
	}
	rc := new(etypes.ReceiptForStorage)
	if err := rlp.DecodeBytes(res.Data, rc); err != nil {
		return false, 0
	}
	return true, rc.Status
}

// ---------------------------------------------------------------------------------------------
// requests

type sigEntry struct {
	K string `json:"k"` // ok | wrong | garbage
	S int    `json:"s"` // node id (1-based)
}

type body struct {
	Cmd  string `json:"cmd"` // add | update | remove | bogus
	Tgt  int    `json:"tgt"`
	Pw   int64  `json:"pw"`
	Addr string `json:"addr"`
	N    uint64 `json:"n"`
	Ct   string `json:"ct"`   // ok | bad   (outer, unsigned CmdType)
	Self string `json:"self"` // ok | bad   (self signature of the added node)
}

func decode(v interface{}, out interface{}) {
	b, _ := json.Marshal(v)
	if err := json.Unmarshal(b, out); err != nil {
		panic(fmt.Sprintf("decode %s: %v", b, err))
	}
}

type world struct {
	nodes    []*chainutil.Key // index = node id - 1
	ring     chainutil.KeyRing
	accounts map[string]*account
	abi      abi.ABI
	variant  int
}

func (w *world) msgOf(b body) []byte {
	cmdName := map[string]gtypes.ValidatorCmd{"add": gtypes.ValidatorCmdAddPeer, "update": gtypes.ValidatorCmdUpdateNode,
		"remove": gtypes.ValidatorCmdRemoveNode, "bogus": gtypes.ValidatorCmd("promote_node")}[b.Cmd]
	attr := &gtypes.ValidatorAttr{PubKey: w.nodes[b.Tgt-1].PubBytes(), Power: b.Pw, Cmd: cmdName,
		Addr: w.accounts[b.Addr].addr.Bytes(), Nonce: b.N}
	m, err := json.Marshal(attr)
	if err != nil {
		panic(err)
	}
	return m
}

// otherMsg returns a message that differs from the request in exactly one signed field.
func (w *world) otherMsg(b body, k int) []byte {
	o := b
	switch k % 4 {
	case 0:
		o.N = b.N + 1
	case 1:
		o.Pw = b.Pw + 1
	case 2:
		o.Tgt = b.Tgt%len(w.nodes) + 1
	case 3:
		if b.Cmd == "remove" {
			o.Cmd = "update"
		} else {
			o.Cmd = "remove"
		}
	}
	return w.msgOf(o)
}

// adminCmd concretises (body, signature list) into the JSON the client tool produces.
// occ counts how often a signer already occurred, to vary the concrete form of repeated entries.
func (w *world) adminCmd(b body, sigs []sigEntry, tag int64) []byte {
	msg := w.msgOf(b)
	cmd := &gtypes.AdminOPCmd{CmdType: gtypes.AdminOpChangeValidator, Msg: msg, Time: time.Unix(tag, 0).UTC()}
	if b.Ct != "ok" {
		cmd.CmdType = "changeValidators"
	}
	tgt := w.nodes[b.Tgt-1]
	if b.Cmd == "add" {
		if b.Self == "ok" {
			cmd.SelfSign = tgt.Sign(msg)
		} else {
			cmd.SelfSign = tgt.Sign(w.otherMsg(b, w.variant))
		}
	}
	occ := map[int]int{}
	for i, e := range sigs {
		k := w.nodes[e.S-1]
		var si gtypes.SigInfo
		switch e.K {
		case "ok":
			si = gtypes.SigInfo{PubKey: k.PubBytes(), Signature: k.Sign(msg)}
			// a repeated signer appears in different concrete forms: identical entry, key or signature with
			// trailing bytes (SetNodePubkey/SetNodeSignature copy the first 32/64 bytes)
			switch (occ[e.S] + w.variant) % 3 {
			case 1:
				if occ[e.S] > 0 {
					si.PubKey = append(si.PubKey, 0x01, 0x02)
				}
			case 2:
				if occ[e.S] > 0 {
					si.Signature = append(si.Signature, 0xff)
				}
			}
			occ[e.S]++
		case "wrong":
			si = gtypes.SigInfo{PubKey: k.PubBytes(), Signature: k.Sign(w.otherMsg(b, i+w.variant))}
		case "garbage":
			switch (i + w.variant) % 4 {
			case 0:
				si = gtypes.SigInfo{PubKey: k.PubBytes(), Signature: bytes.Repeat([]byte{0x5a}, 64)}
			case 1:
				si = gtypes.SigInfo{PubKey: k.PubBytes(), Signature: k.Sign(msg)[:40]} // truncated
			case 2:
				si = gtypes.SigInfo{PubKey: k.PubBytes()[:20], Signature: k.Sign(msg)} // truncated key
			case 3:
				si = gtypes.SigInfo{} // empty entry
			}
		default:
			panic("sig kind " + e.K)
		}
		cmd.SInfos = append(cmd.SInfos, si)
	}
	j, err := json.Marshal(cmd)
	if err != nil {
		panic(err)
	}
	return j
}

// ethTx wraps an admin command into a signed Ethereum transaction.
func (w *world) ethTx(snd *account, nonce uint64, route string, claimedFrom common.Address, adminJSON []byte) []byte {
	txdata := gtypes.TagAdminOPTx(adminJSON)
	var to common.Address
	var data []byte
	switch route {
	case "contract":
		to = core.AdminTo
		var err error
		data, err = w.abi.Pack(core.AdminMethod, txdata)
		if err != nil {
			panic(err)
		}
	case "direct":
		// what the Admin contract hands to the precompile: abi.encodePacked(msg.sender, txdata) preceded by
		// its length word -- here with a sender of the caller's choosing
		to = precompileAddr
		packed := append(append([]byte(nil), claimedFrom.Bytes()...), txdata...)
		data = append(common.LeftPadBytes(big.NewInt(int64(len(packed))).Bytes(), 32), packed...)
	case "static":
		// a contract of the submitter's making (the init code of a creation transaction) STATICCALLs 0xfe with the payload the
		// Admin contract would hand over - with a sender of its choosing - and reverts when the call is refused
		packed := append(append([]byte(nil), claimedFrom.Bytes()...), txdata...)
		payload := append(common.LeftPadBytes(big.NewInt(int64(len(packed))).Bytes(), 32), packed...)
		n := len(payload)
		code := []byte{
			0x61, byte(n >> 8), byte(n), // PUSH2 size
			0x61, 0, 0, // PUSH2 offset of the payload in the code (patched below)
			0x60, 0x00, 0x39, // PUSH1 0; CODECOPY
			0x60, 0x00, 0x60, 0x00, // out size, out offset
			0x61, byte(n >> 8), byte(n), // in size
			0x60, 0x00, // in offset
			0x60, 0xfe, // address
			0x5a, 0xfa, // GAS; STATICCALL
			0x60, 0, 0x57, // PUSH1 ok; JUMPI (patched below)
			0x60, 0x00, 0x60, 0x00, 0xfd, // REVERT(0,0)
			0x5b, 0x00, // ok: JUMPDEST; STOP
		}
		code[23] = byte(len(code) - 2)
		code[4], code[5] = byte(len(code)>>8), byte(len(code))
		initCode := append(code, payload...)
		tx := etypes.NewContractCreation(nonce, big.NewInt(0), 3000000, big.NewInt(0), initCode)
		signed, err := etypes.SignTx(tx, etypes.HomesteadSigner{}, snd.key)
		if err != nil {
			panic(err)
		}
		raw, err := rlp.EncodeToBytes(signed)
		if err != nil {
			panic(err)
		}
		return raw
	default:
		panic("route " + route)
	}
	tx := etypes.NewTransaction(nonce, to, big.NewInt(0), 3000000, big.NewInt(0), data)
	signed, err := etypes.SignTx(tx, etypes.HomesteadSigner{}, snd.key)
	if err != nil {
		panic(err)
	}
	raw, err := rlp.EncodeToBytes(signed)
	if err != nil {
		panic(err)
	}
	return raw
}

// ---------------------------------------------------------------------------------------------
// blocks

type txPlan struct {
	raw   []byte
	want  string // result class of the spec
	tag   int64
	body  body
	sigs  []sigEntry
	route string
	snd   string
	step  int
	label string
}

type builtBlock struct {
	plans []*txPlan
	block *gtypes.Block
	parts *gtypes.PartSet
	seen  *gtypes.Commit
	// first execution's observations, for cross-replica comparison
	nextHash string
	appHash  string
	results  []string
}

func classify(errStr string, changed bool) string {
	switch {
	case errStr == "":
		if changed {
			return "ok"
		}
		return "noop"
	case strings.HasPrefix(errStr, "need more than 2/3"):
		return "rejAuth"
	case errStr == "unsupported admin operation":
		return "rejType"
	case strings.HasPrefix(errStr, "unsupported admin operation:"):
		return "rejCmd"
	case strings.HasPrefix(errStr, "verify nonce err"):
		return "rejFrom"
	case strings.HasPrefix(errStr, "admin nonce error"):
		return "rejNonce"
	case strings.HasPrefix(errStr, "self verify failed"):
		return "rejSelf"
	case strings.HasPrefix(errStr, "not add into chain"):
		return "rejMember"
	case strings.HasPrefix(errStr, "parse validator err"):
		return "rejParse"
	}
	return "err:" + errStr
}

func accepting(c string) bool { return c == "ok" }

// ---------------------------------------------------------------------------------------------

type runner struct {
	rep    *mbt.Report
	ti     int
	tr     mbt.Trace
	w      *world
	reps   map[int]*replica
	order  []int
	blocks []*builtBlock
	open   []*txPlan
	sent   map[string]uint64 // eth nonce per account = number of transactions submitted
	last   map[string][]byte // last raw transaction per account
	base   int64 // height of the replicas when the behaviour starts (replicas are reused across behaviours)
	pair   *pair
	raceAt int  // > 0: the next block execution has a query parked at the precompile inside transaction raceAt's window
	dirty  bool // the replicas must not be reused after this behaviour
	suffix string
}

// pair is a set of live replicas shared by consecutive behaviours: setting up an EVM application with its LevelDB
// stores costs far more than replaying a behaviour.  A behaviour starts by installing its initial validator set in
// every replica's State (the heights simply continue) and uses fresh accounts; replicas are discarded after any
// failure, failed block or incomplete behaviour.
type pair struct {
	reps     map[int]*replica
	dir      string
	lastSeen *gtypes.Commit
	nodes    int
	tagSeq   int64
}

func newPair(base string, seq int, nodes []*chainutil.Key, powers []int64, nrep int) (*pair, error) {
	p := &pair{reps: map[int]*replica{}, dir: filepath.Join(base, fmt.Sprintf("p%d", seq)), nodes: len(nodes), tagSeq: 1000}
	gen := chainutil.Genesis(nodes, powers, "adminOp")
	observer := chainutil.NewKey("observer")
	for id := 1; id <= nrep; id++ {
		r, err := newReplica(id, filepath.Join(p.dir, fmt.Sprintf("r%d", id)), gen, observer)
		if err != nil {
			p.close()
			return nil, err
		}
		p.reps[id] = r
	}
	return p, nil
}

func (p *pair) warmup(w *world) error {
	st := p.reps[1].kit.State()
	b, parts := chainutil.Proposal(st, []gtypes.Tx{}, []gtypes.Tx{}, nil, nil, p.reps[1].kit.Conf.GetInt("block_part_size"))
	seen, err := chainutil.Commit(chainutil.ChainID, st.Validators, w.ring, b.Height, 0, gtypes.BlockID{Hash: b.Hash(), PartsHeader: parts.Header()}, nil)
	if err != nil {
		return err
	}
	for _, r := range p.reps {
		r.bind()
		if err := r.kit.Apply(b, parts, seen, 0); err != nil {
			return err
		}
	}
	p.lastSeen = seen
	return nil
}

func (p *pair) close() {
	for _, r := range p.reps {
		r.stop()
	}
	os.RemoveAll(p.dir)
}

var (
	livePair *pair
	pairSeq  int
)

func (rn *runner) fail(si int, st mbt.Step, kind string, prop bool, key, detail string, want, got interface{}) {
	rn.rep.Fail(mbt.Failure{Trace: rn.ti, TraceID: rn.tr.ID, Step: si, Action: fmt.Sprintf("%s%v", st.A, st.Args),
		Kind: kind, Property: prop, Key: key, Detail: detail, Want: want, Got: got})
}

func specVals(v interface{}) map[int]int64 {
	out := map[int]int64{}
	switch x := v.(type) {
	case []interface{}:
		for i, p := range x {
			out[i+1] = int64(mbt.Int(p))
		}
	case map[string]interface{}:
		for k, p := range x {
			var id int
			fmt.Sscanf(k, "%d", &id)
			out[id] = int64(mbt.Int(p))
		}
	}
	return out
}

// wantView turns the spec's [node -> power] into the (address-sorted) membership/power projection.
func (rn *runner) wantView(v interface{}) (addrs []string, powers []int64) {
	type ap struct {
		a string
		p int64
	}
	var l []ap
	for id, p := range specVals(v) {
		if p >= 0 {
			l = append(l, ap{fmt.Sprintf("%X", rn.w.nodes[id-1].Addr), p})
		}
	}
	sort.Slice(l, func(i, j int) bool { return l[i].a < l[j].a })
	for _, x := range l {
		addrs = append(addrs, x.a)
		powers = append(powers, x.p)
	}
	return
}

// oracleAuthorised evaluates the property's notion of authorisation directly on the real validator set.
func (rn *runner) oracleAuthorised(vs *gtypes.ValidatorSet, p *txPlan) bool {
	seen := map[string]bool{}
	var pw int64
	for _, e := range p.sigs {
		if e.K != "ok" {
			continue
		}
		k := rn.w.nodes[e.S-1]
		_, val := vs.GetByAddress(k.Addr)
		if val == nil || val.VotingPower <= 0 || seen[string(k.Addr)] {
			continue
		}
		seen[string(k.Addr)] = true
		pw += val.VotingPower
	}
	return 3*pw > 2*vs.TotalVotingPower()
}

func (rn *runner) exec(si int, st mbt.Step, rid int, wantOut string) bool {
	r := rn.reps[rid]
	stt := r.kit.State()
	k := int(stt.LastBlockHeight - rn.base) // index of the block to execute
	if k < 0 || k >= len(rn.blocks) {
		rn.fail(si, st, "error", false, "", fmt.Sprintf("replica %d has no block %d to execute", rid, k+1), nil, nil)
		return false
	}
	bb := rn.blocks[k]
	if bb.block == nil {
		lastCommit := rn.pair.lastSeen
		if k > 0 {
			lastCommit = rn.blocks[k-1].seen
		}
		var txs []gtypes.Tx
		for _, p := range bb.plans {
			txs = append(txs, gtypes.Tx(p.raw))
		}
		bb.block, bb.parts = chainutil.Proposal(stt, txs, []gtypes.Tx{}, lastCommit, nil, r.kit.Conf.GetInt("block_part_size"))
		bid := gtypes.BlockID{Hash: bb.block.Hash(), PartsHeader: bb.parts.Header()}
		seen, err := chainutil.Commit(chainutil.ChainID, stt.Validators, rn.w.ring, bb.block.Height, 0, bid, nil)
		if err != nil {
			rn.fail(si, st, "error", false, "", "cannot commit block: "+err.Error(), nil, nil)
			return false
		}
		bb.seen = seen
	}
	valsBefore := stt.Validators.Copy()
	r.calls = nil
	r.bind()
	// ExecQ: while transaction raceAt sits between run()'s SetState/SetCaller and AdminOP.Run's reads of the
	// process-wide precompile object (Gate at the entry of Run), another goroutine serves a read-only contract
	// query carrying the same transaction bytes on this replica, to completion.
	racing := (*txPlan)(nil)
	if rn.raceAt > 0 && rn.raceAt <= len(bb.plans) && bb.plans[rn.raceAt-1].route != "resend" && bb.plans[rn.raceAt-1].route != "static" {
		racing = bb.plans[rn.raceAt-1]
		target, hits, served := 0, 0, false
		for _, pl := range bb.plans[:rn.raceAt] {
			if pl.route != "resend" {
				target++
			}
		}
		verifhook.GateFn = func(site string) {
			if site != "vm.AdminOP.Run" {
				return
			}
			hits++
			if hits != target || served {
				return
			}
			served = true
			done := make(chan struct{})
			go func() {
				defer close(done)
				mbt.Catch(func() { r.app.Query(append([]byte{0}, racing.raw...)) }) // QueryType_Contract
			}()
			select {
			case <-done:
				rn.rep.Count("race:query-served-in-window")
			case <-time.After(20 * time.Second):
				rn.rep.Count("race:query-blocked")
			}
		}
		defer func() {
			verifhook.GateFn = nil
			if !served {
				rn.rep.Count("race:window-not-reached")
			}
		}()
	}
	rn.raceAt = 0
	var aerr error
	p, stack := mbt.Catch(func() { aerr = r.kit.Apply(bb.block, bb.parts, bb.seen, 0) })
	verifhook.GateFn = nil
	rn.rep.Checks++
	if p != nil {
		rn.fail(si, st, "panic", true, "ExecBlock-panic", fmt.Sprintf("replica %d block %d: %v\n%s", rid, k+1, p, stack), nil, nil)
		return false
	}
	got := "ok"
	if aerr != nil {
		got = "endBlockError"
		if !strings.Contains(aerr.Error(), "emove validator") {
			got = "error:" + aerr.Error()
		}
	}
	rn.rep.Count("exec:" + strings.SplitN(got, ":", 2)[0])
	if got != wantOut {
		// a replica that cannot execute a block the other one executed is a divergence between replicas
		rn.fail(si, st, "mismatch", true, "Exec-outcome:"+wantOut+":"+strings.SplitN(got, ":", 2)[0], fmt.Sprintf("replica %d block %d: %v", rid, k+1, aerr), wantOut, got)
		return false
	}
	// per-transaction results
	byTag := map[int64]cbRecord{}
	for _, c := range r.calls {
		if _, dup := byTag[c.tag]; dup {
			rn.fail(si, st, "property", true, "raw-tx-executed-twice", fmt.Sprintf("replica %d block %d: the admin plugin was reached twice for the same transaction (tag %d)", rid, k+1, c.tag), nil, nil)
		}
		byTag[c.tag] = c
	}
	var results []string
	for _, pl := range bb.plans {
		if pl.route == "resend" {
			// identical bytes as an earlier transaction: its (non-)execution is observed through the
			// duplicate-call check above and the account nonce check below
			results = append(results, "invalidTx")
			rn.rep.Count("tx:resend")
			continue
		}
		var obs string
		found, status := false, uint64(0)
		if aerr == nil {
			found, status = r.receipt(pl.raw)
		}
		if c, ok := byTag[pl.tag]; ok {
			obs = classify(c.err, c.changed)
		} else if aerr != nil || found {
			obs = "rejRoute" // executed, the plugin was never reached
			if aerr == nil && status == 1 {
				obs = "silent-success"
			}
		} else {
			obs = "invalidTx"
		}
		results = append(results, obs)
		rn.rep.Checks++
		rn.rep.Count("tx:" + obs)
		if obs != pl.want && pl == racing {
			rn.fail(pl.step, st, "property", true, "OutcomeFromBlockAlone:"+pl.want+":"+strings.SplitN(obs, ":", 2)[0],
				fmt.Sprintf("replica %d block %d %s: the outcome of the block's request changed because a read-only query was served while it executed", rid, k+1, pl.label), pl.want, obs)
		}
		if obs != pl.want {
			prop := accepting(obs) || accepting(pl.want) || obs == "noop" || pl.want == "noop" || strings.HasPrefix(obs, "err:") || obs == "silent-success" || obs == "invalidTx" || pl.want == "invalidTx"
			rn.fail(pl.step, st, "mismatch", prop, "Tx-result:"+pl.want+":"+strings.SplitN(obs, ":", 2)[0], fmt.Sprintf("replica %d block %d %s: request outcome differs", rid, k+1, pl.label), pl.want, obs)
		}
		// receipt status must agree with the outcome
		if aerr == nil {
			if (obs == "ok" || obs == "noop") != (found && status == 1) && obs != "invalidTx" {
				rn.fail(pl.step, st, "mismatch", true, "receipt-status", fmt.Sprintf("%s: outcome %s but receipt found=%v status=%d", pl.label, obs, found, status), nil, nil)
			}
		}
		// the property evaluated directly, independent of the model
		if accepting(obs) {
			if !rn.oracleAuthorised(valsBefore, pl) {
				rn.fail(pl.step, st, "property", true, "ChangeOnlyIfAuthorised", fmt.Sprintf("%s accepted although distinct valid current signers do not exceed 2/3", pl.label), nil, nil)
			}
			if pl.route != "contract" || pl.body.Addr != pl.snd {
				rn.fail(pl.step, st, "property", true, "SenderBound", fmt.Sprintf("%s accepted although it was not submitted by the account it is bound to", pl.label), nil, nil)
			}
		}
	}
	if aerr != nil {
		// nothing may have changed
		rn.dirty = true
		if stt.LastBlockHeight != rn.base+int64(k) || !bytes.Equal(stt.Validators.Hash(), valsBefore.Hash()) {
			rn.fail(si, st, "mismatch", true, "failed-block-changed-state", "state changed although ExecBlock failed", nil, nil)
		}
		return true
	}
	// account nonces: every valid transaction consumed exactly one nonce, a re-sent one none
	wantNonce := map[string]uint64{}
	for _, ob := range rn.blocks[:k+1] {
		for _, pl := range ob.plans {
			if pl.want != "invalidTx" {
				wantNonce[pl.snd]++
			}
		}
	}
	for name, acct := range rn.w.accounts {
		res := r.app.Query(append([]byte{1}, acct.addr.Bytes()...)) // QueryType_Nonce
		var got uint64
		rlp.DecodeBytes(res.Data, &got)
		rn.rep.Checks++
		if got != wantNonce[name] {
			rn.fail(si, st, "mismatch", true, "account-nonce", fmt.Sprintf("replica %d block %d: nonce of account %s", rid, k+1, name), wantNonce[name], got)
		}
	}
	// resulting validator set
	nextHash := fmt.Sprintf("%X", stt.Validators.Hash())
	appHash := fmt.Sprintf("%X", stt.AppHash)
	if bb.nextHash == "" {
		bb.nextHash, bb.appHash, bb.results = nextHash, appHash, results
	} else {
		rn.rep.Checks++
		if bb.nextHash != nextHash {
			rn.fail(si, st, "property", true, "UniformApplication", fmt.Sprintf("block %d: replicas computed different next validator sets", k+1), bb.nextHash, nextHash)
		}
		if bb.appHash != appHash {
			rn.fail(si, st, "property", true, "UniformApplication-apphash", fmt.Sprintf("block %d: replicas computed different application hashes", k+1), bb.appHash, appHash)
		}
	}
	return true
}

func (rn *runner) compareRep(si int, st mbt.Step, rid int) {
	r := rn.reps[rid]
	repv := st.Post["rep"]
	var mine interface{}
	switch x := repv.(type) {
	case []interface{}:
		mine = x[rid-1]
	case map[string]interface{}:
		mine = x[fmt.Sprint(rid)]
	}
	m := mine.(map[string]interface{})
	wantH := rn.base + int64(mbt.Int(m["h"]))
	wa, wp := rn.wantView(m["vals"])
	h, vs := r.kit.Ang.GetValidators()
	v := chainutil.View(vs)
	rn.rep.Checks++
	if h != wantH {
		rn.fail(si, st, "mismatch", true, "replica-height", fmt.Sprintf("replica %d height", rid), wantH, h)
		return
	}
	if !mbt.Equal(mbt.Canon(wa), mbt.Canon(v.Addr)) || !mbt.Equal(mbt.Canon(wp), mbt.Canon(v.Power)) {
		rn.fail(si, st, "mismatch", true, "valset", fmt.Sprintf("replica %d: validator set for height %d differs from the specification", rid, h+1),
			map[string]interface{}{"addr": wa, "power": wp}, map[string]interface{}{"addr": v.Addr, "power": v.Power})
	}
}

func runTrace(rep *mbt.Report, ti int, tr mbt.Trace, base string) {
	w := &world{accounts: map[string]*account{}, variant: ti}
	n := mbt.Int(tr.Cfg["Nodes"])
	var powers []int64
	for _, p := range tr.Cfg["InitPower"].([]interface{}) {
		powers = append(powers, int64(mbt.Int(p)))
	}
	for i := 0; i < n; i++ {
		w.nodes = append(w.nodes, chainutil.NewKey(fmt.Sprintf("n%d", i+1)))
	}
	w.ring = chainutil.Ring(w.nodes...)
	for _, a := range tr.Cfg["Accounts"].([]interface{}) {
		w.accounts[a.(string)] = newAccount(fmt.Sprintf("%s-%d-%s", a.(string), ti, tr.ID))
	}
	var err error
	w.abi, err = abi.JSON(strings.NewReader(core.AdminABI))
	if err != nil {
		panic(err)
	}
	nrep := 2
	if v, ok := tr.Cfg["Replicas"]; ok {
		nrep = mbt.Int(v)
	}
	if livePair != nil && (livePair.nodes != n || len(livePair.reps) != nrep) {
		livePair.close()
		livePair = nil
	}
	if livePair == nil {
		pairSeq++
		p, err := newPair(base, pairSeq, w.nodes, powers, nrep)
		if err != nil {
			rep.Fail(mbt.Failure{Trace: ti, TraceID: tr.ID, Kind: "error", Detail: "replica setup: " + err.Error()})
			return
		}
		livePair = p
		rep.Count("replica_sets_created")
		// one empty block, so that contract queries have a header to run on whatever the behaviour's first step is
		if err := p.warmup(w); err != nil {
			rep.Fail(mbt.Failure{Trace: ti, TraceID: tr.ID, Kind: "error", Detail: "warm-up block: " + err.Error()})
			p.close()
			livePair = nil
			return
		}
	}
	rn := &runner{rep: rep, ti: ti, tr: tr, w: w, reps: livePair.reps, pair: livePair, sent: map[string]uint64{}, last: map[string][]byte{}}
	nfail := rep.Counters["failures"]
	// the behaviour's initial validator set, identical on every replica; heights continue
	var initVals []*gtypes.Validator
	for i, k := range w.nodes {
		if powers[i] >= 0 {
			initVals = append(initVals, gtypes.NewValidator(k.Pub, powers[i], powers[i] > 0))
		}
	}
	rn.base = rn.reps[1].kit.State().LastBlockHeight
	for _, r := range rn.reps {
		if r.kit.State().LastBlockHeight != rn.base {
			panic("replicas of a reused set are at different heights")
		}
		r.kit.State().Validators = gtypes.NewValidatorSet(initVals)
	}
	defer func() {
		// reuse the replicas only if the behaviour completed cleanly on all of them
		clean := !rn.dirty && len(rn.open) == 0 && rep.Counters["failures"] == nfail
		for _, r := range rn.reps {
			if r.kit.State().LastBlockHeight != rn.base+int64(len(rn.blocks)) {
				clean = false
			}
		}
		if r := recover(); r != nil {
			livePair.close()
			livePair = nil
			panic(r)
		}
		if !clean {
			livePair.close()
			livePair = nil
			return
		}
		if len(rn.blocks) > 0 {
			livePair.lastSeen = rn.blocks[len(rn.blocks)-1].seen
		}
	}()
	for si, st := range tr.Steps {
		rep.Steps++
		switch st.A {
		case "Tx":
			var b body
			var sigs []sigEntry
			decode(st.Args[0], &b)
			decode(st.Args[1], &sigs)
			route, snd, want := mbt.Str(st.Args[2]), mbt.Str(st.Args[3]), mbt.Str(st.Args[4])
			rn.pair.tagSeq++
			pl := &txPlan{want: want, tag: rn.pair.tagSeq, body: b, sigs: sigs, route: route, snd: snd, step: si,
				label: fmt.Sprintf("Tx(%s n%d pw%d addr=%s n=%d sigs=%v route=%s sender=%s)", b.Cmd, b.Tgt, b.Pw, b.Addr, b.N, sigs, route, snd)}
			adminJSON := w.adminCmd(b, sigs, pl.tag)
			acct := w.accounts[snd]
			pl.raw = w.ethTx(acct, rn.sent[snd], route, w.accounts[b.Addr].addr, adminJSON)
			rn.sent[snd]++
			rn.last[snd] = pl.raw
			rn.open = append(rn.open, pl)
		case "Resend":
			snd := mbt.Str(st.Args[0])
			rn.pair.tagSeq++
			pl := &txPlan{want: "invalidTx", tag: -2, route: "resend", snd: snd, step: si, raw: rn.last[snd], label: "Resend(" + snd + ")"}
			rn.open = append(rn.open, pl)
		case "CloseBlock":
			rn.blocks = append(rn.blocks, &builtBlock{plans: rn.open})
			rn.open = nil
		case "Exec":
			rid := mbt.Int(st.Args[0])
			if !rn.exec(si, st, rid, mbt.Str(st.Args[1])) {
				return
			}
			rn.compareRep(si, st, rid)
		case "ExecQ":
			rid := mbt.Int(st.Args[0])
			rn.raceAt = mbt.Int(st.Args[1])
			if !rn.exec(si, st, rid, mbt.Str(st.Args[2])) {
				return
			}
			rn.compareRep(si, st, rid)
		case "Query":
			rid := mbt.Int(st.Args[0])
			var b body
			var sigs []sigEntry
			decode(st.Args[1], &b)
			decode(st.Args[2], &sigs)
			snd, want := mbt.Str(st.Args[3]), mbt.Str(st.Args[4])
			rn.pair.tagSeq++
			tag := rn.pair.tagSeq
			raw := w.ethTx(w.accounts[snd], rn.sent[snd], "contract", w.accounts[b.Addr].addr, w.adminCmd(b, sigs, tag))
			r := rn.reps[rid]
			r.calls = nil
			r.bind()
			before := len(r.kit.Ang.VerifAsmAdminOp().ChangedValidators)
			p, stack := mbt.Catch(func() { r.app.Query(append([]byte{0}, raw...)) }) // QueryType_Contract
			rep.Checks++
			rep.Count("query")
			if p != nil {
				rn.fail(si, st, "panic", true, "Query-panic", fmt.Sprintf("%v\n%s", p, stack), nil, nil)
				return
			}
			obs := "rejQuery"
			for _, c := range r.calls {
				if c.tag == tag {
					obs = classify(c.err, c.changed)
				}
			}
			after := len(r.kit.Ang.VerifAsmAdminOp().ChangedValidators)
			if after != before {
				rn.fail(si, st, "property", true, "UniformApplication", fmt.Sprintf("a read-only query on replica %d staged %d validator change(s) in its admin plugin", rid, after-before), nil, nil)
			}
			if obs != want {
				rn.fail(si, st, "mismatch", accepting(obs) || accepting(want), "Query-result:"+want+":"+strings.SplitN(obs, ":", 2)[0], "query outcome differs", want, obs)
			}
		case "Check":
			// CheckMajor23 alone, on the plugin of replica 1 against its current validator set
			var sigs []sigEntry
			decode(st.Args[0], &sigs)
			want := st.Args[1].(bool)
			r := rn.reps[1]
			probe := body{Cmd: "update", Tgt: 1, Pw: 1, Addr: firstAccount(w), N: 7, Ct: "ok", Self: "ok"}
			cmd := &gtypes.AdminOPCmd{}
			json.Unmarshal(w.adminCmd(probe, sigs, 1), cmd)
			var got bool
			p, stack := mbt.Catch(func() { got = r.kit.Ang.VerifAsmAdminOp().CheckMajor23(cmd) })
			rep.Checks++
			rep.Count("check")
			pl := &txPlan{sigs: sigs}
			if p != nil {
				rn.fail(si, st, "panic", true, "CheckMajor23-panic", fmt.Sprintf("%v\n%s", p, stack), nil, nil)
			} else {
				if got != want {
					rn.fail(si, st, "mismatch", true, fmt.Sprintf("CheckMajor23:%v:%v", want, got), "CheckMajor23 differs from the specification", want, got)
				}
				if got != rn.oracleAuthorised(r.kit.State().Validators, pl) {
					rn.fail(si, st, "property", true, "CountedOnce", fmt.Sprintf("CheckMajor23=%v but distinct valid current signers exceed 2/3: %v", got, !got), nil, nil)
				}
			}
		default:
			rn.fail(si, st, "error", false, "", "unknown action "+st.A, nil, nil)
			return
		}
	}
}

func firstAccount(w *world) string {
	var names []string
	for n := range w.accounts {
		names = append(names, n)
	}
	sort.Strings(names)
	return names[0]
}

func main() {
	chainutil.Init()
	// signature pre-validation of a block's transactions uses runtime.NumCPU() spinning goroutines; two are enough
	// for blocks of <= 5 transactions and leave the shared machine alone (same code path)
	evm.VerifSetValidateRoutines(2)
	if len(os.Args) < 2 {
		fmt.Fprintln(os.Stderr, "usage: adminop traces.json | adminop -probe name")
		os.Exit(2)
	}
	tmpRoot := ""
	if fi, err := os.Stat("/dev/shm"); err == nil && fi.IsDir() {
		tmpRoot = "/dev/shm" // LevelDB syncs on every commit; keep the replicas' stores in memory
	}
	base, err := os.MkdirTemp(tmpRoot, "vadminop-")
	if err != nil {
		fmt.Fprintln(os.Stderr, err)
		os.Exit(2)
	}
	defer os.RemoveAll(base)
	if os.Args[1] == "-probe" {
		probe(os.Args[2], base)
		return
	}
	traces, err := mbt.LoadTraces(os.Args[1])
	if err != nil {
		fmt.Fprintln(os.Stderr, "load:", err)
		os.RemoveAll(base)
		os.Exit(2)
	}
	rep := mbt.NewReport()
	for ti, tr := range traces {
		rep.Traces++
		p, stack := mbt.Catch(func() { runTrace(rep, ti, tr, base) })
		if p != nil {
			rep.Fail(mbt.Failure{Trace: ti, TraceID: tr.ID, Kind: "panic", Property: false, Key: "driver-panic", Detail: fmt.Sprintf("%v\n%s", p, stack)})
		}
	}
	if livePair != nil {
		livePair.close()
	}
	rep.Emit()
}
