package main

import (
	"encoding/json"
	"fmt"
	"os"
	"strings"

	"github.com/dappledger/AnnChain/eth/accounts/abi"
	"github.com/dappledger/AnnChain/eth/core"

	"verifharness/chainutil"
	"verifharness/mbt"
)

// Minimal reproductions against the real code, written as hand-made behaviours whose expectations are what
// the PROPERTY demands (not what the code is suspected to do).  `adminop -probe dup|direct|all`.

func jv(s string) interface{} {
	var v interface{}
	if err := json.Unmarshal([]byte(s), &v); err != nil {
		panic(err)
	}
	return v
}

func step(a string, args string, post string) mbt.Step {
	st := mbt.Step{A: a}
	if args != "" {
		st.Args = jv(args).([]interface{})
	}
	if post != "" {
		st.Post = jv(post).(map[string]interface{})
	}
	return st
}

func probeTraces() map[string]mbt.Trace {
	cfg := jv(`{"Nodes":5,"InitPower":[1,1,1,1,-1],"Accounts":["a","b","z"],"Replicas":2}`).(map[string]interface{})
	full := `[{"k":"ok","s":1},{"k":"ok","s":2},{"k":"ok","s":3},{"k":"ok","s":4}]`
	dup := `[{"k":"ok","s":1},{"k":"ok","s":1},{"k":"ok","s":1}]`
	v0 := `[1,1,1,1,-1]`
	rep := func(h1 int, v1 string, h2 int, v2 string) string {
		return fmt.Sprintf(`{"rep":[{"h":%d,"vals":%s},{"h":%d,"vals":%s}]}`, h1, v1, h2, v2)
	}
	out := map[string]mbt.Trace{}
	// one validator's signature repeated three times: 1/4 of the power
	out["dup"] = mbt.Trace{ID: "probe-dup", Cfg: cfg, Steps: []mbt.Step{
		step("Tx", `[{"cmd":"update","tgt":2,"pw":2,"addr":"a","n":0,"ct":"ok","self":"ok"},`+dup+`,"contract","a","rejAuth"]`, ""),
		step("CloseBlock", "", ""),
		step("Exec", `[1,"ok"]`, rep(1, v0, 0, v0)),
		step("Exec", `[2,"ok"]`, rep(1, v0, 1, v0)),
	}}
	// R1 (a,n=0): n2 -> 2 ; R2 (b,n=0): n2 -> 1 ; then z replays R1 by calling 0xfe directly with from=a
	v1 := `[1,2,1,1,-1]`
	out["direct"] = mbt.Trace{ID: "probe-direct", Cfg: cfg, Steps: []mbt.Step{
		step("Tx", `[{"cmd":"update","tgt":2,"pw":2,"addr":"a","n":0,"ct":"ok","self":"ok"},`+full+`,"contract","a","ok"]`, ""),
		step("CloseBlock", "", ""),
		step("Exec", `[1,"ok"]`, rep(1, v1, 0, v0)),
		step("Exec", `[2,"ok"]`, rep(1, v1, 1, v1)),
		step("Tx", `[{"cmd":"update","tgt":2,"pw":1,"addr":"b","n":0,"ct":"ok","self":"ok"},`+full+`,"contract","b","ok"]`, ""),
		step("CloseBlock", "", ""),
		step("Exec", `[1,"ok"]`, rep(2, v0, 1, v1)),
		step("Exec", `[2,"ok"]`, rep(2, v0, 2, v0)),
		step("Tx", `[{"cmd":"update","tgt":2,"pw":2,"addr":"a","n":0,"ct":"ok","self":"ok"},`+full+`,"direct","z","rejRoute"]`, ""),
		step("CloseBlock", "", ""),
		step("Exec", `[1,"ok"]`, rep(3, v0, 2, v0)),
		step("Exec", `[2,"ok"]`, rep(3, v0, 3, v0)),
	}}
	// sanity: a fully signed add + update + remove sequence
	v2 := `[1,1,1,1,0]`
	v3 := `[1,1,1,1,2]`
	v4 := `[1,1,1,-1,2]`
	out["sane"] = mbt.Trace{ID: "probe-sane", Cfg: cfg, Steps: []mbt.Step{
		step("Tx", `[{"cmd":"add","tgt":5,"pw":0,"addr":"a","n":0,"ct":"ok","self":"ok"},`+full+`,"contract","a","ok"]`, ""),
		step("Tx", `[{"cmd":"add","tgt":5,"pw":0,"addr":"a","n":0,"ct":"ok","self":"ok"},`+full+`,"contract","a","rejNonce"]`, ""),
		step("Tx", `[{"cmd":"add","tgt":5,"pw":0,"addr":"a","n":0,"ct":"ok","self":"ok"},`+full+`,"contract","b","rejFrom"]`, ""),
		step("Resend", `["a"]`, ""),
		step("CloseBlock", "", ""),
		step("Exec", `[1,"ok"]`, rep(1, v2, 0, v0)),
		step("Tx", `[{"cmd":"update","tgt":5,"pw":2,"addr":"a","n":2,"ct":"ok","self":"ok"},`+full+`,"contract","a","ok"]`, ""),
		step("CloseBlock", "", ""),
		step("Exec", `[1,"ok"]`, rep(2, v3, 0, v0)),
		step("Exec", `[2,"ok"]`, rep(2, v3, 1, v2)),
		step("Exec", `[2,"ok"]`, rep(2, v3, 2, v3)),
		step("Tx", `[{"cmd":"remove","tgt":4,"pw":0,"addr":"b","n":1,"ct":"ok","self":"ok"},[{"k":"ok","s":1},{"k":"ok","s":2},{"k":"ok","s":3},{"k":"ok","s":5}],"contract","b","ok"]`, ""),
		step("Tx", `[{"cmd":"remove","tgt":4,"pw":0,"addr":"b","n":2,"ct":"ok","self":"ok"},[{"k":"ok","s":1},{"k":"ok","s":2},{"k":"ok","s":3}],"contract","b","rejAuth"]`, ""),
		step("CloseBlock", "", ""),
		step("Exec", `[2,"ok"]`, rep(2, v3, 3, v4)),
		step("Exec", `[1,"ok"]`, rep(3, v4, 3, v4)),
	}}
	return out
}

// probeQuery: a correctly signed, never submitted request is sent as a read-only contract QUERY to replica 1
// only; then both replicas execute the same block.  Reports the validator sets for the next height.
func probeQuery(base string) {
	tr := probeTraces()["dup"]
	w := &world{accounts: map[string]*account{}}
	for i := 0; i < 5; i++ {
		w.nodes = append(w.nodes, chainutil.NewKey(fmt.Sprintf("n%d", i+1)))
	}
	w.ring = chainutil.Ring(w.nodes...)
	for _, a := range []string{"a", "b", "z"} {
		w.accounts[a] = newAccount(a)
	}
	w.abi, _ = abi.JSON(strings.NewReader(core.AdminABI))
	pr, err := newPair(base, 999, w.nodes, []int64{1, 1, 1, 1, -1}, 2)
	if err != nil {
		panic(err)
	}
	defer pr.close()
	rn := &runner{rep: mbt.NewReport(), tr: tr, w: w, reps: pr.reps, pair: pr, sent: map[string]uint64{}, last: map[string][]byte{}}
	full := []sigEntry{{"ok", 1}, {"ok", 2}, {"ok", 3}, {"ok", 4}}
	b := body{Cmd: "update", Tgt: 2, Pw: 2, Addr: "a", N: 0, Ct: "ok", Self: "ok"}
	raw := w.ethTx(w.accounts["a"], 0, "contract", w.accounts["a"].addr, w.adminCmd(b, full, 77))
	mk := func(acct string, n uint64, tag int64) *builtBlock {
		b2 := body{Cmd: "update", Tgt: 3, Pw: 2, Addr: acct, N: n, Ct: "ok", Self: "ok"}
		pl := &txPlan{want: "rejAuth", tag: tag, body: b2, route: "contract", snd: acct}
		pl.raw = w.ethTx(w.accounts[acct], n, "contract", w.accounts[acct].addr, w.adminCmd(b2, nil, tag))
		return &builtBlock{plans: []*txPlan{pl}}
	}
	rn.blocks = append(rn.blocks, mk("b", 0, 78))
	for id := 1; id <= 2; id++ {
		rn.exec(0, mbt.Step{A: "Exec"}, id, "ok")
	}
	r1 := rn.reps[1]
	r1.bind()
	r1.calls = nil
	res := r1.app.Query(append([]byte{0}, raw...)) // QueryType_Contract
	fmt.Printf("query result code=%v log=%q pluginPending=%d calls=%+v\n", res.Code, res.Log, len(r1.kit.Ang.VerifAsmAdminOp().ChangedValidators), r1.calls)
	rn.blocks = append(rn.blocks, mk("b", 1, 79))
	for id := 1; id <= 2; id++ {
		ok := rn.exec(0, mbt.Step{A: "Exec"}, id, "ok")
		_, vs := rn.reps[id].kit.Ang.GetValidators()
		fmt.Printf("replica %d exec=%v next validators %v\n", id, ok, chainutil.View(vs).Power)
	}
	out, _ := json.Marshal(rn.rep.Failures)
	fmt.Println(string(out))
}

func probe(name, base string) {
	if name == "query" {
		probeQuery(base)
		return
	}
	all := probeTraces()
	rep := mbt.NewReport()
	i := 0
	for n, tr := range all {
		if name != "all" && name != n {
			continue
		}
		rep.Traces++
		p, stack := mbt.Catch(func() { runTrace(rep, i, tr, base) })
		if p != nil {
			rep.Fail(mbt.Failure{Trace: i, TraceID: tr.ID, Kind: "panic", Key: "driver-panic", Detail: fmt.Sprintf("%v\n%s", p, stack)})
		}
		i++
	}
	enc := json.NewEncoder(os.Stdout)
	enc.SetIndent("", " ")
	enc.Encode(rep)
}
