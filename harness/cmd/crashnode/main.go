// crashnode is the REAL AnnChain node binary (same cobra entry as /repo/cmd/genesis) built with
// -tags verif so that the durable-write failpoints of gemmill/verifhook are live.  It is run as a
// subprocess by tools/engines/c06.py:  crashnode init --runtime D --chainid X ;  crashnode run --runtime D
package main

import (
	genesis "github.com/dappledger/AnnChain/chain/commands"
	"github.com/dappledger/AnnChain/gemmill/modules/go-log"
)

func main() {
	defer log.DumpStack()
	genesis.Start()
}
