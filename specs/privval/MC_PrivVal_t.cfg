SPECIFICATION Spec
CONSTANTS
  MaxH = 2
  MaxR = 2
  Blocks = {"A","B"}
  MaxCrash = 2
  MaxFail = 2
VIEW view
INVARIANTS TypeOK DiskCoversReleased MemIsDisk MainIsWhole
PROPERTIES NoConflictingRelease Monotone DurableBeforeRelease DiskMonotone
CHECK_DEADLOCK FALSE
