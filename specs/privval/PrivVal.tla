--------------------------------- MODULE PrivVal ---------------------------------
(* gemmill/types/priv_validator.go (SignVote / SignProposal -> signBytesHRS -> save) on top of    *)
(* go-common WriteFileAtomic (copy to .bak, write .new, rename .new over the file), as            *)
(* implemented, with the process crashing or a write failing at every sub-step, and               *)
(* LoadPrivValidator after a crash.                                                               *)
(*                                                                                                *)
(* A record is [h, r, s, b]: height, round, step (1 propose, 2 prevote, 3 precommit) and the      *)
(* content b that was signed (the sign-bytes are a function of the whole record; the ed25519      *)
(* signature is a deterministic function of the sign-bytes).  One signing call is the sequence    *)
(*   Request(..,"sign") -> WriteBak -> WriteNew -> Rename -> Return                                *)
(* one action per durable sub-step, each of which may be ok / fail (the write returns an error)   *)
(* / crash (the process dies immediately BEFORE the write).  The reply class of a request is its  *)
(* last argument.                                                                                 *)
EXTENDS Integers, FiniteSets, TLC

CONSTANTS
  MaxH,      \* heights 1..MaxH
  MaxR,      \* rounds 0..MaxR
  Blocks,    \* contents that can be signed
  MaxCrash,  \* bound on crashes in one behaviour
  MaxFail,   \* bound on failing writes in one behaviour
  Conc       \* BOOLEAN: a second requester may call the signer while a call is inside its durable write

Steps  == 1..3
NoFile == [h |-> -1, r |-> -1, s |-> -1, b |-> "nofile"]
Rec0   == [h |-> 0, r |-> 0, s |-> 0, b |-> "none"]        \* GenPrivValidator: nothing signed yet
Down   == [h |-> -1, r |-> -1, s |-> -1, b |-> "down"]     \* no process

VARIABLES
  up,        \* BOOLEAN: a process holds a PrivValidator object
  mem,       \* LastHeight/LastRound/LastStep/LastSignBytes(+LastSignature) of the object, Down when ~up
  main,      \* content of priv_validator.json
  bak,       \* content of priv_validator.json.bak, NoFile when absent
  new,       \* content of priv_validator.json.new, NoFile when absent
  pc,        \* "idle" or the sub-step the running signBytesHRS call is about to perform: "bak" "new" "rename" "ret"
  pend,      \* the record the running call is persisting
  prev,      \* the in-memory record before the running call (restored when save() fails)
  maxrel,    \* ghost: the latest record whose signature was returned to the caller (Rec0: none yet).  The whole
             \* history of releases is not kept: as long as NoConflictingRelease and Monotone held at every release so far the history is
             \* non-decreasing in (h,r,s) and all releases at the latest (h,r,s) carry maxrel.b, so comparing a new
             \* release with maxrel decides NoConflictingRelease and Monotone for the whole history (induction).
  wait,      \* the request of a second caller that is blocked on privVal.mtx (NoFile: nobody waits).  SignVote /
             \* SignProposal hold the mutex from the checks to the return, so a concurrent request cannot move between
             \* the first one's check and its WriteBak / WriteNew / Rename: it is served (Enter2) when the lock is free.
  ncrash, nfail,
  res        \* output only: the last action

vars == <<up, mem, main, bak, new, pc, pend, prev, maxrel, wait, ncrash, nfail, res>>
(* .bak and a left-over .new are never read by the code (LoadPrivValidator opens the main file only; Rename  *)
(* happens only right after WriteNew, when new = pend), so they do not distinguish states.                  *)
view == <<up, mem, main, pc, pend, prev, maxrel, wait, ncrash, nfail>>

Init ==
  /\ up = TRUE /\ mem = Rec0 /\ main = Rec0          \* LoadOrGenPrivValidator: generate, SetFile, Save
  /\ bak = NoFile /\ new = NoFile
  /\ pc = "idle" /\ pend = Rec0 /\ prev = Rec0
  /\ maxrel = Rec0 /\ wait = NoFile
  /\ ncrash = 0 /\ nfail = 0
  /\ res = [op |-> "init", rel |-> NoFile]

(* lexicographic order on (height, round, step) *)
Before(x, y) == \/ x.h < y.h
                \/ x.h = y.h /\ x.r < y.r
                \/ x.h = y.h /\ x.r = y.r /\ x.s < y.s
SameHRS(x, y) == x.h = y.h /\ x.r = y.r /\ x.s = y.s

(* the checks at the head of signBytesHRS, in program order *)
Class(h, r, s, b) ==
  IF mem.h > h THEN "regress"
  ELSE IF mem.h = h /\ mem.r > r THEN "regress"
  ELSE IF mem.h = h /\ mem.r = r /\ mem.s > s THEN "regress"
  ELSE IF mem.h = h /\ mem.r = r /\ mem.s = s
         THEN (IF mem.b # "none" /\ mem.b = b THEN "same" ELSE "regress")
  ELSE "sign"

(* one call of SignVote / SignProposal entering with the mutex: the checks and, for "sign", the start of save() *)
Serve(op, h, r, s, b, c) ==
  /\ up /\ pc = "idle"
  /\ c = Class(h, r, s, b)
  /\ res' = [op |-> op, c |-> c, rel |-> IF c = "same" THEN mem ELSE NoFile]
  /\ UNCHANGED <<up, main, bak, new, ncrash, nfail>>
  /\ CASE c = "regress" -> UNCHANGED <<mem, pc, pend, prev, maxrel>>            \* error returned
       [] c = "same"    -> /\ maxrel' = mem                                      \* LastSignature returned again
                           /\ UNCHANGED <<mem, pc, pend, prev>>
       [] c = "sign"    -> /\ mem' = [h |-> h, r |-> r, s |-> s, b |-> b]        \* Last* set BEFORE save()
                           /\ pend' = [h |-> h, r |-> r, s |-> s, b |-> b]
                           /\ prev' = mem
                           /\ pc' = "bak"                                        \* the file exists: copy it first
                           /\ UNCHANGED maxrel

Request(h, r, s, b, c) ==
  /\ wait = NoFile            \* a caller already blocked on the mutex is served first (the driver issues no third one)
  /\ Serve("Request", h, r, s, b, c)
  /\ UNCHANGED wait

(* a second caller asks while the first call is parked inside WriteFileAtomic: it blocks on the mutex *)
Issue2(h, r, s, b) ==
  /\ Conc /\ up /\ pc \in {"bak", "new", "rename"} /\ wait = NoFile
  /\ wait' = [h |-> h, r |-> r, s |-> s, b |-> b]
  /\ res' = [op |-> "Issue2", rel |-> NoFile]
  /\ UNCHANGED <<up, mem, main, bak, new, pc, pend, prev, maxrel, ncrash, nfail>>

(* the lock is free: the blocked caller enters with whatever the first call left behind *)
Enter2(c) ==
  /\ wait # NoFile
  /\ Serve("Enter2", wait.h, wait.r, wait.s, wait.b, c)
  /\ wait' = NoFile

(* outcome of a sub-step other than ok.  "fail": the failpoint in front of the write returns an error;        *)
(* "realfail": the failpoint lets the code go on and the REAL ioutil.WriteFile / os.Rename fails (the target of *)
(* .bak / .new is a directory, the .new file has vanished before the rename).  Same action for the signer:      *)
(* save() fails, the request is refused, nothing is released, the file keeps the old record.                   *)
Fails ==           \* the write returns an error: save() fails, signBytesHRS restores Last* and returns the error
  /\ nfail < MaxFail /\ nfail' = nfail + 1
  /\ mem' = prev /\ pc' = "idle"
  /\ UNCHANGED <<up, main, bak, new, pend, prev, maxrel, wait, ncrash>>
Crashes ==         \* the process dies before the write
  /\ ncrash < MaxCrash /\ ncrash' = ncrash + 1
  /\ up' = FALSE /\ mem' = Down /\ pc' = "idle" /\ wait' = NoFile       \* a blocked caller dies with the process
  /\ UNCHANGED <<main, bak, new, pend, prev, maxrel, nfail>>

WriteBak(f) ==     \* ioutil.WriteFile(filePath+".bak", <current file>)
  /\ up /\ pc = "bak"
  /\ res' = [op |-> "WriteBak", f |-> f, rel |-> NoFile]
  /\ CASE f = "ok"    -> /\ bak' = main /\ pc' = "new"
                         /\ UNCHANGED <<up, mem, main, new, pend, prev, maxrel, wait, ncrash, nfail>>
       [] f = "fail"  -> Fails
       [] f = "realfail" -> Fails
       [] f = "crash" -> Crashes

WriteNew(f) ==     \* ioutil.WriteFile(filePath+".new", newBytes)
  /\ up /\ pc = "new"
  /\ res' = [op |-> "WriteNew", f |-> f, rel |-> NoFile]
  /\ CASE f = "ok"    -> /\ new' = pend /\ pc' = "rename"
                         /\ UNCHANGED <<up, mem, main, bak, pend, prev, maxrel, wait, ncrash, nfail>>
       [] f = "fail"  -> Fails
       [] f = "realfail" -> Fails
       [] f = "crash" -> Crashes

Rename(f) ==       \* os.Rename(filePath+".new", filePath)
  /\ up /\ pc = "rename"
  /\ res' = [op |-> "Rename", f |-> f, rel |-> NoFile]
  /\ CASE f = "ok"    -> /\ main' = new /\ new' = NoFile /\ pc' = "ret"
                         /\ UNCHANGED <<up, mem, bak, pend, prev, maxrel, wait, ncrash, nfail>>
       [] f = "fail"  -> Fails
       [] f = "realfail" -> Fails
       [] f = "crash" -> Crashes

Return(f) ==       \* save() returned nil: the signature is handed to the caller
  /\ up /\ pc = "ret"
  /\ res' = [op |-> "Return", f |-> f, rel |-> IF f = "ok" THEN pend ELSE NoFile]
  /\ CASE f = "ok"    -> /\ maxrel' = pend /\ pc' = "idle"
                         /\ UNCHANGED <<up, mem, main, bak, new, pend, prev, wait, ncrash, nfail>>
       [] f = "crash" -> Crashes

Crash ==           \* the process dies between two calls
  /\ up /\ pc = "idle"
  /\ res' = [op |-> "Crash", rel |-> NoFile]
  /\ Crashes

Reload ==          \* restart: LoadPrivValidator(filePath) reads priv_validator.json only
  /\ ~up
  /\ up' = TRUE /\ mem' = main /\ pc' = "idle"
  /\ res' = [op |-> "Reload", rel |-> NoFile]
  /\ UNCHANGED <<main, bak, new, pend, prev, maxrel, wait, ncrash, nfail>>

Next ==
  \/ \E h \in 1..MaxH, r \in 0..MaxR, s \in Steps, b \in Blocks, c \in {"regress", "same", "sign"} : Request(h, r, s, b, c)
  \/ \E f \in {"ok", "fail", "realfail", "crash"} : WriteBak(f) \/ WriteNew(f) \/ Rename(f)
  \/ \E f \in {"ok", "crash"} : Return(f)
  \/ Crash \/ Reload
  \/ \E h \in 1..MaxH, r \in 0..MaxR, s \in Steps, b \in Blocks : Issue2(h, r, s, b)
  \/ \E c \in {"regress", "same", "sign"} : Enter2(c)

Spec == Init /\ [][Next]_vars

-----------------------------------------------------------------------------------
(* Properties (C03) *)

TypeOK ==
  /\ up \in BOOLEAN /\ pc \in {"idle", "bak", "new", "rename", "ret"}
  /\ (up <=> mem # Down) /\ main # NoFile

Released == res'.rel # NoFile       \* this step hands a signature to the caller

(* never two released signatures for one height/round/step over different contents *)
NoConflictingRelease ==
  [][ Released => (SameHRS(res'.rel, maxrel) => res'.rel.b = maxrel.b) ]_vars

(* a released signature is never for an earlier height/round/step than one released before *)
Monotone ==
  [][ Released => ~Before(res'.rel, maxrel) ]_vars

(* at the moment a signature leaves the signer the file already holds its record ...            *)
DurableBeforeRelease ==
  [][ Released => (main = res'.rel /\ main' = res'.rel) ]_vars

(* ... and the file never moves backwards, so every later restart refuses to contradict it      *)
DiskMonotone == [][ main' = main \/ Before(main, main') ]_vars
DiskCoversReleased == maxrel = main \/ Before(maxrel, main)

(* between calls the object and the file agree: a failed save leaves no phantom record in memory *)
MemIsDisk == (up /\ pc = "idle") => mem = main

(* priv_validator.json always parses to a record that was written whole *)
MainIsWhole == main = Rec0 \/ main.b \in Blocks
===================================================================================
