SPECIFICATION Spec
CONSTANTS
  MaxH = 1
  MaxR = 1
  Blocks = {"A","B"}
  MaxCrash = 0
  Conc = TRUE
  MaxFail = 1
VIEW view
INVARIANTS TypeOK DiskCoversReleased MemIsDisk MainIsWhole
PROPERTIES NoConflictingRelease Monotone DurableBeforeRelease DiskMonotone
CHECK_DEADLOCK FALSE
