SPECIFICATION Spec
CONSTANTS
  N = 5
  Power <- P11111
  Blocks = {"nil", "A"}
  Peers = {"p1"}
VIEW view
INVARIANTS TypeOK Sound CompleteAccepted CompleteHonest CountedOnce AnyAll CommitVerifies
PROPERTIES Maj23Stable ConflictReported RejectNoChange
CHECK_DEADLOCK FALSE
