--------------------------------- MODULE VoteSet ---------------------------------
(* gemmill/types/vote_set.go — one VoteSet (one height, round, vote type) as implemented.   *)
(* One action per public mutator: AddVote (addVote + addVerifiedVote), SetPeerMaj23.        *)
(* The vote offered is described by its abstract content: validator index i, block key b,   *)
(* and a well-formedness class c.  The result class r is an *argument* of the action so     *)
(* that every edge of TLC's state graph is labelled with the reply the real code must give. *)
EXTENDS Integers, FiniteSets, Sequences, TLC

CONSTANTS
  N,        \* number of validators, indices 1..N (Go index = i-1, address order)
  Power,    \* [1..N -> Nat \ {0}]
  Blocks,   \* block keys; the nil vote (BlockID{}) is one of them, named "nil"
  Peers     \* peer ids allowed to claim a +2/3 majority

Val   == 1..N
None  == "none"
Classes == {"ok",        \* well-formed, validly signed by validator i
            "badsig",    \* right index/address/step, signature does not verify
            "wrongaddr", \* index i, address of another validator
            "wrongstep", \* other height / round / type
            "badindex"}  \* index >= N  (index < 0 and empty address panic by design, see C08)
Results == {"added", "dup", "errStep", "errIndex", "errAddr", "errSig",
            "conflictAdded", "conflictDropped"}

VARIABLES
  votes,    \* [Val -> Blocks \cup {None}]      voteSet.votes (canonical vote per validator)
  bits,     \* SUBSET Val                        voteSet.votesBitArray
  sum,      \* Nat                               voteSet.sum
  maj23,    \* Blocks \cup {None}                voteSet.maj23 (first 2/3 majority seen)
  byBlock,  \* [Blocks -> [tracked, peerMaj23 : BOOLEAN, voters : SUBSET Val, sum : Nat]]
  peerMaj,  \* [Peers -> Blocks \cup {None}]     voteSet.peerMaj23s
  offered,  \* ghost: [Val -> SUBSET Blocks]     blocks validator i validly signed and offered
  accepted, \* ghost: [Val -> SUBSET Blocks]     ... for which AddVote answered added = true
  res       \* output only: reply of the last call

vars == <<votes, bits, sum, maj23, byBlock, peerMaj, offered, accepted, res>>
view == <<votes, bits, sum, maj23, byBlock, peerMaj, offered, accepted>>

PowerOf(S) == LET RECURSIVE P(_)
                  P(T) == IF T = {} THEN 0 ELSE LET x == CHOOSE y \in T : TRUE IN Power[x] + P(T \ {x})
              IN P(S)
Total  == PowerOf(Val)
Quorum == (Total * 2) \div 3 + 1          \* valSet.TotalVotingPower()*2/3 + 1

Untracked == [tracked |-> FALSE, peerMaj23 |-> FALSE, voters |-> {}, sum |-> 0]

Init ==
  /\ votes    = [i \in Val |-> None]
  /\ bits     = {}
  /\ sum      = 0
  /\ maj23    = None
  /\ byBlock  = [b \in Blocks |-> Untracked]
  /\ peerMaj  = [p \in Peers |-> None]
  /\ offered  = [i \in Val |-> {}]
  /\ accepted = [i \in Val |-> {}]
  /\ res      = [op |-> "init"]

(* getVote(valIndex, blockKey) *)
HasVote(i, b) == votes[i] = b \/ i \in byBlock[b].voters

(* Reply of addVote for a vote of class c by validator i for block b, in program order. *)
Result(i, b, c) ==
  IF c = "wrongstep" THEN "errStep"
  ELSE IF c = "badindex" THEN "errIndex"
  ELSE IF c = "wrongaddr" THEN "errAddr"
  ELSE IF HasVote(i, b) THEN (IF c = "ok" THEN "dup" ELSE "errSig")
  ELSE IF c = "badsig" THEN "errSig"
  ELSE \* verified; addVerifiedVote
    LET conflict == votes[i] # None      \* then votes[i] # b because ~HasVote
    IN IF ~conflict THEN "added"
       ELSE IF byBlock[b].tracked /\ byBlock[b].peerMaj23 THEN "conflictAdded"
       ELSE "conflictDropped"

(* State change of addVerifiedVote *)
Apply(i, b) ==
  LET conflict == votes[i] # None
      \* first part: canonical list
      votes1 == IF conflict
                  THEN (IF maj23 # None /\ maj23 = b THEN [votes EXCEPT ![i] = b] ELSE votes)
                  ELSE [votes EXCEPT ![i] = b]
      bits1  == bits \cup {i}   \* conflict => i already in bits (invariant BitsMatch)
      sum1   == IF conflict THEN sum ELSE sum + Power[i]
      bb     == byBlock[b]
      dropped == conflict /\ ~(bb.tracked /\ bb.peerMaj23)
  IN IF dropped
       THEN /\ votes' = votes1 /\ bits' = IF conflict /\ ~(maj23 # None /\ maj23 = b) THEN bits ELSE bits1
            /\ sum' = sum1 /\ UNCHANGED <<maj23, byBlock>>
       ELSE LET bb0   == IF bb.tracked THEN bb ELSE [Untracked EXCEPT !.tracked = TRUE]
                orig  == bb0.sum
                bb1   == IF i \in bb0.voters THEN bb0
                         ELSE [bb0 EXCEPT !.voters = @ \cup {i}, !.sum = @ + Power[i]]
                cross == orig < Quorum /\ Quorum <= bb1.sum
                newmaj == cross /\ maj23 = None
            IN /\ byBlock' = [byBlock EXCEPT ![b] = bb1]
               /\ maj23'   = IF newmaj THEN b ELSE maj23
               /\ votes'   = IF newmaj THEN [j \in Val |-> IF j \in bb1.voters THEN b ELSE votes1[j]]
                                       ELSE votes1
               /\ bits'    = IF conflict /\ ~(maj23 # None /\ maj23 = b) THEN bits ELSE bits1
               /\ sum'     = sum1

AddVote(i, b, c, r) ==
  /\ r = Result(i, b, c)
  /\ res' = [op |-> "AddVote", i |-> i, b |-> b, c |-> c, r |-> r]
  /\ offered' = IF c = "ok" THEN [offered EXCEPT ![i] = @ \cup {b}] ELSE offered
  /\ IF r \in {"added", "conflictAdded", "conflictDropped"}
       THEN /\ Apply(i, b)
            /\ accepted' = IF r = "conflictDropped" THEN accepted ELSE [accepted EXCEPT ![i] = @ \cup {b}]
            /\ UNCHANGED peerMaj
       ELSE UNCHANGED <<votes, bits, sum, maj23, byBlock, peerMaj, accepted>>

SetPeerMaj23(p, b) ==
  /\ res' = [op |-> "SetPeerMaj23", p |-> p, b |-> b]
  /\ UNCHANGED <<votes, bits, sum, maj23, offered, accepted>>
  /\ IF peerMaj[p] # None
       THEN UNCHANGED <<peerMaj, byBlock>>
       ELSE /\ peerMaj' = [peerMaj EXCEPT ![p] = b]
            /\ byBlock' = [byBlock EXCEPT ![b] = [@ EXCEPT !.tracked = TRUE, !.peerMaj23 = TRUE]]

Next ==
  \/ \E i \in Val, b \in Blocks, c \in Classes, r \in Results : AddVote(i, b, c, r)
  \/ \E p \in Peers, b \in Blocks : SetPeerMaj23(p, b)

Spec == Init /\ [][Next]_vars

-----------------------------------------------------------------------------------
(* Properties (C15) *)

TypeOK ==
  /\ votes \in [Val -> Blocks \cup {None}]
  /\ bits \subseteq Val /\ sum \in Nat
  /\ maj23 \in Blocks \cup {None}
  /\ peerMaj \in [Peers -> Blocks \cup {None}]

Voters(b)    == {i \in Val : b \in offered[i]}
Counted(b)   == {i \in Val : b \in accepted[i]}

\* a majority is reported only if validly signed votes of DISTINCT validators exceed 2/3
Sound == maj23 # None => 3 * PowerOf(Voters(maj23)) > 2 * Total

\* ... and whenever the votes the set accepted for a block exceed 2/3, a majority is reported
CompleteAccepted == (\E b \in Blocks : 3 * PowerOf(Counted(b)) > 2 * Total) => maj23 # None

\* without equivocation every validly signed vote is accepted, so "exactly when" holds w.r.t. offered
NoEquivocation == \A i \in Val : Cardinality(offered[i]) <= 1
CompleteHonest == NoEquivocation =>
                    ((\E b \in Blocks : 3 * PowerOf(Voters(b)) > 2 * Total) <=> maj23 # None)

\* each validator's power counts at most once, in every tally the set keeps
CountedOnce ==
  /\ bits = {i \in Val : votes[i] # None}
  /\ sum = PowerOf(bits)
  /\ \A b \in Blocks : /\ byBlock[b].sum = PowerOf(byBlock[b].voters)
                       /\ byBlock[b].voters \subseteq Voters(b)
                       /\ (~byBlock[b].tracked => byBlock[b].voters = {})
  /\ \A i \in Val : votes[i] # None => votes[i] \in offered[i]

\* HasTwoThirdsAny / HasAll as the code computes them agree with the distinct-voter tally
AnyAll == /\ (3 * sum > 2 * Total) <=> (3 * PowerOf({i \in Val : offered[i] # {}}) > 2 * Total)
          /\ (sum = Total) <=> (\A i \in Val : offered[i] # {})

\* the commit assembled from a majority (MakeCommit = copy of .votes) passes VerifyCommit
CommitVerifies == maj23 # None => 3 * PowerOf({i \in Val : votes[i] = maj23}) > 2 * Total

\* a reported majority never changes or disappears
Maj23Stable == [][maj23 # None => maj23' = maj23]_vars

\* conflicting votes are reported as such, and only those
ConflictReported ==
  [][ (res'.op = "AddVote" /\ res'.c = "ok") =>
        ( (res'.r \in {"conflictAdded", "conflictDropped"})
            <=> (offered[res'.i] \ {res'.b} # {} /\ ~HasVote(res'.i, res'.b)) ) ]_vars

\* a rejected vote leaves the set exactly as it was
RejectNoChange ==
  [][ (res'.op = "AddVote" /\ res'.r \in {"dup", "errStep", "errIndex", "errAddr", "errSig"})
        => UNCHANGED <<votes, bits, sum, maj23, byBlock, peerMaj>> ]_vars
===================================================================================
