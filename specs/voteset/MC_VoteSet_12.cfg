SPECIFICATION Spec
CONSTANTS
  N = 2
  Power <- P12
  Blocks = {"nil", "A", "B"}
  Peers = {"p1", "p2"}
VIEW view
INVARIANTS TypeOK Sound CompleteAccepted CompleteHonest CountedOnce AnyAll CommitVerifies
PROPERTIES Maj23Stable ConflictReported RejectNoChange
CHECK_DEADLOCK FALSE
