SPECIFICATION Spec
CONSTANTS
  N = 1
  Power <- P3
  Blocks = {"nil", "A", "B"}
  Peers = {"p1"}
VIEW view
INVARIANTS TypeOK Sound CompleteAccepted CompleteHonest CountedOnce AnyAll CommitVerifies
PROPERTIES Maj23Stable ConflictReported RejectNoChange
CHECK_DEADLOCK FALSE
