SPECIFICATION Spec
CONSTANTS
  N = 3
  Power <- P112
  Blocks = {"nil", "A"}
  Peers = {"p1"}
VIEW view
INVARIANTS TypeOK Sound CompleteAccepted CompleteHonest CountedOnce AnyAll CommitVerifies
PROPERTIES Maj23Stable ConflictReported RejectNoChange
CHECK_DEADLOCK FALSE
