SPECIFICATION Spec
CONSTANTS
  N = 3
  Power <- P122
  Blocks = {"nil", "A", "B"}
  Peers = {"p1", "p2"}
VIEW view
INVARIANTS TypeOK Sound CompleteAccepted CompleteHonest CountedOnce AnyAll CommitVerifies
PROPERTIES Maj23Stable ConflictReported RejectNoChange
CHECK_DEADLOCK FALSE
