SPECIFICATION Spec
CONSTANTS
  Acct <- A1
  Keys = {"k1"}
  Vals = {"a"}
  KvChecksNonce = FALSE
  FailedCreateConsumesNonce = TRUE
  EmptyTxInvalid = TRUE
  AdminBoundsChecked = TRUE
  TxSet <- TxQ
  MaxTxs = 2
  MaxH = 2
VIEW view
CONSTRAINT Bound
INVARIANTS TypeOK Total AtMostOnce
PROPERTIES AppliedOnlyIfNonceMatches AppliedIfNonceMatches NonceIncrementsByOne FailedExecutionConsumesNonce InvalidIsNoOp NonceMonotone
CHECK_DEADLOCK FALSE
