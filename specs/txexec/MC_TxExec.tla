------------------------------- MODULE MC_TxExec -------------------------------
EXTENDS TxExec
A2 == {1, 2}
A1 == {1}
NoKV == "-"
Mk(cs, as, ns) == {Tx(c, a, n, NoKV, NoKV) : c \in cs, a \in as, n \in ns}
MkKv(cs, as, ns, ks, vs) == {Tx(c, a, n, k, v) : c \in cs, a \in as, n \in ns, k \in ks, v \in vs}
Unsigned == {Tx(c, 0, 0, NoKV, NoKV) : c \in UnsignedClasses}

\* quick exhaustive alphabet: one account, nonces 0..1, the classes whose paths differ in the code
TxQ == Mk({"xfer", "create", "createfail", "createcalls", "call", "valuecalls", "value"}, {1}, 0..1)
         \cup MkKv({"kv"}, {1}, 0..1, {"k1"}, {"a"})
         \cup Mk({"kvbad", "admshort"}, {1}, {0})
         \cup Unsigned
\* graph alphabet (every edge of its state graph is replayed on the real application)
TxG == Mk({"xfer", "call", "createfail"}, {1}, 0..1) \cup Mk({"create", "createcalls", "value"}, {1}, {0})
         \cup MkKv({"kv"}, {1}, 0..1, {"k1"}, {"a"})
         \cup {Tx(c, 0, 0, NoKV, NoKV) : c \in {"empty", "badsig"}}
\* every class, two accounts: used for simulation and the thorough exhaustive run
TxAll == Mk(SignedClasses \ {"kv", "kvbig", "kvbad"}, A2, 0..2)
           \cup MkKv({"kv", "kvbig"}, A2, 0..2, {"k1", "k2"}, {"a", "b"})
           \cup Mk({"kvbad"}, A2, 0..1)
           \cup Unsigned
\* thorough exhaustive: two accounts, nonces 0..2, three blocks
TxL == Mk({"xfer", "create", "createfail", "call", "value"}, A2, 0..2)
         \cup MkKv({"kv"}, A2, 0..1, {"k1"}, {"a"})
         \cup Unsigned
\* medium: two accounts, fewer classes
TxM == Mk({"xfer", "create", "createfail", "createcalls", "call", "valuecalls", "revert", "price"}, A2, 0..1)
         \cup MkKv({"kv"}, A2, 0..1, {"k1"}, {"a", "b"})
         \cup Unsigned
Bound == /\ \A a \in Acct : st.nonce[a] <= 4
         /\ st.cnt <= 3
=================================================================================
