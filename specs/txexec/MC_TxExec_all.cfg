SPECIFICATION Spec
CONSTANTS
  Acct <- A2
  Keys = {"k1", "k2"}
  Vals = {"a", "b"}
  KvChecksNonce = TRUE
  FailedCreateConsumesNonce = TRUE
  EmptyTxInvalid = TRUE
  AdminBoundsChecked = TRUE
  TxSet <- TxAll
  MaxTxs = 3
  MaxH = 3
VIEW view
CONSTRAINT Bound
INVARIANTS TypeOK Total AtMostOnce
PROPERTIES AppliedOnlyIfNonceMatches AppliedIfNonceMatches NonceIncrementsByOne FailedExecutionConsumesNonce InvalidIsNoOp NonceMonotone
CHECK_DEADLOCK FALSE
