SPECIFICATION Spec
CONSTANTS
  Acct <- A2
  Keys = {"k1"}
  Vals = {"a", "b"}
  KvChecksNonce = TRUE
  FailedCreateConsumesNonce = TRUE
  EmptyTxInvalid = TRUE
  AdminBoundsChecked = TRUE
  TxSet <- TxM
  MaxTxs = 2
  MaxH = 2
VIEW view
CONSTRAINT Bound
INVARIANTS TypeOK Total AtMostOnce
PROPERTIES AppliedOnlyIfNonceMatches AppliedIfNonceMatches NonceIncrementsByOne FailedExecutionConsumesNonce InvalidIsNoOp NonceMonotone
CHECK_DEADLOCK FALSE
