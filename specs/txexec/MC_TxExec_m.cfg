SPECIFICATION Spec
CONSTANTS
  Acct <- A2
  Keys = {"k1"}
  Vals = {"a", "b"}
  KvChecksNonce = TRUE
  EmptyTxInvalid = TRUE
  AdminBoundsChecked = TRUE
  TxSet <- TxM
  MaxTxs = 2
  MaxH = 2
VIEW view
CONSTRAINT Bound
INVARIANTS TypeOK Total AtMostOnce
PROPERTIES AppliedOnlyIfNonceMatches AppliedIfNonceMatches NonceIncrementsByOne InvalidIsNoOp NonceMonotone
CHECK_DEADLOCK FALSE
