---------------------------------- MODULE TxSem ----------------------------------
(* Abstract semantics of ONE transaction of chain/app/evm as the code implements it:       *)
(*   verifycpuparallel.go txQueue/tryValidate  (decode, signature recovery),               *)
(*   evm.go genExecFun execFunc/endFunc        (kv vs. origin tx, snapshot/revert),         *)
(*   evm.go executeKVTx, eth/core/state_transition.go preCheck/TransitionDb,                *)
(*   eth/core/vm/contracts.go AdminOP.Run.                                                  *)
(* Shared by TxExec.tla (C09) and AppLifecycle.tla (C05).  Pure operators only.             *)
(*                                                                                          *)
(* The genesis of the application funds nobody and no transaction can mint (gas price 0 is  *)
(* the only affordable price), so every balance is 0 for ever: the trie state is            *)
(* (nonces, deployed contracts, contract storage).  Key-value records live in the same      *)
(* LevelDB but OUTSIDE the trie (evm.go SaveReceipts) - they are not covered by AppHash.    *)
EXTENDS Integers, Sequences, FiniteSets

CONSTANTS
  Acct,             \* accounts 1..NA holding a key
  Keys, Vals,       \* key-value payload alphabet
  KvChecksNonce,    \* TRUE: executeKVTx compares the tx nonce with the sender nonce (code after the fix)
  FailedCreateConsumesNonce, \* TRUE: evm.create bumps the creator nonce before the snapshot a failing init code reverts
                    \* to (the code); FALSE: the snapshot is taken first, a failed creation gives the nonce back
  EmptyTxInvalid,   \* TRUE: a zero-length tx is reported invalid; FALSE: execFunc dereferences tx == nil (panic)
  AdminBoundsChecked\* TRUE: AdminOP.Run refuses a direct call before it slices its input (only the genesis Admin
                    \* contract may call 0xfe); FALSE: input[:32], input[32:52] sliced unchecked (panic on short input)

None == "none"

(* Transaction classes.  a = sender, n = nonce field, k/v = kv payload ("-" when unused).   *)
SignedClasses ==
  {"xfer",      \* value 0 to a plain address
   "create",    \* deploys the counter contract at CreateAddress(a, n)
   "createfail",\* contract creation whose init code fails (INVALID opcode / REVERT / gas budget / stack underflow):
                \* evm.create bumps the creator's nonce BEFORE it takes the snapshot the failure reverts to, so the
                \* tx is applied (failed receipt, nothing deployed) and its nonce is consumed
   "createcalls",\* contract creation whose init code makes many value-bearing CALL/CALLCODEs and deploys nothing: every call
                \* hands its 2300 gas stipend back unused, so evm.Create returns more gas than the tx bought
                \* (TransitionDb clamps it); an ordinary valid creation
   "valuecalls",\* the same calls made by the deployed counter contract (message-call branch of TransitionDb)
   "call",      \* calls the contract created by (account 1, nonce 0): cnt := cnt+1, one log
   "revert",    \* same target, REVERT
   "oog",       \* same target, exceeds the EVM gas budget
   "pre",       \* call to a precompile 0x01..0x08
   "admok",     \* changenode(bytes) of the genesis Admin contract, which forwards sender|data to 0xfe
   "admshort",  \* direct call to 0xfe: short input, inconsistent length word, or well-formed input
   "value",     \* value > 0 (no balance anywhere: ErrInsufficientBalance, a consensus error)
   "price",     \* gas price > 0 (cannot buy gas)
   "lowgas",    \* gas below the intrinsic gas
   "kv",        \* key-value tx
   "kvbig",     \* key-value tx above MaxKey/MaxValue (only CheckTx looks at the size)
   "kvbad"}     \* "kvTx-" prefix followed by bytes that are not an RLP KV
UnsignedClasses == {"badsig", "junk", "empty"}
Classes == SignedClasses \cup UnsignedClasses
KvClasses == {"kv", "kvbig"}
ConsensusErr == {"value", "price", "lowgas"}
CreateFail == {"createfail"}
VmFail == {"revert", "oog"}   \* applied; receipt status = failed when the target contract exists

Tx(c, a, n, k, v) == [c |-> c, a |-> a, n |-> n, k |-> k, v |-> v]

(* trie state *)
Genesis == [nonce |-> [a \in Acct |-> 0], created |-> {}, cnt |-> 0]
Target == <<1, 0>>                     \* the contract every call/revert/oog addresses

(* Result class of executing t on trie state s, in program order of the code. *)
Result(s, t) ==
  IF t.c = "empty" THEN (IF EmptyTxInvalid THEN "invalid" ELSE "panic")
  ELSE IF t.c \in {"junk", "badsig"} THEN "invalid"          \* tryValidate: status Failed
  ELSE IF t.c = "kvbad" THEN "invalid"                       \* rlp.DecodeBytes fails before anything else
  ELSE IF t.c \in KvClasses
         THEN (IF KvChecksNonce /\ s.nonce[t.a] # t.n THEN "invalid" ELSE "valid")
  ELSE IF s.nonce[t.a] # t.n THEN "invalid"                  \* preCheck: ErrNonceTooLow/High
  ELSE IF t.c \in ConsensusErr THEN "invalid"                \* buyGas / intrinsic gas / CanTransfer
  ELSE IF t.c = "admshort" /\ ~AdminBoundsChecked THEN "panic"
  ELSE "valid"

(* Trie state after a VALID t (an invalid t is rolled back by RevertToSnapshot: no change). *)
Apply(s, t) ==
  LET s1 == IF t.c = "createfail" /\ ~FailedCreateConsumesNonce THEN s ELSE [s EXCEPT !.nonce[t.a] = @ + 1]
  IN IF t.c = "create" THEN [s1 EXCEPT !.created = @ \cup {<<t.a, t.n>>}]
     ELSE IF t.c = "call" /\ Target \in s.created THEN [s1 EXCEPT !.cnt = @ + 1]
     ELSE s1

Step(s, t) == IF Result(s, t) = "valid" THEN Apply(s, t) ELSE s

(* What the code appends to app.receipts / app.kvs for a valid t. *)
IsKv(t) == t.c \in KvClasses
Receipt(s, t, idx) == [t |-> t, idx |-> idx,
                       ok |-> IF t.c \in VmFail THEN Target \notin s.created   \* call to an empty account succeeds
                              ELSE t.c \notin {"admshort", "createfail"},

                       log |-> t.c = "call" /\ Target \in s.created]
KvRec(t) == [k |-> t.k, v |-> t.v]
===================================================================================
