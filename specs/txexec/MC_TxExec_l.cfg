SPECIFICATION Spec
CONSTANTS
  Acct <- A2
  Keys = {"k1"}
  Vals = {"a"}
  KvChecksNonce = TRUE
  FailedCreateConsumesNonce = TRUE
  EmptyTxInvalid = TRUE
  AdminBoundsChecked = TRUE
  TxSet <- TxL
  MaxTxs = 3
  MaxH = 3
VIEW view
CONSTRAINT Bound
INVARIANTS TypeOK Total AtMostOnce
PROPERTIES AppliedOnlyIfNonceMatches AppliedIfNonceMatches NonceIncrementsByOne FailedExecutionConsumesNonce InvalidIsNoOp NonceMonotone
CHECK_DEADLOCK FALSE
