---------------------------------- MODULE TxExec ----------------------------------
(* C09 - execution of transactions by the EVM application, one action per transaction:      *)
(*   Begin      OnExecute: currentState := state of the last commit (evm.go OnExecute)       *)
(*   ExecTx     one iteration of the executor loop of exeWithCPUParallelVeirfy:              *)
(*              beginExec (snapshot) ; exec ; end (revert + InvalidTxs | append + ValidTxs)  *)
(*   Commit     OnCommit                                                                    *)
(* The result class r is an argument of ExecTx, so every edge of the state graph says what  *)
(* ExecuteResult must report for that transaction.                                          *)
EXTENDS TxSem, TLC

CONSTANTS
  TxSet,      \* the transactions a block may contain (repetition allowed)
  MaxTxs,     \* transactions per block
  MaxH        \* blocks

VARIABLES
  st,        \* trie state being built (app.currentState); committed copy is `base`
  base,      \* trie state of the last commit (what OnExecute starts from)
  kv,        \* [Keys -> Vals \cup {None}]  committed kv records
  pend,      \* kv records of valid kv txs of the running block (app.kvs)
  height,    \* last committed height
  inBlock,   \* OnExecute running
  ntx,       \* transactions executed in the running block
  applied,   \* ghost: transactions applied so far (whole chain)
  twice,     \* ghost: some transaction was applied a second time
  crashed,   \* a panic escaped (the hook goroutine has no recover: the node dies)
  res        \* output only: last action

vars == <<st, base, kv, pend, height, inBlock, ntx, applied, twice, crashed, res>>
view == <<st, base, kv, pend, height, inBlock, ntx, applied, twice, crashed>>

Init ==
  /\ st = Genesis /\ base = Genesis
  /\ kv = [k \in Keys |-> None] /\ pend = <<>>
  /\ height = 0 /\ inBlock = FALSE /\ ntx = 0
  /\ applied = {} /\ twice = FALSE /\ crashed = FALSE
  /\ res = [op |-> "init"]

Begin ==
  /\ ~inBlock /\ ~crashed /\ height < MaxH
  /\ inBlock' = TRUE /\ ntx' = 0 /\ st' = base /\ pend' = <<>>
  /\ res' = [op |-> "Begin"]
  /\ UNCHANGED <<base, kv, height, applied, twice, crashed>>

ExecTx(t, r) ==
  /\ inBlock /\ ~crashed /\ ntx < MaxTxs
  /\ r = Result(st, t)
  /\ res' = [op |-> "ExecTx", t |-> t, r |-> r]
  /\ ntx' = ntx + 1
  /\ IF r = "valid"
       THEN /\ st' = Apply(st, t)
            /\ pend' = IF IsKv(t) THEN Append(pend, KvRec(t)) ELSE pend
            /\ applied' = applied \cup {t}
            /\ twice' = (twice \/ t \in applied)
            /\ UNCHANGED crashed
       ELSE /\ crashed' = (r = "panic")
            /\ UNCHANGED <<st, pend, applied, twice>>
  /\ UNCHANGED <<base, kv, height, inBlock>>

RECURSIVE Fold(_, _)
Fold(m, s) == IF s = <<>> THEN m ELSE Fold([m EXCEPT ![Head(s).k] = Head(s).v], Tail(s))

Commit ==
  /\ inBlock /\ ~crashed
  /\ base' = st /\ kv' = Fold(kv, pend) /\ pend' = <<>>
  /\ height' = height + 1 /\ inBlock' = FALSE
  /\ res' = [op |-> "Commit"]
  /\ UNCHANGED <<st, ntx, applied, twice, crashed>>

Next == Begin \/ Commit \/ \E t \in TxSet, r \in {"valid", "invalid", "panic"} : ExecTx(t, r)
Spec == Init /\ [][Next]_vars

-----------------------------------------------------------------------------------
(* Properties (C09) *)
TypeOK == /\ st.nonce \in [Acct -> Nat] /\ st.cnt \in Nat
          /\ height \in 0..MaxH /\ ntx \in 0..MaxTxs /\ inBlock \in BOOLEAN

IsExec == res'.op = "ExecTx"
Signed(t) == t.c \in SignedClasses
\* classes that fail for no other reason than the nonce
PlainOK(t) == t.c \in (SignedClasses \ (ConsensusErr \cup {"kvbad"}))

\* every transaction ends in exactly one of ValidTxs / InvalidTxs; nothing escapes as a panic
Total == ~crashed

\* a transaction is applied only when its nonce equals its sender's current nonce ...
AppliedOnlyIfNonceMatches ==
  [][ (IsExec /\ res'.r = "valid") => (Signed(res'.t) /\ st.nonce[res'.t.a] = res'.t.n) ]_vars
\* ... and a well-formed affordable one whose nonce matches IS applied
AppliedIfNonceMatches ==
  [][ (IsExec /\ PlainOK(res'.t) /\ st.nonce[res'.t.a] = res'.t.n) => res'.r = "valid" ]_vars

\* applying raises the sender's nonce by exactly one and nobody else's
NonceIncrementsByOne ==
  [][ (IsExec /\ res'.r = "valid")
        => st'.nonce = [st.nonce EXCEPT ![res'.t.a] = @ + 1] ]_vars

\* an invalid transaction leaves the application state exactly as it was
InvalidIsNoOp ==
  [][ (IsExec /\ res'.r = "invalid") => UNCHANGED <<st, pend, kv, base>> ]_vars

\* ... also when its execution fails inside the EVM (reverting call, failing contract creation): such a tx is applied
\* (receipt with failed status), so its nonce must be consumed - otherwise the same signed bytes are accepted again
FailedExecutionConsumesNonce ==
  [][ (IsExec /\ res'.r = "valid" /\ res'.t.c \in {"createfail", "revert", "oog", "admshort"})
        => /\ st'.nonce[res'.t.a] = st.nonce[res'.t.a] + 1
           /\ Result(st', res'.t) = "invalid" ]_vars

\* a signed transaction takes effect at most once over the whole chain
AtMostOnce == ~twice

\* nonces never decrease (with AppliedOnlyIfNonceMatches this is the inductive reason for AtMostOnce)
NonceMonotone == [][ \A a \in Acct : base'.nonce[a] >= base.nonce[a] ]_vars
===================================================================================
