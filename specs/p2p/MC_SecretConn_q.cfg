SPECIFICATION Spec
CONSTANTS
  DataMax = 1024
  WriteSizes = {0, 1, 1025}
  ReadBufs = {1, 7, 1024, 4096}
  MaxFrames = 3
  MaxWire = 3
  MaxMitm = 1
  MaxSmall = 2
  AuthChoices <- AuthAll
  Segs = {0, 1, 7, 700, 1041, 1043}
VIEW view
INVARIANTS TypeOK Framing StreamIntegrity NoLossWhenUntouched
PROPERTIES ReadContract TamperDetected PeerIdentityIsChallengeSigner CarrierTransparent
CHECK_DEADLOCK FALSE
