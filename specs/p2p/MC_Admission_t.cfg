SPECIFICATION Spec
CONSTANTS
  Keys <- K5
  Self = "N"
  InitVals = {"N", "C", "V"}
  InitCAs = {"N", "C"}
  MaxChg = 2
  MaxRefuse = 1
  Combine = TRUE
VIEW view
INVARIANTS TypeOK AdmissionSound AdmissionComplete
CHECK_DEADLOCK FALSE
