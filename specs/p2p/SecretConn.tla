------------------------------- MODULE SecretConn -------------------------------
(* gemmill/p2p/secret_connection.go -- one direction of an encrypted peer connection as implemented,  *)
(* with a man in the middle (M) who owns the wire.                                                    *)
(*                                                                                                    *)
(* Phase "hs": MakeSecretConnection on both honest ends (A, B).  The cryptography is symbolic:        *)
(*   - ephemeral keys are the symbols eA, eB, eM; box.Precompute(own, received) is the unordered pair *)
(*     {own, received}; a party knows a secret iff its ephemeral key is in the pair;                  *)
(*   - genChallenge(lo, hi) is the same pair; genNonces gives the two directions different nonces,    *)
(*     so a sealed message only opens at the end it was sealed FOR, under the secret it was sealed    *)
(*     WITH;                                                                                          *)
(*   - a signature is a pair <<signer, challenge>>; honest parties sign only their own challenge, M   *)
(*     signs anything with its own key and can copy signatures it was able to read.                   *)
(* The whole handshake is ONE action whose arguments are M's choices (which ephemeral key each end    *)
(* receives, which auth message each end receives) and the two results, so that every edge of the     *)
(* state graph is one attack strategy with the outcome the real code must produce.                    *)
(*                                                                                                    *)
(* Phase "stream" (entered only after an untouched handshake): A writes, B reads.  Write seals chunks *)
(* of at most DataMax bytes into frames of constant size under sendNonce, sendNonce+1, ...;  Read     *)
(* serves the leftover of the last opened frame (recvBuffer) or opens the next frame of the wire      *)
(* under recvNonce.  Written bytes are identified by their offset in the written stream, a frame by   *)
(* the index of the nonce it was sealed under (1, 2, ...).  The wire is a sequence of frame indices   *)
(* and the two special values BAD (a frame that opens under no nonce: bit flipped, forged, copied     *)
(* from the other direction) and PART (the first bytes of a frame, then the end of the stream).       *)
(* The carrier under the SecretConnection (TCP) is a byte stream: one Read of it may return any non-empty *)
(* prefix of the ciphertext that is pending (segment boundaries, re-segmenting middleboxes).  seg is the  *)
(* largest piece it currently hands over per Read (0: everything pending); Resegment changes it at any   *)
(* time, before or after the handshake.  Both ends gather a sealed frame / an ephemeral key with         *)
(* io.ReadFull, so no action's outcome mentions seg: fragmentation never changes the stream, and every    *)
(* property below holds under it (seg is therefore left out of the VIEW).                                 *)
(* Read errors are NOT latched by the code: the next Read tries the next frame under the unchanged    *)
(* nonce.  This is modelled as it is; ending the connection is the consumer's job (MConn.tla).        *)
EXTENDS Integers, Sequences, FiniteSets, TLC

CONSTANTS
  DataMax,     \* dataMaxSize (1024)
  WriteSizes,  \* len(data) classes offered to Write
  ReadBufs,    \* len(data) classes offered to Read
  MaxFrames,   \* frames the writer may seal in one behaviour
  MaxWire,     \* frames on the wire at any time
  MaxMitm,     \* man-in-the-middle actions in one behaviour
  MaxSmall,    \* single Reads with a buffer smaller than DataMax (Drain is not limited)
  AuthChoices, \* auth messages M may deliver (subset of AllAuth)
  Segs         \* carrier fragmentation classes: most bytes one Read of the underlying connection returns (0 = all)

BAD  == -1
PART == -2

VARIABLES
  phase,      \* "hs" | "stream" | "end"
  frames,     \* Seq([off, len]) every frame A sealed so far; index = nonce index
  wire,       \* Seq(1..MaxFrames \cup {BAD, PART}) sealed frames between M and B, head first
  closed,     \* M cut the stream
  recvNonce,  \* index of the frame B opens next
  buf,        \* [off, len] B's recvBuffer: bytes off .. off+len-1 of the written stream
  dpos,       \* number of bytes B's Reads returned so far
  intact,     \* ghost: every Read returned exactly the bytes dpos .. dpos+n-1
  mitm,       \* number of M's actions so far
  nsmall,     \* number of single small-buffer Reads so far
  seg,        \* carrier: most bytes per underlying Read (0 = all pending); influences nothing
  res         \* output only: last action and its reply

vars == <<phase, frames, wire, closed, recvNonce, buf, dpos, intact, mitm, nsmall, seg, res>>
view == <<phase, frames, wire, closed, recvNonce, buf, dpos, intact, mitm, nsmall>>

Min(a, b) == IF a < b THEN a ELSE b
Written == IF frames = <<>> THEN 0 ELSE frames[Len(frames)].off + frames[Len(frames)].len
NoBuf == [off |-> 0, len |-> 0]

Init ==
  /\ phase = "hs" /\ frames = <<>> /\ wire = <<>> /\ closed = FALSE /\ recvNonce = 1
  /\ buf = NoBuf /\ dpos = 0 /\ intact = TRUE /\ mitm = 0 /\ nsmall = 0 /\ seg = 0
  /\ res = [op |-> "init"]

\* behaviours that start right after an untouched handshake (used for simulation of the stream phase)
InitStream ==
  /\ phase = "stream" /\ frames = <<>> /\ wire = <<>> /\ closed = FALSE /\ recvNonce = 1
  /\ buf = NoBuf /\ dpos = 0 /\ intact = TRUE /\ mitm = 0 /\ nsmall = 0 /\ seg = 0
  /\ res = [op |-> "init"]

-----------------------------------------------------------------------------------
(* Handshake *)

Side  == {"A", "B"}
Peer(s) == IF s = "A" THEN "B" ELSE "A"
Eph(s)  == IF s = "A" THEN "eA" ELSE "eB"
AllAuth == {"relay",       \* the peer's own sealed auth message, untouched
            "own",         \* M's key, M's signature over s's challenge, sealed for s
            "claimPeer",   \* the peer's key, M's signature over s's challenge
            "resealPeer",  \* the peer's key and the peer's signature (over the peer's challenge), re-sealed for s
            "reflect",     \* s's own sealed auth message bounced back untouched
            "resealSelf",  \* s's own key and signature opened by M and re-sealed for s
            "nilKey",      \* no key at all, M's signature
            "garbage"}     \* a frame M made up without knowing the secret

\* sec[s]: the shared secret (and challenge) s computes = {own ephemeral key, the one it received}
SecOf(s, got) == {Eph(s), got[s]}
MKnows(s, got) == "eM" \in SecOf(s, got)

\* M can only build a message for s if it knows s's secret; to re-seal the peer's it must also open the peer's
Feasible(s, a, got) ==
  CASE a \in {"relay", "reflect", "garbage"}               -> TRUE
    [] a \in {"own", "claimPeer", "resealSelf", "nilKey"} -> MKnows(s, got)
    [] a = "resealPeer"                                   -> MKnows(s, got) /\ MKnows(Peer(s), got)

\* the message s finds on the wire: who it names, who signed, which challenge, sealed under which secret, for whom
AuthMsg(s, a, got) ==
  CASE a = "relay"      -> [key |-> Peer(s), signer |-> Peer(s), chal |-> SecOf(Peer(s), got), sealed |-> SecOf(Peer(s), got), for |-> s]
    [] a = "own"        -> [key |-> "M",     signer |-> "M",     chal |-> SecOf(s, got),       sealed |-> SecOf(s, got),       for |-> s]
    [] a = "claimPeer"  -> [key |-> Peer(s), signer |-> "M",     chal |-> SecOf(s, got),       sealed |-> SecOf(s, got),       for |-> s]
    [] a = "resealPeer" -> [key |-> Peer(s), signer |-> Peer(s), chal |-> SecOf(Peer(s), got), sealed |-> SecOf(s, got),       for |-> s]
    [] a = "reflect"    -> [key |-> s,       signer |-> s,       chal |-> SecOf(s, got),       sealed |-> SecOf(s, got),       for |-> Peer(s)]
    [] a = "resealSelf" -> [key |-> s,       signer |-> s,       chal |-> SecOf(s, got),       sealed |-> SecOf(s, got),       for |-> s]
    [] a = "nilKey"     -> [key |-> "nil",   signer |-> "M",     chal |-> SecOf(s, got),       sealed |-> SecOf(s, got),       for |-> s]
    [] a = "garbage"    -> [key |-> "M",     signer |-> "M",     chal |-> {},                  sealed |-> {},                  for |-> s]

\* MakeSecretConnection at s: secretbox.Open under own secret and receive nonce, then VerifyBytes(challenge)
HsResult(s, a, got) ==
  LET m == AuthMsg(s, a, got) IN
  IF ~(m.sealed = SecOf(s, got) /\ m.for = s) THEN "errDecrypt"
  ELSE IF m.key = "nil" \/ m.signer # m.key \/ m.chal # SecOf(s, got) THEN "errVerify"
  ELSE IF m.key = Peer(s) THEN "ok:peer" ELSE IF m.key = s THEN "ok:self" ELSE "ok:M"

Handshake(toA, toB, authA, authB, rA, rB) ==
  LET got == [s \in Side |-> IF s = "A" THEN toA ELSE toB] IN
  /\ phase = "hs"
  /\ toA \in {"eB", "eM"} /\ toB \in {"eA", "eM"}
  /\ authA \in AuthChoices /\ authB \in AuthChoices
  /\ Feasible("A", authA, got) /\ Feasible("B", authB, got)
  /\ rA = HsResult("A", authA, got) /\ rB = HsResult("B", authB, got)
  /\ phase' = IF toA = "eB" /\ toB = "eA" /\ authA = "relay" /\ authB = "relay" THEN "stream" ELSE "end"
  /\ res' = [op |-> "Handshake", got |-> got, auth |-> [s \in Side |-> IF s = "A" THEN authA ELSE authB],
             r |-> [s \in Side |-> IF s = "A" THEN rA ELSE rB]]
  /\ UNCHANGED <<frames, wire, closed, recvNonce, buf, dpos, intact, mitm, nsmall, seg>>

-----------------------------------------------------------------------------------
(* Stream: writer A *)

NFrames(sz) == (sz + DataMax - 1) \div DataMax

\* Write(data): for 0 < len(data) { chunk = first min(DataMax, len) bytes; seal; conn.Write }
Write(sz, k) ==
  /\ phase = "stream" /\ ~closed
  /\ k = NFrames(sz)
  /\ Len(frames) + k <= MaxFrames /\ Len(wire) + k <= MaxWire
  /\ frames' = frames \o [i \in 1..k |-> [off |-> Written + (i - 1) * DataMax,
                                          len |-> IF i < k THEN DataMax ELSE sz - (k - 1) * DataMax]]
  /\ wire' = wire \o [i \in 1..k |-> Len(frames) + i]
  /\ res' = [op |-> "Write", sz |-> sz, n |-> sz]
  /\ UNCHANGED <<phase, closed, recvNonce, buf, dpos, intact, mitm, nsmall, seg>>

-----------------------------------------------------------------------------------
(* Stream: man in the middle, acting on sealed frames not yet handed to B *)

Insert(s, p, x) == SubSeq(s, 1, p - 1) \o <<x>> \o SubSeq(s, p, Len(s))
Remove(s, p)    == SubSeq(s, 1, p - 1) \o SubSeq(s, p + 1, Len(s))
Genuine(x)      == x >= 1

MitmStep(op) ==
  /\ phase = "stream" /\ ~closed /\ mitm < MaxMitm
  /\ mitm' = mitm + 1
  /\ res' = op
  /\ UNCHANGED <<phase, frames, recvNonce, buf, dpos, intact, nsmall, seg>>

Flip(p) ==      \* one bit of frame p (tag or body) inverted
  /\ p \in 1..Len(wire) /\ Genuine(wire[p])
  /\ wire' = [wire EXCEPT ![p] = BAD] /\ closed' = closed
  /\ MitmStep([op |-> "Flip", p |-> p])

Drop(p) ==
  /\ p \in 1..Len(wire)
  /\ wire' = Remove(wire, p) /\ closed' = closed
  /\ MitmStep([op |-> "Drop", p |-> p])

Dup(p) ==       \* frame p delivered twice
  /\ p \in 1..Len(wire) /\ Genuine(wire[p]) /\ Len(wire) < MaxWire
  /\ wire' = Insert(wire, p + 1, wire[p]) /\ closed' = closed
  /\ MitmStep([op |-> "Dup", p |-> p])

Swap(p) ==      \* frames p and p+1 exchanged
  /\ p \in 1..(Len(wire) - 1) /\ wire[p] # wire[p + 1]
  /\ wire' = [wire EXCEPT ![p] = wire[p + 1], ![p + 1] = wire[p]] /\ closed' = closed
  /\ MitmStep([op |-> "Swap", p |-> p])

Inject(p) ==    \* a forged frame before position p
  /\ p \in 1..(Len(wire) + 1) /\ Len(wire) < MaxWire
  /\ wire' = Insert(wire, p, BAD) /\ closed' = closed
  /\ MitmStep([op |-> "Inject", p |-> p])

Replay(k) ==    \* a frame B already opened is delivered again, next
  /\ k \in 1..Len(frames) /\ k < recvNonce /\ Len(wire) < MaxWire
  /\ wire' = <<k>> \o wire /\ closed' = closed
  /\ MitmStep([op |-> "Replay", k |-> k])

Truncate(p, mid) ==  \* the stream ends before frame p (mid: after some but not all bytes of frame p)
  /\ p \in 1..(Len(wire) + 1) /\ mid \in BOOLEAN /\ (mid => p <= Len(wire))
  /\ wire' = SubSeq(wire, 1, p - 1) \o (IF mid THEN <<PART>> ELSE <<>>)
  /\ closed' = TRUE
  /\ MitmStep([op |-> "Truncate", p |-> p, mid |-> mid])

-----------------------------------------------------------------------------------
(* Stream: reader B *)

\* One Read(data) with len(data) = b.  Reply class and byte count are functions of the state:
ReadR(b) == IF buf.len > 0 THEN "ok"
            ELSE IF wire = <<>> THEN "eof"                      \* io.ReadFull on a closed, empty stream
            ELSE IF Head(wire) = PART THEN "ueof"               \* io.ReadFull hits the end inside a frame
            ELSE IF Head(wire) # recvNonce THEN "decrypt"       \* secretbox.Open fails
            ELSE "ok"
ReadN(b) == IF buf.len > 0 THEN Min(b, buf.len)
            ELSE IF wire # <<>> /\ Head(wire) = recvNonce THEN Min(b, frames[Head(wire)].len)
            ELSE 0

Read(b) ==
  LET r == ReadR(b)
      n == ReadN(b) IN
  /\ phase = "stream"
  /\ b >= DataMax \/ nsmall < MaxSmall
  /\ (buf.len = 0 /\ wire = <<>>) => closed     \* otherwise the call blocks
  /\ IF buf.len > 0 THEN                        \* served from recvBuffer
       /\ intact' = (intact /\ buf.off = dpos)
       /\ dpos' = dpos + n
       /\ buf' = [off |-> buf.off + n, len |-> buf.len - n]
       /\ UNCHANGED <<wire, recvNonce>>
     ELSE IF r = "eof" THEN
       UNCHANGED <<wire, recvNonce, buf, dpos, intact>>
     ELSE IF r \in {"ueof", "decrypt"} THEN       \* the frame is consumed; the nonce is NOT advanced
       /\ wire' = Tail(wire)
       /\ UNCHANGED <<recvNonce, buf, dpos, intact>>
     ELSE LET f == frames[Head(wire)] IN         \* opened: copy what fits, keep the rest
       /\ intact' = (intact /\ f.off = dpos)
       /\ dpos' = dpos + n
       /\ buf' = [off |-> f.off + n, len |-> f.len - n]
       /\ wire' = Tail(wire) /\ recvNonce' = recvNonce + 1
  /\ nsmall' = IF b < DataMax THEN nsmall + 1 ELSE nsmall
  /\ res' = [op |-> "Read", b |-> b, r |-> r, n |-> n]
  /\ UNCHANGED <<phase, frames, closed, mitm, seg>>

\* a consumer loop: Reads with the same buffer until recvBuffer is empty
Drain(b) ==
  LET total == buf.len
      calls == (buf.len + b - 1) \div b IN
  /\ phase = "stream" /\ buf.len > 0
  /\ intact' = (intact /\ buf.off = dpos)
  /\ dpos' = dpos + total
  /\ buf' = [off |-> buf.off + total, len |-> 0]
  /\ res' = [op |-> "Drain", b |-> b, calls |-> calls, n |-> total]
  /\ UNCHANGED <<phase, frames, wire, closed, recvNonce, mitm, nsmall, seg>>

\* the carrier starts cutting the pending ciphertext differently (any time, handshake included)
Resegment(k) ==
  /\ phase \in {"hs", "stream"} /\ k \in Segs /\ k # seg
  /\ seg' = k
  /\ res' = [op |-> "Resegment", k |-> k]
  /\ UNCHANGED <<phase, frames, wire, closed, recvNonce, buf, dpos, intact, mitm, nsmall>>

Next ==
  \/ \E toA \in {"eB", "eM"}, toB \in {"eA", "eM"}, a1 \in AuthChoices, a2 \in AuthChoices,
        rA \in {"ok:peer", "ok:self", "ok:M", "errDecrypt", "errVerify"},
        rB \in {"ok:peer", "ok:self", "ok:M", "errDecrypt", "errVerify"} : Handshake(toA, toB, a1, a2, rA, rB)
  \/ \E sz \in WriteSizes : \E k \in {NFrames(sz)} : Write(sz, k)
  \/ \E p \in 1..(MaxWire + 1) : Flip(p) \/ Drop(p) \/ Dup(p) \/ Swap(p) \/ Inject(p)
                                   \/ \E mid \in BOOLEAN : Truncate(p, mid)
  \/ \E k \in 1..MaxFrames : Replay(k)
  \/ \E b \in ReadBufs : Read(b) \/ Drain(b)
  \/ \E k \in Segs : Resegment(k)

Spec == Init /\ [][Next]_vars

-----------------------------------------------------------------------------------
(* Properties (C20, transport part) *)

TypeOK ==
  /\ phase \in {"hs", "stream", "end"}
  /\ \A i \in 1..Len(frames) : frames[i].len \in 1..DataMax
  /\ \A i \in 1..Len(wire) : wire[i] \in (1..Len(frames)) \cup {BAD, PART}
  /\ recvNonce \in 1..(Len(frames) + 1)
  /\ buf.len \in 0..DataMax /\ dpos \in 0..Written

\* frames carry the written stream without gap or overlap, whatever the write sizes
Framing == \A i \in 1..Len(frames) :
             frames[i].off = (IF i = 1 THEN 0 ELSE frames[i - 1].off + frames[i - 1].len)

\* what the reader obtained is always a prefix of what the writer wrote, byte for byte and in order
StreamIntegrity ==
  /\ intact
  /\ dpos + buf.len <= Written
  /\ buf.len > 0 => buf.off = dpos
  \* everything delivered or buffered comes from the frames opened so far, in nonce order
  /\ dpos + buf.len = (IF recvNonce = 1 THEN 0 ELSE frames[recvNonce - 1].off + frames[recvNonce - 1].len)

\* a Read never claims success without data, and never returns data together with an error
ReadContract ==
  [][ res'.op = "Read" => ((res'.r = "ok") <=> (res'.n > 0)) ]_vars

\* a frame that is not the next genuine frame (tampered, forged, replayed, out of order, cut) is never opened:
\* the Read that meets it returns an error and delivers nothing
TamperDetected ==
  [][ (res'.op = "Read" /\ buf.len = 0 /\ wire # <<>> /\ Head(wire) # recvNonce)
        => (res'.r \in {"decrypt", "ueof"} /\ res'.n = 0 /\ dpos' = dpos /\ recvNonce' = recvNonce) ]_vars

\* how the carrier cuts the ciphertext is invisible: a Resegment step changes nothing anybody can observe, and no
\* other action reads seg (StreamIntegrity and NoLossWhenUntouched are checked with Resegment steps anywhere)
CarrierTransparent == [][ res'.op = "Resegment" => view' = view ]_vars

\* without a man in the middle every written byte is delivered: when nothing is left in flight the reader has all
NoLossWhenUntouched == (mitm = 0 /\ wire = <<>> /\ buf.len = 0) => dpos = Written

\* handshake: the identity an end reports is the key whose owner signed THAT end's challenge
PeerIdentityIsChallengeSigner ==
  [][ res'.op = "Handshake" =>
        \A s \in Side :
          LET m == AuthMsg(s, res'.auth[s], res'.got) IN
          /\ (res'.r[s] \in {"ok:peer", "ok:self", "ok:M"}) =>
                 (m.signer = m.key /\ m.chal = SecOf(s, res'.got) /\ m.sealed = SecOf(s, res'.got))
          \* an honest peer is only ever authenticated over a channel M cannot read or write ...
          /\ (res'.r[s] = "ok:peer") => (~MKnows(s, res'.got) /\ SecOf(s, res'.got) = SecOf(Peer(s), res'.got))
          \* ... so whenever M sits inside the channel it is authenticated as itself (or as the end's own key), or detected
          /\ MKnows(s, res'.got) => res'.r[s] \in {"ok:M", "ok:self", "errDecrypt", "errVerify"} ]_vars
===================================================================================
