-------------------------------- MODULE Admission --------------------------------
(* Who gets into the peer set: Switch.AddPeerWithConnection (gemmill/p2p/switch.go) with the filters  *)
(* gemmill/angine.go installs -- refuseListFilter (prepareP2P) and authByCA (assembleStateMachine,    *)
(* only when auth_by_ca is set) -- over the node's CURRENT validator set (State.Validators is replaced *)
(* by every block; authByCA reads it through the pointer it was given).                                *)
(*                                                                                                    *)
(* Connect(auth, ann, signer, over, r) is one connection attempt:                                     *)
(*   auth    the key the peer proved to own in the SecretConnection handshake                         *)
(*   ann     NodeInfo.PubKey it announces afterwards ("nil": none)                                    *)
(*   signer  who made NodeInfo.SigndPubKey ("none": empty, "malformed": not hex)                      *)
(*   over    "ann": the signature is over the announced key, "other": over something else             *)
(*   r       the outcome, in the order the code decides it                                            *)
(* The other actions change what the decision depends on while the node runs: validators are added,   *)
(* removed, gain or lose the authority flag (EndBlock of the admin plugin), keys enter or leave the    *)
(* refuse list.  startVals / startCAs remember the set the node was assembled with.                    *)
EXTENDS Integers, FiniteSets, TLC

CONSTANTS
  Keys,       \* all node keys; Self is the node under test
  Self,
  InitVals,   \* validators at assembly (Self among them)
  InitCAs,    \* those with IsCA
  MaxChg,     \* validator-set changes in one behaviour
  MaxRefuse,  \* size of the refuse list
  Combine     \* FALSE: a behaviour changes either the validator set or the refuse list, not both (smaller graph)

VARIABLES
  authByCA,   \* conf auth_by_ca (read once, at assembly)
  nva,        \* conf non_validator_node_auth (read at every attempt; constant here)
  vals, cas,  \* current validator set and its authorities
  refuse,     \* refuse list
  startVals, startCAs, \* ghost: the set at assembly
  nchg,
  res         \* output only

vars == <<authByCA, nva, vals, cas, refuse, startVals, startCAs, nchg, res>>
view == <<authByCA, nva, vals, cas, refuse, nchg>>

Init ==
  /\ authByCA \in BOOLEAN /\ nva \in BOOLEAN
  /\ vals = InitVals /\ cas = InitCAs /\ refuse = {}
  /\ startVals = InitVals /\ startCAs = InitCAs /\ nchg = 0
  /\ res = [op |-> "init"]

Signers == Keys \cup {"none", "malformed"}
Overs   == {"ann", "other"}

\* authByCA: "validator node ... can bypass auth check": only a CURRENT validator, and only if non_validator_node_auth is off
CAApplies(k, V) == authByCA /\ ~(k \in V /\ ~nva)
\* SigndPubKey verifies under the key of some validator with IsCA, over the announced key's bytes
ValidSig(signer, over, C) == signer \in C /\ over = "ann"

\* the decision as the code takes it, against validator set V with authorities C
Decide(auth, ann, signer, over, V, C) ==
  IF auth \in refuse THEN "refused:refuselist"                                   \* FilterConnByRefuselist(RemotePubKey)
  ELSE IF ann = "nil" THEN "refused:nokey"                                       \* peerHandshake
  ELSE IF CAApplies(ann, V) /\ ~ValidSig(signer, over, C) THEN "refused:ca"      \* peerHandshake -> AuthByCA(announced NodeInfo)
  ELSE IF ann # auth THEN "refused:mismatch"                                     \* announced key vs authenticated key
  ELSE IF ann = Self THEN "refused:self"
  ELSE "admitted"

Connect(auth, ann, signer, over, r) ==
  /\ auth \in Keys /\ ann \in Keys \cup {"nil"} /\ signer \in Signers /\ over \in Overs
  /\ (signer \in {"none", "malformed"} => over = "ann")
  /\ r = Decide(auth, ann, signer, over, vals, cas)
  /\ res' = [op |-> "Connect", auth |-> auth, ann |-> ann, signer |-> signer, over |-> over, r |-> r]
  /\ UNCHANGED <<authByCA, nva, vals, cas, refuse, startVals, startCAs, nchg>>

Change(V, C, what) ==
  /\ nchg < MaxChg /\ nchg' = nchg + 1
  /\ Combine \/ refuse = {}
  /\ vals' = V /\ cas' = C
  /\ res' = what
  /\ UNCHANGED <<authByCA, nva, refuse, startVals, startCAs>>

AddVal(k, ca)  == k \in Keys \ vals /\ Change(vals \cup {k}, IF ca THEN cas \cup {k} ELSE cas, [op |-> "AddVal", k |-> k, ca |-> ca])
RemoveVal(k)   == k \in vals \ {Self} /\ Change(vals \ {k}, cas \ {k}, [op |-> "RemoveVal", k |-> k])
SetCA(k, ca)   == k \in vals \ {Self} /\ (ca # (k \in cas))
                  /\ Change(vals, IF ca THEN cas \cup {k} ELSE cas \ {k}, [op |-> "SetCA", k |-> k, ca |-> ca])

AddRefuse(k) ==
  /\ k \in Keys \ refuse /\ Cardinality(refuse) < MaxRefuse
  /\ Combine \/ nchg = 0
  /\ refuse' = refuse \cup {k} /\ res' = [op |-> "AddRefuse", k |-> k]
  /\ UNCHANGED <<authByCA, nva, vals, cas, startVals, startCAs, nchg>>
DelRefuse(k) ==
  /\ k \in refuse
  /\ refuse' = refuse \ {k} /\ res' = [op |-> "DelRefuse", k |-> k]
  /\ UNCHANGED <<authByCA, nva, vals, cas, startVals, startCAs, nchg>>

Results == {"admitted", "refused:refuselist", "refused:nokey", "refused:ca", "refused:mismatch", "refused:self"}

Next ==
  \/ \E auth \in Keys, ann \in Keys \cup {"nil"}, signer \in Signers, over \in Overs, r \in Results :
        Connect(auth, ann, signer, over, r)
  \/ \E k \in Keys, ca \in BOOLEAN : AddVal(k, ca) \/ SetCA(k, ca)
  \/ \E k \in Keys : RemoveVal(k) \/ AddRefuse(k) \/ DelRefuse(k)

Spec == Init /\ [][Next]_vars

-----------------------------------------------------------------------------------
(* Properties (C20, admission part): stated for every possible attempt in every reachable state *)

TypeOK == /\ Self \in vals /\ cas \subseteq vals /\ vals \subseteq Keys /\ refuse \subseteq Keys

Attempts == {a \in [auth : Keys, ann : Keys \cup {"nil"}, signer : Signers, over : Overs] :
               a.signer \in {"none", "malformed"} => a.over = "ann"}
Out(a) == Decide(a.auth, a.ann, a.signer, a.over, vals, cas)

\* admitted => not on the refuse list, announced key = authenticated key, and -- when CA admission applies to
\* that key -- a signature over it that verifies under a CURRENT authority
AdmissionSound ==
  \A a \in Attempts : Out(a) = "admitted" =>
     /\ a.auth \notin refuse
     /\ a.ann = a.auth
     /\ CAApplies(a.auth, vals) => (a.signer \in cas /\ a.over = "ann")

\* and nobody who satisfies all of that (and is not the node itself) is turned away
AdmissionComplete ==
  \A a \in Attempts :
     (a.auth \notin refuse /\ a.ann = a.auth /\ a.auth # Self
        /\ (CAApplies(a.auth, vals) => (a.signer \in cas /\ a.over = "ann"))) => Out(a) = "admitted"

\* a decision taken against the set the node was assembled with would be different: these are the attempts for
\* which "current authority" matters (used to count the non-trivial rows; not an invariant)
StaleDiffers(a) == Decide(a.auth, a.ann, a.signer, a.over, startVals, startCAs) # Out(a)
===================================================================================
