---------------------------------- MODULE MConn ----------------------------------
(* gemmill/p2p/connection.go -- one direction of an MConnection: per-channel send queues, the         *)
(* sendRoutine cutting messages into msgPackets, an in-order reliable byte stream (the SecretConnection *)
(* of SecretConn.tla, here simply a FIFO of packets), and the recvRoutine reassembling per channel.   *)
(*                                                                                                    *)
(* Send(c, sz) / TrySend(c, sz, ok)  Channel.sendBytes / trySendBytes: the message enters sendQueue   *)
(*                                   (capacity QCap) -- Send blocks while it is full, TrySend says no *)
(* SendPacket(c)                     sendMsgPacket: every channel with nothing in "sending" first     *)
(*                                   takes the head of its queue (isSendPending does that during the  *)
(*                                   scan), then ONE pending channel is chosen -- by recentlySent /   *)
(*                                   priority in the code, which depends on timers; here any pending  *)
(*                                   channel -- and nextMsgPacket cuts min(PSize, rest) bytes, EOF    *)
(*                                   set iff rest <= PSize                                            *)
(* RecvPacket(c, r)                  recvMsgPacket: capacity check BEFORE appending, deliver on EOF   *)
(* A message is [id, size]; its bytes are identified by (id, offset).                                 *)
EXTENDS Integers, Sequences, FiniteSets, TLC

CONSTANTS
  Chans,     \* channel ids
  Cap,       \* [Chans -> Nat]  RecvMessageCapacity of the receiving side
  PSize,     \* maxMsgPacketPayloadSize (1024)
  QCap,      \* SendQueueCapacity (1)
  Sizes,     \* [Chans -> SUBSET Nat] message sizes offered on a channel
  MaxMsgs,   \* messages offered in one behaviour
  MaxWire    \* packets in flight (bufio + pipe back-pressure; only bounds the model)

NoMsg == [id |-> 0, size |-> 0, left |-> 0]

VARIABLES
  queue,      \* [Chans -> Seq([id, size])]            Channel.sendQueue
  sending,    \* [Chans -> [id, size, left]]           Channel.sending (left = bytes not yet packetised)
  wire,       \* Seq([ch, id, off, len, eof])          packets written and not yet read
  recving,    \* [Chans -> [id, n, ok]]                Channel.recving: n bytes, all of message id in order iff ok
  delivered,  \* [Chans -> Seq([id, size])]            what onReceive was called with
  accepted,   \* ghost [Chans -> Seq([id, size])]      messages Send/TrySend said yes to
  err,        \* the receiver stopped with an error (onError called, connection closed)
  nmsg,       \* messages offered so far
  res         \* output only

vars == <<queue, sending, wire, recving, delivered, accepted, err, nmsg, res>>
view == <<queue, sending, wire, recving, delivered, accepted, err, nmsg>>

Min(a, b) == IF a < b THEN a ELSE b

Init ==
  /\ queue = [c \in Chans |-> <<>>] /\ sending = [c \in Chans |-> NoMsg]
  /\ wire = <<>> /\ recving = [c \in Chans |-> [id |-> 0, n |-> 0, ok |-> TRUE]]
  /\ delivered = [c \in Chans |-> <<>>] /\ accepted = [c \in Chans |-> <<>>]
  /\ err = FALSE /\ nmsg = 0 /\ res = [op |-> "init"]

Enqueue(c, sz) ==
  LET m == [id |-> nmsg + 1, size |-> sz] IN
  /\ queue' = [queue EXCEPT ![c] = Append(@, m)]
  /\ accepted' = [accepted EXCEPT ![c] = Append(@, m)]

Send(c, sz) ==
  /\ nmsg < MaxMsgs /\ sz \in Sizes[c]
  /\ Len(queue[c]) < QCap                \* otherwise the caller blocks (up to 10 s)
  /\ Enqueue(c, sz) /\ nmsg' = nmsg + 1
  /\ res' = [op |-> "Send", c |-> c, sz |-> sz, ok |-> TRUE]
  /\ UNCHANGED <<sending, wire, recving, delivered, err>>

TrySend(c, sz, ok) ==
  /\ nmsg < MaxMsgs /\ sz \in Sizes[c]
  /\ ok = (Len(queue[c]) < QCap)
  /\ nmsg' = nmsg + 1
  /\ IF ok THEN Enqueue(c, sz) ELSE UNCHANGED <<queue, accepted>>
  /\ res' = [op |-> "TrySend", c |-> c, sz |-> sz, ok |-> ok]
  /\ UNCHANGED <<sending, wire, recving, delivered, err>>

\* state of the channels after the isSendPending scan of sendMsgPacket
Popped(c) == IF sending[c] = NoMsg /\ queue[c] # <<>>
               THEN [id |-> Head(queue[c]).id, size |-> Head(queue[c]).size, left |-> Head(queue[c]).size]
               ELSE sending[c]
QueueAfterScan(c) == IF sending[c] = NoMsg /\ queue[c] # <<>> THEN Tail(queue[c]) ELSE queue[c]

SendPacket(c) ==
  LET m == Popped(c)
      ln == Min(PSize, m.left)
      eof == (m.left <= PSize) IN
  /\ m # NoMsg /\ Len(wire) < MaxWire
  /\ wire' = Append(wire, [ch |-> c, id |-> m.id, off |-> m.size - m.left, len |-> ln, eof |-> eof])
  /\ sending' = [d \in Chans |-> IF d = c THEN (IF eof THEN NoMsg ELSE [m EXCEPT !.left = @ - ln]) ELSE Popped(d)]
  /\ queue' = [d \in Chans |-> QueueAfterScan(d)]
  /\ res' = [op |-> "SendPacket", c |-> c, len |-> ln, eof |-> eof]
  /\ UNCHANGED <<recving, delivered, accepted, err, nmsg>>

RecvPacket(c, r) ==
  /\ ~err /\ wire # <<>> /\ Head(wire).ch = c
  /\ LET p == Head(wire)
         rc == recving[c]
         total == rc.n + p.len
         good == rc.ok /\ (IF rc.n = 0 THEN p.off = 0 ELSE rc.id = p.id /\ p.off = rc.n)
     IN
     IF Cap[c] < total THEN
       /\ r = "overflow" /\ err' = TRUE /\ wire' = <<>>
       /\ UNCHANGED <<recving, delivered>>
     ELSE IF p.eof THEN
       /\ r = "msg" /\ wire' = Tail(wire)
       /\ delivered' = [delivered EXCEPT ![c] = Append(@, [id |-> IF good THEN p.id ELSE 0, size |-> total])]
       /\ recving' = [recving EXCEPT ![c] = [id |-> 0, n |-> 0, ok |-> TRUE]]
       /\ err' = err
     ELSE
       /\ r = "part" /\ wire' = Tail(wire)
       /\ recving' = [recving EXCEPT ![c] = [id |-> p.id, n |-> total, ok |-> good]]
       /\ UNCHANGED <<delivered, err>>
  /\ res' = [op |-> "RecvPacket", c |-> c, r |-> r]
  /\ UNCHANGED <<queue, sending, accepted, nmsg>>

Next ==
  \/ \E c \in Chans : \E sz \in Sizes[c] : Send(c, sz) \/ \E ok \in BOOLEAN : TrySend(c, sz, ok)
  \/ \E c \in Chans : SendPacket(c)
  \/ \E c \in Chans, r \in {"part", "msg", "overflow"} : RecvPacket(c, r)

Spec == Init /\ [][Next]_vars

-----------------------------------------------------------------------------------
(* Properties (C20, message part) *)

IsPrefix(s, t) == Len(s) <= Len(t) /\ \A i \in 1..Len(s) : s[i] = t[i]

\* what arrives on a channel is, message by message, what was accepted on it: same messages, whole, same order
PerChannelOrderAndIntegrity == \A c \in Chans : IsPrefix(delivered[c], accepted[c])

\* nothing larger than the capacity is ever handed to onReceive
CapacityRespected == \A c \in Chans : \A i \in 1..Len(delivered[c]) : delivered[c][i].size <= Cap[c]

\* the error is raised exactly for a message over the capacity -- never a partial or merged delivery instead
OverCapacityIsError ==
  [][ (res'.op = "RecvPacket" /\ res'.r = "overflow") =>
        LET c == res'.c IN /\ Len(delivered[c]) < Len(accepted[c])
                           /\ accepted[c][Len(delivered[c]) + 1].size > Cap[c] ]_vars
NoSpuriousError == (\A c \in Chans : \A i \in 1..Len(accepted[c]) : accepted[c][i].size <= Cap[c]) => ~err
NothingAfterError == [][ err => delivered' = delivered ]_vars

\* every accepted message up to the capacity arrives: when nothing is in flight and no error occurred, all are there
Quiescent == wire = <<>> /\ \A c \in Chans : queue[c] = <<>> /\ sending[c] = NoMsg
Complete == (Quiescent /\ ~err) => delivered = accepted

\* the packets of one message are cut at PSize, only the last carries EOF, and an exact multiple has no empty tail
Packetisation ==
  [][ res'.op = "SendPacket" =>
        LET p == wire'[Len(wire')] IN
        /\ p.len <= PSize /\ (p.eof <=> p.off + p.len = accepted[p.ch][CHOOSE i \in 1..Len(accepted[p.ch]) : accepted[p.ch][i].id = p.id].size)
        /\ (~p.eof => p.len = PSize) ]_vars
===================================================================================
