SPECIFICATION Spec
CONSTANTS
  Chans = {1, 2}
  Cap <- CapQ
  PSize = 1024
  QCap = 1
  Sizes <- SizesT
  MaxMsgs = 3
  MaxWire = 3
VIEW view
INVARIANTS PerChannelOrderAndIntegrity CapacityRespected NoSpuriousError Complete
PROPERTIES OverCapacityIsError NothingAfterError Packetisation
CHECK_DEADLOCK FALSE
