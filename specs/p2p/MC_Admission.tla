----------------------------- MODULE MC_Admission -----------------------------
EXTENDS Admission
\* N: the node (validator, authority)   C: validator and authority at start   V: validator, no authority
\* P, Q: not validators at start
K5 == {"N", "C", "V", "P", "Q"}
K4 == {"N", "C", "V", "P"}
================================================================================
