INIT InitStream
NEXT Next
CONSTANTS
  DataMax = 1024
  WriteSizes = {0, 1, 1023, 1024, 1025, 3000}
  ReadBufs = {1, 7, 1024, 4096}
  MaxFrames = 6
  MaxWire = 6
  MaxMitm = 3
  MaxSmall = 4
  AuthChoices <- AuthAll
  Segs = {0, 1, 7, 700, 1041, 1043}
VIEW view
INVARIANTS TypeOK Framing StreamIntegrity NoLossWhenUntouched
PROPERTIES ReadContract TamperDetected PeerIdentityIsChallengeSigner CarrierTransparent
CHECK_DEADLOCK FALSE
