--------------------------------- MODULE StateDB ---------------------------------
(* eth/core/state/{statedb,state_object,journal}.go as implemented (C11).                     *)
(* Abstract content: accounts -> (nonce, balance, code, storage map).  The journal is         *)
(* modelled the way the code has it - a sequence of UNDO entries, one per mutation, replayed   *)
(* backwards by RevertToSnapshot - and NOT as a stack of saved copies; the saved copies exist  *)
(* only as the ghost variable `saved` against which RevertRestoresExactly is checked.          *)
(* One action per public mutator.  Reply classes are action arguments.                         *)
(* The abstract ROOT of a state is Persist(acc) (see Trie.tla for why).                        *)
EXTENDS Integers, Sequences, FiniteSets, TLC

CONSTANTS
  Addrs,      \* abstract addresses
  Slots,      \* abstract storage keys
  MaxVal,     \* storage values 0..MaxVal (0 = zero word = slot absent from the storage trie)
  MaxNonce,   \* nonces 0..MaxNonce
  MaxBal,     \* balances 0..MaxBal
  MaxCode,    \* code classes 0..MaxCode (0 = no code)
  Del,        \* deleteEmptyObjects, fixed per chain: AnnChain passes TRUE everywhere (state_processor.go,
              \* chain/app/evm), genesis FALSE.  Mixing the two on one StateDB is outside the model (in both
              \* code bases Finalise(true) followed by Commit(false) re-inserts an account deleted as empty).
  MaxJournal, \* bound on journal length            (state constraint)
  MaxSnap,    \* bound on snapshot nesting           (state constraint)
  MaxIds      \* bound on revision ids handed out    (state constraint)

ZeroSt == [s \in Slots |-> 0]
NoAcct == [ex |-> FALSE, nonce |-> 0, bal |-> 0, code |-> 0, st |-> ZeroSt, suic |-> FALSE]
Fresh  == [NoAcct EXCEPT !.ex = TRUE]
Rec    == [ex : BOOLEAN, nonce : 0..MaxNonce, bal : 0..MaxBal, code : 0..MaxCode,
           st : [Slots -> 0..MaxVal], suic : BOOLEAN]
NoSlot == "-"

VARIABLES
  acc,     \* [Addrs -> Rec]  what the getters answer now (live objects over the account trie)
  trie,    \* [Addrs -> Rec]  content of the in-memory account trie (changes only in Finalise / Commit)
  journal, \* Seq of undo entries [t, a, s, pv, pb, pr]
  revs,    \* Seq of [id, j]   validRevisions
  nextId,  \* nextRevisionId
  pend,    \* SUBSET Addrs     stateObjectsDirty: finalised into the trie, not yet committed
  disk,    \* [Addrs -> Rec]   content under the last committed root
  saved,   \* ghost: Seq of acc, saved[i] = acc when revs[i] was taken
  stale,   \* ghost: addresses whose live object was NOT written by the last Finalise/Commit although it
           \* differs from the trie (see ResetQuirk)
  res      \* output only

vars == <<acc, trie, journal, revs, nextId, pend, disk, saved, stale, res>>
view == <<acc, trie, journal, revs, nextId, pend, disk, saved, stale>>

Entry(t, a) == [t |-> t, a |-> a, s |-> NoSlot, pv |-> 0, pb |-> FALSE, pr |-> NoAcct]

IsEmpty(r) == r.nonce = 0 /\ r.bal = 0 /\ r.code = 0          \* stateObject.empty()
\* what the account trie holds for a finalised account
PersistRec(r) == IF r.ex THEN [r EXCEPT !.suic = FALSE] ELSE NoAcct
Persist(A) == [a \in Addrs |-> PersistRec(A[a])]

Init ==
  /\ acc = [a \in Addrs |-> NoAcct] /\ journal = <<>> /\ revs = <<>> /\ nextId = 0
  /\ trie = [a \in Addrs |-> NoAcct] /\ stale = {}
  /\ pend = {} /\ disk = [a \in Addrs |-> NoAcct] /\ saved = <<>>
  /\ res = [op |-> "init"]

-----------------------------------------------------------------------------------
(* journal entry revert functions, journal.go *)
Undo(A, e) ==
  CASE e.t = "create"  -> [A EXCEPT ![e.a] = NoAcct]         \* delete(stateObjects, a): trie has no such account
    [] e.t = "reset"   -> [A EXCEPT ![e.a] = e.pr]
    [] e.t = "suicide" -> IF A[e.a].ex THEN [A EXCEPT ![e.a].suic = e.pb, ![e.a].bal = e.pv] ELSE A
    [] e.t = "balance" -> [A EXCEPT ![e.a].bal = e.pv]
    [] e.t = "nonce"   -> [A EXCEPT ![e.a].nonce = e.pv]
    [] e.t = "code"    -> [A EXCEPT ![e.a].code = e.pv]
    [] e.t = "storage" -> [A EXCEPT ![e.a].st[e.s] = e.pv]
    [] e.t = "touch"   -> A

RECURSIVE UndoTo(_, _, _)
UndoTo(A, J, n) == IF Len(J) <= n THEN A ELSE UndoTo(Undo(A, J[Len(J)]), SubSeq(J, 1, Len(J) - 1), n)

\* journal.dirties: addresses with at least one entry whose dirtied() is the address (reset has none)
Dirty == {journal[i].a : i \in {k \in DOMAIN journal : journal[k].t # "reset"}}

(* GetOrNewStateObject: createObject (journalled) when there is no live, undeleted object *)
Ensure(a) == IF acc[a].ex THEN [A |-> acc, J |-> <<>>]
             ELSE [A |-> [acc EXCEPT ![a] = Fresh], J |-> <<Entry("create", a)>>]

Upd(E, entries, A2) ==
  /\ acc' = A2
  /\ journal' = journal \o E.J \o entries
  /\ UNCHANGED <<trie, revs, nextId, pend, disk, saved, stale>>

SetNonce(a, n) ==
  /\ res' = [op |-> "SetNonce"]
  /\ LET E == Ensure(a) IN
       Upd(E, <<[Entry("nonce", a) EXCEPT !.pv = E.A[a].nonce]>>,
              [E.A EXCEPT ![a].nonce = n])

SetBalance(a, b) ==
  /\ res' = [op |-> "SetBalance"]
  /\ LET E == Ensure(a) IN
       Upd(E, <<[Entry("balance", a) EXCEPT !.pv = E.A[a].bal]>>,
              [E.A EXCEPT ![a].bal = b])

(* AddBalance(a, d): d = 0 only touches an empty object *)
AddBalance(a, d) ==
  /\ res' = [op |-> "AddBalance"]
  /\ LET E == Ensure(a) IN
       /\ E.A[a].bal + d <= MaxBal
       /\ IF d = 0
            THEN Upd(E,
                        IF IsEmpty(E.A[a]) THEN <<Entry("touch", a)>> ELSE <<>>, E.A)
            ELSE Upd(E, <<[Entry("balance", a) EXCEPT !.pv = E.A[a].bal]>>,
                        [E.A EXCEPT ![a].bal = @ + d])

SubBalance(a, d) ==
  /\ res' = [op |-> "SubBalance"]
  /\ LET E == Ensure(a) IN
       /\ d <= E.A[a].bal
       /\ IF d = 0 THEN Upd(E, <<>>, E.A)
          ELSE Upd(E, <<[Entry("balance", a) EXCEPT !.pv = E.A[a].bal]>>,
                      [E.A EXCEPT ![a].bal = @ - d])

SetCode(a, c) ==
  /\ res' = [op |-> "SetCode"]
  /\ LET E == Ensure(a) IN
       Upd(E, <<[Entry("code", a) EXCEPT !.pv = E.A[a].code]>>,
              [E.A EXCEPT ![a].code = c])

(* SetState: no journal entry and no change when the value is already there (but the object is created) *)
SetState(a, s, v) ==
  /\ res' = [op |-> "SetState"]
  /\ LET E == Ensure(a) IN
       IF E.A[a].st[s] = v THEN Upd(E, <<>>, E.A)
       ELSE Upd(E, <<[Entry("storage", a) EXCEPT !.s = s, !.pv = E.A[a].st[s]]>>,
                   [E.A EXCEPT ![a].st[s] = v])

(* Suicide(a) -> r: false when there is no such account; balance cleared, object stays until finalised *)
Suicide(a, r) ==
  /\ res' = [op |-> "Suicide", r |-> r]
  /\ r = acc[a].ex
  /\ IF r THEN Upd([A |-> acc, J |-> <<>>],
                   <<[Entry("suicide", a) EXCEPT !.pb = acc[a].suic, !.pv = acc[a].bal]>>,
                   [acc EXCEPT ![a].suic = TRUE, ![a].bal = 0])
          ELSE Upd([A |-> acc, J |-> <<>>], <<>>, acc)

(* CreateAccount(a): a new object replaces any existing one; only the balance is carried over *)
CreateAccount(a) ==
  /\ res' = [op |-> "CreateAccount"]
  /\ LET prev == acc[a]
           e == IF prev.ex THEN [Entry("reset", a) EXCEPT !.pr = prev] ELSE Entry("create", a)
       IN Upd([A |-> acc, J |-> <<>>], <<e>>,
                 [acc EXCEPT ![a] = [Fresh EXCEPT !.bal = IF prev.ex THEN prev.bal ELSE 0]])

Snapshot(id) ==
  /\ id = nextId
  /\ nextId' = nextId + 1
  /\ revs' = Append(revs, [id |-> id, j |-> Len(journal)])
  /\ saved' = Append(saved, acc)
  /\ res' = [op |-> "Snapshot", id |-> id]
  /\ UNCHANGED <<acc, trie, journal, pend, disk, stale>>

RevertToSnapshot(id) ==
  \E idx \in DOMAIN revs :
    /\ revs[idx].id = id
    /\ acc' = UndoTo(acc, journal, revs[idx].j)
    /\ journal' = SubSeq(journal, 1, revs[idx].j)
    /\ revs' = SubSeq(revs, 1, idx - 1)
    /\ saved' = SubSeq(saved, 1, idx - 1)
    /\ res' = [op |-> "RevertToSnapshot", id |-> id, want |-> saved[idx]]
    /\ UNCHANGED <<trie, nextId, pend, disk, stale>>

(* Finalise(Del) / IntermediateRoot(Del): objects whose address is dirty in the journal are deleted (suicided,
   or empty when Del) or written to the account trie; journal and revisions are dropped.  As implemented,
   a resetObjectChange (CreateAccount over an existing account) does NOT make the address dirty. *)
Gone(r) == r.ex /\ (r.suic \/ (Del /\ IsEmpty(r)))
Written(A, T, D) == [a \in Addrs |-> IF a \in D THEN (IF Gone(A[a]) \/ ~A[a].ex THEN NoAcct ELSE PersistRec(A[a])) ELSE T[a]]
Swept(A, D)      == [a \in Addrs |-> IF a \in D /\ Gone(A[a]) THEN NoAcct ELSE A[a]]
Stale(A, T, D)   == {a \in Addrs \ D : PersistRec(A[a]) # T[a]}

Finalise ==
  /\ acc' = Swept(acc, Dirty)
  /\ trie' = Written(acc, trie, Dirty)
  /\ pend' = pend \cup Dirty
  /\ stale' = Stale(acc, trie, Dirty)
  /\ journal' = <<>> /\ revs' = <<>> /\ saved' = <<>>
  /\ res' = [op |-> "Finalise"]
  /\ UNCHANGED <<nextId, disk>>

(* Commit(Del): everything dirty or pending goes to the trie, the trie goes to the database *)
Commit ==
  LET D == Dirty \cup pend IN
     /\ acc' = Swept(acc, D)
     /\ trie' = Written(acc, trie, D)
     /\ disk' = Written(acc, trie, D)
     /\ stale' = Stale(acc, trie, D)
     /\ pend' = {}
     /\ journal' = <<>> /\ revs' = <<>> /\ saved' = <<>>
     /\ res' = [op |-> "Commit"]
     /\ UNCHANGED nextId

(* state.New(lastRoot, db): a new StateDB over the same database at the last committed root *)
Reopen ==
  /\ acc' = disk /\ trie' = disk /\ stale' = {}
  /\ journal' = <<>> /\ revs' = <<>> /\ saved' = <<>> /\ pend' = {} /\ nextId' = 0
  /\ res' = [op |-> "Reopen"]
  /\ UNCHANGED disk

(* Copy(): an independent StateDB holding the same state.  In THIS StateDB nothing changes, now or through anything
   later done to the copy - that is the whole specification of the action.  The binding forks here: the copy is
   written to (all accounts, its own snapshot + revert, a copy of the copy after its finalisation) and must
   behave like a StateDB that reached this state by the same history, while this one carries on with the
   behaviour as if no copy had been taken (journal, revisions and dirtiness included: CopyIndependent). *)
Copy ==
  /\ res' = [op |-> "Copy"]
  /\ UNCHANGED <<acc, trie, journal, revs, nextId, pend, disk, saved, stale>>

(* GetProof(a) verified against the account-trie root: defined when nothing is un-finalised.
   r = "present"/"absent" (the driver compares the proven account body with the getters) *)
ProveAccount(a, r) ==
  /\ journal = <<>>
  /\ r = IF trie[a].ex THEN "present" ELSE "absent"
  /\ res' = [op |-> "ProveAccount", a |-> a, r |-> r]
  /\ UNCHANGED <<acc, trie, journal, revs, nextId, pend, disk, saved, stale>>

Next ==
  \/ \E a \in Addrs, n \in 0..MaxNonce : SetNonce(a, n)
  \/ \E a \in Addrs, b \in 0..MaxBal : SetBalance(a, b)
  \/ \E a \in Addrs, d \in 0..MaxBal : AddBalance(a, d)
  \/ \E a \in Addrs, d \in 0..MaxBal : SubBalance(a, d)
  \/ \E a \in Addrs, c \in 0..MaxCode : SetCode(a, c)
  \/ \E a \in Addrs, s \in Slots, v \in 0..MaxVal : SetState(a, s, v)
  \/ \E a \in Addrs, r \in BOOLEAN : Suicide(a, r)
  \/ \E a \in Addrs : CreateAccount(a)
  \/ \E id \in 0..MaxIds : Snapshot(id)
  \/ \E id \in 0..MaxIds : RevertToSnapshot(id)
  \/ Finalise
  \/ Commit
  \/ Reopen
  \/ \E a \in Addrs, r \in {"present", "absent"} : ProveAccount(a, r)
  \/ Copy

Spec == Init /\ [][Next]_vars

Bound == Len(journal) <= MaxJournal /\ Len(revs) <= MaxSnap /\ nextId <= MaxIds

-----------------------------------------------------------------------------------
TypeOK ==
  /\ acc \in [Addrs -> Rec] /\ disk \in [Addrs -> Rec] /\ trie \in [Addrs -> Rec] /\ pend \subseteq Addrs
  /\ Len(saved) = Len(revs)
  /\ \A a \in Addrs : ~acc[a].ex => acc[a] = NoAcct

\* revision ids increase, journal indexes do not decrease and never exceed the journal
SnapshotsNested ==
  /\ \A i \in DOMAIN revs : revs[i].j <= Len(journal) /\ revs[i].id < nextId
  /\ \A i, k \in DOMAIN revs : i < k => (revs[i].id < revs[k].id /\ revs[i].j <= revs[k].j)

\* replaying the undo entries down to ANY valid revision yields exactly the state saved there
RevertRestoresExactly ==
  \A i \in DOMAIN revs : UndoTo(acc, journal, revs[i].j) = saved[i]

RevertStep ==
  [][ res'.op = "RevertToSnapshot" => acc' = res'.want ]_vars

\* ResetQuirk (as implemented, in-tree and reference alike): the only way a live object can differ from the
\* trie after Finalise/Commit is a CreateAccount over an existing account that nothing dirtied afterwards
ResetQuirk ==
  [][ \A a \in stale' : a \in stale \/ \E i \in DOMAIN journal : journal[i].t = "reset" /\ journal[i].a = a ]_vars

\* commit stores the finalised content; reopening yields exactly that; what was finalised has no suicided and
\* (when Del) no touched-empty accounts.  "Exactly that content" = what the getters answer, outside `stale`.
ReopenEqualsContent ==
  [][ /\ (res'.op \in {"Commit", "Finalise"} =>
             \A a \in Addrs \ stale' : trie'[a] = PersistRec(acc'[a]) /\ ~acc'[a].suic)
      /\ (res'.op = "Commit" => disk' = trie')
      /\ (res'.op = "Reopen" => (acc' = disk /\ disk' = disk)) ]_vars

FinalisedClean ==
  [][ (res'.op \in {"Finalise", "Commit"} /\ Del) =>
         \A a \in Dirty : ~(acc'[a].ex /\ IsEmpty(acc'[a])) ]_vars

\* the committed content changes only at a Commit
DiskStable == [][ res'.op # "Commit" => disk' = disk ]_vars

\* taking a copy is invisible to the StateDB it was taken from
CopyIndependent == [][ res'.op = "Copy" => UNCHANGED <<acc, trie, journal, revs, nextId, pend, disk, saved, stale>> ]_vars

\* an account proof reports presence exactly for existing accounts
ProofYieldsValueOrAbsence ==
  [][ res'.op = "ProveAccount" => ((res'.r = "present") <=> trie[res'.a].ex) ]_vars
===================================================================================
