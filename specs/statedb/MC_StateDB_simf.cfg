SPECIFICATION Spec
CONSTANTS
  Addrs <- A2
  Slots <- S2
  MaxVal = 2
  MaxNonce = 2
  MaxBal = 2
  MaxCode = 2
  Del = FALSE
  MaxJournal = 12
  MaxSnap = 3
  MaxIds = 6
VIEW view
CONSTRAINT Bound
INVARIANTS TypeOK SnapshotsNested RevertRestoresExactly
PROPERTIES CopyIndependent ResetQuirk RevertStep ReopenEqualsContent FinalisedClean DiskStable ProofYieldsValueOrAbsence
CHECK_DEADLOCK FALSE
