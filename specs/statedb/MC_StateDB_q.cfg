SPECIFICATION Spec
CONSTANTS
  Addrs <- A1
  Slots <- S1
  MaxVal = 1
  MaxNonce = 1
  MaxBal = 1
  MaxCode = 0
  Del = TRUE
  MaxJournal = 2
  MaxSnap = 1
  MaxIds = 1
VIEW view
CONSTRAINT Bound
INVARIANTS TypeOK SnapshotsNested RevertRestoresExactly
PROPERTIES CopyIndependent ResetQuirk RevertStep ReopenEqualsContent FinalisedClean DiskStable ProofYieldsValueOrAbsence
CHECK_DEADLOCK FALSE
