SPECIFICATION Spec
CONSTANTS
  Keys <- K6
  Vals <- V3
  MaxRoots = 3
VIEW view
INVARIANTS TypeOK
PROPERTIES ReopenEqualsContent CommitDurable ProofYieldsValueOrAbsence Frame
CHECK_DEADLOCK FALSE
