---------------------------------- MODULE Trie ----------------------------------
(* eth/trie/{trie,secure_trie,hasher,database,proof}.go - key-level view (C11).             *)
(* One trie handle over one node database.  The abstract CONTENT is a function              *)
(* Keys -> value class (0 = absent).  The abstract ROOT of a content is the content itself:  *)
(* "the root is a function of the content alone" is the statement that the real 32-byte     *)
(* root can be used as a name for `content` - the binding checks exactly that (all           *)
(* histories that end in one node of this graph must produce one real root, two different   *)
(* nodes' contents two different roots).                                                     *)
(* What the handle additionally carries is what the real code carries and what makes two     *)
(* histories with equal content take different code paths: whether the in-memory nodes are   *)
(* hashed (cache flags set by Hash/Commit), which content the handle was opened from         *)
(* (nodes below are hashNodes resolved lazily from the database) and which roots the         *)
(* database holds.                                                                           *)
EXTENDS Integers, FiniteSets, TLC

CONSTANTS
  Keys,        \* abstract keys; the driver maps them to byte keys with engineered shared prefixes
  Vals,        \* non-absent value classes, e.g. {1,2}: driver maps to < 32 / >= 32 byte values
  MaxRoots     \* bound on the number of distinct committed roots kept in the database

Absent  == 0
Content == [Keys -> Vals \cup {Absent}]
Empty   == [k \in Keys |-> Absent]

VARIABLES
  content,   \* Content: what Get answers now
  hashed,    \* BOOLEAN: Hash()/Commit() ran since the last modification (node flags carry hashes)
  base,      \* Content: content of the root the in-memory trie hangs from (Empty = fresh trie)
  db,        \* SUBSET Content: contents whose root has been committed to the node database
  res        \* output only: reply of the last call

vars == <<content, hashed, base, db, res>>
view == <<content, hashed, base, db>>

Init ==
  /\ content = Empty /\ hashed = FALSE /\ base = Empty /\ db = {} 
  /\ res = [op |-> "init"]

(* TryUpdate(k, v) with len(v) # 0 *)
Update(k, v) ==
  /\ v \in Vals
  /\ content' = [content EXCEPT ![k] = v]
  /\ hashed' = (hashed /\ content[k] = v)     \* insert of an equal value leaves the nodes clean
  /\ res' = [op |-> "Update", k |-> k, v |-> v]
  /\ UNCHANGED <<base, db>>

(* TryDelete(k), and TryUpdate(k, empty value) which the code routes to delete *)
Delete(k, how) ==
  /\ how \in {"delete", "update-empty"}
  /\ content' = [content EXCEPT ![k] = Absent]
  /\ hashed' = (hashed /\ content[k] = Absent)
  /\ res' = [op |-> "Delete", k |-> k]
  /\ UNCHANGED <<base, db>>

(* TryGet(k): r is the reply, carried as an argument so that graph edges are labelled with it *)
Get(k, r) ==
  /\ r = content[k]
  /\ res' = [op |-> "Get", k |-> k, r |-> r]
  /\ UNCHANGED <<content, hashed, base, db>>

(* Hash(): root of the current content (named by the content itself, see above) *)
Hash ==
  /\ hashed' = TRUE
  /\ res' = [op |-> "Hash", r |-> content]
  /\ UNCHANGED <<content, base, db>>

(* Commit(nil) followed by Database.Commit(root): the root becomes durable *)
Commit ==
  /\ (content \in db \/ Cardinality(db) < MaxRoots)
  /\ db' = db \cup {content}
  /\ base' = content
  /\ hashed' = TRUE
  /\ res' = [op |-> "Commit", r |-> content]
  /\ UNCHANGED content

(* trie.New(root(c), database): a fresh handle at a committed root; uncommitted changes are dropped *)
Reopen(c) ==
  /\ c \in db
  /\ content' = c /\ base' = c /\ hashed' = TRUE
  /\ res' = [op |-> "Reopen", r |-> c]
  /\ UNCHANGED db

(* Prove(k) + VerifyProof(root(content), k, proof): r is the verified value (0 = proven absent) *)
Prove(k, r) ==
  /\ r = content[k]
  /\ hashed' = TRUE                      \* Prove hashes the trie
  /\ res' = [op |-> "Prove", k |-> k, r |-> r]
  /\ UNCHANGED <<content, base, db>>

Next ==
  \/ \E k \in Keys, v \in Vals : Update(k, v)
  \/ \E k \in Keys, h \in {"delete", "update-empty"} : Delete(k, h)
  \/ \E k \in Keys, r \in Vals \cup {Absent} : Get(k, r)
  \/ \E k \in Keys, r \in Vals \cup {Absent} : Prove(k, r)
  \/ Hash
  \/ Commit
  \/ \E c \in Content : Reopen(c)

Spec == Init /\ [][Next]_vars

-----------------------------------------------------------------------------------
TypeOK == content \in Content /\ base \in Content /\ db \subseteq Content /\ hashed \in BOOLEAN
          /\ Cardinality(db) <= MaxRoots /\ (base = Empty \/ base \in db)

\* Reopening at a root gives exactly the content that was committed under it
ReopenEqualsContent ==
  [][ res'.op = "Reopen" => (content' = res'.r /\ res'.r \in db) ]_vars

\* a committed root never disappears from the database, and committing stores exactly the content
CommitDurable ==
  [][ db \subseteq db' /\ (res'.op = "Commit" => (content' = content /\ content \in db')) ]_vars

\* a proof for k yields the stored value or absence, Get likewise; neither changes the content
ProofYieldsValueOrAbsence ==
  [][ (res'.op \in {"Prove", "Get"}) => (res'.r = content[res'.k] /\ content' = content) ]_vars

\* content changes only at the key named by the operation
Frame ==
  [][ \A k \in Keys : content'[k] # content[k] =>
         \/ (res'.op \in {"Update", "Delete"} /\ res'.k = k)
         \/ res'.op = "Reopen" ]_vars
===================================================================================
