SPECIFICATION Spec
CONSTANTS
  Keys <- K3
  Vals <- V2
  MaxRoots = 1
VIEW view
INVARIANTS TypeOK
PROPERTIES ReopenEqualsContent CommitDurable ProofYieldsValueOrAbsence Frame
CHECK_DEADLOCK FALSE
