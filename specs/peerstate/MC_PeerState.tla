---------------------------- MODULE MC_PeerState ----------------------------
EXTENDS PeerState
\* behaviours for replay: the implementation picks at random among several candidates, so the replayed behaviours only
\* take PickVote steps with at most one candidate (the exhaustive check does not use this restriction)
OneCandidate == act'[1] = "PickVote" =>
                  LET s1 == IF act'[5] THEN EnsureCatchup(ps, act'[2], act'[3], N) ELSE ps
                      s2 == Ensure(s1, act'[2], N)
                  IN Cardinality(Candidates(s2, act'[2], act'[3], act'[4], act'[6])) <= 1
NextReplay == Next /\ OneCandidate
SpecReplay == Init /\ [][NextReplay]_vars
=============================================================================
