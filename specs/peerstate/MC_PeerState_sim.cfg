SPECIFICATION SpecReplay
CONSTANTS N = 2
  MaxH = 2
  MaxR = 1
  MaxT = 2
CHECK_DEADLOCK FALSE
