SPECIFICATION Spec
CONSTANTS N = 1
  MaxH = 2
  MaxR = 1
  MaxT = 1
VIEW view
INVARIANTS TypeOK AliasMeansSameRound
PROPERTIES SoundStep PickSendsUnknown NeverResend Monotone
CHECK_DEADLOCK FALSE
