---------------------------- MODULE PeerState ----------------------------
(* What a node believes a peer has: gemmill/consensus/pbft/reactor.go PeerState / PeerRoundState, one action per
   public method, AS IMPLEMENTED.  The gossip routines decide what to send from this record alone, so a bit set
   for a vote the peer was never sent and never claimed means that vote is never sent (C12: catch-up gossip),
   and every method is reachable with peer-chosen arguments (C08).

   Bit arrays are values [nil, b]; the code's only live aliasing - CatchupCommit pointing at the same array as
   Precommits (ensureCatchupCommitRound with round = Round; ApplyNewRoundStepMessage "Peer caught up to
   CatchupCommitRound") - is the flag `al`: while it is set, a write through either field is a write to both.
   Known oddity kept as it is: ApplyNewRoundStepMessage clears Precommits BEFORE "Shift Precommits to LastCommit",
   so LastCommit is always nil after a height change (the votes of the last commit are offered again).

   Soundness is stated inductively (SoundStep): a bit that is set after a step for (height, round, type) was set for
   that key before the step or is justified by the step itself - the vote was sent (PickVote), claimed by the peer
   (HasVote / VoteSetBits / ProposalPOL) or received from it (SetHasVote). *)
EXTENDS Integers, FiniteSets, TLC

CONSTANTS N,          \* validators: bit indices 0..N-1
          MaxH,       \* heights 1..MaxH
          MaxR,       \* rounds 0..MaxR
          MaxT        \* block part totals 1..MaxT

VARIABLES ps,         \* the PeerRoundState
          act         \* last action (label for replay), not part of the VIEW

vars == <<ps, act>>
view == <<ps>>

Idx     == 0 .. (N - 1)
Heights == 1 .. MaxH
Rounds  == 0 .. MaxR
Types   == {"pv", "pc"}
Steps   == 1 .. 3           \* abstract step numbers, ordered as RoundStepType is
NilB    == [nil |-> TRUE, n |-> 0, b |-> {}]
Arr(n, S) == [nil |-> FALSE, n |-> n, b |-> S]
New(n)  == IF n = 0 THEN NilB ELSE Arr(n, {})        \* gcmn.NewBitArray(0) is nil

Init == /\ ps = [h |-> 0, r |-> -1, st |-> 0, prop |-> FALSE, parts |-> NilB, polr |-> -1, pol |-> NilB,
                 pv |-> NilB, pc |-> NilB, lcr |-> -1, lc |-> NilB, ccr |-> -1, cc |-> NilB, al |-> FALSE]
        /\ act = <<"Init">>

\* ---------------------------------------------------------------- getVoteBitArray: which field answers for (h, r, ty)
Field(s, h, r, ty) ==
  IF s.h = h THEN
       IF s.r = r THEN (IF ty = "pv" THEN "pv" ELSE "pc")
       ELSE IF s.ccr = r THEN (IF ty = "pv" THEN "none" ELSE "cc")
       ELSE IF s.polr = r THEN (IF ty = "pv" THEN "pol" ELSE "none")
       ELSE "none"
  ELSE IF s.h = h + 1 THEN
       IF s.lcr = r /\ ty = "pc" THEN "lc" ELSE "none"
  ELSE "none"

Get(s, f) == CASE f = "pv" -> s.pv [] f = "pc" -> s.pc [] f = "cc" -> s.cc [] f = "pol" -> s.pol [] f = "lc" -> s.lc
               [] OTHER -> NilB

\* write array value v through field f (aliasing: pc and cc are one array while al)
Put(s, f, v) ==
  CASE f = "pv"  -> [s EXCEPT !.pv = v]
    [] f = "pc"  -> IF s.al THEN [s EXCEPT !.pc = v, !.cc = v] ELSE [s EXCEPT !.pc = v]
    [] f = "cc"  -> IF s.al THEN [s EXCEPT !.pc = v, !.cc = v] ELSE [s EXCEPT !.cc = v]
    [] f = "pol" -> [s EXCEPT !.pol = v]
    [] f = "lc"  -> [s EXCEPT !.lc = v]
    [] OTHER     -> s

\* BitArray.SetIndex(i, TRUE): nothing on a nil array or beyond its size
SetBit(a, i) == IF a.nil \/ i >= a.n THEN a ELSE [a EXCEPT !.b = @ \cup {i}]

\* setHasVote
SetHas(s, h, r, ty, i) == LET f == Field(s, h, r, ty) IN Put(s, f, SetBit(Get(s, f), i))

\* ensureVoteBitArrays(height, numValidators)
Ensure(s, h, n) ==
  IF s.h = h THEN
       LET s1 == IF s.pv.nil THEN [s EXCEPT !.pv = New(n)] ELSE s
           \* a nil Precommits is never aliased (the alias is only made to a non-nil array)
           s2 == IF s1.pc.nil THEN [s1 EXCEPT !.pc = New(n)] ELSE s1
           s3 == IF s2.cc.nil THEN [s2 EXCEPT !.cc = New(n)] ELSE s2
           s4 == IF s3.pol.nil THEN [s3 EXCEPT !.pol = New(n)] ELSE s3
       IN s4
  ELSE IF s.h = h + 1 THEN (IF s.lc.nil THEN [s EXCEPT !.lc = New(n)] ELSE s)
  ELSE s

\* ensureCatchupCommitRound(height, round, numValidators)
EnsureCatchup(s, h, r, n) ==
  IF s.h # h \/ s.ccr = r THEN s
  ELSE IF r = s.r THEN [s EXCEPT !.ccr = r, !.cc = s.pc, !.al = ~s.pc.nil]
  ELSE [s EXCEPT !.ccr = r, !.cc = New(n), !.al = FALSE]

\* CompareHRS(h1,r1,s1, h2,r2,s2) > 0
Later(h1, r1, s1, h2, r2, s2) == \/ h1 > h2
                                 \/ h1 = h2 /\ r1 > r2
                                 \/ h1 = h2 /\ r1 = r2 /\ s1 > s2

\* ---------------------------------------------------------------- actions
NewRoundStep(mh, mr, ms, mlcr) ==
  /\ act' = <<"NewRoundStep", mh, mr, ms, mlcr>>
  /\ IF ~Later(mh, mr, ms, ps.h, ps.r, ps.st) THEN ps' = ps
     ELSE LET s0 == [ps EXCEPT !.h = mh, !.r = mr, !.st = ms]
              s1 == IF ps.h # mh \/ ps.r # mr
                      THEN [s0 EXCEPT !.prop = FALSE, !.parts = NilB, !.polr = -1, !.pol = NilB, !.pv = NilB,
                                      !.pc = NilB, !.al = FALSE]       \* Precommits := nil only moves the pointer
                      ELSE s0
              s2 == IF ps.h = mh /\ ps.r # mr /\ mr = ps.ccr
                      THEN [s1 EXCEPT !.pc = ps.cc, !.al = ~ps.cc.nil]   \* "Peer caught up to CatchupCommitRound"
                      ELSE s1
              s3 == IF ps.h # mh
                      THEN [s2 EXCEPT !.lcr = mlcr,
                                      !.lc = s2.pc,                      \* = nil: Precommits was cleared above (oddity)
                                      !.ccr = -1, !.cc = NilB, !.al = FALSE]
                      ELSE s2
              s4 == IF ps.h # mh /\ ~(ps.h + 1 = mh /\ ps.r = mlcr) THEN [s3 EXCEPT !.lc = NilB] ELSE s3
          IN ps' = s4

CommitStep(mh, n, S) ==
  /\ act' = <<"CommitStep", mh, n, S>>
  /\ ps' = IF ps.h # mh THEN ps ELSE [ps EXCEPT !.parts = Arr(n, S)]

SetHasProposal(ph, pr, n, polr) ==
  /\ act' = <<"SetHasProposal", ph, pr, n, polr>>
  /\ ps' = IF ps.h # ph \/ ps.r # pr \/ ps.prop THEN ps
           ELSE [ps EXCEPT !.prop = TRUE, !.parts = New(n), !.polr = polr, !.pol = NilB]

SetHasPart(h, r, i) ==
  /\ act' = <<"SetHasPart", h, r, i>>
  /\ ps' = IF ps.h # h \/ ps.r # r THEN ps ELSE [ps EXCEPT !.parts = SetBit(ps.parts, i)]

ProposalPOL(mh, mpolr, S) ==
  /\ act' = <<"ProposalPOL", mh, mpolr, S>>
  /\ ps' = IF ps.h # mh \/ ps.polr # mpolr THEN ps ELSE [ps EXCEPT !.pol = Arr(N, S)]

HasVote(mh, mr, ty, i) ==
  /\ act' = <<"HasVote", mh, mr, ty, i>>
  /\ ps' = IF ps.h # mh THEN ps ELSE SetHas(ps, mh, mr, ty, i)

SetHasVote(h, r, ty, i) ==
  /\ act' = <<"SetHasVote", h, r, ty, i>>
  /\ ps' = SetHas(ps, h, r, ty, i)

\* ours = <<"nil">> models a nil ourVotes; otherwise ours is <<"set", S>>
VoteSetBits(mh, mr, ty, S, ours) ==
  /\ act' = <<"VoteSetBits", mh, mr, ty, S, ours>>
  /\ LET f == Field(ps, mh, mr, ty)
         a == Get(ps, f)
     IN IF a.nil THEN ps' = ps
        ELSE LET nb == IF ours[1] = "nil" THEN S ELSE (a.b \ ours[2]) \cup S
             IN ps' = Put(ps, f, [a EXCEPT !.b = nb])

EnsureVoteBitArrays(h) ==
  /\ act' = <<"EnsureVoteBitArrays", h>>
  /\ ps' = Ensure(ps, h, N)

\* PickVoteToSend(votes): votes = a vote set of (vh, vr, ty) holding the votes of V (size N), commit or not.
\* res = -1: nothing to send; otherwise the index picked (the code picks at random among the candidates).
Candidates(s, vh, vr, ty, V) == LET a == Get(s, Field(s, vh, vr, ty)) IN IF a.nil THEN {} ELSE V \ a.b
PickVote(vh, vr, ty, commit, V, res) ==
  /\ act' = <<"PickVote", vh, vr, ty, commit, V, res>>
  /\ LET s1 == IF commit THEN EnsureCatchup(ps, vh, vr, N) ELSE ps
         s2 == Ensure(s1, vh, N)
         c  == Candidates(s2, vh, vr, ty, V)
     IN IF c = {} THEN res = -1 /\ ps' = s2
        ELSE /\ res \in c
             /\ ps' = SetHas(s2, vh, vr, ty, res)

Sets == SUBSET Idx
Next ==
  \/ \E mh \in Heights, mr \in Rounds, ms \in Steps, ml \in (Rounds \cup {-1}) : NewRoundStep(mh, mr, ms, ml)
  \/ \E mh \in Heights, n \in 1 .. MaxT : \E S \in SUBSET (0 .. (n - 1)) : CommitStep(mh, n, S)
  \/ \E ph \in Heights, pr \in Rounds, n \in 0 .. MaxT, polr \in (Rounds \cup {-1}) : SetHasProposal(ph, pr, n, polr)
  \/ \E h \in Heights, r \in Rounds, i \in 0 .. MaxT : SetHasPart(h, r, i)
  \/ \E mh \in Heights, mp \in Rounds, S \in Sets : ProposalPOL(mh, mp, S)
  \/ \E mh \in Heights, mr \in Rounds, ty \in Types, i \in 0 .. N : HasVote(mh, mr, ty, i)
  \/ \E h \in Heights, r \in Rounds, ty \in Types, i \in Idx : SetHasVote(h, r, ty, i)
  \/ \E mh \in Heights, mr \in Rounds, ty \in Types, S \in Sets, o \in ({<<"nil">>} \cup {<<"set", T>> : T \in Sets}) :
        VoteSetBits(mh, mr, ty, S, o)
  \/ \E h \in Heights : EnsureVoteBitArrays(h)
  \/ \E vh \in Heights, vr \in Rounds, ty \in Types, cm \in BOOLEAN, V \in (Sets \ {{}}), res \in (Idx \cup {-1}) :
        /\ (cm => ty = "pc")
        /\ PickVote(vh, vr, ty, cm, V, res)

Spec == Init /\ [][Next]_vars

\* ---------------------------------------------------------------- properties
TypeOK == /\ ps.h \in 0 .. MaxH /\ ps.r \in -1 .. MaxR
          /\ ps.al => (~ps.pc.nil /\ ps.pc = ps.cc)

\* a bit the gossip routines would read for (h, r, ty) after a step was set for that key before it, or the step justifies it
Bits(s, h, r, ty) == Get(s, Field(s, h, r, ty)).b
Just(a, h, r, ty) ==
  CASE a[1] = "PickVote"    -> IF <<a[2], a[3], a[4]>> = <<h, r, ty>> /\ a[7] # -1 THEN {a[7]} ELSE {}
    [] a[1] = "HasVote"     -> IF <<a[2], a[3], a[4]>> = <<h, r, ty>> THEN {a[5]} ELSE {}
    [] a[1] = "SetHasVote"  -> IF <<a[2], a[3], a[4]>> = <<h, r, ty>> THEN {a[5]} ELSE {}
    [] a[1] = "VoteSetBits" -> IF <<a[2], a[3], a[4]>> = <<h, r, ty>> THEN a[5] ELSE {}
    [] a[1] = "ProposalPOL" -> IF <<a[2], a[3], "pv">> = <<h, r, ty>> THEN a[4] ELSE {}
    [] OTHER -> {}
\* ... stated per array (a lookup key can be shadowed for a while: CatchupCommitRound = r hides the POL prevotes of round r):
\* every array stands for one key; after a step its bits were, before the step, in an array standing for the same key, or the
\* step justifies them
Fields == {"pv", "pc", "cc", "pol", "lc"}
KeyOf(s, f) == CASE f = "pv"  -> <<s.h, s.r, "pv">>
                 [] f = "pc"  -> <<s.h, s.r, "pc">>
                 [] f = "cc"  -> <<s.h, s.ccr, "pc">>
                 [] f = "pol" -> <<s.h, s.polr, "pv">>
                 [] f = "lc"  -> <<s.h - 1, s.lcr, "pc">>
SoundStep == [][\A f \in Fields :
                   LET k == KeyOf(ps', f)
                   IN Get(ps', f).b \subseteq
                        (UNION {Get(ps, g).b : g \in {x \in Fields : KeyOf(ps, x) = k}} \cup Just(act', k[1], k[2], k[3]))]_vars

\* the alias is only ever between Precommits of the current round and the catch-up commit of the same round
AliasMeansSameRound == ps.al => ps.ccr = ps.r

\* a vote is picked exactly when the peer is not known to have one of the offered votes, and it is one of those
PickSendsUnknown ==
  [][act'[1] = "PickVote" =>
        LET vh == act'[2] vr == act'[3] ty == act'[4] V == act'[6] res == act'[7]
        IN /\ res # -1 => res \in V
           /\ res # -1 => res \in Get(ps', Field(ps', vh, vr, ty)).b
  ]_vars

\* nothing is ever sent twice: a picked vote was not known before
NeverResend ==
  [][act'[1] = "PickVote" /\ act'[7] # -1 =>
        LET f == Field(ps, act'[2], act'[3], act'[4]) IN act'[7] \notin Get(ps, f).b
  ]_vars

\* height and (height, round, step) never go back
Monotone == [][~Later(ps.h, ps.r, ps.st, ps'.h, ps'.r, ps'.st)]_vars

\* witness goals (negated to obtain behaviours)
NoAlias == ~ps.al
NoLastCommitArray == ps.lc.nil
=============================================================================
