SPECIFICATION SpecReplay
CONSTANTS N = 3
  MaxH = 3
  MaxR = 2
  MaxT = 2
CHECK_DEADLOCK FALSE
