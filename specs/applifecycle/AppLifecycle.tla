-------------------------------- MODULE AppLifecycle --------------------------------
(* C05 - chain/app/evm EVMApp as a replicated state machine with process lifetimes.          *)
(*                                                                                           *)
(* Persistent variables (LevelDB: app db "lastblock", chaindata trie + receipts- + kvstore-  *)
(* prefixes, kv_update_history) survive Restart; volatile ones are fields of the EVMApp      *)
(* object and are lost.  One action per entry point gemmill uses:                            *)
(*   Execute(b)   Hooks.OnExecute -> EVMApp.OnExecute (state.ExecBlock)                      *)
(*   Commit       TxPool.Update + Hooks.OnCommit -> EVMApp.OnCommit                          *)
(*   Restart      Stop ; NewEVMApp ; Start on the same directories (any time, also between   *)
(*                Execute and Commit: the block is then executed again)                      *)
(*   Query(q)     EVMApp.Query (nonce / key / receipt / key history / contract call)         *)
(* What OnCommit returns is defined from what the code folds into it: AppHash = the trie     *)
(* state built by OnExecute, ReceiptsHash = merkle root over app.receipts ++ app.kvs.         *)
(* The property compares it with a function of the committed chain alone.                    *)
EXTENDS TxSem, TLC

CONSTANTS
  BlockSet,     \* candidate blocks: sequences of transactions
  MaxH,         \* chain length
  MaxRestarts,
  QKinds,       \* which query kinds the environment issues (subset of QueryKinds)
  ResetKvs,     \* TRUE: OnCommit clears app.kvs (code after the repair); FALSE: it never does
  HdrRebuilt,   \* TRUE: a contract query without a current header rebuilds it; FALSE: nil dereference
  MaxCrashes,   \* crashes inside OnCommit per behaviour
  TrimFloor     \* kv.go (*kvBatch).put trims entries of the replayed height down to this index: 0 (the code), 1 = the
                \* first entry is never examined

VARIABLES
  pH, pS, pKV, pRc, pHist,                 \* persistent
  vSt, vCur, vRc, vKvs, vHist, vHdr,       \* volatile
  must,       \* the block the node must execute next: a crash inside OnCommit hit after consensus had decided it
  crashes,
  chain,      \* ghost: the committed blocks
  exe,        \* block executed and not yet committed (None: none)
  restarts,
  res         \* output only: result of the last action (what the call returned).  Excluded from the VIEW of the
              \* large configurations; the graph configuration keeps it so that every node carries its own result

pvars == <<pH, pS, pKV, pRc, pHist>>
vvars == <<vSt, vCur, vRc, vKvs, vHist, vHdr>>
vars  == <<pH, pS, pKV, pRc, pHist, vSt, vCur, vRc, vKvs, vHist, vHdr, chain, exe, restarts, must, crashes, res>>
view  == <<pH, pS, pKV, pRc, pHist, vSt, vCur, vRc, vKvs, vHist, vHdr, chain, exe, restarts, must, crashes>>

NoBlock == [on |-> FALSE, b |-> <<>>]
Blk(b) == [on |-> TRUE, b |-> b]
NoState == [none |-> TRUE]       \* app.currentState == nil
PanicAns == [panic |-> TRUE]

Init ==
  /\ pH = 0 /\ pS = Genesis /\ pKV = [k \in Keys |-> None] /\ pRc = {} /\ pHist = [k \in Keys |-> <<>>]
  /\ vSt = Genesis /\ vCur = NoState /\ vRc = <<>> /\ vKvs = <<>> /\ vHist = <<>> /\ vHdr = 0
  /\ chain = <<>> /\ exe = NoBlock /\ restarts = 0 /\ must = NoBlock /\ crashes = 0
  /\ res = [op |-> "init"]

(* --- what one OnExecute computes from a start state: pure, also used for the reference ---- *)
RECURSIVE Run(_, _, _, _)
\* Run(s, b, i, acc): execute b[i..] on s;  acc = [valid, invalid, rc, kvs]
Run(s, b, i, acc) ==
  IF i > Len(b) THEN [s |-> s, valid |-> acc.valid, invalid |-> acc.invalid, rc |-> acc.rc, kvs |-> acc.kvs]
  ELSE LET t == b[i]
           r == Result(s, t)
       IN IF r = "valid"
            THEN Run(Apply(s, t), b, i + 1,
                     [acc EXCEPT !.valid = Append(@, t),
                                 !.rc  = IF IsKv(t) THEN @ ELSE Append(@, Receipt(s, t, i)),
                                 !.kvs = IF IsKv(t) THEN Append(@, KvRec(t)) ELSE @])
            ELSE Run(s, b, i + 1, [acc EXCEPT !.invalid = Append(@, t)])
Exec(s, b) == Run(s, b, 1, [valid |-> <<>>, invalid |-> <<>>, rc |-> <<>>, kvs |-> <<>>])

RECURSIVE FoldKv(_, _)
FoldKv(m, s) == IF s = <<>> THEN m ELSE FoldKv([m EXCEPT ![Head(s).k] = Head(s).v], Tail(s))
\* kv.go SaveKeyHistory / (*kvBatch).put for the records s of block height h: the first record of a key in the batch
\* first drops the stored entries whose height is >= h (the block is being executed AGAIN after a crash inside its
\* commit), examining indices down to `floor`; later records of the same key are appended
RECURSIVE Trim(_, _, _)
Trim(q, h, floor) == IF Len(q) > floor /\ q[Len(q)].h >= h THEN Trim(SubSeq(q, 1, Len(q) - 1), h, floor) ELSE q
RECURSIVE PutHist(_, _, _, _, _)
PutHist(m, s, h, floor, seen) ==
  IF s = <<>> THEN m
  ELSE LET k == Head(s).k
           q == IF k \in seen THEN m[k] ELSE Trim(m[k], h, floor)
       IN PutHist([m EXCEPT ![k] = Append(q, [v |-> Head(s).v, h |-> h])], Tail(s), h, floor, seen \cup {k})
FoldHist(m, s, h) == PutHist(m, s, h, 0, {})
SeqToSet(s) == {s[i] : i \in 1..Len(s)}

(* --- actions -------------------------------------------------------------------------------- *)
Execute(b) ==
  /\ exe = NoBlock /\ pH < MaxH
  /\ (must.on => b = must.b)             \* the decided block is replayed
  /\ LET e == Exec(pS, b)                  \* estate.New(getLastAppHash()) : starts from the PERSISTED state
     IN /\ vCur' = e.s
        /\ vRc' = vRc \o e.rc              \* app.receipts = append(app.receipts, ...)
        /\ vKvs' = vKvs \o e.kvs
        /\ vHist' = vHist \o e.kvs
        /\ res' = [op |-> "Execute", valid |-> e.valid, invalid |-> e.invalid]
  /\ vHdr' = pH + 1                        \* app.currentHeader = makeCurrentHeader(block)
  /\ exe' = Blk(b)
  /\ UNCHANGED <<pH, pS, pKV, pRc, pHist, vSt, chain, restarts, must, crashes>>

Commit ==
  /\ exe # NoBlock /\ vCur # NoState
  /\ pS' = vCur /\ vSt' = vCur /\ pH' = pH + 1
  /\ pRc' = pRc \cup SeqToSet(vRc)
  /\ pKV' = FoldKv(pKV, vKvs)
  /\ pHist' = PutHist(pHist, vHist, pH + 1, TrimFloor, {})
  /\ vRc' = <<>> /\ vHist' = <<>>
  /\ vKvs' = IF ResetKvs THEN <<>> ELSE vKvs
  /\ chain' = Append(chain, exe.b) /\ exe' = NoBlock
  /\ res' = [op |-> "Commit", app |-> vCur, rh |-> [rc |-> vRc, kvs |-> vKvs]]
  /\ must' = NoBlock
  /\ UNCHANGED <<vCur, vHdr, restarts, crashes>>

Restart ==
  /\ restarts < MaxRestarts
  /\ restarts' = restarts + 1
  /\ vSt' = pS /\ vCur' = NoState /\ vRc' = <<>> /\ vKvs' = <<>> /\ vHist' = <<>> /\ vHdr' = 0
  /\ exe' = NoBlock
  /\ res' = [op |-> "Restart"]
  /\ UNCHANGED <<pH, pS, pKV, pRc, pHist, chain, must, crashes>>

\* A crash inside OnCommit after j groups of durable writes: 1 trie nodes; 2 + receipts and kv records; 3 + key
\* history (kv_update_history); 4 + "lastreceipts".  "lastblock", the application's commit point, is not written:
\* after the restart the application is still at the previous height and the decided block is executed again.
CrashCommit(j) ==
  /\ exe.on /\ vCur # NoState /\ crashes < MaxCrashes
  /\ crashes' = crashes + 1
  /\ pRc' = IF j >= 2 THEN pRc \cup SeqToSet(vRc) ELSE pRc
  /\ pKV' = IF j >= 2 THEN FoldKv(pKV, vKvs) ELSE pKV
  /\ pHist' = IF j >= 3 THEN PutHist(pHist, vHist, pH + 1, TrimFloor, {}) ELSE pHist
  /\ vSt' = pS /\ vCur' = NoState /\ vRc' = <<>> /\ vKvs' = <<>> /\ vHist' = <<>> /\ vHdr' = 0
  /\ must' = exe /\ exe' = NoBlock
  /\ res' = [op |-> "CrashCommit", j |-> j]
  /\ UNCHANGED <<pH, pS, chain, restarts>>

\* Query: "state" = nonce / code / key / receipt / history queries; "call" = contract call (needs a header)
QueryKinds == {"state", "call"}
Answer(kind) ==
  IF kind = "state" THEN [st |-> vSt, kv |-> pKV, rc |-> pRc, hist |-> pHist, h |-> pH]
  ELSE IF vHdr = 0 /\ ~HdrRebuilt THEN PanicAns
  ELSE [cnt |-> vSt.cnt, hdr |-> IF vHdr = 0 THEN pH ELSE vHdr]
Query(kind) ==
  /\ res' = [op |-> "Query", kind |-> kind, ans |-> Answer(kind)]
  /\ ~must.on                           \* (queries while a decided block awaits its replay are C06's)
  /\ UNCHANGED <<pH, pS, pKV, pRc, pHist, vSt, vCur, vRc, vKvs, vHist, vHdr, chain, exe, restarts, must, crashes>>

Next == Commit \/ Restart \/ (\E j \in 1..4 : CrashCommit(j)) \/ (\E b \in BlockSet : Execute(b)) \/ (\E k \in QKinds : Query(k))
Spec == Init /\ [][Next]_vars

---------------------------------------------------------------------------------------
(* Reference: functions of the chain alone (no volatile variable appears below). *)
RECURSIVE FState(_)
FState(c) == IF c = <<>> THEN Genesis ELSE Exec(FState(SubSeq(c, 1, Len(c) - 1)), c[Len(c)]).s
FLast(c) == Exec(FState(SubSeq(c, 1, Len(c) - 1)), c[Len(c)])
RECURSIVE FKv(_)
FKv(c) == IF c = <<>> THEN [k \in Keys |-> None] ELSE FoldKv(FKv(SubSeq(c, 1, Len(c) - 1)), FLast(c).kvs)
RECURSIVE FHist(_)
FHist(c) == IF c = <<>> THEN [k \in Keys |-> <<>>] ELSE FoldHist(FHist(SubSeq(c, 1, Len(c) - 1)), FLast(c).kvs, Len(c))
RECURSIVE FRc(_)
FRc(c) == IF c = <<>> THEN {} ELSE FRc(SubSeq(c, 1, Len(c) - 1)) \cup SeqToSet(FLast(c).rc)

(* Properties (C05) *)
TypeOK == /\ pH \in 0..MaxH /\ Len(chain) = pH /\ restarts \in 0..MaxRestarts
          /\ vHdr \in 0..MaxH

\* the hashes returned for block h are a function of blocks 1..h, whatever the process history
HashesDependOnlyOnChain ==
  [][ res'.op = "Commit" =>
        /\ res'.app = FState(chain')
        /\ res'.rh = [rc |-> FLast(chain').rc, kvs |-> FLast(chain').kvs] ]_vars

\* ... so is the classification of the transactions of a block
ResultDependsOnlyOnChain ==
  [][ res'.op = "Execute" =>
        LET e == Exec(FState(chain), exe'.b)
        IN res'.valid = e.valid /\ res'.invalid = e.invalid ]_vars

\* ... and everything queries can see
PersistentIsFunctionOfChain ==
  /\ pS = FState(chain) /\ vSt = FState(chain)
  /\ (~must.on => pKV = FKv(chain) /\ pHist = FHist(chain) /\ pRc = FRc(chain))
QueriesDependOnlyOnChain ==
  [][ res'.op = "Query" =>
        res'.ans = IF res'.kind = "state"
                     THEN [st |-> FState(chain), kv |-> FKv(chain), rc |-> FRc(chain), hist |-> FHist(chain), h |-> Len(chain)]
                     ELSE IF res'.ans = PanicAns THEN PanicAns    \* excluded by QueryNeverPanics
                     ELSE [cnt |-> FState(chain).cnt,
                           hdr |-> IF exe.on THEN Len(chain) + 1 ELSE res'.ans.hdr] ]_vars
\* the header a contract query runs under is the last EXECUTED block's, or (after a restart) the last committed one
QueryNeverPanics == [][ res'.op = "Query" => res'.ans # PanicAns ]_vars
=======================================================================================
