SPECIFICATION Spec
CONSTANTS
  Acct <- A2
  Keys = {"k1", "k2"}
  Vals = {"a", "b"}
  KvChecksNonce = TRUE
  FailedCreateConsumesNonce = TRUE
  EmptyTxInvalid = TRUE
  AdminBoundsChecked = TRUE
  BlockSet <- BlocksL
  MaxH = 4
  MaxRestarts = 3
  QKinds = {"state", "call"}
  ResetKvs = TRUE
  HdrRebuilt = TRUE
VIEW view
INVARIANTS TypeOK PersistentIsFunctionOfChain
PROPERTIES HashesDependOnlyOnChain ResultDependsOnlyOnChain QueriesDependOnlyOnChain QueryNeverPanics
CHECK_DEADLOCK FALSE
