---------------------------------- MODULE ParVerify ----------------------------------
(* C05/C09 - chain/app/evm/verifycpuparallel.go exeWithCPUParallelVeirfy, one label per     *)
(* atomic load / CAS / store, the plain (non-atomic) write of appTx.err and the WaitGroup.  *)
(*   initq      initTxQueue/txQueue: ready.Add(1) ; decode (err on failure) ; status := Init *)
(*   val(w)     validateRoutine w: for each tx: load status; Init -> tryValidate (CAS to      *)
(*              Checking ; Failed/Checked ; deferred ready.Done)                              *)
(*   exec       the executor loop: load status; Checked -> exec ; Failed -> read err ;       *)
(*              otherwise ready.Wait() and look again                                         *)
(* ErrFirst = TRUE is the code after the repair (err stored before status Failed);           *)
(* ErrFirst = FALSE is the original order (status Failed, then err).                          *)
(* OriFirst = TRUE: txQueue stores appTx.oribys (the bytes the executor reports) before it    *)
(* publishes status Init (code after the repair); FALSE: after it (original order).           *)
EXTENDS Integers, Sequences, FiniteSets, TLC

CONSTANTS NTx, Workers, BadSig, Undecodable, ErrFirst, OriFirst

Txs == 1..NTx

(* --algorithm ParVerify {
  variables status = [i \in Txs |-> "None"],
            err    = [i \in Txs |-> FALSE],     \* appTx.err # nil
            ready  = [i \in Txs |-> 0],         \* WaitGroup counter
            ori    = [i \in Txs |-> FALSE],     \* appTx.oribys stored
            out    = <<>>;                      \* what the executor did, in order

  fair process (initq = "initq")
    variable qi = 1;
  {
   Q0: while (qi <= NTx) {
   Q1:   ready[qi] := ready[qi] + 1;                      \* cur.ready.Add(1)
   Q2:   if (qi \in Undecodable) { err[qi] := TRUE };     \* cur.err = rlp error
   Q3:   if (OriFirst) { ori[qi] := TRUE };
         status[qi] := "Init";                            \* atomic.StoreInt32
   Q4:   ori[qi] := TRUE;                                 \* apptxQ[i][0].oribys = tptx (original position)
         qi := qi + 1;
       }
  }

  fair process (val \in Workers)
    variables vi = 1, st = "None";
  {
   V0: while (vi <= NTx) {
   V1:   st := status[vi];                                \* atomic.LoadInt32
   V2:   if (st = "None") { goto V1 }                     \* time.Sleep ; look again
         else if (st = "Init") {
   V3:     if (status[vi] = "Init") {                     \* CompareAndSwap(Init, Checking)
             status[vi] := "Checking";
   V4:       if (err[vi]) {                               \* decode error recorded by txQueue
               status[vi] := "Failed";
   V5:         ready[vi] := ready[vi] - 1;                \* deferred Done
               goto V1;
             } else if (vi \in BadSig) {                  \* Sender() fails
               if (ErrFirst) {
                 err[vi] := TRUE;
   V6a:          status[vi] := "Failed";
               } else {
                 status[vi] := "Failed";
   V6b:          err[vi] := TRUE;
               };
   V7:         ready[vi] := ready[vi] - 1;
               vi := vi + 1;                              \* break OUTERFOR (lsize = 1): next tx
             } else {
               status[vi] := "Checked";
   V8:         ready[vi] := ready[vi] - 1;
               goto V1;
             }
           } else { goto V1 }                             \* lost the CAS: tryValidate returns nil, loop
         } else { vi := vi + 1 }                          \* Checking/Checked/Failed: move to next
       }
  }

  fair process (exec = "exec")
    variables ei = 1, es = "None", er = "none";
  {
   E0: while (ei <= NTx) {
   E1:   es := status[ei];                                \* atomic.LoadInt32
   E2:   if (es = "Checked") {
           er := "exec";                                  \* pcur.err = exec(...)
   E5a:    out := Append(out, [i |-> ei, r |-> er, b |-> ori[ei]]);   \* end(appTxQ[i][0].oribys, err)
           ei := ei + 1;
         } else if (es = "Failed") {
   E3:     if (err[ei]) { er := "invalid" }
           else { er := "valid-unexecuted" };             \* end(raw, nil)
   E5b:    out := Append(out, [i |-> ei, r |-> er, b |-> ori[ei]]);
           ei := ei + 1;
         } else {
   E4:     await ready[ei] = 0;                           \* pcur.ready.Wait() (returns at once before Add)
           goto E1;
         }
       }
  }
} *)
\* BEGIN TRANSLATION
VARIABLES pc, status, err, ready, ori, out, qi, vi, st, ei, es, er

vars == << pc, status, err, ready, ori, out, qi, vi, st, ei, es, er >>

ProcSet == {"initq"} \cup (Workers) \cup {"exec"}

Init == (* Global variables *)
        /\ status = [i \in Txs |-> "None"]
        /\ err = [i \in Txs |-> FALSE]
        /\ ready = [i \in Txs |-> 0]
        /\ ori = [i \in Txs |-> FALSE]
        /\ out = <<>>
        (* Process initq *)
        /\ qi = 1
        (* Process val *)
        /\ vi = [self \in Workers |-> 1]
        /\ st = [self \in Workers |-> "None"]
        (* Process exec *)
        /\ ei = 1
        /\ es = "None"
        /\ er = "none"
        /\ pc = [self \in ProcSet |-> CASE self = "initq" -> "Q0"
                                        [] self \in Workers -> "V0"
                                        [] self = "exec" -> "E0"]

Q0 == /\ pc["initq"] = "Q0"
      /\ IF qi <= NTx
            THEN /\ pc' = [pc EXCEPT !["initq"] = "Q1"]
            ELSE /\ pc' = [pc EXCEPT !["initq"] = "Done"]
      /\ UNCHANGED << status, err, ready, ori, out, qi, vi, st, ei, es, er >>

Q1 == /\ pc["initq"] = "Q1"
      /\ ready' = [ready EXCEPT ![qi] = ready[qi] + 1]
      /\ pc' = [pc EXCEPT !["initq"] = "Q2"]
      /\ UNCHANGED << status, err, ori, out, qi, vi, st, ei, es, er >>

Q2 == /\ pc["initq"] = "Q2"
      /\ IF qi \in Undecodable
            THEN /\ err' = [err EXCEPT ![qi] = TRUE]
            ELSE /\ TRUE
                 /\ err' = err
      /\ pc' = [pc EXCEPT !["initq"] = "Q3"]
      /\ UNCHANGED << status, ready, ori, out, qi, vi, st, ei, es, er >>

Q3 == /\ pc["initq"] = "Q3"
      /\ IF OriFirst
            THEN /\ ori' = [ori EXCEPT ![qi] = TRUE]
            ELSE /\ TRUE
                 /\ ori' = ori
      /\ status' = [status EXCEPT ![qi] = "Init"]
      /\ pc' = [pc EXCEPT !["initq"] = "Q4"]
      /\ UNCHANGED << err, ready, out, qi, vi, st, ei, es, er >>

Q4 == /\ pc["initq"] = "Q4"
      /\ ori' = [ori EXCEPT ![qi] = TRUE]
      /\ qi' = qi + 1
      /\ pc' = [pc EXCEPT !["initq"] = "Q0"]
      /\ UNCHANGED << status, err, ready, out, vi, st, ei, es, er >>

initq == Q0 \/ Q1 \/ Q2 \/ Q3 \/ Q4

V0(self) == /\ pc[self] = "V0"
            /\ IF vi[self] <= NTx
                  THEN /\ pc' = [pc EXCEPT ![self] = "V1"]
                  ELSE /\ pc' = [pc EXCEPT ![self] = "Done"]
            /\ UNCHANGED << status, err, ready, ori, out, qi, vi, st, ei, es, 
                            er >>

V1(self) == /\ pc[self] = "V1"
            /\ st' = [st EXCEPT ![self] = status[vi[self]]]
            /\ pc' = [pc EXCEPT ![self] = "V2"]
            /\ UNCHANGED << status, err, ready, ori, out, qi, vi, ei, es, er >>

V2(self) == /\ pc[self] = "V2"
            /\ IF st[self] = "None"
                  THEN /\ pc' = [pc EXCEPT ![self] = "V1"]
                       /\ vi' = vi
                  ELSE /\ IF st[self] = "Init"
                             THEN /\ pc' = [pc EXCEPT ![self] = "V3"]
                                  /\ vi' = vi
                             ELSE /\ vi' = [vi EXCEPT ![self] = vi[self] + 1]
                                  /\ pc' = [pc EXCEPT ![self] = "V0"]
            /\ UNCHANGED << status, err, ready, ori, out, qi, st, ei, es, er >>

V3(self) == /\ pc[self] = "V3"
            /\ IF status[vi[self]] = "Init"
                  THEN /\ status' = [status EXCEPT ![vi[self]] = "Checking"]
                       /\ pc' = [pc EXCEPT ![self] = "V4"]
                  ELSE /\ pc' = [pc EXCEPT ![self] = "V1"]
                       /\ UNCHANGED status
            /\ UNCHANGED << err, ready, ori, out, qi, vi, st, ei, es, er >>

V4(self) == /\ pc[self] = "V4"
            /\ IF err[vi[self]]
                  THEN /\ status' = [status EXCEPT ![vi[self]] = "Failed"]
                       /\ pc' = [pc EXCEPT ![self] = "V5"]
                       /\ err' = err
                  ELSE /\ IF vi[self] \in BadSig
                             THEN /\ IF ErrFirst
                                        THEN /\ err' = [err EXCEPT ![vi[self]] = TRUE]
                                             /\ pc' = [pc EXCEPT ![self] = "V6a"]
                                             /\ UNCHANGED status
                                        ELSE /\ status' = [status EXCEPT ![vi[self]] = "Failed"]
                                             /\ pc' = [pc EXCEPT ![self] = "V6b"]
                                             /\ err' = err
                             ELSE /\ status' = [status EXCEPT ![vi[self]] = "Checked"]
                                  /\ pc' = [pc EXCEPT ![self] = "V8"]
                                  /\ err' = err
            /\ UNCHANGED << ready, ori, out, qi, vi, st, ei, es, er >>

V5(self) == /\ pc[self] = "V5"
            /\ ready' = [ready EXCEPT ![vi[self]] = ready[vi[self]] - 1]
            /\ pc' = [pc EXCEPT ![self] = "V1"]
            /\ UNCHANGED << status, err, ori, out, qi, vi, st, ei, es, er >>

V7(self) == /\ pc[self] = "V7"
            /\ ready' = [ready EXCEPT ![vi[self]] = ready[vi[self]] - 1]
            /\ vi' = [vi EXCEPT ![self] = vi[self] + 1]
            /\ pc' = [pc EXCEPT ![self] = "V0"]
            /\ UNCHANGED << status, err, ori, out, qi, st, ei, es, er >>

V8(self) == /\ pc[self] = "V8"
            /\ ready' = [ready EXCEPT ![vi[self]] = ready[vi[self]] - 1]
            /\ pc' = [pc EXCEPT ![self] = "V1"]
            /\ UNCHANGED << status, err, ori, out, qi, vi, st, ei, es, er >>

V6a(self) == /\ pc[self] = "V6a"
             /\ status' = [status EXCEPT ![vi[self]] = "Failed"]
             /\ pc' = [pc EXCEPT ![self] = "V7"]
             /\ UNCHANGED << err, ready, ori, out, qi, vi, st, ei, es, er >>

V6b(self) == /\ pc[self] = "V6b"
             /\ err' = [err EXCEPT ![vi[self]] = TRUE]
             /\ pc' = [pc EXCEPT ![self] = "V7"]
             /\ UNCHANGED << status, ready, ori, out, qi, vi, st, ei, es, er >>

val(self) == V0(self) \/ V1(self) \/ V2(self) \/ V3(self) \/ V4(self)
                \/ V5(self) \/ V7(self) \/ V8(self) \/ V6a(self)
                \/ V6b(self)

E0 == /\ pc["exec"] = "E0"
      /\ IF ei <= NTx
            THEN /\ pc' = [pc EXCEPT !["exec"] = "E1"]
            ELSE /\ pc' = [pc EXCEPT !["exec"] = "Done"]
      /\ UNCHANGED << status, err, ready, ori, out, qi, vi, st, ei, es, er >>

E1 == /\ pc["exec"] = "E1"
      /\ es' = status[ei]
      /\ pc' = [pc EXCEPT !["exec"] = "E2"]
      /\ UNCHANGED << status, err, ready, ori, out, qi, vi, st, ei, er >>

E2 == /\ pc["exec"] = "E2"
      /\ IF es = "Checked"
            THEN /\ er' = "exec"
                 /\ pc' = [pc EXCEPT !["exec"] = "E5a"]
            ELSE /\ IF es = "Failed"
                       THEN /\ pc' = [pc EXCEPT !["exec"] = "E3"]
                       ELSE /\ pc' = [pc EXCEPT !["exec"] = "E4"]
                 /\ er' = er
      /\ UNCHANGED << status, err, ready, ori, out, qi, vi, st, ei, es >>

E5a == /\ pc["exec"] = "E5a"
       /\ out' = Append(out, [i |-> ei, r |-> er, b |-> ori[ei]])
       /\ ei' = ei + 1
       /\ pc' = [pc EXCEPT !["exec"] = "E0"]
       /\ UNCHANGED << status, err, ready, ori, qi, vi, st, es, er >>

E3 == /\ pc["exec"] = "E3"
      /\ IF err[ei]
            THEN /\ er' = "invalid"
            ELSE /\ er' = "valid-unexecuted"
      /\ pc' = [pc EXCEPT !["exec"] = "E5b"]
      /\ UNCHANGED << status, err, ready, ori, out, qi, vi, st, ei, es >>

E5b == /\ pc["exec"] = "E5b"
       /\ out' = Append(out, [i |-> ei, r |-> er, b |-> ori[ei]])
       /\ ei' = ei + 1
       /\ pc' = [pc EXCEPT !["exec"] = "E0"]
       /\ UNCHANGED << status, err, ready, ori, qi, vi, st, es, er >>

E4 == /\ pc["exec"] = "E4"
      /\ ready[ei] = 0
      /\ pc' = [pc EXCEPT !["exec"] = "E1"]
      /\ UNCHANGED << status, err, ready, ori, out, qi, vi, st, ei, es, er >>

exec == E0 \/ E1 \/ E2 \/ E5a \/ E3 \/ E5b \/ E4

(* Allow infinite stuttering to prevent deadlock on termination. *)
Terminating == /\ \A self \in ProcSet: pc[self] = "Done"
               /\ UNCHANGED vars

Next == initq \/ exec
           \/ (\E self \in Workers: val(self))
           \/ Terminating

Spec == /\ Init /\ [][Next]_vars
        /\ WF_vars(initq)
        /\ \A self \in Workers : WF_vars(val(self))
        /\ WF_vars(exec)

Termination == <>(\A self \in ProcSet: pc[self] = "Done")

\* END TRANSLATION

(* Properties *)
Done == pc["exec"] = "Done"
\* transactions are handled strictly in block order
ExecOrder == \A k \in 1..Len(out) : out[k].i = k
\* a transaction whose status is Failed is always reported with its error
FailedHasError == \A k \in 1..Len(out) : out[k].r # "valid-unexecuted"
\* the classification is the serial one, whatever the interleaving
SerialOutcome == Done => \A k \in Txs : out[k].r = IF k \in BadSig \cup Undecodable THEN "invalid" ELSE "exec"
\* the executor reports every transaction with its original bytes
BytesReported == \A k \in 1..Len(out) : out[k].b
WaitGroupSane == \A i \in Txs : ready[i] \in {0, 1}
ExecTerminates == <>Done
=======================================================================================
