SPECIFICATION FairSpec
CONSTANTS
  NTx = 3
  Workers <- W2
  BadSig = {1, 3}
  Undecodable = {2}
  OriFirst = TRUE
  ErrFirst = TRUE
INVARIANTS ExecOrder FailedHasError SerialOutcome BytesReported WaitGroupSane
PROPERTIES Termination ExecTerminates
