SPECIFICATION FairSpec
CONSTANTS
  NTx = 3
  Workers <- W2
  BadSig = {1, 3}
  Undecodable = {2}
  ErrFirst = TRUE
INVARIANTS ExecOrder FailedHasError SerialOutcome WaitGroupSane
PROPERTIES Termination ExecTerminates
