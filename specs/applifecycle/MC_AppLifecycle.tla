----------------------------- MODULE MC_AppLifecycle -----------------------------
EXTENDS AppLifecycle
NoKV == "-"
T(c, a, n) == Tx(c, a, n, NoKV, NoKV)
K(a, n, k, v) == Tx("kv", a, n, k, v)
Seqs(S, n) == UNION {[1..m -> S] : m \in 0..n}

\* graph alphabet: the transactions whose handling involves the per-block accumulators
TxG == {T("xfer", 1, 0), K(1, 0, "k1", "a"), K(1, 1, "k1", "b"), T("badsig", 0, 0)}
BlocksG == Seqs(TxG, 1)
\* quick exhaustive
TxQ == {T("xfer", 1, 0), T("xfer", 1, 1), T("create", 1, 0), T("call", 1, 1), K(1, 0, "k1", "a"), K(1, 1, "k1", "b"),
        T("badsig", 0, 0)}
BlocksQ == Seqs(TxQ, 2)
\* large alphabet for simulation
TxL == {T(c, a, n) : c \in {"xfer", "create", "createfail", "call", "revert"}, a \in {1, 2}, n \in 0..2}
         \cup {K(a, n, k, "a") : a \in {1, 2}, n \in 0..2, k \in {"k1", "k2"}}
         \cup {T("kvbad", 1, 0), T("badsig", 0, 0), T("junk", 0, 0), T("empty", 0, 0), T("value", 1, 1), T("admok", 2, 0)}
BlocksL == Seqs(TxL, 2)
\* quick exhaustive
TxM == {T("xfer", 1, 0), T("xfer", 1, 1), K(1, 0, "k1", "a"), K(1, 1, "k1", "b"), T("badsig", 0, 0)}
BlocksM == Seqs(TxM, 2)
A1 == {1}
A2 == {1, 2}
==================================================================================
