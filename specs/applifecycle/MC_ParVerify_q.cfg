SPECIFICATION FairSpec
CONSTANTS
  NTx = 2
  Workers <- W2
  BadSig = {2}
  Undecodable = {}
  ErrFirst = TRUE
INVARIANTS ExecOrder FailedHasError SerialOutcome WaitGroupSane
PROPERTIES Termination ExecTerminates
