SPECIFICATION FairSpec
CONSTANTS
  NTx = 2
  Workers <- W2
  BadSig = {2}
  Undecodable = {}
  OriFirst = TRUE
  ErrFirst = TRUE
INVARIANTS ExecOrder FailedHasError SerialOutcome BytesReported WaitGroupSane
PROPERTIES Termination ExecTerminates
