SPECIFICATION Spec
CONSTANTS
  Acct <- A1
  Keys = {"k1"}
  Vals = {"a", "b"}
  KvChecksNonce = TRUE
  FailedCreateConsumesNonce = TRUE
  EmptyTxInvalid = TRUE
  AdminBoundsChecked = TRUE
  BlockSet <- BlocksQ
  MaxH = 3
  MaxRestarts = 2
  QKinds = {"state", "call"}
  ResetKvs = TRUE
  MaxCrashes = 1
  TrimFloor = 0
  HdrRebuilt = TRUE
VIEW view
INVARIANTS TypeOK PersistentIsFunctionOfChain
PROPERTIES HashesDependOnlyOnChain ResultDependsOnlyOnChain QueriesDependOnlyOnChain QueryNeverPanics
CHECK_DEADLOCK FALSE
