SPECIFICATION FairSpec
CONSTANTS
  NTx = 2
  Workers <- W3
  BadSig = {1}
  Undecodable = {}
  OriFirst = TRUE
  ErrFirst = TRUE
INVARIANTS ExecOrder FailedHasError SerialOutcome BytesReported WaitGroupSane
PROPERTIES Termination ExecTerminates
