SPECIFICATION FairSpec
CONSTANTS
  NTx = 2
  Workers <- W3
  BadSig = {1}
  Undecodable = {}
  ErrFirst = TRUE
INVARIANTS ExecOrder FailedHasError SerialOutcome WaitGroupSane
PROPERTIES Termination ExecTerminates
