SPECIFICATION Spec
CONSTANTS
  Acct <- A1
  Keys = {"k1"}
  Vals = {"a", "b"}
  KvChecksNonce = TRUE
  FailedCreateConsumesNonce = TRUE
  EmptyTxInvalid = TRUE
  AdminBoundsChecked = TRUE
  BlockSet <- BlocksG
  MaxH = 2
  MaxRestarts = 2
  QKinds = {}
  ResetKvs = TRUE
  MaxCrashes = 1
  TrimFloor = 1
  HdrRebuilt = TRUE
INVARIANTS TypeOK PersistentIsFunctionOfChain
PROPERTIES HashesDependOnlyOnChain ResultDependsOnlyOnChain QueriesDependOnlyOnChain QueryNeverPanics
CHECK_DEADLOCK FALSE
