-------------------------------- MODULE CList --------------------------------
(***************************************************************************)
(* gemmill/modules/go-clist/clist.go: the concurrent list under the         *)
(* mempool's transaction list and the pool's admin-request and broadcast    *)
(* queues (C19).  Elements keep their next/prev pointers when they are      *)
(* removed, so that a reader positioned on an element (the reactor's        *)
(* broadcast routine, refreshAdminOP's loop) can go on with Next(); the     *)
(* pointers of a removed element are a snapshot of the moment of removal.   *)
(* One action per public call; Remove is only applied to live elements      *)
(* (what the callers guarantee).  A reader moves by Next() and restarts at  *)
(* the front when it falls off the end.                                     *)
(***************************************************************************)
EXTENDS Integers, Sequences, FiniteSets

CONSTANTS MaxElems,     \* elements are numbered 1..MaxElems in insertion order
          MaxSteps,
          Detach        \* what the caller does after Remove: "none", "prev" (mempool, ext queue) or "both"

VARIABLES live,         \* the list: sequence of live element ids (ascending by construction)
          nxt, prv,     \* pointers held by every element ever created (0 = nil)
          removed,      \* set of removed elements
          cut,          \* ghost: number of elements created when the element was removed (its pointers are a snapshot of then)
          n,            \* elements created so far
          rd,           \* the reader's position (0 = not positioned: it will take Front())
          visited,      \* ghost: live elements the reader has been on since it last started at the front
          steps, res
vars == <<live, nxt, prv, removed, cut, n, rd, visited, steps, res>>
Elem == 1..MaxElems

Init == /\ live = <<>> /\ nxt = [e \in Elem |-> 0] /\ prv = [e \in Elem |-> 0]
        /\ removed = {} /\ cut = [e \in Elem |-> 0] /\ n = 0 /\ rd = 0 /\ visited = {} /\ steps = 0 /\ res = [op |-> "init"]

Last(s) == s[Len(s)]
PushBack ==
  /\ steps < MaxSteps /\ n < MaxElems
  /\ LET e == n + 1 IN
       /\ n' = e
       /\ live' = Append(live, e)
       /\ IF live = <<>> THEN UNCHANGED <<nxt, prv>>
          ELSE /\ nxt' = [nxt EXCEPT ![Last(live)] = e]
               /\ prv' = [prv EXCEPT ![e] = Last(live)]
       /\ res' = [op |-> "PushBack", e |-> e]
  /\ steps' = steps + 1
  /\ UNCHANGED <<removed, cut, rd, visited>>

Pos(e) == CHOOSE k \in 1..Len(live) : live[k] = e
Remove(e) ==
  /\ steps < MaxSteps
  /\ \E k \in 1..Len(live) : live[k] = e
  /\ LET k == Pos(e)
         p == IF k = 1 THEN 0 ELSE live[k - 1]
         x == IF k = Len(live) THEN 0 ELSE live[k + 1]
         n1 == IF p = 0 THEN nxt ELSE [nxt EXCEPT ![p] = x]
         p1 == IF x = 0 THEN prv ELSE [prv EXCEPT ![x] = p]
     IN /\ live' = [j \in 1..(Len(live) - 1) |-> IF j < k THEN live[j] ELSE live[j + 1]]
        \* the removed element keeps its own pointers unless the caller detaches them
        /\ nxt' = IF Detach = "both" THEN [n1 EXCEPT ![e] = 0] ELSE n1
        /\ prv' = IF Detach \in {"prev", "both"} THEN [p1 EXCEPT ![e] = 0] ELSE p1
  /\ removed' = removed \cup {e} /\ cut' = [cut EXCEPT ![e] = n]
  /\ steps' = steps + 1
  /\ res' = [op |-> "Remove", e |-> e]
  /\ UNCHANGED <<n, rd, visited>>

\* the reader: Front() when not positioned, otherwise Next() of the element it is on; falling off the end (nil)
\* un-positions it (the broadcast routine then waits for the front again)
ReadNext ==
  /\ steps < MaxSteps
  /\ LET to == IF rd = 0 THEN (IF live = <<>> THEN 0 ELSE live[1]) ELSE nxt[rd] IN
       /\ rd' = to
       /\ visited' = IF rd = 0 THEN (IF to = 0 THEN {} ELSE {to}) ELSE (IF to = 0 THEN {} ELSE visited \cup {to})
       /\ res' = [op |-> "ReadNext", from |-> rd, to |-> to]
  /\ steps' = steps + 1
  /\ UNCHANGED <<live, nxt, prv, removed, cut, n>>

Next == PushBack \/ (\E e \in Elem : Remove(e)) \/ ReadNext
Spec == Init /\ [][Next]_vars

-----------------------------------------------------------------------------
LiveSet == {live[k] : k \in 1..Len(live)}
TypeOK == /\ n \in 0..MaxElems /\ LiveSet \cap removed = {} /\ LiveSet \cup removed = 1..n

\* the pointers of the live elements spell the list, in both directions
LivePointers ==
  \A k \in 1..Len(live) :
    /\ nxt[live[k]] = IF k = Len(live) THEN 0 ELSE live[k + 1]
    /\ prv[live[k]] = IF k = 1 THEN 0 ELSE live[k - 1]

\* a reader never goes backwards and never steps over a live element: moving from e to f, no live element lies between
ReaderSkipsNothing ==
  [][ (res'.op = "ReadNext" /\ res'.from # 0 /\ res'.to # 0)
        => /\ res'.to > res'.from
           /\ ~ \E x \in LiveSet : res'.from < x /\ x < res'.to ]_vars
\* Unless the caller cut the forward pointer, a reader on an element still reaches every live element that was behind it
\* when its pointers were last written (for a removed element: when it was removed; elements pushed after a removed TAIL are
\* not linked to it - the reader falls off the end and starts again at the front, which re-reads but loses nothing).
Horizon(e) == IF e \in removed THEN cut[e] ELSE n
RECURSIVE Chain(_, _)
Chain(e, fuel) == IF e = 0 \/ fuel = 0 THEN {} ELSE {e} \cup Chain(nxt[e], fuel - 1)
ForwardReachesLive ==
  Detach # "both" => \A e \in 1..n : \A x \in LiveSet : (x > e /\ x <= Horizon(e)) => x \in Chain(e, MaxElems + 1)
\* a reader leaves the list (nil) only from an element with no live element inside its horizon
LeavesOnlyAtTheEnd ==
  [][ (res'.op = "ReadNext" /\ res'.from # 0 /\ res'.to = 0 /\ Detach # "both")
        => ~ \E x \in LiveSet : x > res'.from /\ x <= Horizon(res'.from) ]_vars

view == <<live, nxt, prv, removed, cut, n, rd, steps>>
=============================================================================
