SPECIFICATION Spec
CONSTANTS
  MaxElems = 4
  MaxSteps = 9
  Detach = "prev"
VIEW view
INVARIANTS TypeOK LivePointers ForwardReachesLive
PROPERTIES ReaderSkipsNothing LeavesOnlyAtTheEnd
CHECK_DEADLOCK FALSE
