---------------------------------- MODULE Mempool ----------------------------------
(* C19 - gemmill/mempool/mempool.go: the plain FIFO pool used when the application does    *)
(* not bring its own (types.TxPoolApplication).  One action per public call:               *)
(*   Receive(x, r)   ReceiveTx: dedup cache, size limit, push back                          *)
(*   Reap(n)         first n transactions in arrival order (no state change)                *)
(*   Update(B)       refreshMempoolTxs: drop the block's transactions                       *)
(*   Flush                                                                                  *)
EXTENDS Integers, Sequences, FiniteSets, TLC

CONSTANTS
  Txs,               \* transaction names
  Limit,             \* txLimit = block_size * 2; ReceiveTx refuses when Len(txs) > Limit (sic: strictly greater)
  MaxBlk,
  KeepCommittedInCache  \* TRUE: Update records the block's transactions in the dedup cache and they stay there
                        \* (code after the repair); FALSE: committed transactions are REMOVED from the cache

VARIABLES txs, cache, committed, resub, flushed, res
vars == <<txs, cache, committed, resub, flushed, res>>
view == <<txs, cache, committed, resub, flushed>>

SeqSet(s) == {s[i] : i \in 1..Len(s)}
Init == txs = <<>> /\ cache = {} /\ committed = {} /\ resub = {} /\ flushed = FALSE /\ res = [op |-> "init"]

Receive(x, r) ==
  /\ r = IF x \in cache THEN "exist" ELSE IF Len(txs) > Limit THEN "full" ELSE "ok"
  /\ IF r = "ok" THEN /\ txs' = Append(txs, x) /\ cache' = cache \cup {x}
                      /\ resub' = IF x \in committed THEN resub \cup {x} ELSE resub
     ELSE UNCHANGED <<txs, cache, resub>>
  /\ res' = [op |-> "Receive", x |-> x, r |-> r]
  /\ UNCHANGED <<committed, flushed>>

Reap(n) == /\ res' = [op |-> "Reap", n |-> n] /\ UNCHANGED <<txs, cache, committed, resub, flushed>>

Update(B) ==
  /\ Cardinality(B) <= MaxBlk
  /\ txs' = SelectSeq(txs, LAMBDA x : x \notin B)
  /\ cache' = IF KeepCommittedInCache THEN cache \cup B ELSE cache \ (B \cap SeqSet(txs))
  /\ committed' = committed \cup B
  /\ resub' = resub \ B
  /\ res' = [op |-> "Update", B |-> B]
  /\ UNCHANGED flushed

Flush == /\ txs' = <<>> /\ cache' = {} /\ flushed' = TRUE /\ res' = [op |-> "Flush"] /\ UNCHANGED <<committed, resub>>

Blocks == {B \in SUBSET Txs : Cardinality(B) <= MaxBlk}
Next == \/ \E x \in Txs, r \in {"ok", "exist", "full"} : Receive(x, r)
        \/ \E n \in {1, 2, -1} : Reap(n)
        \/ \E B \in Blocks : Update(B)
        \/ Flush
Spec == Init /\ [][Next]_vars

(* Properties *)
NoDuplicates == Cardinality(SeqSet(txs)) = Len(txs)
HeldIsCached == SeqSet(txs) \subseteq cache
WithinBounds == Len(txs) <= Limit + 1
RejectsDuplicates == [][ (res'.op = "Receive" /\ res'.x \in SeqSet(txs)) => res'.r = "exist" ]_vars
\* a committed transaction is never offered again (Flush empties the cache on purpose: excluded via resub)
NoReofferCommitted == SeqSet(txs) \cap (committed \ resub) = {}
NoReofferStrict == SeqSet(txs) \cap committed = {}
\* with the cache keeping committed transactions only an explicit Flush (operator RPC) makes the pool forget them
ResubOnlyAfterFlush == resub # {} => flushed
===================================================================================
