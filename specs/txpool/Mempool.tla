---------------------------------- MODULE Mempool ----------------------------------
(* C19 - gemmill/mempool/mempool.go: the plain FIFO pool used when the application does    *)
(* not bring its own (types.TxPoolApplication).  ReceiveTx takes NO pool lock for its      *)
(* checks: RPC handlers and peer reactors call it concurrently, so it is modelled with its  *)
(* real atomic steps and several submitter processes:                                       *)
(*   RcvCheck(p, x, r)  cache.Exists(tx) [cache mutex] ; txs.Len() > txLimit                *)
(*                      ... filters, WAL (no shared state; the replay parks p here) ...      *)
(*   RcvPush(p, r)      cache.Push(tx) [cache mutex]: refused when somebody pushed it since  *)
(*   RcvAppend(p)       txs.PushBack                                                         *)
(*   UpdCache(B)        Update: cache.Push of the block's transactions (FIRST: a submitter that  *)
(*                      checks the cache from here on finds the committed transactions)      *)
(*   UpdRefresh         Update: refreshMempoolTxs under the pool lock                        *)
(*   UpdLate            only with CacheFirst = FALSE: the cache.Push loop after the unlock   *)
(*   Reap(n), Flush     under the pool lock                                                  *)
(* AtomicAppend = TRUE is the code after the repair: Push and PushBack happen under the     *)
(* pool lock, i.e. RcvPush does both and RcvAppend does not exist.                           *)
EXTENDS Integers, Sequences, FiniteSets, TLC

CONSTANTS
  Txs,               \* transaction names
  Subm,              \* submitter processes (goroutines calling ReceiveTx)
  Limit,             \* txLimit = block_size * 2; ReceiveTx refuses when Len(txs) > Limit (sic: strictly greater)
  MaxBlk,
  PushChecked,       \* TRUE: `if !mem.cache.Push(tx) { return ErrTxInCache }` (the code); FALSE: result ignored
  AtomicAppend,      \* TRUE: cache.Push + txs.PushBack under the pool lock (code after the repair)
  CacheFirst,        \* TRUE: Update enters the block's transactions into the dedup cache BEFORE it refreshes the list (the
                     \* code); FALSE: afterwards, when the pool lock has been released again (UpdLate)
  KeepCommittedInCache  \* TRUE: Update records the block's transactions in the dedup cache and they stay there
                        \* (code after the repair); FALSE: committed transactions are REMOVED from the cache

VARIABLES txs, cache, pc, cur, upd, committed, forgot, res
\* committed: ghost, every tx a committed block contained; forgot: ghost, the committed txs an explicit Flush
\* ("remove all transactions from mempool and cache") made the pool forget since they were last committed
vars == <<txs, cache, pc, cur, upd, committed, forgot, res>>
view == <<txs, cache, pc, cur, upd, committed, forgot>>

SeqSet(s) == {s[i] : i \in 1..Len(s)}
NoTx == "-"
NoUpd == [on |-> FALSE, B |-> {}, late |-> FALSE]
Init == /\ txs = <<>> /\ cache = {} /\ committed = {} /\ forgot = {}
        /\ pc = [p \in Subm |-> "idle"] /\ cur = [p \in Subm |-> NoTx] /\ upd = NoUpd
        /\ res = [op |-> "init"]

RcvCheck(p, x, r) ==
  /\ pc[p] = "idle"
  /\ r = IF x \in cache THEN "exist" ELSE IF Len(txs) > Limit THEN "full" ELSE "pass"
  /\ IF r = "pass" THEN /\ pc' = [pc EXCEPT ![p] = "push"] /\ cur' = [cur EXCEPT ![p] = x]
     ELSE UNCHANGED <<pc, cur>>
  /\ res' = [op |-> "RcvCheck", p |-> p, x |-> x, r |-> r]
  /\ UNCHANGED <<txs, cache, upd, committed, forgot>>

RcvPush(p, r) ==
  /\ pc[p] = "push"
  /\ r = IF cur[p] \in cache /\ PushChecked THEN "exist" ELSE "ok"
  /\ IF r = "exist" THEN /\ pc' = [pc EXCEPT ![p] = "idle"] /\ cur' = [cur EXCEPT ![p] = NoTx]
                         /\ UNCHANGED <<txs, cache>>
     ELSE /\ cache' = cache \cup {cur[p]}
          /\ IF AtomicAppend
               THEN /\ txs' = Append(txs, cur[p])
                    /\ pc' = [pc EXCEPT ![p] = "idle"] /\ cur' = [cur EXCEPT ![p] = NoTx]
               ELSE /\ pc' = [pc EXCEPT ![p] = "append"] /\ UNCHANGED <<txs, cur>>
  /\ res' = [op |-> "RcvPush", p |-> p, r |-> r]
  /\ UNCHANGED <<upd, committed, forgot>>

RcvAppend(p) ==
  /\ pc[p] = "append"
  /\ txs' = Append(txs, cur[p])
  /\ pc' = [pc EXCEPT ![p] = "idle"] /\ cur' = [cur EXCEPT ![p] = NoTx]
  /\ res' = [op |-> "RcvAppend", p |-> p]
  /\ UNCHANGED <<cache, upd, committed, forgot>>

Reap(n) == /\ res' = [op |-> "Reap", n |-> n] /\ UNCHANGED <<txs, cache, pc, cur, upd, committed, forgot>>

UpdCache(B) ==
  /\ ~upd.on
  /\ upd' = [on |-> TRUE, B |-> B, late |-> FALSE]
  /\ cache' = IF KeepCommittedInCache /\ CacheFirst THEN cache \cup B ELSE cache
  /\ committed' = committed \cup B
  /\ forgot' = forgot \ B
  /\ res' = [op |-> "UpdCache", B |-> B]
  /\ UNCHANGED <<txs, pc, cur>>

UpdRefresh ==
  /\ upd.on /\ ~upd.late
  /\ txs' = SelectSeq(txs, LAMBDA x : x \notin upd.B)
  /\ cache' = IF KeepCommittedInCache THEN cache ELSE cache \ (upd.B \cap SeqSet(txs))
  /\ upd' = IF CacheFirst THEN NoUpd ELSE [upd EXCEPT !.late = TRUE]
  /\ res' = [op |-> "UpdRefresh"]
  /\ UNCHANGED <<pc, cur, committed, forgot>>

UpdLate ==
  /\ upd.on /\ upd.late
  /\ cache' = IF KeepCommittedInCache THEN cache \cup upd.B ELSE cache
  /\ upd' = NoUpd
  /\ res' = [op |-> "UpdLate"]
  /\ UNCHANGED <<txs, pc, cur, committed, forgot>>

Flush == /\ txs' = <<>> /\ cache' = {} /\ forgot' = committed /\ res' = [op |-> "Flush"]
         /\ UNCHANGED <<pc, cur, upd, committed>>

Blocks == {B \in SUBSET Txs : Cardinality(B) <= MaxBlk}
Next == \/ \E p \in Subm, x \in Txs, r \in {"pass", "exist", "full"} : RcvCheck(p, x, r)
        \/ \E p \in Subm, r \in {"ok", "exist"} : RcvPush(p, r)
        \/ \E p \in Subm : RcvAppend(p)
        \/ \E n \in {1, 2, -1} : Reap(n)
        \/ \E B \in Blocks : UpdCache(B)
        \/ UpdRefresh
        \/ UpdLate
        \/ Flush
Spec == Init /\ [][Next]_vars

(* Properties *)
Quiet == (\A p \in Subm : pc[p] = "idle") /\ ~upd.on
\* no transaction is queued twice, in every interleaving of concurrent submitters
NoDuplicates == Cardinality(SeqSet(txs)) = Len(txs)
\* what is queued is known to the dedup cache (else an exact duplicate would be accepted)
HeldIsCached == SeqSet(txs) \subseteq cache
\* every submitter in flight may overshoot the limit by one (the limit is read before the append, without a lock)
WithinBounds == Len(txs) <= Limit + Cardinality(Subm)
RejectsDuplicates == [][ (res'.op = "RcvCheck" /\ res'.x \in SeqSet(txs)) => res'.r = "exist" ]_vars
\* a transaction a committed block contained is never offered again, unless an explicit Flush made the pool forget it
\* in between - checked when no Update is half-way
NoReofferCommitted == ~upd.on => SeqSet(txs) \cap (committed \ forgot) = {}
===================================================================================
