SPECIFICATION Spec
CONSTANTS
  Acct <- A2
  U <- UL
  Fail <- FailL
  Admin <- AdminL
  PendingLimit = 3
  WaitingLimit = 3
  MaxBlk = 3
  MaxEvict = 1
  EvictIdleOnly = TRUE
  FixReplaceLeak = TRUE
  FixPendingConflict = TRUE
  FixDropIncluded = TRUE
VIEW viewS
INVARIANTS TypeOK ConsecutiveFromCurrentNonce NoDupNonce NoReofferCommitted AllMatchesHeld WithinBounds BeatsMatchWaiting
PROPERTIES RejectsDuplicates AcceptedIsHeld NoLossBelowCapacity
CHECK_DEADLOCK FALSE
