---------------------------------- MODULE TxPool ----------------------------------
(* C19 - chain/app/evm/tx_pool.go ethTxPool + tx_sort.go txSortedMap, with the application  *)
(* nonce behind it (EVMApp.state).  One action per public call / critical section:           *)
(*   Submit(t, r)        ReceiveTx -> CheckAndAdd (+ addWaiting, TryReplace,                  *)
(*                       promoteExecutables([from])) -> broadcastNewTx; r = the reply          *)
(*   SubmitAdmin(x, r)   ReceiveTx -> handleAdminOP                                           *)
(*   Reap(n)             Reap: no state change; what it may return is a function of the state *)
(*   Update(B)           commit path step 1: TxPool.Update(height, block txs) under pool lock  *)
(*   SwapState           commit path step 2: OnCommit installs the new app.state (stateMtx)    *)
(*   UpdateToState(od,op)commit path step 3: updateToState = demoteUnexecutables ;             *)
(*                       promoteExecutables(nil) under the pool lock; od/op = the (random) Go  *)
(*                       map iteration orders over pending / waiting accounts                  *)
(*   Evict               one tick of loop() with every waiting account expired                 *)
(*   Flush                                                                                     *)
(* Submitters and the evictor interleave freely with the three commit-path steps; Reap is      *)
(* called by the consensus goroutine and therefore never between them.                         *)
(* A transaction is <<account, nonce, version>>; versions distinguish different signed txs     *)
(* with the same (account, nonce).  Txs in Fail are rejected at execution (gas price > 0 with  *)
(* no balance): they never advance the nonce.                                                  *)
EXTENDS Integers, Sequences, FiniteSets, TLC

CONSTANTS
  Acct, U,             \* accounts; universe of ordinary transactions <<a, n, v>>
  Fail,                \* subset of U: fails at execution
  Admin,               \* admin-op transactions, written <<0, k, 0>> (same shape as ordinary ones: TLC cannot
                       \* compare strings with tuples)
  PendingLimit, WaitingLimit,
  MaxBlk,              \* transactions per block
  MaxEvict,            \* evictor ticks per behaviour (99: unbounded and not counted)
  EvictIdleOnly,       \* TRUE: the tick never falls inside the commit path (replay configurations only)
  FixReplaceLeak,      \* TRUE: a tx evicted by TryReplace also leaves `all`            (code after repair)
  FixPendingConflict,  \* TRUE: a tx whose nonce is already pending is refused           (code after repair)
  FixDropIncluded      \* TRUE: Update removes the block's transactions from the pool    (code after repair)

VARIABLES
  nonce,     \* [Acct -> Nat]  EVMApp.state nonce (safeGetNonce)
  pend,      \* SUBSET U       ethTxPool.pending  (all accounts)
  wait,      \* SUBSET U       ethTxPool.waiting
  all,       \* SUBSET U       ethTxPool.all
  beats,     \* SUBSET Acct    keys of waitingBeats
  ext,       \* Seq(Admin)     extTxs
  bq,        \* Seq(U \cup Admin) broadcastQueue
  cp,        \* commit path: "idle" | "updated" | "swapped"
  blk,       \* the block being committed (set of txs)
  committed, \* ghost: every tx a committed block contained
  ev,        \* evictor ticks so far (counted only when MaxEvict < 99)
  resub,     \* ghost: txs accepted again AFTER a block containing them was committed (or while it is being committed)
  res        \* output only

vars == <<nonce, pend, wait, all, beats, ext, bq, cp, blk, committed, resub, ev, res>>
view == <<nonce, pend, wait, all, beats, ext, bq, cp, blk, committed, resub, ev>>
\* coarser view for the larger configurations: the broadcast queue as a set (its order only decides which element an
\* overflow evicts; no reply and no property below depends on it)
viewS == <<nonce, pend, wait, all, beats, ext, {bq[i] : i \in 1..Len(bq)}, cp, blk, committed, resub, ev>>

A(t) == t[1]
N(t) == t[2]
Of(S, a) == {t \in S : A(t) = a}
Nonces(S) == {N(t) : t \in S}
Max(S) == CHOOSE x \in S : \A y \in S : y <= x
Min(S) == CHOOSE x \in S : \A y \in S : x <= y
TxAt(S, a, n) == CHOOSE t \in S : A(t) = a /\ N(t) = n
SeqSet(s) == {s[i] : i \in 1..Len(s)}
Filter(s, S) == SelectSeq(s, LAMBDA x : x \notin S)     \* remove members of S

Init ==
  /\ nonce = [a \in Acct |-> 0]
  /\ pend = {} /\ wait = {} /\ all = {} /\ beats = {}
  /\ ext = <<>> /\ bq = <<>>
  /\ cp = "idle" /\ blk = {} /\ committed = {} /\ resub = {} /\ ev = 0
  /\ res = [op |-> "init"]

(* ---- txSortedMap.ReadyN(start, count) on the waiting txs W of one account ------------------ *)
\* returns the set taken: consecutive nonces from the lowest, provided lowest <= start
ReadyN(W, start, count) ==
  IF W = {} \/ Min(Nonces(W)) > start \/ count <= 0 THEN {}
  ELSE LET lo == Min(Nonces(W))
           run == {n \in Nonces(W) : \A m \in lo..n : m \in Nonces(W)}     \* consecutive from lo
           take == {n \in run : n - lo < count}
       IN {t \in W : N(t) \in take}

(* ---- promoteExecutables for ONE account, given the running pool state ----------------------- *)
\* st = [pend, wait, all, beats]
PromoteOne(st, a) ==
  LET cnt == Cardinality(st.pend)
  IN IF cnt >= PendingLimit THEN st            \* "pending queue is full, do not promote" (return)
     ELSE
       LET W    == Of(st.wait, a)
           old  == {t \in W : N(t) < nonce[a]}                    \* Forward(nonce): too old
           W1   == W \ old
           rdy  == ReadyN(W1, nonce[a], PendingLimit - cnt)
           W2   == W1 \ rdy
           \* pending[addr].Add fails when the nonce is already pending: the tx is dropped (it stays in `all`
           \* unless FixPendingConflict, which also makes this unreachable from Submit)
           clash == {t \in rdy : N(t) \in Nonces(Of(st.pend, a))}
       IN [pend  |-> st.pend \cup (rdy \ clash),
           wait  |-> (st.wait \ W) \cup W2,
           all   |-> (st.all \ old) \ (IF FixPendingConflict THEN clash ELSE {}),
           beats |-> IF W2 = {} THEN st.beats \ {a} ELSE st.beats]

RECURSIVE PromoteSeq(_, _)
PromoteSeq(st, order) ==
  IF order = <<>> THEN st
  ELSE IF Of(st.wait, Head(order)) = {} THEN PromoteSeq(st, Tail(order))     \* only accounts present in waiting
  ELSE IF Cardinality(st.pend) >= PendingLimit THEN st                       \* return (not continue)
  ELSE PromoteSeq(PromoteOne(st, Head(order)), Tail(order))

(* ---- addWaiting(tx) on running state; returns [ok, st] ------------------------------------------ *)
AddWaiting(st, t) ==
  LET a == A(t)
      W == Of(st.wait, a)
  IN IF Cardinality(st.wait) >= WaitingLimit
       THEN \* TryReplace
            IF W = {} THEN [ok |-> FALSE, err |-> "full", st |-> st]
            ELSE LET mx == Max(Nonces(W))
                 IN IF mx <= N(t) THEN [ok |-> FALSE, err |-> "full", st |-> st]
                    ELSE IF FixReplaceLeak /\ N(t) \in Nonces(W) THEN [ok |-> FALSE, err |-> "full", st |-> st]   \* checked first
                    ELSE LET victim == TxAt(W, a, mx)
                             st1 == [st EXCEPT !.wait = @ \ {victim},
                                               !.all  = IF FixReplaceLeak THEN @ \ {victim} ELSE @]
                         IN IF N(t) \in Nonces(W \ {victim})
                              THEN [ok |-> FALSE, err |-> "full", st |-> st1]      \* Add failed AFTER the removal
                              ELSE [ok |-> TRUE, err |-> "", st |-> [st1 EXCEPT !.wait = @ \cup {t}, !.beats = @ \cup {a}]]
       ELSE IF N(t) \in Nonces(W) THEN [ok |-> FALSE, err |-> "dupnonce", st |-> st]
            ELSE [ok |-> TRUE, err |-> "", st |-> [st EXCEPT !.wait = @ \cup {t}, !.beats = @ \cup {a}]]

Cur == [pend |-> pend, wait |-> wait, all |-> all, beats |-> beats]
SetPool(st) == /\ pend' = st.pend /\ wait' = st.wait /\ all' = st.all /\ beats' = st.beats

Push(q, x) == IF Len(q) >= WaitingLimit + PendingLimit THEN Append(Tail(q), x) ELSE Append(q, x)

(* ---- ReceiveTx for an ordinary transaction ---------------------------------------------------- *)
SubmitOutcome(t) ==
  LET a == A(t)
  IN IF t \in all THEN [r |-> "exist", st |-> Cur]
     ELSE IF nonce[a] > N(t) THEN [r |-> "low", st |-> Cur]
     ELSE IF FixPendingConflict /\ N(t) \in Nonces(Of(pend, a)) THEN [r |-> "dupnonce", st |-> Cur]
     ELSE LET aw == AddWaiting(Cur, t)
          IN IF ~aw.ok THEN [r |-> aw.err, st |-> aw.st]
             ELSE LET s1 == [aw.st EXCEPT !.all = @ \cup {t}]
                      s2 == IF nonce[a] = N(t) THEN PromoteOne(s1, a) ELSE s1
                  IN [r |-> "ok", st |-> s2]

Submit(t, r) ==
  /\ LET o == SubmitOutcome(t)
     IN /\ r = o.r
        /\ SetPool(o.st)
        /\ bq' = IF o.r = "ok" THEN Push(bq, t) ELSE bq
  /\ resub' = IF r = "ok" /\ t \in committed \cup blk THEN resub \cup {t} ELSE resub
  /\ res' = [op |-> "Submit", t |-> t, r |-> r]
  /\ UNCHANGED <<nonce, ext, cp, blk, committed, ev>>

SubmitAdmin(x, r) ==
  /\ r = IF x \in SeqSet(ext) THEN "exist" ELSE "ok"
  /\ IF r = "exist" THEN UNCHANGED <<ext, bq>>
     ELSE /\ ext' = Append(IF Len(ext) >= PendingLimit THEN Tail(ext) ELSE ext, x)
          /\ bq' = Push(bq, x)
  /\ resub' = IF r = "ok" /\ x \in committed \cup blk THEN resub \cup {x} ELSE resub
  /\ res' = [op |-> "SubmitAdmin", x |-> x, r |-> r]
  /\ UNCHANGED <<nonce, pend, wait, all, beats, cp, blk, committed, ev>>

Reap(n) ==
  /\ cp = "idle"
  /\ res' = [op |-> "Reap", n |-> n]
  /\ UNCHANGED <<nonce, pend, wait, all, beats, ext, bq, cp, blk, committed, resub, ev>>

(* ---- commit path ---------------------------------------------------------------------------------- *)
\* nonce after executing block B (transactions of an account in nonce order; Fail txs are invalid)
RECURSIVE Adv(_, _, _)
Adv(B, a, n) == IF \E t \in B : A(t) = a /\ N(t) = n /\ t \notin Fail THEN Adv(B, a, n + 1) ELSE n
NewNonce(B) == [a \in Acct |-> Adv(B \cap U, a, nonce[a])]

(* blocks: what this node could have reaped, plus the same-nonce transactions other nodes may hold *)
BlockCand == pend \cup {t \in U : N(t) = nonce[A(t)]} \cup SeqSet(ext)

Update(B) ==
  /\ cp = "idle"
  /\ B \subseteq BlockCand
  /\ blk' = B /\ cp' = "updated"
  /\ bq' = Filter(bq, B)                \* refreshBroadcastList
  /\ ext' = Filter(ext, B)              \* refreshAdminOP
  /\ IF FixDropIncluded
       THEN LET gone == B \cap all
            IN /\ pend' = pend \ gone /\ wait' = wait \ gone /\ all' = all \ gone
               /\ beats' = {a \in beats : Of(wait \ gone, a) # {}}
       ELSE UNCHANGED <<pend, wait, all, beats>>
  /\ resub' = resub \ B          \* a new inclusion: only submissions after this point count as "again"
  /\ res' = [op |-> "Update", B |-> B]
  /\ UNCHANGED <<nonce, committed, ev>>

SwapState ==
  /\ cp = "updated"
  /\ nonce' = NewNonce(blk)
  /\ cp' = "swapped"
  /\ committed' = committed \cup blk
  /\ res' = [op |-> "SwapState"]
  /\ UNCHANGED <<pend, wait, all, beats, ext, bq, blk, resub, ev>>

\* demoteUnexecutables for one account on running state: drop what is too old, keep the consecutive run that
\* starts at the account nonce, postpone (back to waiting, or delete when that fails) everything after the first gap
DemoteOne(st, a) ==
  LET P    == Of(st.pend, a)
      old  == {t \in P : N(t) < nonce[a]}
      P1   == P \ old
      s1   == [st EXCEPT !.pend = @ \ old, !.all = @ \ old]
      keep == {t \in P1 : \A m \in nonce[a]..N(t) : m \in Nonces(P1)}
      rest == P1 \ keep
  IN IF rest = {} THEN s1
     ELSE
       LET RECURSIVE Move(_, _)
           Move(s, todo) ==
             IF todo = {} THEN s
             ELSE LET t  == TxAt(todo, a, Min(Nonces(todo)))     \* map order irrelevant unless waiting fills up
                      aw == AddWaiting(s, t)
                  IN Move(IF aw.ok THEN aw.st ELSE [aw.st EXCEPT !.all = @ \ {t}], todo \ {t})
       IN Move([s1 EXCEPT !.pend = @ \ rest], rest)

RECURSIVE DemoteSeq(_, _)
DemoteSeq(st, order) == IF order = <<>> THEN st ELSE DemoteSeq(DemoteOne(st, Head(order)), Tail(order))

Perms == {p \in [1..Cardinality(Acct) -> Acct] : \A i, j \in 1..Cardinality(Acct) : i # j => p[i] # p[j]}

UpdateToState(od, op) ==
  /\ cp = "swapped"
  /\ SetPool(PromoteSeq(DemoteSeq(Cur, od), op))
  /\ cp' = "idle" /\ blk' = {}
  /\ res' = [op |-> "UpdateToState"]
  /\ UNCHANGED <<nonce, ext, bq, committed, resub, ev>>

Evict ==
  /\ ev < MaxEvict /\ (EvictIdleOnly => cp = "idle")
  /\ ev' = IF MaxEvict < 99 THEN ev + 1 ELSE ev
  /\ LET gone == {a \in beats : nonce[a] \notin Nonces(Of(wait, a))}
     IN /\ all' = all \ {t \in wait : A(t) \in gone}
        /\ wait' = {t \in wait : A(t) \notin gone}
        /\ beats' = beats \ gone
  /\ res' = [op |-> "Evict"]
  /\ UNCHANGED <<nonce, pend, ext, bq, cp, blk, committed, resub>>

Flush ==
  /\ pend' = {} /\ wait' = {} /\ all' = {} /\ beats' = {} /\ ext' = <<>> /\ bq' = <<>>
  /\ res' = [op |-> "Flush"]
  /\ UNCHANGED <<nonce, cp, blk, committed, resub, ev>>

\* constant-level, so that TLC splits the action per block and prints it in the label
AllTx == U \cup Admin
Blocks == {{}} \cup {{x} : x \in AllTx}
            \cup (IF MaxBlk >= 2 THEN {{x, y} : x \in AllTx, y \in AllTx} ELSE {})
            \cup (IF MaxBlk >= 3 THEN {{x, y, z} : x \in AllTx, y \in AllTx, z \in AllTx} ELSE {})
Replies == {"ok", "exist", "low", "full", "dupnonce"}
Next ==
  \/ \E t \in U, r \in Replies : Submit(t, r)
  \/ \E x \in Admin, r \in Replies : SubmitAdmin(x, r)
  \/ \E n \in {1, 2, 100} : Reap(n)
  \/ \E B \in Blocks : Update(B)
  \/ SwapState
  \/ \E od \in Perms, op \in Perms : UpdateToState(od, op)
  \/ Evict
  \/ Flush
Spec == Init /\ [][Next]_vars

-----------------------------------------------------------------------------------
(* Derived outputs the driver compares *)
\* GetPendingMaxNonce(a)
UnsafePMN(a) == IF Of(pend, a) # {} THEN Max(Nonces(Of(pend, a))) + 1 ELSE nonce[a]
PMN(a) == IF Of(wait, a) # {}
            THEN (IF UnsafePMN(a) # Min(Nonces(Of(wait, a))) THEN UnsafePMN(a) ELSE Max(Nonces(Of(wait, a))) + 1)
            ELSE UnsafePMN(a)

(* Properties (C19) *)
TypeOK == /\ pend \subseteq U /\ wait \subseteq U /\ all \subseteq U /\ beats \subseteq Acct
          /\ cp \in {"idle", "updated", "swapped"}

Idle == cp = "idle"
\* what Reap offers per account is strictly consecutive from the account's current nonce, one tx per nonce
ConsecutiveFromCurrentNonce ==
  Idle => \A a \in Acct : LET P == Of(pend, a)
                          IN /\ Cardinality(Nonces(P)) = Cardinality(P)
                             /\ Nonces(P) = {n \in nonce[a]..(nonce[a] + Cardinality(P) - 1) : TRUE}
NoDupNonce == \A a \in Acct : /\ Cardinality(Nonces(Of(pend, a))) = Cardinality(Of(pend, a))
                               /\ Cardinality(Nonces(Of(wait, a))) = Cardinality(Of(wait, a))
\* a transaction that a committed block contained is never offered again - unless somebody submitted it again
\* after that block (the pool keeps no memory of committed transactions: KNOWN limitation, reported by the driver
\* under its own key; only a transaction that fails at execution can be accepted a second time)
NoReofferCommitted == Idle => /\ pend \cap (committed \ resub) = {}
                              /\ SeqSet(ext) \cap (committed \ resub) = {}
NoReofferStrict == Idle => pend \cap committed = {} /\ SeqSet(ext) \cap committed = {}
\* lookup set = what the pool holds: exact duplicates are rejected, and only those
AllMatchesHeld == all = pend \cup wait
RejectsDuplicates ==
  [][ res'.op = "Submit" => ((res'.r = "exist") <=> (res'.t \in pend \cup wait)) ]_vars
\* the pool stays within its configured bounds
WithinBounds == /\ Cardinality(pend) <= PendingLimit
                /\ Cardinality(wait) <= WaitingLimit
                /\ Cardinality(all) <= PendingLimit + WaitingLimit
                /\ Len(ext) <= PendingLimit
                /\ Len(bq) <= PendingLimit + WaitingLimit
\* an accepted transaction is held; an executable transaction (pending, or waiting at the account's nonce) is
\* dropped only when it became stale, was contained in the block being committed, by Flush, or at capacity
Executable == pend \cup {t \in wait : N(t) = nonce[A(t)]}
AcceptedIsHeld == [][ (res'.op = "Submit" /\ res'.r = "ok") => res'.t \in pend' \cup wait' ]_vars
NoLossBelowCapacity ==
  [][ \A t \in Executable :
        \/ t \in pend' \cup wait'
        \/ N(t) < nonce'[A(t)]
        \/ t \in blk'
        \/ res'.op = "Flush"
        \/ Cardinality(wait) >= WaitingLimit \/ Cardinality(wait') >= WaitingLimit ]_vars
\* the evictor dereferences waiting[addr] for every key of waitingBeats
BeatsMatchWaiting == beats = {a \in Acct : Of(wait, a) # {}}
===================================================================================
