SPECIFICATION Spec
CONSTANTS
  Acct <- A1
  U <- UG
  Fail <- FailG
  Admin <- NoAdmin
  PendingLimit = 3
  WaitingLimit = 2
  MaxBlk = 2
  MaxEvict = 99
  EvictIdleOnly = FALSE
  FixReplaceLeak = TRUE
  FixPendingConflict = TRUE
  FixDropIncluded = TRUE
VIEW view
INVARIANTS TypeOK ConsecutiveFromCurrentNonce NoDupNonce NoReofferCommitted AllMatchesHeld WithinBounds BeatsMatchWaiting
PROPERTIES RejectsDuplicates AcceptedIsHeld NoLossBelowCapacity
CHECK_DEADLOCK FALSE
