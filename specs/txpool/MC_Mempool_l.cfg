SPECIFICATION Spec
CONSTANTS
  Txs <- T4
  Limit = 3
  MaxBlk = 2
  KeepCommittedInCache = TRUE
VIEW view
INVARIANTS NoDuplicates HeldIsCached WithinBounds NoReofferCommitted ResubOnlyAfterFlush
PROPERTIES RejectsDuplicates
CHECK_DEADLOCK FALSE
