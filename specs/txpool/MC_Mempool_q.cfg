SPECIFICATION Spec
CONSTANTS
  Txs <- T3
  Subm <- S2
  Limit = 2
  MaxBlk = 2
  PushChecked = TRUE
  AtomicAppend = TRUE
  CacheFirst = TRUE
  KeepCommittedInCache = TRUE
VIEW view
INVARIANTS NoDuplicates HeldIsCached WithinBounds NoReofferCommitted
PROPERTIES RejectsDuplicates
CHECK_DEADLOCK FALSE
