SPECIFICATION Spec
CONSTANTS
  Acct <- A2
  U <- UM
  Fail <- FailQ
  Admin <- AdminG
  PendingLimit = 2
  WaitingLimit = 2
  MaxBlk = 2
  MaxEvict = 99
  EvictIdleOnly = FALSE
  FixReplaceLeak = TRUE
  FixPendingConflict = TRUE
  FixDropIncluded = TRUE
VIEW viewS
INVARIANTS TypeOK ConsecutiveFromCurrentNonce NoDupNonce NoReofferCommitted AllMatchesHeld WithinBounds BeatsMatchWaiting
PROPERTIES RejectsDuplicates AcceptedIsHeld NoLossBelowCapacity
CHECK_DEADLOCK FALSE
