------------------------------- MODULE MC_TxPool -------------------------------
EXTENDS TxPool
A2 == {1, 2}
A1 == {1}
\* small graph universe: one account, nonces 0..2, a second (failing) version of nonce 0, a second good version of nonce 1
UG == {<<1, 0, 1>>, <<1, 1, 1>>, <<1, 2, 1>>, <<1, 0, 2>>}
FailG == {<<1, 0, 2>>}
\* quick exhaustive: two accounts
UQ == {<<1, 0, 1>>, <<1, 1, 1>>, <<1, 2, 1>>, <<1, 0, 2>>, <<1, 1, 3>>, <<2, 0, 1>>, <<2, 1, 1>>}
FailQ == {<<1, 0, 2>>}
\* thorough exhaustive: two accounts, five transactions, one admin op
UM == {<<1, 0, 1>>, <<1, 1, 1>>, <<1, 0, 2>>, <<2, 0, 1>>, <<2, 1, 1>>}
\* large: simulation
UL == {<<a, n, 1>> : a \in A2, n \in 0..3} \cup {<<a, n, 2>> : a \in A2, n \in 0..1} \cup {<<1, 1, 3>>, <<2, 2, 3>>}
FailL == {<<a, n, 2>> : a \in A2, n \in 0..1}
UT == {<<1, 0, 1>>, <<1, 1, 1>>, <<1, 0, 2>>}
AdminG == {<<0, 1, 0>>}
AdminL == {<<0, 1, 0>>, <<0, 2, 0>>, <<0, 3, 0>>}
NoAdmin == {}
\* bound the ghost and the broadcast queue for exhaustive runs
Bound == Cardinality(committed) <= 4
=================================================================================
