SPECIFICATION Spec
CONSTANTS
  Txs <- T2
  Subm <- S1
  Limit = 0
  MaxBlk = 1
  PushChecked = TRUE
  AtomicAppend = TRUE
  CacheFirst = TRUE
  KeepCommittedInCache = FALSE
VIEW view
INVARIANTS NoDuplicates HeldIsCached WithinBounds NoReofferCommitted
PROPERTIES RejectsDuplicates
CHECK_DEADLOCK FALSE
