SPECIFICATION Spec
CONSTANTS
  Txs <- T3
  Limit = 2
  MaxBlk = 2
  KeepCommittedInCache = FALSE
VIEW view
INVARIANTS NoDuplicates HeldIsCached WithinBounds NoReofferCommitted ResubOnlyAfterFlush
PROPERTIES RejectsDuplicates
CHECK_DEADLOCK FALSE
