SPECIFICATION Spec
CONSTANTS
  Txs <- T2
  Subm <- S2
  Limit = 0
  MaxBlk = 1
  PushChecked = TRUE
  AtomicAppend = FALSE
  CacheFirst = TRUE
  KeepCommittedInCache = TRUE
VIEW view
INVARIANTS NoDuplicates HeldIsCached WithinBounds NoReofferCommitted
PROPERTIES RejectsDuplicates
CHECK_DEADLOCK FALSE
