--------------------------------- MODULE ValSet ---------------------------------
(* gemmill/types/validator_set.go + validator.go as implemented: the weighted round-robin       *)
(* proposer selection, its two unexported caches (proposer, totalVotingPower), Copy, the          *)
(* Add/Update/Remove mutators as plugin/admin_op.go uses them, and the persistence round trip of  *)
(* state.State.Save/LoadState: go-wire keeps only the exported field Validators, the address of   *)
(* the proposer is stored next to the state and restored by ValidatorSet.SetProposer.             *)
(*                                                                                                *)
(* Several sets live side by side in `sets` (slot 1 is built by NewValidatorSet, the other slots  *)
(* are filled by Copy) so that aliasing between a set and copies handed out earlier is a visible  *)
(* state change.  One action per public call.  Reply of a call = last argument of the action.     *)
(*                                                                                                *)
(* IncrementAccum(times) runs `times` single rounds (validator_set.go incrementAccumOnce): add    *)
(* VotingPower to every Accum, take the root of gcmn.Heap after pushing the validators in address *)
(* order with the strict comparison accumComparable.Less - that root is the FIRST validator in    *)
(* address order among those of maximal accum (an element pushed later reaches the root only when *)
(* strictly greater) - cache it as proposer and subtract the total voting power from it.          *)
EXTENDS Integers, FiniteSets, Sequences, TLC

CONSTANTS
  Ids,      \* universe of validator identities, 1..N; identity order = address order
  MaxP,     \* voting powers 1..MaxP
  MaxK,     \* IncrementAccum(times), times in 1..MaxK
  Slots,    \* 1..S : slot 1 = the live set, others = copies
  MaxMut    \* bound on the number of successful Add/Update/Remove in one behaviour

VARIABLES
  sets,     \* [Slots -> set record]
  nmut,     \* number of successful mutations so far
  res       \* output only: the last call

vars == <<sets, nmut, res>>
view == <<sets, nmut>>

Zero == [i \in Ids |-> 0]
Nil  == [live |-> FALSE, mem |-> {}, pw |-> Zero, ac |-> Zero, prop |-> 0, tvp |-> 0,
         win |-> <<>>, pris |-> FALSE]
(* live: slot holds a set;  mem: member ids;  pw/ac: VotingPower / Accum (0 outside mem);          *)
(* prop: cached proposer id, 0 = nil;  tvp: cached totalVotingPower, 0 = not cached;               *)
(* ghost win: the proposers selected since the set was built or last changed, at most the last     *)
(* Total of them;  ghost pris: built by NewValidatorSet from zero accums and never changed since.  *)

RECURSIVE SumOver(_, _)
SumOver(f, S) == IF S = {} THEN 0 ELSE LET x == CHOOSE y \in S : TRUE IN f[x] + SumOver(f, S \ {x})
Total(S) == SumOver(S.pw, S.mem)

(* Validator.CompareAccum folded over the set / root of the heap: greatest accum, ties -> lowest address *)
Mostest(mem, ac) == CHOOSE i \in mem : \A j \in mem : ac[i] > ac[j] \/ (ac[i] = ac[j] /\ i <= j)

LastN(s, n) == IF Len(s) <= n THEN s ELSE SubSeq(s, Len(s) - n + 1, Len(s))

IncOnce(S) ==
  LET T   == Total(S)
      ac1 == [i \in Ids |-> IF i \in S.mem THEN S.ac[i] + S.pw[i] ELSE 0]
      m   == Mostest(S.mem, ac1)
  IN [S EXCEPT !.ac = [ac1 EXCEPT ![m] = @ - T], !.prop = m, !.tvp = T, !.win = LastN(Append(@, m), T)]

RECURSIVE IncN(_, _)
IncN(S, k) == IF k = 0 THEN S ELSE IncN(IncOnce(S), k - 1)

(* ValidatorSet.Proposer(): the cache, or when it is nil the CompareAccum maximum of the CURRENT accums *)
Proposer(S) == IF S.prop # 0 THEN S.prop ELSE Mostest(S.mem, S.ac)

(* NewValidatorSet(vals): copies, sorts, IncrementAccum(1) *)
NewSet(mem, pw) ==
  IncOnce([live |-> TRUE, mem |-> mem, pw |-> [i \in Ids |-> IF i \in mem THEN pw[i] ELSE 0], ac |-> Zero,
           prop |-> 0, tvp |-> 0, win |-> <<>>, pris |-> TRUE])

Init ==
  /\ \E mem \in SUBSET Ids \ {{}} : \E pw \in [Ids -> 1..MaxP] :
        sets = [s \in Slots |-> IF s = 1 THEN NewSet(mem, pw) ELSE Nil]
  /\ nmut = 0
  /\ res = [op |-> "init"]

Live(s) == sets[s].live

Increment(s, k) ==
  /\ Live(s)
  /\ sets' = [sets EXCEPT ![s] = IncN(@, k)]
  /\ res' = [op |-> "Increment", s |-> s, k |-> k]
  /\ UNCHANGED nmut

(* Copy(): every validator copied; both caches copied; the proposer cache refers to the copy's own validator *)
Copy(s, t) ==
  /\ Live(s) /\ s # t
  /\ sets' = [sets EXCEPT ![t] = sets[s]]
  /\ res' = [op |-> "Copy", s |-> s, t |-> t]
  /\ UNCHANGED nmut

Changed(S) == [S EXCEPT !.prop = 0, !.tvp = 0, !.win = <<>>, !.pris = FALSE]

(* Add(NewValidator(pubkey, power)) : Accum 0 *)
Add(s, i, p, r) ==
  /\ Live(s) /\ nmut < MaxMut
  /\ r = (i \notin sets[s].mem)
  /\ res' = [op |-> "Add", s |-> s, i |-> i, p |-> p, r |-> r]
  /\ IF r THEN /\ sets' = [sets EXCEPT ![s] = Changed([@ EXCEPT !.mem = @ \cup {i}, !.pw[i] = p, !.ac[i] = 0])]
               /\ nmut' = nmut + 1
          ELSE UNCHANGED <<sets, nmut>>

(* _, val := GetByAddress(addr); val.VotingPower = p; Update(val) : Accum kept *)
Update(s, i, p, r) ==
  /\ Live(s) /\ nmut < MaxMut
  /\ r = (i \in sets[s].mem)
  /\ res' = [op |-> "Update", s |-> s, i |-> i, p |-> p, r |-> r]
  /\ IF r THEN /\ sets' = [sets EXCEPT ![s] = Changed([@ EXCEPT !.pw[i] = p])]
               /\ nmut' = nmut + 1
          ELSE UNCHANGED <<sets, nmut>>

(* Remove(addr).  An empty validator set is outside the model (IncrementAccum on it panics by design). *)
Remove(s, i, r) ==
  /\ Live(s) /\ nmut < MaxMut
  /\ r = (i \in sets[s].mem)
  /\ r => Cardinality(sets[s].mem) > 1
  /\ res' = [op |-> "Remove", s |-> s, i |-> i, r |-> r]
  /\ IF r THEN /\ sets' = [sets EXCEPT ![s] = Changed([@ EXCEPT !.mem = @ \ {i}, !.pw[i] = 0, !.ac[i] = 0])]
               /\ nmut' = nmut + 1
          ELSE UNCHANGED <<sets, nmut>>

(* State.Save(); LoadState().  Save asks Proposer() (which fills an empty cache) and stores its address beside *)
(* the wire form of the set; the wire form keeps the exported field Validators only; loadState puts the         *)
(* proposer back with SetProposer.  The cached total is lost.                                                   *)
Reload(s) ==
  /\ Live(s)
  /\ sets' = [sets EXCEPT ![s] = [sets[s] EXCEPT !.prop = Proposer(sets[s]), !.tvp = 0]]
  /\ res' = [op |-> "Reload", s |-> s]
  /\ UNCHANGED nmut

(* Proposer() / TotalVotingPower() fill the cache they find empty *)
GetProposer(s, r) ==
  /\ Live(s)
  /\ r = Proposer(sets[s])
  /\ sets' = [sets EXCEPT ![s].prop = r]
  /\ res' = [op |-> "GetProposer", s |-> s, r |-> r]
  /\ UNCHANGED nmut

GetTotal(s, r) ==
  /\ Live(s)
  /\ r = Total(sets[s])
  /\ sets' = [sets EXCEPT ![s].tvp = r]
  /\ res' = [op |-> "GetTotal", s |-> s, r |-> r]
  /\ UNCHANGED nmut

Next ==
  \/ \E s \in Slots, k \in 1..MaxK : Increment(s, k)
  \/ \E s, t \in Slots : Copy(s, t)
  \/ \E s \in Slots, i \in Ids, p \in 1..MaxP, r \in BOOLEAN : Add(s, i, p, r) \/ Update(s, i, p, r)
  \/ \E s \in Slots, i \in Ids, r \in BOOLEAN : Remove(s, i, r)
  \/ \E s \in Slots : Reload(s)
  \/ \E s \in Slots, r \in Ids : GetProposer(s, r)
  \/ \E s \in Slots, r \in 1..(MaxP * Cardinality(Ids)) : GetTotal(s, r)

Spec == Init /\ [][Next]_vars

-----------------------------------------------------------------------------------
(* Properties (C16) *)

TypeOK ==
  /\ nmut \in 0..MaxMut
  /\ \A s \in Slots : /\ sets[s].mem \subseteq Ids
                      /\ sets[s].live => sets[s].mem # {}
                      /\ \A i \in Ids : i \notin sets[s].mem => sets[s].pw[i] = 0 /\ sets[s].ac[i] = 0

(* the caches never go stale: a cached proposer is a member, a cached total is the total *)
CacheCoherent ==
  \A s \in Slots : Live(s) => /\ sets[s].prop \in sets[s].mem \cup {0}
                              /\ sets[s].tvp \in {0, Total(sets[s])}

Count(w, i) == Cardinality({n \in 1..Len(w) : w[n] = i})

(* while the set is unchanged, every run of Total consecutive selections selects each validator *)
(* exactly VotingPower times - across single and batched increments, copies and reloads          *)
Proportional ==
  \A s \in Slots : (Live(s) /\ sets[s].pris /\ Len(sets[s].win) = Total(sets[s]))
                      => \A i \in sets[s].mem : Count(sets[s].win, i) = sets[s].pw[i]

(* accums of an unchanged set sum to zero and stay strictly inside (-Total, Total): no drift *)
Bounded ==
  \A s \in Slots : (Live(s) /\ sets[s].pris)
      => /\ SumOver(sets[s].ac, sets[s].mem) = 0
         /\ \A i \in sets[s].mem : -Total(sets[s]) < sets[s].ac[i] /\ sets[s].ac[i] < Total(sets[s])

(* a call on one set never changes another set; a copy equals its source, which is not changed *)
CopyIndependent ==
  [][ /\ res'.op \in {"Increment", "Add", "Update", "Remove", "Reload", "GetProposer", "GetTotal"}
          => \A t \in Slots : t # res'.s => sets'[t] = sets[t]
      /\ res'.op = "Copy"
          => /\ \A t \in Slots : t # res'.t => sets'[t] = sets[t]
             /\ sets'[res'.t] = sets[res'.s] ]_vars

(* an unsuccessful mutation leaves the set exactly as it was *)
RejectNoChange ==
  [][ (res'.op \in {"Add", "Update", "Remove"} /\ ~res'.r) => sets' = sets ]_vars

(* the persistence round trip (restart) does not change who the proposer is, nor the validators *)
ReloadPreservesProposer ==
  [][ res'.op = "Reload" => /\ Proposer(sets'[res'.s]) = Proposer(sets[res'.s])
                            /\ [sets'[res'.s] EXCEPT !.prop = 0, !.tvp = 0] = [sets[res'.s] EXCEPT !.prop = 0, !.tvp = 0] ]_vars

(* asking never changes the answer: the observers only fill caches *)
ObserversPure ==
  [][ res'.op \in {"GetProposer", "GetTotal"}
        => /\ Proposer(sets'[res'.s]) = Proposer(sets[res'.s])
           /\ [sets'[res'.s] EXCEPT !.prop = 0, !.tvp = 0] = [sets[res'.s] EXCEPT !.prop = 0, !.tvp = 0] ]_vars

(* informational (not in any cfg's INVARIANTS): proportionality right after a set change *)
ProportionalAfterChange ==
  \A s \in Slots : (Live(s) /\ Len(sets[s].win) = Total(sets[s]))
                      => \A i \in sets[s].mem : Count(sets[s].win, i) = sets[s].pw[i]
===================================================================================
