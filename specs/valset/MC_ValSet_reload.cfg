SPECIFICATION Spec
CONSTANTS
  Ids = {1,2}
  MaxP = 2
  MaxK = 1
  Slots = {1}
  MaxMut = 0
VIEW view
INVARIANTS TypeOK CacheCoherent Proportional Bounded
PROPERTIES ReloadPreservesProposer
CHECK_DEADLOCK FALSE
