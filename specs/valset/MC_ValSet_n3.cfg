SPECIFICATION Spec
CONSTANTS
  Ids = {1,2,3}
  MaxP = 3
  MaxK = 3
  Slots = {1}
  MaxMut = 2
VIEW view
INVARIANTS TypeOK CacheCoherent Proportional Bounded
PROPERTIES CopyIndependent RejectNoChange ObserversPure ReloadPreservesProposer
CHECK_DEADLOCK FALSE
