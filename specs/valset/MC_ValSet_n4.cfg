SPECIFICATION Spec
CONSTANTS
  Ids = {1,2,3,4}
  MaxP = 3
  MaxK = 3
  Slots = {1}
  MaxMut = 1
VIEW view
INVARIANTS TypeOK CacheCoherent Proportional Bounded
PROPERTIES CopyIndependent RejectNoChange ObserversPure ReloadPreservesProposer
CHECK_DEADLOCK FALSE
