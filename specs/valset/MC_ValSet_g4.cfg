SPECIFICATION Spec
CONSTANTS
  Ids = {1,2,3}
  MaxP = 2
  MaxK = 2
  Slots = {1}
  MaxMut = 1
VIEW view
INVARIANTS TypeOK CacheCoherent Proportional Bounded
PROPERTIES CopyIndependent RejectNoChange ObserversPure ReloadPreservesProposer
CHECK_DEADLOCK FALSE
