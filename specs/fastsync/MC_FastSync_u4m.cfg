SPECIFICATION Spec
CONSTANTS
  Peers = {"p1", "p2"}
  Honest = {}
  L = 4
  Classes <- AllClasses
  MaxTamper = 2
  MaxEnv = 8
  Total = 5
  Urgent = TRUE
  Guarded = TRUE
VIEW view
INVARIANTS TypeOK AppliedIsSourcePrefix NoCrash EndStateEqualsLive NoSwitchRace NoAmbiguity
PROPERTIES NeverApplyUnjustified
CHECK_DEADLOCK FALSE
