SPECIFICATION Spec
CONSTANTS
  Peers = {"p1", "p2"}
  Honest = {"p1"}
  L = 3
  Classes <- AllClasses
  MaxTamper = 1
  MaxEnv = 6
  Total = 5
  Urgent = FALSE
  Guarded = TRUE
VIEW view
INVARIANTS TypeOK AppliedIsSourcePrefix NoCrash EndStateEqualsLive NoSwitchRace NoAmbiguity
PROPERTIES NeverApplyUnjustified
CHECK_DEADLOCK FALSE
