------------------------------- MODULE MC_FastSync -------------------------------
EXTENDS FastSync
AllClasses == {"body", "subvotes", "fewvotes", "boundaryvotes", "voteidx", "nilpart", "nilhdr"}
CoreClasses == {"body", "fewvotes", "boundaryvotes", "subvotes"}
=================================================================================
