------------------------------- MODULE MC_FastSync -------------------------------
EXTENDS FastSync
AllClasses == {"body", "subvotes", "fewvotes", "voteidx", "nilpart", "nilhdr"}
CoreClasses == {"body", "fewvotes", "subvotes"}
=================================================================================
