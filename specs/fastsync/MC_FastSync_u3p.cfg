SPECIFICATION Spec
CONSTANTS
  Peers = {"p1", "p2", "p3"}
  Honest = {"p1"}
  L = 4
  Classes <- CoreClasses
  MaxTamper = 1
  MaxEnv = 8
  Total = 5
  Urgent = TRUE
  Guarded = TRUE
VIEW view
INVARIANTS TypeOK AppliedIsSourcePrefix NoCrash EndStateEqualsLive NoSwitchRace NoAmbiguity
PROPERTIES NeverApplyUnjustified
CHECK_DEADLOCK FALSE
