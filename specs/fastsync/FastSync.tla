--------------------------------- MODULE FastSync ---------------------------------
(* Fast sync (C13) as implemented by                                                         *)
(*   gemmill/blockchain/pool.go     BlockPool: requesters, peers, AddBlock, RedoRequest,       *)
(*                                  RemovePeer, peer timeout, IsCaughtUp                       *)
(*   gemmill/blockchain/reactor.go  Receive, poolRoutine: SYNC_LOOP (verify first with          *)
(*                                  second.LastCommit, then execute), switch to consensus       *)
(*   gemmill/angine.go              assembleStateMachine: verifier = stateM.Validators.VerifyCommit *)
(*                                  (the ADVANCING set), executer = SaveBlock + ApplyBlock + Save *)
(*                                                                                            *)
(* The source chain has L blocks; block h is described by what a peer serves for it:           *)
(*   "good"      the source block, byte for byte                                               *)
(*   "body"      transactions / a header field altered, LastCommit untouched                   *)
(*   "subvotes"  LastCommit reduced to a subset that still holds +2/3 of the set in force      *)
(*   "fewvotes"  LastCommit that does not hold +2/3 of the set in force (votes removed, only    *)
(*               the quorum of the OTHER validator-set epoch, bad signature, other block id)   *)
(*   "boundaryvotes" LastCommit holding EXACTLY the largest power that is not more than 2/3 of the   *)
(*               set in force (3 of 5, 5 of 8: total power = 2 mod 3, where n/3*2+1 and n*2/3+1 differ)*)
(*   "voteidx"   LastCommit whose votes carry a wrong validator index/address (signatures intact)*)
(*   "nilpart"   LastCommit missing (nil)                                                     *)
(*   "nilhdr"    no block / no header in the response                                          *)
(* Every class except "good" changes the bytes of the block, hence its BlockID.                *)
(*                                                                                            *)
(* One action per message handler / critical section.  The pool and the sync loop run on their *)
(* own goroutines and tickers: in the real system Assign, Sync and Switch happen by themselves.*)
(* With Urgent = TRUE the environment (Report, Deliver, Disconnect, Timeout) moves only when   *)
(* none of them is enabled and never creates an ambiguous peer choice, which is the subset of  *)
(* behaviours a test driver can force on the real goroutines; Urgent = FALSE is every          *)
(* interleaving.  TLC checks the properties under both.                                      *)
EXTENDS Integers, FiniteSets, Sequences, TLC

CONSTANTS
  Peers,       \* peer ids
  Honest,      \* SUBSET Peers: serve only "good", report at most L
  L,           \* length of the source chain
  Classes,     \* classes a malicious peer may serve
  MaxTamper,   \* bound on non-"good" deliveries
  MaxEnv,      \* bound on environment actions
  Total,       \* total voting power of the set in force (the driver's chains use 5 and 8: both = 2 mod 3)
  Urgent,      \* see above
  Guarded      \* TRUE: VerifyCommit refuses a nil commit (5947eb3) and votes that do not carry their slot's validator
               \*       index/address (03aa329); FALSE: the behaviour before these commits

None   == "none"
Absent == -1
Hs     == 1..L

VARIABLES
  height,    \* pool.height: next block to apply
  req,       \* [Hs -> [p, b]]  bpRequester at each height >= pool.height: assigned peer, block held (class)
  peerH,     \* [Peers -> -1..L]  pool.peers: reported height, Absent if unknown to the pool
  conn,      \* SUBSET Peers     peers connected to the switch
  applied,   \* Seq(Classes)     ghost: what was stored and executed, in order
  seenc,     \* class of the block whose LastCommit was saved as SeenCommit of the last applied block
  switched,  \* BOOLEAN          pool stopped, SwitchToConsensus fired
  crashed,   \* BOOLEAN          a goroutine without recover panicked
  tampers, nenv,
  last       \* output only

vars == <<height, req, peerH, conn, applied, seenc, switched, crashed, tampers, nenv, last>>
view == <<height, req, peerH, conn, applied, seenc, switched, crashed, tampers, nenv>>

Free == [p |-> None, b |-> None]

--------------------------------------------------------------------------------------
(* what the verifier / executer of the code decide, by class *)

BodyOK(c) == c = "good"

Quorum   == (2 * Total) \div 3 + 1        \* smallest power that is more than 2/3
Boundary == Quorum - 1                    \* largest power that is NOT more than 2/3

\* voting power of the valid precommits, for exactly the previous (true) block, that VerifyCommit can count in the
\* LastCommit of a block of class c; -1 = VerifyCommit panics (nil commit before 5947eb3)
Tallied(c) ==
  CASE c \in {"good", "body", "subvotes"} -> Quorum         \* a minimal +2/3 commit (canonical or another one)
    [] c = "boundaryvotes"                -> Boundary
    [] c = "fewvotes"                     -> Boundary - 1     \* at most (votes removed / other epoch's quorum / bad signature ...)
    [] c = "voteidx"                      -> IF Guarded THEN 0 ELSE Total   \* the whole commit is refused (03aa329)
    [] c = "nilpart"                      -> IF Guarded THEN 0 ELSE -1
    [] OTHER                              -> 0

\* does the LastCommit of a block of class c justify the (true) previous block?  the property's inequality
Justifies(c) == IF Tallied(c) < 0 THEN "crash" ELSE IF 3 * Tallied(c) > 2 * Total THEN "yes" ELSE "no"

\* the saved SeenCommit is usable by reconstructLastCommit at the switch
SeenUsable(c) == c # "voteidx"

Pending(p)   == { h \in Hs : h >= height /\ req[h].p = p /\ req[h].b = None }
Eligible(h)  == { p \in Peers : peerH[p] # Absent /\ peerH[p] >= h }
Unassigned   == { h \in Hs : h >= height /\ req[h].p = None }

AssignEnabled == \E h \in Unassigned : Eligible(h) # {}
\* the pool never has a choice between peers: neither for a requester without peer, nor for the replacement of
\* a requester's peer should it be removed (redo, disconnect, timeout)
Unambiguous   == \A h \in Hs : h >= height => Cardinality(Eligible(h) \ {req[h].p}) <= 1

SyncEnabled == /\ height < L
               /\ req[height].b # None /\ req[height + 1].b # None

MaxPeerH == LET S == { peerH[p] : p \in { q \in Peers : peerH[q] # Absent } }
            IN IF S = {} THEN 0 ELSE CHOOSE m \in S : \A x \in S : x <= m
CaughtUp == /\ \E p \in Peers : peerH[p] # Absent
            /\ (MaxPeerH = 0 \/ height >= MaxPeerH)

Quiet == ~AssignEnabled /\ ~SyncEnabled /\ ~CaughtUp

Live == ~switched /\ ~crashed

--------------------------------------------------------------------------------------
Init ==
  /\ height = 1
  /\ req = [h \in Hs |-> Free]
  /\ peerH = [p \in Peers |-> Absent]
  /\ conn = Peers
  /\ applied = <<>> /\ seenc = "good"
  /\ switched = FALSE /\ crashed = FALSE
  /\ tampers = 0 /\ nenv = 0
  /\ last = [op |-> "init"]

\* removePeer: every requester of p is redone (peer and block dropped), p leaves pool.peers
Dropped(p) == [h \in Hs |-> IF req[h].p = p THEN Free ELSE req[h]]

EnvOK == Live /\ nenv < MaxEnv /\ (Urgent => Quiet)
\* an environment step must not leave the pool a choice between peers, nor race the switch against other steps
Forced == Urgent => (Unambiguous' /\ ~(CaughtUp' /\ SyncEnabled'))

(* bcStatusResponseMessage from p: SetPeerHeight *)
Report(p, H) ==
  /\ EnvOK /\ p \in conn
  /\ H \in 0..L /\ (peerH[p] = Absent \/ peerH[p] # H)
  /\ (Urgent => \A h \in Hs : (h >= height /\ req[h].p = p) => H >= h)   \* never below what it is serving
  /\ peerH' = [peerH EXCEPT ![p] = H]
  /\ nenv' = nenv + 1
  /\ last' = [op |-> "Report", p |-> p, H |-> H]
  /\ UNCHANGED <<height, req, conn, applied, seenc, switched, crashed, tampers>>
  /\ Forced

(* bcBlockResponseMessage from p with a block of height h and class c: Receive -> AddBlock *)
Deliver(p, h, c) ==
  /\ EnvOK /\ p \in conn
  /\ h >= height /\ req[h].p = p /\ req[h].b = None          \* (other responses are ignored by AddBlock)
  /\ (p \in Honest => c = "good")
  /\ (c # "good" => tampers < MaxTamper)
  /\ tampers' = IF c = "good" THEN tampers ELSE tampers + 1
  /\ nenv' = nenv + 1
  /\ last' = [op |-> "Deliver", p |-> p, h |-> h, c |-> c]
  /\ IF c = "nilhdr"
       THEN \* AddBlock dereferences the missing header in the peer's receive routine, which recovers and
            \* stops the peer for the error
            /\ req' = Dropped(p)
            /\ peerH' = [peerH EXCEPT ![p] = Absent]
            /\ conn' = conn \ {p}
       ELSE /\ req' = [req EXCEPT ![h].b = c]
            /\ UNCHANGED <<peerH, conn>>
  /\ UNCHANGED <<height, applied, seenc, switched, crashed>>
  /\ Forced

(* the connection to p is lost: Switch -> reactor.RemovePeer -> pool.RemovePeer *)
Disconnect(p) ==
  /\ EnvOK /\ p \in conn
  /\ conn' = conn \ {p}
  /\ peerH' = [peerH EXCEPT ![p] = Absent]
  /\ req' = Dropped(p)
  /\ nenv' = nenv + 1
  /\ last' = [op |-> "Disconnect", p |-> p]
  /\ UNCHANGED <<height, applied, seenc, switched, crashed, tampers>>
  /\ Forced

(* p did not answer in time: bpPeer.onTimeout -> timeoutsCh -> StopPeerForError -> RemovePeer *)
Timeout(p) ==
  /\ EnvOK /\ p \in conn /\ peerH[p] # Absent /\ Pending(p) # {}
  /\ conn' = conn \ {p}
  /\ peerH' = [peerH EXCEPT ![p] = Absent]
  /\ req' = Dropped(p)
  /\ nenv' = nenv + 1
  /\ last' = [op |-> "Timeout", p |-> p]
  /\ UNCHANGED <<height, applied, seenc, switched, crashed, tampers>>
  /\ Forced

(* bpRequester.requestRoutine: pickIncrAvailablePeer + sendRequest *)
Assign(h, p) ==
  /\ Live /\ h \in Unassigned /\ p \in Eligible(h)
  /\ (Urgent => ~CaughtUp)          \* (the switch stops the pool; a request sent meanwhile has no effect)
  /\ req' = [req EXCEPT ![h].p = p]
  /\ last' = [op |-> "Assign", h |-> h, p |-> p]
  /\ UNCHANGED <<height, peerH, conn, applied, seenc, switched, crashed, tampers, nenv>>

(* one iteration of SYNC_LOOP; r = "apply" | "redo" | "crash" *)
Sync(r) ==
  /\ Live /\ SyncEnabled
  /\ LET first == req[height].b
         second == req[height + 1].b
         j == Justifies(second)
     IN /\ r = IF j = "crash" THEN "crash" ELSE IF BodyOK(first) /\ j = "yes" THEN "apply" ELSE "redo"
        /\ CASE r = "apply" ->
                  /\ applied' = Append(applied, first)
                  /\ seenc' = second
                  /\ height' = height + 1
                  /\ req' = [req EXCEPT ![height] = Free]
                  /\ UNCHANGED <<peerH, crashed>>
             [] r = "redo" ->          \* RedoRequest(first.Height): the peer that served FIRST is removed
                  /\ req' = Dropped(req[height].p)
                  /\ peerH' = [peerH EXCEPT ![req[height].p] = Absent]
                  /\ UNCHANGED <<height, applied, seenc, crashed>>
             [] r = "crash" ->
                  /\ crashed' = TRUE
                  /\ UNCHANGED <<height, req, peerH, applied, seenc>>
  /\ last' = [op |-> "Sync", r |-> r]
  /\ UNCHANGED <<conn, switched, tampers, nenv>>

(* switchToConsensusTicker: IsCaughtUp -> pool.Stop, SwitchToConsensus (reconstructLastCommit) *)
Switch(r) ==
  /\ Live /\ CaughtUp
  /\ (Urgent => ~SyncEnabled)
  /\ r = IF applied # <<>> /\ ~SeenUsable(seenc) THEN "crash" ELSE "ok"
  /\ switched' = (r = "ok") /\ crashed' = (r = "crash")
  /\ last' = [op |-> "Switch", r |-> r]
  /\ UNCHANGED <<height, req, peerH, conn, applied, seenc, tampers, nenv>>

Next ==
  \/ \E p \in Peers, H \in 0..L : Report(p, H)
  \/ \E p \in Peers, h \in Hs, c \in Classes \cup {"good"} : Deliver(p, h, c)
  \/ \E p \in Peers : Disconnect(p)
  \/ \E p \in Peers : Timeout(p)
  \/ \E h \in Hs, p \in Peers : Assign(h, p)
  \/ \E r \in {"apply", "redo", "crash"} : Sync(r)
  \/ \E r \in {"ok", "crash"} : Switch(r)

Spec == Init /\ [][Next]_vars

--------------------------------------------------------------------------------------
(* Properties (C13) *)

TypeOK ==
  /\ height \in 1..L /\ peerH \in [Peers -> -1..L] /\ conn \subseteq Peers
  /\ switched \in BOOLEAN /\ crashed \in BOOLEAN

\* only source blocks are stored and executed, in order
AppliedIsSourcePrefix ==
  /\ Len(applied) = height - 1
  /\ \A i \in 1..Len(applied) : applied[i] = "good"

\* a block is applied only when the following block carries +2/3 precommits of the set in force for exactly it
NeverApplyUnjustified ==
  [][ applied' # applied =>
        /\ last'.op = "Sync" /\ last'.r = "apply"
        /\ BodyOK(req[height].b)
        /\ 3 * Tallied(req[height + 1].b) > 2 * Total ]_vars

\* whatever the peers serve, no goroutine of the node dies
NoCrash == ~crashed

\* at the switch to consensus the node holds exactly the source prefix (the driver compares store, state,
\* validator sets and application hash with the live node's at that height)
EndStateEqualsLive ==
  switched => /\ \A i \in 1..Len(applied) : applied[i] = "good"
              /\ Len(applied) = height - 1
              /\ SeenUsable(seenc)

\* (urgent mode) the driver is never asked to race the switch ticker against the sync loop
NoSwitchRace == (Urgent /\ Live /\ CaughtUp) => ~SyncEnabled
\* (urgent mode) ... nor to guess which peer the pool picked
NoAmbiguity  == Urgent => Unambiguous
===================================================================================
