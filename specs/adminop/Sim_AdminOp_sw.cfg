SPECIFICATION SpecSim
CONSTANTS
  Nodes = {1, 2, 3, 4}
  InitPower <- P3111
  Accounts = {"a", "b"}
  Bodies <- BodiesS
  SigLists <- ListsM
  Replicas = {1, 2}
  MaxTx = 5
  MaxBlocks = 3
  DedupSigners = TRUE
  DirectOpen = FALSE
  QueryOpen = FALSE
  TallyOnly = FALSE
CONSTRAINT Viable
INVARIANTS TypeOK CountedOnce UniformApplication
PROPERTIES ChangeOnlyIfAuthorised ChangeAtEndBlockOnly ReplayChangesNothing NoSideChannel
CHECK_DEADLOCK FALSE
