--------------------------------- MODULE AdminOp ---------------------------------
(* Validator-set changes (C14) as implemented by                                             *)
(*   gemmill/plugin/admin_op.go   CheckMajor23, ExecTX, ProcessAdminOP, EndBlock/updateValidators *)
(*   eth/core/vm/contracts.go     AdminOP.Run (precompile 0xfe), eth/core/vm/evm.go run()      *)
(*   eth/core/evm_config.go       the Admin contract at AdminTo (prepends msg.sender)           *)
(*   chain/app/evm/evm.go         OnExecute (block execution), queryContract (read-only query)  *)
(*   gemmill/state/execution.go   ExecBlock: BeginBlock, app, EndBlock -> NEXT validator set      *)
(*                                                                                            *)
(* A request is an Ethereum transaction of account `snd` whose payload is an AdminOPCmd:       *)
(* a body (cmd, target node, power, bound account addr, bound nonce n -- all signed), an        *)
(* unsigned command type, a self signature (add) and a LIST of signature entries.  One action   *)
(* per transaction; the reply class is an argument of the action.  The three switches below    *)
(* select the behaviour of the code before/after the three "fix:" commits, so that TLC shows   *)
(* the properties fail on the old behaviour and hold on the new one.                          *)
EXTENDS Integers, FiniteSets, Sequences, TLC

CONSTANTS
  Nodes,         \* node identities 1..N (validators, members without power, outsiders)
  InitPower,     \* [Nodes -> Int]   -1 = not in the set, 0 = member without power, > 0 = validator
  Accounts,      \* externally owned accounts submitting transactions
  Bodies,        \* request bodies considered      (records, see MC_AdminOp)
  SigLists,      \* signature lists considered     (sequences of [k, s])
  Replicas,      \* 1..R
  MaxTx,         \* bound on transactions and queries per behaviour
  MaxBlocks,
  DedupSigners,  \* TRUE: CheckMajor23 counts a signer once  (FALSE: once per entry, before 73670c0)
  DirectOpen,    \* FALSE: 0xfe accepts only the Admin contract (TRUE: any caller, `from` from payload, before 6bcf04f)
  QueryOpen,     \* FALSE: queries cannot reach the plugin    (TRUE: they stage changes, before bfdbd89)
  QueryTouches,  \* FALSE: a query returns before it touches the process-wide precompile object (run() at HEAD)
                 \* TRUE:  it first stores ITS state copy and caller there (SetState/SetCaller above the NoAdminOP check)
  TallyOnly,     \* TRUE: only Check actions (exhaustive signature-list configurations)
  Routes         \* how a request reaches the precompile: "contract" (the genesis Admin contract), "direct" (a transaction to
                 \* 0xfe itself), "static" (a contract of the submitter's making STATICCALLs 0xfe with a payload of its choosing)

Absent == -1

VARIABLES
  vals,     \* [Nodes -> Int]   validator set in force for the block being built (canonical execution)
  pend,     \* Seq([cmd, tgt, pw])  AdminOp.ChangedValidators of the canonical execution
  blk,      \* Seq([c, s])  per transaction of the block being built: the change it stages (c) and the change it would
            \*              stage were its sender/nonce read from the last COMMITTED state (s) -- NoCh if none
  nonce,    \* [Accounts -> Nat]    account nonces of the canonical execution
  open,     \* number of transactions in the block being built
  ntx,      \* transactions + queries so far (bound)
  chain,    \* Seq([pend, blk, vals, nonce, ok])  closed blocks: staged changes, resulting NEXT set, nonces, EndBlock ok
  halted,   \* a block failed in EndBlock; the chain cannot advance
  rep,      \* [Replicas -> [h, vals, extra]]  height, validator set for height h+1, changes staged outside blocks
  last      \* output only: the last action and its reply

vars == <<vals, pend, blk, nonce, open, ntx, chain, halted, rep, last>>
view == <<vals, pend, blk, nonce, open, ntx, chain, halted, rep>>

--------------------------------------------------------------------------------------
(* signature tally *)

RECURSIVE SumPower(_, _)
SumPower(v, S) == IF S = {} THEN 0 ELSE LET x == CHOOSE y \in S : TRUE IN v[x] + SumPower(v, S \ {x})

Member(v, s) == v[s] # Absent
Total(v)     == SumPower(v, {s \in Nodes : v[s] > 0})          \* ValidatorSet.TotalVotingPower

\* entry counts iff its key is a current validator with positive power and the signature verifies over Msg
ValidEntry(v, e) == e.k = "ok" /\ v[e.s] > 0

RECURSIVE PerEntry(_, _)
PerEntry(v, sl) == IF sl = <<>> THEN 0
                   ELSE (IF ValidEntry(v, Head(sl)) THEN v[Head(sl).s] ELSE 0) + PerEntry(v, Tail(sl))

Signers(v, sl)       == { sl[i].s : i \in { j \in 1..Len(sl) : ValidEntry(v, sl[j]) } }
DistinctPower(v, sl) == SumPower(v, Signers(v, sl))

\* CheckMajor23 as coded: major23 > TotalVotingPower()*2/3  (integer division)
Major23(v, sl) == (IF DedupSigners THEN DistinctPower(v, sl) ELSE PerEntry(v, sl)) > (Total(v) * 2) \div 3

\* the property's notion: DISTINCT valid current signers hold more than two thirds
Authorised(v, sl) == 3 * DistinctPower(v, sl) > 2 * Total(v)

--------------------------------------------------------------------------------------
(* reply of ExecTX/ProcessAdminOP in program order.  `from` is what the precompile reads from   *)
(* its payload: the Admin contract's msg.sender, or (direct call) whatever the caller wrote.    *)
(* `bump` = 1 when the account whose nonce is read is the one executing the transaction: its    *)
(* nonce was incremented before the call.                                                     *)
Result(v, nn, b, sl, route, snd) ==
  LET from == IF route = "contract" THEN snd ELSE b.addr
      seen == nn[from] + (IF from = snd THEN 1 ELSE 0)
  IN IF route # "contract" /\ ~DirectOpen THEN "rejRoute"
     ELSE IF ~Major23(v, sl) THEN "rejAuth"
     ELSE IF b.ct # "ok" THEN "rejType"
     ELSE IF from # b.addr THEN "rejFrom"
     ELSE IF b.n + 1 # seen THEN "rejNonce"
     ELSE CASE b.cmd = "add"    -> IF b.self # "ok" THEN "rejSelf" ELSE IF Member(v, b.tgt) THEN "noop" ELSE "ok"
            [] b.cmd = "update" -> IF ~Member(v, b.tgt) THEN "rejMember" ELSE IF v[b.tgt] = b.pw THEN "noop" ELSE "ok"
            [] b.cmd = "remove" -> IF ~Member(v, b.tgt) THEN "noop" ELSE "ok"
            [] OTHER            -> "rejCmd"

Change(b) == [cmd |-> b.cmd, tgt |-> b.tgt, pw |-> b.pw]
NoCh      == [cmd |-> "none", tgt |-> 0, pw |-> 0]

(* AdminOp.updateValidators on the copy of the set that becomes the next one *)
RECURSIVE ApplyP(_, _)
ApplyP(v, p) ==
  IF p = <<>> THEN [vals |-> v, ok |-> TRUE]
  ELSE LET c == Head(p) IN
       IF c.cmd = "remove"
         THEN IF v[c.tgt] = Absent THEN [vals |-> v, ok |-> FALSE]       \* "Failed to remove validator"
              ELSE ApplyP([v EXCEPT ![c.tgt] = Absent], Tail(p))
         ELSE ApplyP([v EXCEPT ![c.tgt] = c.pw], Tail(p))                \* add with power / set power

--------------------------------------------------------------------------------------
Init ==
  /\ vals = InitPower
  /\ pend = <<>> /\ blk = <<>>
  /\ nonce = [a \in Accounts |-> 0]
  /\ open = 0 /\ ntx = 0
  /\ chain = <<>>
  /\ halted = FALSE
  /\ rep = [r \in Replicas |-> [h |-> 0, vals |-> InitPower, extra |-> <<>>]]
  /\ last = [op |-> "init"]

(* one transaction of the block being built *)
Tx(b, sl, route, snd, res) ==
  /\ ~TallyOnly /\ ~halted /\ ntx < MaxTx /\ Len(chain) < MaxBlocks
  /\ res = Result(vals, nonce, b, sl, route, snd)
  /\ pend' = IF res = "ok" THEN Append(pend, Change(b)) ELSE pend
  /\ LET \* the account nonces of the last committed state (what a concurrent query's state copy holds)
         nonce0 == IF chain = <<>> THEN [a \in Accounts |-> 0] ELSE chain[Len(chain)].nonce
         \* a query with a direct call has an EOA as caller: the precompile still refuses; through the Admin
         \* contract the sender is right and only the nonce is read from the other state
         stale  == IF route = "contract" THEN Result(vals, nonce0, b, sl, route, snd) ELSE res
     IN blk' = Append(blk, [c |-> IF res = "ok" THEN Change(b) ELSE NoCh, s |-> IF stale = "ok" THEN Change(b) ELSE NoCh])
  /\ nonce' = [nonce EXCEPT ![snd] = @ + 1]          \* the Ethereum transaction itself is valid and consumes a nonce
  /\ open' = open + 1 /\ ntx' = ntx + 1
  /\ last' = [op |-> "Tx", b |-> b, sl |-> sl, route |-> route, snd |-> snd, res |-> res]
  /\ UNCHANGED <<vals, chain, halted, rep>>

(* the identical signed transaction of snd once more: its nonce is consumed, it never executes *)
Resend(snd) ==
  /\ ~TallyOnly /\ ~halted /\ ntx < MaxTx /\ Len(chain) < MaxBlocks
  /\ nonce[snd] > 0
  /\ open' = open + 1 /\ ntx' = ntx + 1
  /\ blk' = Append(blk, [c |-> NoCh, s |-> NoCh])
  /\ last' = [op |-> "Resend", snd |-> snd]
  /\ UNCHANGED <<vals, pend, nonce, chain, halted, rep>>

CloseBlock ==
  /\ ~TallyOnly /\ ~halted /\ open > 0
  /\ LET r == ApplyP(vals, pend) IN
       /\ chain' = Append(chain, [pend |-> pend, blk |-> blk, vals |-> r.vals, nonce |-> nonce, ok |-> r.ok])
       /\ vals' = r.vals
       /\ halted' = ~r.ok
  /\ pend' = <<>> /\ blk' = <<>> /\ open' = 0
  /\ last' = [op |-> "CloseBlock"]
  /\ UNCHANGED <<nonce, ntx, rep>>

(* replica r executes its next block: State.ExecBlock incl. Angine.EndBlock *)
Exec(r, out) ==
  /\ ~TallyOnly /\ rep[r].h < Len(chain)
  /\ LET k   == rep[r].h + 1
         res == ApplyP(rep[r].vals, rep[r].extra \o chain[k].pend)
     IN /\ out = IF res.ok THEN "ok" ELSE "endBlockError"
        /\ rep' = IF res.ok THEN [rep EXCEPT ![r] = [h |-> k, vals |-> res.vals, extra |-> <<>>]]
                           ELSE [rep EXCEPT ![r].extra = <<>>]              \* plugin Reset() is deferred
  /\ last' = [op |-> "Exec", r |-> r, out |-> out]
  /\ UNCHANGED <<vals, pend, blk, nonce, open, ntx, chain, halted>>

(* replica r executes its next block while, on another goroutine of the same process, a read-only contract    *)
(* query carrying transaction i's own bytes reaches the 0xfe precompile exactly between run()'s                 *)
(* SetState/SetCaller for transaction i and AdminOP.Run reading them back (vm.DefaultAdminContract is one       *)
(* object per process).  At HEAD the query returns before it touches the object: the step equals Exec.        *)
Staged(b, i) == LET pick(j) == IF QueryTouches /\ j = i THEN b[j].s ELSE b[j].c
                IN SelectSeq([j \in 1..Len(b) |-> pick(j)], LAMBDA c : c # NoCh)
ExecQ(r, i, out) ==
  /\ ~TallyOnly /\ rep[r].h < Len(chain)
  /\ i \in 1..Len(chain[rep[r].h + 1].blk)
  /\ LET k   == rep[r].h + 1
         res == ApplyP(rep[r].vals, rep[r].extra \o Staged(chain[k].blk, i))
     IN /\ out = IF res.ok THEN "ok" ELSE "endBlockError"
        /\ rep' = IF res.ok THEN [rep EXCEPT ![r] = [h |-> k, vals |-> res.vals, extra |-> <<>>]]
                           ELSE [rep EXCEPT ![r].extra = <<>>]
  /\ last' = [op |-> "ExecQ", r |-> r, i |-> i, out |-> out]
  /\ UNCHANGED <<vals, pend, blk, nonce, open, ntx, chain, halted>>

(* a read-only contract query with the same payload, on replica r only *)
Query(r, b, sl, snd, res) ==
  /\ ~TallyOnly /\ ntx < MaxTx /\ rep[r].h > 0          \* (a query before the first block has no header to run on)
  /\ LET nn == chain[rep[r].h].nonce IN
       res = IF QueryOpen THEN Result(rep[r].vals, nn, b, sl, "contract", snd) ELSE "rejQuery"
  /\ rep' = IF res = "ok" THEN [rep EXCEPT ![r].extra = Append(@, Change(b))] ELSE rep
  /\ ntx' = ntx + 1
  /\ last' = [op |-> "Query", r |-> r, b |-> b, sl |-> sl, snd |-> snd, res |-> res]
  /\ UNCHANGED <<vals, pend, blk, nonce, open, chain, halted>>

(* CheckMajor23 alone *)
Check(sl, r) ==
  /\ TallyOnly
  /\ r = Major23(vals, sl)
  /\ last' = [op |-> "Check", sl |-> sl, r |-> r]
  /\ UNCHANGED <<vals, pend, blk, nonce, open, ntx, chain, halted, rep>>

Results == {"ok", "noop", "rejRoute", "rejAuth", "rejType", "rejFrom", "rejNonce", "rejSelf", "rejMember", "rejCmd", "rejQuery"}

\* Next enumerates the reply so that every edge of TLC's state graph is labelled Tx(b, sl, route, snd, res).
Next ==
  \/ \E b \in Bodies, sl \in SigLists, route \in Routes, snd \in Accounts, res \in Results :
        Tx(b, sl, route, snd, res)
  \/ \E snd \in Accounts : Resend(snd)
  \/ CloseBlock
  \/ \E r \in Replicas, out \in {"ok", "endBlockError"} : Exec(r, out)
  \/ \E r \in Replicas, i \in 1..MaxTx, out \in {"ok", "endBlockError"} : ExecQ(r, i, out)
  \/ \E r \in Replicas, b \in Bodies, sl \in SigLists, snd \in Accounts, res \in Results : Query(r, b, sl, snd, res)
  \/ \E sl \in SigLists, r \in BOOLEAN : Check(sl, r)

\* The same relation with the reply computed instead of guessed (11 times fewer evaluations); TLC cannot label
\* these steps, the action and its arguments are read from `last`.  Used for the large configurations.
NextFast ==
  \/ \E b \in Bodies, sl \in SigLists, route \in Routes, snd \in Accounts :
        Tx(b, sl, route, snd, Result(vals, nonce, b, sl, route, snd))
  \/ \E snd \in Accounts : Resend(snd)
  \/ CloseBlock
  \/ \E r \in Replicas, out \in {"ok", "endBlockError"} : Exec(r, out)
  \/ \E r \in Replicas, i \in 1..MaxTx, out \in {"ok", "endBlockError"} : ExecQ(r, i, out)
  \/ \E r \in Replicas, b \in Bodies, sl \in SigLists, snd \in Accounts :
        /\ rep[r].h > 0
        /\ Query(r, b, sl, snd, IF QueryOpen THEN Result(rep[r].vals, chain[rep[r].h].nonce, b, sl, "contract", snd) ELSE "rejQuery")
  \/ \E sl \in SigLists : Check(sl, Major23(vals, sl))

Spec     == Init /\ [][Next]_vars
SpecFast == Init /\ [][NextFast]_vars

\* the chain stays operable: some validator keeps power (removing the last one stops every replica alike)
Viable == /\ Total(vals) > 0
          /\ \A r \in Replicas : Total(rep[r].vals) > 0

--------------------------------------------------------------------------------------
(* Properties (C14) *)

TypeOK ==
  /\ vals \in [Nodes -> Int] /\ nonce \in [Accounts -> Nat]
  /\ halted \in BOOLEAN /\ open \in Nat /\ ntx \in Nat

\* every signer is counted once: the coded tally agrees with the distinct-signer tally, for every list
\* considered and every validator set reachable
CountedOnce == \A sl \in SigLists : Major23(vals, sl) <=> Authorised(vals, sl)

\* a change is staged only by a transaction that carries valid signatures, over that request, of distinct
\* current validators with more than 2/3 of the power, submitted through the Admin contract by the account
\* the request is bound to, with that account's current nonce
ChangeOnlyIfAuthorised ==
  [][ pend' # pend /\ pend' # <<>> =>
        /\ last'.op = "Tx"
        /\ Authorised(vals, last'.sl)
        /\ last'.route = "contract" /\ last'.b.addr = last'.snd /\ last'.b.n = nonce[last'.snd]
        /\ last'.b.ct = "ok" ]_vars

\* the set in force changes only at the end of a block, by the staged changes, for the NEXT height
ChangeAtEndBlockOnly ==
  [][ vals' # vals => last'.op = "CloseBlock" /\ vals' = ApplyP(vals, pend).vals ]_vars

\* a request whose (account, nonce) is consumed, lies in the future, or is not the sender's changes nothing
ReplayChangesNothing ==
  [][ (last'.op = "Tx" /\ (last'.b.n # nonce[last'.b.addr] \/ last'.b.addr # last'.snd)) => pend' = pend ]_vars

\* a re-sent transaction and a query change nothing anywhere
NoSideChannel ==
  [][ last'.op \in {"Resend", "Query", "Check"} =>
        /\ UNCHANGED <<vals, pend, nonce>>
        /\ \A r \in Replicas : rep'[r].extra = <<>> ]_vars

\* the outcome of executing a block -- which requests are accepted, what is staged, the next validator set -- is a
\* function of the block (and the state it is executed on) alone, whatever queries the replica serves meanwhile
OutcomeFromBlockAlone ==
  [][ last'.op \in {"Exec", "ExecQ"} =>
        LET r == last'.r
            k == rep[r].h + 1
        IN /\ last'.out = (IF chain[k].ok THEN "ok" ELSE "endBlockError")
           /\ (chain[k].ok => rep'[r].h = k /\ rep'[r].vals = chain[k].vals) ]_vars

\* replicas at the same height report the same validator set for the next height: the one the chain defines
UniformApplication ==
  /\ \A r1, r2 \in Replicas : rep[r1].h = rep[r2].h => rep[r1].vals = rep[r2].vals
  /\ \A r \in Replicas : rep[r].vals = IF rep[r].h = 0 THEN InitPower ELSE chain[rep[r].h].vals
===================================================================================
