SPECIFICATION Spec
CONSTANTS
  Nodes = {1, 2, 3, 4}
  InitPower <- P111x
  Accounts = {"a", "b"}
  Bodies <- BodiesQ
  SigLists <- ListsQ
  Replicas = {1, 2}
  MaxTx = 2
  MaxBlocks = 2
  DedupSigners = TRUE
  DirectOpen = FALSE
  QueryOpen = FALSE
  QueryTouches = TRUE
  Routes = {"contract", "direct"}
  TallyOnly = FALSE
VIEW view
CONSTRAINT Viable
INVARIANTS TypeOK CountedOnce UniformApplication
PROPERTIES ChangeOnlyIfAuthorised ChangeAtEndBlockOnly ReplayChangesNothing NoSideChannel OutcomeFromBlockAlone
CHECK_DEADLOCK FALSE
