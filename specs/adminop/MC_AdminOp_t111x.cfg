SPECIFICATION Spec
CONSTANTS
  Nodes = {1, 2, 3, 4}
  InitPower <- P111x
  Accounts = {"a", "b"}
  Bodies <- BodiesQ
  SigLists <- AllLists3
  Replicas = {1, 2}
  MaxTx = 1
  MaxBlocks = 1
  DedupSigners = TRUE
  DirectOpen = FALSE
  QueryOpen = FALSE
  QueryTouches = FALSE
  Routes = {"contract", "direct"}
  TallyOnly = TRUE
VIEW view
CONSTRAINT Viable
INVARIANTS TypeOK CountedOnce UniformApplication
PROPERTIES ChangeOnlyIfAuthorised ChangeAtEndBlockOnly ReplayChangesNothing NoSideChannel OutcomeFromBlockAlone
CHECK_DEADLOCK FALSE
